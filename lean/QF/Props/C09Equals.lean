import QF.Spec.Ops
/-!
# C09: `Equals` is an equivalence relation

`equalsS` (QF/Spec/Ops.lean) is the specification of `QFrame.Equals`. Here we prove that it is
reflexive, symmetric and transitive on *arbitrary* logical frames (no well-formedness hypothesis is
needed: `cells[r]!` falls back to the default cell on both sides), and that it ignores the enum value
table (`vals`) and strictness flag (`strict`) of the columns.
-/
namespace QF.Props.C09
open QF

/-! ## Cells -/

theorem cellEq_refl (c : Cell) : cellEq c c = true := by
  cases c with
  | float b => cases h : F64.isNaN b <;> simp [cellEq, h]
  | int v => simp [cellEq]
  | bool b => simp [cellEq]
  | str s => simp [cellEq]

theorem cellEq_symm (a b : Cell) : cellEq a b = cellEq b a := by
  cases a <;> cases b <;> simp only [cellEq]
  case float.float x y =>
    have hk : (F64.key x == F64.key y) = (F64.key y == F64.key x) := Bool.beq_comm
    rw [hk]
    cases F64.isNaN x <;> cases F64.isNaN y <;> rfl
  all_goals exact Bool.beq_comm

theorem cellEq_trans (a b c : Cell) : cellEq a b = true → cellEq b c = true → cellEq a c = true := by
  cases a <;> cases b <;> cases c <;> simp only [cellEq]
  case float.float.float x y z =>
    cases F64.isNaN x <;> cases F64.isNaN y <;> cases F64.isNaN z <;> simp
    intro h1 h2; exact h1.trans h2
  all_goals
    intro h1 h2
    first
      | (exact absurd (eq_of_beq h1) Cell.noConfusion)
      | (exact absurd (eq_of_beq h2) Cell.noConfusion)
      | (rw [eq_of_beq h1, ← eq_of_beq h2]; exact beq_self_eq_true _)

/-! ## Generic facts about `all` over a `zip` -/

theorem zipAll_refl {α : Type} (R : α → α → Bool) (h : ∀ x, R x x = true) (l : List α) :
    (List.zip l l).all (fun p => R p.1 p.2) = true := by
  induction l with
  | nil => rfl
  | cons x xs ih => simp only [List.zip_cons_cons, List.all_cons, h, ih, Bool.and_self]

theorem zipAll_symm {α : Type} (R : α → α → Bool) (h : ∀ x y, R x y = R y x) (l₁ l₂ : List α) :
    (List.zip l₁ l₂).all (fun p => R p.1 p.2) = (List.zip l₂ l₁).all (fun p => R p.1 p.2) := by
  induction l₁ generalizing l₂ with
  | nil => cases l₂ <;> rfl
  | cons x xs ih =>
    cases l₂ with
    | nil => rfl
    | cons y ys => simp only [List.zip_cons_cons, List.all_cons, h x y, ih ys]

theorem zipAll_trans {α : Type} (R : α → α → Bool)
    (h : ∀ x y z, R x y = true → R y z = true → R x z = true) (l₁ l₂ l₃ : List α)
    (hlen : l₁.length = l₂.length) :
    (List.zip l₁ l₂).all (fun p => R p.1 p.2) = true →
    (List.zip l₂ l₃).all (fun p => R p.1 p.2) = true →
    (List.zip l₁ l₃).all (fun p => R p.1 p.2) = true := by
  induction l₁ generalizing l₂ l₃ with
  | nil => intro _ _; rfl
  | cons x xs ih =>
    cases l₂ with
    | nil => simp at hlen
    | cons y ys =>
      cases l₃ with
      | nil => intro _ _; rfl
      | cons z zs =>
        simp only [List.zip_cons_cons, List.all_cons, Bool.and_eq_true]
        intro ⟨h1, h1'⟩ ⟨h2, h2'⟩
        exact ⟨h x y z h1 h2, ih ys zs (by simpa using hlen) h1' h2'⟩

/-- `f` does not change the relation `R`: the `all` over the zip of the mapped lists is unchanged. -/
theorem zipAll_map {α : Type} (R : α → α → Bool) (f g : α → α)
    (h : ∀ x y, R (f x) (g y) = R x y) (l₁ l₂ : List α) :
    (List.zip (l₁.map f) (l₂.map g)).all (fun p => R p.1 p.2) =
    (List.zip l₁ l₂).all (fun p => R p.1 p.2) := by
  induction l₁ generalizing l₂ with
  | nil => rfl
  | cons x xs ih =>
    cases l₂ with
    | nil => rfl
    | cons y ys => simp only [List.map_cons, List.zip_cons_cons, List.all_cons, h x y, ih ys]

/-! ## Columns -/

/-- The first `n` cells of two columns are pairwise `cellEq`. -/
def colEq (n : Nat) (x y : LCol) : Bool :=
  (List.range n).all (fun r => cellEq x.cells[r]! y.cells[r]!)

theorem colEq_refl (n : Nat) (x : LCol) : colEq n x x = true := by
  simp only [colEq, List.all_eq_true]
  intro r _; exact cellEq_refl _

theorem colEq_symm (n : Nat) (x y : LCol) : colEq n x y = colEq n y x := by
  simp only [colEq]
  congr 1; funext r; exact cellEq_symm _ _

theorem colEq_trans (n : Nat) (x y z : LCol) :
    colEq n x y = true → colEq n y z = true → colEq n x z = true := by
  simp only [colEq, List.all_eq_true]
  intro h1 h2 r hr
  exact cellEq_trans _ _ _ (h1 r hr) (h2 r hr)

/-! ## Frames -/

/-- `equalsS` restated with `colEq`. -/
theorem equalsS_eq (a b : LFrame) :
    equalsS a b =
      (a.n == b.n && a.names == b.names && (a.cols.map (·.ty)) == (b.cols.map (·.ty)) &&
        (List.zip a.cols b.cols).all (fun p => colEq a.n p.1 p.2)) := rfl

theorem equalsS_refl (f : LFrame) : equalsS f f = true := by
  rw [equalsS_eq, zipAll_refl (colEq f.n) (colEq_refl f.n)]
  simp

theorem equalsS_symm (a b : LFrame) : equalsS a b = equalsS b a := by
  rw [equalsS_eq, equalsS_eq, zipAll_symm (colEq a.n) (colEq_symm a.n) a.cols b.cols]
  have e1 : (a.n == b.n) = (b.n == a.n) := Bool.beq_comm
  have e2 : (a.names == b.names) = (b.names == a.names) := Bool.beq_comm
  have e3 : (a.cols.map (·.ty) == b.cols.map (·.ty)) = (b.cols.map (·.ty) == a.cols.map (·.ty)) :=
    Bool.beq_comm
  rw [e1, e2, e3]
  cases h : (b.n == a.n)
  · rfl
  · rw [eq_of_beq h]

theorem equalsS_trans (a b c : LFrame) :
    equalsS a b = true → equalsS b c = true → equalsS a c = true := by
  rw [equalsS_eq, equalsS_eq, equalsS_eq]
  simp only [Bool.and_eq_true, beq_iff_eq]
  intro ⟨⟨⟨hn1, hm1⟩, ht1⟩, hz1⟩ ⟨⟨⟨hn2, hm2⟩, ht2⟩, hz2⟩
  refine ⟨⟨⟨hn1.trans hn2, hm1.trans hm2⟩, ht1.trans ht2⟩, ?_⟩
  have hlen : a.cols.length = b.cols.length := by
    have := congrArg List.length hm1
    simpa [LFrame.names] using this
  rw [← hn1] at hz2
  exact zipAll_trans (colEq a.n) (colEq_trans a.n) _ _ _ hlen hz1 hz2

/-! ## What `Equals` ignores -/

/-- Replace the enum value table and strictness flag of a column, keeping name, type and cells. -/
def LCol.setEnum (c : LCol) (t : List Bytes × Bool) : LCol :=
  { c with vals := t.1, strict := t.2 }

/-- Rewrite the enum value table and strictness flag of every column with an arbitrary,
column-dependent choice `t`. -/
def LFrame.setEnum (f : LFrame) (t : LCol → List Bytes × Bool) : LFrame :=
  { f with cols := f.cols.map (fun c => LCol.setEnum c (t c)) }

theorem names_setEnum (f : LFrame) (t : LCol → List Bytes × Bool) :
    (LFrame.setEnum f t).names = f.names := by
  simp [LFrame.setEnum, LFrame.names, LCol.setEnum, Function.comp_def]

theorem types_setEnum (f : LFrame) (t : LCol → List Bytes × Bool) :
    (LFrame.setEnum f t).cols.map (·.ty) = f.cols.map (·.ty) := by
  simp [LFrame.setEnum, LCol.setEnum, Function.comp_def]

/-- `equalsS` does not look at `vals`/`strict` at all: rewriting them arbitrarily (and independently)
in both arguments does not change the verdict. -/
theorem equalsS_setEnum (a b : LFrame) (t u : LCol → List Bytes × Bool) :
    equalsS (LFrame.setEnum a t) (LFrame.setEnum b u) = equalsS a b := by
  rw [equalsS_eq, equalsS_eq, names_setEnum, names_setEnum, types_setEnum, types_setEnum]
  have : (List.zip (LFrame.setEnum a t).cols (LFrame.setEnum b u).cols).all
            (fun p => colEq (LFrame.setEnum a t).n p.1 p.2) =
         (List.zip a.cols b.cols).all (fun p => colEq a.n p.1 p.2) :=
    zipAll_map (colEq a.n) (fun c => LCol.setEnum c (t c)) (fun c => LCol.setEnum c (u c))
      (fun _ _ => rfl) a.cols b.cols
  rw [this]
  rfl

/-- Two frames that differ only in the `vals`/`strict` fields of their columns are `equalsS`-equal:
a frame equals any rewriting of its own enum tables. -/
theorem equalsS_ignores_enum_table (f : LFrame) (t : LCol → List Bytes × Bool) :
    equalsS f (LFrame.setEnum f t) = true := by
  have h := equalsS_setEnum f f (fun c => (c.vals, c.strict)) t
  have hid : LFrame.setEnum f (fun c => (c.vals, c.strict)) = f := by
    cases f with
    | mk cols n =>
      simp only [LFrame.setEnum, LCol.setEnum]
      congr 1
      exact List.map_id' cols
  rw [hid] at h
  rw [h]; exact equalsS_refl f

/-- More generally, two rewritings of the same frame are equal. -/
theorem equalsS_ignores_enum_table' (f : LFrame) (t u : LCol → List Bytes × Bool) :
    equalsS (LFrame.setEnum f t) (LFrame.setEnum f u) = true := by
  rw [equalsS_setEnum]; exact equalsS_refl f

/-! ## Non-trivial instances -/

/-- +0 / -0 / NaN with different payloads; a third float column differing in payload only. -/
def exA : LFrame :=
  { n := 3
    cols := [
      { name := [120], ty := .float, cells := #[.float 0, .float 0x7ff8000000000001, .float 0x3ff0000000000000] },
      { name := [121], ty := .enum, vals := [[97], [98]], strict := true,
        cells := #[.str (some [97]), .str none, .str (some [98])] },
      -- ill-formed on purpose: fewer cells than `n`
      { name := [122], ty := .int, cells := #[.int 1] } ] }

def exB : LFrame :=
  { n := 3
    cols := [
      { name := [120], ty := .float, cells := #[.float 0x8000000000000000, .float 0xfff0000000000005, .float 0x3ff0000000000000] },
      { name := [121], ty := .enum, vals := [[98], [97], [99]], strict := false,
        cells := #[.str (some [97]), .str none, .str (some [98])] },
      { name := [122], ty := .int, cells := #[.int 1, .int 0, .int 0, .int 7] } ] }

def exC : LFrame :=
  { n := 3
    cols := [
      { name := [120], ty := .float, cells := #[.float 0, .float 0x7ff0000000000001, .float 0x3ff0000000000000] },
      { name := [121], ty := .enum, cells := #[.str (some [97]), .str none, .str (some [98])] },
      { name := [122], ty := .int, cells := #[.int 1, .int 0, .int 0] } ] }

/-- Hypotheses of `cellEq_trans` on -0, +0 (and the relation is not plain equality). -/
example : cellEq (.float 0x8000000000000000) (.float 0) = true ∧
    cellEq (.float 0) (.float 0x8000000000000000) = true ∧
    Cell.float 0x8000000000000000 ≠ Cell.float 0 := by decide

/-- Hypotheses of `cellEq_trans` on NaNs with different payloads. -/
example : cellEq (.float 0x7ff8000000000001) (.float 0xfff0000000000005) = true ∧
    cellEq (.float 0xfff0000000000005) (.float 0x7ff0000000000001) = true := by decide

/-- Hypotheses of `equalsS_trans` hold on three pairwise different frames. -/
example : equalsS exA exB = true ∧ equalsS exB exC = true := by decide

/-- ... and the relation is not trivially true. -/
example : equalsS exA { exA with n := 2 } = false := by decide

/-- `exB`'s enum column is a genuine rewriting target: tables differ, verdict does not. -/
example : equalsS exA (LFrame.setEnum exA (fun _ => ([[98], [97], [99]], false))) = true :=
  equalsS_ignores_enum_table _ _

#print axioms cellEq_refl
#print axioms cellEq_symm
#print axioms cellEq_trans
#print axioms equalsS_refl
#print axioms equalsS_symm
#print axioms equalsS_trans
#print axioms equalsS_setEnum
#print axioms equalsS_ignores_enum_table
#print axioms equalsS_ignores_enum_table'

end QF.Props.C09
