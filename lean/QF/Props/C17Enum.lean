import QF.Spec.Filter
import QF.Spec.Ops
/-!
# C17 — enum columns, on the specification

Statements of property C17 about the spec functions `mkEnum` (Ops.lean), `enumRank`, `cellCmp`
(Basic.lean), `cmp6` and `leafPred` (Filter.lean).

* `mkEnum_declared`   declared values: strict, table = declaration, fails on any undeclared value.
* `mkEnum_derived`    nothing declared: the distinct non-null cells in order of first appearance
                      (`FirstAppearance`, which determines the table: `firstAppearance_unique`),
                      `none` exactly beyond 255 distinct values, never strict.
* `mkEnum_rank_lt_255` every rank is < 255 (255 is the null code); a rank is a position holding the
                      value asked for, is injective, and in a duplicate-free table every position is a rank.
* `enum_order_declared` comparisons follow the position in the table, not the alphabet.
* `enum_null_distinct` a null cell is incomparable with every cell.
* `enum_filter_undeclared` constant outside the table: error if strict, else all-false (all-true for `!=`).

`mkEnum` itself does not require the declaration to be duplicate-free; the statements that need it carry
`Nodup` as a hypothesis (a derived table always is: `FirstAppearance.nodup`).  With duplicates `enumRank`
answers the first position (`enumRank_eq_idxOf`).
-/

namespace QF.Props.C17Enum
open QF

/-! ## value tables derived from the data -/

/-- One step of the derivation of a value table: a new non-null string is appended. -/
def step (acc : List Bytes) (c : Cell) : List Bytes :=
  match c with
  | .str (some s) => if acc.contains s then acc else acc ++ [s]
  | _ => acc

def deriveFrom (acc : List Bytes) (cells : List Cell) : List Bytes := cells.foldl step acc

/-- The value table `mkEnum` derives when nothing is declared. -/
def derive (cells : List Cell) : List Bytes := deriveFrom [] cells

theorem mkEnum_nil (cells : List Cell) :
    mkEnum [] cells = if (derive cells).length > 255 then none else some (derive cells, false) := rfl

/-- A cell is acceptable for a declared value set: null, or one of the declared values. -/
def declOk (declared : List Bytes) (c : Cell) : Bool :=
  match c with
  | .str (some s) => declared.contains s
  | _ => true

theorem mkEnum_eq (declared : List Bytes) (cells : List Cell) :
    mkEnum declared cells =
      if declared.length > 255 then none
      else if !declared.isEmpty then
        (if cells.all (declOk declared) then some (declared, true) else none)
      else if (derive cells).length > 255 then none else some (derive cells, false) := rfl

@[simp] theorem deriveFrom_nil (acc : List Bytes) : deriveFrom acc [] = acc := rfl
@[simp] theorem deriveFrom_cons (acc : List Bytes) (c : Cell) (t : List Cell) :
    deriveFrom acc (c :: t) = deriveFrom (step acc c) t := rfl

theorem step_str_mem {acc : List Bytes} {s : Bytes} (h : s ∈ acc) : step acc (.str (some s)) = acc := by
  simp [step, h]

theorem step_str_not_mem {acc : List Bytes} {s : Bytes} (h : s ∉ acc) :
    step acc (.str (some s)) = acc ++ [s] := by
  simp [step, h]

theorem step_other {acc : List Bytes} {c : Cell} (h : ∀ s, c ≠ .str (some s)) : step acc c = acc := by
  unfold step
  split
  · next s => exact absurd rfl (h s)
  · rfl

/-- Case analysis on a step. -/
theorem step_cases (acc : List Bytes) (c : Cell) :
    (step acc c = acc ∧ ∀ s, c = .str (some s) → s ∈ acc) ∨
    (∃ s, c = .str (some s) ∧ s ∉ acc ∧ step acc c = acc ++ [s]) := by
  by_cases h : ∃ s, c = .str (some s)
  · obtain ⟨s, rfl⟩ := h
    by_cases hs : s ∈ acc
    · left; refine ⟨step_str_mem hs, ?_⟩
      intro s' h'; cases h'; exact hs
    · right; exact ⟨s, rfl, hs, step_str_not_mem hs⟩
  · left
    refine ⟨step_other (fun s hs => h ⟨s, hs⟩), ?_⟩
    intro s hs; exact absurd ⟨s, hs⟩ h

theorem deriveFrom_prefix (acc : List Bytes) (cells : List Cell) :
    ∃ e, deriveFrom acc cells = acc ++ e := by
  induction cells generalizing acc with
  | nil => exact ⟨[], by simp⟩
  | cons c t ih =>
    rcases step_cases acc c with ⟨h, _⟩ | ⟨s, _, _, h⟩
    · simpa [h] using ih acc
    · obtain ⟨e, he⟩ := ih (acc ++ [s])
      exact ⟨s :: e, by simp [h, he]⟩

theorem deriveFrom_nodup (acc : List Bytes) (cells : List Cell) (h : acc.Nodup) :
    (deriveFrom acc cells).Nodup := by
  induction cells generalizing acc with
  | nil => simpa
  | cons c t ih =>
    rcases step_cases acc c with ⟨h', _⟩ | ⟨s, _, hs, h'⟩
    · simpa [h'] using ih acc h
    · rw [deriveFrom_cons, h']
      apply ih
      rw [List.nodup_append]
      refine ⟨h, by simp, ?_⟩
      intro a ha b hb
      simp at hb; subst hb
      intro e; subst e; exact hs ha

theorem mem_deriveFrom (acc : List Bytes) (cells : List Cell) (s : Bytes) :
    s ∈ deriveFrom acc cells ↔ s ∈ acc ∨ Cell.str (some s) ∈ cells := by
  induction cells generalizing acc with
  | nil => simp
  | cons c t ih =>
    rw [deriveFrom_cons, ih]
    rcases step_cases acc c with ⟨h', hm⟩ | ⟨s', hc, hs, h'⟩
    · rw [h']
      constructor
      · rintro (h | h)
        · exact .inl h
        · exact .inr (List.mem_cons_of_mem _ h)
      · rintro (h | h)
        · exact .inl h
        · rcases List.mem_cons.1 h with h | h
          · exact .inl (hm s h.symm)
          · exact .inr h
    · subst hc
      rw [h']
      simp only [List.mem_append, List.mem_cons, List.not_mem_nil, or_false, Cell.str.injEq, Option.some.injEq]
      constructor
      · rintro ((h | h) | h)
        · exact .inl h
        · exact .inr (.inl h)
        · exact .inr (.inr h)
      · rintro (h | h | h)
        · exact .inl (.inl h)
        · exact .inl (.inr h)
        · exact .inr h

/-- Position of a value in the derived table (relative to the order of first appearance in the data). -/
theorem deriveFrom_order (acc : List Bytes) (cells : List Cell) (x y : Bytes)
    (hx : x ∈ deriveFrom acc cells) (hy : y ∈ deriveFrom acc cells) (hxa : x ∉ acc) (hya : y ∉ acc) :
    ((deriveFrom acc cells).idxOf x < (deriveFrom acc cells).idxOf y ↔
      cells.idxOf (Cell.str (some x)) < cells.idxOf (Cell.str (some y))) := by
  induction cells generalizing acc with
  | nil => simp at hx; exact absurd hx hxa
  | cons c t ih =>
    rw [deriveFrom_cons] at hx hy ⊢
    rcases step_cases acc c with ⟨h', hm⟩ | ⟨s, hc, hs, h'⟩
    · rw [h'] at hx hy ⊢
      have hcx : (c == Cell.str (some x)) = false := by
        apply beq_false_of_ne; intro e; exact hxa (hm x e)
      have hcy : (c == Cell.str (some y)) = false := by
        apply beq_false_of_ne; intro e; exact hya (hm y e)
      rw [List.idxOf_cons, List.idxOf_cons, hcx, hcy, ih acc hx hy hxa hya]
      simp
    · subst hc
      rw [h'] at hx hy ⊢
      obtain ⟨e, he⟩ := deriveFrom_prefix (acc ++ [s]) t
      -- position of `s` itself
      have hsidx : (deriveFrom (acc ++ [s]) t).idxOf s = acc.length := by
        rw [he, List.append_assoc, List.idxOf_append, if_neg hs]
        simp
      have hother : ∀ z, z ∉ acc → z ≠ s → z ∈ deriveFrom (acc ++ [s]) t →
          acc.length < (deriveFrom (acc ++ [s]) t).idxOf z := by
        intro z hza hzs hz
        have hz' : z ∉ acc ++ [s] := by simp [hza, hzs]
        rw [he, List.idxOf_append, if_neg hz']
        simp; omega
      by_cases hxs : x = s
      · subst hxs
        by_cases hys : y = x
        · subst hys; simp
        · have := hother y hya hys hy
          have hne : (Cell.str (some x) == Cell.str (some y)) = false := by
            apply beq_false_of_ne; intro e; cases e; exact hys rfl
          rw [hsidx, List.idxOf_cons, List.idxOf_cons, hne]
          simp; omega
      · by_cases hys : y = s
        · subst hys
          have := hother x hxa hxs hx
          have hne : (Cell.str (some y) == Cell.str (some x)) = false := by
            apply beq_false_of_ne; intro e; cases e; exact hxs rfl
          rw [hsidx, List.idxOf_cons, List.idxOf_cons, hne]
          simp; omega
        · have hx' : x ∉ acc ++ [s] := by simp [hxa, hxs]
          have hy' : y ∉ acc ++ [s] := by simp [hya, hys]
          have hnx : (Cell.str (some s) == Cell.str (some x)) = false := by
            apply beq_false_of_ne; intro e; cases e; exact hxs rfl
          have hny : (Cell.str (some s) == Cell.str (some y)) = false := by
            apply beq_false_of_ne; intro e; cases e; exact hys rfl
          rw [List.idxOf_cons, List.idxOf_cons, hnx, hny, ih (acc ++ [s]) hx hy hx' hy']
          simp


/-! ## `enumRank` -/

theorem enumRank_eq_some_iff {vals : List Bytes} {s : Bytes} {i : Nat} :
    enumRank vals s = some i ↔ ∃ h : i < vals.length, vals[i] = s ∧ ∀ j (hj : j < i), vals[j] ≠ s := by
  unfold enumRank
  rw [List.findIdx?_eq_some_iff_getElem]
  simp

theorem enumRank_isSome_iff {vals : List Bytes} {s : Bytes} : (enumRank vals s).isSome ↔ s ∈ vals := by
  unfold enumRank
  rw [List.findIdx?_isSome]
  simp

theorem enumRank_eq_none_iff {vals : List Bytes} {s : Bytes} : enumRank vals s = none ↔ s ∉ vals := by
  rw [← enumRank_isSome_iff]; cases enumRank vals s <;> simp

/-- The rank is a position in the table and the value stored there is the value asked for. -/
theorem enumRank_getElem {vals : List Bytes} {s : Bytes} {i : Nat} (h : enumRank vals s = some i) :
    i < vals.length ∧ vals[i]? = some s := by
  obtain ⟨hi, he, _⟩ := enumRank_eq_some_iff.1 h
  exact ⟨hi, by simp [hi, he]⟩

/-- Two values never share a rank: no value is ever reported as a different string. -/
theorem enumRank_injective {vals : List Bytes} {x y : Bytes} {i : Nat}
    (hx : enumRank vals x = some i) (hy : enumRank vals y = some i) : x = y := by
  obtain ⟨_, hx', _⟩ := enumRank_eq_some_iff.1 hx
  obtain ⟨_, hy', _⟩ := enumRank_eq_some_iff.1 hy
  rw [← hx', ← hy']

/-- In a table without duplicates every position is the rank of the value stored there. -/
theorem enumRank_nodup {vals : List Bytes} (hnd : vals.Nodup) (i : Nat) (hi : i < vals.length) :
    enumRank vals vals[i] = some i := by
  rw [enumRank_eq_some_iff]
  refine ⟨hi, rfl, ?_⟩
  intro j hj e
  have := (List.pairwise_iff_getElem.1 hnd) j i (by omega) hi hj
  exact this e

theorem enumRank_eq_idxOf {vals : List Bytes} {s : Bytes} (h : s ∈ vals) :
    enumRank vals s = some (vals.idxOf s) := by
  induction vals with
  | nil => simp at h
  | cons a t ih =>
    unfold enumRank at ih ⊢
    rw [List.findIdx?_cons, List.idxOf_cons]
    by_cases ha : a = s
    · subst ha; simp
    · have : s ∈ t := by
        rcases List.mem_cons.1 h with h | h
        · exact absurd h.symm ha
        · exact h
      have hb : (a == s) = false := beq_false_of_ne ha
      simp [hb, ih this]

/-! ## C17: construction -/

/-- Declared values: the column is strict, the table is the declaration, and construction fails on any
undeclared value. -/
theorem mkEnum_declared (declared : List Bytes) (cells : List Cell)
    (hne : declared ≠ []) (hlen : declared.length ≤ 255) :
    (mkEnum declared cells = some (declared, true) ↔
        ∀ s, Cell.str (some s) ∈ cells → s ∈ declared) ∧
    (mkEnum declared cells = none ↔ ∃ s, Cell.str (some s) ∈ cells ∧ s ∉ declared) ∧
    (mkEnum declared cells = some (declared, true) ∨ mkEnum declared cells = none) := by
  have hall : cells.all (declOk declared) = true ↔
      ∀ s, Cell.str (some s) ∈ cells → s ∈ declared := by
    rw [List.all_eq_true]
    constructor
    · intro h s hs
      have := h _ hs
      simpa [declOk] using this
    · intro h c hc
      unfold declOk
      split
      · next s => simpa using h s hc
      · rfl
  have hE : declared.isEmpty = false := by
    cases declared with
    | nil => exact absurd rfl hne
    | cons _ _ => rfl
  have hL : ¬ declared.length > 255 := by omega
  rw [mkEnum_eq, if_neg hL]
  simp only [hE, Bool.not_false, if_true]
  by_cases hA : ∀ s, Cell.str (some s) ∈ cells → s ∈ declared
  · rw [if_pos (hall.2 hA)]
    refine ⟨⟨fun _ => hA, fun _ => rfl⟩, ?_, .inl rfl⟩
    constructor
    · intro h; cases h
    · rintro ⟨s, hs, hn⟩; exact absurd (hA s hs) hn
  · rw [if_neg (fun h => hA (hall.1 h))]
    refine ⟨⟨fun h => (by cases h), fun h => absurd h hA⟩, ?_, .inr rfl⟩
    constructor
    · intro _
      apply Classical.byContradiction
      intro hcon
      apply hA
      intro s hs
      apply Classical.byContradiction
      intro hn
      exact hcon ⟨s, hs, hn⟩
    · intro _; rfl

theorem idxOf_cons_ne {α} [BEq α] [LawfulBEq α] {a x : α} (t : List α) (h : x ≠ a) :
    (a :: t).idxOf x = t.idxOf x + 1 := by
  rw [List.idxOf_cons, beq_false_of_ne (Ne.symm h)]; rfl

theorem idxOf_cons_self' {α} [BEq α] [LawfulBEq α] (a : α) (t : List α) : (a :: t).idxOf a = 0 := by
  rw [List.idxOf_cons]; simp

/-- A duplicate-free list is determined by its members and the order of their positions. -/
theorem eq_of_same_order {α} [BEq α] [LawfulBEq α] (k : α → Nat) (v1 v2 : List α)
    (n1 : v1.Nodup) (n2 : v2.Nodup) (hm : ∀ x, x ∈ v1 ↔ x ∈ v2)
    (o1 : ∀ x y, x ∈ v1 → y ∈ v1 → (v1.idxOf x < v1.idxOf y ↔ k x < k y))
    (o2 : ∀ x y, x ∈ v2 → y ∈ v2 → (v2.idxOf x < v2.idxOf y ↔ k x < k y)) : v1 = v2 := by
  induction v1 generalizing v2 with
  | nil =>
    symm; rw [List.eq_nil_iff_forall_not_mem]
    intro x hx; exact absurd ((hm x).2 hx) (by simp)
  | cons a t ih =>
    cases v2 with
    | nil => exact absurd ((hm a).1 (by simp)) (by simp)
    | cons b t' =>
      have hab : a = b := by
        apply Classical.byContradiction
        intro hne
        have ha' : a ∈ b :: t' := (hm a).1 (by simp)
        have hb' : b ∈ a :: t := (hm b).2 (by simp)
        have h1 := (o1 a b (by simp) hb').1 (by
          rw [idxOf_cons_self', idxOf_cons_ne t (Ne.symm hne)]; omega)
        have h2 := (o2 b a (by simp) ha').1 (by
          rw [idxOf_cons_self', idxOf_cons_ne t' hne]; omega)
        omega
      subst hab
      rw [List.nodup_cons] at n1 n2
      have hmt : ∀ x, x ∈ t ↔ x ∈ t' := by
        intro x
        constructor
        · intro hx
          have hxa : x ≠ a := fun e => n1.1 (e ▸ hx)
          rcases List.mem_cons.1 ((hm x).1 (List.mem_cons_of_mem _ hx)) with h | h
          · exact absurd h hxa
          · exact h
        · intro hx
          have hxa : x ≠ a := fun e => n2.1 (e ▸ hx)
          rcases List.mem_cons.1 ((hm x).2 (List.mem_cons_of_mem _ hx)) with h | h
          · exact absurd h hxa
          · exact h
      congr 1
      apply ih t' n1.2 n2.2 hmt
      · intro x y hx hy
        have hxa : x ≠ a := fun e => n1.1 (e ▸ hx)
        have hya : y ≠ a := fun e => n1.1 (e ▸ hy)
        rw [← o1 x y (List.mem_cons_of_mem _ hx) (List.mem_cons_of_mem _ hy),
          idxOf_cons_ne t hxa, idxOf_cons_ne t hya]
        omega
      · intro x y hx hy
        have hxa : x ≠ a := fun e => n2.1 (e ▸ hx)
        have hya : y ≠ a := fun e => n2.1 (e ▸ hy)
        rw [← o2 x y (List.mem_cons_of_mem _ hx) (List.mem_cons_of_mem _ hy),
          idxOf_cons_ne t' hxa, idxOf_cons_ne t' hya]
        omega

/-- `vals` lists exactly the distinct non-null cells, in the order of their first appearance. -/
structure FirstAppearance (vals : List Bytes) (cells : List Cell) : Prop where
  nodup : vals.Nodup
  mem : ∀ s, s ∈ vals ↔ Cell.str (some s) ∈ cells
  order : ∀ x y, x ∈ vals → y ∈ vals →
    (vals.idxOf x < vals.idxOf y ↔ cells.idxOf (Cell.str (some x)) < cells.idxOf (Cell.str (some y)))

theorem derive_firstAppearance (cells : List Cell) : FirstAppearance (derive cells) cells where
  nodup := deriveFrom_nodup [] cells (by simp)
  mem := fun s => by simp [derive, mem_deriveFrom]
  order := fun x y hx hy => deriveFrom_order [] cells x y hx hy (by simp) (by simp)

/-- The three conditions determine the table: "the distinct values in order of first appearance" is a
complete description. -/
theorem firstAppearance_unique {v1 v2 : List Bytes} {cells : List Cell}
    (h1 : FirstAppearance v1 cells) (h2 : FirstAppearance v2 cells) : v1 = v2 :=
  eq_of_same_order (fun s => cells.idxOf (Cell.str (some s))) v1 v2 h1.nodup h2.nodup
    (fun x => by rw [h1.mem, h2.mem]) h1.order h2.order

/-- More than `n` distinct non-null values occur in `cells`. -/
def MoreDistinctThan (n : Nat) (cells : List Cell) : Prop :=
  ∃ l : List Bytes, l.Nodup ∧ (∀ s ∈ l, Cell.str (some s) ∈ cells) ∧ l.length > n

theorem moreDistinctThan_iff {vals : List Bytes} {cells : List Cell} (h : FirstAppearance vals cells) (n : Nat) :
    MoreDistinctThan n cells ↔ vals.length > n := by
  constructor
  · rintro ⟨l, hl, hm, hn⟩
    have : l.length ≤ vals.length :=
      hl.length_le_of_subset (fun s hs => (h.mem s).2 (hm s hs))
    omega
  · intro hn
    exact ⟨vals, h.nodup, fun s hs => (h.mem s).1 hs, hn⟩

/-- Nothing declared: the values are the distinct non-null cells in order of first appearance; the
construction fails exactly when there are more than 255 of them; the column is never strict. -/
theorem mkEnum_derived (cells : List Cell) :
    (mkEnum [] cells = none ↔ MoreDistinctThan 255 cells) ∧
    (∀ vals strict, mkEnum [] cells = some (vals, strict) →
        strict = false ∧ FirstAppearance vals cells ∧ vals.length ≤ 255) ∧
    (¬ MoreDistinctThan 255 cells → ∃ vals, mkEnum [] cells = some (vals, false)) := by
  have hfa := derive_firstAppearance cells
  have hiff := moreDistinctThan_iff hfa 255
  rw [mkEnum_nil]
  by_cases hlen : (derive cells).length > 255
  · rw [if_pos hlen]
    refine ⟨by simp [hiff, hlen], ?_, ?_⟩
    · intro vals strict h; cases h
    · intro h; exact absurd (hiff.2 hlen) h
  · rw [if_neg hlen]
    refine ⟨by simp [hiff, hlen], ?_, ?_⟩
    · intro vals strict h
      simp only [Option.some.injEq, Prod.mk.injEq] at h
      obtain ⟨rfl, rfl⟩ := h
      exact ⟨rfl, hfa, by omega⟩
    · intro _; exact ⟨_, rfl⟩

/-- Every table that `mkEnum` produces has at most 255 entries: every rank is below 255, the code of the
null marker. Ranks are positions, they identify the value, and in a duplicate-free table every position
is a rank. -/
theorem mkEnum_rank_lt_255 (declared : List Bytes) (cells : List Cell) (vals : List Bytes) (strict : Bool)
    (h : mkEnum declared cells = some (vals, strict)) :
    vals.length ≤ 255 ∧
    (∀ s i, enumRank vals s = some i → i < 255 ∧ vals[i]? = some s) ∧
    (∀ x y i, enumRank vals x = some i → enumRank vals y = some i → x = y) ∧
    (vals.Nodup → ∀ i (hi : i < vals.length), enumRank vals vals[i] = some i) := by
  have hlen : vals.length ≤ 255 := by
    rw [mkEnum_eq] at h
    split at h
    · cases h
    · next hl =>
      split at h
      · split at h
        · simp only [Option.some.injEq, Prod.mk.injEq] at h
          obtain ⟨rfl, _⟩ := h; omega
        · cases h
      · split at h
        · cases h
        · next hl2 =>
          simp only [Option.some.injEq, Prod.mk.injEq] at h
          obtain ⟨rfl, _⟩ := h; omega
  refine ⟨hlen, ?_, ?_, ?_⟩
  · intro s i hr
    have := enumRank_getElem hr
    exact ⟨by omega, this.2⟩
  · intro x y i hx hy; exact enumRank_injective hx hy
  · intro hnd i hi; exact enumRank_nodup hnd i hi


/-! ## C17: order, null, filters -/

/-- Ordering comparisons on an enum column follow the position in the value table, not the alphabet. -/
theorem enum_order_declared (c : LCol) (hty : c.ty = .enum) (hnd : c.vals.Nodup)
    (i j : Nat) (hi : i < c.vals.length) (hj : j < c.vals.length) :
    cellCmp c (.str (some c.vals[i])) (.str (some c.vals[j])) = some (compare i j) := by
  unfold cellCmp
  simp only [hty, beq_self_eq_true, if_true, enumRank_nodup hnd i hi, enumRank_nodup hnd j hj]

/-- The same statement with the values named: `x` and `y` are compared by their positions. -/
theorem enum_order_declared' (c : LCol) (hty : c.ty = .enum) (x y : Bytes)
    (hx : x ∈ c.vals) (hy : y ∈ c.vals) :
    cellCmp c (.str (some x)) (.str (some y)) = some (compare (c.vals.idxOf x) (c.vals.idxOf y)) := by
  unfold cellCmp
  simp only [hty, beq_self_eq_true, if_true, enumRank_eq_idxOf hx, enumRank_eq_idxOf hy]

/-- The six comparators on two values of the table answer by position. -/
theorem enum_cmp6_declared (c : LCol) (hty : c.ty = .enum) (hnd : c.vals.Nodup)
    (i j : Nat) (hi : i < c.vals.length) (hj : j < c.vals.length) (op : String) :
    cmp6 c op (.str (some c.vals[i])) (.str (some c.vals[j])) =
      (if op == "!=" then compare i j != .eq else ordOp op (compare i j)) := by
  unfold cmp6
  rw [enum_order_declared c hty hnd i j hi hj]

theorem cellCmp_null_left (c : LCol) (n a : Cell) (hn : n.isNull = true) : cellCmp c n a = none := by
  unfold cellCmp
  cases n with
  | int _ => simp [Cell.isNull] at hn
  | bool _ => simp [Cell.isNull] at hn
  | float x =>
    simp only [Cell.isNull] at hn
    cases a <;> simp [hn]
  | str s =>
    cases s with
    | some _ => simp [Cell.isNull] at hn
    | none => cases a <;> rfl

theorem cellCmp_null_right (c : LCol) (n a : Cell) (hn : n.isNull = true) : cellCmp c a n = none := by
  unfold cellCmp
  cases n with
  | int _ => simp [Cell.isNull] at hn
  | bool _ => simp [Cell.isNull] at hn
  | float x =>
    simp only [Cell.isNull] at hn
    cases a <;> simp [hn]
  | str s =>
    cases s with
    | some _ => simp [Cell.isNull] at hn
    | none =>
      cases a with
      | str t => cases t <;> rfl
      | _ => rfl

/-- Null stays distinct from every value (and from null): a null cell is incomparable with every cell,
so the six comparators are all false except `!=`, which is true. -/
theorem enum_null_distinct (c : LCol) (n a : Cell) (hn : n.isNull = true) :
    cellCmp c n a = none ∧ cellCmp c a n = none ∧
    (∀ op, cmp6 c op n a = (op == "!=")) ∧ (∀ op, cmp6 c op a n = (op == "!=")) := by
  refine ⟨cellCmp_null_left c n a hn, cellCmp_null_right c n a hn, ?_, ?_⟩
  · intro op; unfold cmp6; rw [cellCmp_null_left c n a hn]
  · intro op; unfold cmp6; rw [cellCmp_null_right c n a hn]

/-- The null cell of an enum column against any value of the column. -/
theorem enum_null_distinct_str (c : LCol) (x : Bytes) (op : String) :
    cmp6 c op (.str none) (.str (some x)) = (op == "!=") ∧
    cmp6 c op (.str (some x)) (.str none) = (op == "!=") :=
  ⟨(enum_null_distinct c (.str none) _ rfl).2.2.1 op, (enum_null_distinct c (.str none) _ rfl).2.2.2 op⟩

/-- A filter constant outside the value table: an error on a strict column, otherwise no row matches
(every row for `!=`). -/
theorem enum_filter_undeclared (lo : LikeOracle) (f : LFrame) (l : Leaf) (c : LCol) (op : String) (v : Bytes)
    (hf : f.find? l.col = some c) (hty : c.ty = .enum)
    (hcmp : l.cmp = .builtin op) (harg : l.arg = .cell (.str (some v)))
    (hop : isOrd6 op = true) (hv : v ∉ c.vals) :
    leafPred lo f l = if c.strict then none else some (fun _ => op == "!=") := by
  have hr : (enumRank c.vals v).isSome = false := by
    rw [enumRank_eq_none_iff.2 hv]; rfl
  unfold leafPred
  simp only [hf, hcmp, harg, hty, hop, hr, if_true]
  simp

/-- The counterpart: a constant of the table is compared row by row. -/
theorem enum_filter_declared (lo : LikeOracle) (f : LFrame) (l : Leaf) (c : LCol) (op : String) (v : Bytes)
    (hf : f.find? l.col = some c) (hty : c.ty = .enum)
    (hcmp : l.cmp = .builtin op) (harg : l.arg = .cell (.str (some v)))
    (hop : isOrd6 op = true) (hv : v ∈ c.vals) :
    leafPred lo f l = some (fun r => cmp6 c op c.cells[r]! (.str (some v))) := by
  have hr : (enumRank c.vals v).isSome = true := enumRank_isSome_iff.2 hv
  unfold leafPred
  simp only [hf, hcmp, harg, hty, hop, hr, if_true]


/-! ## Concrete instances: the hypotheses are satisfiable -/

section Examples

/-- "b" < "a" is declared; the data use both values and null. -/
private def declBA : List Bytes := [[98], [97]]
private def dataAB : List Cell := [.str (some [97]), .str none, .str (some [98]), .str (some [97])]

example : declBA ≠ [] ∧ declBA.length ≤ 255 ∧ mkEnum declBA dataAB = some (declBA, true) := by decide
-- an undeclared value ("c") makes the construction fail
example : mkEnum declBA (dataAB ++ [.str (some [99])]) = none := by decide
example : (∀ s, Cell.str (some s) ∈ dataAB → s ∈ declBA) :=
  ((mkEnum_declared declBA dataAB (by decide) (by decide)).1).1 (by decide)

-- derived: order of first appearance is a, b
example : mkEnum [] dataAB = some ([[97], [98]], false) := by decide
example : FirstAppearance [[97], [98]] dataAB :=
  ((mkEnum_derived dataAB).2.1 [[97], [98]] false (by decide)).2.1

/-- 256 distinct one-byte strings: beyond the limit. -/
private def many : List Cell := (List.range 256).map (fun i => Cell.str (some [UInt8.ofNat i]))

private theorem nodup_bytes256 : ((List.range 256).map (fun i => ([UInt8.ofNat i] : Bytes))).Nodup := by
  unfold List.Nodup
  rw [List.pairwise_map]
  refine List.Pairwise.imp_of_mem ?_ (List.nodup_range (n := 256))
  intro a b ha hb hab e
  simp only [List.mem_range] at ha hb
  simp only [List.cons.injEq, and_true] at e
  have := congrArg UInt8.toNat e
  simp only [UInt8.toNat_ofNat'] at this
  omega

example : MoreDistinctThan 255 many :=
  ⟨_, nodup_bytes256, by
    intro s hs
    obtain ⟨i, hi, rfl⟩ := List.mem_map.1 hs
    exact List.mem_map.2 ⟨i, hi, rfl⟩, by simp⟩
example : mkEnum [] many = none :=
  (mkEnum_derived many).1.2 ⟨_, nodup_bytes256, by
    intro s hs
    obtain ⟨i, hi, rfl⟩ := List.mem_map.1 hs
    exact List.mem_map.2 ⟨i, hi, rfl⟩, by simp⟩

private def colBA : LCol := { name := [120], ty := .enum, vals := declBA, strict := true, cells := dataAB.toArray }

-- the declared order is the reverse of the alphabetical one, and "<" follows the declaration
example : bytesCmp [98] [97] = .gt := by decide
example : colBA.ty = .enum ∧ colBA.vals.Nodup := by decide
example : cellCmp colBA (.str (some [98])) (.str (some [97])) = some .lt :=
  enum_order_declared colBA rfl (by decide) 0 1 (by decide) (by decide)
example : cmp6 colBA "<" (.str (some [98])) (.str (some [97])) = true := by decide
example : cmp6 colBA "<" (.str (some [97])) (.str (some [98])) = false := by decide
example : cmp6 colBA "=" (.str none) (.str (some [97])) = false ∧
    cmp6 colBA "!=" (.str none) (.str (some [97])) = true := by decide

private def frBA : LFrame := { cols := [colBA], n := 4 }
private def leafC (op : String) : Leaf := { inv := false, col := [120], cmp := .builtin op, arg := .cell (.str (some [99])) }

example (lo : LikeOracle) : leafPred lo frBA (leafC "<") = none :=
  enum_filter_undeclared lo frBA (leafC "<") colBA "<" [99] rfl rfl rfl rfl (by decide) (by decide)
example (lo : LikeOracle) :
    leafPred lo { frBA with cols := [{ colBA with strict := false }] } (leafC "!=") = some (fun _ => true) :=
  enum_filter_undeclared lo _ (leafC "!=") { colBA with strict := false } "!=" [99] rfl rfl rfl rfl (by decide) (by decide)

end Examples

#print axioms mkEnum_declared
#print axioms mkEnum_derived
#print axioms firstAppearance_unique
#print axioms mkEnum_rank_lt_255
#print axioms enum_order_declared
#print axioms enum_order_declared'
#print axioms enum_null_distinct
#print axioms enum_filter_undeclared
#print axioms enum_filter_declared

end QF.Props.C17Enum
