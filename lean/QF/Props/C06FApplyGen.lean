import QF.Props.C06FApplyUpper
import QF.Props.C10Guards
import QF.Gen.Project
/-!
# C06 / C01 — the REST of Apply in today's source: `FilteredApply`, `WithRowNums`, the built-in `ToUpper` (tie T1, by semantics)

`QF.Gen.fapplyAst`, `QF.Gen.rowNumsFnAst`, `QF.Gen.supperTable`, `QF.Gen.eupperTable`, `QF.Gen.builtinCallArgs`
(QF/Gen/FApply.lean, regenerated on every run by go/cmd/extract/faast.go) hold, as terms of QF/Core/FAExpr.lean,

* `QFrame.FilteredApply` and `QFrame.WithRowNums` of /repo/qframe.go as statements on frame VALUES (the calls of `Filter`
  and `Apply`, the copy of the frame struct, the assignment of its index field, the closure over the counter);
* the functions `Column.Apply1` of the string and the enum column hand a `string` function value to — found through the
  package-level map the `case string:` consults, whatever they are called — on the STORED representation (pointer array
  and byte blob; code array and value table), with the source's arrays part of the state.

Proved here, over the data generated TODAY (the canonical terms and their once-and-for-all meaning: C06FApplyUpper):

* `gen_fapply_no_opaque`, `gen_fapply_canon` — everything was translated, and is the canonical term (finite `decide`);
  `gen_builtin_keys`: the keys of the two tables are the keys `Apply1`'s look-up knows (`C06LoopsGen.gen_builtin_entries`).
* `gen_supper_semantics` — string `toUpper`, for EVERY stored column (pointers inside the blob) and every index in range: the
  result has the FULL physical length; a row of the index holds `ToUpper` of the source cell, null kept; every other row the
  zero pointer (the empty string, not null); both arrays of the result are fresh allocations; NO byte of the source's
  pointers or data is written (C01). An empty column is returned as it is.
* `gen_eupper_semantics` — enum `toUpper`, for every stored column whose codes are null or inside the value table: the new
  value table is `dedup (map up values)`; every non-null code becomes the position of its upper-cased value, null stays
  null; when two values merged, `data` is a FRESH array and the source's `data` is not written (C01 — what seeded change
  C06-8 broke); when nothing merged the source's `data` is shared, unchanged. The index plays no role.
* `gen_fapply_run`, `gen_rownums_run` — the plumbing, for ANY `Filter` and `Apply`: `FilteredApply` returns what `Filter`
  returns if that has an error; else `Apply` run on the receiver's columns with the FILTERED index, and the result carries
  the receiver's ORIGINAL index. `WithRowNums` is `Apply` of one instruction without source columns whose function is a
  counter closure starting at 0.
* `gen_fapply_semantics` — … with `Apply` = today's dispatch (`QF.Gen.applyAst`) over today's helper loops (`apply0Ast`,
  `apply1Ast`, `apply2Ast`, C06LoopsGen), `Copy` and the two `toUpper`, on PHYSICAL columns (`XCol`): for every frame,
  clause and instruction list, read through the original index the result is `filteredApplyS … (fillAll := true)` — rows
  outside the filter hold the zero value of the freshly allocated columns, EXCEPT that a `ColumnName` copy shares the whole
  source column and the enum `ToUpper` converts the whole column: the recorded open finding KF-C06-fapply-fill, here a
  proved statement (`gen_fapply_copy_fills_all`, with the input on which `fillAll := false` differs).
* `gen_rownums_semantics` — `WithRowNums` = `rowNumsS`: the column 0 … n-1 in index order.
* `gen_copy_shares_column` — read off today's `Copy` / `setColumn` terms (QF/Gen/Project.lean): the element stored under the
  destination is the source's `column.Column` value itself and the index is passed through — what `copyX` / `setX` say.
* `hypotheses_satisfiable` — a `Filter` as `FilterOK` wants it and a stored representation of every well-typed string / enum
  column exist (`specFilter`, `sOf`, `eOf`), so the theorems above are not vacuous.
* witnesses: restoring `filteredQf.index`, no index swap, `Apply` on `filteredQf` (a different term, the same meaning for
  every `Filter` that keeps the columns: `fapplyOnFiltered_equiv`), `newData := s.data[:0]` (enum) and `data :=
  source.data[:0]` (string) overwrite the source, pointers of `len(ix)` panic, the null flag dropped, the code taken after
  the append, null codes remapped.

Scope. Instructions are those of the catalogue of QF/Spec/Ops.lean (`GoInstr`, as everywhere in C06 / C10), minus a Go `string`
function value WITHOUT source column (`InScope`): Go reads it as a constant string, the spec's tag `Fn.builtin` does not
denote one (C06LoopsGen `gen_apply0_string_const`); the harness never generates it. Physical frames: all columns of one
physical length, cells of the column's type, enum tables of at most 255 values, a duplicate-free index in range
(`ColsOK`; what `New` and every operation produce: C08Construct, C08ProjectGen `PWF`). The column list and the name map are
read at list level (`setX` = `setCol`: replace in place or append); their heap-level behaviour is C08ProjectGen.
-/
set_option linter.unusedVariables false
set_option linter.unusedSimpArgs false
namespace QF.Props.C06FApplyGen
open QF QF.Props.C02Kernels QF.Props.C04LoopsGen QF.Props.C06LoopsGen QF.Props.C10Guards

/-! ## Today's terms -/

def canonFApply : List FAStm := [
  .decl (.filter .recv),
  .retIfErr (.loc 0) (.loc 0),
  .decl .recv,
  .setIndex 1 (.loc 0),
  .assign 1 (.applyParam (.loc 1)),
  .setIndex 1 .recv,
  .ret (.loc 1)]

/-- `i := -1; … Instruction{DstCol: colName, Fn: func() int { i++; return i }}` -/
def counterLit : FAInstr := { dst := .param, src1 := .unset, src2 := .unset, fn := .counter (-1) .int [.inc, .ret] }

def canonRowNums : List FAStm := [.ret (.applyLits .recv [counterLit])]

def missingS : SUFn := { canonSUpper with ptrInit := .opaque "missing", ret := .opaque "missing" }
def missingE : EUFn := { canonEUpper with ret := .opaque "missing" }

/-- the built-in of the string / enum column `Apply1` finds under a key -/
def supperOf (key : Bytes) : SUFn := ((Gen.supperTable.find? (fun e => strBytes e.1 == key)).map (·.2)).getD missingS
def eupperOf (key : Bytes) : EUFn := ((Gen.eupperTable.find? (fun e => strBytes e.1 == key)).map (·.2)).getD missingE

theorem gen_fapply_no_opaque :
    (∀ s ∈ Gen.fapplyAst, s.hasOpaque = false) ∧ (∀ s ∈ Gen.rowNumsFnAst, s.hasOpaque = false) ∧
    (∀ e ∈ Gen.supperTable, e.2.hasOpaque = false) ∧ (∀ e ∈ Gen.eupperTable, e.2.hasOpaque = false) := by decide

theorem gen_fapply_canon :
    Gen.fapplyAst = canonFApply ∧ Gen.rowNumsFnAst = canonRowNums ∧
    Gen.supperTable = [("ToUpper", canonSUpper)] ∧ Gen.eupperTable = [("ToUpper", canonEUpper)] ∧
    Gen.builtinCallArgs = [("scolumn", "ix,recv"), ("ecolumn", "ix,recv")] := by decide

/-- the keys of the two tables are exactly the keys the look-up in `Apply1` knows (QF/Gen/Loops.lean), and no other column
package has such a table -/
theorem gen_builtin_keys :
    (lookupsOf (apply1Of .string)).map (fun e => e.1.map (·.1)) = [Gen.supperTable.map (·.1)] ∧
    (lookupsOf (apply1Of .enum)).map (fun e => e.1.map (·.1)) = [Gen.eupperTable.map (·.1)] ∧
    (∀ ty ∈ tys, hasBuiltins ty = false → lookupsOf (apply1Of ty) = []) := by decide

theorem supperOf_upper : supperOf (strBytes "ToUpper") = canonSUpper := by
  unfold supperOf; rw [gen_fapply_canon.2.2.1]; simp

theorem eupperOf_upper : eupperOf (strBytes "ToUpper") = canonEUpper := by
  unfold eupperOf; rw [gen_fapply_canon.2.2.2.1]; simp

/-! ## The two `toUpper` -/

/-- **The string `toUpper` of today's source** (C06, C01). For every stored string column `B` whose pointers lie inside
its blob, every index `ix` of rows in range and every `ToUpper` (`up`):
* the run has a value, does not write a single element of the source's pointer array or byte of its data (`src = B`,
  `writes = 0`);
* an empty column is returned as it is; otherwise both arrays of the result are fresh allocations;
* the result has the FULL physical length and its pointers lie inside its blob;
* a row of the index holds `up` of the source cell, the null flag kept;
* every other row holds the zero pointer: the empty string, not null. -/
theorem gen_supper_semantics (up : Bytes → Bytes) (B : BCol) (ix : List Nat) (hv : BValid B.ptrs B.data)
    (hix : ∀ r ∈ ix, r < B.ptrs.length) :
    ∃ R, (supperOf (strBytes "ToUpper")).run up B ix = .ok R ∧ R.src = B ∧ R.writes = 0 ∧
      (B.ptrs = [] → R.shared = true ∧ R.res = B) ∧
      (B.ptrs ≠ [] → R.shared = false ∧ R.ptrsFresh = true ∧ R.dataFresh = true) ∧
      R.res.ptrs.length = B.ptrs.length ∧ BValid R.res.ptrs R.res.data ∧
      (∀ r ∈ ix, R.res.cell r = (B.cell r).map (Option.map up)) ∧
      (∀ r, r < B.ptrs.length → r ∉ ix → R.res.ptrs[r]? = some ⟨0, 0, false⟩) := by
  rw [supperOf_upper]
  exact canonSUpper_run up B ix hv hix

/-- **The enum `toUpper` of today's source** (C06, C01). For every stored enum column whose codes are null or inside its
value table and every `ToUpper`:
* the run has a value and does not write the source's `data` (`src = E`, `writes = 0`); the index is not looked at;
* the new value table is `dedup (map up values)`, the column is no longer strict;
* every code is remapped: null stays null, any other becomes the position of its upper-cased value in the new table;
* `data` is the source's array exactly when no two values merged — and then it is unchanged; otherwise it is a fresh
  array. -/
theorem gen_eupper_semantics (up : Bytes → Bytes) (E : ECol) (hc : ∀ c ∈ E.data, c = euNull ∨ c < E.values.length) :
    (eupperOf (strBytes "ToUpper")).ixUsed = false ∧
    ∃ R, (eupperOf (strBytes "ToUpper")).run up E = .ok R ∧ R.src = E ∧ R.writes = 0 ∧
      R.values = dedup (E.values.map up) ∧ R.strict = false ∧
      R.data = E.data.map (remapCode up E.values) ∧
      (R.dataShared = true ↔ (dedup (E.values.map up)).length = E.values.length) ∧
      (R.dataShared = true → R.data = E.data) := by
  rw [eupperOf_upper]
  exact ⟨rfl, canonEUpper_run up E hc⟩

/-! ## The plumbing of `FilteredApply` and `WithRowNums`, for any `Filter` and `Apply` -/

/-- **`FilteredApply`**, for ANY meaning of `Filter` and `Apply`: what `qf.Filter(clause)` returns if that carries an error;
otherwise `Apply(instructions...)` run on the frame made of the receiver's columns and the FILTERED index, with the
receiver's ORIGINAL index put back into the result. -/
theorem gen_fapply_run {γ : Type} (E : FAEnv γ) :
    runFA E Gen.fapplyAst [] =
      match E.filter E.recv with
      | none => none
      | some fq =>
        if fq.err then some fq
        else (E.applyParam { E.recv with index := fq.index }).map (fun r => { r with index := E.recv.index }) := by
  rw [gen_fapply_canon.1]
  cases hf : E.filter E.recv with
  | none => simp [canonFApply, runFA, FAFr.eval, hf]
  | some fq =>
    cases he : fq.err with
    | true => simp [canonFApply, runFA, FAFr.eval, hf, he]
    | false =>
      cases ha : E.applyParam { E.recv with index := fq.index } with
      | none => simp [canonFApply, runFA, FAFr.eval, hf, he, ha]
      | some r => simp [canonFApply, runFA, FAFr.eval, hf, he, ha]

/-- the instruction value `WithRowNums` builds: no source columns; a closure whose `k`-th call returns `k` -/
def counterInstr (name : Bytes) : XInstr :=
  { dst := name, fn := .fn0 .int (fun v => (.int (v + 1), v + 1)), s0 := -1 }

theorem counterLit_val (name : Bytes) : counterLit.val name = some (counterInstr name) := by
  simp [counterLit, FAInstr.val, FAFnLit.val, FACStm.run, FAName.val, counterInstr]

/-- **`WithRowNums`**, for any meaning of `Apply`: `qf.Apply(i)` for the one instruction `counterInstr colName`. -/
theorem gen_rownums_run {γ : Type} (E : FAEnv γ) :
    runFA E Gen.rowNumsFnAst [] = E.applyLits E.recv [counterInstr E.colName] := by
  rw [gen_fapply_canon.2.1]
  simp [canonRowNums, runFA, FAFr.eval, counterLit_val]

/-! ## Physical frames

A column is its cells over PHYSICAL rows (`PCol`, as in C06LoopsGen: a cell is what the observation functions of C09 see at
that row); a frame value is the list of its named columns, its row index and its error flag. `viewFr ix0` is what a user
sees of the columns through the index `ix0`. The column list and name map themselves (`setColumn`, `Copy` on a heap of
backing arrays) are C08ProjectGen; here `setX` / `copyX` are their list-level reading (`setCol` / `copyS`). -/

structure XCol where
  name : Bytes
  col : PCol
  strict : Bool := false

def XCol.view (ix0 : List Nat) (c : XCol) : LCol :=
  { name := c.name, ty := c.col.ty, vals := c.col.vals, strict := c.strict, cells := observe ix0 c.col.cells }

def viewFr (ix0 : List Nat) (cols : List XCol) : LFrame := { cols := cols.map (XCol.view ix0), n := ix0.length }

/-- `setColumn(name, col)`: replace the column of that name where it stands, or append -/
def setX (cols : List XCol) (c : XCol) : List XCol :=
  if cols.any (fun o => o.name == c.name) then cols.map (fun o => if o.name == c.name then c else o) else cols ++ [c]

def findX (cols : List XCol) (n : Bytes) : Option XCol := cols.find? (fun o => o.name == n)

/-- `Copy(dst, src)`: the SAME stored column under another name (`none`: an error) -/
def copyX (cols : List XCol) (dst src : Bytes) : Option (List XCol) :=
  match findX cols src with
  | none => none
  | some c => if dst == src then some cols else if legalName dst then some (setX cols { c with name := dst }) else none

/-- `qf.columns[0].Len()`, 0 without columns -/
def firstLen : List XCol → Nat
  | [] => 0
  | c :: _ => c.col.cells.length

theorem view_find (ix0 : List Nat) (cols : List XCol) (n : Bytes) :
    (viewFr ix0 cols).find? n = (findX cols n).map (XCol.view ix0) := by
  unfold viewFr LFrame.find? findX
  simp only
  rw [List.find?_map]
  rfl

theorem view_has (ix0 : List Nat) (cols : List XCol) (n : Bytes) :
    (viewFr ix0 cols).has n = cols.any (fun o => o.name == n) := by
  unfold LFrame.has
  rw [view_find]
  unfold findX
  cases h : cols.find? (fun o => o.name == n) with
  | none =>
    rw [List.find?_eq_none] at h
    simp only [Option.map_none, Option.isSome_none]
    symm
    rw [List.any_eq_false]
    exact h
  | some c =>
    simp only [Option.map_some, Option.isSome_some]
    symm
    rw [List.any_eq_true]
    exact ⟨c, List.mem_of_find?_eq_some h, by have := List.find?_some h; simpa using this⟩

theorem view_setX (ix0 : List Nat) (cols : List XCol) (c : XCol) :
    viewFr ix0 (setX cols c) = setCol (viewFr ix0 cols) (c.view ix0) := by
  unfold setCol setX
  rw [view_has]
  have hn : (c.view ix0).name = c.name := rfl
  rw [hn]
  cases h : cols.any (fun o => o.name == c.name) with
  | true =>
    simp only [↓reduceIte, viewFr, List.map_map]
    congr 1
    apply List.map_congr_left
    intro o _
    simp only [Function.comp]
    have : (o.view ix0).name = o.name := rfl
    rw [this]
    split <;> rfl
  | false => simp [viewFr]

/-- where the result array of a helper goes, on physical columns (`toRes` of C06LoopsGen, before the frame is looked at):
`some none` an error, `none` no meaning -/
def placeX (cols : List XCol) (dst : Bytes) (recvTy : CType) : LOutcome Int → Option (Option (List XCol))
  | .err => some none
  | .arr ret ty cells _ =>
    let col : Option (CType × Bool) :=
      match ret with
      | .slice => (Gen.apply1WrapAst.slices.lookup ty).map (fun t => (t, Gen.apply1WrapAst.setsDst))
      | .ownCol => some (recvTy, apply2Sets)
      | .strCol => some (.string, apply2Sets)
      | .create => some (ty, true)
      | .opaque _ => none
    col.map (fun t => if t.2 && legalName dst then some (setX cols { name := dst, col := { ty := t.1, cells := cells } }) else none)
  | _ => none

/-- a result on physical columns, read through `ix0` -/
def resOf (ix0 : List Nat) : Option (List XCol) → Res
  | some c => .ok (viewFr ix0 c)
  | none => .err

theorem toRes_placeX (ix0 : List Nat) (cols : List XCol) (dst : Bytes) (recvTy : CType) (out : LOutcome Int) :
    toRes Gen.apply1WrapAst apply2Sets (viewFr ix0 cols) dst ix0 recvTy out = (placeX cols dst recvTy out).map (resOf ix0) := by
  cases out with
  | err => rfl
  | arr ret ty cells s =>
    simp only [toRes, placeX, Option.map_map]
    congr 1
    funext t
    simp only [Function.comp]
    split
    · simp only [resOf, view_setX]; rfl
    · rfl
  | builtin h => rfl
  | copy n => rfl
  | panic => rfl
  | stuck => rfl

/-! ## How the string and enum columns are stored -/

/-- the stored string column `B` stands for the cells of `P` -/
structure StrRep (B : BCol) (P : PCol) : Prop where
  valid : BValid B.ptrs B.data
  cells : P.cells = blobCells B

/-- the cells a stored enum column shows -/
def enumCells (E : ECol) : List Cell := E.data.map (fun c => if c = euNull then Cell.str none else Cell.str E.values[c]?)

structure EnumRep (E : ECol) (P : PCol) : Prop where
  codes : ∀ c ∈ E.data, c = euNull ∨ c < E.values.length
  vals : E.values = P.vals
  cells : P.cells = enumCells E

/-- a choice of stored representation for every column (ANY choice that shows the column's cells will do) -/
structure Reps where
  s : PCol → BCol
  e : PCol → ECol

def Reps.OK (R : Reps) : Prop :=
  ∀ P, ColOk P → (P.ty = .string → StrRep (R.s P) P) ∧ (P.ty = .enum → EnumRep (R.e P) P)

/-- the built-in of a string / enum column found under `key`, run on the stored column: the new column and its strict flag -/
def upperX (R : Reps) (up : UpperOracle) (key : Bytes) (P : PCol) (ix : List Nat) : Option (PCol × Bool) :=
  match P.ty with
  | .string =>
    match (supperOf key).run up (R.s P) ix with
    | .ok o => some ({ ty := .string, cells := blobCells o.res }, false)
    | _ => none
  | .enum =>
    match (eupperOf key).run up (R.e P) with
    | .ok o => some ({ ty := .enum, vals := o.values, cells := enumCells ⟨o.data, o.values, o.strict⟩ }, o.strict)
    | _ => none
  | _ => none

/-- One helper call of `Apply` on physical columns: helper `k` (= its number of source columns) with the destination and
source names, the function value and the initial state of a closure; `ix` is the index of the frame it is called on.
`some none`: the helper returns an error; `none`: no meaning (a panic, an untranslated part).
* `apply0`: today's loop (`Gen.apply0Ast`) with `qf.columns[0].Len()`; a `types.ColumnName` goes to `Copy`;
* `apply1`: unknown source column → error (its guard prefix, C10Guards); today's `Column.Apply1` of the column's package;
  a built-in name goes to the function of the package's table (`upperX`), whose column is stored as it is;
* `apply2`: both sources must be known; today's `Column.Apply2`. -/
def helperX (R : Reps) (up : UpperOracle) (cols : List XCol) (ix : List Nat) :
    Nat → Bytes → Bytes → Bytes → LVal Int → Int → Option (Option (List XCol))
  | 0, dst, _, _, fn, s0 =>
    match Gen.apply0Ast.run { recv := noCol, other := noCol, ix := ix, firstColLen := firstLen cols, fn := fn, s0 := s0 } with
    | .copy n => some (copyX cols dst n)
    | out => placeX cols dst .undef out
  | 1, dst, s1, _, fn, s0 =>
    match findX cols s1 with
    | none => some none
    | some c =>
      match (apply1Of c.col.ty).run { recv := c.col, other := c.col, ix := ix, firstColLen := c.col.cells.length, fn := fn, s0 := s0 } with
      | .builtin _ =>
        match fn with
        | .str key =>
          (upperX R up key c.col ix).map (fun p =>
            if Gen.apply1WrapAst.passesColumn && Gen.apply1WrapAst.setsDst && legalName dst then
              some (setX cols { name := dst, col := p.1, strict := p.2 })
            else none)
        | _ => none
      | out => placeX cols dst c.col.ty out
  | 2, dst, s1, s2, fn, s0 =>
    match findX cols s1, findX cols s2 with
    | some c, some d =>
      placeX cols dst c.col.ty
        ((apply2Of c.col.ty).run { recv := c.col, other := d.col, ix := ix, firstColLen := c.col.cells.length, fn := fn, s0 := s0 })
    | _, _ => some none
  | _, _, _, _, _, _ => none

/-- an instruction VALUE of the catalogue -/
def _root_.QF.XInstr.of (g : GoInstr) : XInstr := { dst := g.dst, src1 := g.src1, src2 := g.src2, fn := goVal g.fn, s0 := goState g.fn }

/-- the names of an instruction value, for the dispatch (which does not look at the function) -/
def _root_.QF.XInstr.shadow (g : XInstr) : GoInstr := { dst := g.dst, src1 := g.src1, src2 := g.src2, fn := .bad }

def _root_.QF.XInstr.field (g : XInstr) (f : IField) : Bytes := (g.shadow.nameOf f).getD []

abbrev PFr := XFr (List XCol)

/-- a helper call on a frame value: a frame with an error comes back as it is (the first guard of `apply0/1/2`,
`C10Guards.gen_sticky_all`); an error leaves columns and index alone (`withErr`); parameter 1 of the helper is the
destination, parameters 2 and 3 the sources (`C10Guards.callInstr`) -/
def helperFr (R : Reps) (up : UpperOracle) (k : Nat) (args : List IField) (g : XInstr) (X : PFr) : Option PFr :=
  if X.err then some X
  else
    (helperX R up X.cols X.index k (((args[1]?).map g.field).getD []) (((args[2]?).map g.field).getD [])
        (((args[3]?).map g.field).getD []) g.fn g.s0).map (fun r =>
      match r with
      | some c => { X with cols := c }
      | none => { X with err := true })

/-- **`Apply` on physical frames**: today's loop and dispatch (`QF.Gen.applyAst`) over the helpers -/
def applyX (R : Reps) (up : UpperOracle) : PFr → List XInstr → Option PFr
  | X, [] => if Gen.applyAst.accFromRecv && Gen.applyAst.returnsAcc then some X else none
  | X, g :: gs =>
    match Gen.applyAst.disp.eval g.shadow with
    | some (k, args) => (helperFr R up k args g X).bind (fun X' => applyX R up X' gs)
    | none => none

/-! ## Well-formed physical columns -/

structure ColsOK (cols : List XCol) : Prop where
  len : ∀ c ∈ cols, c.col.cells.length = firstLen cols
  ok : ∀ c ∈ cols, ColOk c.col
  /-- an enum column has at most 255 values (the factory, C17) -/
  enum : ∀ c ∈ cols, c.col.ty = .enum → c.col.vals.length ≤ 255

theorem colsOK_setX {cols : List XCol} (h : ColsOK cols) (c : XCol) (hl : c.col.cells.length = firstLen cols)
    (hok : ColOk c.col) (he : c.col.ty = .enum → c.col.vals.length ≤ 255) :
    ColsOK (setX cols c) ∧ firstLen (setX cols c) = firstLen cols := by
  have hfl : firstLen (setX cols c) = firstLen cols := by
    unfold setX
    split
    · cases cols with
      | nil => rfl
      | cons a as =>
        simp only [List.map_cons, firstLen]
        split
        · exact hl
        · rfl
    · cases cols with
      | nil => simpa [firstLen] using hl
      | cons a as => rfl
  have hmem : ∀ x ∈ setX cols c, x = c ∨ x ∈ cols := by
    intro x hx
    unfold setX at hx
    split at hx
    · obtain ⟨o, ho, rfl⟩ := List.mem_map.mp hx
      split
      · exact .inl rfl
      · exact .inr ho
    · rcases List.mem_append.mp hx with h | h
      · exact .inr h
      · exact .inl (by simpa using h)
  refine ⟨⟨fun x hx => ?_, fun x hx => ?_, fun x hx => ?_⟩, hfl⟩
  · rw [hfl]; rcases hmem x hx with rfl | h'
    · exact hl
    · exact h.len x h'
  · rcases hmem x hx with rfl | h'
    · exact hok
    · exact h.ok x h'
  · rcases hmem x hx with rfl | h'
    · exact he
    · exact h.enum x h'

/-- cells of the right constructor for a function kind -/
def kindOk : CType → Cell → Bool
  | .int, .int _ => true
  | .float, .float _ => true
  | .bool, .bool _ => true
  | .string, .str _ => true
  | _, _ => false

theorem cellOk_kind {ty : CType} {vals : List Bytes} {x : Cell} (h : cellOk ty vals x = true) : kindOk (fkind ty) x = true := by
  unfold cellOk at h
  cases ty <;> cases x <;> simp_all [cellVal, kindOk, fkind]

theorem kind_cellOk {rt : CType} {x : Cell} (hrt : rt ∈ resTys) (h : kindOk rt x = true) : cellOk rt [] x = true := by
  unfold cellOk
  simp only [resTys, List.mem_cons, List.not_mem_nil, or_false] at hrt
  rcases hrt with rfl | rfl | rfl | rfl <;> cases x <;> simp_all [cellVal, kindOk]

theorem fn1_typed {id : String} {src rt : CType} {g : Cell → Cell} (h : fn1 id = some (src, rt, g)) (x : Cell)
    (hx : kindOk src x = true) : kindOk rt (g x) = true := by
  unfold fn1 at h
  split at h <;> first
    | (simp only [Option.some.injEq, Prod.mk.injEq] at h
       obtain ⟨rfl, rfl, rfl⟩ := h
       cases x with
       | str o =>
         cases o with
         | none => simp_all [kindOk]
         | some l => cases l <;> simp_all [kindOk]
       | int v => simp_all [kindOk]
       | float v => simp_all [kindOk]
       | bool v => simp_all [kindOk])
    | (simp at h)

theorem fn2_typed {id : String} {src : CType} {g : Cell → Cell → Cell} (h : fn2 id = some (src, g)) (x y : Cell)
    (hx : kindOk src x = true) (hy : kindOk src y = true) : kindOk src (g x y) = true := by
  unfold fn2 at h
  split at h <;> first
    | (simp only [Option.some.injEq, Prod.mk.injEq] at h
       obtain ⟨rfl, rfl⟩ := h
       cases x with
       | str o => cases y with
         | str p => cases o <;> cases p <;> simp_all [kindOk]
         | _ => simp_all [kindOk]
       | int v => cases y <;> simp_all [kindOk]
       | float v => cases y <;> simp_all [kindOk]
       | bool v => cases y <;> simp_all [kindOk])
    | (simp at h)

theorem zero_kind {r : CType} (h : r ∈ resTys) : kindOk r (zeroCell r) = true := by
  simp only [resTys, List.mem_cons, List.not_mem_nil, or_false] at h
  rcases h with rfl | rfl | rfl | rfl <;> rfl

theorem cellType_kind (c : Cell) : kindOk (cellType c) c = true := by cases c <;> rfl

theorem resTys_tys {r : CType} (h : r ∈ resTys) : r ∈ tys := by
  simp only [resTys, List.mem_cons, List.not_mem_nil, or_false] at h
  rcases h with rfl | rfl | rfl | rfl <;> decide

/-- a freshly made column of a result type whose cells have the right constructor is well-typed -/
theorem colOk_of_kind {r : CType} (hr : r ∈ resTys) {cells : List Cell} (h : ∀ x ∈ cells, kindOk r x = true) :
    ColOk { ty := r, cells := cells } :=
  ⟨resTys_tys hr, fun x hx => kind_cellOk hr (h x hx)⟩

theorem rowsOf_kind {r : CType} (hr : r ∈ resTys) (L : Nat) (ix : List Nat) (G : Nat → Cell) (hG : ∀ p, p < L → kindOk r (G p) = true) :
    ∀ x ∈ rowsOf L ix (zeroCell r) G, kindOk r x = true := by
  intro x hx
  unfold rowsOf at hx
  obtain ⟨p, hp, rfl⟩ := List.mem_map.mp hx
  split
  · exact hG p (List.mem_range.mp hp)
  · exact zero_kind hr

theorem nthVal_kind {σ : Type} {r : CType} (next : σ → Cell × σ) (h : ∀ s, kindOk r (next s).1 = true) (s : σ) (k : Nat) :
    kindOk r (nthVal next s k) = true := by
  induction k generalizing s with
  | zero => exact h s
  | succ k ih => exact ih _

theorem rowsOf0_kind {σ : Type} {r : CType} (hr : r ∈ resTys) (L : Nat) (ix : List Nat) (next : σ → Cell × σ) (s : σ)
    (h : ∀ s, kindOk r (next s).1 = true) : ∀ x ∈ rowsOf0 L ix (zeroCell r) next s, kindOk r x = true := by
  intro x hx
  unfold rowsOf0 at hx
  obtain ⟨p, hp, rfl⟩ := List.mem_map.mp hx
  split
  · exact nthVal_kind next h s _
  · exact zero_kind hr

/-- the function value returns cells of its declared result type on cells of its declared argument types -/
def ValTyped : LVal Int → Prop
  | .fn0 r next => ∀ s, kindOk r (next s).1 = true
  | .fn1 a r g => ∀ x, kindOk a x = true → kindOk r (g x) = true
  | .fn2 a b r g => ∀ x y, kindOk a x = true → kindOk b y = true → kindOk r (g x y) = true
  | _ => True

theorem f0Cell_kind (kind : String) (z : Cell) (h : f0Cell kind 0 = some z) (i : Int) :
    kindOk (cellType z) ((f0Cell kind i).getD z) = true := by
  unfold f0Cell at h ⊢
  split at h
  all_goals first
    | (cases h; simp only [Option.getD_some, cellType]; first | rfl | (split <;> rfl))
    | (simp at h; subst h; simp only [Option.getD_some, cellType]; first | rfl | (split <;> rfl))
    | (simp at h)

theorem goVal_typed (fn : Fn) : ValTyped (goVal fn) := by
  cases fn with
  | f0 kind seed =>
    unfold goVal
    by_cases hk : kind = "f0r"
    · simp only [hk, ↓reduceIte, ValTyped]; intro s; rfl
    · simp only [hk, ↓reduceIte]
      cases hz : f0Cell kind 0 with
      | none => trivial
      | some z => intro s; exact f0Cell_kind kind z hz s
  | f1 id =>
    cases h : fn1 id with
    | none => simp only [goVal, h]; trivial
    | some t => obtain ⟨a, r, g⟩ := t; simp only [goVal, h]; intro x hx; exact fn1_typed h x hx
  | f2 id =>
    cases h : fn2 id with
    | none => simp only [goVal, h]; trivial
    | some t => obtain ⟨a, g⟩ := t; simp only [goVal, h]; intro x y hx hy; exact fn2_typed h x y hx hy
  | _ => trivial

theorem rowsOf_length (L : Nat) (ix : List Nat) (z : Cell) (G : Nat → Cell) : (rowsOf L ix z G).length = L := by
  simp [rowsOf]

theorem rowsOf0_length {σ : Type} (L : Nat) (ix : List Nat) (z : Cell) (next : σ → Cell × σ) (s : σ) :
    (rowsOf0 L ix z next s).length = L := by
  simp [rowsOf0]

/-- what a result array must be like to be stored as a column next to `L`-row columns -/
def ArrOK (L : Nat) (recvTy : CType) (out : LOutcome Int) : Prop :=
  ∀ ret ty cells s, out = .arr ret ty cells s →
    cells.length = L ∧ ty ∈ resTys ∧ (∀ x ∈ cells, kindOk ty x = true) ∧
    (ret = .slice ∨ ret = .create ∨ (ret = .ownCol ∧ recvTy = ty) ∨ (ret = .strCol ∧ ty = .string))

theorem expect0_arr (E : LEnv Int) (ht : ValTyped E.fn) : ArrOK E.firstColLen .undef (expect0 E) := by
  intro ret ty cells s h
  unfold expect0 at h
  cases hfn : E.fn with
  | fn0 r next =>
    rw [hfn] at h ht
    simp only at h
    split at h
    · rename_i hr
      simp only [LOutcome.arr.injEq] at h
      obtain ⟨rfl, rfl, rfl, _⟩ := h
      exact ⟨rowsOf0_length _ _ _ _ _, hr, rowsOf0_kind hr _ _ _ _ ht, .inr (.inl rfl)⟩
    · cases h
  | const c =>
    rw [hfn] at h
    simp only [LOutcome.arr.injEq] at h
    obtain ⟨rfl, rfl, rfl, _⟩ := h
    exact ⟨rowsOf_length _ _ _ _, cellType_mem c, rowsOf_kind (cellType_mem c) _ _ _ (fun _ _ => cellType_kind c), .inr (.inl rfl)⟩
  | str b =>
    rw [hfn] at h
    simp only [LOutcome.arr.injEq] at h
    obtain ⟨rfl, rfl, rfl, _⟩ := h
    exact ⟨rowsOf_length _ _ _ _, by decide, rowsOf_kind (r := .string) (by decide) _ _ _ (fun _ _ => rfl), .inr (.inl rfl)⟩
  | named n => rw [hfn] at h; cases h
  | fn1 a r g => rw [hfn] at h; cases h
  | fn2 a b r g => rw [hfn] at h; cases h
  | aggFn a r g => rw [hfn] at h; cases h
  | other => rw [hfn] at h; cases h

theorem expect1_arr (E : LEnv Int) (hok : ColOk E.recv) (ht : ValTyped E.fn) :
    ArrOK E.recv.cells.length E.recv.ty (expect1 E) := by
  intro ret ty cells s h
  unfold expect1 at h
  cases hfn : E.fn with
  | fn1 a r g =>
    rw [hfn] at h ht
    simp only at h
    split at h
    · rename_i hc
      simp only [LOutcome.arr.injEq] at h
      obtain ⟨rfl, rfl, rfl, _⟩ := h
      refine ⟨rowsOf_length _ _ _ _, hc.2, rowsOf_kind hc.2 _ _ _ (fun p hp => ?_), .inl rfl⟩
      apply ht
      rw [hc.1]
      exact cellOk_kind (hok.get hp).2
    · cases h
  | str b => rw [hfn] at h; simp only at h; split at h <;> cases h
  | fn0 r next => rw [hfn] at h; cases h
  | const c => rw [hfn] at h; cases h
  | named n => rw [hfn] at h; cases h
  | fn2 a b r g => rw [hfn] at h; cases h
  | aggFn a r g => rw [hfn] at h; cases h
  | other => rw [hfn] at h; cases h

theorem fkind_resTys {ty : CType} (h : ty ∈ tys) : fkind ty ∈ resTys := by
  simp only [tys, List.mem_cons, List.not_mem_nil, or_false] at h
  rcases h with rfl | rfl | rfl | rfl | rfl <;> decide

theorem expect2_arr (E : LEnv Int) (hok : ColOk E.recv) (hok2 : ColOk E.other) (hlen : E.other.cells.length = E.recv.cells.length)
    (ht : ValTyped E.fn) : ArrOK E.recv.cells.length E.recv.ty (expect2 E) := by
  intro ret ty cells s h
  unfold expect2 at h
  split at h
  · rename_i hty
    cases hfn : E.fn with
    | fn2 a b r g =>
      rw [hfn] at h ht
      simp only at h
      split at h
      · rename_i hc
        simp only [LOutcome.arr.injEq] at h
        obtain ⟨rfl, rfl, rfl, _⟩ := h
        have hr := fkind_resTys hok.1
        refine ⟨rowsOf_length _ _ _ _, hr, rowsOf_kind hr _ _ _ (fun p hp => ?_), ?_⟩
        · have h1 := cellOk_kind (hok.get hp).2
          have h2 := cellOk_kind (hok2.get (by omega : p < E.other.cells.length)).2
          rw [hty] at h2
          have := ht _ _ (by rw [hc.1]; exact h1) (by rw [hc.2.1]; exact h2)
          rw [hc.2.2] at this
          exact this
        · have := hok.1
          simp only [tys, List.mem_cons, List.not_mem_nil, or_false] at this
          rcases this with e | e | e | e | e <;> simp [e, ret2, fkind]
      · cases h
    | fn1 a r g => rw [hfn] at h; cases h
    | str b => rw [hfn] at h; cases h
    | fn0 r next => rw [hfn] at h; cases h
    | const c => rw [hfn] at h; cases h
    | named n => rw [hfn] at h; cases h
    | aggFn a r g => rw [hfn] at h; cases h
    | other => rw [hfn] at h; cases h
  · cases h

theorem wrap_sets : Gen.apply1WrapAst.setsDst = true ∧ Gen.apply1WrapAst.passesColumn = true := by
  rw [gen_apply1_wrap_canon]; exact ⟨rfl, rfl⟩

/-- a well-formed result array stored next to well-formed columns leaves them well-formed -/
theorem place_ok {cols : List XCol} (hcols : ColsOK cols) (dst : Bytes) (recvTy : CType) (out : LOutcome Int)
    (hout : ArrOK (firstLen cols) recvTy out) (c' : List XCol) (h : placeX cols dst recvTy out = some (some c')) :
    ColsOK c' ∧ firstLen c' = firstLen cols := by
  cases out with
  | arr ret ty cells s =>
    obtain ⟨hl, hr, hk, hret⟩ := hout ret ty cells s rfl
    have hfin : ∀ t, t = ty → (if (true && legalName dst) = true then some (setX cols { name := dst, col := { ty := t, cells := cells } }) else none) = some c' →
        ColsOK c' ∧ firstLen c' = firstLen cols := by
      intro t ht hh
      subst ht
      split at hh
      · simp only [Option.some.injEq] at hh
        subst hh
        exact colsOK_setX hcols _ hl (colOk_of_kind hr hk) (fun e => by simp only at e; subst e; simp [resTys] at hr)
      · cases hh
    rcases hret with rfl | rfl | ⟨rfl, rfl⟩ | ⟨rfl, rfl⟩
    · simp only [placeX, wrap_lookup ty hr, wrap_sets.1, Option.map_some, Option.some.injEq] at h
      exact hfin _ rfl h
    · simp only [placeX, Option.map_some, Option.some.injEq] at h
      exact hfin _ rfl h
    · simp only [placeX, apply2Sets_true, Option.map_some, Option.some.injEq] at h
      exact hfin _ rfl h
    · simp only [placeX, apply2Sets_true, Option.map_some, Option.some.injEq] at h
      exact hfin _ rfl h
  | err => simp [placeX] at h
  | builtin _ => simp [placeX] at h
  | copy _ => simp [placeX] at h
  | panic => simp [placeX] at h
  | stuck => simp [placeX] at h

/-! ## The cells of the two `toUpper` results -/

/-- `ToUpper` on a cell: null stays null -/
def upc (up : UpperOracle) : Cell → Cell
  | .str (some s) => .str (some (up s))
  | x => x

theorem blobCells_length (B : BCol) : (blobCells B).length = B.ptrs.length := by simp [blobCells]

/-- the cells of the string result: `ToUpper` of the source cell on the rows of the index, the EMPTY string elsewhere -/
theorem blob_upper_cells (up : UpperOracle) (B B' : BCol) (ix : List Nat) (hl : B'.ptrs.length = B.ptrs.length)
    (h1 : ∀ r ∈ ix, B'.cell r = (B.cell r).map (Option.map up))
    (h2 : ∀ r, r < B.ptrs.length → r ∉ ix → B'.ptrs[r]? = some ⟨0, 0, false⟩) :
    blobCells B' = rowsOf B.ptrs.length ix (.str (some [])) (fun p => upc up ((blobCells B)[p]!)) := by
  unfold blobCells rowsOf
  rw [hl]
  apply List.map_congr_left
  intro p hp
  have hpl : p < B.ptrs.length := List.mem_range.mp hp
  by_cases hm : p ∈ ix
  · simp only [hm, ↓reduceIte, h1 p hm]
    have : ((List.range B.ptrs.length).map (fun i => Cell.str ((B.cell i).getD none)))[p]! = Cell.str ((B.cell p).getD none) := by
      simp [hpl]
    rw [this]
    have hc : B.cell p = some (ptrCell B.data B.ptrs[p]) := by simp [BCol.cell, hpl]
    rw [hc]
    cases ptrCell B.data B.ptrs[p] <;> rfl
  · simp only [hm, ↓reduceIte]
    have := h2 p hpl hm
    simp [BCol.cell, this, ptrCell]

theorem posOf_some_of_mem {l : List Bytes} {b : Bytes} (h : b ∈ l) : ∃ j, posOf l b = some j ∧ j < l.length ∧ l[j]? = some b := by
  cases hp : posOf l b with
  | none =>
    have := (posOf_none_iff l b).1 hp
    rw [List.contains_iff_mem.mpr h] at this
    cases this
  | some j =>
    unfold posOf at hp
    obtain ⟨hj, hb, _⟩ := List.findIdx?_eq_some_iff_getElem.mp hp
    refine ⟨j, rfl, hj, ?_⟩
    rw [List.getElem?_eq_getElem hj]
    simp only [beq_iff_eq] at hb
    rw [hb]

theorem dedup_length_le (l : List Bytes) : (dedup l).length ≤ l.length := by
  unfold dedup
  suffices ∀ acc : List Bytes, (l.foldl (fun acc x => if acc.contains x then acc else acc ++ [x]) acc).length ≤ acc.length + l.length by
    simpa using this []
  induction l with
  | nil => intro acc; simp
  | cons y ys ih =>
    intro acc
    rw [List.foldl_cons]
    refine Nat.le_trans (ih _) ?_
    split <;> simp <;> omega

theorem enumCells_length (E : ECol) : (enumCells E).length = E.data.length := by simp [enumCells]

theorem enumCells_get (E : ECol) (p : Nat) (hp : p < E.data.length) :
    (enumCells E)[p]! = if E.data[p] = euNull then Cell.str none else Cell.str E.values[E.data[p]]? := by
  simp [enumCells, hp]

/-- the cells of the enum result: `ToUpper` of the source cell on EVERY row -/
theorem enum_upper_cells (up : UpperOracle) (E : ECol) (hc : ∀ c ∈ E.data, c = euNull ∨ c < E.values.length)
    (hv : E.values.length ≤ 255) (s : Bool) (p : Nat) (hp : p < E.data.length) :
    (enumCells ⟨E.data.map (remapCode up E.values), dedup (E.values.map up), s⟩)[p]! = upc up ((enumCells E)[p]!) := by
  rw [enumCells_get _ p (by simpa using hp), enumCells_get E p hp]
  simp only [List.getElem_map]
  rcases hc _ (List.getElem_mem hp) with h | h
  · simp [h, remapCode, upc]
  · have hne : E.data[p] ≠ euNull := by unfold euNull; omega
    have hmem : up (E.values[E.data[p]]) ∈ E.values.map up := List.mem_map_of_mem (List.getElem_mem h)
    have hin : up (E.values[E.data[p]]) ∈ dedup (E.values.map up) :=
      List.contains_iff_mem.mp (dedup_contains _ _ hmem)
    obtain ⟨j, hj, hjl, hjv⟩ := posOf_some_of_mem hin
    have hr : remapCode up E.values E.data[p] = j := by
      unfold remapCode upVals
      simp [hne, List.getElem?_eq_getElem h, hj]
    have hjn : j ≠ euNull := by
      have := dedup_length_le (E.values.map up)
      simp only [List.length_map] at this
      unfold euNull; omega
    rw [hr]
    simp [hjn, hne, hjv, List.getElem?_eq_getElem h, upc]

/-- every cell a stored enum column with at most 255 values shows is one an enum column can hold -/
theorem enumCells_ok (E : ECol) (hv : E.values.length ≤ 255) : ∀ x ∈ enumCells E, cellOk .enum E.values x = true := by
  intro x hx
  unfold enumCells at hx
  obtain ⟨c, _, rfl⟩ := List.mem_map.mp hx
  split
  · rfl
  · cases hg : E.values[c]? with
    | none => rfl
    | some v =>
      have hm : v ∈ E.values := List.mem_of_getElem? hg
      obtain ⟨j, hj, hjl, _⟩ := posOf_some_of_mem hm
      have : enumRank E.values v = some j := hj
      have hlt : j < enumNull := by unfold enumNull; omega
      simp [cellOk, cellVal, this, hlt]

/-! ## `fillAll` only matters for a `ColumnName` copy and the enum `ToUpper` -/

theorem applyInstr_fillAll (up : UpperOracle) (f : LFrame) (m : Nat → Bool) (ins : Instr)
    (h1 : ∀ n, ins.fn ≠ .colCopy n) (h2 : ∀ n, ins.fn ≠ .builtin n) :
    applyInstr up f m ins true = applyInstr up f m ins false := by
  obtain ⟨dst, s1, s2, fn⟩ := ins
  cases fn with
  | colCopy n => exact absurd rfl (h1 n)
  | builtin n => exact absurd rfl (h2 n)
  | _ => rfl

theorem applyInstr_fillAll2 (up : UpperOracle) (f : LFrame) (m : Nat → Bool) (dst s1 s2 : Bytes) (fn : Fn) :
    applyInstr up f m ⟨dst, some s1, some s2, fn⟩ true = applyInstr up f m ⟨dst, some s1, some s2, fn⟩ false := by
  cases fn <;> rfl

theorem applyInstr_fillAll1 (up : UpperOracle) (f : LFrame) (m : Nat → Bool) (dst s1 : Bytes) (fn : Fn) (c : LCol)
    (hc : f.find? s1 = some c) (hu : isUpperCall fn c.ty = false) :
    applyInstr up f m ⟨dst, some s1, none, fn⟩ true = applyInstr up f m ⟨dst, some s1, none, fn⟩ false := by
  cases fn with
  | builtin n =>
    simp only [isUpperCall, Bool.and_eq_false_iff] at hu
    by_cases hn : n = strBytes "ToUpper"
    · have hb : hasBuiltins c.ty = false := by
        rcases hu with h | h
        · simp [hn] at h
        · exact h
      have : (c.ty == CType.enum) = false := by cases hty : c.ty <;> simp_all [hasBuiltins]
      simp [applyInstr, hc, this]
    · have : (n == strBytes "ToUpper") = false := by simpa using hn
      simp [applyInstr, hc, this]
  | _ => rfl

/-! ## One helper call on physical columns is `applyInstr` read through the original index -/

section helpers
variable (R : Reps) (up : UpperOracle) (cols : List XCol) (ix0 : List Nat) (keep mask : Nat → Bool)

theorem place_exists {dst : Bytes} {ty : CType} {out : LOutcome Int} {res : Res}
    (h : (placeX cols dst ty out).map (resOf ix0) = some res) : ∃ r, placeX cols dst ty out = some r ∧ resOf ix0 r = res := by
  cases hp : placeX cols dst ty out with
  | none => rw [hp] at h; cases h
  | some r => rw [hp] at h; exact ⟨r, rfl, Option.some.inj h⟩

/-- **apply0** (no `ColumnName`, no built-in name) -/
theorem helper0_spec (hok : ColsOK cols) (h0 : ∀ p ∈ ix0, p < firstLen cols) (nd : ix0.Nodup)
    (hm : ∀ r, r < ix0.length → mask r = keep (ix0[r]!)) (dst s1 s2 : Bytes) (src2 : Option Bytes) (fn : Fn)
    (hnb : ∀ n, fn ≠ .builtin n) (hnc : ∀ n, fn ≠ .colCopy n) :
    ∃ r, helperX R up cols (ix0.filter keep) 0 dst s1 s2 (goVal fn) (goState fn) = some r ∧
      resOf ix0 r = applyInstr up (viewFr ix0 cols) mask { dst := dst, src1 := none, src2 := src2, fn := fn } true ∧
      (∀ c', r = some c' → ColsOK c' ∧ firstLen c' = firstLen cols) := by
  let E0 := envOf noCol noCol (ix0.filter keep) (firstLen cols) fn
  have hix : ∀ p ∈ E0.ix, p < E0.firstColLen := fun p hp => h0 p (List.mem_filter.mp hp).1
  have hrun : Gen.apply0Ast.run E0 = expect0 E0 := (gen_apply_loops_physical E0).2.2 hix (nd.filter _)
  have hsem := gen_apply0_semantics up (viewFr ix0 cols) ix0 keep mask (firstLen cols) dst src2 fn rfl h0 nd hm hnb hnc
  rw [toRes_placeX] at hsem
  have hsem' : (placeX cols dst .undef (Gen.apply0Ast.run E0)).map (resOf ix0) = _ := hsem
  have hnot : ∀ n, Gen.apply0Ast.run E0 ≠ .copy n := by
    intro n e; rw [e] at hsem'; simp [placeX] at hsem'
  have hx : helperX R up cols (ix0.filter keep) 0 dst s1 s2 (goVal fn) (goState fn) =
      placeX cols dst .undef (Gen.apply0Ast.run E0) := by
    simp only [helperX]
    split
    · rename_i n h; exact absurd h (hnot n)
    · rfl
  obtain ⟨r, hr, hres⟩ := place_exists cols ix0 hsem'
  refine ⟨r, hx.trans hr, ?_, ?_⟩
  · rw [hres, applyInstr_fillAll up _ mask _ (fun n => hnc n) (fun n => hnb n)]
  · intro c' hc'
    subst hc'
    rw [hrun] at hr
    exact place_ok hok dst .undef _ (expect0_arr E0 (goVal_typed fn)) c' hr

theorem findX_mem {n : Bytes} {c : XCol} (h : findX cols n = some c) : c ∈ cols := List.mem_of_find?_eq_some h

/-- **apply2** -/
theorem helper2_spec (hok : ColsOK cols) (h0 : ∀ p ∈ ix0, p < firstLen cols)
    (hm : ∀ r, r < ix0.length → mask r = keep (ix0[r]!)) (dst s1 s2 : Bytes) (fn : Fn) (c d : XCol)
    (hc : findX cols s1 = some c) (hd : findX cols s2 = some d) :
    ∃ r, helperX R up cols (ix0.filter keep) 2 dst s1 s2 (goVal fn) (goState fn) = some r ∧
      resOf ix0 r = applyInstr up (viewFr ix0 cols) mask { dst := dst, src1 := some s1, src2 := some s2, fn := fn } true ∧
      (∀ c', r = some c' → ColsOK c' ∧ firstLen c' = firstLen cols) := by
  have hcl := hok.len c (findX_mem cols hc)
  have hdl := hok.len d (findX_mem cols hd)
  have hcok := hok.ok c (findX_mem cols hc)
  have hdok := hok.ok d (findX_mem cols hd)
  let E := envOf c.col d.col (ix0.filter keep) c.col.cells.length fn
  have hix : ∀ p ∈ E.ix, p < E.recv.cells.length := fun p hp => by
    have := h0 p (List.mem_filter.mp hp).1
    show p < c.col.cells.length
    omega
  have hrun : (apply2Of c.col.ty).run E = expect2 E := (gen_apply_loops_physical E).2.1 hcok hdok (by show d.col.cells.length = c.col.cells.length; omega) hix
  have hsem := gen_apply2_semantics up (viewFr ix0 cols) ix0 (ix0.filter keep) mask c.col d.col (c.view ix0) (d.view ix0) dst s1 s2 fn rfl
    (by rw [view_find, hc]; rfl) (by rw [view_find, hd]; rfl) ⟨rfl, rfl, rfl⟩ ⟨rfl, rfl, rfl⟩ hcok hdok (by omega)
    (fun p hp => by have := h0 p hp; omega) (fun p hp => by have := h0 p (List.mem_filter.mp hp).1; omega)
    (mem_filter_index ix0 keep mask hm)
  rw [toRes_placeX] at hsem
  obtain ⟨r, hr, hres⟩ := place_exists cols ix0 hsem
  have hx : helperX R up cols (ix0.filter keep) 2 dst s1 s2 (goVal fn) (goState fn) =
      placeX cols dst c.col.ty ((apply2Of c.col.ty).run E) := by
    simp only [helperX, hc, hd]
    rfl
  refine ⟨r, hx.trans hr, ?_, ?_⟩
  · rw [hres, applyInstr_fillAll2]
  · intro c' hc'
    subst hc'
    have hr' : placeX cols dst c.col.ty ((apply2Of c.col.ty).run E) = some (some c') := hr
    rw [hrun] at hr'
    have := expect2_arr E hcok hdok (by show d.col.cells.length = c.col.cells.length; omega) (goVal_typed fn)
    rw [show E.recv.cells.length = firstLen cols from hcl] at this
    exact place_ok hok dst c.col.ty _ this c' hr'

/-- **apply1**, anything but the built-in `ToUpper` of a string / enum column -/
theorem helper1_spec (hok : ColsOK cols) (h0 : ∀ p ∈ ix0, p < firstLen cols)
    (hm : ∀ r, r < ix0.length → mask r = keep (ix0[r]!)) (dst s1 s2 : Bytes) (fn : Fn) (c : XCol)
    (hc : findX cols s1 = some c) (hu : isUpperCall fn c.col.ty = false) :
    ∃ r, helperX R up cols (ix0.filter keep) 1 dst s1 s2 (goVal fn) (goState fn) = some r ∧
      resOf ix0 r = applyInstr up (viewFr ix0 cols) mask { dst := dst, src1 := some s1, src2 := none, fn := fn } true ∧
      (∀ c', r = some c' → ColsOK c' ∧ firstLen c' = firstLen cols) := by
  have hcl := hok.len c (findX_mem cols hc)
  have hcok := hok.ok c (findX_mem cols hc)
  let E := envOf c.col c.col (ix0.filter keep) c.col.cells.length fn
  have hix : ∀ p ∈ E.ix, p < E.recv.cells.length := fun p hp => by
    have := h0 p (List.mem_filter.mp hp).1
    show p < c.col.cells.length
    omega
  have hrun : (apply1Of c.col.ty).run E = expect1 E := (gen_apply_loops_physical E).1 hcok hix
  have hfind : (viewFr ix0 cols).find? s1 = some (c.view ix0) := by rw [view_find, hc]; rfl
  have hsem := (gen_apply1_semantics up (viewFr ix0 cols) ix0 (ix0.filter keep) mask c.col (c.view ix0) dst s1 fn rfl
    hfind ⟨rfl, rfl, rfl⟩ hcok (fun p hp => by have := h0 p hp; omega)
    (fun p hp => by have := h0 p (List.mem_filter.mp hp).1; omega) (mem_filter_index ix0 keep mask hm)).2 hu
  rw [toRes_placeX] at hsem
  obtain ⟨r, hr, hres⟩ := place_exists cols ix0 hsem
  have hr' : placeX cols dst c.col.ty ((apply1Of c.col.ty).run E) = some r := hr
  have hnot : ∀ h, (apply1Of c.col.ty).run E ≠ .builtin h := by
    intro h e; rw [e] at hr'; simp [placeX] at hr'
  have hx : helperX R up cols (ix0.filter keep) 1 dst s1 s2 (goVal fn) (goState fn) =
      placeX cols dst c.col.ty ((apply1Of c.col.ty).run E) := by
    simp only [helperX, hc]
    split
    · rename_i n h; exact absurd h (hnot n)
    · rfl
  refine ⟨r, hx.trans hr', ?_, ?_⟩
  · rw [hres, applyInstr_fillAll1 up _ mask dst s1 fn (c.view ix0) hfind hu]
  · intro c' hc'
    subst hc'
    rw [hrun] at hr'
    have := expect1_arr E hcok (goVal_typed fn)
    rw [show E.recv.cells.length = firstLen cols from hcl] at this
    exact place_ok hok dst c.col.ty _ this c' hr'

theorem map_eq_range_map {α β : Type} [Inhabited β] (l : List α) (f : α → β) :
    l.map f = (List.range l.length).map (fun r => ((l[r]?).map f).getD default) := by
  apply List.ext_getElem (by simp)
  intro i h1 h2
  have hi : i < l.length := by simpa using h1
  simp [hi]

/-- a `ColumnName` goes to `Copy`: the SAME stored column under the new name — every row of it, whatever the index -/
theorem helper0_copy (hok : ColsOK cols) (ix : List Nat) (dst s1 s2 : Bytes) (src2 : Option Bytes) (n : Bytes) :
    ∃ r, helperX R up cols ix 0 dst s1 s2 (goVal (.colCopy n)) (goState (.colCopy n)) = some r ∧
      r = copyX cols dst n ∧
      resOf ix0 r = applyInstr up (viewFr ix0 cols) mask { dst := dst, src1 := none, src2 := src2, fn := .colCopy n } true ∧
      (∀ c', r = some c' → ColsOK c' ∧ firstLen c' = firstLen cols) := by
  have hrun := gen_apply0_copy ix (firstLen cols) n
  have hx : helperX R up cols ix 0 dst s1 s2 (goVal (.colCopy n)) (goState (.colCopy n)) = some (copyX cols dst n) := by
    simp only [helperX]
    have : Gen.apply0Ast.run { recv := noCol, other := noCol, ix := ix, firstColLen := firstLen cols, fn := goVal (.colCopy n), s0 := goState (.colCopy n) } = .copy n := hrun
    rw [this]
  refine ⟨_, hx, rfl, ?_, ?_⟩
  · unfold copyX
    simp only [applyInstr, view_find]
    cases hf : findX cols n with
    | none => rfl
    | some x =>
      simp only [Option.map_some]
      by_cases hd : dst = n
      · simp [hd, resOf]
      · have hb : (dst == n) = false := by simpa using hd
        simp only [hb, Bool.false_eq_true, ↓reduceIte]
        cases hl : legalName dst with
        | false => simp [resOf]
        | true =>
          simp only [↓reduceIte, resOf, view_setX, Bool.not_true, Bool.false_eq_true, Res.ok.injEq]
          congr 1
          show XCol.view ix0 { x with name := dst } = _
          simp only [XCol.view, viewFr]
          congr 1
          unfold observe
          simp only [Array.getElem!_eq_getD, Array.getD_eq_getD_getElem?, List.getElem?_toArray, List.getElem?_map,
            List.getElem!_eq_getElem?_getD, List.size_toArray, List.length_map, ite_true]
          congr 1
          exact map_eq_range_map ix0 _
  · intro c' hc'
    unfold copyX at hc'
    cases hf : findX cols n with
    | none => rw [hf] at hc'; cases hc'
    | some x =>
      rw [hf] at hc'
      simp only at hc'
      have hx := findX_mem cols hf
      split at hc'
      · cases hc'; exact ⟨hok, rfl⟩
      · split at hc'
        · cases hc'
          exact colsOK_setX hok _ (hok.len x hx) (hok.ok x hx) (hok.enum x hx)
        · cases hc'

theorem upc_eq (up : UpperOracle) (x : Cell) :
    (match x with | .str (some s) => Cell.str (some (up s)) | y => y) = upc up x := by
  cases x with
  | str o => cases o <;> rfl
  | _ => rfl

/-- **apply1 with the built-in `ToUpper`** of a string or enum column: the function of the package's table, run on the column
as it is stored. String: the rows of the loop's index are converted, all others hold the empty string. Enum: the value
table is converted, hence EVERY row (`fillAll`). -/
theorem helper1_upper (hR : R.OK) (hok : ColsOK cols) (h0 : ∀ p ∈ ix0, p < firstLen cols)
    (hm : ∀ r, r < ix0.length → mask r = keep (ix0[r]!)) (dst s1 s2 : Bytes) (fn : Fn) (c : XCol)
    (hc : findX cols s1 = some c) (hu : isUpperCall fn c.col.ty = true) :
    ∃ r, helperX R up cols (ix0.filter keep) 1 dst s1 s2 (goVal fn) (goState fn) = some r ∧
      resOf ix0 r = applyInstr up (viewFr ix0 cols) mask { dst := dst, src1 := some s1, src2 := none, fn := fn } true ∧
      (∀ c', r = some c' → ColsOK c' ∧ firstLen c' = firstLen cols) := by
  have hcl := hok.len c (findX_mem cols hc)
  have hcok := hok.ok c (findX_mem cols hc)
  have hfind : (viewFr ix0 cols).find? s1 = some (c.view ix0) := by rw [view_find, hc]; rfl
  have hrun := (gen_apply1_semantics up (viewFr ix0 cols) ix0 (ix0.filter keep) mask c.col (c.view ix0) dst s1 fn rfl
    hfind ⟨rfl, rfl, rfl⟩ hcok (fun p hp => by have := h0 p hp; omega)
    (fun p hp => by have := h0 p (List.mem_filter.mp hp).1; omega) (mem_filter_index ix0 keep mask hm)).1 hu
  cases fn with
  | builtin n =>
    simp only [isUpperCall, Bool.and_eq_true, beq_iff_eq] at hu
    obtain ⟨hn, hb⟩ := hu
    subst hn
    have hx : helperX R up cols (ix0.filter keep) 1 dst s1 s2 (goVal (.builtin (strBytes "ToUpper"))) (goState (.builtin (strBytes "ToUpper"))) =
        (upperX R up (strBytes "ToUpper") c.col (ix0.filter keep)).map (fun p =>
          if legalName dst then some (setX cols { name := dst, col := p.1, strict := p.2 }) else none) := by
      simp only [helperX, hc]
      have e : (apply1Of c.col.ty).run { recv := c.col, other := c.col, ix := ix0.filter keep, firstColLen := c.col.cells.length, fn := goVal (.builtin (strBytes "ToUpper")), s0 := goState (.builtin (strBytes "ToUpper")) } = .builtin (upperHash c.col.ty) := hrun
      rw [e]
      simp only [goVal, wrap_sets.1, wrap_sets.2, Bool.true_and]
    rw [hx]
    have hix : ∀ r ∈ ix0.filter keep, r < firstLen cols := fun p hp => h0 p (List.mem_filter.mp hp).1
    have hm' := mem_filter_index ix0 keep mask hm
    have hty : c.col.ty = .string ∨ c.col.ty = .enum := by
      cases h : c.col.ty <;> simp [h, hasBuiltins] at hb ⊢
    rcases hty with hty | hty
    · -- the string column
      have srep := (hR c.col hcok).1 hty
      have hBl : (R.s c.col).ptrs.length = firstLen cols := by
        rw [← blobCells_length, ← srep.cells]; exact hcl
      obtain ⟨Rr, r1, _, _, _, _, r6, r7, r8, r9⟩ := gen_supper_semantics up (R.s c.col) (ix0.filter keep) srep.valid
        (fun r hr => by rw [hBl]; exact hix r hr)
      have hup : upperX R up (strBytes "ToUpper") c.col (ix0.filter keep) = some ({ ty := .string, cells := blobCells Rr.res }, false) := by
        simp only [upperX, hty, r1]
      rw [hup]
      have hcells := blob_upper_cells up (R.s c.col) Rr.res (ix0.filter keep) r6 r8 r9
      have hbe : (strBytes "ToUpper" == strBytes "ToUpper" && (c.view ix0).ty == CType.enum) = false := by
        show (_ && c.col.ty == CType.enum) = false
        rw [hty]; simp
      have hbs : (strBytes "ToUpper" == strBytes "ToUpper" && (c.view ix0).ty == CType.string) = true := by
        show (_ && c.col.ty == CType.string) = true
        rw [hty]; simp
      cases hl : legalName dst with
      | false =>
        refine ⟨none, by simp, ?_, fun c' h => by cases h⟩
        simp [applyInstr, hfind, hbe, hbs, hl, resOf]
      | true =>
        refine ⟨some (setX cols { name := dst, col := { ty := .string, cells := blobCells Rr.res }, strict := false }), by simp, ?_, ?_⟩
        · simp only [applyInstr, hfind, hbe, hbs, hl, resOf, view_setX, ↓reduceIte, Bool.false_eq_true, Res.ok.injEq]
          congr 1
          simp only [XCol.view]
          congr 1
          rw [hcells, hBl]
          rw [observe_rowsOf ix0 (ix0.filter keep) (firstLen cols) (.str (some [])) _ h0 mask hm'
            (fun r => match (c.view ix0).cells[r]! with | .str (some s) => Cell.str (some (up s)) | x => x)
            (by
              intro r hr
              rw [upc_eq]
              congr 1
              show (observe ix0 c.col.cells)[r]! = _
              rw [observe_get _ _ _ hr, srep.cells])]
          rfl
        · intro c' h
          cases h
          refine colsOK_setX hok _ (by simp only; rw [blobCells_length, r6, hBl]) ?_ (fun e => by cases e)
          exact colOk_of_kind (r := .string) (by decide) (fun x hx => by
            unfold blobCells at hx
            obtain ⟨i, _, rfl⟩ := List.mem_map.mp hx
            rfl)
    · -- the enum column
      have erep := (hR c.col hcok).2 hty
      have hv : (R.e c.col).values.length ≤ 255 := by rw [erep.vals]; exact hok.enum c (findX_mem cols hc) hty
      have hEl : (R.e c.col).data.length = firstLen cols := by
        rw [← enumCells_length, ← erep.cells]; exact hcl
      obtain ⟨_, Rr, r1, _, _, r4, r5, r6, _, _⟩ := gen_eupper_semantics up (R.e c.col) erep.codes
      have hup : upperX R up (strBytes "ToUpper") c.col (ix0.filter keep) =
          some ({ ty := .enum, vals := Rr.values, cells := enumCells ⟨Rr.data, Rr.values, Rr.strict⟩ }, Rr.strict) := by
        simp only [upperX, hty, r1]
      rw [hup]
      have hbe : (strBytes "ToUpper" == strBytes "ToUpper" && (c.view ix0).ty == CType.enum) = true := by
        show (_ && c.col.ty == CType.enum) = true
        rw [hty]; simp
      cases hl : legalName dst with
      | false =>
        refine ⟨none, by simp, ?_, fun c' h => by cases h⟩
        simp [applyInstr, hfind, hbe, hl, resOf]
      | true =>
        refine ⟨some (setX cols { name := dst, col := { ty := .enum, vals := Rr.values, cells := enumCells ⟨Rr.data, Rr.values, Rr.strict⟩ }, strict := Rr.strict }), by simp, ?_, ?_⟩
        · simp only [applyInstr, hfind, hbe, hl, resOf, view_setX, ↓reduceIte, Res.ok.injEq]
          congr 1
          simp only [XCol.view, r4, r5, r6]
          rw [← erep.vals]
          congr 1
          unfold observe
          congr 1
          rw [map_eq_range_map ix0]
          show _ = List.map _ (List.range ix0.length)
          apply List.map_congr_left
          intro r hr
          have hrl : r < ix0.length := List.mem_range.mp hr
          have hp : ix0[r] < (R.e c.col).data.length := by rw [hEl]; exact h0 _ (List.getElem_mem hrl)
          simp only [List.getElem?_eq_getElem hrl, Option.map_some, Option.getD_some]
          rw [enum_upper_cells up (R.e c.col) erep.codes hv false _ hp]
          refine Eq.trans ?_ (upc_eq up _).symm
          congr 1
          show _ = (observe ix0 c.col.cells)[r]!
          rw [observe_get _ _ _ hrl, erep.cells]
          simp [hrl]
        · intro c' h
          cases h
          have hvl : Rr.values.length ≤ 255 := by
            rw [r4]
            have := dedup_length_le ((R.e c.col).values.map up)
            simp only [List.length_map] at this
            omega
          refine colsOK_setX hok _ (by simp only; rw [enumCells_length, r6]; simpa using hEl) ?_ (fun _ => hvl)
          exact ⟨(by decide : CType.enum ∈ tys), enumCells_ok ⟨Rr.data, Rr.values, Rr.strict⟩ hvl⟩
  | _ => simp [isUpperCall] at hu

/-- The instructions in scope: a Go `string` function value WITHOUT a source column is a constant (C06LoopsGen
`gen_apply0_string_const`), which the spec's tag `Fn.builtin` does not denote. -/
def InScope (g : GoInstr) : Prop := g.src1 = [] → ∀ n, g.fn ≠ .builtin n

/-- the helper call `Apply`'s dispatch makes for an instruction of the catalogue -/
def stepX (ix : List Nat) (g : GoInstr) : Option (Option (List XCol)) :=
  helperX R up cols ix (specDispatch (toInstr g)).1 g.dst g.src1 g.src2 (goVal g.fn) (goState g.fn)

theorem has_false_of_find {n : Bytes} (h : findX cols n = none) : (viewFr ix0 cols).has n = false := by
  unfold LFrame.has
  rw [view_find, h]
  rfl

/-- **One instruction**: the helper the dispatch picks, run on the physical columns with the index `ix0.filter keep`, read
through `ix0`, is `applyInstr … (fillAll := true)` — and leaves the columns well-formed. -/
theorem stepX_spec (hR : R.OK) (hok : ColsOK cols) (h0 : ∀ p ∈ ix0, p < firstLen cols) (nd : ix0.Nodup)
    (hm : ∀ r, r < ix0.length → mask r = keep (ix0[r]!)) (g : GoInstr) (hs : InScope g) :
    ∃ r, stepX R up cols (ix0.filter keep) g = some r ∧
      resOf ix0 r = applyInstr up (viewFr ix0 cols) mask (toInstr g) true ∧
      (∀ c', r = some c' → ColsOK c' ∧ firstLen c' = firstLen cols) := by
  obtain ⟨dst, s1, s2, fn⟩ := g
  unfold stepX toInstr specDispatch
  cases h1 : s1.isEmpty with
  | true =>
    have e1 : s1 = [] := List.isEmpty_iff.mp h1
    simp only [h1, ↓reduceIte]
    cases fn with
    | colCopy n =>
      obtain ⟨r, a, _, b, c⟩ := helper0_copy R up cols ix0 mask hok (ix0.filter keep) dst s1 s2 (if s2.isEmpty then none else some s2) n
      exact ⟨r, a, b, c⟩
    | builtin n => exact absurd rfl (hs e1 n)
    | const k => exact helper0_spec R up cols ix0 keep mask hok h0 nd hm dst s1 s2 _ _ (by intro n; simp) (by intro n; simp)
    | f0 k st => exact helper0_spec R up cols ix0 keep mask hok h0 nd hm dst s1 s2 _ _ (by intro n; simp) (by intro n; simp)
    | f1 id => exact helper0_spec R up cols ix0 keep mask hok h0 nd hm dst s1 s2 _ _ (by intro n; simp) (by intro n; simp)
    | f2 id => exact helper0_spec R up cols ix0 keep mask hok h0 nd hm dst s1 s2 _ _ (by intro n; simp) (by intro n; simp)
    | bad => exact helper0_spec R up cols ix0 keep mask hok h0 nd hm dst s1 s2 _ _ (by intro n; simp) (by intro n; simp)
  | false =>
    simp only [h1, Bool.false_eq_true, ↓reduceIte]
    cases h2 : s2.isEmpty with
    | true =>
      simp only [↓reduceIte]
      cases hc : findX cols s1 with
      | none =>
        refine ⟨none, by simp [helperX, hc], ?_, fun c' h => by cases h⟩
        rw [C10Sticky.applyInstr_unknown_src1 up _ mask _ true s1 rfl (has_false_of_find cols ix0 hc)]
        rfl
      | some c =>
        cases hu : isUpperCall fn c.col.ty with
        | true => exact helper1_upper R up cols ix0 keep mask hR hok h0 hm dst s1 s2 fn c hc hu
        | false => exact helper1_spec R up cols ix0 keep mask hok h0 hm dst s1 s2 fn c hc hu
    | false =>
      simp only [Bool.false_eq_true, ↓reduceIte]
      cases hc : findX cols s1 with
      | none =>
        refine ⟨none, by simp [helperX, hc], ?_, fun c' h => by cases h⟩
        rw [C10Sticky.applyInstr_unknown_src1 up _ mask _ true s1 rfl (has_false_of_find cols ix0 hc)]
        rfl
      | some c =>
        cases hd : findX cols s2 with
        | none =>
          refine ⟨none, by simp [helperX, hc, hd], ?_, fun c' h => by cases h⟩
          rw [C10Sticky.applyInstr_unknown_src2 up _ mask _ true s1 s2 rfl rfl (has_false_of_find cols ix0 hd)]
          rfl
        | some d => exact helper2_spec R up cols ix0 keep mask hok h0 hm dst s1 s2 fn c d hc hd

end helpers

/-! ## `Apply` on physical frames -/

/-- a frame value read through `ix0` -/
def resFr (ix0 : List Nat) (X : PFr) : Res := if X.err then .err else .ok (viewFr ix0 X.cols)

theorem shadow_dispatch (g : GoInstr) : Gen.applyAst.disp.eval (XInstr.of g).shadow = some (specDispatch (toInstr g)) := by
  rw [gen_apply_dispatch.2.2.1]
  rfl

/-- a helper call on a frame value without error is the step on its columns and index -/
theorem helperFr_eq (R : Reps) (up : UpperOracle) (g : GoInstr) (X : PFr) (he : X.err = false) :
    helperFr R up (specDispatch (toInstr g)).1 (specDispatch (toInstr g)).2 (XInstr.of g) X =
      (stepX R up X.cols X.index g).map (fun r =>
        match r with
        | some c => { X with cols := c }
        | none => { X with err := true }) := by
  obtain ⟨dst, s1, s2, fn⟩ := g
  unfold helperFr stepX
  simp only [he, Bool.false_eq_true, ↓reduceIte]
  unfold toInstr specDispatch
  cases h1 : s1.isEmpty <;> cases h2 : s2.isEmpty <;>
    simp [h1, h2, XInstr.field, XInstr.shadow, XInstr.of, GoInstr.nameOf, helperX]

theorem applyX_err (R : Reps) (up : UpperOracle) (X : PFr) (he : X.err = true) (gs : List GoInstr) :
    applyX R up X (gs.map XInstr.of) = some X := by
  induction gs with
  | nil => simp [applyX, gen_apply_flags]
  | cons g gs ih =>
    simp only [List.map_cons, applyX, shadow_dispatch, helperFr, he, ↓reduceIte, Option.bind_some]
    exact ih

/-- **Today's `Apply` on a physical frame whose index is a filtered part of `ix0`**, read through `ix0`, is `applyS` with
`fillAll := true`; the index is not touched; the loop stops at the first error (a failed frame comes back as it is). -/
theorem applyX_spec (R : Reps) (hR : R.OK) (up : UpperOracle) (ix0 : List Nat) (keep mask : Nat → Bool) (nd : ix0.Nodup)
    (hm : ∀ r, r < ix0.length → mask r = keep (ix0[r]!)) :
    ∀ (gs : List GoInstr) (X : PFr), X.err = false → X.index = ix0.filter keep → ColsOK X.cols →
      (∀ p ∈ ix0, p < firstLen X.cols) → (∀ g ∈ gs, InScope g) →
      ∃ X', applyX R up X (gs.map XInstr.of) = some X' ∧ X'.index = X.index ∧
        resFr ix0 X' = applyS up (viewFr ix0 X.cols) mask true (gs.map toInstr) ∧
        (X'.err = false → ColsOK X'.cols ∧ firstLen X'.cols = firstLen X.cols) := by
  intro gs
  induction gs with
  | nil =>
    intro X he _ hok _ _
    exact ⟨X, by simp [applyX, gen_apply_flags], rfl, by simp [resFr, he, applyS], fun _ => ⟨hok, rfl⟩⟩
  | cons g gs ih =>
    intro X he hix hok h0 hs
    obtain ⟨r, hr, hres, hkeep⟩ := stepX_spec R up X.cols ix0 keep mask hR hok h0 nd hm g (hs g List.mem_cons_self)
    have hstep := helperFr_eq R up g X he
    rw [hix, hr] at hstep
    have happ : applyS up (viewFr ix0 X.cols) mask true ((g :: gs).map toInstr) =
        (match applyInstr up (viewFr ix0 X.cols) mask (toInstr g) true with
         | .ok f' => applyS up f' mask true (gs.map toInstr)
         | .err => .err) := rfl
    rw [happ, ← hres]
    simp only [List.map_cons, applyX, shadow_dispatch, hstep, Option.map_some, Option.bind_some]
    cases r with
    | none =>
      exact ⟨_, applyX_err R up _ rfl gs, hix.symm, by simp [resFr, resOf], fun h => by cases h⟩
    | some c =>
      obtain ⟨hok', hfl⟩ := hkeep c rfl
      obtain ⟨X', a, b, d, e⟩ := ih { cols := c, index := ix0.filter keep, err := X.err } he rfl hok' (by rw [hfl]; exact h0)
        (fun g' hg' => hs g' (List.mem_cons_of_mem _ hg'))
      exact ⟨X', a, b.trans hix.symm, by simpa [resOf] using d, fun h => by obtain ⟨x, y⟩ := e h; exact ⟨x, y.trans hfl⟩⟩

/-! ## `FilteredApply` -/

/-- What `qf.Filter(clause)` does to a physical frame, as far as `FilteredApply` needs it. It is proved of today's source
elsewhere: a failed frame comes back as it is (`C10Guards.gen_sticky_all`); the clause evaluation, regenerated statement by
statement, returns the receiver with an error exactly for the clauses that are not well formed, and otherwise the receiver
with the sub-index of the rows the clause's row-wise meaning keeps (`C02ClausesGen.gen_clause_filter_semantics`,
`gen_filter_eq_spec_today`; the columns come from `withIndex` / `withErr`: `C08ProjectGen.gen_project_canon`). -/
structure FilterOK (lo : LikeOracle) (c : Clause) (filt : PFr → Option PFr) (X : PFr) : Prop where
  sticky : X.err = true → filt X = some X
  bad : X.err = false → c.wellFormed lo (viewFr X.index X.cols) = false → ∃ Y, filt X = some Y ∧ Y.err = true
  good : X.err = false → c.wellFormed lo (viewFr X.index X.cols) = true →
    ∃ keep : Nat → Bool, filt X = some { X with index := X.index.filter keep } ∧
      ∀ r, r < X.index.length → c.sem lo (viewFr X.index X.cols) r = keep (X.index[r]!)

/-- the environment of `FilteredApply` / `WithRowNums` on physical frames: today's `Apply` -/
def physEnv (R : Reps) (up : UpperOracle) (X : PFr) (name : Bytes) (filt : PFr → Option PFr) (gs : List GoInstr) : FAEnv (List XCol) :=
  { recv := X, colName := name, filter := filt, applyParam := fun Y => applyX R up Y (gs.map XInstr.of), applyLits := applyX R up }

/-- **`FilteredApply` of today's source** (C06), for every well-formed physical frame `X` (columns of one physical length,
well-typed cells, a duplicate-free index in range), every stored representation of its string and enum columns, every
clause and EVERY list of instructions of the catalogue: with `Filter` as specified (`FilterOK`) and `Apply` = today's loop,
dispatch and helpers on physical columns (`applyX`), the regenerated body returns a frame `Y` such that
* a receiver with an error comes back as it is;
* otherwise `Y`, read through the receiver's ORIGINAL index, is exactly `filteredApplyS … (fillAll := true)`: Filter's error
  if the clause is not well formed; else the instructions applied to the rows the clause keeps, every other row of a new
  column holding the zero value of its type (the empty string for the string `ToUpper`) — except that a `ColumnName` copy
  and the enum `ToUpper` fill ALL rows (the open finding KF-C06-fapply-fill, `gen_fapply_copy_fills_all`);
* a result without error carries the receiver's original index. -/
theorem gen_fapply_semantics (R : Reps) (hR : R.OK) (lo : LikeOracle) (up : UpperOracle) (c : Clause) (gs : List GoInstr)
    (hs : ∀ g ∈ gs, InScope g) (X : PFr) (filt : PFr → Option PFr) (hF : FilterOK lo c filt X)
    (hok : ColsOK X.cols) (h0 : ∀ p ∈ X.index, p < firstLen X.cols) (nd : X.index.Nodup) :
    ∃ Y, runFA (physEnv R up X [] filt gs) Gen.fapplyAst [] = some Y ∧
      (X.err = true → Y = X) ∧
      (X.err = false →
        resFr X.index Y = filteredApplyS lo up (viewFr X.index X.cols) c (gs.map toInstr) true ∧
        (Y.err = false → Y.index = X.index)) := by
  rw [gen_fapply_run]
  obtain ⟨cols, index, err⟩ := X
  cases err with
  | true =>
    refine ⟨⟨cols, index, true⟩, ?_, fun _ => rfl, fun h => ?_⟩
    · simp [physEnv, hF.sticky rfl]
    · cases h
  | false =>
    cases hw : c.wellFormed lo (viewFr index cols) with
    | false =>
      obtain ⟨Y, hY, hYe⟩ := hF.bad rfl hw
      refine ⟨Y, ?_, fun h => ?_, fun _ => ⟨?_, fun h => ?_⟩⟩
      · simp [physEnv, hY, hYe]
      · cases h
      · simp [resFr, hYe, filteredApplyS, hw]
      · rw [hYe] at h; cases h
    | true =>
      obtain ⟨keep, hY, hk⟩ := hF.good rfl hw
      obtain ⟨X', a, b, d, _⟩ := applyX_spec R hR up index keep (c.sem lo (viewFr index cols)) nd hk gs
        ⟨cols, index.filter keep, false⟩ rfl rfl hok h0 hs
      refine ⟨{ X' with index := index }, ?_, fun h => ?_, fun _ => ⟨?_, fun _ => rfl⟩⟩
      · simp [physEnv, hY, a]
      · cases h
      · simp only [filteredApplyS, hw, ↓reduceIte]
        rw [← d]
        rfl

theorem findX_setX_self (cols : List XCol) (c : XCol) : findX (setX cols c) c.name = some c := by
  unfold findX setX
  induction cols with
  | nil => simp
  | cons a as ih =>
    by_cases ha : a.name = c.name
    · simp [ha]
    · have hb : (a.name == c.name) = false := by simpa using ha
      cases hany : as.any (fun o => o.name == c.name) <;>
        simp only [hany, List.any_cons, hb, Bool.false_or, Bool.false_eq_true, ↓reduceIte, List.map_cons, List.cons_append,
          List.find?_cons] at ih ⊢ <;> exact ih

/-- **The finding, as a theorem** (KF-C06-fapply-fill): `FilteredApply(clause, Instruction{Fn: ColumnName(n), DstCol: dst})`
on a frame that has the column `n` (`dst` another, legal name; the clause well formed) returns the frame in which `dst` IS
the stored column `n` — shared, every physical row of it, whatever the clause keeps. Read through the index this is
`filteredApplyS … (fillAll := true)`; with `fillAll := false` the spec would show the zero value on the rows the clause
rejects (`fapply_copy_differs`). -/
theorem gen_fapply_copy_fills_all (R : Reps) (lo : LikeOracle) (up : UpperOracle) (c : Clause) (dst n : Bytes)
    (X : PFr) (filt : PFr → Option PFr) (hF : FilterOK lo c filt X) (he : X.err = false)
    (hw : c.wellFormed lo (viewFr X.index X.cols) = true) (x : XCol) (hx : findX X.cols n = some x) (hdn : dst ≠ n)
    (hl : legalName dst = true) (hok : ColsOK X.cols) :
    runFA (physEnv R up X [] filt [{ dst := dst, fn := .colCopy n }]) Gen.fapplyAst [] =
      some { X with cols := setX X.cols { x with name := dst } } ∧
    findX (setX X.cols { x with name := dst }) dst = some { x with name := dst } ∧
    Res.ok (viewFr X.index (setX X.cols { x with name := dst })) =
      filteredApplyS lo up (viewFr X.index X.cols) c [{ dst := dst, src1 := none, src2 := none, fn := .colCopy n }] true := by
  obtain ⟨cols, index, err⟩ := X
  simp only at he
  subst he
  obtain ⟨keep, hY, hk⟩ := hF.good rfl hw
  have hd : (dst == n) = false := by simpa using hdn
  have hcopy : copyX cols dst n = some (setX cols { x with name := dst }) := by
    simp only at hx
    simp [copyX, hx, hd, hl]
  obtain ⟨r, h1, h2, h3, _⟩ := helper0_copy R up cols index (c.sem lo (viewFr index cols)) hok (index.filter keep) dst [] [] none n
  rw [hcopy] at h2
  subst h2
  refine ⟨?_, findX_setX_self cols { x with name := dst }, ?_⟩
  · rw [gen_fapply_run]
    have hdisp : Gen.applyAst.disp.eval { dst := dst, fn := .bad } = some (0, [.fn, .dst]) :=
      gen_apply_dispatch.2.2.2.2.1 _ rfl
    simp [physEnv, hY, applyX, hdisp, helperFr, XInstr.field, XInstr.shadow, XInstr.of, GoInstr.nameOf, h1, gen_apply_flags]
  · simp only [filteredApplyS, hw, ↓reduceIte, applyS]
    rw [← h3]
    rfl

/-! ## `WithRowNums` -/

theorem idxOf?_range (n r : Nat) (h : r < n) : (List.range n).idxOf? r = some r := by
  unfold List.idxOf?
  rw [List.findIdx?_eq_some_iff_getElem]
  refine ⟨by simpa using h, by simp, ?_⟩
  intro j hj
  simp only [List.getElem_range, beq_iff_eq]
  omega

/-- **`WithRowNums` of today's source** (C06): for every well-formed physical frame, `Apply` = today's loop, dispatch and
`apply0` — the regenerated body returns the frame with the column `0 … n-1` IN INDEX ORDER under the given name (an error for
an illegal name): `rowNumsS`. The closure `i := -1; func() int { i++; return i }` is called once per row of the index, in
index order, and its `k`-th value lands in the physical row `index[k]`. A receiver with an error comes back as it is. -/
theorem gen_rownums_semantics (R : Reps) (up : UpperOracle) (X : PFr) (name : Bytes) (hok : ColsOK X.cols)
    (h0 : ∀ p ∈ X.index, p < firstLen X.cols) (nd : X.index.Nodup) :
    ∃ Y, runFA (physEnv R up X name (fun _ => none) []) Gen.rowNumsFnAst [] = some Y ∧
      (X.err = true → Y = X) ∧
      (X.err = false → Y.index = X.index ∧ resFr X.index Y = rowNumsS (viewFr X.index X.cols) name) := by
  rw [gen_rownums_run]
  obtain ⟨cols, index, err⟩ := X
  have hdisp : Gen.applyAst.disp.eval { dst := name, fn := .bad } = some (0, [.fn, .dst]) :=
    gen_apply_dispatch.2.2.2.2.1 _ rfl
  cases err with
  | true =>
    refine ⟨⟨cols, index, true⟩, ?_, fun _ => rfl, fun h => ?_⟩
    · simp [physEnv, applyX, counterInstr, XInstr.shadow, hdisp, helperFr, gen_apply_flags]
    · cases h
  | false =>
    let next : Int → Cell × Int := fun v => (.int (v + 1), v + 1)
    let E0 : LEnv Int := { recv := noCol, other := noCol, ix := index, firstColLen := firstLen cols, fn := .fn0 .int next, s0 := -1 }
    have hrun : Gen.apply0Ast.run E0 = expect0 E0 := (gen_apply_loops_physical E0).2.2 h0 nd
    have hexp : expect0 E0 = .arr .create .int (rowsOf0 (firstLen cols) index (.int 0) next (-1)) (iterState next (-1) index.length) := by
      simp [expect0, E0, resTys, zeroCell]
    have hx : helperX R up cols index 0 name [] [] (.fn0 .int next) (-1) =
        some (if legalName name then some (setX cols { name := name, col := { ty := .int, cells := rowsOf0 (firstLen cols) index (.int 0) next (-1) } }) else none) := by
      simp only [helperX]
      have : Gen.apply0Ast.run { recv := noCol, other := noCol, ix := index, firstColLen := firstLen cols, fn := .fn0 .int next, s0 := -1 } = _ := hrun.trans hexp
      rw [this]
      simp [placeX]
    have hcells : observe index (rowsOf0 (firstLen cols) index (.int 0) next (-1)) =
        ((List.range index.length).map (fun (r : Nat) => Cell.int (r : Int))).toArray := by
      have hf : index.filter (fun _ => true) = index := List.filter_eq_self.mpr (fun _ _ => rfl)
      have := observe_rowsOf0 index (fun _ => true) (firstLen cols) (.int 0) next (-1) h0 nd (fun _ => true) (fun _ _ => rfl)
      rw [hf] at this
      rw [this]
      congr 1
      apply List.map_congr_left
      intro r hr
      have hrl : r < index.length := List.mem_range.mp hr
      have hft : (List.range index.length).filter (fun _ => true) = List.range index.length := List.filter_eq_self.mpr (fun _ _ => rfl)
      rw [hft, idxOf?_range _ _ hrl]
      simp only
      rw [nthVal_counter (fun i => Cell.int (i + 1)) (-1) r]
      congr 1
      omega
    cases hl : legalName name with
    | false =>
      refine ⟨⟨cols, index, true⟩, ?_, fun h => ?_, fun _ => ⟨rfl, ?_⟩⟩
      · simp [physEnv, applyX, counterInstr, XInstr.shadow, XInstr.field, GoInstr.nameOf, hdisp, helperFr, gen_apply_flags, hx, hl, next]
      · cases h
      · simp [resFr, rowNumsS, hl]
    | true =>
      refine ⟨⟨setX cols { name := name, col := { ty := .int, cells := rowsOf0 (firstLen cols) index (.int 0) next (-1) } }, index, false⟩,
        ?_, fun h => ?_, fun _ => ⟨rfl, ?_⟩⟩
      · simp [physEnv, applyX, counterInstr, XInstr.shadow, XInstr.field, GoInstr.nameOf, hdisp, helperFr, gen_apply_flags, hx, hl, next]
      · cases h
      · simp only [resFr, Bool.false_eq_true, ↓reduceIte, rowNumsS, hl, view_setX, Res.ok.injEq]
        congr 1
        simp only [XCol.view, hcells]
        rfl

/-! ## `copyX` / `setX` are what today's `Copy` / `setColumn` do to the column list (QF/Gen/Project.lean, C08ProjectGen) -/

/-- the statements of a translated function body -/
def pfStms : PF → List PStm
  | .seq ss => ss
  | .fork p _ t e => p ++ t ++ e
  | .opaque _ => []

/-- the column of every element a statement stores into a column list or a name map -/
def storedCols : PStm → List (Option PC)
  | .do (.colStore _ _ e) | .do (.mapPut _ _ e) | .do (.appendCol _ e) =>
    [match e with | .mk _ c _ => some c | _ => none]
  | _ => []

def retFrames : PStm → List PRet
  | .ret r => [r]
  | .retIf _ r => [r]
  | _ => []

def lookupsA : PStm → List (PMp × PN)
  | .do (.lookup .a m k) => [(m, k)]
  | _ => []

/-- **Today's `Copy(dst, src)` shares the stored source column and passes the index through** (read off the regenerated
term, a finite check redone on every run): register `a` is the receiver's element under the SOURCE name; every element it
stores — in the new column list and in the new name map — is `namedColumn{dst, a.Column, ·}`: the same `column.Column`
value, no loop over rows, no index; the frame it returns has the receiver's index. `setColumn` stores its `column.Column`
parameter likewise. So under `FilteredApply` a `ColumnName` instruction cannot depend on the filtered index: `copyX`. -/
theorem gen_copy_shares_column :
    ((pfStms ((Gen.projectAst.lookup "Copy").getD (.opaque ""))).flatMap lookupsA = [(.recv, .src)]) ∧
    (∀ c ∈ (pfStms ((Gen.projectAst.lookup "Copy").getD (.opaque ""))).flatMap storedCols, c = some (.colOf (.reg .a))) ∧
    (∀ r ∈ (pfStms ((Gen.projectAst.lookup "Copy").getD (.opaque ""))).flatMap retFrames, r = .frame .new .new .recv .recv) ∧
    (∀ c ∈ (pfStms ((Gen.projectAst.lookup "setColumn").getD (.opaque ""))).flatMap storedCols, c = some .param) ∧
    (∀ r ∈ (pfStms ((Gen.projectAst.lookup "setColumn").getD (.opaque ""))).flatMap retFrames, r = .frame .new .new .recv .recv) := by
  decide

/-- for a code inside the value table: the new code IS the position of the upper-cased value in the new table -/
theorem remapCode_pos (up : UpperOracle) (vals : List Bytes) (c : Nat) (hc : c < vals.length) (hne : c ≠ euNull) :
    ∃ j, posOf (dedup (vals.map up)) (up vals[c]) = some j ∧ remapCode up vals c = j ∧ (dedup (vals.map up))[j]? = some (up vals[c]) := by
  have hmem : up (vals[c]) ∈ vals.map up := List.mem_map_of_mem (List.getElem_mem hc)
  obtain ⟨j, hj, _, hjv⟩ := posOf_some_of_mem (List.contains_iff_mem.mp (dedup_contains _ _ hmem))
  refine ⟨j, hj, ?_, hjv⟩
  unfold remapCode upVals
  simp [hne, List.getElem?_eq_getElem hc, hj]

/-! ## The hypotheses can be met: a `Filter`, and a stored representation of every well-typed column -/

theorem idxOf?_getElem_nodup (l : List Nat) (nd : l.Nodup) (r : Nat) (hr : r < l.length) : l.idxOf? l[r] = some r := by
  unfold List.idxOf?
  rw [List.findIdx?_eq_some_iff_getElem]
  refine ⟨hr, by simp, ?_⟩
  intro j hj
  simp only [beq_iff_eq]
  intro e
  have := (List.getElem_inj nd).mp e
  omega

/-- `Filter` as the spec reads it, on physical frames -/
def specFilter (lo : LikeOracle) (c : Clause) (X : PFr) : Option PFr :=
  if X.err then some X
  else if c.wellFormed lo (viewFr X.index X.cols) then
    some { X with index := X.index.filter (fun p =>
      match X.index.idxOf? p with
      | some r => c.sem lo (viewFr X.index X.cols) r
      | none => false) }
  else some { X with err := true }

theorem specFilter_ok (lo : LikeOracle) (c : Clause) (X : PFr) (nd : X.index.Nodup) : FilterOK lo c (specFilter lo c) X := by
  obtain ⟨cols, index, err⟩ := X
  refine ⟨fun he => by simp only at he; subst he; simp [specFilter],
    fun he hw => by simp only at he; subst he; exact ⟨⟨cols, index, true⟩, by simp [specFilter, hw], rfl⟩, fun he hw => ?_⟩
  simp only at he
  subst he
  refine ⟨fun p => match index.idxOf? p with | some r => c.sem lo (viewFr index cols) r | none => false, ?_, ?_⟩
  · simp [specFilter, hw]
  · intro r hr
    have e : index[r]! = index[r] := by simp [hr]
    simp only
    rw [e, idxOf?_getElem_nodup _ nd r hr]

/-- a stored enum column showing the cells of `P`: the code of a cell is the rank of its string in the value table -/
def eOf (P : PCol) : ECol :=
  { data := P.cells.map (fun c => match c with | .str (some s) => (enumRank P.vals s).getD euNull | _ => euNull)
    values := P.vals }

theorem eOf_rep (P : PCol) (hok : ColOk P) (hty : P.ty = .enum) : EnumRep (eOf P) P := by
  have hcell : ∀ x ∈ P.cells, x = .str none ∨ ∃ s i, x = .str (some s) ∧ enumRank P.vals s = some i ∧ i < 255 ∧ i < P.vals.length ∧ P.vals[i]? = some s := by
    intro x hx
    have h := hok.2 x hx
    rw [hty] at h
    unfold cellOk at h
    cases x with
    | str o =>
      cases o with
      | none => exact .inl rfl
      | some s =>
        right
        simp only [cellVal] at h
        cases hr : enumRank P.vals s with
        | none => rw [hr] at h; cases h
        | some i =>
          rw [hr] at h
          have hlt : i < enumNull := by
            by_cases hl : i < enumNull
            · exact hl
            · simp [hl] at h
          obtain ⟨hil, hb, _⟩ := List.findIdx?_eq_some_iff_getElem.mp hr
          refine ⟨s, i, rfl, hr, hlt, hil, ?_⟩
          rw [List.getElem?_eq_getElem hil]
          simp only [beq_iff_eq] at hb
          rw [hb]
    | int v => simp [cellVal] at h
    | float v => simp [cellVal] at h
    | bool v => simp [cellVal] at h
  refine ⟨?_, rfl, ?_⟩
  · intro c hc
    simp only [eOf, List.mem_map] at hc
    obtain ⟨x, hx, rfl⟩ := hc
    rcases hcell x hx with rfl | ⟨s, i, rfl, hr, _, hil, _⟩
    · exact .inl rfl
    · right; simp only [hr, Option.getD_some]; exact hil
  · unfold enumCells eOf
    simp only [List.map_map]
    conv => lhs; rw [← List.map_id P.cells]
    apply List.map_congr_left
    intro x hx
    rcases hcell x hx with rfl | ⟨s, i, rfl, hr, hlt, hil, hv⟩
    · simp [euNull]
    · have hne : i ≠ euNull := by unfold euNull; omega
      simp [hr, hne, hv]

/-- a stored string column showing the cells of `P`: the strings one after the other in one blob -/
def blobAdd (B : BCol) (c : Cell) : BCol :=
  match c with
  | .str (some s) => ⟨B.ptrs ++ [⟨B.data.length, s.length, false⟩], B.data ++ s⟩
  | _ => ⟨B.ptrs ++ [⟨B.data.length, 0, true⟩], B.data⟩

def sOf (P : PCol) : BCol := P.cells.foldl blobAdd ⟨[], []⟩

theorem blobAdd_spec (B : BCol) (hv : BValid B.ptrs B.data) (o : Option Bytes) :
    BValid (blobAdd B (.str o)).ptrs (blobAdd B (.str o)).data ∧ blobCells (blobAdd B (.str o)) = blobCells B ++ [.str o] := by
  have hold : ∀ (more : Bytes) (i : Nat), i < B.ptrs.length →
      Cell.str ((((B.ptrs ++ [(⟨B.data.length, more.length, o.isNone⟩ : BPtr)])[i]?).map (ptrCell (B.data ++ more))).getD none) =
        Cell.str ((B.cell i).getD none) := by
    intro more i hi
    rw [List.getElem?_append_left hi]
    simp only [BCol.cell, List.getElem?_eq_getElem hi, Option.map_some, Option.getD_some]
    rw [ptrCell_append _ _ _ (hv _ (List.getElem_mem hi))]
  cases o with
  | none =>
    refine ⟨?_, ?_⟩
    · intro p hp hn
      simp only [blobAdd, List.mem_append, List.mem_singleton] at hp
      rcases hp with hp | rfl
      · exact hv p hp hn
      · cases hn
    · simp only [blobCells, blobAdd, List.length_append, List.length_singleton, List.range_succ, List.map_append, List.map_cons, List.map_nil]
      congr 1
      · apply List.map_congr_left
        intro i hi
        have := hold [] i (List.mem_range.mp hi)
        simpa [BCol.cell] using this
      · simp [BCol.cell, ptrCell]
  | some s =>
    refine ⟨?_, ?_⟩
    · intro p hp hn
      simp only [blobAdd, List.mem_append, List.mem_singleton] at hp
      rcases hp with hp | rfl
      · have := hv p hp hn
        simp only [blobAdd, List.length_append]; omega
      · simp [blobAdd]
    · simp only [blobCells, blobAdd, List.length_append, List.length_singleton, List.range_succ, List.map_append, List.map_cons, List.map_nil]
      congr 1
      · apply List.map_congr_left
        intro i hi
        have := hold s i (List.mem_range.mp hi)
        simpa [BCol.cell] using this
      · simp [BCol.cell, ptrCell]

theorem sOf_fold : ∀ (l : List Cell) (B : BCol), BValid B.ptrs B.data → (∀ x ∈ l, ∃ o, x = Cell.str o) →
    BValid (l.foldl blobAdd B).ptrs (l.foldl blobAdd B).data ∧ blobCells (l.foldl blobAdd B) = blobCells B ++ l := by
  intro l
  induction l with
  | nil => intro B hv _; exact ⟨hv, by simp⟩
  | cons x xs ih =>
    intro B hv hl
    obtain ⟨o, rfl⟩ := hl x List.mem_cons_self
    obtain ⟨h1, h2⟩ := blobAdd_spec B hv o
    obtain ⟨h3, h4⟩ := ih _ h1 (fun y hy => hl y (List.mem_cons_of_mem _ hy))
    exact ⟨h3, by rw [List.foldl_cons, h4, h2]; simp⟩

theorem sOf_rep (P : PCol) (hok : ColOk P) (hty : P.ty = .string) : StrRep (sOf P) P := by
  have hstr : ∀ x ∈ P.cells, ∃ o, x = Cell.str o := by
    intro x hx
    have h := hok.2 x hx
    rw [hty] at h
    cases x with
    | str o => exact ⟨o, rfl⟩
    | int v => simp [cellOk, cellVal] at h
    | float v => simp [cellOk, cellVal] at h
    | bool v => simp [cellOk, cellVal] at h
  obtain ⟨h1, h2⟩ := sOf_fold P.cells ⟨[], []⟩ (by intro p hp; cases hp) hstr
  exact ⟨h1, by rw [show sOf P = P.cells.foldl blobAdd ⟨[], []⟩ from rfl, h2]; simp [blobCells]⟩

/-- **The hypotheses of `gen_fapply_semantics` can be met**: there is a stored representation of every well-typed string and
enum column, and a `Filter` that does what `FilterOK` asks. -/
theorem hypotheses_satisfiable :
    (∃ R : Reps, R.OK) ∧ (∀ lo c (X : PFr), X.index.Nodup → ∃ filt, FilterOK lo c filt X) :=
  ⟨⟨⟨sOf, eOf⟩, fun P hok => ⟨sOf_rep P hok, eOf_rep P hok⟩⟩, fun lo c X nd => ⟨_, specFilter_ok lo c X nd⟩⟩

/-! ## Witnesses: the statements tell wrong code apart -/

section Witnesses

/-- the cells a result shows under a name -/
def cellsAt (r : Res) (n : Bytes) : Option (List Cell) :=
  match r with
  | .ok f => (f.find? n).map (·.cells.toList)
  | .err => none

private def noLike : LikeOracle := { valid := fun _ _ => false, isMatch := fun _ _ _ => false }
private def f3 : LFrame := { cols := [{ name := [120], ty := .int, cells := #[.int 1, .int 2, .int 3] }], n := 3 }
private def copyXY : Instr := { dst := [121], src1 := none, src2 := none, fn := .colCopy [120] }

/-- the finding on a concrete input: `FilteredApply(Not(Null), {Fn: ColumnName("x"), DstCol: "y"})` on `x = [1, 2, 3]` — the
clause keeps no row, the code (`fillAll := true`) fills `y = [1, 2, 3]`, the documented behaviour would be `[0, 0, 0]` -/
theorem fapply_copy_differs :
    (Clause.not Clause.null).wellFormed noLike f3 = true ∧
    cellsAt (filteredApplyS noLike id f3 (.not .null) [copyXY] true) [121] = some [.int 1, .int 2, .int 3] ∧
    cellsAt (filteredApplyS noLike id f3 (.not .null) [copyXY] false) [121] = some [.int 0, .int 0, .int 0] := by decide

/-- what a run of the plumbing shows: (columns, index, error) -/
private def shown (r : Option (XFr Nat)) : Option (Nat × List Nat × Bool) := r.map (fun x => (x.cols, x.index, x.err))

/-- a test bench: the "columns" are a number; `Filter` keeps row 2 (and may change the columns by `dc`); `Apply` adds, to the
columns, 10 times the length of the index it sees -/
private def bench (dc : Nat) : FAEnv Nat :=
  { recv := ⟨0, [0, 1, 2], false⟩
    filter := fun x => some { x with cols := x.cols + dc, index := [2] }
    applyParam := fun x => some { x with cols := x.cols + 10 * x.index.length }
    applyLits := fun x _ => some x }

-- today's term: `Apply` sees the filtered index (one row), the result carries the original one
example : shown (runFA (bench 0) Gen.fapplyAst []) = some (10, [0, 1, 2], false) := by decide

/-- `newQf.index = filteredQf.index` at the end instead of `qf.index` -/
def fapplyRestoreFiltered : List FAStm := [
  .decl (.filter .recv), .retIfErr (.loc 0) (.loc 0), .decl .recv, .setIndex 1 (.loc 0),
  .assign 1 (.applyParam (.loc 1)), .setIndex 1 (.loc 0), .ret (.loc 1)]

-- … the result keeps the FILTERED index: rows are lost
example : shown (runFA (bench 0) fapplyRestoreFiltered []) = some (10, [2], false) := by decide
example : fapplyRestoreFiltered ≠ canonFApply := by decide

/-- no `newQf.index = filteredQf.index`: `Apply` runs on the receiver's own index -/
def fapplyNoSwap : List FAStm := [
  .decl (.filter .recv), .retIfErr (.loc 0) (.loc 0), .decl .recv,
  .assign 1 (.applyParam (.loc 1)), .setIndex 1 .recv, .ret (.loc 1)]

-- … every row is computed, the clause is ignored
example : shown (runFA (bench 0) fapplyNoSwap []) = some (30, [0, 1, 2], false) := by decide

/-- `newQf = filteredQf.Apply(instructions...)`: `Apply` run on what `Filter` returned instead of the copy of the receiver with
the swapped index -/
def fapplyOnFiltered : List FAStm := [
  .decl (.filter .recv), .retIfErr (.loc 0) (.loc 0), .decl .recv, .setIndex 1 (.loc 0),
  .assign 1 (.applyParam (.loc 0)), .setIndex 1 .recv, .ret (.loc 1)]

-- a different term (`gen_fapply_canon` fails), and a different result as soon as `Filter` returns other columns than the
-- receiver's …
example : fapplyOnFiltered ≠ canonFApply := by decide
example : shown (runFA (bench 5) Gen.fapplyAst []) = some (10, [0, 1, 2], false) ∧
    shown (runFA (bench 5) fapplyOnFiltered []) = some (15, [0, 1, 2], false) := by decide

/-- … but the SAME result for every `Filter` that returns the receiver's columns and leaves a failed receiver alone — which
is what today's `Filter` does (`FilterOK`): this change is a restructuring, not a defect. -/
theorem fapplyOnFiltered_equiv {γ : Type} (E : FAEnv γ)
    (hF : ∀ Y, E.filter E.recv = some Y → Y.err = false → Y.cols = E.recv.cols ∧ E.recv.err = false) :
    runFA E fapplyOnFiltered [] = runFA E canonFApply [] := by
  cases hf : E.filter E.recv with
  | none => simp [fapplyOnFiltered, canonFApply, runFA, FAFr.eval, hf]
  | some fq =>
    cases he : fq.err with
    | true => simp [fapplyOnFiltered, canonFApply, runFA, FAFr.eval, hf, he]
    | false =>
      obtain ⟨h1, h2⟩ := hF fq hf he
      have : ({ E.recv with index := fq.index } : XFr γ) = fq := by
        obtain ⟨c, i, e⟩ := fq
        simp only at h1 he
        subst h1 he
        simp [h2]
      simp [fapplyOnFiltered, canonFApply, runFA, FAFr.eval, hf, he, this]

-- WithRowNums with `i := 0`: the numbers start at 1
example : (FAFnLit.counter 0 .int [.inc, .ret]).val.map (fun v => (nthVal (match v.1 with | .fn0 _ nx => nx | _ => fun s => (.int 0, s)) v.2 0)) =
    some (.int 1) := by decide
example : ((FAFnLit.counter (-1) .int [.inc, .ret]).val.map (fun v => (nthVal (match v.1 with | .fn0 _ nx => nx | _ => fun s => (.int 0, s)) v.2 0))) =
    some (.int 0) := by decide

/-! ### the two `toUpper` -/

/-- ASCII upper-casing of one letter, for the examples -/
private def upA : Bytes → Bytes := fun b => b.map (fun c => if c = 97 then 65 else if c = 98 then 66 else if c = 99 then 67 else c)

private def blobS : BCol := { ptrs := [⟨0, 1, false⟩, ⟨1, 0, true⟩, ⟨1, 2, false⟩], data := [97, 98, 99] }

/-- (the result's cells, the source's data afterwards, number of writes into the source) -/
private def shownS : LR SUOut → Option (List (Option (Option Bytes)) × Bytes × Nat)
  | .ok o => some ((List.range o.res.ptrs.length).map o.res.cell, o.src.data, o.writes)
  | _ => none

private def isPanic {α : Type} : LR α → Bool
  | .panic => true
  | _ => false

-- today's term on rows 2 and 0 of "a", null, "bc": full length, row 1 the empty string, the source untouched
example : shownS ((supperOf (strBytes "ToUpper")).run upA blobS [2, 0]) =
    some ([some (some [65]), some (some []), some (some [66, 67])], [97, 98, 99], 0) := by
  rw [supperOf_upper]; decide

/-- `pointers := make([]Pointer, len(ix))` -/
def supperShortPtrs : SUFn := { canonSUpper with ptrInit := .fresh .ixLen }

-- … the store at row 2 of a two-element array panics
example : isPanic (supperShortPtrs.run upA blobS [2, 0]) = true := by decide

/-- `data := source.data[:0]` instead of a fresh buffer -/
def supperReuseData : SUFn := { canonSUpper with dataInit := .sourcePrefix 0 }

-- … `append` writes the upper-cased bytes INTO the source's blob "abc": it now holds "BCB", the source column reads
-- "B", null, "CB" — and row 0 of the result is made from the overwritten byte ("B" instead of "A") (C01)
example : shownS (supperReuseData.run upA blobS [2, 0]) =
    some ([some (some [66]), some (some []), some (some [66, 67])], [66, 67, 66], 3) := by decide

/-- `pointers := source.pointers` -/
def supperReusePtrs : SUFn := { canonSUpper with ptrInit := .source }

example : (shownS (supperReusePtrs.run upA blobS [2, 0])).map (·.2.2) = some 2 := by decide

/-- the null flag dropped: `NewPointer(len(data), len(upper), false)` -/
def supperNoNull : SUFn :=
  { canonSUpper with body := [.setPtr .row .dataLen (.strLen upperOfCell) (.lit false), .appendStr upperOfCell] }

example : (shownS (supperNoNull.run upA blobS [1])).map (·.1) = some [some (some []), some (some []), some (some [])] := by decide
example : (shownS (canonSUpper.run upA blobS [1])).map (·.1) = some [some (some []), some none, some (some [])] := by decide

private def enumS : ECol := { data := [0, 1, 255, 2], values := [[97], [65], [98]], strict := true }

/-- (data, values, shares the source's data, the source's data afterwards, writes into it) -/
private def shownE : LR EUOut → Option (List Nat × List Bytes × Bool × List Nat × Nat)
  | .ok o => some (o.data, o.values, o.dataShared, o.src.data, o.writes)
  | _ => none

-- today's term: "a" and "A" merge; a fresh data array; the source untouched
example : shownE ((eupperOf (strBytes "ToUpper")).run upA enumS) =
    some ([0, 0, 255, 1], [[65], [66]], false, [0, 1, 255, 2], 0) := by
  rw [eupperOf_upper]; decide

-- nothing merges: the source's data is shared
example : shownE (canonEUpper.run upA { enumS with values := [[97], [99], [98]] }) =
    some ([0, 1, 255, 2], [[65], [67], [66]], true, [0, 1, 255, 2], 0) := by decide

/-- seeded change C06-8: `newData := s.data[:0]` and `newData = append(newData, e)` -/
def eupperReuseData : EUFn :=
  { canonEUpper with dataInit := .sourcePrefix 0
                     loop2 := [.when .regNotNull [.setReg (.mappingAt .reg)], .do (.appendData .reg)] }

-- … the same result, but written over the SOURCE's data: the earlier frame, which still has the old value table
-- ["a", "A", "b"], now reads its codes as a, a, null, A (C01)
example : shownE (eupperReuseData.run upA enumS) =
    some ([0, 0, 255, 1], [[65], [66]], true, [0, 0, 255, 1], 4) := by decide

/-- the code taken AFTER the append: `newValues = append(newValues, upper); e = enumVal(len(newValues))` -/
def eupperLateCode : EUFn :=
  { canonEUpper with loop1 := [.do (.bindStr (.upper .elem)), .do (.lookup .loc),
      .when .notFound [.pushVal .loc, .setReg .valsLen, .mapPut .loc .reg], .do (.storeMapping .reg)] }

example : (shownE (eupperLateCode.run upA enumS)).map (·.1) = some [1, 1, 255, 2] := by decide

/-- null codes remapped too: `mapping[255]` is out of range -/
def eupperNoNullTest : EUFn := { canonEUpper with loop2 := [.do (.setReg (.mappingAt .reg)), .do (.storeData .reg)] }

example : isPanic (eupperNoNullTest.run upA enumS) = true := by decide

end Witnesses

#print axioms gen_fapply_no_opaque
#print axioms gen_fapply_canon
#print axioms gen_builtin_keys
#print axioms gen_supper_semantics
#print axioms gen_eupper_semantics
#print axioms gen_fapply_run
#print axioms gen_rownums_run
#print axioms stepX_spec
#print axioms applyX_spec
#print axioms gen_fapply_semantics
#print axioms gen_fapply_copy_fills_all
#print axioms fapply_copy_differs
#print axioms gen_rownums_semantics
#print axioms fapplyOnFiltered_equiv
#print axioms hypotheses_satisfiable
#print axioms gen_copy_shares_column
#print axioms remapCode_pos

end QF.Props.C06FApplyGen
