import QF.Props.C16PrecisionCheck
/-!
# C16 — Ryu's precision lemma for the 121/122-bit tables, and `ryu_shortest` without hypotheses

`ryu_shortest_partial` needed that the three `mulShift64` results of step 3 are the exact floors `⌊m·N/D⌋` of the scaled
quantities; `mulShift64_table` reduced this to `⌊m·μ/2^s⌋ = ⌊m·N/D⌋` for the table multiplier `μ = mulVal exp` and the shift
`s = shiftOf exp`.

**Result 1 (`precision`).** For every exponent field `exp < 2047` and EVERY `m < 2^55` the two floors agree — with exactly
two exceptions, `(exp, m) = (472, 28933731341339864)` and `(1797, 33542060588139028)`, where they differ by one
(`precision_exceptions`). Both exceptional `m` are multiples of 4 with `m/4 ∈ [2^52, 2^53)`: they are the `mv = 4·m2` of two
real float64 values (bits `0x1D89B2C4D2A82336` = 2.1789991853451517e-166 and `0x705DCA94E3990085` = 1.85006342392073e+233;
`excMant472`, `excMant1797`), so for these two floats the hypothesis `Hvr`
of `ryu_shortest_partial` is FALSE (`hypothesis_fails`: `vr` is off by one). The 121/122-bit tables of this port are therefore
not precise enough for the literal statement of the precision lemma; the final result is nevertheless right, because at least
two digits are removed and the off-by-one does not reach the kept digits.

**How.** Per exponent a certificate `(m1, k1, m2, k2)` — neighbours of `N/D` in the Stern–Brocot tree with `m1 + m2 ≥ 2^55`,
found by an untrusted Euclid-like walk (`fareyWalk`) — is checked by `certOk` (`C16Farey`: `certOk_sound`), which bounds
`m·N mod D` from below and above for all `m < 2^55` (the minimum/maximum computation of the Ryu paper) and, where the bound
alone is too weak (4 exponents), pins the possible violations down to three explicit multipliers that are tested directly.
`prec_check0 … prec_check7` run the check for all 2047 exponents in the kernel.

**Result 2 (`ryu_shortest`).** The conclusion of `ryu_shortest_partial` for every finite non-zero float64, no hypotheses: for
the two exceptional floats by evaluating the mirror and checking the premises of `finish_correct` / `none_shorter` on the
exact quantities (`SpecCert`), for all others through `precision`.
-/
namespace QF.Props.C16Core
open QF.Ryu64 QF.Num

/-! ## the final theorem -/

/-- the three factors of a float other than the two exceptional ones are not exceptions of `precision` -/
theorem not_exc (mant exp : Nat) (hm : mant < 2 ^ 52) (hnz : mant ≠ 0 ∨ exp ≠ 0)
    (h1 : ¬ (exp = 472 ∧ mant = excMant472)) (h2 : ¬ (exp = 1797 ∧ mant = excMant1797)) (m : Nat)
    (hmm : m = mvOf (decodeM2 mant exp) ∨ m = mpOf (decodeM2 mant exp) ∨
      m = mmOf (decodeM2 mant exp) (mmShiftOf mant exp)) : m < 2 ^ 55 ∧ isExc exp m = false := by
  obtain ⟨hm1, hm2⟩ := decodeM2_range mant exp hm hnz
  have hs := mmShiftOf_le mant exp
  have emv := (mv_mp_eq _ hm2).1
  have emp := (mv_mp_eq _ hm2).2
  have emm := mm_eq _ _ (by omega) hm2 hs
  have hdm := decodeM2_eq mant exp hm
  rw [emv, emp, emm] at hmm
  refine ⟨by omega, ?_⟩
  cases hb : isExc exp m with
  | false => rfl
  | true =>
    exfalso
    unfold isExc at hb
    simp only [Bool.or_eq_true, Bool.and_eq_true, beq_iff_eq] at hb
    unfold excMant472 at h1
    unfold excMant1797 at h2
    rcases hb with ⟨he, hv⟩ | ⟨he, hv⟩
    · subst he
      rw [if_neg (by decide)] at hdm
      apply h1
      refine ⟨rfl, ?_⟩
      omega
    · subst he
      rw [if_neg (by decide)] at hdm
      apply h2
      refine ⟨rfl, ?_⟩
      omega

/-- **`ryu_shortest`: the mirror of `float64ToDecimal` yields the shortest, correctly rounded decimal for every finite non-zero
float64 — no hypotheses left.**

For the fields `mant < 2^52`, `exp < 2047` (not both 0) of a float, with `m2`, `e2`, `mv = 4·m2`, `mp = 4·m2 + 2`,
`mm = 4·m2 − 1 − mmShift` and the scale `N/D = 2^e2 / 10^e10` as in `ryu_shortest_partial`: with
`d = float64ToDecimal mant exp` and `k = d.e − e10` digits removed, `d.m · 10^k` in units of `10^e10` lies in the rounding
interval `[mm, mp]·2^e2` (closed iff the significand is even), no decimal with fewer digits lies in it, and no decimal with
the same number of digits in the interval is closer to the exact value (`Spec`). -/
theorem ryu_shortest (mant exp : Nat) (hm : mant < 2 ^ 52) (he : exp < 2047) (hnz : mant ≠ 0 ∨ exp ≠ 0) :
    ∃ k : Nat, (float64ToDecimal mant exp).e = e10Of exp + (k : Int) ∧
      Spec (mmOf (decodeM2 mant exp) (mmShiftOf mant exp) * scaleNum exp) (mvOf (decodeM2 mant exp) * scaleNum exp)
        (mpOf (decodeM2 mant exp) * scaleNum exp) (scaleDen exp) (acceptBoundsOf mant exp)
        (float64ToDecimal mant exp).m k := by
  by_cases h1 : exp = 472 ∧ mant = excMant472
  · obtain ⟨rfl, rfl⟩ := h1; exact ryu_shortest_exc472
  by_cases h2 : exp = 1797 ∧ mant = excMant1797
  · obtain ⟨rfl, rfl⟩ := h2; exact ryu_shortest_exc1797
  apply ryu_shortest_of_table_precision mant exp hm he hnz
  intro m hmm
  obtain ⟨a, b⟩ := not_exc mant exp hm hnz h1 h2 m hmm
  exact precision exp m (by omega) a b

/-- the hypotheses of `ryu_shortest_partial` hold for every finite non-zero float except the two exceptional ones: the replay
driver's run-time check `floorsHold` can only fail there -/
theorem floorsHold_all (mant exp : Nat) (hm : mant < 2 ^ 52) (he : exp < 2047) (hnz : mant ≠ 0 ∨ exp ≠ 0)
    (h1 : ¬ (exp = 472 ∧ mant = excMant472)) (h2 : ¬ (exp = 1797 ∧ mant = excMant1797)) :
    floorsHold mant exp = true := by
  obtain ⟨hm1, hm2⟩ := decodeM2_range mant exp hm hnz
  have hs := mmShiftOf_le mant exp
  have emv := (mv_mp_eq _ hm2).1
  have emp := (mv_mp_eq _ hm2).2
  have emm := mm_eq _ _ (by omega) hm2 hs
  have he' : exp < 2048 := by omega
  have P : ∀ m, (m = mvOf (decodeM2 mant exp) ∨ m = mpOf (decodeM2 mant exp) ∨
      m = mmOf (decodeM2 mant exp) (mmShiftOf mant exp)) →
      mulShift64 m (mulOf exp) (shiftOf exp) = m * scaleNum exp / scaleDen exp := by
    intro m hmm
    obtain ⟨a, b⟩ := not_exc mant exp hm hnz h1 h2 m hmm
    rw [mulShift64_table exp m he' (by omega)]
    exact precision exp m he' a b
  unfold floorsHold
  dsimp only
  simp only [Bool.and_eq_true, beq_iff_eq]
  exact ⟨⟨P _ (Or.inl rfl), P _ (Or.inr (Or.inl rfl))⟩, P _ (Or.inr (Or.inr rfl))⟩

/-- **Corollary, in terms of the bit pattern.** For every finite non-zero float64 `b` (`Num.decode b = some dy`, not ±0) the mirror
of `float64ToDecimal`, applied to the fields `mantOf b`, `expOf b` as `AppendFloat64f` extracts them, returns the shortest
correctly rounded decimal of the rounding interval of `b` (whose ends are identified by `interval_value`, `interval_upper`,
`interval_lower`, and whose unit by `scale_meaning`). -/
theorem ryu_shortest_bits (b : UInt64) (dy : Num.Dyadic) (h : decode b = some dy)
    (hnz : mantOf b ≠ 0 ∨ expOf b ≠ 0) :
    ∃ k : Nat, (float64ToDecimal (mantOf b) (expOf b)).e = e10Of (expOf b) + (k : Int) ∧
      Spec (mmOf (decodeM2 (mantOf b) (expOf b)) (mmShiftOf (mantOf b) (expOf b)) * scaleNum (expOf b))
        (mvOf (decodeM2 (mantOf b) (expOf b)) * scaleNum (expOf b))
        (mpOf (decodeM2 (mantOf b) (expOf b)) * scaleNum (expOf b)) (scaleDen (expOf b))
        (acceptBoundsOf (mantOf b) (expOf b)) (float64ToDecimal (mantOf b) (expOf b)).m k := by
  have hm : mantOf b < 2 ^ 52 := Nat.mod_lt _ (Nat.two_pow_pos 52)
  have he : expOf b < 2048 := Nat.mod_lt _ (by decide)
  have hne := (bridge b dy h).1
  exact ryu_shortest _ _ hm (by omega) hnz

/-- **Corollary for the hook `decimal`** (what `AppendFloat64f` formats: fast path, else the general algorithm), every finite
non-zero float64: either the fast path answered and the float is exactly the integer `m · 10^e` with `m` not divisible by 10,
or the general algorithm ran and `(m, e)` is the shortest correctly rounded decimal of the rounding interval. -/
theorem decimal_correct (mant exp : Nat) (hm : mant < 2 ^ 52) (he : exp < 2047) (hnz : mant ≠ 0 ∨ exp ≠ 0) :
    ((decimal mant exp).2.2 = true ∧ 1023 ≤ exp ∧ exp ≤ 1075 ∧ 0 ≤ (decimal mant exp).2.1 ∧ (decimal mant exp).1 % 10 ≠ 0 ∧
      2 ^ 52 + mant = (decimal mant exp).1 * 10 ^ (decimal mant exp).2.1.toNat * 2 ^ (1075 - exp)) ∨
    ((decimal mant exp).2.2 = false ∧
      ∃ k : Nat, (decimal mant exp).2.1 = e10Of exp + (k : Int) ∧
        Spec (mmOf (decodeM2 mant exp) (mmShiftOf mant exp) * scaleNum exp) (mvOf (decodeM2 mant exp) * scaleNum exp)
          (mpOf (decodeM2 mant exp) * scaleNum exp) (scaleDen exp) (acceptBoundsOf mant exp) (decimal mant exp).1 k) := by
  cases hx : float64ToDecimalExactInt mant exp with
  | mk d ok =>
    have h1 : (decimal mant exp).2.2 = ok := by unfold decimal; rw [hx]
    have h2 : (decimal mant exp).1 = (if ok = true then d else float64ToDecimal mant exp).m := by unfold decimal; rw [hx]
    have h3 : (decimal mant exp).2.1 = (if ok = true then d else float64ToDecimal mant exp).e := by unfold decimal; rw [hx]
    cases ok with
    | true =>
      left
      rw [if_pos rfl] at h2 h3
      rw [h1, h2, h3]
      exact ⟨rfl, exactInt_spec mant exp d hm (by omega) hx⟩
    | false =>
      right
      rw [if_neg (by decide)] at h2 h3
      rw [h1, h2, h3]
      exact ⟨rfl, ryu_shortest mant exp hm he hnz⟩

end QF.Props.C16Core
