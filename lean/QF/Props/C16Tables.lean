import QF.Gen.Ryu
/-!
# C16 — the Ryu multiplier tables extracted from internal/ryu/tables.go are correct

`pow5Split64[i]` must be the 121-bit truncation of 5^i and `pow5InvSplit64[i]` the 122-bit rounded-up reciprocal.
Both tables (326 + 292 entries of 128 bits) are checked completely inside the kernel.
-/
namespace QF.Props.C16
open QF.Gen

def bitlen (n : Nat) : Nat := if n = 0 then 0 else Nat.log2 n + 1
def val (p : Nat × Nat) : Nat := p.1 + p.2 * 2 ^ 64

def splitOk (i : Nat) : Bool := val pow5Split64[i]! == 5 ^ i * 2 ^ 121 / 2 ^ bitlen (5 ^ i)
def invOk (i : Nat) : Bool := val pow5InvSplit64[i]! == 2 ^ (bitlen (5 ^ i) - 1 + 122) / 5 ^ i + 1

theorem tables_sizes : pow5Split64.size = 326 ∧ pow5InvSplit64.size = 292 := by decide +kernel

/-- every entry of `pow5Split64` is ⌊5^i · 2^121 / 2^bitlen(5^i)⌋ -/
theorem pow5Split64_correct : (List.range 326).all splitOk = true := by decide +kernel

/-- every entry of `pow5InvSplit64` is ⌊2^(bitlen(5^i) − 1 + 122) / 5^i⌋ + 1 -/
theorem pow5InvSplit64_correct : (List.range 292).all invOk = true := by decide +kernel

theorem bit_counts : pow5NumBits64 = "121" ∧ pow5InvNumBits64 = "122" := by decide

end QF.Props.C16
