import QF.Gen.StringsFns
import QF.Core.STExec
import QF.Props.C14Quote
/-!
# C14 — the JSON string quoting of today's source (tie T1)

`QF.Gen.stringsFns` (regenerated on every run by go/cmd/extract/strast.go) holds the body of `AppendQuotedString` of
/repo/internal/strings/serialize.go as a term of the language `QF.ST` (QF/Core/STExpr.lean), the constant `chars`
replaced by its value.

* `gen_quote_no_opaque`, `gen_quote_canon` — today's extraction is complete and equal to the canonical term (`decide`).
* `gen_quote_semantics` — interpreted with Go's semantics (the loop with the pending run `str[p:i]` that is flushed before
  every escape, the tests on the byte, `\u00XY` through `chars[c>>4]` / `chars[c&0xf]`, `utf8.DecodeRuneInString` as the
  spec's `Json.decodeRune`), the canonical term returns `buf ++ C14.appendQuoted s` — the byte-exact hand mirror of
  C14Quote — for EVERY byte string `s` (valid UTF-8 or not) and every buffer (nil included), whenever the loop budget
  exceeds `len(s)`.
* `gen_quote_parses` — hence `C14.quoted_parses` holds for the bytes today's code appends: the RFC 8259 string parser
  consumes exactly the token and decodes it to `Json.sanitize s`.
* witnesses: `<` for `<=` / `>` for `>=` in the test for bytes that need no escape, a dropped flush, `c>>3` are different
  terms (`gen_quote_canon` fails) and produce other bytes on concrete inputs.
-/
set_option linter.unusedSimpArgs false
namespace QF.Props.C14QuoteGen
open QF QF.ST
open QF.Props.C14 (scan escapeAscii hexDigit appendQuoted)

/-! ## The canonical term: variables 0 `buf`, 1 `str`, 2 `p`, 3 `i`, 4 `c`, 5 `runeValue`, 6 `runeWidth` -/

/-- `c != '\\' && c != '"' && c >= 0x20 && c < utf8.RuneSelf` -/
def plainCond : E :=
  E.and (E.and (E.and (E.cmp COp.ne (E.var 4) (E.byte 92)) (E.cmp COp.ne (E.var 4) (E.byte 34))) (E.cmp COp.ge (E.var 4) (E.byte 32)))
    (E.cmp COp.lt (E.var 4) (E.byte 128))

/-- `if <plain> { i++; continue }` -/
def plainPart : S := S.ite plainCond (S.block [S.assign (L.var 3) (E.add (E.var 3) (E.int 1)), S.cont]) (S.block [])

/-- `buf = append(buf, str[p:i]...)` -/
def flush : S := S.assign (L.var 0) (E.appAll (E.var 0) (E.slice (E.var 1) (E.var 2) (E.var 3)))

/-- `chars` -/
def charsE : E := E.str [48, 49, 50, 51, 52, 53, 54, 55, 56, 57, 97, 98, 99, 100, 101, 102]

/-- `buf = append(buf, lit...)` -/
def emit (lit : List Nat) : S := S.assign (L.var 0) (E.appAll (E.var 0) (E.str lit))

/-- `switch c { case '\t': … case '\r': … case '\n': … case '\\': … case '"': … default: \u00XY }` -/
def escSwitch : S :=
  S.ite (E.cmp COp.eq (E.var 4) (E.byte 9)) (S.block [emit [92, 116]])
  (S.ite (E.cmp COp.eq (E.var 4) (E.byte 13)) (S.block [emit [92, 114]])
  (S.ite (E.cmp COp.eq (E.var 4) (E.byte 10)) (S.block [emit [92, 110]])
  (S.ite (E.cmp COp.eq (E.var 4) (E.byte 92)) (S.block [emit [92, 92]])
  (S.ite (E.cmp COp.eq (E.var 4) (E.byte 34)) (S.block [emit [92, 34]])
  (S.block [
    emit [92, 117, 48, 48],
    S.assign (L.var 0) (E.app1 (E.var 0) (E.at charsE (E.shr (E.var 4) (E.int 4)))),
    S.assign (L.var 0) (E.app1 (E.var 0) (E.at charsE (E.band (E.var 4) (E.byte 15))))])))))

/-- `i++; p = i; continue` -/
def advance1 : List S := [S.assign (L.var 3) (E.add (E.var 3) (E.int 1)), S.assign (L.var 2) (E.var 3), S.cont]

/-- `if c < utf8.RuneSelf { flush; switch …; i++; p = i; continue }` -/
def asciiPart : S := S.ite (E.cmp COp.lt (E.var 4) (E.byte 128)) (S.block (flush :: escSwitch :: advance1)) (S.block [])

/-- `if runeValue == utf8.RuneError && runeWidth == 1 { flush; \\ufffd; i++; p = i; continue }` -/
def badPart : S :=
  S.ite (E.and (E.cmp COp.eq (E.var 5) (E.rune 65533)) (E.cmp COp.eq (E.var 6) (E.int 1)))
    (S.block (flush :: emit [92, 117, 102, 102, 102, 100] :: advance1)) (S.block [])

/-- `if runeValue == U+2028 || runeValue == U+2029 { flush; \u202X; i += runeWidth; p = i; continue }` -/
def lsPart : S :=
  S.ite (E.or (E.cmp COp.eq (E.var 5) (E.rune 8232)) (E.cmp COp.eq (E.var 5) (E.rune 8233)))
    (S.block [flush, emit [92, 117, 50, 48, 50],
      S.assign (L.var 0) (E.app1 (E.var 0) (E.at charsE (E.band (E.var 5) (E.rune 15)))),
      S.assign (L.var 3) (E.add (E.var 3) (E.var 6)), S.assign (L.var 2) (E.var 3), S.cont]) (S.block [])

/-- what follows `c := str[i]` in a round of the loop, for a byte ≥ 0x80 -/
def widePart : List S := [
  S.decodeRune (L.var 5) (L.var 6) (E.sliceFrom (E.var 1) (E.var 3)),
  badPart, lsPart,
  S.assign (L.var 3) (E.add (E.var 3) (E.var 6))]

/-- the body of `for i := 0; i < len(str); { … }` -/
abbrev qBody : S := S.block (
  S.ite (E.cmp COp.lt (E.var 3) (E.len (E.var 1))) S.skip S.brk ::
  S.assign (L.var 4) (E.at (E.var 1) (E.var 3)) ::
  plainPart :: asciiPart :: widePart)

def fnQuote : ST.Fn := { params := 2, body := S.block [
  S.assign (L.var 0) (E.app1 (E.var 0) (E.byte 34)),
  S.assign (L.var 2) (E.int 0),
  S.assign (L.var 3) (E.int 0),
  S.loop qBody,
  S.assign (L.var 0) (E.appAll (E.var 0) (E.sliceFrom (E.var 1) (E.var 2))),
  S.assign (L.var 0) (E.app1 (E.var 0) (E.byte 34)),
  S.ret [E.var 0]] }

theorem gen_quote_no_opaque :
    ∃ fn, Gen.stringsFns.lookup .appendQuoted = some fn ∧ fn.body.hasOpaque = false := by decide

theorem gen_quote_canon : Gen.stringsFns.lookup .appendQuoted = some fnQuote := by decide


/-! ## The meaning of the canonical term -/

/-- the mirror's test for a byte that is copied as it is -/
def isPlain (c : UInt8) : Bool := c != 92 && c != 34 && c ≥ 0x20 && c < 0x80

theorem plainCond_eval (Γ : Env) (σ : Store) (c : UInt8) :
    plainCond.eval Γ (σ.set 4 (.byte c)) = .ok (.bool (isPlain c)) := by
  unfold plainCond isPlain
  st_simp [UInt8.reduceOfNat]
  cases h1 : (c != 92) <;> cases h2 : (c != 34) <;> cases h3 : decide (32 ≤ c) <;> cases h4 : decide (c < 128) <;> simp_all


/-- the variables the loop works on -/
structure QSt (σ : Store) (B s : Bytes) (p i : Nat) : Prop where
  h0 : σ 0 = some (.bytes (some B))
  h1 : σ 1 = some (.str s)
  h2 : σ 2 = some (.int p)
  h3 : σ 3 = some (.int i)

/-! ### the mirror's `scan`, case by case -/

theorem scan_nil (f : Nat) : scan f [] = [] := by
  cases f <;> simp [scan]

theorem scan_plain (f : Nat) (c : UInt8) (rest : List UInt8) (h : isPlain c = true) :
    scan (f + 1) (c :: rest) = c :: scan f rest := by
  unfold isPlain at h
  simp only [scan, h, if_true]

theorem scan_esc (f : Nat) (c : UInt8) (rest : List UInt8) (h : isPlain c = false) (h4 : c < 0x80) :
    scan (f + 1) (c :: rest) = escapeAscii c ++ scan f rest := by
  unfold isPlain at h
  simp only [scan, h, Bool.false_eq_true, if_false, if_pos h4]

theorem not_plain_of_ge (c : UInt8) (hc : ¬ c < 0x80) : isPlain c = false := by
  unfold isPlain; simp [hc]

theorem scan_bad (f : Nat) (c : UInt8) (rest : List UInt8) (hc : ¬ c < 0x80)
    (hd : Json.decodeRune (c :: rest) = (0xFFFD, 1)) :
    scan (f + 1) (c :: rest) = [92, 117, 102, 102, 102, 100] ++ scan f rest := by
  simp [scan, hc, hd]

theorem scan_ls (f : Nat) (c : UInt8) (rest : List UInt8) (r w : Nat) (hc : ¬ c < 0x80)
    (hd : Json.decodeRune (c :: rest) = (r, w)) (hw : 2 ≤ w) (hr : r = 0x2028 ∨ r = 0x2029) :
    scan (f + 1) (c :: rest) = [92, 117, 50, 48, 50, hexDigit (r % 16)] ++ scan f ((c :: rest).drop w) := by
  have hw1 : w ≠ 1 := by omega
  simp [scan, hc, hd, hw1, hr]

theorem scan_good (f : Nat) (c : UInt8) (rest : List UInt8) (r w : Nat) (hc : ¬ c < 0x80)
    (hd : Json.decodeRune (c :: rest) = (r, w)) (hw : 2 ≤ w) (hr : ¬ (r = 0x2028 ∨ r = 0x2029)) :
    scan (f + 1) (c :: rest) = (c :: rest).take w ++ scan f ((c :: rest).drop w) := by
  have hw1 : w ≠ 1 := by omega
  simp [scan, hc, hd, hw1, hr]

/-! ### lists -/

theorem take_add_drop (s : Bytes) (p i w : Nat) (hp : p ≤ i) (hi : i ≤ s.length) :
    (s.take (i + w)).drop p = (s.take i).drop p ++ (s.drop i).take w := by
  rw [List.take_add, List.drop_append_of_le_length (by simp; omega)]

theorem take_drop_self (s : Bytes) (i : Nat) : (s.take i).drop i = [] := by
  apply List.drop_eq_nil_of_le; simp; omega

theorem hex_table : ∀ n, n < 16 →
    ([48, 49, 50, 51, 52, 53, 54, 55, 56, 57, 97, 98, 99, 100, 101, 102] : List UInt8)[n]! = hexDigit n := by decide

theorem shr4 (c : UInt8) : (c >>> 4).toNat = c.toNat / 16 := by
  rw [UInt8.toNat_shiftRight, Nat.shiftRight_eq_div_pow]; rfl

theorem and15 (c : UInt8) : (c &&& 15).toNat = c.toNat % 16 := by
  rw [UInt8.toNat_and]; exact Nat.and_two_pow_sub_one_eq_mod c.toNat 4


/-- the `switch c` appends the mirror's `escapeAscii c` -/
theorem esc_exec (Γ : Env) (σ : Store) (X : Bytes) (c : UInt8) (h0 : σ 0 = some (.bytes (some X))) (h4 : σ 4 = some (.byte c)) :
    escSwitch.exec Γ σ = .next (σ.set 0 (.bytes (some (X ++ escapeAscii c)))) := by
  have hs := shr4 c
  have ha := and15 c
  have hc := c.toNat_lt
  have hs' : (c >>> 4).toNat < 16 := by omega
  have ha' : (c &&& 15).toNat < 16 := by omega
  unfold escSwitch escapeAscii emit charsE
  cases b9 : (c == 9)
  · cases b13 : (c == 13)
    · cases b10 : (c == 10)
      · cases b92 : (c == 92)
        · cases b34 : (c == 34)
          · st_simp [h0, h4, UInt8.reduceOfNat, b9, b13, b10, b92, b34, List.map_cons, List.map_nil, Nat.reduceLT, hex_table, hs, ha,
              List.append_assoc, List.cons_append, List.nil_append]
          · st_simp [h0, h4, UInt8.reduceOfNat, b9, b13, b10, b92, b34, List.map_cons, List.map_nil]
        · st_simp [h0, h4, UInt8.reduceOfNat, b9, b13, b10, b92, List.map_cons, List.map_nil]
      · st_simp [h0, h4, UInt8.reduceOfNat, b9, b13, b10, List.map_cons, List.map_nil]
    · st_simp [h0, h4, UInt8.reduceOfNat, b9, b13, List.map_cons, List.map_nil]
  · st_simp [h0, h4, UInt8.reduceOfNat, b9, List.map_cons, List.map_nil]

/-- `utf8.DecodeRuneInString` is the spec's `Json.decodeRune` -/
def DecodesAsSpec (Γ : Env) : Prop := ∀ t, Γ.decode t = ((↑(Json.decodeRune t).1 : Int), (Json.decodeRune t).2)

theorem e28 : sx32 (tc32 8232 &&& tc32 15) = 8 := by decide
theorem e29 : sx32 (tc32 8233 &&& tc32 15) = 9 := by decide

/-- One round of the loop at a position inside the string: the round goes on, the position advances, and the bytes in the
buffer plus the pending run plus what the mirror's `scan` still has to emit stay the same. -/
theorem q_step (Γ : Env) (hdec : DecodesAsSpec Γ) (s : Bytes) (σ : Store) (B : Bytes) (p i : Nat)
    (hq : QSt σ B s p i) (hi : i < s.length) (hp : p ≤ i) :
    ∃ σ' B' p' i', GoesOn (stepOf Γ qBody σ) σ' ∧ QSt σ' B' s p' i' ∧ i < i' ∧ i' ≤ s.length ∧ p' ≤ i' ∧
      ∀ f, B' ++ (s.take i').drop p' ++ scan f (s.drop i') = B ++ (s.take i).drop p ++ scan (f + 1) (s.drop i) := by
  obtain ⟨h0, h1, h2, h3⟩ := hq
  have hd : s.drop i = s[i] :: s.drop (i + 1) := List.drop_eq_getElem_cons hi
  have hget : s[i]! = s[i] := getElem!_pos s i hi
  generalize s[i] = c at hd hget
  have ht1 : (s.drop i).take 1 = [c] := by rw [hd]; rfl
  unfold stepOf
  by_cases hpl : isPlain c = true
  · -- a byte that is copied as it is: it joins the pending run
    refine ⟨_, B, p, i + 1, Or.inl (by st_simp [h0, h1, h2, h3, hget, plainPart, plainCond_eval, hpl]; rfl), ?_, by omega, by omega, by omega, ?_⟩
    · exact ⟨by simp [set_apply, h0], by simp [set_apply, h1], by simp [set_apply, h2], by simp⟩
    · intro f
      rw [take_add_drop s p i 1 hp (by omega), ht1, hd, scan_plain f c _ hpl]
      simp
  · have hplf : isPlain c = false := by simpa using hpl
    by_cases hlt : c < 0x80
    · -- a byte below 0x80 that is escaped: flush, escape, the pending run starts after it
      have hltb : decide (c < 128) = true := by simpa using hlt
      refine ⟨_, B ++ (s.take i).drop p ++ escapeAscii c, i + 1, i + 1, Or.inl (by
        st_simp [h0, h1, h2, h3, hget, plainPart, plainCond_eval, hplf, asciiPart, flush, UInt8.reduceOfNat, hltb]
        rw [esc_exec Γ _ (B ++ (s.take i).drop p) c (by simp [set_apply]) (by simp [set_apply])]
        st_simp [advance1, h0, h1, h2, h3]
        rfl), ?_, by omega, by omega, by omega, ?_⟩
      · exact ⟨by simp [set_apply], by simp [set_apply, h1], by simp [set_apply], by simp [set_apply]⟩
      · intro f
        rw [take_drop_self, hd, scan_esc f c _ hplf hlt]
        simp
    · have hltb : decide (c < 128) = false := by simpa using hlt
      have hlen : (s.drop i).length = s.length - i := List.length_drop
      rcases C14.decodeRune_spec c (s.drop (i + 1)) hlt with hbad | ⟨r, w, pre, t, hrest, hw1, hw, hX, -⟩
      · -- an invalid byte: flush, �
        have hdr : Γ.decode (s.drop i) = (65533, 1) := by rw [hdec, hd, hbad]; rfl
        refine ⟨_, B ++ (s.take i).drop p ++ [92, 117, 102, 102, 102, 100], i + 1, i + 1, Or.inl (by
          st_simp [h0, h1, h2, h3, hget, plainPart, plainCond_eval, hplf, asciiPart, flush, UInt8.reduceOfNat, hltb, widePart,
            List.take_length, hdr, badPart, emit, advance1, List.map_cons, List.map_nil]
          rfl), ?_, by omega, by omega, by omega, ?_⟩
        · exact ⟨by simp [set_apply], by simp [set_apply, h1], by simp [set_apply], by simp [set_apply]⟩
        · intro f
          rw [take_drop_self, hd, scan_bad f c _ hlt hbad]
          simp
      · have hdj : Json.decodeRune (c :: s.drop (i + 1)) = (r, w) := by
          have := hX t; rw [← hrest] at this; exact this
        have hdr : Γ.decode (s.drop i) = ((r : Int), w) := by rw [hdec, hd, hdj]
        have hwl : i + w ≤ s.length := by
          rw [hd, hrest] at hlen; simp at hlen; omega
        have bw : decide ((w : Int) = 1) = false := by
          have : ¬ ((w : Int) = 1) := by omega
          simpa using this
        have hdd : s.drop (i + w) = (c :: s.drop (i + 1)).drop w := by rw [← hd, List.drop_drop]
        cases b2 : decide ((r : Int) = 8232)
        · cases b3 : decide ((r : Int) = 8233)
          · -- any other well-formed rune: it joins the pending run
            refine ⟨_, B, p, i + w, Or.inr (by
              cases b1 : decide ((r : Int) = 65533)
              · st_simp [h0, h1, h2, h3, hget, plainPart, plainCond_eval, hplf, asciiPart, UInt8.reduceOfNat, hltb, widePart,
                  List.take_length, hdr, b1, b2, b3, bw, badPart, lsPart]
                rfl
              · have hr : (r : Int) = 65533 := of_decide_eq_true b1
                st_simp [h0, h1, h2, h3, hget, plainPart, plainCond_eval, hplf, asciiPart, UInt8.reduceOfNat, hltb, widePart,
                  List.take_length, hdr, hr, bw, badPart, lsPart]), ?_, by omega, hwl, by omega, ?_⟩
            · exact ⟨by simp [set_apply, h0], by simp [set_apply, h1], by simp [set_apply, h2], by simp [set_apply]⟩
            · intro f
              have n2 : ¬ ((r : Int) = 8232) := of_decide_eq_false b2
              have n3 : ¬ ((r : Int) = 8233) := of_decide_eq_false b3
              have hnls : ¬ (r = 0x2028 ∨ r = 0x2029) := by omega
              rw [take_add_drop s p i w hp (by omega), hd, scan_good f c _ r w hlt hdj hw hnls, hdd]
              simp
          · -- U+2029
            have hr : (r : Int) = 8233 := of_decide_eq_true b3
            refine ⟨_, B ++ (s.take i).drop p ++ [92, 117, 50, 48, 50, hexDigit 9], i + w, i + w, Or.inl (by
              st_simp [h0, h1, h2, h3, hget, plainPart, plainCond_eval, hplf, asciiPart, flush, UInt8.reduceOfNat, hltb, widePart,
                List.take_length, hdr, hr, bw, badPart, lsPart, emit, charsE, List.map_cons, List.map_nil, e29, hex_table]
              rfl), ?_, by omega, hwl, by omega, ?_⟩
            · exact ⟨by simp [set_apply], by simp [set_apply, h1], by simp [set_apply], by simp [set_apply]⟩
            · intro f
              have h29 : r = 0x2029 := by omega
              rw [take_drop_self, hd, scan_ls f c _ r w hlt hdj hw (Or.inr h29), hdd, h29]
              simp
        · -- U+2028
          have hr : (r : Int) = 8232 := of_decide_eq_true b2
          refine ⟨_, B ++ (s.take i).drop p ++ [92, 117, 50, 48, 50, hexDigit 8], i + w, i + w, Or.inl (by
            st_simp [h0, h1, h2, h3, hget, plainPart, plainCond_eval, hplf, asciiPart, flush, UInt8.reduceOfNat, hltb, widePart,
              List.take_length, hdr, hr, bw, badPart, lsPart, emit, charsE, List.map_cons, List.map_nil, e28, hex_table]
            rfl), ?_, by omega, hwl, by omega, ?_⟩
          · exact ⟨by simp [set_apply], by simp [set_apply, h1], by simp [set_apply], by simp [set_apply]⟩
          · intro f
            have h28 : r = 0x2028 := by omega
            rw [take_drop_self, hd, scan_ls f c _ r w hlt hdj hw (Or.inl h28), hdd, h28]
            simp

/-- The loop from any position `i` with pending run `str[p:i]`: it ends, and the buffer plus the pending run is what it was plus
what the mirror's `scan` emits for `str[i:]` (for every budget of the mirror above the remaining length). -/
theorem q_loop (Γ : Env) (hdec : DecodesAsSpec Γ) (s : Bytes) : ∀ (k : Nat) (σ : Store) (B : Bytes) (p i : Nat),
    QSt σ B s p i → p ≤ i → i ≤ s.length → s.length - i < k →
    ∃ σ' B' p' i', iter (stepOf Γ qBody) k σ = .next σ' ∧ QSt σ' B' s p' i' ∧ p' ≤ s.length ∧
      ∀ f, s.length - i < f → B' ++ s.drop p' = B ++ (s.take i).drop p ++ scan f (s.drop i) := by
  intro k
  induction k with
  | zero => intro σ B p i _ _ _ h; omega
  | succ k ih =>
    intro σ B p i hq hp hil hk
    rw [iter_succ]
    by_cases hi : i < s.length
    · obtain ⟨σ1, B1, p1, i1, hgo, hq1, hlt, hle, hp1, hf⟩ := q_step Γ hdec s σ B p i hq hi hp
      obtain ⟨σ', B', p', i', hiter, hq', hp', hfin⟩ := ih σ1 B1 p1 i1 hq1 hp1 hle (by omega)
      refine ⟨σ', B', p', i', ?_, hq', hp', ?_⟩
      · rcases hgo with h | h <;> rw [h] <;> exact hiter
      · intro f hf'
        obtain ⟨f', rfl⟩ : ∃ f', f = f' + 1 := ⟨f - 1, by omega⟩
        rw [← hf f', hfin f' (by omega)]
    · have hil' : i = s.length := by omega
      obtain ⟨h0, h1, h2, h3⟩ := hq
      have hb : stepOf Γ qBody σ = .brk σ := by
        unfold stepOf
        st_simp [h0, h1, h2, h3]
      rw [hb]
      refine ⟨σ, B, p, i, rfl, ⟨h0, h1, h2, h3⟩, by omega, ?_⟩
      intro f _
      rw [List.take_of_length_le (by omega), List.drop_eq_nil_of_le (by omega : s.length ≤ i), scan_nil]
      simp

/-- `AppendQuotedString(buf, s)` of the canonical term returns `buf ++ appendQuoted s`. -/
theorem quote_sem (Γ : Env) (hdec : DecodesAsSpec Γ) (buf : Option Bytes) (s : Bytes) (hfuel : s.length < Γ.fuel) :
    (runFn Γ fnQuote [.bytes buf, .str s]).vals = some [.bytes (some (buf.getD [] ++ appendQuoted s))] := by
  obtain ⟨σ', B', p', i', hiter, ⟨h0, h1, h2, h3⟩, hp', hfin⟩ := q_loop Γ hdec s Γ.fuel
    (((((Store.empty.set 0 (.bytes buf)).set 1 (.str s)).set 0 (.bytes (some (buf.getD [] ++ [34])))).set 2 (.int 0)).set 3 (.int 0))
    (buf.getD [] ++ [34]) 0 0 ⟨rfl, rfl, rfl, rfl⟩ (by omega) (by omega) (by omega)
  have hfin' := hfin (s.length + 1) (by omega)
  unfold runFn fnQuote
  st_simp [UInt8.reduceOfNat, hiter, h0, h1, h2, h3, Run.vals, List.take_length, hfin', appendQuoted]
  simp

/-- today's `AppendQuotedString` by the regenerated term -/
def genQuote (Γ : Env) (buf : Option Bytes) (s : Bytes) : Option (List ST.Val) :=
  (run Γ Gen.stringsFns .appendQuoted [.bytes buf, .str s]).vals

/-- C14 for today's code: `AppendQuotedString` of today's source, interpreted with Go's semantics and the spec's UTF-8
decoder, appends exactly the bytes of the hand mirror `C14.appendQuoted` — for every byte string, every buffer (nil
included) and every loop budget above the length of the string. -/
theorem gen_quote_semantics (Γ : Env) (hdec : DecodesAsSpec Γ) (buf : Option Bytes) (s : Bytes) (hfuel : s.length < Γ.fuel) :
    genQuote Γ buf s = some [.bytes (some (buf.getD [] ++ appendQuoted s))] := by
  simp only [genQuote, run, gen_quote_canon]
  exact quote_sem Γ hdec buf s hfuel

/-- … hence what today's code appends is a JSON string token: it starts with `"`, and the RFC 8259 string parser consumes
exactly the rest and decodes it to `Json.sanitize s` (`C14.quoted_parses`). -/
theorem gen_quote_parses (Γ : Env) (hdec : DecodesAsSpec Γ) (buf : Option Bytes) (s : Bytes) (hfuel : s.length < Γ.fuel) :
    ∃ out, genQuote Γ buf s = some [.bytes (some (buf.getD [] ++ out))] ∧ out.head? = some 34 ∧
      ∃ fuel, Json.parseStr fuel (out.drop 1) [] = some (Json.sanitize s, []) :=
  ⟨appendQuoted s, gen_quote_semantics Γ hdec buf s hfuel, C14.quoted_starts_with_quote s, C14.quoted_parses s⟩

/-- an environment that satisfies the hypotheses: the spec's decoder, a budget of `fuel` rounds -/
def specEnv (fuel : Nat) : Env :=
  { fuel := fuel, decode := fun t => (((Json.decodeRune t).1 : Nat), (Json.decodeRune t).2), encode := fun _ => [],
    runeLen := fun _ => 0, toUpper := id, newMatcher := fun _ _ => .error .badPattern }

theorem specEnv_decodes (fuel : Nat) : DecodesAsSpec (specEnv fuel) := fun _ => rfl

/-! ## Witnesses: plausible mutations are different terms and append other bytes -/

/-- `AppendQuotedString` with other statements for the plain-byte test and for the escape of a byte below 0x80 -/
def mkQuote (plain ascii : S) : ST.Fn := { params := 2, body := S.block [
  S.assign (L.var 0) (E.app1 (E.var 0) (E.byte 34)),
  S.assign (L.var 2) (E.int 0),
  S.assign (L.var 3) (E.int 0),
  S.loop (S.block (
    S.ite (E.cmp COp.lt (E.var 3) (E.len (E.var 1))) S.skip S.brk ::
    S.assign (L.var 4) (E.at (E.var 1) (E.var 3)) ::
    plain :: ascii :: widePart)),
  S.assign (L.var 0) (E.appAll (E.var 0) (E.sliceFrom (E.var 1) (E.var 2))),
  S.assign (L.var 0) (E.app1 (E.var 0) (E.byte 34)),
  S.ret [E.var 0]] }

example : mkQuote plainPart asciiPart = fnQuote := rfl

/-- the bytes a variant appends to an empty buffer -/
def outOf (fn : ST.Fn) (s : Bytes) : Option Bytes :=
  match (runFn (specEnv 64) fn [.bytes none, .str s]).vals with
  | some [.bytes (some b)] => some b
  | _ => none

def plainWith (op1 op2 : COp) : S :=
  S.ite (E.and (E.and (E.and (E.cmp COp.ne (E.var 4) (E.byte 92)) (E.cmp COp.ne (E.var 4) (E.byte 34))) (E.cmp op1 (E.var 4) (E.byte 32)))
    (E.cmp op2 (E.var 4) (E.byte 128))) (S.block [S.assign (L.var 3) (E.add (E.var 3) (E.int 1)), S.cont]) (S.block [])

example : plainWith .ge .lt = plainPart := rfl

-- today's term on samples: the mirror's bytes
example : outOf fnQuote [97, 9, 98] = some [34, 97, 92, 116, 98, 34] := by decide
example : outOf fnQuote [32, 0x80, 0x1f] = some (appendQuoted [32, 0x80, 0x1f]) := by decide
example : outOf fnQuote [0xE2, 0x80, 0xA8, 0xEF, 0xBF, 0xBD, 0xFF] = some (appendQuoted [0xE2, 0x80, 0xA8, 0xEF, 0xBF, 0xBD, 0xFF]) := by decide

/-- `c <= utf8.RuneSelf` for `c < utf8.RuneSelf` in the test for bytes that need no escape: the invalid byte 0x80 is copied
as it is, and the output is no longer what `quoted_parses` speaks about (a parser recovers U+FFFD = EF BF BD, not 0x80) -/
example : mkQuote (plainWith .ge .le) asciiPart ≠ fnQuote := by decide
example : outOf (mkQuote (plainWith .ge .le) asciiPart) [0x80] = some [34, 0x80, 34] := by decide
example : outOf fnQuote [0x80] = some [34, 92, 117, 102, 102, 102, 100, 34] := by decide
example : outOf (mkQuote (plainWith .ge .le) asciiPart) [0x80] ≠ some (appendQuoted [0x80]) := by decide

/-- `c > 0x20` for `c >= 0x20`: a space is escaped as ` ` -/
example : mkQuote (plainWith .gt .lt) asciiPart ≠ fnQuote := by decide
example : outOf (mkQuote (plainWith .gt .lt) asciiPart) [32] = some [34, 92, 117, 48, 48, 50, 48, 34] := by decide
example : outOf fnQuote [32] = some [34, 32, 34] := by decide

/-- `c >= 0x1f` for `c >= 0x20`: the control byte 0x1f is copied as it is — not a JSON string (the parser rejects it) -/
def plain1f : S :=
  S.ite (E.and (E.and (E.and (E.cmp COp.ne (E.var 4) (E.byte 92)) (E.cmp COp.ne (E.var 4) (E.byte 34))) (E.cmp COp.ge (E.var 4) (E.byte 31)))
    (E.cmp COp.lt (E.var 4) (E.byte 128))) (S.block [S.assign (L.var 3) (E.add (E.var 3) (E.int 1)), S.cont]) (S.block [])
example : outOf (mkQuote plain1f asciiPart) [0x1f] = some [34, 0x1f, 34] := by decide
example : Json.parseStr 10 [0x1f, 34] [] = none := by decide

/-- the flush of the pending run dropped before an escape: the bytes before the escape are lost -/
def asciiNoFlush : S := S.ite (E.cmp COp.lt (E.var 4) (E.byte 128)) (S.block (escSwitch :: advance1)) (S.block [])
example : mkQuote plainPart asciiNoFlush ≠ fnQuote := by decide
example : outOf (mkQuote plainPart asciiNoFlush) [97, 9, 98] = some [34, 92, 116, 98, 34] := by decide

/-- `p = i` forgotten after an escape: the escaped byte is written again, raw, with the next run -/
def asciiNoP : S := S.ite (E.cmp COp.lt (E.var 4) (E.byte 128))
  (S.block [flush, escSwitch, S.assign (L.var 3) (E.add (E.var 3) (E.int 1)), S.cont]) (S.block [])
example : outOf (mkQuote plainPart asciiNoP) [97, 9, 98] = some [34, 97, 92, 116, 97, 9, 98, 34] := by decide

/-- `chars[c>>3]` for `chars[c>>4]`: 0x1f is written as `?` -/
def escShift3 : S :=
  S.ite (E.cmp COp.lt (E.var 4) (E.byte 128)) (S.block ([flush,
    emit [92, 117, 48, 48],
    S.assign (L.var 0) (E.app1 (E.var 0) (E.at charsE (E.shr (E.var 4) (E.int 3)))),
    S.assign (L.var 0) (E.app1 (E.var 0) (E.at charsE (E.band (E.var 4) (E.byte 15))))] ++ advance1)) (S.block [])
example : outOf (mkQuote plainPart escShift3) [0x1f] = some [34, 92, 117, 48, 48, 51, 102, 34] := by decide
example : outOf fnQuote [0x1f] = some [34, 92, 117, 48, 48, 49, 102, 34] := by decide

end QF.Props.C14QuoteGen

#print axioms QF.Props.C14QuoteGen.gen_quote_no_opaque
#print axioms QF.Props.C14QuoteGen.gen_quote_canon
#print axioms QF.Props.C14QuoteGen.gen_quote_semantics
#print axioms QF.Props.C14QuoteGen.gen_quote_parses
