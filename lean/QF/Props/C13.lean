import QF.Props.Tie
/-! # C13 -/
namespace QF.Props.C13

/-- T1: the functions this property's mirror model follows have today the source text the model was written against. -/
theorem tie : Tie.sameAll ["qframe.QFrame.ToCSV", "fcolumn.Column.StringAt", "icolumn.Column.StringAt", "bcolumn.Column.StringAt"] = true := by decide

end QF.Props.C13
