import QF.Props.Tie
/-! # C13 -/
namespace QF.Props.C13

/-- T1: the functions this property's mirror model follows have today the source text the model was written against. -/
-- Tie audit (bin/selftest-ties): the following functions are not compared as text any more; every behaviour-changing edit of
-- them makes a `gen_*_canon` theorem of this property's modules fail, renaming their locals or reformatting them changes nothing:
-- `QFrame.ToCSV`: `Gen.toCsvAst` (wast.go) + `Gen.guardAst2`, `C13WriterGen.gen_tocsv_canon` + `gen_tocsv_semantics`, `C10Guards.gen_guards2_canon` + `gen_csv_semantics`.
-- `Column.StringAt` of fcolumn / icolumn / bcolumn: `Gen.stringAtAst` (oast.go), `C09Observe.gen_stringAt_canon` + `gen_stringAt_semantics`.
theorem tie : Tie.sameAll [] = true := by decide

end QF.Props.C13
