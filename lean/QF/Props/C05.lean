import QF.Props.Tie
/-! # C05 -/
namespace QF.Props.C05

/-- T1: the functions this property's mirror model follows have today the source text the model was written against. -/
-- Tie audit (bin/selftest-ties): the following functions are not compared as text any more; every behaviour-changing edit of
-- them makes a `gen_*_canon` theorem of this property's modules fail, renaming their locals or reformatting them changes nothing:
-- `grouper.Distinct`, `groupIndex`, `table.insertEntry`, `table.grow`: regenerated as `Gen.grouperFns` (grpast.go), `C04GrouperCanon.gen_grouper_canon` +
-- `C04GrouperGen.gen_grouper_semantics`, `C05DistinctGen.gen_distinct_spec`.
-- QFrame.Distinct is regenerated: its guard in `Gen.guardAst2` (C10Guards.gen_distinct_semantics), the comparables it hands to the grouper in `Gen.distinctCmpsAst` (C04GlueGen.gen_distinct_cmps_semantics, gen_distinct_rows), the new index in `Gen.projectAst` (C08ProjectGen); nothing of C05 is compared as text any more.
-- The helpers `QFrame.comparables` / `QFrame.orders` that build the key comparables are also regenerated on their own, statement by statement, in `Gen.comparablesAst` /
-- `Gen.ordersAst` (sortgast.go): `C03SortGlueGen.gen_comparables_semantics` / `gen_comparables_of_names` (one comparable per named column, in order, the SAME Null flag for all).
theorem tie : Tie.sameAll [] = true := by decide

end QF.Props.C05
