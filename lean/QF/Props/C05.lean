import QF.Props.Tie
/-! # C05 -/
namespace QF.Props.C05

/-- T1: the functions this property's mirror model follows have today the source text the model was written against. -/
theorem tie : Tie.sameAll ["grouper.Distinct", "grouper.groupIndex", "grouper.insertEntry", "grouper.grow", "qframe.QFrame.Distinct"] = true := by decide

end QF.Props.C05
