import QF.Props.C03Compare
import QF.Core.F64Lemmas
import QF.Gen.Aggregations
/-!
# C04 — the built-in aggregations of today's source compute what the spec says (tie T1, by semantics)

`QF.Gen.aggAst` (regenerated on every run by go/cmd/extract/aast.go) holds, as terms of `QF.AE`, the functions in the
`aggregations` maps of the int, float and bool column packages (the maps `Column.Aggregate` looks a name up in) and the
aggregation `Grouper.Aggregate` answers itself (`"count"`); `AE.eval` (QF/Core/AExpr.lean) is their Go meaning on the
cells of one group. The spec's counterpart is `aggApply (.builtin name) ty` (QF/Spec/Ops.lean), which `groupAggS` applies
to the cells of every group. This file proves, for the terms generated TODAY:

* `gen_agg_no_opaque` — every map entry and the special case were translated completely
* `gen_agg_names`     — per column type the maps offer exactly the names the spec defines (`spec_names`: `aggApply
                        (.builtin n) ty` is defined iff `n` is `"count"` or one of them); string and enum columns have none
* `gen_agg_semantics` — for every column type, every built-in name of the type and ALL non-empty lists of cells of the
                        type: the extracted term evaluates to the value the spec's function returns — int `sum` with
                        wrap-around at 64 bits, `max` / `min` through `integer.Max` / `integer.Min`; float `sum` and `avg`
                        adding left to right from 0, `max` / `min` with `math.Max` / `math.Min` (`goMathMax_eq_fMax`: Go's
                        case analysis of ±Inf, NaN, ±0 is the spec's `fMax`); bool `majority` = more true than false;
                        `count` = the group size, for every type

Method (as in C03Compare): `decide` shows that the generated entries ARE the canonical ones (`gen_agg_canon`,
`gen_agg_count`); `canon_*` lemmas give the meaning of the canonical terms on every list, once and for all.
-/
namespace QF.Props.C04Aggregations
open QF QF.Props.C03Compare

/-! ## Today's aggregation of a column type -/

def entriesOf (asts : List (String × String × AE)) (pkg : String) : List (String × AE) :=
  (asts.filter (·.1 == pkg)).map (·.2)

/-- The term behind `Aggregate(Aggregation{Fn: name, …})` on a column of type `ty`: grouper.go first tests for the names it
answers itself, then `Column.Aggregate` looks the name up in the package's map. -/
def aggTerm (asts : List (String × String × AE)) (ty : CType) (name : String) : Option AE :=
  match (entriesOf asts "qframe").lookup name with
  | some t => some t
  | none => (entriesOf asts (pkgOf ty)).lookup name

/-- … evaluated on the cells of one group, for today's source -/
def genAgg (ty : CType) (name : String) (vs : List Cell) : Option Cell :=
  (aggTerm Gen.aggAst ty name).bind (·.eval ty vs)

/-! ## Canonical terms -/

def foldZero (fin : AFin) : AE := .fold .zero 0 (.add .acc .v) fin
def foldFirst (step : AX) : AE := .fold .first 1 step .id

def canonAggs : CType → List (String × AE)
  | .int => [("max", foldFirst (.sel ">" .acc .v .acc .v)), ("min", foldFirst (.sel "<" .acc .v .acc .v)),
             ("sum", foldZero .id)]
  | .float => [("avg", foldZero .divByLen), ("max", foldFirst (.mathMax .acc .v)), ("min", foldFirst (.mathMin .acc .v)),
               ("sum", foldZero .id)]
  | .bool => [("majority", .count2 .c0 .c1 ">" .c0 .c1)]
  | _ => []

/-- the built-in aggregations of a column type according to the spec, besides `"count"` -/
def specNames : CType → List String
  | .int => ["max", "min", "sum"]
  | .float => ["avg", "max", "min", "sum"]
  | .bool => ["majority"]
  | _ => []

/-! ## Today's terms are the canonical ones (finite checks over `QF.Gen`, redone on every run) -/

theorem gen_agg_canon : ∀ ty ∈ tys, entriesOf Gen.aggAst (pkgOf ty) = canonAggs ty := by
  decide

theorem gen_agg_count : entriesOf Gen.aggAst "qframe" = [("count", .len)] := by
  decide

/-- No entry translates to (a term containing) `.opaque`, and every entry belongs to one of the five column packages or
to grouper.go. -/
theorem gen_agg_no_opaque :
    (∀ e ∈ Gen.aggAst, e.2.2.hasOpaque = false) ∧ (∀ e ∈ Gen.aggAst, e.1 = "qframe" ∨ e.1 ∈ tys.map pkgOf) := by
  decide

/-- What the spec defines: `aggApply (.builtin n) ty` exists exactly for `"count"` and the names of `specNames`. -/
theorem spec_names (ty : CType) (n : String) :
    (aggApply (.builtin n) ty).isSome = true ↔ (n = "count" ∨ n ∈ specNames (fkind ty)) := by
  by_cases h1 : n = "count"
  · subst h1; cases ty <;> simp [aggApply]
  by_cases h2 : n = "sum"
  · subst h2; cases ty <;> simp [aggApply, fkind, specNames]
  by_cases h3 : n = "max"
  · subst h3; cases ty <;> simp [aggApply, fkind, specNames]
  by_cases h4 : n = "min"
  · subst h4; cases ty <;> simp [aggApply, fkind, specNames]
  by_cases h5 : n = "avg"
  · subst h5; cases ty <;> simp [aggApply, fkind, specNames]
  by_cases h6 : n = "majority"
  · subst h6; cases ty <;> simp [aggApply, fkind, specNames]
  cases ty <;> simp [aggApply, fkind, specNames, h1, h2, h3, h4, h5, h6]

/-- **The maps offer exactly the names the spec knows**, per column type (string and enum columns: none), and
`Grouper.Aggregate` answers exactly `"count"` itself. -/
theorem gen_agg_names :
    (∀ ty ∈ tys, (entriesOf Gen.aggAst (pkgOf ty)).map (·.1) = specNames ty) ∧
    (entriesOf Gen.aggAst "qframe").map (·.1) = ["count"] := by
  decide

theorem aggTerm_eq (ty : CType) (hty : ty ∈ tys) (name : String) :
    aggTerm Gen.aggAst ty name = if name = "count" then some .len else (canonAggs ty).lookup name := by
  unfold aggTerm
  rw [gen_agg_count, gen_agg_canon ty hty]
  by_cases h : name = "count"
  · subst h; rfl
  · have : (name == "count") = false := by simpa using h
    simp [List.lookup, this, h]

/-! ## `math.Max` / `math.Min` as Go computes them are the spec's `fMax` / `fMin` -/

theorem nan_zero : F64.isNaN 0 = false := by decide

theorem not_nan_of_or {a b : UInt64} (h : ¬ (F64.isNaN a || F64.isNaN b) = true) :
    F64.isNaN a = false ∧ F64.isNaN b = false := by
  cases ha : F64.isNaN a <;> cases hb : F64.isNaN b <;> simp_all

/-- `x == 0 && x == y` on non-NaN floats: both are zeros -/
theorem both_zero {a b : UInt64} (ha : F64.isNaN a = false) (hb : F64.isNaN b = false) :
    (F64.eq a 0 && F64.eq a b) = (F64.key a == 0 && F64.key b == 0) := by
  simp only [F64.eq, ha, hb, nan_zero, F64.key_zero, Bool.not_false, Bool.true_and]
  by_cases ka : F64.key a = 0
  · rw [ka]
    by_cases kb : F64.key b = 0
    · rw [kb]
    · have h1 : ((0 : Int) == F64.key b) = false := by simp; omega
      have h2 : (F64.key b == 0) = false := by simp; omega
      rw [h1, h2]
  · have h1 : (F64.key a == 0) = false := by simp; omega
    rw [h1]; rfl

theorem goMathMax_eq_fMax (a b : UInt64) : goMathMax a b = fMax a b := by
  unfold goMathMax fMax F64.posInf
  by_cases h1 : (a == 0x7ff0000000000000 || b == 0x7ff0000000000000) = true
  · simp only [h1, if_true]
  · simp only [h1]
    by_cases h2 : (F64.isNaN a || F64.isNaN b) = true
    · simp only [h2, if_true]
    · simp only [h2]
      obtain ⟨ha, hb⟩ := not_nan_of_or h2
      rw [both_zero ha hb]
      by_cases h3 : (F64.key a == 0 && F64.key b == 0) = true
      · simp only [h3, if_true]
      · simp only [h3]
        have hl : F64.lt b a = decide (F64.key b < F64.key a) := by simp [F64.lt, ha, hb]
        rw [hl]
        by_cases hlt : F64.key b < F64.key a
        · have : F64.key a ≥ F64.key b := by omega
          simp [hlt, this]
        · by_cases heq : F64.key a = F64.key b
          · have ka : F64.key a ≠ 0 := by
              intro ka
              apply h3
              have kb : F64.key b = 0 := by rw [← heq]; exact ka
              simp [ka, kb]
            have := F64.key_inj heq ka
            subst this
            simp
          · have : ¬ F64.key a ≥ F64.key b := by omega
            simp [hlt, this]

theorem goMathMin_eq_fMin (a b : UInt64) : goMathMin a b = fMin a b := by
  unfold goMathMin fMin F64.negInf
  by_cases h1 : (a == 0xfff0000000000000 || b == 0xfff0000000000000) = true
  · simp only [h1, if_true]
  · simp only [h1]
    by_cases h2 : (F64.isNaN a || F64.isNaN b) = true
    · simp only [h2, if_true]
    · simp only [h2]
      obtain ⟨ha, hb⟩ := not_nan_of_or h2
      rw [both_zero ha hb]
      by_cases h3 : (F64.key a == 0 && F64.key b == 0) = true
      · simp only [h3, if_true]
      · simp only [h3]
        have hl : F64.lt a b = decide (F64.key a < F64.key b) := by simp [F64.lt, ha, hb]
        rw [hl]
        by_cases hlt : F64.key a < F64.key b
        · have : F64.key a ≤ F64.key b := by omega
          simp [hlt, this]
        · by_cases heq : F64.key a = F64.key b
          · have ka : F64.key a ≠ 0 := by
              intro ka
              apply h3
              have kb : F64.key b = 0 := by rw [← heq]; exact ka
              simp [ka, kb]
            have := F64.key_inj heq ka
            subst this
            simp
          · have : ¬ F64.key a ≤ F64.key b := by omega
            simp [hlt, this]

/-! ## The meaning of the canonical terms, once and for all -/

theorem avsOf_int (xs : List Int) : avsOf .int (xs.map Cell.int) = some (xs.map AV.int) := by
  induction xs with
  | nil => rfl
  | cons x xs ih => simp [avsOf, AV.ofCell, ih]

theorem avsOf_float (xs : List UInt64) : avsOf .float (xs.map Cell.float) = some (xs.map AV.flt) := by
  induction xs with
  | nil => rfl
  | cons x xs ih => simp [avsOf, AV.ofCell, ih]

theorem avsOf_bool (xs : List Bool) : avsOf .bool (xs.map Cell.bool) = some (xs.map AV.bool) := by
  induction xs with
  | nil => rfl
  | cons x xs ih => simp [avsOf, AV.ofCell, ih]

theorem ints_map (xs : List Int) : ints (xs.map Cell.int) = xs := by
  induction xs with
  | nil => rfl
  | cons x xs ih => simpa [ints] using ih

theorem floats_map (xs : List UInt64) : floats (xs.map Cell.float) = xs := by
  induction xs with
  | nil => rfl
  | cons x xs ih => simpa [floats] using ih

theorem bools_map (xs : List Bool) : bools (xs.map Cell.bool) = xs := by
  induction xs with
  | nil => rfl
  | cons x xs ih => simpa [bools] using ih

theorem cells_int {vs : List Cell} (h : ∀ v ∈ vs, cellType v = .int) : ∃ xs : List Int, vs = xs.map Cell.int := by
  induction vs with
  | nil => exact ⟨[], rfl⟩
  | cons v vs ih =>
    obtain ⟨xs, hxs⟩ := ih (fun w hw => h w (by simp [hw]))
    have hv := h v (by simp)
    cases v <;> simp [cellType] at hv
    rename_i x
    exact ⟨x :: xs, by simp [hxs]⟩

theorem cells_float {vs : List Cell} (h : ∀ v ∈ vs, cellType v = .float) : ∃ xs : List UInt64, vs = xs.map Cell.float := by
  induction vs with
  | nil => exact ⟨[], rfl⟩
  | cons v vs ih =>
    obtain ⟨xs, hxs⟩ := ih (fun w hw => h w (by simp [hw]))
    have hv := h v (by simp)
    cases v <;> simp [cellType] at hv
    rename_i x
    exact ⟨x :: xs, by simp [hxs]⟩

theorem cells_bool {vs : List Cell} (h : ∀ v ∈ vs, cellType v = .bool) : ∃ xs : List Bool, vs = xs.map Cell.bool := by
  induction vs with
  | nil => exact ⟨[], rfl⟩
  | cons v vs ih =>
    obtain ⟨xs, hxs⟩ := ih (fun w hw => h w (by simp [hw]))
    have hv := h v (by simp)
    cases v <;> simp [cellType] at hv
    rename_i x
    exact ⟨x :: xs, by simp [hxs]⟩

/-- a loop whose step computes `f` on ints is `foldl f` -/
theorem foldStep_int (step : AX) (f : Int → Int → Int)
    (hs : ∀ a v, step.eval (.int a) (.int v) = some (.int (f a v))) (a : Int) (xs : List Int) :
    foldStep step (.int a) (xs.map AV.int) = some (.int (xs.foldl f a)) := by
  induction xs generalizing a with
  | nil => rfl
  | cons x xs ih => simp [foldStep, hs, ih]

theorem foldStep_flt (step : AX) (f : UInt64 → UInt64 → UInt64)
    (hs : ∀ a v, step.eval (.flt a) (.flt v) = some (.flt (f a v))) (a : UInt64) (xs : List UInt64) :
    foldStep step (.flt a) (xs.map AV.flt) = some (.flt (xs.foldl f a)) := by
  induction xs generalizing a with
  | nil => rfl
  | cons x xs ih => simp [foldStep, hs, ih]

theorem canon_int_sum (xs : List Int) :
    (foldZero .id).eval .int (xs.map Cell.int) = some (.int (xs.foldl (fun a x => wrap64 (a + x)) 0)) := by
  have hs : ∀ a v, (AX.add .acc .v).eval (.int a) (.int v) = some (.int ((fun a x => wrap64 (a + x)) a v)) := by
    intro a v; rfl
  simp [foldZero, AE.eval, avsOf_int, AInit.eval, foldStep_int _ _ hs, AFin.eval, AV.toCell]

theorem sel_gt_int (a v : Int) : (AX.sel ">" .acc .v .acc .v).eval (.int a) (.int v) = some (.int (max a v)) := by
  simp only [AX.eval, cmpAV, cmpInt]
  by_cases h : v < a
  · have : max a v = a := by omega
    simp [h, this]
  · have : max a v = v := by omega
    simp [h, this]

theorem sel_lt_int (a v : Int) : (AX.sel "<" .acc .v .acc .v).eval (.int a) (.int v) = some (.int (min a v)) := by
  simp only [AX.eval, cmpAV, cmpInt]
  by_cases h : a < v
  · have : min a v = a := by omega
    simp [h, this]
  · have : min a v = v := by omega
    simp [h, this]

theorem canon_int_max (x : Int) (xs : List Int) :
    (foldFirst (.sel ">" .acc .v .acc .v)).eval .int ((x :: xs).map Cell.int) = some (.int (xs.foldl max x)) := by
  rw [foldFirst, AE.eval, avsOf_int]
  simp [AInit.eval, foldStep_int _ max sel_gt_int, AFin.eval, AV.toCell]

theorem canon_int_min (x : Int) (xs : List Int) :
    (foldFirst (.sel "<" .acc .v .acc .v)).eval .int ((x :: xs).map Cell.int) = some (.int (xs.foldl min x)) := by
  rw [foldFirst, AE.eval, avsOf_int]
  simp [AInit.eval, foldStep_int _ min sel_lt_int, AFin.eval, AV.toCell]

theorem add_flt (a v : UInt64) : (AX.add .acc .v).eval (.flt a) (.flt v) = some (.flt (fAdd a v)) := rfl

theorem canon_float_sum (xs : List UInt64) :
    (foldZero .id).eval .float (xs.map Cell.float) = some (.float (xs.foldl fAdd 0)) := by
  simp [foldZero, AE.eval, avsOf_float, AInit.eval, foldStep_flt _ fAdd add_flt, AFin.eval, AV.toCell]

theorem canon_float_avg (xs : List UInt64) :
    (foldZero .divByLen).eval .float (xs.map Cell.float) = some (.float (fDiv (xs.foldl fAdd 0) (fOfInt xs.length))) := by
  simp [foldZero, AE.eval, avsOf_float, AInit.eval, foldStep_flt _ fAdd add_flt, AFin.eval, AV.toCell]

theorem max_flt (a v : UInt64) : (AX.mathMax .acc .v).eval (.flt a) (.flt v) = some (.flt (fMax a v)) := by
  simp [AX.eval, goMathMax_eq_fMax]

theorem min_flt (a v : UInt64) : (AX.mathMin .acc .v).eval (.flt a) (.flt v) = some (.flt (fMin a v)) := by
  simp [AX.eval, goMathMin_eq_fMin]

theorem canon_float_max (x : UInt64) (xs : List UInt64) :
    (foldFirst (.mathMax .acc .v)).eval .float ((x :: xs).map Cell.float) = some (.float (xs.foldl fMax x)) := by
  rw [foldFirst, AE.eval, avsOf_float]
  simp [AInit.eval, foldStep_flt _ fMax max_flt, AFin.eval, AV.toCell]

theorem canon_float_min (x : UInt64) (xs : List UInt64) :
    (foldFirst (.mathMin .acc .v)).eval .float ((x :: xs).map Cell.float) = some (.float (xs.foldl fMin x)) := by
  rw [foldFirst, AE.eval, avsOf_float]
  simp [AInit.eval, foldStep_flt _ fMin min_flt, AFin.eval, AV.toCell]

/-- the counting loop counts -/
theorem countStep_counts (t f : Int) (bs : List Bool) :
    countStep .c0 .c1 (t, f) (bs.map AV.bool) = some (t + (bs.count true : Nat), f + (bs.count false : Nat)) := by
  induction bs generalizing t f with
  | nil => simp [countStep]
  | cons b bs ih =>
    cases b
    · simp only [List.map_cons, countStep, Bool.false_eq_true, if_false, ih, List.count_cons, beq_self_eq_true,
        if_true, Option.some.injEq, Prod.mk.injEq]
      constructor
      · simp
      · simp only [Int.natCast_add]; omega
    · simp only [List.map_cons, countStep, if_true, ih, List.count_cons, beq_self_eq_true, Option.some.injEq,
        Prod.mk.injEq]
      constructor
      · simp only [Int.natCast_add]; omega
      · simp

theorem canon_bool_majority (bs : List Bool) :
    (AE.count2 .c0 .c1 ">" .c0 .c1).eval .bool (bs.map Cell.bool) = some (.bool (bs.count true > bs.count false)) := by
  simp only [AE.eval, avsOf_bool, countStep_counts, ACtr.get, cmpInt, Option.map_some, Int.zero_add]
  congr 2
  simp

/-! ## Today's aggregations compute what the spec says -/

/-- **The built-in aggregations of today's source are the spec's.** For every column type, every built-in name of the type
(`"count"` or a name of `specNames`: by `spec_names` these are all the spec defines) and ALL non-empty lists `vs` of cells
of the type (a group is never empty), the spec defines the aggregation — result type `rt`, function `g` — and the term
extracted from today's source evaluates to `g vs`. -/
theorem gen_agg_semantics (ty : CType) (hty : ty ∈ tys) (name : String) (hn : name = "count" ∨ name ∈ specNames ty)
    (vs : List Cell) (hne : vs ≠ []) (hwt : name = "count" ∨ ∀ v ∈ vs, cellType v = ty) :
    ∃ rt g, aggApply (.builtin name) ty = some (rt, g) ∧ genAgg ty name vs = some (g vs) := by
  unfold genAgg
  rw [aggTerm_eq ty hty]
  by_cases hc : name = "count"
  · subst hc
    exact ⟨.int, fun vs => .int vs.length, by cases ty <;> rfl, rfl⟩
  · have hn' : name ∈ specNames ty := hn.resolve_left hc
    have hwt' : ∀ v ∈ vs, cellType v = ty := hwt.resolve_left hc
    simp only [hc, if_false]
    cases ty
    · -- int
      obtain ⟨xs, rfl⟩ := cells_int hwt'
      rcases xs with _ | ⟨x, xs⟩
      · simp at hne
      simp only [specNames, List.mem_cons, List.not_mem_nil, or_false] at hn'
      rcases hn' with rfl | rfl | rfl
      · refine ⟨_, _, rfl, ?_⟩
        simp only [canonAggs, List.lookup, Option.bind]
        rw [show ("max" == "max") = true from rfl]
        simp only [canon_int_max, ints_map]
      · refine ⟨_, _, rfl, ?_⟩
        simp only [canonAggs, List.lookup, Option.bind]
        rw [show ("min" == "max") = false from by decide, show ("min" == "min") = true from rfl]
        simp only [canon_int_min, ints_map]
      · refine ⟨_, _, rfl, ?_⟩
        simp only [canonAggs, List.lookup, Option.bind]
        rw [show ("sum" == "max") = false from by decide, show ("sum" == "min") = false from by decide,
          show ("sum" == "sum") = true from rfl]
        simp only [canon_int_sum, ints_map]
    · -- float
      obtain ⟨xs, rfl⟩ := cells_float hwt'
      rcases xs with _ | ⟨x, xs⟩
      · simp at hne
      simp only [specNames, List.mem_cons, List.not_mem_nil, or_false] at hn'
      rcases hn' with rfl | rfl | rfl | rfl
      · refine ⟨_, _, rfl, ?_⟩
        simp only [canonAggs, List.lookup, Option.bind]
        rw [show ("avg" == "avg") = true from rfl]
        simp only [canon_float_avg, floats_map, List.length_map]
      · refine ⟨_, _, rfl, ?_⟩
        simp only [canonAggs, List.lookup, Option.bind]
        rw [show ("max" == "avg") = false from by decide, show ("max" == "max") = true from rfl]
        simp only [canon_float_max, floats_map]
      · refine ⟨_, _, rfl, ?_⟩
        simp only [canonAggs, List.lookup, Option.bind]
        rw [show ("min" == "avg") = false from by decide, show ("min" == "max") = false from by decide,
          show ("min" == "min") = true from rfl]
        simp only [canon_float_min, floats_map]
      · refine ⟨_, _, rfl, ?_⟩
        simp only [canonAggs, List.lookup, Option.bind]
        rw [show ("sum" == "avg") = false from by decide, show ("sum" == "max") = false from by decide,
          show ("sum" == "min") = false from by decide, show ("sum" == "sum") = true from rfl]
        simp only [canon_float_sum, floats_map]
    · -- bool
      obtain ⟨xs, rfl⟩ := cells_bool hwt'
      simp only [specNames, List.mem_cons, List.not_mem_nil, or_false] at hn'
      subst hn'
      refine ⟨_, _, rfl, ?_⟩
      simp only [canonAggs, List.lookup, Option.bind]
      rw [show ("majority" == "majority") = true from rfl]
      simp only [canon_bool_majority, bools_map]
    · simp [specNames] at hn'
    · simp [specNames] at hn'
    · simp [tys] at hty

/-! ## Witnesses: the statement tells wrong aggregations apart -/

/-- icolumn's `max` calling `integer.Min`: the translator inlines the callee, the term is `min`'s … -/
def maxByMin : AE := foldFirst (.sel "<" .acc .v .acc .v)

/-- … and on the group [1, 2] it returns 1 where the spec's `max` says 2. -/
example : maxByMin.eval .int [.int 1, .int 2] = some (.int 1) ∧
    (aggApply (.builtin "max") .int).map (fun p => p.2 [.int 1, .int 2]) = some (.int 2) := by
  decide

/-- `sum` that starts from `values[0]` and then loops over ALL values counts the first one twice. -/
example : (AE.fold .first 0 (.add .acc .v) .id).eval .int [.int 5, .int 1] = some (.int 11) ∧
    (aggApply (.builtin "sum") .int).map (fun p => p.2 [.int 5, .int 1]) = some (.int 6) := by
  decide

/-- `max` / `min` index `values[0]`: on an empty group they panic (no value); `Grouper` never builds an empty group. -/
example : (foldFirst (.mathMax .acc .v)).eval .float [] = none := by
  decide

end QF.Props.C04Aggregations
