import QF.Core.Ryu64
import QF.Spec.Num
import QF.Props.C16Tables
/-!
# C16 — the Ryu core (`QF.Ryu64`, the mirror of internal/ryu/ryu64.go): what is proved about it

Bottom-up, every statement about the mirror functions that the replay driver ties to the implementation:

* 3a `mulShift64_exact` — the 64×128-bit multiply-and-shift is the exact floor;
* 3b `log10Pow2_exact`, `log10Pow5_exact`, `pow5Bits_exact` — the multiply-and-shift logarithms on the asserted ranges;
* 3c `pow5Factor64_spec`, `multipleOfPowerOfFive64_iff`, `multipleOfPowerOfTwo64_iff`, `decimalLen64_spec`;
* 3d `exactInt_spec` — the exact-integer fast path;
* 3e `interval_value`, `interval_upper`, `interval_lower` — the rounding interval set up by `float64ToDecimal`.
-/
namespace QF.Props.C16Core
open QF.Ryu64 QF.Num

theorem all_range_lift {p : Nat → Bool} {n : Nat} (h : (List.range n).all p = true) (e : Nat) (he : e < n) : p e = true :=
  List.all_eq_true.mp h e (List.mem_range.mpr he)

/-! ## 3a. mulShift64 -/

theorem toU64_ofNat (n : Nat) (h : n < 2 ^ 64) : toU64 (n : Int) = n := by
  unfold toU64
  omega

theorem split128 (hi lo s : Nat) (hs : s ≤ 64) :
    (hi * 2 ^ 64 + lo) / 2 ^ s = hi * 2 ^ (64 - s) + lo / 2 ^ s := by
  have h64 : (2:Nat) ^ 64 = 2 ^ s * 2 ^ (64 - s) := by rw [← Nat.pow_add]; congr 1; omega
  rw [h64, show hi * (2 ^ s * 2 ^ (64 - s)) = 2 ^ s * (hi * 2 ^ (64 - s)) by
    rw [Nat.mul_left_comm]]
  rw [Nat.mul_add_div (Nat.two_pow_pos s)]

theorem shiftRight128_exact (lo hi s : Nat) (hlo : lo < 2 ^ 64) (hs : s < 64)
    (hfit : (hi * 2 ^ 64 + lo) / 2 ^ s < 2 ^ 64) :
    shiftRight128 (lo, hi) (s : Int) = (hi * 2 ^ 64 + lo) / 2 ^ s := by
  have e1 : toU64 (64 - (s : Int)) = 64 - s := by
    have : (64 - (s : Int)) = ((64 - s : Nat) : Int) := by omega
    rw [this, toU64_ofNat _ (by omega)]
  have e2 : toU64 (s : Int) = s := toU64_ofNat _ (by omega)
  have hsp := split128 hi lo s (by omega)
  rw [hsp] at hfit ⊢
  simp only [shiftRight128, e1, e2, shl64, shr64, hs, if_true]
  by_cases h0 : s = 0
  · subst h0
    simp at hfit ⊢
    have : hi = 0 := by omega
    subst this; simp
  · have : 64 - s < 64 := by omega
    simp only [this, if_true]
    have hlt : lo / 2 ^ s < 2 ^ (64 - s) := by
      rw [Nat.div_lt_iff_lt_mul (Nat.two_pow_pos s), ← Nat.pow_add]
      rw [show 64 - s + s = 64 by omega]; exact hlo
    rw [Nat.shiftLeft_eq, Nat.shiftRight_eq_div_pow]
    rw [Nat.mod_eq_of_lt (Nat.lt_of_le_of_lt (Nat.le_add_right _ _) hfit)]
    rw [← Nat.shiftLeft_eq, Nat.shiftLeft_add_eq_or_of_lt hlt]


/-- the 128-bit sum built by `mulShift64` from the two partial products is `⌊m·(hi·2^64+lo) / 2^64⌋`, without overflow -/
theorem mulShift64_sum (m lo hi : Nat) (hm : m < 2 ^ 64) (hlo : lo < 2 ^ 64) (hhi : hi < 2 ^ 64) :
    let hihi := (mul64 m hi).1
    let hilo := (mul64 m hi).2
    let lohi := (mul64 m lo).1
    let sumlo := u64 (lohi + hilo)
    let sumhi := if sumlo < lohi then u64 (hihi + 1) else hihi
    sumlo < 2 ^ 64 ∧ sumhi * 2 ^ 64 + sumlo = m * (hi * 2 ^ 64 + lo) / 2 ^ 64 := by
  intro hihi hilo lohi sumlo sumhi
  have hA : m * hi ≤ (2 ^ 64 - 1) * (2 ^ 64 - 1) := Nat.mul_le_mul (by omega) (by omega)
  have hB : m * lo ≤ (2 ^ 64 - 1) * (2 ^ 64 - 1) := Nat.mul_le_mul (by omega) (by omega)
  have hval : m * (hi * 2 ^ 64 + lo) / 2 ^ 64 = m * hi + m * lo / 2 ^ 64 := by
    rw [Nat.mul_add, ← Nat.mul_assoc, Nat.mul_comm (m * hi) (2 ^ 64), Nat.mul_add_div (Nat.two_pow_pos 64)]
  rw [hval]
  have h1 : hihi = m * hi / 2 ^ 64 := by
    show m * hi / 2 ^ 64 % 2 ^ 64 = _
    apply Nat.mod_eq_of_lt; omega
  have h2 : hilo = m * hi % 2 ^ 64 := rfl
  have h3 : lohi = m * lo / 2 ^ 64 := by
    show m * lo / 2 ^ 64 % 2 ^ 64 = _
    apply Nat.mod_eq_of_lt; omega
  have h4 : sumlo = (lohi + hilo) % 2 ^ 64 := rfl
  have h5 : sumhi = if sumlo < lohi then (hihi + 1) % 2 ^ 64 else hihi := rfl
  have hdm := Nat.div_add_mod (m * hi) (2 ^ 64)
  rw [← h1, ← h2] at hdm
  rw [← h3, ← hdm]
  have hl1 : hilo < 2 ^ 64 := by rw [h2]; exact Nat.mod_lt _ (Nat.two_pow_pos 64)
  have hl2 : lohi < 2 ^ 64 := by omega
  have hl3 : hihi * 2 ^ 64 + hilo + lohi < 2 ^ 128 := by omega
  split at h5 <;> omega

/-- 3a. `mulShift64` computes the exact floor `⌊m · (hi·2^64 + lo) / 2^shift⌋` — the two 64×64→128 partial products,
the carry and `shiftRight128` lose nothing — whenever that quotient fits into 64 bits.
The code asserts `shift - 64 < 64`; a shift count below 64 would make the implementation return 0. -/
theorem mulShift64_exact (m lo hi shift : Nat) (hm : m < 2 ^ 64) (hlo : lo < 2 ^ 64) (hhi : hi < 2 ^ 64)
    (hs1 : 64 ≤ shift) (hs2 : shift < 128) (hfit : m * (hi * 2 ^ 64 + lo) / 2 ^ shift < 2 ^ 64) :
    mulShift64 m (lo, hi) (shift : Int) = m * (hi * 2 ^ 64 + lo) / 2 ^ shift := by
  obtain ⟨hsl, hsum⟩ := mulShift64_sum m lo hi hm hlo hhi
  have hsh : (2:Nat) ^ shift = 2 ^ 64 * 2 ^ (shift - 64) := by rw [← Nat.pow_add]; congr 1; omega
  have hq : m * (hi * 2 ^ 64 + lo) / 2 ^ shift = m * (hi * 2 ^ 64 + lo) / 2 ^ 64 / 2 ^ (shift - 64) := by
    rw [hsh, Nat.div_div_eq_div_mul]
  rw [hq] at hfit ⊢
  rw [← hsum] at hfit ⊢
  have hc : ((shift : Int) - 64) = ((shift - 64 : Nat) : Int) := by omega
  unfold mulShift64
  simp only [hc]
  exact shiftRight128_exact _ _ _ hsl (by omega) hfit

/-! ## 3b. the logarithm approximations -/


def log10Pow2Ok (e : Nat) : Bool :=
  decide (10 ^ log10Pow2 (e : Int) ≤ 2 ^ e) && decide (2 ^ e < 10 ^ (log10Pow2 (e : Int) + 1))
def log10Pow5Ok (e : Nat) : Bool :=
  decide (10 ^ log10Pow5 (e : Int) ≤ 5 ^ e) && decide (5 ^ e < 10 ^ (log10Pow5 (e : Int) + 1))
def pow5BitsOk (e : Nat) : Bool :=
  decide (0 < pow5Bits (e : Int)) && decide (2 ^ ((pow5Bits (e : Int)).toNat - 1) ≤ 5 ^ e) && decide (5 ^ e < 2 ^ (pow5Bits (e : Int)).toNat)

theorem log10Pow2_check : (List.range 1651).all log10Pow2Ok = true := by decide +kernel
theorem log10Pow5_check : (List.range 2621).all log10Pow5Ok = true := by decide +kernel
theorem pow5Bits_check : (List.range 3529).all pow5BitsOk = true := by decide +kernel

/-- 3b. on the asserted range `0 ≤ e ≤ 1650`, `log10Pow2 e = ⌊e · log10 2⌋`: `10^r ≤ 2^e < 10^(r+1)` -/
theorem log10Pow2_exact (e : Nat) (h : e ≤ 1650) :
    10 ^ log10Pow2 (e : Int) ≤ 2 ^ e ∧ 2 ^ e < 10 ^ (log10Pow2 (e : Int) + 1) := by
  have := all_range_lift log10Pow2_check e (by omega)
  simpa [log10Pow2Ok] using this

/-- 3b. on the asserted range `0 ≤ e ≤ 2620`, `log10Pow5 e = ⌊e · log10 5⌋`: `10^r ≤ 5^e < 10^(r+1)` -/
theorem log10Pow5_exact (e : Nat) (h : e ≤ 2620) :
    10 ^ log10Pow5 (e : Int) ≤ 5 ^ e ∧ 5 ^ e < 10 ^ (log10Pow5 (e : Int) + 1) := by
  have := all_range_lift log10Pow5_check e (by omega)
  simpa [log10Pow5Ok] using this

/-- 3b. on the asserted range `0 ≤ e ≤ 3528`, `pow5Bits e` is the bit length of `5^e`: `2^(b-1) ≤ 5^e < 2^b`,
i.e. `⌈log2 5^e⌉` for `e ≥ 1` and `1` for `e = 0` (the code's convention). -/
theorem pow5Bits_exact (e : Nat) (h : e ≤ 3528) :
    0 < pow5Bits (e : Int) ∧ 2 ^ ((pow5Bits (e : Int)).toNat - 1) ≤ 5 ^ e ∧ 5 ^ e < 2 ^ (pow5Bits (e : Int)).toNat := by
  have := all_range_lift pow5Bits_check e (by omega)
  simpa [pow5BitsOk, and_assoc] using this

/-- `pow5Bits e` is the `bitlen (5^e)` in which `C16Tables` states the correctness of the multiplier tables -/
theorem pow5Bits_eq_bitlen (e : Nat) (h : e ≤ 3528) : pow5Bits (e : Int) = (QF.Props.C16.bitlen (5 ^ e) : Nat) := by
  obtain ⟨h0, h1, h2⟩ := pow5Bits_exact e h
  have hp : 5 ^ e ≠ 0 := Nat.ne_of_gt (Nat.pow_pos (by decide))
  unfold QF.Props.C16.bitlen
  rw [if_neg hp]
  have a : Nat.log2 (5 ^ e) < (pow5Bits (e : Int)).toNat := (Nat.log2_lt hp).mpr h2
  have b : ¬ Nat.log2 (5 ^ e) < (pow5Bits (e : Int)).toNat - 1 := by
    rw [Nat.log2_lt hp]; omega
  omega


/-! ## 3c. divisibility tests and the digit count -/

theorem pow5Factor64Loop_spec : ∀ (fuel v n : Nat), v ≠ 0 → v < 5 ^ fuel →
    ∃ k, pow5Factor64Loop fuel v n = n + k ∧ 5 ^ k ∣ v ∧ ¬ 5 ^ (k + 1) ∣ v := by
  intro fuel
  induction fuel with
  | zero => intro v n h0 h; simp at h; omega
  | succ fuel ih =>
    intro v n h0 h
    unfold pow5Factor64Loop
    by_cases hr : v % 5 = 0
    · have hv : v = 5 * (v / 5) := by omega
      obtain ⟨k, hk, hd, hnd⟩ := ih (v / 5) (n + 1) (by omega) (by rw [Nat.pow_succ] at h; omega)
      refine ⟨k + 1, ?_, ?_, ?_⟩
      · simp [hr, hk]; omega
      · rw [hv, Nat.pow_succ, Nat.mul_comm]; exact Nat.mul_dvd_mul_left 5 hd
      · intro hc
        apply hnd
        rw [hv, Nat.pow_succ _ (k + 1), Nat.mul_comm] at hc
        exact Nat.dvd_of_mul_dvd_mul_left (by decide) hc
    · refine ⟨0, ?_, ?_, ?_⟩
      · simp [hr]
      · simp
      · simpa [Nat.dvd_iff_mod_eq_zero] using hr

/-- 3c. for a non-zero 64-bit `v`, `pow5Factor64 v` is the exponent of 5 in `v` -/
theorem pow5Factor64_spec (v : Nat) (h0 : v ≠ 0) (h : v < 2 ^ 64) :
    5 ^ pow5Factor64 v ∣ v ∧ ¬ 5 ^ (pow5Factor64 v + 1) ∣ v := by
  obtain ⟨k, hk, hd, hnd⟩ := pow5Factor64Loop_spec 28 v 0 h0 (Nat.lt_trans h (by decide))
  unfold pow5Factor64
  rw [hk, Nat.zero_add]
  exact ⟨hd, hnd⟩

/-- 3c. `multipleOfPowerOfFive64 v p` decides `5^p ∣ v` (non-zero 64-bit `v`) -/
theorem multipleOfPowerOfFive64_iff (v p : Nat) (h0 : v ≠ 0) (h : v < 2 ^ 64) :
    multipleOfPowerOfFive64 v p = true ↔ 5 ^ p ∣ v := by
  obtain ⟨hd, hnd⟩ := pow5Factor64_spec v h0 h
  unfold multipleOfPowerOfFive64
  rw [decide_eq_true_iff]
  constructor
  · intro hp
    exact Nat.dvd_trans (Nat.pow_dvd_pow 5 hp) hd
  · intro hp
    apply Nat.le_of_not_lt
    intro hlt
    exact hnd (Nat.dvd_trans (Nat.pow_dvd_pow 5 hlt) hp)

theorem trailingZeros64Loop_spec : ∀ (fuel v n : Nat), v ≠ 0 → v < 2 ^ fuel →
    ∃ k, trailingZeros64Loop fuel v n = n + k ∧ 2 ^ k ∣ v ∧ ¬ 2 ^ (k + 1) ∣ v := by
  intro fuel
  induction fuel with
  | zero => intro v n h0 h; simp at h; omega
  | succ fuel ih =>
    intro v n h0 h
    unfold trailingZeros64Loop
    by_cases hr : v % 2 = 1
    · refine ⟨0, ?_, ?_, ?_⟩
      · simp [hr]
      · simp
      · simp [Nat.dvd_iff_mod_eq_zero]; omega
    · have hv : v = 2 * (v / 2) := by omega
      obtain ⟨k, hk, hd, hnd⟩ := ih (v / 2) (n + 1) (by omega) (by rw [Nat.pow_succ] at h; omega)
      refine ⟨k + 1, ?_, ?_, ?_⟩
      · simp [hr, hk]; omega
      · rw [hv, Nat.pow_succ, Nat.mul_comm]; exact Nat.mul_dvd_mul_left 2 hd
      · intro hc
        apply hnd
        rw [hv, Nat.pow_succ _ (k + 1), Nat.mul_comm] at hc
        exact Nat.dvd_of_mul_dvd_mul_left (by decide) hc

/-- `bits.TrailingZeros64` of a non-zero 64-bit value is the exponent of 2 in it -/
theorem trailingZeros64_spec (v : Nat) (h0 : v ≠ 0) (h : v < 2 ^ 64) :
    2 ^ trailingZeros64 v ∣ v ∧ ¬ 2 ^ (trailingZeros64 v + 1) ∣ v := by
  obtain ⟨k, hk, hd, hnd⟩ := trailingZeros64Loop_spec 64 v 0 h0 h
  unfold trailingZeros64
  rw [hk, Nat.zero_add]
  exact ⟨hd, hnd⟩

theorem trailingZeros64Loop_zero : ∀ (fuel n : Nat), trailingZeros64Loop fuel 0 n = n + fuel := by
  intro fuel
  induction fuel with
  | zero => intro n; rfl
  | succ fuel ih => intro n; unfold trailingZeros64Loop; simp [ih]; omega

/-- 3c. `multipleOfPowerOfTwo64 v p` decides `2^p ∣ v` (non-zero 64-bit `v`) -/
theorem multipleOfPowerOfTwo64_iff (v p : Nat) (h0 : v ≠ 0) (h : v < 2 ^ 64) :
    multipleOfPowerOfTwo64 v p = true ↔ 2 ^ p ∣ v := by
  obtain ⟨hd, hnd⟩ := trailingZeros64_spec v h0 h
  unfold multipleOfPowerOfTwo64
  rw [decide_eq_true_iff]
  constructor
  · intro hp
    exact Nat.dvd_trans (Nat.pow_dvd_pow 2 hp) hd
  · intro hp
    apply Nat.le_of_not_lt
    intro hlt
    exact hnd (Nat.dvd_trans (Nat.pow_dvd_pow 2 hlt) hp)

/-- for `v = 0` (`TrailingZeros64(0) = 64`) the test says "multiple" exactly for `p ≤ 64` -/
theorem multipleOfPowerOfTwo64_zero (p : Nat) : multipleOfPowerOfTwo64 0 p = true ↔ p ≤ 64 := by
  unfold multipleOfPowerOfTwo64 trailingZeros64
  rw [trailingZeros64Loop_zero, decide_eq_true_iff]

def decimalLenOk (b : Nat) : Bool :=
  let t := (b * 1233) >>> 12
  powersOf10.getD t 0 == 10 ^ t && (t == 0 || decide (10 ^ (t - 1) ≤ 2 ^ (b - 1))) && decide (2 ^ b ≤ 10 ^ (t + 1))

theorem decimalLen_check : (List.range 58).all decimalLenOk = true := by decide +kernel

/-- 3c. `decimalLen64 v` is the number of decimal digits of `v` for `0 < v < 10^17` (all that the formatter passes) -/
theorem decimalLen64_spec (v : Nat) (h0 : v ≠ 0) (h : v < 10 ^ 17) :
    10 ^ (decimalLen64 v - 1) ≤ v ∧ v < 10 ^ decimalLen64 v := by
  have hb1 : 2 ^ Nat.log2 v ≤ v := Nat.log2_self_le h0
  have hb2 : v < 2 ^ (Nat.log2 v + 1) := Nat.lt_log2_self
  have hb : Nat.log2 v + 1 < 58 := by
    have : Nat.log2 v < 57 := (Nat.log2_lt h0).mpr (Nat.lt_trans h (by decide))
    omega
  have hc := all_range_lift decimalLen_check _ hb
  unfold decimalLen64 bitLen64
  rw [if_neg h0]
  dsimp only
  simp only [decimalLenOk, Bool.and_eq_true, Bool.or_eq_true, beq_iff_eq, decide_eq_true_iff, Nat.add_sub_cancel] at hc
  obtain ⟨⟨hp, hlo⟩, hhi⟩ := hc
  generalize ((Nat.log2 v + 1) * 1233) >>> 12 = t at *
  rw [hp]
  by_cases hlt : v < 10 ^ t
  · simp only [hlt, decide_true, boolToNat, if_true, Nat.add_sub_cancel]
    refine ⟨?_, trivial⟩
    rcases hlo with ht | hle
    · subst ht; simp at hlt; omega
    · exact Nat.le_trans hle hb1
  · simp only [hlt, decide_false, boolToNat, Bool.false_eq_true, if_false, Nat.sub_zero, Nat.add_sub_cancel]
    exact ⟨Nat.le_of_not_lt hlt, Nat.lt_of_lt_of_le hb2 hhi⟩

/-- `decimalLen64 0 = 0` (zero never reaches the formatter) -/
theorem decimalLen64_zero : decimalLen64 0 = 0 := by decide

/-! ## 3d. the exact-integer fast path -/

theorem exactIntLoop_spec : ∀ (fuel : Nat) (d0 : Dec64), d0.m ≠ 0 → d0.m < 10 ^ fuel →
    (exactIntLoop fuel d0).m % 10 ≠ 0 ∧
    ∃ k : Nat, (exactIntLoop fuel d0).e = d0.e + k ∧ d0.m = (exactIntLoop fuel d0).m * 10 ^ k := by
  intro fuel
  induction fuel with
  | zero => intro d0 h0 h; simp at h; omega
  | succ fuel ih =>
    intro d0 h0 h
    unfold exactIntLoop
    by_cases hr : d0.m % 10 = 0
    · simp only [hr, beq_self_eq_true, if_true]
      obtain ⟨h1, k, h2, h3⟩ := ih { m := d0.m / 10, e := d0.e + 1 } (by simp; omega) (by simp; rw [Nat.pow_succ] at h; omega)
      refine ⟨h1, k + 1, ?_, ?_⟩
      · rw [h2]; simp; omega
      · simp only at h3
        rw [Nat.pow_succ, ← Nat.mul_assoc, ← h3]; omega
    · have : (d0.m % 10 == 0) = false := by simp [hr]
      simp only [this, Bool.false_eq_true, if_false]
      exact ⟨hr, 0, by simp, by simp⟩

theorem or_two_pow_52 (mant : Nat) (hm : mant < 2 ^ 52) : mant ||| shl64 1 mantBits64 = 2 ^ 52 + mant := by
  have h1 : shl64 1 mantBits64 = 2 ^ 52 * 1 := by decide
  rw [h1, Nat.or_comm, ← Nat.two_pow_add_eq_or_of_lt hm 1]

theorem pair_false_ne {α : Type} {a b : α} (h : (a, false) = (b, true)) : False :=
  Bool.noConfusion (Prod.mk.inj h).2

/-- 3d. The fast path is exactly right: when `float64ToDecimalExactInt mant exp` answers `(d, true)` for the fields of a
float64 (`mant < 2^52`, `exp < 2^11`), then `1023 ≤ exp ≤ 1075` and the float's value `(2^52 + mant) · 2^(exp − 1075)` is the
integer `d.m · 10^d.e` (`0 ≤ d.e`), with `d.m` not divisible by 10. -/
theorem exactInt_spec (mant exp : Nat) (d : Dec64) (hm : mant < 2 ^ 52) (he : exp < 2048)
    (h : float64ToDecimalExactInt mant exp = (d, true)) :
    1023 ≤ exp ∧ exp ≤ 1075 ∧ 0 ≤ d.e ∧ d.m % 10 ≠ 0 ∧
    2 ^ 52 + mant = d.m * 10 ^ d.e.toNat * 2 ^ (1075 - exp) := by
  have h52 : mantBits64 = 52 := rfl
  have hb : bias64 = 1023 := rfl
  unfold float64ToDecimalExactInt at h
  dsimp only at h
  split at h
  · exact (pair_false_ne h).elim
  rename_i hhi
  split at h
  · exact (pair_false_ne h).elim
  rename_i hne
  rw [h52, hb] at hhi
  simp only [h52, hb] at hne h
  have hlo : ¬ exp < 1023 := by
    intro hlo
    apply hhi; unfold subU64; omega
  have hsub : subU64 exp 1023 = exp - 1023 := by unfold subU64; omega
  rw [hsub] at hhi hne h
  have hor := or_two_pow_52 mant hm
  change mant ||| shl64 1 52 = 2 ^ 52 + mant at hor
  rw [hor] at hne h
  have hsh : 52 - (exp - 1023) = 1075 - exp := by omega
  rw [hsh] at hne h
  have hs64 : 1075 - exp < 64 := by omega
  generalize hM : 2 ^ 52 + mant = M at h hne ⊢
  have hMlt : M < 2 ^ 53 := by omega
  have hMpos : 2 ^ 52 ≤ M := by omega
  generalize hS : 1075 - exp = s at h hne hs64 ⊢
  have hs52 : s ≤ 52 := by omega
  have hshr : shr64 M s = M / 2 ^ s := by
    unfold shr64; rw [if_pos hs64, Nat.shiftRight_eq_div_pow]
  rw [hshr] at h hne
  have hle : M / 2 ^ s * 2 ^ s ≤ M := Nat.div_mul_le_self _ _
  have hshl : shl64 (M / 2 ^ s) s = M / 2 ^ s * 2 ^ s := by
    unfold shl64; rw [if_pos hs64, Nat.shiftLeft_eq]
    apply Nat.mod_eq_of_lt; omega
  rw [hshl] at hne
  have hne : M / 2 ^ s * 2 ^ s = M := by simpa using hne
  have hd : exactIntLoop 20 { m := M / 2 ^ s, e := 0 } = d := (Prod.mk.inj h).1
  have hq0 : M / 2 ^ s ≠ 0 := by
    intro h0; rw [h0] at hne; omega
  have hqlt : M / 2 ^ s < 10 ^ 20 := by
    have : M / 2 ^ s ≤ M := Nat.div_le_self _ _
    omega
  obtain ⟨h1, k, h2, h3⟩ := exactIntLoop_spec 20 { m := M / 2 ^ s, e := 0 } hq0 hqlt
  rw [hd] at h1 h2 h3
  simp only at h2 h3
  refine ⟨by omega, by omega, by omega, h1, ?_⟩
  have : d.e.toNat = k := by omega
  rw [this, ← h3, hne]

/-! ## 3e. the rounding interval -/

/-- the fields of a finite float as `Num.decode` reads them; exponents are shifted by 1076 so that everything is a natural
number: `dy.e + 1076` is `2` for subnormals and `exp + 1` otherwise -/
theorem decode_fields' (b : UInt64) (dy : Num.Dyadic) (h : decode b = some dy) :
    b.toNat / 2 ^ 52 % 2048 ≠ 2047 ∧
    dy.m = (if b.toNat / 2 ^ 52 % 2048 = 0 then b.toNat % 2 ^ 52 else b.toNat % 2 ^ 52 + 2 ^ 52) ∧
    dy.e + 1076 = ((if b.toNat / 2 ^ 52 % 2048 = 0 then 2 else b.toNat / 2 ^ 52 % 2048 + 1 : Nat) : Int) := by
  unfold decode at h
  dsimp only at h
  split at h
  · cases h
  rename_i h1
  have h1 : b.toNat / 2 ^ 52 % 2048 ≠ 2047 := by simpa using h1
  split at h
  · rename_i h2
    have h2 : b.toNat / 2 ^ 52 % 2048 = 0 := by simpa using h2
    have := Option.some.inj h; subst this
    refine ⟨h1, ?_, ?_⟩
    · rw [if_pos h2]
    · rw [if_pos h2]; rfl
  · rename_i h2
    have h2 : ¬ b.toNat / 2 ^ 52 % 2048 = 0 := by simpa using h2
    have := Option.some.inj h; subst this
    refine ⟨h1, ?_, ?_⟩
    · rw [if_neg h2]
    · rw [if_neg h2]
      simp only [Int.ofNat_eq_natCast]
      omega

theorem decode_fields (b : UInt64) (dy : Num.Dyadic) (h : decode b = some dy) :
    b.toNat / 2 ^ 52 % 2048 ≠ 2047 ∧
    dy.m = (if b.toNat / 2 ^ 52 % 2048 = 0 then b.toNat % 2 ^ 52 else b.toNat % 2 ^ 52 + 2 ^ 52) ∧
    (dy.e + 1076).toNat = (if b.toNat / 2 ^ 52 % 2048 = 0 then 2 else b.toNat / 2 ^ 52 % 2048 + 1) := by
  obtain ⟨h1, h2, h3⟩ := decode_fields' b dy h
  exact ⟨h1, h2, by rw [h3]; rfl⟩

/-- step 1 of `float64ToDecimal` in the same terms: `m2` is the significand and `e2 + 1076` is `0` for subnormals, `exp − 1` otherwise -/
theorem decodeM2_eq (mant exp : Nat) (hm : mant < 2 ^ 52) :
    decodeM2 mant exp = if exp = 0 then mant else mant + 2 ^ 52 := by
  unfold decodeM2
  by_cases h : exp = 0
  · simp [h]
  · have : (exp == 0) = false := by simp [h]
    rw [this]; simp only [Bool.false_eq_true, if_false, h]
    have h1 : shl64 1 mantBits64 = 2 ^ 52 * 1 := by decide
    rw [h1, ← Nat.two_pow_add_eq_or_of_lt hm 1]; omega

theorem decodeE2_eq (exp : Nat) :
    0 ≤ decodeE2 exp + 1076 ∧ (decodeE2 exp + 1076).toNat = if exp = 0 then 0 else exp - 1 := by
  unfold decodeE2
  have h52 : (mantBits64 : Int) = 52 := rfl
  have hb : (bias64 : Int) = 1023 := rfl
  rw [h52, hb]
  by_cases h : exp = 0
  · simp [h]
  · have : (exp == 0) = false := by simp [h]
    rw [this]; simp only [Bool.false_eq_true, if_false, h]
    omega

/-- `mv`, `mp`, `mm` do not wrap: for a significand `0 < m2 < 2^53` they are `4·m2`, `4·m2 + 2`, `4·m2 − 1 − mmShift` -/
theorem mv_mp_eq (m2 : Nat) (h : m2 < 2 ^ 53) : mvOf m2 = 4 * m2 ∧ mpOf m2 = 4 * m2 + 2 := by
  unfold mvOf mpOf u64
  omega

theorem mm_eq (m2 s : Nat) (h0 : m2 ≠ 0) (h : m2 < 2 ^ 53) (hs : s ≤ 1) : mmOf m2 s = 4 * m2 - 1 - s := by
  unfold mmOf subU64 u64
  omega


/-- `m · 2^e` scaled by `2^1076` (a natural number for every float64 exponent `e ≥ −1076`) -/
def scaled (m : Nat) (e : Int) : Nat := m * 2 ^ (e + 1076).toNat

/-- significand and scaled exponents from the raw fields -/
def sigOf (mant exp : Nat) : Nat := if exp = 0 then mant else mant + 2 ^ 52
def e2Of (exp : Nat) : Nat := if exp = 0 then 0 else exp - 1
def eOf (exp : Nat) : Nat := if exp = 0 then 2 else exp + 1

theorem eOf_eq (exp : Nat) : eOf exp = e2Of exp + 2 := by
  unfold eOf e2Of; split <;> omega

theorem fields_value (M E : Nat) : 4 * M * 2 ^ E = M * 2 ^ (E + 2) := by
  rw [Nat.pow_add, Nat.mul_comm 4 M, Nat.mul_assoc, Nat.mul_comm 4]

/-- upper midpoint, same binade: `2·(4M+2)·2^E = M·2^(E+2) + (M+1)·2^(E+2)` -/
theorem fields_upper (M E : Nat) : 2 * ((4 * M + 2) * 2 ^ E) = M * 2 ^ (E + 2) + (M + 1) * 2 ^ (E + 2) := by
  rw [Nat.pow_add]
  generalize 2 ^ E = P
  show 2 * ((4 * M + 2) * P) = M * (P * 4) + (M + 1) * (P * 4)
  rw [Nat.add_mul, Nat.add_mul, Nat.mul_assoc 4 M P, ← Nat.mul_assoc M P 4]
  generalize M * P = X
  omega

/-- lower midpoint, same binade: `2·(4M−2)·2^E = M·2^(E+2) + (M−1)·2^(E+2)` -/
theorem fields_lower (M E : Nat) (h : 1 ≤ M) : 2 * ((4 * M - 1 - 1) * 2 ^ E) = M * 2 ^ (E + 2) + (M - 1) * 2 ^ (E + 2) := by
  obtain ⟨K, rfl⟩ : ∃ K, M = K + 1 := ⟨M - 1, by omega⟩
  rw [show 4 * (K + 1) - 1 - 1 = 4 * K + 2 by omega, show K + 1 - 1 = K by omega, Nat.add_comm (_ * _) (K * _)]
  exact fields_upper K E


/-- the raw fields as `AppendFloat64f` extracts them: `mant := u & (1<<52 - 1)`, `exp := (u >> 52) & (1<<11 - 1)` -/
def mantOf (b : UInt64) : Nat := b.toNat % 2 ^ 52
def expOf (b : UInt64) : Nat := b.toNat / 2 ^ 52 % 2048

/-- `Num.decode` and step 1 of `float64ToDecimal` read the same float: same significand, `e2 = e − 2` -/
theorem bridge (b : UInt64) (dy : Num.Dyadic) (h : decode b = some dy) :
    expOf b ≠ 2047 ∧ dy.m = sigOf (mantOf b) (expOf b) ∧ (dy.e + 1076).toNat = eOf (expOf b) ∧
    decodeM2 (mantOf b) (expOf b) = sigOf (mantOf b) (expOf b) ∧
    (decodeE2 (expOf b) + 1076).toNat = e2Of (expOf b) ∧ sigOf (mantOf b) (expOf b) < 2 ^ 53 := by
  obtain ⟨h1, h2, h3⟩ := decode_fields b dy h
  have hm : mantOf b < 2 ^ 52 := Nat.mod_lt _ (Nat.two_pow_pos 52)
  refine ⟨h1, h2, h3, decodeM2_eq _ _ hm, (decodeE2_eq _).2, ?_⟩
  unfold sigOf; split <;> omega

/-- 3e. `mv · 2^e2` is the float's value (`m2` its significand, `e2` its exponent minus 2) -/
theorem interval_value (b : UInt64) (dy : Num.Dyadic) (h : decode b = some dy) :
    scaled (mvOf (decodeM2 (mantOf b) (expOf b))) (decodeE2 (expOf b)) = scaled dy.m dy.e := by
  obtain ⟨_, h2, h3, h4, h5, h6⟩ := bridge b dy h
  unfold scaled
  rw [h2, h3, h4, h5, (mv_mp_eq _ h6).1, eOf_eq]
  exact fields_value _ _

/-- 3e. `mp · 2^e2` (`mp = 4·m2 + 2`) is exactly the midpoint between the float and its upper neighbour, the float with
bits + 1 — also across a binade boundary and from the largest subnormal to the smallest normal:
`2 · mp·2^e2 = value(b) + value(b + 1)` (everything scaled by `2^1076`). -/
theorem interval_upper (b : UInt64) (dy dy' : Num.Dyadic) (h : decode b = some dy) (h' : decode (b + 1) = some dy') :
    2 * scaled (mpOf (decodeM2 (mantOf b) (expOf b))) (decodeE2 (expOf b)) = scaled dy.m dy.e + scaled dy'.m dy'.e := by
  obtain ⟨g1, h2, h3, h4, h5, h6⟩ := bridge b dy h
  obtain ⟨g1', h2', h3', _, _, _⟩ := bridge (b + 1) dy' h'
  unfold scaled
  rw [h2, h3, h4, h5, h2', h3', (mv_mp_eq _ h6).2, eOf_eq, eOf_eq]
  have hn : (b + 1).toNat = (b.toNat + 1) % 2 ^ 64 := by rw [UInt64.toNat_add]; rfl
  have hlt := UInt64.toNat_lt b
  unfold mantOf expOf at *
  rw [hn] at g1' ⊢
  generalize b.toNat = n at *
  by_cases hc : n % 2 ^ 52 + 1 < 2 ^ 52
  · -- same binade
    have e1 : (n + 1) % 2 ^ 64 % 2 ^ 52 = n % 2 ^ 52 + 1 := by omega
    have e2 : (n + 1) % 2 ^ 64 / 2 ^ 52 % 2048 = n / 2 ^ 52 % 2048 := by omega
    rw [e1, e2]
    have : sigOf (n % 2 ^ 52 + 1) (n / 2 ^ 52 % 2048) = sigOf (n % 2 ^ 52) (n / 2 ^ 52 % 2048) + 1 := by
      unfold sigOf; split <;> omega
    rw [this]
    exact fields_upper _ _
  · have e1 : (n + 1) % 2 ^ 64 % 2 ^ 52 = 0 := by omega
    have e2 : (n + 1) % 2 ^ 64 / 2 ^ 52 % 2048 = n / 2 ^ 52 % 2048 + 1 := by omega
    have e3 : n % 2 ^ 52 = 2 ^ 52 - 1 := by omega
    rw [e1, e2, e3]
    generalize n / 2 ^ 52 % 2048 = ex at *
    by_cases h0 : ex = 0
    · subst h0
      exact fields_upper (2 ^ 52 - 1) 0
    · obtain ⟨k, rfl⟩ : ∃ k, ex = k + 1 := ⟨ex - 1, by omega⟩
      have s1 : sigOf (2 ^ 52 - 1) (k + 1) = 2 ^ 53 - 1 := by unfold sigOf; simp
      have s2 : sigOf 0 (k + 1 + 1) = 2 ^ 52 := by unfold sigOf; simp
      have s3 : e2Of (k + 1) = k := by unfold e2Of; simp
      have s4 : e2Of (k + 1 + 1) = k + 1 := by unfold e2Of; simp
      rw [s1, s2, s3, s4, fields_upper]
      congr 1
      rw [show k + 1 + 2 = (k + 2) + 1 by omega, Nat.pow_succ _ (k + 2)]
      generalize 2 ^ (k + 2) = P
      omega


theorem mmShiftOf_le (mant exp : Nat) : mmShiftOf mant exp ≤ 1 := by
  unfold mmShiftOf boolToNat; split <;> omega

/-- 3e. `mm · 2^e2` (`mm = 4·m2 − 1 − mmShift`) is exactly the midpoint between the (non-zero) float and its lower neighbour, the
float with bits − 1 — in particular when the float is a power of two (`mant = 0`, `exp > 1`: `mmShift = 0`, the lower neighbour
is half as far away), and from the smallest normal to the largest subnormal (`mant = 0`, `exp = 1`: `mmShift = 1`):
`2 · mm·2^e2 = value(b) + value(b − 1)` (everything scaled by `2^1076`). -/
theorem interval_lower (b : UInt64) (dy dy' : Num.Dyadic) (h : decode b = some dy) (h' : decode (b - 1) = some dy')
    (h0 : dy.m ≠ 0) :
    2 * scaled (mmOf (decodeM2 (mantOf b) (expOf b)) (mmShiftOf (mantOf b) (expOf b))) (decodeE2 (expOf b)) =
      scaled dy.m dy.e + scaled dy'.m dy'.e := by
  obtain ⟨g1, h2, h3, h4, h5, h6⟩ := bridge b dy h
  obtain ⟨g1', h2', h3', _, _, _⟩ := bridge (b - 1) dy' h'
  rw [h2] at h0
  unfold scaled
  rw [h2, h3, h4, h5, h2', h3', mm_eq _ _ h0 h6 (mmShiftOf_le _ _), eOf_eq, eOf_eq]
  have hn : (b - 1).toNat = (2 ^ 64 - 1 + b.toNat) % 2 ^ 64 := by rw [UInt64.toNat_sub]; rfl
  have hlt := UInt64.toNat_lt b
  unfold mantOf expOf at *
  rw [hn] at g1' ⊢
  generalize b.toNat = n at *
  by_cases hc : n % 2 ^ 52 = 0
  · have hex : n / 2 ^ 52 % 2048 ≠ 0 := by
      intro hex; apply h0; unfold sigOf; rw [if_pos hex]; exact hc
    have e1 : (2 ^ 64 - 1 + n) % 2 ^ 64 % 2 ^ 52 = 2 ^ 52 - 1 := by omega
    have e2 : (2 ^ 64 - 1 + n) % 2 ^ 64 / 2 ^ 52 % 2048 = n / 2 ^ 52 % 2048 - 1 := by omega
    rw [e1, e2, hc]
    generalize n / 2 ^ 52 % 2048 = ex at *
    by_cases h1 : ex = 1
    · subst h1
      exact fields_lower (2 ^ 52) 0 (by decide)
    · obtain ⟨k, rfl⟩ : ∃ k, ex = k + 2 := ⟨ex - 2, by omega⟩
      have s0 : mmShiftOf 0 (k + 2) = 0 := by
        unfold mmShiftOf boolToNat
        simp
      have s1 : sigOf 0 (k + 2) = 2 ^ 52 := by unfold sigOf; simp
      have s2 : sigOf (2 ^ 52 - 1) (k + 2 - 1) = 2 ^ 53 - 1 := by unfold sigOf; simp
      have s3 : e2Of (k + 2) = k + 1 := by unfold e2Of; simp
      have s4 : e2Of (k + 2 - 1) = k := by unfold e2Of; simp
      rw [s0, s1, s2, s3, s4]
      have p1 : 2 ^ (k + 1) = 2 ^ k * 2 := Nat.pow_succ _ _
      have p2 : 2 ^ (k + 2) = 2 ^ k * 4 := by rw [Nat.pow_add]
      have p3 : 2 ^ (k + 1 + 2) = 2 ^ k * 8 := by rw [Nat.add_assoc, Nat.pow_add]
      rw [p1, p2, p3]
      generalize 2 ^ k = P
      omega
  · have e1 : (2 ^ 64 - 1 + n) % 2 ^ 64 % 2 ^ 52 = n % 2 ^ 52 - 1 := by omega
    have e2 : (2 ^ 64 - 1 + n) % 2 ^ 64 / 2 ^ 52 % 2048 = n / 2 ^ 52 % 2048 := by omega
    rw [e1, e2]
    have s0 : mmShiftOf (n % 2 ^ 52) (n / 2 ^ 52 % 2048) = 1 := by
      unfold mmShiftOf boolToNat; simp [hc]
    have s1 : sigOf (n % 2 ^ 52 - 1) (n / 2 ^ 52 % 2048) = sigOf (n % 2 ^ 52) (n / 2 ^ 52 % 2048) - 1 := by
      unfold sigOf; split <;> omega
    rw [s0, s1]
    exact fields_lower _ _ (by omega)


/-- 3d, in terms of `Num.decode`: when the fast path answers for the fields of the float `b`, the float's value
`dy.m · 2^dy.e` (`dy.e ≤ 0`) is exactly the integer `d.m · 10^d.e`. -/
theorem exactInt_decode (b : UInt64) (dy : Num.Dyadic) (d : Dec64) (h : decode b = some dy)
    (hx : float64ToDecimalExactInt (mantOf b) (expOf b) = (d, true)) :
    dy.e ≤ 0 ∧ 0 ≤ d.e ∧ d.m % 10 ≠ 0 ∧ dy.m = d.m * 10 ^ d.e.toNat * 2 ^ (-dy.e).toNat := by
  have hm : mantOf b < 2 ^ 52 := Nat.mod_lt _ (Nat.two_pow_pos 52)
  have he : expOf b < 2048 := Nat.mod_lt _ (by decide)
  obtain ⟨x1, x2, x3, x4, x5⟩ := exactInt_spec _ _ d hm he hx
  obtain ⟨h1, h2, h3⟩ := decode_fields' b dy h
  unfold mantOf expOf at *
  have hne : ¬ b.toNat / 2 ^ 52 % 2048 = 0 := by omega
  rw [if_neg hne] at h2 h3
  have : (-dy.e).toNat = 1075 - b.toNat / 2 ^ 52 % 2048 := by omega
  rw [this, h2, Nat.add_comm]
  exact ⟨by omega, x3, x4, x5⟩


end QF.Props.C16Core
