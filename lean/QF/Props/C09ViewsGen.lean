import QF.Props.C09Observe
import QF.Gen.Views
/-!
# C09 — the typed views of today's source hand out the logical cells; `QFrame.Equals` / `QFrame.Len` (tie T1, by semantics)

`QF.Gen.viewCtorAst`, `viewItemAtAst`, `viewLenAst`, `viewSliceAst` (regenerated on every run by
go/cmd/extract/viewast.go) hold, for each of the five column packages, `Column.View`, `View.ItemAt`, `View.Len`,
`View.Slice` as terms of `QF.VwCtor` / `VwItem` / `VwLen` / `VwSlice` (QF/Core/VwExpr.lean); `viewStrPtrAst`,
`viewStrCopyAst`, `viewEnumPtrAst` the helpers `stringToPtr`, `stringCopyAt` of scolumn and `stringPtrAt` of ecolumn. Their
`eval` functions are their Go meaning on a column AS STORED (`VCol`: the cells of all physical rows) and an index. This
file proves, for the terms generated TODAY:

* `gen_views_no_opaque`          — all twenty-three functions were found and translated completely
* `gen_views_canon`              — the terms are the canonical ones (finite check, redone on every run)
* `gen_view_semantics`           — for every column type, every stored column whose cells are of its type and every index
                                   into it: `c.View(ix).ItemAt(i)` is the cell at `ix[i]` (`(c.pick ix)[i]?`: no value — Go
                                   panics — for `i ≥ len(ix)`), `Len()` is `len(ix)`, `Slice()` is all cells the index
                                   selects, in its order; string and enum views hand out `*string`: the cell's string, nil
                                   for null (`Cell.str`) — for enums the string `values[code]`
* `gen_frame_equals_semantics`   — `QFrame.Equals` = the spec's `equalsS` (same length, same names in order, same types,
                                   cell-wise `Column.Equals`) on all pairs of frames whose cells are of their column's type;
                                   a restatement of `C09Observe.gen_equals_eq_spec` as a Boolean (the reason strings are not
                                   modelled)
* `gen_frame_len_semantics`      — `QFrame.Len` is -1 on a frame with an error, else the number of rows
                                   (`C08Guards.gen_len_semantics`)

Trusted (the reading of the leaves in VwExpr.lean): `&s` / `&c.values[v]` point to the string; a `View` literal with the
fields `data` / `column` and `index` holds what it is given.
-/
namespace QF.Props.C09ViewsGen
open QF
open QF.Props.C03Compare (pkgOf tys enum_ok)
open QF.Props.C09Observe (enumStrOf_some canonHelper)

/-! ## Today's views -/

/-- the formatters play no role in the helpers -/
def noFmt : Fmt := ⟨fun _ => [], fun _ => [], fun b => b⟩

/-- a pair helper (`stringAt`, `stringCopyAt`) on a cell of a string column -/
def pairOf (e : RE) (x : Cell) : Option (Bytes × Bool) :=
  match e.eval noFmt .string [] [] [] x with
  | some (.pair b n) => some (b, n)
  | _ => none

/-- what the views call, for given translations of the helpers -/
def envIn (strAt : Option RE) (copy : RE) (toPtr enumPtr : VwPtr) : VwEnv where
  pair := fun cp x => if cp then pairOf copy x else strAt.bind (fun e => pairOf e x)
  toPtr := fun s n => toPtr.eval (some s) (some n) .string [] none
  enumPtr := fun vals x => enumPtr.eval none none .enum vals (some x)

/-- … for today's source (`stringAt` is the helper of C09Observe) -/
def genVwEnv : VwEnv :=
  envIn (Gen.observeHelpers.lookup "scolumn.stringAt") Gen.viewStrCopyAst Gen.viewStrPtrAst Gen.viewEnumPtrAst

/-- the three functions of a package -/
structure Fns where
  ctor : VwCtor
  item : VwItem
  len : VwLen
  slice : VwSlice
  deriving DecidableEq

def fnsIn (cs : List (String × VwCtor)) (is : List (String × VwItem)) (ls : List (String × VwLen))
    (ss : List (String × VwSlice)) (pkg : String) : Option Fns :=
  match cs.lookup pkg, is.lookup pkg, ls.lookup pkg, ss.lookup pkg with
  | some c, some i, some l, some s => some ⟨c, i, l, s⟩
  | _, _, _, _ => none

def genFns (pkg : String) : Option Fns := fnsIn Gen.viewCtorAst Gen.viewItemAtAst Gen.viewLenAst Gen.viewSliceAst pkg

def itemAtIn (E : VwEnv) (F : Option Fns) (c : VCol) (ix : List Nat) (i : Nat) : Option Cell :=
  F.bind (fun F => (F.ctor.eval c ix).bind (fun V => VwItem.eval E F.item V { param := some i } F.item))

def lenIn (F : Option Fns) (c : VCol) (ix : List Nat) : Option Nat :=
  F.bind (fun F => (F.ctor.eval c ix).bind (fun V => F.len.eval V))

def sliceIn (E : VwEnv) (F : Option Fns) (c : VCol) (ix : List Nat) : Option (List Cell) :=
  F.bind (fun F => (F.ctor.eval c ix).bind (fun V => F.slice.eval E F.item F.len V))

/-- `c.View(ix).ItemAt(i)` of today's source (the package of the column's type) -/
def genItemAt (c : VCol) (ix : List Nat) (i : Nat) : Option Cell := itemAtIn genVwEnv (genFns (pkgOf c.ty)) c ix i

/-- `c.View(ix).Len()` -/
def genLen (c : VCol) (ix : List Nat) : Option Nat := lenIn (genFns (pkgOf c.ty)) c ix

/-- `c.View(ix).Slice()` -/
def genSlice (c : VCol) (ix : List Nat) : Option (List Cell) := sliceIn genVwEnv (genFns (pkgOf c.ty)) c ix

/-! ## Canonical terms -/

def canonCtor : CType → VwCtor
  | .int | .float | .bool => .ofData
  | .string | .enum => .ofColumn
  | .undef => .opaque ""

/-- the item at the row `r`: the stored cell; for string and enum columns through the pointer helpers -/
def cellItem (ty : CType) (copy : Bool) (r : VwRow) : VwItem :=
  match ty with
  | .int | .float | .bool => .dataAt r
  | .string => .strPtr copy r
  | .enum => .enumPtr r
  | .undef => .opaque ""

def canonItemAt (ty : CType) : VwItem := cellItem ty false (.indexAt .param)

def canonSlice : CType → VwSlice
  | .enum => .fill .callLen (.itemAt .loopPos)
  | ty => .fill .callLen (cellItem ty true .loopRow)

def canonFns (ty : CType) : Fns := ⟨canonCtor ty, canonItemAt ty, .lenIndex, canonSlice ty⟩

/-- `if isNull { return nil }; return &s` -/
def canonStrPtr : VwPtr := .ite .flagParam .nilPtr .addrStr

/-- `if c.data[i].isNull() { return nil }; return &c.values[c.data[i]]` -/
def canonEnumPtr : VwPtr := .ite .cellIsNull .nilPtr .addrEnumValue

def canonEnv : VwEnv := envIn (some canonHelper) canonHelper canonStrPtr canonEnumPtr

/-! ## Today's terms are the canonical ones (finite checks over `QF.Gen`, redone on every run) -/

theorem gen_views_no_opaque :
    Gen.viewCtorAst.map (·.1) = tys.map pkgOf ∧ Gen.viewItemAtAst.map (·.1) = tys.map pkgOf ∧
    Gen.viewLenAst.map (·.1) = tys.map pkgOf ∧ Gen.viewSliceAst.map (·.1) = tys.map pkgOf ∧
    (∀ p ∈ Gen.viewCtorAst, p.2.hasOpaque = false) ∧ (∀ p ∈ Gen.viewItemAtAst, p.2.hasOpaque = false) ∧
    (∀ p ∈ Gen.viewLenAst, p.2.hasOpaque = false) ∧ (∀ p ∈ Gen.viewSliceAst, p.2.hasOpaque = false) ∧
    Gen.viewStrPtrAst.hasOpaque = false ∧ Gen.viewStrCopyAst.hasOpaque = false ∧ Gen.viewEnumPtrAst.hasOpaque = false := by
  decide

theorem gen_views_canon :
    (∀ ty ∈ tys, Gen.viewCtorAst.lookup (pkgOf ty) = some (canonCtor ty)) ∧
    (∀ ty ∈ tys, Gen.viewItemAtAst.lookup (pkgOf ty) = some (canonItemAt ty)) ∧
    (∀ ty ∈ tys, Gen.viewLenAst.lookup (pkgOf ty) = some .lenIndex) ∧
    (∀ ty ∈ tys, Gen.viewSliceAst.lookup (pkgOf ty) = some (canonSlice ty)) ∧
    Gen.viewStrPtrAst = canonStrPtr ∧ Gen.viewStrCopyAst = canonHelper ∧ Gen.viewEnumPtrAst = canonEnumPtr ∧
    Gen.observeHelpers.lookup "scolumn.stringAt" = some canonHelper := by
  decide

/-- "today's terms are the canonical ones", as the headline theorems check it (each by its own `decide` over today's
`QF.Gen`, so that a changed source is reported at the statement it invalidates) -/
def GenCanon : Prop :=
  (∀ ty ∈ tys, genFns (pkgOf ty) = some (canonFns ty)) ∧
  Gen.viewStrPtrAst = canonStrPtr ∧ Gen.viewStrCopyAst = canonHelper ∧ Gen.viewEnumPtrAst = canonEnumPtr ∧
  Gen.observeHelpers.lookup "scolumn.stringAt" = some canonHelper

theorem genVwEnv_canon (h : GenCanon) : genVwEnv = canonEnv := by
  unfold genVwEnv canonEnv
  rw [h.2.1, h.2.2.1, h.2.2.2.1, h.2.2.2.2]

/-! ## The meaning of the canonical helpers -/

theorem canon_pair (cp : Bool) (s : Option Bytes) : canonEnv.pair cp (.str s) = some (s.getD [], s.isNone) := by
  cases cp <;> cases s <;>
    simp [canonEnv, envIn, pairOf, canonHelper, RE.eval, RTest.eval, nullOf, rawOf, RV.str?]

theorem canon_toPtr (s : Bytes) (n : Bool) : canonEnv.toPtr s n = some (if n then none else some s) := by
  cases n <;> simp [canonEnv, envIn, canonStrPtr, VwPtr.eval, VwCond.eval]

theorem canon_enumPtr (vals : List Bytes) (s : Option Bytes) (h : wtCell .enum vals (.str s) = true) :
    canonEnv.enumPtr vals (.str s) = some s := by
  rcases s with _ | u
  · simp [canonEnv, envIn, canonEnumPtr, VwPtr.eval, VwCond.eval, nullOf, cellVal, enumNull]
  · obtain ⟨i, hi, hil⟩ := enum_ok h
    have hin : (i == 255) = false := by simp; omega
    have e1 := enumStrOf_some hi hil
    simp [canonEnv, envIn, canonEnumPtr, VwPtr.eval, VwCond.eval, nullOf, cellVal, enumNull, hi, hil, hin, e1]

/-! ## Items -/

/-- the view of a column of type `ty` holds the column's cells — directly or through the column -/
theorem canon_view {ty : CType} (hty : ty ∈ tys) (c : VCol) (hc : c.ty = ty) (ix : List Nat) :
    ∃ V, (canonCtor ty).eval c ix = some V ∧ V.index = ix ∧
      ((ty = .int ∨ ty = .float ∨ ty = .bool) → V.data = some c.data) ∧ ((ty = .string ∨ ty = .enum) → V.col = some c) := by
  cases ty
  · exact ⟨{ data := some c.data, index := ix }, by simp [canonCtor, VwCtor.eval, hc], rfl, fun _ => rfl, fun h => by simp at h⟩
  · exact ⟨{ data := some c.data, index := ix }, by simp [canonCtor, VwCtor.eval, hc], rfl, fun _ => rfl, fun h => by simp at h⟩
  · exact ⟨{ data := some c.data, index := ix }, by simp [canonCtor, VwCtor.eval, hc], rfl, fun _ => rfl, fun h => by simp at h⟩
  · exact ⟨{ col := some c, index := ix }, by simp [canonCtor, VwCtor.eval], rfl, fun h => by simp at h, fun _ => rfl⟩
  · exact ⟨{ col := some c, index := ix }, by simp [canonCtor, VwCtor.eval], rfl, fun h => by simp at h, fun _ => rfl⟩
  · simp [tys] at hty

/-- **The item at a row is the stored cell of that row**: for the three value types the element of the cell slice, for
strings the pointer `stringToPtr` makes of what `stringAt` / `stringCopyAt` return, for enums what `stringPtrAt` returns. -/
theorem cellItem_eval1 {ty : CType} (hty : ty ∈ tys) (c : VCol) (hc : c.ty = ty) (V : VView)
    (hd : (ty = .int ∨ ty = .float ∨ ty = .bool) → V.data = some c.data)
    (hv : (ty = .string ∨ ty = .enum) → V.col = some c)
    (cp : Bool) (r : VwRow) (ctx : VwCtx) (j : Nat) (hr : r.eval V ctx = some j) (x : Cell) (hx : c.data[j]? = some x)
    (hw : wtCell ty c.vals x = true) :
    (cellItem ty cp r).eval1 canonEnv V ctx = some x := by
  cases ty
  · simp [cellItem, VwItem.eval1, hd, hr, hx]
  · simp [cellItem, VwItem.eval1, hd, hr, hx]
  · simp [cellItem, VwItem.eval1, hd, hr, hx]
  · cases x <;> simp [wtCell, cellVal] at hw
    rename_i s
    simp only [cellItem, VwItem.eval1, hv, hr, hx, canon_pair, canon_toPtr, true_or]
    cases s <;> simp
  · rcases x with _ | _ | _ | s
    · simp [wtCell, cellVal] at hw
    · simp [wtCell, cellVal] at hw
    · simp [wtCell, cellVal] at hw
    simp only [cellItem, VwItem.eval1, hv, hr, hx, or_true, canon_enumPtr c.vals s hw, Option.map_some]
  · simp [tys] at hty

/-! ## `ItemAt`, `Len`, `Slice` of the canonical terms -/

/-- the cells of the stored column are of its type, and the index stays inside it -/
structure ColOK (c : VCol) (ix : List Nat) : Prop where
  ty : c.ty ∈ tys
  cells : ∀ j, j < c.data.size → wtCell c.ty c.vals c.data[j]! = true
  index : ∀ j ∈ ix, j < c.data.size

theorem data_get (c : VCol) (j : Nat) (h : j < c.data.size) : c.data[j]? = some c.data[j]! := by
  simp [h]

theorem pick_get (c : VCol) (ix : List Nat) (i : Nat) : (c.pick ix)[i]? = (ix[i]?).map (fun j => c.data[j]!) := by
  simp [VCol.pick]

theorem canon_itemAt (c : VCol) (ix : List Nat) (h : ColOK c ix) (i : Nat) :
    itemAtIn canonEnv (some (canonFns c.ty)) c ix i = (c.pick ix)[i]? := by
  obtain ⟨V, hV, hix, hd, hv⟩ := canon_view h.ty c rfl ix
  have hnot : ∀ t, canonItemAt c.ty = t → VwItem.eval canonEnv (canonItemAt c.ty) V { param := some i } (canonItemAt c.ty)
      = (canonItemAt c.ty).eval1 canonEnv V { param := some i } := by
    intro t _
    have := h.ty
    cases hc : c.ty <;> simp [hc, tys] at this <;> simp [canonItemAt, cellItem, VwItem.eval]
  simp only [itemAtIn, canonFns, Option.bind_some, hV, hnot _ rfl]
  rw [pick_get]
  cases hi : ix[i]? with
  | none =>
    have hr : (VwRow.indexAt .param).eval V { param := some i } = none := by
      simp [VwRow.eval, VwPos.eval, hix, hi]
    have := h.ty
    cases hc : c.ty <;> simp [hc, tys] at this <;> simp [canonItemAt, cellItem, VwItem.eval1, hr]
  | some j =>
    have hj : j < c.data.size := h.index j (List.mem_of_getElem? hi)
    have hr : (VwRow.indexAt .param).eval V { param := some i } = some j := by
      simp [VwRow.eval, VwPos.eval, hix, hi]
    rw [canonItemAt, cellItem_eval1 h.ty c rfl V hd hv false _ _ j hr c.data[j]! (data_get c j hj) (h.cells j hj)]
    rfl

theorem canon_len (c : VCol) (ix : List Nat) (h : ColOK c ix) : lenIn (some (canonFns c.ty)) c ix = some ix.length := by
  obtain ⟨V, hV, hix, _, _⟩ := canon_view h.ty c rfl ix
  simp [lenIn, canonFns, hV, VwLen.eval, hix]

theorem optMap_withPos {α β : Type} (f : Nat × α → Option β) (g : α → β) (full : List α)
    (hf : ∀ i a, full[i]? = some a → f (i, a) = some (g a)) :
    ∀ (l pre : List α), full = pre ++ l → optMap f (withPos pre.length l) = some (l.map g) := by
  intro l
  induction l with
  | nil => intro pre _; rfl
  | cons a as ih =>
    intro pre hsplit
    have h1 : f (pre.length, a) = some (g a) := hf _ _ (by rw [hsplit]; simp)
    have h2 := ih (pre ++ [a]) (by simp [hsplit])
    simp only [List.length_append, List.length_cons, List.length_nil, Nat.zero_add] at h2
    simp [withPos, optMap, h1, h2]

theorem canon_slice (c : VCol) (ix : List Nat) (h : ColOK c ix) :
    sliceIn canonEnv (some (canonFns c.ty)) c ix = some (c.pick ix) := by
  obtain ⟨V, hV, hix, hd, hv⟩ := canon_view h.ty c rfl ix
  -- one round of the loop: position `i`, row `j = ix[i]`
  have hround : ∀ (item : VwItem), (∀ i j, ix[i]? = some j →
        VwItem.eval canonEnv (canonItemAt c.ty) V { loop := some (i, j) } item = some c.data[j]!) →
      (VwSlice.fill .callLen item).eval canonEnv (canonItemAt c.ty) .lenIndex V = some (c.pick ix) := by
    intro item hitem
    have := optMap_withPos (fun p => VwItem.eval canonEnv (canonItemAt c.ty) V { loop := some p } item)
      (fun j => c.data[j]!) ix (fun i j hij => hitem i j hij) ix [] rfl
    simp only [List.length_nil] at this
    simp [VwSlice.eval, VwLenE.eval, VwLen.eval, hix, this, VCol.pick]
  simp only [sliceIn, canonFns, Option.bind_some, hV]
  by_cases he : c.ty = .enum
  · -- `result[i] = v.ItemAt(i)`
    rw [he, canonSlice]
    rw [he] at hround
    apply hround
    intro i j hij
    have hj : j < c.data.size := h.index j (List.mem_of_getElem? hij)
    have hr : (VwRow.indexAt .param).eval V { param := some i } = some j := by
      simp [VwRow.eval, VwPos.eval, hix, hij]
    have hty : (.enum : CType) ∈ tys := by decide
    have hd' : ((CType.enum = .int ∨ CType.enum = .float ∨ CType.enum = .bool) → V.data = some c.data) := fun x => by simp at x
    have hv' : ((CType.enum = .string ∨ CType.enum = .enum) → V.col = some c) := fun _ => hv (Or.inr he)
    have hcell := h.cells j hj
    rw [he] at hcell
    have := cellItem_eval1 hty c he V hd' hv' false _ { param := some i } j hr c.data[j]! (data_get c j hj) hcell
    simp [VwItem.eval, VwPos.eval, canonItemAt, this]
  · have hs : canonSlice c.ty = .fill .callLen (cellItem c.ty true .loopRow) := by
      cases hc : c.ty <;> simp [hc] at he <;> rfl
    rw [hs]
    apply hround
    intro i j hij
    have hj : j < c.data.size := h.index j (List.mem_of_getElem? hij)
    have hr : VwRow.loopRow.eval V { loop := some (i, j) } = some j := rfl
    have := cellItem_eval1 h.ty c rfl V hd hv true _ { loop := some (i, j) } j hr c.data[j]! (data_get c j hj) (h.cells j hj)
    have hne : VwItem.eval canonEnv (canonItemAt c.ty) V { loop := some (i, j) } (cellItem c.ty true .loopRow)
        = (cellItem c.ty true .loopRow).eval1 canonEnv V { loop := some (i, j) } := by
      have := h.ty
      cases hc : c.ty <;> simp [hc, tys] at this <;> simp [hc] at he <;> simp [cellItem, VwItem.eval]
    rw [hne, this]

/-! ## Today's views -/

/-- **The views of today's source hand out the logical cells.** For every column type, every stored column whose cells are
of its type and every index into it:

* `c.View(ix).ItemAt(i)` is the stored cell at `ix[i]` — `(c.pick ix)[i]?`, which has no value (Go panics) for `i ≥ len(ix)`;
* `c.View(ix).Len()` is `len(ix)`;
* `c.View(ix).Slice()` is the list of the stored cells at `ix[0], ix[1], …`.

The items of a string / enum view are `*string` (`Cell.str`): the cell's string, nil for a null cell; for an enum cell the
string is `values[code]` of the column's own value table. -/
theorem gen_view_semantics (c : VCol) (ix : List Nat) (h : ColOK c ix) :
    (∀ i, genItemAt c ix i = (c.pick ix)[i]?) ∧ genLen c ix = some ix.length ∧ genSlice c ix = some (c.pick ix) := by
  have canon : GenCanon := by unfold GenCanon; decide
  have hf := canon.1 c.ty h.ty
  refine ⟨fun i => ?_, ?_, ?_⟩
  · rw [genItemAt, hf, genVwEnv_canon canon]; exact canon_itemAt c ix h i
  · rw [genLen, hf]; exact canon_len c ix h
  · rw [genSlice, hf, genVwEnv_canon canon]; exact canon_slice c ix h

/-- all observations of a view agree: `Slice()` is `ItemAt(0), …, ItemAt(Len()-1)` -/
theorem gen_view_observations_agree (c : VCol) (ix : List Nat) (h : ColOK c ix) :
    ∃ n s, genLen c ix = some n ∧ genSlice c ix = some s ∧ s.length = n ∧ ∀ i, genItemAt c ix i = s[i]? := by
  obtain ⟨h1, h2, h3⟩ := gen_view_semantics c ix h
  exact ⟨ix.length, c.pick ix, h2, h3, by simp [VCol.pick], h1⟩

/-! ## `QFrame.Equals` and `QFrame.Len` -/

open QF.Props.C10Guards (genGuards2 equalsReq) in
/-- what `a.Equals(b)` of today's source answers (its first result): the regenerated shape checks of `QFrame.Equals`
(`Gen.guardAst2`) with the regenerated `Column.Equals` of each column's package (`C09Observe.genDiffers`) -/
def genFrameEquals (a b : LFrame) : Option Bool :=
  match genGuards2 "Equals" (equalsReq a b (C09Observe.genDiffers a b)) with
  | some .retTrue => some true
  | some .retFalse => some false
  | _ => none

/-- **`QFrame.Equals` of today's source is the spec's `equalsS`**: same number of rows, same column names in order, same
column types, and cell-wise `Column.Equals` (NaN = NaN, null = null, −0.0 = +0.0, enums by string) — on ALL pairs of frames
whose cells are of their column's type. (The reason string is not modelled.) -/
theorem gen_frame_equals_semantics (a b : LFrame) (ha : C09Observe.FrameTyped a) (hb : C09Observe.FrameTyped b) :
    genFrameEquals a b = some (equalsS a b) := by
  rw [genFrameEquals, C09Observe.gen_equals_eq_spec a b ha hb]
  cases equalsS a b <;> rfl

/-- **`QFrame.Len` of today's source**: -1 for a frame that carries an error, else `len(index)`. -/
theorem gen_frame_len_semantics (P : VFrame) (hasErr : Bool) :
    C08Guards.genLen { hasErr := hasErr, rows := P.index.length } =
      some (if hasErr then -1 else (P.logical.n : Int)) :=
  C08Guards.gen_len_semantics _

/-! ## Witnesses: the statements tell wrong views apart -/

def wCol : VCol := { name := [97], ty := .int, data := #[.int 10, .int 11, .int 12] }

/-- today's int view on the index [2, 0]: ItemAt(0) is the cell of physical row 2 -/
example : itemAtIn canonEnv (some (canonFns .int)) wCol [2, 0] 0 = some (.int 12) ∧
    sliceIn canonEnv (some (canonFns .int)) wCol [2, 0] = some [.int 12, .int 10] := by
  constructor <;> decide +kernel

/-- a view indexing `data[i]` instead of `data[index[i]]` … -/
def rawItemAt : Fns := ⟨.ofData, .dataAt (.posAsRow .param), .lenIndex, canonSlice .int⟩

/-- … hands out physical row 0 where the logical cell 0 is physical row 2 -/
example : itemAtIn canonEnv (some rawItemAt) wCol [2, 0] 0 = some (.int 10) ∧ (wCol.pick [2, 0])[0]? = some (.int 12) := by
  constructor <;> decide +kernel

/-- `Slice` copying `data[i]` for the positions of the index -/
def rawSlice : Fns := ⟨.ofData, canonItemAt .int, .lenIndex, .fill .callLen (.dataAt (.posAsRow .loopPos))⟩

example : sliceIn canonEnv (some rawSlice) wCol [2, 0] = some [.int 10, .int 11] ∧ wCol.pick [2, 0] = [.int 12, .int 10] := by
  constructor <;> decide +kernel

/-- an enum view that hands out `&values[code]` without the null test has no value (Go panics) on a null cell; today's
view hands out nil -/
def wEnum : VCol := { name := [101], ty := .enum, vals := [[120], [121]], data := #[.str none, .str (some [121])] }

example : (envIn (some canonHelper) canonHelper canonStrPtr .addrEnumValue).enumPtr wEnum.vals (.str none) = none ∧
    itemAtIn canonEnv (some (canonFns .enum)) wEnum [1, 0] 1 = some (.str none) ∧
    itemAtIn canonEnv (some (canonFns .enum)) wEnum [1, 0] 0 = some (.str (some [121])) := by
  refine ⟨?_, ?_, ?_⟩ <;> decide +kernel

/-- a string view that ignores the null flag hands out a pointer to "" for a null cell: null and "" become the same -/
example : (envIn (some canonHelper) canonHelper .addrStr canonEnumPtr).toPtr [] true = some (some []) ∧
    canonEnv.toPtr [] true = some none := by
  constructor <;> decide +kernel

#print axioms gen_views_no_opaque
#print axioms gen_views_canon
#print axioms gen_view_semantics
#print axioms gen_view_observations_agree
#print axioms gen_frame_equals_semantics
#print axioms gen_frame_len_semantics

end QF.Props.C09ViewsGen
