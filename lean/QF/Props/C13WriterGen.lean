import QF.Props.C09Observe
import QF.Spec.Render
import QF.Gen.Writers
/-!
# C13 (C15) — the records today's `QFrame.ToCSV` hands to the csv writer are `C13Write.tocsvRows` (tie T1, by semantics)

`QF.Gen.toCsvAst` (regenerated on every run by go/cmd/extract/wast.go) is the body of `QFrame.ToCSV` after the configuration
is fetched and the frame's error is checked, as a record program `QF.CW` (QF/Core/WExpr.lean): the column selection
(`conf.Columns` resolved through the name map, with its two rejections, or the frame's columns), the names of the selection,
their second resolution through the name map, the csv writer, the header record when `conf.Header`, one record per row with
`col.StringAt(qf.index[i], "")` over the resolved columns, `w.Flush()`, `return w.Error()`. `CW.run` is its Go meaning. This
file proves, for the term generated TODAY:

* `gen_tocsv_no_opaque`, `gen_tocsv_canon` — the function was translated completely and the term is the canonical one
* `gen_tocsv_default`     — no column list: on every frame with distinct column names the records handed to the writer are
                            `C13Write.tocsvRows fmt hdr f` (cut after a failing `w.Write`)
* `gen_tocsv_given`       — a column list of the right length whose names all exist (in particular a permutation of the
                            names): the records are `tocsvRows fmt hdr { f with cols := cs }` for the columns `cs` it names
* `gen_tocsv_reject`      — a list of another length, or with an unknown name: an error, nothing is handed to the writer
* `gen_tocsv_semantics`   — the three cases in terms of the spec's `csvColumns f cols`
* `gen_tocsv_error`       — the final error is the writer's: when no `w.Write` fails the writer is flushed and `w.Error()` is
                            returned; a failing `w.Write` number `k` ends `ToCSV` after `k + 1` records, without `Flush`
* `gen_tocsv_read`        — so `C13Write.tocsv_rows` / `tocsv_read` are statements about the records of today's code.

The cell strings are those of today's `StringAt(·, "")` (`C09Observe.genStringAt`, `gen_stringAt_semantics`).
-/
namespace QF.Props.C13WriterGen
open QF QF.Props.C13Write

/-! ## The canonical program -/

def cellsBody : CW := .recPush (.cellString []) .done

def canonRowBody : CW := .recReset (.forResolved cellsBody (.writeRec .done))

def canonTail3 : CW := .newWriter (.ifHeader (.writeRec .done) (.forRows canonRowBody (.flush .retWriterErr)))

def resolveBody : CW := .colsPush .recLookup .done

def canonTail2 : CW := .colsNew (.forRec resolveBody canonTail3)

def namesBody : CW := .recPush .selName .done

def canonTail : CW := .recNew (.forSel namesBody canonTail2)

def canonGivenBody : CW := .lookupGiven .retErr (.selSet .done) .done

def canonToCSV : CW :=
  .ifGiven (.rejectIfLenNe (.selAlloc (.forGiven canonGivenBody .done))) (.selFrame .done) canonTail

theorem gen_tocsv_no_opaque : Gen.toCsvAst.hasOpaque = false := by decide

theorem gen_tocsv_canon : Gen.toCsvAst = canonToCSV := by decide

/-! ## Generic facts -/

/-- a column found under a name has that name, is a column of the frame, and is found again under its own name -/
theorem find_spec (f : LFrame) (nm : Bytes) (c : LCol) (h : f.find? nm = some c) :
    c ∈ f.cols ∧ c.name = nm ∧ f.find? c.name = some c := by
  unfold LFrame.find? at h
  have hm := List.mem_of_find?_eq_some h
  have hp := List.find?_some h
  have hn : c.name = nm := by simpa using hp
  exact ⟨hm, hn, by rw [hn]; exact h⟩

/-- with distinct names every column is the one its name finds -/
theorem find_of_nodup (cols : List LCol) (hnd : (cols.map (·.name)).Nodup) :
    ∀ c ∈ cols, cols.find? (·.name == c.name) = some c := by
  induction cols with
  | nil => intro c hc; simp at hc
  | cons a as ih =>
    intro c hc
    simp only [List.map_cons, List.nodup_cons] at hnd
    simp only [List.mem_cons] at hc
    rcases hc with rfl | hc
    · simp [List.find?]
    · have hne : a.name ≠ c.name := by
        intro e
        apply hnd.1
        rw [e]
        exact List.mem_map_of_mem hc
      have : (a.name == c.name) = false := by simpa using hne
      simp only [List.find?, this]
      exact ih hnd.2 c hc

/-! ## The loops of the canonical program, once and for all -/

section loops
variable (E : CWEnv) (c : CWCtx)

/-- `for _, s := range sel { rec = append(rec, s.name) }` -/
theorem loop_names : ∀ (l : List (Option LCol)) (j : Nat) (sel : List (Option LCol)) (r : List Bytes)
    (cl : List (Option LCol)) (wr : Bool) (rc : List (List Bytes)) (fl : Bool),
    loopIdx (fun _ s σ => namesBody.run E { c with s := some s } σ) (fun σ => σ.ret.isSome) j l
        { sel := sel, recd := r, cols := cl, writer := wr, recs := rc, flushed := fl, ret := none }
      = some { sel := sel, recd := r ++ l.map (fun s => (s.map (·.name)).getD []), cols := cl, writer := wr, recs := rc,
               flushed := fl, ret := none } := by
  intro l
  induction l with
  | nil => intro j sel r cl wr rc fl; simp [loopIdx]
  | cons s l ih =>
    intro j sel r cl wr rc fl
    have hstep : namesBody.run E { c with s := some s }
          { sel := sel, recd := r, cols := cl, writer := wr, recs := rc, flushed := fl, ret := none }
        = some { sel := sel, recd := r ++ [(s.map (·.name)).getD []], cols := cl, writer := wr, recs := rc, flushed := fl,
                 ret := none } := by
      simp [namesBody, CW.run]
    rw [loopIdx]
    simp only [Option.isSome_none, Bool.false_eq_true, if_false, hstep, Option.bind_some]
    rw [ih]
    simp

/-- `for _, name := range rec { cols = append(cols, qf.columnsByName[name]) }` -/
theorem loop_resolve : ∀ (l : List Bytes) (j : Nat) (sel : List (Option LCol)) (r : List Bytes)
    (cl : List (Option LCol)) (wr : Bool) (rc : List (List Bytes)) (fl : Bool),
    loopIdx (fun _ nm σ => resolveBody.run E { c with nm := some nm } σ) (fun σ => σ.ret.isSome) j l
        { sel := sel, recd := r, cols := cl, writer := wr, recs := rc, flushed := fl, ret := none }
      = some { sel := sel, recd := r, cols := cl ++ l.map E.f.find?, writer := wr, recs := rc, flushed := fl, ret := none } := by
  intro l
  induction l with
  | nil => intro j sel r cl wr rc fl; simp [loopIdx]
  | cons s l ih =>
    intro j sel r cl wr rc fl
    have hstep : resolveBody.run E { c with nm := some s }
          { sel := sel, recd := r, cols := cl, writer := wr, recs := rc, flushed := fl, ret := none }
        = some { sel := sel, recd := r, cols := cl ++ [E.f.find? s], writer := wr, recs := rc, flushed := fl,
                 ret := none } := by
      simp [resolveBody, CW.run]
    rw [loopIdx]
    simp only [Option.isSome_none, Bool.false_eq_true, if_false, hstep, Option.bind_some]
    rw [ih]
    simp

/-- `for _, col := range cols { rec = append(rec, col.StringAt(qf.index[i], "")) }` -/
theorem loop_cells (fmt : UInt64 → Bytes) (i : Nat) : ∀ (cs : List LCol) (j : Nat) (sel : List (Option LCol)) (r : List Bytes)
    (cl : List (Option LCol)) (wr : Bool) (rc : List (List Bytes)) (fl : Bool),
    (∀ x ∈ cs, E.strAt x [] x.cells[i]! = some (cellString fmt x.cells[i]!)) →
    loopIdx (fun _ col σ => cellsBody.run E { c with row := some i, col := some col } σ)
        (fun σ => σ.ret.isSome) j (cs.map some)
        { sel := sel, recd := r, cols := cl, writer := wr, recs := rc, flushed := fl, ret := none }
      = some { sel := sel, recd := r ++ cs.map (fun x => cellString fmt x.cells[i]!), cols := cl, writer := wr, recs := rc,
               flushed := fl, ret := none } := by
  intro cs
  induction cs with
  | nil => intro j sel r cl wr rc fl _; simp [loopIdx]
  | cons x cs ih =>
    intro j sel r cl wr rc fl h
    have hstep : cellsBody.run E { c with row := some i, col := some (some x) }
          { sel := sel, recd := r, cols := cl, writer := wr, recs := rc, flushed := fl, ret := none }
        = some { sel := sel, recd := r ++ [cellString fmt x.cells[i]!], cols := cl, writer := wr, recs := rc, flushed := fl,
                 ret := none } := by
      simp [cellsBody, CW.run, h x (by simp)]
    rw [List.map_cons, loopIdx]
    simp only [Option.isSome_none, Bool.false_eq_true, if_false, hstep, Option.bind_some]
    rw [ih _ _ _ _ _ _ _ (fun y hy => h y (by simp [hy]))]
    simp

end loops

/-- the record of row `i` over the columns `cs` -/
def recOf (fmt : UInt64 → Bytes) (cs : List LCol) (i : Nat) : List Bytes := cs.map (fun x => cellString fmt x.cells[i]!)

theorem canon_row (E : CWEnv) (c : CWCtx) (fmt : UInt64 → Bytes) (cs : List LCol) (i : Nat)
    (h : ∀ x ∈ cs, E.strAt x [] x.cells[i]! = some (cellString fmt x.cells[i]!))
    (sel : List (Option LCol)) (r : List Bytes) (rc : List (List Bytes)) (fl : Bool) :
    canonRowBody.run E { c with row := some i }
        { sel := sel, recd := r, cols := cs.map some, writer := true, recs := rc, flushed := fl, ret := none }
      = some { sel := sel, recd := recOf fmt cs i, cols := cs.map some, writer := true, recs := rc ++ [recOf fmt cs i],
               flushed := fl, ret := if E.wfail rc.length then some .writeErr else none } := by
  simp only [canonRowBody, CW.run]
  rw [loop_cells E c fmt i cs 0 sel [] (cs.map some) true rc fl h]
  by_cases hf : E.wfail rc.length = true <;> simp [hf, recOf]

theorem canon_rows (E : CWEnv) (c : CWCtx) (fmt : UInt64 → Bytes) (cs : List LCol) (sel : List (Option LCol)) (fl : Bool) :
    ∀ (rs : List Nat) (j : Nat) (r : List Bytes) (rc : List (List Bytes)),
    (∀ i ∈ rs, ∀ x ∈ cs, E.strAt x [] x.cells[i]! = some (cellString fmt x.cells[i]!)) →
    ∃ r', loopIdx (fun _ i σ => canonRowBody.run E { c with row := some i } σ) (fun σ => σ.ret.isSome) j rs
        { sel := sel, recd := r, cols := cs.map some, writer := true, recs := rc, flushed := fl, ret := none }
      = some { sel := sel, recd := r', cols := cs.map some, writer := true,
               recs := rc ++ (cutWrites E.wfail rc.length (rs.map (recOf fmt cs))).1, flushed := fl,
               ret := if (cutWrites E.wfail rc.length (rs.map (recOf fmt cs))).2 then some .writeErr else none } := by
  intro rs
  induction rs with
  | nil => intro j r rc _; exact ⟨r, by simp [loopIdx, cutWrites]⟩
  | cons i rs ih =>
    intro j r rc h
    rw [loopIdx]
    simp only [Option.isSome_none, Bool.false_eq_true, if_false]
    rw [canon_row E c fmt cs i (h i (by simp))]
    simp only [Option.bind_some, List.map_cons, cutWrites]
    by_cases hf : E.wfail rc.length = true
    · simp only [hf, if_true]
      exact ⟨recOf fmt cs i, by rw [loopIdx_stop _ _ _ _ _ rfl]⟩
    · simp only [hf, Bool.false_eq_true, if_false]
      obtain ⟨r', h1⟩ := ih (j + 1) (recOf fmt cs i) (rc ++ [recOf fmt cs i]) (fun x hx => h x (by simp [hx]))
      refine ⟨r', ?_⟩
      rw [h1]
      simp

/-- what the caller sees when the records `rows` are handed to the writer one by one: the records up to the first failing
`Write`; the writer is flushed iff none failed; the error is the failing `Write`'s, else `w.Error()` -/
def csvResult (E : CWEnv) (rows : List (List Bytes)) : List (List Bytes) × Bool × CWRet :=
  ((cutWrites E.wfail 0 rows).1, !(cutWrites E.wfail 0 rows).2,
    if (cutWrites E.wfail 0 rows).2 then .writeErr else if E.ferr then .writerErr else .nil)

/-- the records for the selection `cs` -/
def rowsOf (fmt : UInt64 → Bytes) (hdr : Bool) (cs : List LCol) (n : Nat) : List (List Bytes) :=
  (if hdr then [cs.map (·.name)] else []) ++ (List.range n).map (recOf fmt cs)

theorem rowsOf_eq (fmt : UInt64 → Bytes) (hdr : Bool) (cs : List LCol) (n : Nat) :
    rowsOf fmt hdr cs n = tocsvRows fmt hdr { cols := cs, n := n } := by
  simp [rowsOf, tocsvRows, LFrame.names, LFrame.rows, LFrame.row, recOf, Function.comp_def]

/-- what the caller sees of a final state -/
def out (σ : CWSt) : Option (List (List Bytes) × Bool × CWRet) := σ.ret.map (fun r => (σ.recs, σ.flushed, r))

theorem output_eq (E : CWEnv) (p : CW) : p.output E = (p.run E {} {}).bind out := by
  unfold CW.output out
  cases p.run E {} {} <;> rfl

/-- **Everything after the selection**: with the selection `cs` (every column of which is found under its own name) the
records handed to the writer are the header (if asked for) and one record per row. -/
theorem canon_tail (E : CWEnv) (fmt : UInt64 → Bytes) (cs : List LCol)
    (hres : ∀ x ∈ cs, E.f.find? x.name = some x)
    (hstr : ∀ i, i < E.f.n → ∀ x ∈ cs, E.strAt x [] x.cells[i]! = some (cellString fmt x.cells[i]!))
    (c : CWCtx) (r0 : List Bytes) (c0 : List (Option LCol)) :
    (canonTail.run E c { sel := cs.map some, recd := r0, cols := c0 }).bind out
      = some (csvResult E (rowsOf fmt E.hdr cs E.f.n)) := by
  have hn : (cs.map some).map (fun s => (s.map (·.name)).getD []) = cs.map (·.name) := by
    simp [Function.comp_def]
  have hr : (cs.map (·.name)).map E.f.find? = cs.map some := by
    rw [List.map_map]
    apply List.map_congr_left
    intro x hx
    exact hres x hx
  simp only [canonTail, canonTail2, canonTail3, CW.run]
  rw [loop_names E c (cs.map some) 0 (cs.map some) [] c0 false [] false, hn]
  simp only [Option.isSome_none, Bool.false_eq_true, if_false, List.nil_append]
  rw [loop_resolve E c (cs.map (·.name)) 0 (cs.map some) (cs.map (·.name)) [] false [] false, hr]
  simp only [Option.isSome_none, Bool.false_eq_true, if_false, List.nil_append, if_true]
  have hrows := fun r rc => canon_rows E c fmt cs (cs.map some) false (List.range E.f.n) 0 r rc
    (fun i hi x hx => hstr i (List.mem_range.1 hi) x hx)
  cases hh : E.hdr
  · -- no header
    simp only [Bool.false_eq_true, if_false]
    obtain ⟨r', h1⟩ := hrows (cs.map (·.name)) []
    rw [h1]
    simp only [List.length_nil, List.nil_append, rowsOf, csvResult, Bool.false_eq_true, if_false]
    by_cases hc : (cutWrites E.wfail 0 ((List.range E.f.n).map (recOf fmt cs))).2 = true
    · simp [hc, out]
    · rw [Bool.not_eq_true] at hc
      simp [hc, out]
  · -- the header record first
    simp only [if_true, List.length_nil]
    by_cases h0 : E.wfail 0 = true
    · simp [h0, rowsOf, csvResult, cutWrites, out]
    · rw [Bool.not_eq_true] at h0
      simp only [h0, Bool.false_eq_true, if_false, Option.isSome_none]
      obtain ⟨r', h1⟩ := hrows (cs.map (·.name)) [cs.map (·.name)]
      rw [h1]
      simp only [List.length_cons, List.length_nil, Nat.zero_add, rowsOf, csvResult, if_true, List.cons_append,
        List.nil_append, cutWrites, h0, Bool.false_eq_true, if_false]
      by_cases hc : (cutWrites E.wfail 1 ((List.range E.f.n).map (recOf fmt cs))).2 = true
      · simp [hc, out]
      · rw [Bool.not_eq_true] at hc
        simp [hc, out]

/-! ## The selection -/

/-- `for i := range conf.Columns { … iterCols[i] = col }`, every name found: the selection is filled from the left -/
theorem given_ok (E : CWEnv) (c : CWCtx) : ∀ (rest : List Bytes) (cs' done : List LCol) (r : List Bytes)
    (cl : List (Option LCol)), optMap E.f.find? rest = some cs' →
    loopIdx (fun i nm σ => canonGivenBody.run E { c with g := some (i, nm) } σ) (fun σ => σ.ret.isSome) done.length rest
        { sel := done.map some ++ List.replicate rest.length none, recd := r, cols := cl }
      = some { sel := (done ++ cs').map some, recd := r, cols := cl } := by
  intro rest
  induction rest with
  | nil =>
    intro cs' done r cl h
    simp [optMap] at h
    subst h
    simp [loopIdx]
  | cons nm rest ih =>
    intro cs' done r cl h
    rw [optMap] at h
    cases hf : E.f.find? nm with
    | none => simp [hf] at h
    | some x =>
      cases hs : optMap E.f.find? rest with
      | none => simp [hf, hs] at h
      | some xs =>
        simp [hf, hs] at h
        subst h
        rw [loopIdx]
        have hlt : done.length < (done.map some ++ List.replicate (nm :: rest).length (none : Option LCol)).length := by
          simp
        have hset : (done.map some ++ List.replicate (nm :: rest).length (none : Option LCol)).set done.length (some x)
            = (done ++ [x]).map some ++ List.replicate rest.length none := by
          simp [List.replicate_succ]
        have hstep : canonGivenBody.run E { c with g := some (done.length, nm) }
              { sel := done.map some ++ List.replicate (nm :: rest).length none, recd := r, cols := cl }
            = some { sel := (done ++ [x]).map some ++ List.replicate rest.length none, recd := r, cols := cl } := by
          simp only [canonGivenBody, CW.run, hf, hlt, if_true, hset]
          rfl
        simp only [Option.isSome_none, Bool.false_eq_true, if_false, hstep, Option.bind_some]
        have := ih xs (done ++ [x]) r cl hs
        simp only [List.length_append, List.length_cons, List.length_nil, Nat.zero_add] at this
        rw [this]
        simp

/-- … a name that is not found: `ToCSV` returns its error; nothing has been handed to a writer -/
theorem given_unknown (E : CWEnv) (c : CWCtx) : ∀ (rest : List Bytes) (j : Nat) (sel : List (Option LCol)) (r : List Bytes)
    (cl : List (Option LCol)), optMap E.f.find? rest = none → rest.length + j ≤ sel.length →
    ∃ sel', loopIdx (fun i nm σ => canonGivenBody.run E { c with g := some (i, nm) } σ) (fun σ => σ.ret.isSome) j rest
        { sel := sel, recd := r, cols := cl }
      = some { sel := sel', recd := r, cols := cl, ret := some .reject } := by
  intro rest
  induction rest with
  | nil => intro j sel r cl h; simp [optMap] at h
  | cons nm rest ih =>
    intro j sel r cl h hl
    rw [loopIdx]
    cases hf : E.f.find? nm with
    | none =>
      refine ⟨sel, ?_⟩
      have hstep : canonGivenBody.run E { c with g := some (j, nm) } { sel := sel, recd := r, cols := cl }
          = some { sel := sel, recd := r, cols := cl, ret := some .reject } := by
        simp only [canonGivenBody, CW.run, hf]
        rfl
      simp only [Option.isSome_none, Bool.false_eq_true, if_false, hstep, Option.bind_some]
      exact loopIdx_stop _ _ _ _ _ rfl
    | some x =>
      have hs : optMap E.f.find? rest = none := by
        rw [optMap, hf] at h
        cases hs : optMap E.f.find? rest with
        | none => rfl
        | some xs => simp [hs] at h
      have hlt : j < sel.length := by simp at hl; omega
      have hstep : canonGivenBody.run E { c with g := some (j, nm) } { sel := sel, recd := r, cols := cl }
          = some { sel := sel.set j (some x), recd := r, cols := cl } := by
        simp only [canonGivenBody, CW.run, hf, hlt, if_true]
        rfl
      simp only [Option.isSome_none, Bool.false_eq_true, if_false, hstep, Option.bind_some]
      exact ih (j + 1) _ r cl hs (by simp at hl ⊢; omega)

/-! ## The canonical program on every request -/

/-- the cell strings are `cellString fmt` on the frame's cells -/
def EnvOK (fmt : UInt64 → Bytes) (E : CWEnv) : Prop :=
  ∀ x ∈ E.f.cols, ∀ i, i < E.f.n → E.strAt x [] x.cells[i]! = some (cellString fmt x.cells[i]!)

theorem canon_default (E : CWEnv) (fmt : UInt64 → Bytes) (hE : EnvOK fmt E) (hg : E.given = none)
    (hnd : E.f.names.Nodup) :
    canonToCSV.output E = some (csvResult E (tocsvRows fmt E.hdr E.f)) := by
  have h1 := canon_tail E fmt E.f.cols (find_of_nodup E.f.cols hnd) (fun i hi x hx => hE x hx i hi) {} [] []
  rw [output_eq]
  unfold canonToCSV
  simp only [CW.run, hg, Option.isSome_none, Bool.false_eq_true, if_false]
  rw [h1, rowsOf_eq]

theorem canon_given (E : CWEnv) (fmt : UInt64 → Bytes) (hE : EnvOK fmt E) (g : List Bytes) (cs : List LCol)
    (hg : E.given = some g) (hl : g.length = E.f.cols.length) (hcs : optMap E.f.find? g = some cs) :
    canonToCSV.output E = some (csvResult E (tocsvRows fmt E.hdr { cols := cs, n := E.f.n })) := by
  obtain ⟨hlen, hmem⟩ := optMap_mem _ _ _ hcs
  have hfind : ∀ x ∈ cs, x ∈ E.f.cols ∧ E.f.find? x.name = some x := by
    intro x hx
    obtain ⟨nm, _, e⟩ := hmem x hx
    exact ⟨(find_spec E.f nm x e).1, (find_spec E.f nm x e).2.2⟩
  have h1 := canon_tail E fmt cs (fun x hx => (hfind x hx).2) (fun i hi x hx => hE x (hfind x hx).1 i hi) {} [] []
  have hsel := given_ok E {} g cs [] [] [] hcs
  simp only [List.map_nil, List.nil_append, List.length_nil] at hsel
  rw [output_eq]
  unfold canonToCSV
  simp only [CW.run, hg, Option.isSome_some, if_true, hl, ne_eq, not_true_eq_false, if_false, Option.getD_some]
  rw [← hl, hsel]
  simp only [Option.isSome_none, Bool.false_eq_true, if_false]
  rw [h1, rowsOf_eq]

theorem canon_reject_len (E : CWEnv) (g : List Bytes) (hg : E.given = some g) (hl : g.length ≠ E.f.cols.length) :
    canonToCSV.output E = some ([], false, .reject) := by
  unfold CW.output canonToCSV
  simp [CW.run, hg, hl]

theorem canon_reject_unknown (E : CWEnv) (g : List Bytes) (hg : E.given = some g) (hl : g.length = E.f.cols.length)
    (hcs : optMap E.f.find? g = none) :
    canonToCSV.output E = some ([], false, .reject) := by
  obtain ⟨sel', h⟩ := given_unknown E {} g 0 (List.replicate E.f.cols.length none) [] [] hcs (by simp [hl])
  unfold CW.output canonToCSV
  simp only [CW.run, hg, Option.isSome_some, if_true, hl, ne_eq, not_true_eq_false, if_false, Option.getD_some]
  rw [h]
  simp

/-! ## Today's `ToCSV` -/

/-- the environment of today's source: a cell string is what today's extracted `StringAt` of the column's package returns
(`fmt` = `strconv.FormatFloat(·, 'f', -1, 64)`) -/
def genEnv (fmt : UInt64 → Bytes) (f : LFrame) (given : Option (List Bytes)) (hdr : Bool) (wfail : Nat → Bool) (ferr : Bool) :
    CWEnv where
  f := f
  given := given
  hdr := hdr
  strAt := fun c naRep x =>
    match C09Observe.genStringAt ⟨fmt, fmt, C14.appendQuoted⟩ c.ty c.vals naRep [] x with
    | some (.str b) => some b
    | _ => none
  wfail := wfail
  ferr := ferr

/-- what a caller of today's `ToCSV` sees: the records handed to `csv.Writer.Write`, whether `Flush` was called, the return -/
def genToCSV (fmt : UInt64 → Bytes) (f : LFrame) (given : Option (List Bytes)) (hdr : Bool) (wfail : Nat → Bool)
    (ferr : Bool) : Option (List (List Bytes) × Bool × CWRet) :=
  Gen.toCsvAst.output (genEnv fmt f given hdr wfail ferr)

theorem genEnv_ok (fmt : UInt64 → Bytes) (f : LFrame) (given : Option (List Bytes)) (hdr : Bool) (wfail : Nat → Bool)
    (ferr : Bool) (hf : C09Observe.FrameTyped f) : EnvOK fmt (genEnv fmt f given hdr wfail ferr) := by
  intro x hx i hi
  have ht := hf x hx
  simp only [genEnv]
  rw [C09Observe.gen_stringAt_semantics ht.1 fmt x.vals _ (ht.2 i hi) fmt C14.appendQuoted []]

/-- the writer does not fail -/
def noFault : Nat → Bool := fun _ => false

theorem csvResult_nofault (E : CWEnv) (h : E.wfail = noFault) (rows : List (List Bytes)) :
    csvResult E rows = (rows, true, if E.ferr then .writerErr else .nil) := by
  have := cutWrites_nofail E.wfail (fun k => by rw [h]; rfl) rows 0
  simp [csvResult, this]

/-- **No column list** (`conf.Columns == nil`): on every frame with distinct column names whose cells are of their column's
type, today's `ToCSV` hands to the csv writer exactly `C13Write.tocsvRows fmt hdr f` — the names if `hdr`, then per row the
strings `StringAt(qf.index[i], "")` of today's column code in column order —, flushes, and returns `w.Error()`. -/
theorem gen_tocsv_default (fmt : UInt64 → Bytes) (f : LFrame) (hf : C09Observe.FrameTyped f) (hnd : f.names.Nodup)
    (hdr ferr : Bool) :
    genToCSV fmt f none hdr noFault ferr = some (tocsvRows fmt hdr f, true, if ferr then .writerErr else .nil) := by
  have canon : Gen.toCsvAst = canonToCSV := by decide
  rw [genToCSV, canon, canon_default _ fmt (genEnv_ok fmt f none hdr noFault ferr hf) rfl hnd, csvResult_nofault _ rfl]
  rfl

/-- **A column list** of the frame's length whose names all exist — in particular a permutation of the column names —:
the records are those of the frame with the columns `cs` the list names, in the list's order. -/
theorem gen_tocsv_given (fmt : UInt64 → Bytes) (f : LFrame) (hf : C09Observe.FrameTyped f) (cols : List Bytes)
    (cs : List LCol) (hl : cols.length = f.cols.length) (hcs : cols.mapM f.find? = some cs) (hdr ferr : Bool) :
    genToCSV fmt f (some cols) hdr noFault ferr =
      some (tocsvRows fmt hdr { f with cols := cs }, true, if ferr then .writerErr else .nil) := by
  have canon : Gen.toCsvAst = canonToCSV := by decide
  rw [← optMap_eq_mapM] at hcs
  rw [genToCSV, canon, canon_given _ fmt (genEnv_ok fmt f _ hdr noFault ferr hf) cols cs rfl hl hcs,
    csvResult_nofault _ rfl]
  rfl

/-- **Rejections**: a list of another length, or with a name the frame does not have: `ToCSV` returns its own error and no
record has been handed to a writer. -/
theorem gen_tocsv_reject (fmt : UInt64 → Bytes) (f : LFrame) (cols : List Bytes)
    (h : cols.length ≠ f.cols.length ∨ cols.mapM f.find? = none) (hdr ferr : Bool) (wfail : Nat → Bool) :
    genToCSV fmt f (some cols) hdr wfail ferr = some ([], false, .reject) := by
  have canon : Gen.toCsvAst = canonToCSV := by decide
  rw [genToCSV, canon]
  by_cases hl : cols.length = f.cols.length
  · rcases h with h | h
    · exact absurd hl h
    · rw [← optMap_eq_mapM] at h
      exact canon_reject_unknown _ cols rfl hl h
  · exact canon_reject_len _ cols rfl hl

/-- **Today's `ToCSV` against the spec's column selection** (`csvColumns`; the harness passes nil for an empty list): the
request is rejected iff `csvColumns f cols = none`; otherwise the records handed to the writer are `tocsvRows` of the
frame with the selected columns `cs` (`cs = f.cols` for the default order, the permuted columns for a permutation). -/
theorem gen_tocsv_semantics (fmt : UInt64 → Bytes) (f : LFrame) (hf : C09Observe.FrameTyped f) (hnd : f.names.Nodup)
    (cols : List Bytes) (hdr ferr : Bool) :
    genToCSV fmt f (if cols.isEmpty then none else some cols) hdr noFault ferr =
      match csvColumns f cols with
      | some cs => some (tocsvRows fmt hdr { f with cols := cs }, true, if ferr then .writerErr else .nil)
      | none => some ([], false, .reject) := by
  unfold csvColumns
  cases cols with
  | nil => exact gen_tocsv_default fmt f hf hnd hdr ferr
  | cons a as =>
    simp only [List.isEmpty_cons, Bool.false_eq_true, if_false]
    by_cases hl : (a :: as).length = f.cols.length
    · have : ((a :: as).length != f.cols.length) = false := by simp [hl]
      rw [this]
      simp only [Bool.false_eq_true, if_false]
      cases hcs : (a :: as).mapM f.find? with
      | none => exact gen_tocsv_reject fmt f _ (.inr hcs) hdr ferr _
      | some cs => exact gen_tocsv_given fmt f hf _ cs hl hcs hdr ferr
    · have : ((a :: as).length != f.cols.length) = true := by simpa using hl
      rw [this]
      exact gen_tocsv_reject fmt f _ (.inl hl) hdr ferr _

/-- **The final error is the writer's.** On an accepted request: if `w.Write` number `k` is the first to return an error,
`ToCSV` returns that error after exactly `k + 1` records, without calling `Flush`; if none fails, the writer is flushed and
`w.Error()` is what `ToCSV` returns (nil or not). -/
theorem gen_tocsv_error (fmt : UInt64 → Bytes) (f : LFrame) (hf : C09Observe.FrameTyped f) (hnd : f.names.Nodup)
    (hdr ferr : Bool) (wfail : Nat → Bool) :
    genToCSV fmt f none hdr wfail ferr =
      some ((cutWrites wfail 0 (tocsvRows fmt hdr f)).1, !(cutWrites wfail 0 (tocsvRows fmt hdr f)).2,
        if (cutWrites wfail 0 (tocsvRows fmt hdr f)).2 then .writeErr else if ferr then .writerErr else .nil) := by
  have canon : Gen.toCsvAst = canonToCSV := by decide
  rw [genToCSV, canon, canon_default _ fmt (genEnv_ok fmt f none hdr wfail ferr hf) rfl hnd]
  rfl

/-- **`tocsv_rows` is a statement about today's code**: the bytes Go's csv writer makes of the records today's `ToCSV`
hands to it are read back by the RFC 4180 scanner as exactly these records (frame with at least one column). -/
theorem gen_tocsv_read (fmt : UInt64 → Bytes) (f : LFrame) (hf : C09Observe.FrameTyped f) (hnd : f.names.Nodup)
    (hc : f.cols ≠ []) (hdr : Bool) :
    ∃ recs, genToCSV fmt f none hdr noFault false = some (recs, true, .nil) ∧ rfcParse 44 (csvWrite recs) = recs := by
  refine ⟨tocsvRows fmt hdr f, gen_tocsv_default fmt f hf hnd hdr false, ?_⟩
  exact tocsv_rows fmt hdr f hc

/-! ## Witnesses: the statements tell wrong record programs apart -/

def wFmt : UInt64 → Bytes := fun _ => [48]

/-- the cell strings of the witnesses: `naRep` for a null cell, else `cellString` -/
def wEnv (f : LFrame) (given : Option (List Bytes)) (hdr : Bool) : CWEnv :=
  { f := f, given := given, hdr := hdr, strAt := fun _ naRep x => some (if x.isNull then naRep else cellString wFmt x),
    wfail := fun _ => false, ferr := false }

/-- columns `a` (bool) and `b` (string, second cell null), two rows -/
def wFrame : LFrame :=
  { cols := [{ name := [97], ty := .bool, cells := #[.bool true, .bool false] },
             { name := [98], ty := .string, cells := #[.str (some [120]), .str none] }],
    n := 2 }

/-- the canonical program: header, `true,x`, `false,` — and `b,a` order for the list `[b, a]` -/
example : canonToCSV.output (wEnv wFrame none true) =
      some ([[[97], [98]], [[116, 114, 117, 101], [120]], [[102, 97, 108, 115, 101], []]], true, .nil) ∧
    canonToCSV.output (wEnv wFrame (some [[98], [97]]) false) =
      some ([[[120], [116, 114, 117, 101]], [[], [102, 97, 108, 115, 101]]], true, .nil) ∧
    tocsvRows wFmt true wFrame = [[[97], [98]], [[116, 114, 117, 101], [120]], [[102, 97, 108, 115, 101], []]] := by
  decide

/-- `StringAt(·, "null")` instead of `StringAt(·, "")`: the null cell is written as `null`, not as the empty field
`tocsvRows` has (and `ReadCSV` would read back as null). -/
def naRepNull : CW :=
  .ifGiven (.rejectIfLenNe (.selAlloc (.forGiven canonGivenBody .done))) (.selFrame .done)
    (.recNew (.forSel namesBody (.colsNew (.forRec resolveBody (.newWriter (.ifHeader (.writeRec .done)
      (.forRows (.recReset (.forResolved (.recPush (.cellString [110, 117, 108, 108]) .done) (.writeRec .done)))
        (.flush .retWriterErr))))))))

example : (naRepNull.output (wEnv wFrame none false)).map (·.1) =
      some [[[116, 114, 117, 101], [120]], [[102, 97, 108, 115, 101], [110, 117, 108, 108]]] ∧
    tocsvRows wFmt false wFrame = [[[116, 114, 117, 101], [120]], [[102, 97, 108, 115, 101], []]] := by
  decide

/-- Without `row = row[:0]` every record repeats the ones before it. -/
def noReset : CW :=
  .ifGiven (.rejectIfLenNe (.selAlloc (.forGiven canonGivenBody .done))) (.selFrame .done)
    (.recNew (.forSel namesBody (.colsNew (.forRec resolveBody (.newWriter (.ifHeader (.writeRec .done)
      (.forRows (.forResolved cellsBody (.writeRec .done)) (.flush .retWriterErr))))))))

example : (noReset.output (wEnv wFrame none false)).map (·.1) =
    some [[[97], [98], [116, 114, 117, 101], [120]],
          [[97], [98], [116, 114, 117, 101], [120], [102, 97, 108, 115, 101], []]] := by
  decide

/-- A column list that is ignored (the frame's order is always used) writes `a,b` where `b,a` was asked for. -/
def ignoreGiven : CW := .selFrame canonTail

example : (ignoreGiven.output (wEnv wFrame (some [[98], [97]]) true)).map (fun r => r.1.head?) = some (some [[97], [98]]) ∧
    (tocsvRows wFmt true { wFrame with cols := wFrame.cols.reverse }).head? = some [[98], [97]] := by
  decide

/-- Without `w.Flush()` the caller sees an unflushed writer (the tail of the document is still in its buffer). -/
def noFlush : CW :=
  .ifGiven (.rejectIfLenNe (.selAlloc (.forGiven canonGivenBody .done))) (.selFrame .done)
    (.recNew (.forSel namesBody (.colsNew (.forRec resolveBody (.newWriter (.ifHeader (.writeRec .done)
      (.forRows canonRowBody .retWriterErr)))))))

example : (noFlush.output (wEnv wFrame none true)).map (·.2.1) = some false ∧
    (canonToCSV.output (wEnv wFrame none true)).map (·.2.1) = some true := by
  decide

/-- A `w.Write` that fails (call 1, the first data record): two records were handed over, no `Flush`, its error returned. -/
example : canonToCSV.output { wEnv wFrame none true with wfail := fun k => k == 1 } =
    some ([[[97], [98]], [[116, 114, 117, 101], [120]]], false, .writeErr) := by
  decide

#print axioms gen_tocsv_no_opaque
#print axioms gen_tocsv_canon
#print axioms canon_tail
#print axioms canon_default
#print axioms canon_given
#print axioms gen_tocsv_default
#print axioms gen_tocsv_given
#print axioms gen_tocsv_reject
#print axioms gen_tocsv_semantics
#print axioms gen_tocsv_error
#print axioms gen_tocsv_read

end QF.Props.C13WriterGen
