import QF.Props.C08Guards
import QF.Gen.Project
/-!
# C08 / C01 / C03 / C05 — the index and column-list work of today's `Slice`, `Select`, `Drop`, `Copy`, `Sort`, `Distinct`
(tie T1, by semantics)

`QF.Gen.projectAst`, `QF.Gen.indexAst`, `QF.Gen.frameHelperAst` (regenerated on every run by go/cmd/extract/pxast.go) hold
what the projection and ordering operations of /repo/qframe.go do AFTER their rejecting guards — `qf.index[start:end]`,
the new column list and name map of `Select`, the names `Drop` hands to `Select`, `setColumn` (which `Copy` ends in,
inlined), the copy-then-sort of `Sort`, the fresh index of `Distinct` — and the functions of internal/index (`Int.Copy`,
`Int.Filter`, `NewAscending`, `NewBool`, the two `Len`) and `grouper.Distinct`, as terms of `QF.PF` / `QF.PStm` / `QF.PA`
(QF/Core/PExpr.lean: their Go meaning on a heap of backing arrays with allocation ids, slice headers with offset, length
and capacity, and a log of every write into an array that exists). The guards themselves are `QF.Gen.guardAst`
(QF/Props/C08Guards.lean). This file proves, for the terms generated TODAY:

* `gen_project_no_opaque`   — everything was found and translated completely
* `gen_project_canon`       — the terms are the canonical ones (finite `decide`, redone on every run)
* `gen_project_semantics`   — for EVERY heap, every well-formed physical frame on it (`PWF`: headers inside their arrays,
                              `pos` = place, the name map holds exactly the listed columns under their names, no zero
                              columns, row numbers in range) with pairwise different column names, and every request the
                              guards let through: the term has a value, the LOGICAL frame (`PFrame.abs`: the cells at the
                              index's row numbers, column by column) of the frame it returns is `sliceS` / `selectS` /
                              `dropS` / `copyS` of the logical frame of the receiver, and the result is again well-formed
                              with pairwise different names (`Select`: if the requested names are).
                              `Drop`'s final `qf.Select(<remaining names>...)` is today's WHOLE `Select`: its guard chain
                              from `QF.Gen.guardAst` followed by its work (`genSelect`).
* `gen_project_total`       — guard chain and work together, on ALL arguments (valid or not) of a frame without error:
                              where the spec says `.err` the receiver comes back with an error and unchanged content,
                              otherwise the logical frame of the result is the spec's; `gen_project_sticky`: a frame with
                              an error comes back as it is. (`gen_project_requests`: what the guards see of a physical
                              frame — known names, `Len()` — is what the logical frame has.)
* `gen_sort_semantics`, `gen_distinct_semantics`
                            — `Sort` copies the index (today's `Int.Copy`) and sorts the COPY: the result reads the rows in
                              the order the sorter left them (`Ext.sortFn`, a parameter: that it is a sorted permutation is
                              C03), columns and name map shared; `Distinct` returns a fresh index holding the first row of
                              every occupied entry of the table in TABLE order (`Ext.table`, a parameter: that the table has
                              one entry per key class is C04/C05), whatever capacity `stats.GroupCount` asks for.
* `gen_index_semantics`     — `Int.Copy` returns a NEW array with the receiver's rows, `Int.Filter` a new array with the
                              flagged rows in order (the receiver untouched), `NewAscending(n)` = `0 … n-1`, `NewBool`,
                              the two `Len`.
* `run_persistent`, `gen_project_persistent`
                            — PERSISTENCE (C01) read off the regenerated code. Statically (`PA.ownOnly`, a `decide` over
                              today's terms): the target of every `copy`, store, `append`, in-place sort and map
                              assignment is a slice / map the function made itself, and an index that is returned is the
                              one it made. `run_persistent` turns that, once and for all and for ANY term, heap, receiver
                              and arguments, into: every logged write goes to an array allocated during the run, every
                              array that existed has the same contents afterwards, a returned index is fresh — provided the
                              functions it calls behave so (`LibOK`), which today's do. Hence every earlier frame observes
                              exactly what it observed before (`observation_kept`).
* witnesses                 — `append(qf.columns, …)` onto the shared column list, sorting `qf.index` in place, `Int.Copy`
                              returning its receiver: rejected by the static check AND shown to change an existing array
                              / what the receiver reads on a concrete heap; storing the element in the new map BEFORE
                              `s.pos = i`, keeping the receiver's map in `Select`: the result is not well-formed;
                              `qf.index[start:]`: other rows than `sliceS`; `setColumn` always storing last: no value
                              (Go panics).

OBSERVATION (outside the hypotheses; the hist generator removes repeated names from a `Select` — outside the documented
use): on a frame in which two columns carry the
same name — `Select("a", "a", "b")` builds one, in the code and in the spec — the name map knows only the LAST of them, so
`Copy("a", "b")` replaces only the second `a` while `copyS` (`setCol`) replaces every column of that name; likewise
`Select` / `Drop` fetch the last `a` where the spec finds the first. `dup_names_witness` shows it in the model; the real
code behaves like the model (`New({a:[1,2], b:[3,4]}).Select("a","a","b").Copy("a","b")` → `a=[1,2], a=[3,4], b=[3,4]`).
`UniqueNames` is therefore a hypothesis of `gen_project_semantics`, and it is preserved by every operation.

Method: as in C08Guards / C08Construct. Ints are unbounded here; Go's are 64 bit, which only restricts the requests.
-/
set_option linter.unusedVariables false
namespace QF.Props.C08ProjectGen
open QF

/-! ## Canonical terms -/

def canonHelpers : List (String × PRet) := [
  ("(error) → frame", .frame .recv .recv .recv .param),
  ("(index) → frame", .frame .recv .recv .param .recv)]

def canonSlice : PF := .seq [.ret (.frame .recv .recv (.slice .recv .start .stop) .recv)]

/-- the body of the loop of `Select`: `s := qf.columnsByName[col]; s.pos = i; newColumnsByName[col] = s; newColumns[i] = s` -/
def selectBody : List PL :=
  [.do (.lookup .a .recv .each), .do (.setPos .a .i), .do (.mapPut .new .each (.reg .a)), .do (.colStore .new .i (.reg .a))]

def canonSelect : PF := .seq [
  .retIf (.noNames .requested) .emptyFrame,
  .do .allocMap,
  .do (.allocCols (.countNames .requested)),
  .forEachName .requested selectBody,
  .ret (.frame .new .new .recv .none)]

def dropBody : List PL := [.when (.notRequested (.nameOf .eachCol)) [.pushName (.nameOf .eachCol)]]

def canonDrop : PF := .seq [
  .do .initNames,
  .forEachCol .recv dropBody,
  .ret (.callSelect .kept)]

/-- `setColumn` after the look-up of the destination: new column list of `n` elements and new map, both filled from the
receiver's, the new element (`name`, column `c`, position `pos`) stored in both -/
def setTail (n : PI) (c : PC) (pos : PI) : List PStm := [
  .do (.allocCols n),
  .do .allocMap,
  .do (.copyCols .new .recv),
  .do (.copyMap .new .recv),
  .do (.mapPut .new .dst (.mk .dst c pos)),
  .do (.colStore .new pos (.mk .dst c pos)),
  .ret (.frame .new .new .recv .recv)]

def canonCopy : PF :=
  .fork [.do (.lookup .a .recv .src), .do (.lookup .b .recv .dst)] (.present .b)
    (setTail (.lenCols .recv) (.colOf (.reg .a)) (.posOf (.reg .b)))
    (setTail (.add (.lenCols .recv) (.lit 1)) (.colOf (.reg .a)) (.lenCols .recv))

def canonSetColumn : PF :=
  .fork [.do (.lookup .a .recv .dst)] (.present .a)
    (setTail (.lenCols .recv) .param (.posOf (.reg .a)))
    (setTail (.add (.lenCols .recv) (.lit 1)) .param (.lenCols .recv))

def canonSort : PF := .seq [
  .do (.callIx .copy .recv),
  .do (.sortIx .new),
  .ret (.frame .recv .recv .new .recv)]

def canonDistinct : PF := .seq [
  .do (.callIx .distinct .recv),
  .ret (.frame .recv .recv .new .recv)]

def canonProject : List (String × PF) := [
  ("Slice", canonSlice), ("Select", canonSelect), ("Drop", canonDrop), ("Copy", canonCopy),
  ("setColumn", canonSetColumn), ("Sort", canonSort), ("Distinct", canonDistinct)]

def canonIxCopy : PF := .seq [
  .do (.allocIx (.lenIx .param) (.lenIx .param)),
  .do (.copyIx .new .param),
  .ret (.ix .new)]

def countBody : List PL := [.when .eachBool [.incCount]]
def filterBody : List PL := [.when .eachBool [.appendIx .new (.ixAt .param .i)]]

def canonIxFilter : PF := .seq [
  .do (.setCount 0),
  .forEachBool countBody,
  .do (.allocIx (.lit 0) .count),
  .forEachBool filterBody,
  .ret (.ix .new)]

def ascBody : List PL := [.do (.ixStore .new .i .ofI)]

def canonAscending : PF := .seq [
  .do (.allocIx .size .size),
  .forRangeIx .new ascBody,
  .ret (.ix .new)]

def entryBody : List PL := [.when .occupied [.appendIx .new .firstPos]]

def canonGrouperDistinct : PF := .seq [
  .do (.allocIx (.lit 0) .groupCount),
  .forEachEntry entryBody,
  .ret (.ix .new)]

def canonIndex : List (String × PF) := [
  ("Int.Copy", canonIxCopy), ("Int.Filter", canonIxFilter), ("Int.Len", .seq [.ret (.int (.lenIx .param))]),
  ("NewAscending", canonAscending), ("NewBool", .seq [.ret (.bools .size)]), ("Bool.Len", .seq [.ret (.int .lenBools)]),
  ("grouper.Distinct", canonGrouperDistinct)]

/-! ## Today's terms are the canonical ones (finite checks over `QF.Gen`, redone on every run) -/

theorem gen_project_canon :
    Gen.frameHelperAst = canonHelpers ∧ Gen.projectAst = canonProject ∧ Gen.indexAst = canonIndex := by decide

/-- Everything was found, and no part of it translates to `.opaque`. -/
theorem gen_project_no_opaque :
    Gen.frameHelperAst.map (·.1) = ["(error) → frame", "(index) → frame"] ∧
    Gen.projectAst.map (·.1) = ["Slice", "Select", "Drop", "Copy", "setColumn", "Sort", "Distinct"] ∧
    Gen.indexAst.map (·.1) = ["Int.Copy", "Int.Filter", "Int.Len", "NewAscending", "NewBool", "Bool.Len", "grouper.Distinct"] ∧
    (∀ p ∈ Gen.frameHelperAst, p.2.hasOpaque = false) ∧
    (∀ p ∈ Gen.projectAst, p.2.hasOpaque = false) ∧ (∀ p ∈ Gen.indexAst, p.2.hasOpaque = false) := by
  decide

/-! ## Persistence, read off the term -/

/-- a write goes to an array allocated after the heap `h0` was taken -/
def wrOwn (h0 : Heap) (w : Wr) : Prop :=
  match w.kind with
  | .ix => h0.ixs.length ≤ w.id
  | .cols => h0.colss.length ≤ w.id
  | .map => h0.maps.length ≤ w.id

instance (h0 : Heap) (w : Wr) : Decidable (wrOwn h0 w) := by
  unfold wrOwn; cases w.kind <;> exact inferInstance

/-- every logged write goes to an array that did not exist in `h0` -/
def OwnWrites (h0 : Heap) (w : List Wr) : Prop := ∀ x ∈ w, wrOwn h0 x

/-- every array of `h0` is still there with the same contents -/
structure Unchanged (h0 h : Heap) : Prop where
  ix : ∀ id, id < h0.ixs.length → h.ixs[id]? = h0.ixs[id]?
  cols : ∀ id, id < h0.colss.length → h.colss[id]? = h0.colss[id]?
  maps : ∀ id, id < h0.maps.length → h.maps[id]? = h0.maps[id]?

theorem Unchanged.refl (h : Heap) : Unchanged h h := ⟨fun _ _ => rfl, fun _ _ => rfl, fun _ _ => rfl⟩

theorem lt_len_of_getElem? {α : Type} {l l0 : List α} {id : Nat} (h : l[id]? = l0[id]?) (hid : id < l0.length) :
    id < l.length := by
  rcases Nat.lt_or_ge id l.length with h1 | h1
  · exact h1
  · rw [List.getElem?_eq_none h1, List.getElem?_eq_getElem hid] at h; cases h

theorem Unchanged.len {h0 h : Heap} (u : Unchanged h0 h) :
    h0.ixs.length ≤ h.ixs.length ∧ h0.colss.length ≤ h.colss.length ∧ h0.maps.length ≤ h.maps.length := by
  refine ⟨?_, ?_, ?_⟩
  · rcases Nat.lt_or_ge h.ixs.length h0.ixs.length with h1 | h1
    · have := lt_len_of_getElem? (u.ix _ h1) h1; omega
    · exact h1
  · rcases Nat.lt_or_ge h.colss.length h0.colss.length with h1 | h1
    · have := lt_len_of_getElem? (u.cols _ h1) h1; omega
    · exact h1
  · rcases Nat.lt_or_ge h.maps.length h0.maps.length with h1 | h1
    · have := lt_len_of_getElem? (u.maps _ h1) h1; omega
    · exact h1

theorem Unchanged.trans {h0 h1 h2 : Heap} (a : Unchanged h0 h1) (b : Unchanged h1 h2) : Unchanged h0 h2 := by
  obtain ⟨l1, l2, l3⟩ := a.len
  exact ⟨fun id hid => (b.ix id (by omega)).trans (a.ix id hid),
         fun id hid => (b.cols id (by omega)).trans (a.cols id hid),
         fun id hid => (b.maps id (by omega)).trans (a.maps id hid)⟩

theorem OwnWrites.mono {h0 h1 : Heap} (u : Unchanged h0 h1) {w : List Wr} (o : OwnWrites h1 w) : OwnWrites h0 w := by
  obtain ⟨l1, l2, l3⟩ := u.len
  intro x hx
  have := o x hx
  unfold wrOwn at this ⊢
  cases hk : x.kind <;> rw [hk] at this <;> simp only at this ⊢ <;> omega

/-- what a run guarantees about its outcome: the writes are its own, every array of `h0` is untouched, a returned index is fresh -/
structure Persistent (h0 : Heap) (out : POut) : Prop where
  own : OwnWrites h0 out.2.2
  keep : Unchanged h0 out.2.1
  fresh : ∀ s, out.1 = .ix s → h0.ixs.length ≤ s.id

/-- What is assumed of the functions a body calls: they write only to what they allocate, leave every existing array
alone, and an index they return is freshly allocated. -/
structure LibOK (E : PIn) : Prop where
  ix : ∀ fn s h r h' w, E.callIx fn s h = some (r, h', w) → Persistent h (.ix r, h', w)
  sel : ∀ ns h out, E.callSelect ns h = some out → Persistent h out

/-- the invariant of a run started on heap `h0` -/
structure Inv (h0 : Heap) (σ : PMem) : Prop where
  nIx : ∀ s, σ.nIx = some s → h0.ixs.length ≤ s.id
  nCols : ∀ s, σ.nCols = some s → h0.colss.length ≤ s.id
  nMap : ∀ id, σ.nMap = some id → h0.maps.length ≤ id
  log : OwnWrites h0 σ.log
  keep : Unchanged h0 σ.h

theorem Inv.init (h : Heap) : Inv h { h := h } :=
  ⟨fun _ h => (by cases h), fun _ h => (by cases h), fun _ h => (by cases h), fun _ h => (by cases h), Unchanged.refl h⟩

theorem own_append {h0 : Heap} {a b : List Wr} (ha : OwnWrites h0 a) (hb : OwnWrites h0 b) : OwnWrites h0 (a ++ b) := by
  intro x hx
  rcases List.mem_append.mp hx with h | h
  · exact ha x h
  · exact hb x h

theorem own_single_ix {h0 : Heap} {id : Nat} (h : h0.ixs.length ≤ id) : OwnWrites h0 [⟨.ix, id⟩] := by
  intro x hx; simp only [List.mem_singleton] at hx; subst hx; exact h
theorem own_single_cols {h0 : Heap} {id : Nat} (h : h0.colss.length ≤ id) : OwnWrites h0 [⟨.cols, id⟩] := by
  intro x hx; simp only [List.mem_singleton] at hx; subst hx; exact h
theorem own_single_map {h0 : Heap} {id : Nat} (h : h0.maps.length ≤ id) : OwnWrites h0 [⟨.map, id⟩] := by
  intro x hx; simp only [List.mem_singleton] at hx; subst hx; exact h

theorem keep_setIx {h0 h : Heap} (u : Unchanged h0 h) {id : Nat} (hid : h0.ixs.length ≤ id) (a : List Nat) :
    Unchanged h0 (h.setIx id a) :=
  ⟨fun j hj => by
      show (h.ixs.set id a)[j]? = _
      rw [List.getElem?_set_ne (by omega)]; exact u.ix j hj,
   u.cols, u.maps⟩

theorem keep_setCols {h0 h : Heap} (u : Unchanged h0 h) {id : Nat} (hid : h0.colss.length ≤ id) (a : List NCol) :
    Unchanged h0 (h.setCols id a) :=
  ⟨u.ix, fun j hj => by
      show (h.colss.set id a)[j]? = _
      rw [List.getElem?_set_ne (by omega)]; exact u.cols j hj,
   u.maps⟩

theorem keep_setMap {h0 h : Heap} (u : Unchanged h0 h) {id : Nat} (hid : h0.maps.length ≤ id) (a : List (Bytes × NCol)) :
    Unchanged h0 (h.setMap id a) :=
  ⟨u.ix, u.cols, fun j hj => by
      show (h.maps.set id a)[j]? = _
      rw [List.getElem?_set_ne (by omega)]; exact u.maps j hj⟩

theorem keep_allocIx {h0 h : Heap} (u : Unchanged h0 h) (a : List Nat) :
    Unchanged h0 { h with ixs := h.ixs ++ [a] } :=
  ⟨fun j hj => by
      show (h.ixs ++ [a])[j]? = _
      rw [List.getElem?_append_left (by have := u.len.1; omega)]; exact u.ix j hj,
   u.cols, u.maps⟩

theorem keep_allocCols {h0 h : Heap} (u : Unchanged h0 h) (a : List NCol) :
    Unchanged h0 { h with colss := h.colss ++ [a] } :=
  ⟨u.ix, fun j hj => by
      show (h.colss ++ [a])[j]? = _
      rw [List.getElem?_append_left (by have := u.len.2.1; omega)]; exact u.cols j hj,
   u.maps⟩

theorem keep_allocMap {h0 h : Heap} (u : Unchanged h0 h) (a : List (Bytes × NCol)) :
    Unchanged h0 { h with maps := h.maps ++ [a] } :=
  ⟨u.ix, u.cols, fun j hj => by
      show (h.maps ++ [a])[j]? = _
      rw [List.getElem?_append_left (by have := u.len.2.2; omega)]; exact u.maps j hj⟩


theorem eval_new_ix (E : PIn) (σ : PMem) : PIx.eval E σ .new = σ.nIx := by simp [PIx.eval]
theorem eval_new_cols (E : PIn) (σ : PMem) : PCs.eval E σ .new = σ.nCols := rfl
theorem eval_new_map (E : PIn) (σ : PMem) : PMp.eval E σ .new = σ.nMap := rfl

theorem appendIxTo_inv (h0 : Heap) (σ : PMem) (inv : Inv h0 σ) (s : ISlice) (hs : h0.ixs.length ≤ s.id) (v : Nat) :
    Inv h0 (appendIxTo σ s v) := by
  unfold appendIxTo
  split
  · exact ⟨fun t ht => by simp only [Option.some.injEq] at ht; subst ht; exact hs, inv.nCols, inv.nMap,
      own_append inv.log (own_single_ix hs), keep_setIx inv.keep hs _⟩
  · exact ⟨fun t ht => by simp only [Option.some.injEq] at ht; subst ht; exact inv.keep.len.1, inv.nCols, inv.nMap,
      inv.log, keep_allocIx inv.keep _⟩

theorem appendColTo_inv (h0 : Heap) (σ : PMem) (inv : Inv h0 σ) (s : CSlice) (hs : h0.colss.length ≤ s.id) (v : NCol) :
    Inv h0 (appendColTo σ s v) := by
  unfold appendColTo
  split
  · exact ⟨inv.nIx, fun t ht => by simp only [Option.some.injEq] at ht; subst ht; exact hs, inv.nMap,
      own_append inv.log (own_single_cols hs), keep_setCols inv.keep hs _⟩
  · exact ⟨inv.nIx, fun t ht => by simp only [Option.some.injEq] at ht; subst ht; exact inv.keep.len.2.1, inv.nMap,
      inv.log, keep_allocCols inv.keep _⟩

theorem setReg_inv (h0 : Heap) (σ : PMem) (inv : Inv h0 σ) (r : ERg) (v : NCol) : Inv h0 (σ.setReg r v) := by
  cases r <;> exact ⟨inv.nIx, inv.nCols, inv.nMap, inv.log, inv.keep⟩

theorem bind_inv (h0 : Heap) (σ : PMem) (inv : Inv h0 σ) (r : ERg) (v : Option NCol) : Inv h0 (σ.bind r v) := by
  cases r <;> exact ⟨inv.nIx, inv.nCols, inv.nMap, inv.log, inv.keep⟩

/-- one statement that writes only into the `new` registers keeps the invariant -/
theorem exec_inv (E : PIn) (lib : LibOK E) (h0 : Heap) (a : PA) (ho : a.ownOnly = true) (σ σ' : PMem) (inv : Inv h0 σ)
    (he : a.exec E σ = some σ') : Inv h0 σ' := by
  cases a with
  | allocIx l c =>
    simp only [PA.exec] at he
    split at he
    · split at he
      · cases he
        exact ⟨fun t ht => by simp only [Option.some.injEq] at ht; subst ht; exact inv.keep.len.1, inv.nCols, inv.nMap,
          inv.log, keep_allocIx inv.keep _⟩
      · cases he
    · cases he
  | callIx fn x =>
    simp only [PA.exec] at he
    split at he
    · split at he
      · rename_i s _ r h' w hc
        cases he
        obtain ⟨o, u, fr⟩ := lib.ix _ _ _ _ _ _ hc
        have fr := fr r rfl
        exact ⟨fun t ht => by simp only [Option.some.injEq] at ht; subst ht; have := inv.keep.len.1; omega,
          inv.nCols, inv.nMap, own_append inv.log (o.mono inv.keep), inv.keep.trans u⟩
      · cases he
    · cases he
  | copyIx d s =>
    have hd : d = .new := by simpa [PA.ownOnly] using ho
    subst hd
    simp only [PA.exec, eval_new_ix] at he
    split at he
    · rename_i ds ss h1 h2
      cases he
      have := inv.nIx _ h1
      exact ⟨inv.nIx, inv.nCols, inv.nMap, own_append inv.log (own_single_ix this), keep_setIx inv.keep this _⟩
    · cases he
  | ixStore d k v =>
    have hd : d = .new := by simpa [PA.ownOnly] using ho
    subst hd
    simp only [PA.exec, eval_new_ix] at he
    split at he
    · rename_i ds kk x h1 h2 h3
      split at he
      · cases he
        have := inv.nIx _ h1
        exact ⟨inv.nIx, inv.nCols, inv.nMap, own_append inv.log (own_single_ix this), keep_setIx inv.keep this _⟩
      · cases he
    · cases he
  | appendIx d v =>
    have hd : d = .new := by simpa [PA.ownOnly] using ho
    subst hd
    simp only [PA.exec, eval_new_ix] at he
    split at he
    · rename_i ss x h1 h2
      cases he
      exact appendIxTo_inv h0 σ inv ss (inv.nIx _ h1) x
    · cases he
  | sortIx d =>
    have hd : d = .new := by simpa [PA.ownOnly] using ho
    subst hd
    simp only [PA.exec, eval_new_ix] at he
    split at he
    · rename_i s h1
      cases he
      have := inv.nIx _ h1
      exact ⟨inv.nIx, inv.nCols, inv.nMap, own_append inv.log (own_single_ix this), keep_setIx inv.keep this _⟩
    · cases he
  | allocCols n =>
    simp only [PA.exec] at he
    split at he
    · cases he
      exact ⟨inv.nIx, fun t ht => by simp only [Option.some.injEq] at ht; subst ht; exact inv.keep.len.2.1, inv.nMap,
        inv.log, keep_allocCols inv.keep _⟩
    · cases he
  | copyCols d s =>
    have hd : d = .new := by simpa [PA.ownOnly] using ho
    subst hd
    simp only [PA.exec, eval_new_cols] at he
    split at he
    · rename_i ds ss h1 h2
      cases he
      have := inv.nCols _ h1
      exact ⟨inv.nIx, inv.nCols, inv.nMap, own_append inv.log (own_single_cols this), keep_setCols inv.keep this _⟩
    · cases he
  | colStore d k e =>
    have hd : d = .new := by simpa [PA.ownOnly] using ho
    subst hd
    simp only [PA.exec, eval_new_cols] at he
    split at he
    · rename_i ds kk h1 h2
      split at he
      · cases he
        have := inv.nCols _ h1
        exact ⟨inv.nIx, inv.nCols, inv.nMap, own_append inv.log (own_single_cols this), keep_setCols inv.keep this _⟩
      · cases he
    · cases he
  | appendCol d e =>
    have hd : d = .new := by simpa [PA.ownOnly] using ho
    subst hd
    simp only [PA.exec, eval_new_cols] at he
    split at he
    · rename_i ss h1
      cases he
      exact appendColTo_inv h0 σ inv ss (inv.nCols _ h1) _
    · cases he
  | allocMap =>
    simp only [PA.exec] at he
    cases he
    exact ⟨inv.nIx, inv.nCols, fun t ht => by simp only [Option.some.injEq] at ht; subst ht; exact inv.keep.len.2.2,
      inv.log, keep_allocMap inv.keep _⟩
  | copyMap d s =>
    have hd : d = .new := by simpa [PA.ownOnly] using ho
    subst hd
    simp only [PA.exec, eval_new_map] at he
    split at he
    · rename_i did h1
      cases he
      have := inv.nMap _ h1
      exact ⟨inv.nIx, inv.nCols, inv.nMap, own_append inv.log (own_single_map this), keep_setMap inv.keep this _⟩
    · cases he
  | mapPut d k e =>
    have hd : d = .new := by simpa [PA.ownOnly] using ho
    subst hd
    simp only [PA.exec, eval_new_map] at he
    split at he
    · rename_i did h1
      cases he
      have := inv.nMap _ h1
      exact ⟨inv.nIx, inv.nCols, inv.nMap, own_append inv.log (own_single_map this), keep_setMap inv.keep this _⟩
    · cases he
  | lookup r m k =>
    simp only [PA.exec] at he
    cases he
    exact bind_inv h0 σ inv r _
  | setPos r e =>
    simp only [PA.exec] at he
    split at he
    · cases he; exact setReg_inv h0 σ inv r _
    · cases he
  | initNames => simp only [PA.exec] at he; cases he; exact ⟨inv.nIx, inv.nCols, inv.nMap, inv.log, inv.keep⟩
  | pushName n => simp only [PA.exec] at he; cases he; exact ⟨inv.nIx, inv.nCols, inv.nMap, inv.log, inv.keep⟩
  | setCount n => simp only [PA.exec] at he; cases he; exact ⟨inv.nIx, inv.nCols, inv.nMap, inv.log, inv.keep⟩
  | incCount => simp only [PA.exec] at he; cases he; exact ⟨inv.nIx, inv.nCols, inv.nMap, inv.log, inv.keep⟩
  | «opaque» t => simp only [PA.exec] at he; cases he


theorem execAs_inv (E : PIn) (lib : LibOK E) (h0 : Heap) (as : List PA) (ho : as.all PA.ownOnly = true) (σ σ' : PMem)
    (inv : Inv h0 σ) (he : execAs E as σ = some σ') : Inv h0 σ' := by
  induction as generalizing σ with
  | nil => simp only [execAs] at he; cases he; exact inv
  | cons a as ih =>
    simp only [List.all_cons, Bool.and_eq_true] at ho
    simp only [execAs] at he
    split at he
    · rename_i σ1 h1
      exact ih ho.2 σ1 (exec_inv E lib h0 a ho.1 σ σ1 inv h1) he
    · cases he

theorem execL_inv (E : PIn) (lib : LibOK E) (h0 : Heap) (l : PL) (ho : l.ownOnly = true) (σ σ' : PMem)
    (inv : Inv h0 σ) (he : l.exec E σ = some σ') : Inv h0 σ' := by
  cases l with
  | «do» a => exact exec_inv E lib h0 a ho σ σ' inv he
  | when c as =>
    simp only [PL.exec] at he
    split at he
    · exact execAs_inv E lib h0 as ho σ σ' inv he
    · cases he; exact inv
    · cases he

theorem execLs_inv (E : PIn) (lib : LibOK E) (h0 : Heap) (ls : List PL) (ho : ls.all PL.ownOnly = true) (σ σ' : PMem)
    (inv : Inv h0 σ) (he : execLs E ls σ = some σ') : Inv h0 σ' := by
  induction ls generalizing σ with
  | nil => simp only [execLs] at he; cases he; exact inv
  | cons a as ih =>
    simp only [List.all_cons, Bool.and_eq_true] at ho
    simp only [execLs] at he
    split at he
    · rename_i σ1 h1
      exact ih ho.2 σ1 (execL_inv E lib h0 a ho.1 σ σ1 inv h1) he
    · cases he

theorem loop_inv {α : Type} (body : List PL) (hb : body.all PL.ownOnly = true) (E : PIn)
    (bindv : PIn → Nat → α → PIn) (hlib : ∀ k x, LibOK (bindv E k x)) (h0 : Heap) (xs : List α) (k : Nat)
    (σ σ' : PMem) (inv : Inv h0 σ) (he : loopOver body E bindv xs k σ = some σ') : Inv h0 σ' := by
  induction xs generalizing σ k with
  | nil => simp only [loopOver] at he; cases he; exact inv
  | cons x xs ih =>
    simp only [loopOver] at he
    split at he
    · rename_i σ1 h1
      exact ih (k + 1) σ1 (execLs_inv _ (hlib k x) h0 body hb σ σ1 inv h1) he
    · cases he

theorem lib_bindName {E : PIn} (lib : LibOK E) (k : Nat) (x : Bytes) : LibOK (bindName E k x) := ⟨lib.ix, lib.sel⟩
theorem lib_bindCol {E : PIn} (lib : LibOK E) (k : Nat) (x : NCol) : LibOK (bindCol E k x) := ⟨lib.ix, lib.sel⟩
theorem lib_bindBool {E : PIn} (lib : LibOK E) (k : Nat) (x : Bool) : LibOK (bindBool E k x) := ⟨lib.ix, lib.sel⟩
theorem lib_bindUnit {E : PIn} (lib : LibOK E) (k : Nat) (x : Unit) : LibOK (bindUnit E k x) := ⟨lib.ix, lib.sel⟩
theorem lib_bindEntry {E : PIn} (lib : LibOK E) (k : Nat) (x : Bool × Nat) : LibOK (bindEntry E k x) := ⟨lib.ix, lib.sel⟩

theorem step_inv (E : PIn) (lib : LibOK E) (h0 : Heap) (s : PStm) (ho : s.ownOnly = true) (σ σ' : PMem)
    (inv : Inv h0 σ) (he : s.step E σ = some σ') : Inv h0 σ' := by
  cases s with
  | «do» a => exact exec_inv E lib h0 a ho σ σ' inv he
  | forEachName l body => exact loop_inv body ho E bindName (lib_bindName lib) h0 _ 0 σ σ' inv he
  | forEachCol c body =>
    simp only [PStm.step] at he
    split at he
    · exact loop_inv body ho E bindCol (lib_bindCol lib) h0 _ 0 σ σ' inv he
    · cases he
  | forEachBool body => exact loop_inv body ho E bindBool (lib_bindBool lib) h0 _ 0 σ σ' inv he
  | forRangeIx x body =>
    simp only [PStm.step] at he
    split at he
    · exact loop_inv body ho E bindUnit (lib_bindUnit lib) h0 _ 0 σ σ' inv he
    · cases he
  | forEachEntry body => exact loop_inv body ho E bindEntry (lib_bindEntry lib) h0 _ 0 σ σ' inv he
  | retIf c r => simp only [PStm.step] at he; cases he
  | ret r => simp only [PStm.step] at he; cases he
  | «opaque» t => simp only [PStm.step] at he; cases he

theorem stepSs_inv (E : PIn) (lib : LibOK E) (h0 : Heap) (ss : List PStm) (ho : ss.all PStm.ownOnly = true) (σ σ' : PMem)
    (inv : Inv h0 σ) (he : stepSs E ss σ = some σ') : Inv h0 σ' := by
  induction ss generalizing σ with
  | nil => simp only [stepSs] at he; cases he; exact inv
  | cons a as ih =>
    simp only [List.all_cons, Bool.and_eq_true] at ho
    simp only [stepSs] at he
    split at he
    · rename_i σ1 h1
      exact ih ho.2 σ1 (step_inv E lib h0 a ho.1 σ σ1 inv h1) he
    · cases he

/-- an index that is returned is the `new` one -/
def retNew : PRet → Bool
  | .ix x => x == .new
  | _ => true

def retsNew (ss : List PStm) : Bool := ss.all fun s => match s with
  | .ret r | .retIf _ r => retNew r
  | _ => true

def PFretsNew : PF → Bool
  | .seq ss => retsNew ss
  | .fork _ _ t e => retsNew t && retsNew e
  | .opaque _ => true

theorem ret_inv (E : PIn) (lib : LibOK E) (h0 : Heap) (r : PRet) (hn : retNew r = true) (σ : PMem) (inv : Inv h0 σ)
    (out : POut) (he : r.eval E σ = some out) : Persistent h0 out := by
  cases r with
  | frame c m x e =>
    simp only [PRet.eval] at he
    split at he
    · cases he; exact ⟨inv.log, inv.keep, fun s hs => by cases hs⟩
    · cases he
  | emptyFrame => simp only [PRet.eval] at he; cases he; exact ⟨inv.log, inv.keep, fun s hs => by cases hs⟩
  | ix x =>
    have hx : x = .new := by simpa [retNew] using hn
    subst hx
    simp only [PRet.eval, eval_new_ix] at he
    cases hi : σ.nIx with
    | none => rw [hi] at he; cases he
    | some s0 =>
      rw [hi] at he
      simp only [Option.map_some, Option.some.injEq] at he
      subst he
      exact ⟨inv.log, inv.keep, fun s hs => by cases hs; exact inv.nIx _ hi⟩
  | int e =>
    simp only [PRet.eval] at he
    cases h1 : e.eval E σ with
    | none => rw [h1] at he; cases he
    | some n => rw [h1] at he; cases he; exact ⟨inv.log, inv.keep, fun s hs => by cases hs⟩
  | bools e =>
    simp only [PRet.eval] at he
    cases h1 : e.eval E σ with
    | none => rw [h1] at he; cases he
    | some n => rw [h1] at he; cases he; exact ⟨inv.log, inv.keep, fun s hs => by cases hs⟩
  | callSelect l =>
    simp only [PRet.eval] at he
    split at he
    · rename_i r h' w hc
      cases he
      obtain ⟨o, u, fr⟩ := lib.sel _ _ _ hc
      exact ⟨own_append inv.log (o.mono inv.keep), inv.keep.trans u, fun s hs => by
        have := fr s hs; have := inv.keep.len.1; omega⟩
    · cases he
  | «opaque» t => simp only [PRet.eval] at he; cases he


theorem runSs_inv (E : PIn) (lib : LibOK E) (h0 : Heap) (ss : List PStm) (ho : ss.all PStm.ownOnly = true)
    (hn : retsNew ss = true) (σ : PMem) (inv : Inv h0 σ) (out : POut) (he : runSs E ss σ = some out) :
    Persistent h0 out := by
  induction ss generalizing σ with
  | nil => simp only [runSs] at he; cases he
  | cons s ss ih =>
    simp only [List.all_cons, Bool.and_eq_true] at ho
    simp only [retsNew, List.all_cons, Bool.and_eq_true] at hn
    have hn2 : retsNew ss = true := hn.2
    cases s with
    | ret r => simp only [runSs] at he; exact ret_inv E lib h0 r hn.1 σ inv out he
    | retIf c r =>
      simp only [runSs] at he
      split at he
      · exact ret_inv E lib h0 r hn.1 σ inv out he
      · exact ih ho.2 hn2 σ inv he
      · cases he
    | «opaque» t => simp only [runSs] at he; cases he
    | «do» a =>
      simp only [runSs] at he
      split at he
      · rename_i σ1 h1; exact ih ho.2 hn2 σ1 (step_inv E lib h0 _ ho.1 σ σ1 inv h1) he
      · cases he
    | forEachName l b =>
      simp only [runSs] at he
      split at he
      · rename_i σ1 h1; exact ih ho.2 hn2 σ1 (step_inv E lib h0 _ ho.1 σ σ1 inv h1) he
      · cases he
    | forEachCol l b =>
      simp only [runSs] at he
      split at he
      · rename_i σ1 h1; exact ih ho.2 hn2 σ1 (step_inv E lib h0 _ ho.1 σ σ1 inv h1) he
      · cases he
    | forEachBool b =>
      simp only [runSs] at he
      split at he
      · rename_i σ1 h1; exact ih ho.2 hn2 σ1 (step_inv E lib h0 _ ho.1 σ σ1 inv h1) he
      · cases he
    | forRangeIx x b =>
      simp only [runSs] at he
      split at he
      · rename_i σ1 h1; exact ih ho.2 hn2 σ1 (step_inv E lib h0 _ ho.1 σ σ1 inv h1) he
      · cases he
    | forEachEntry b =>
      simp only [runSs] at he
      split at he
      · rename_i σ1 h1; exact ih ho.2 hn2 σ1 (step_inv E lib h0 _ ho.1 σ σ1 inv h1) he
      · cases he

/-- STATIC PERSISTENCE: a term whose writes all target the `new` registers, run from any heap with any arguments, writes
only to arrays it allocated, leaves every array that existed untouched, and an index it returns is freshly allocated. -/
theorem run_persistent (E : PIn) (lib : LibOK E) (t : PF) (ho : t.ownOnly = true) (hn : PFretsNew t = true)
    (h : Heap) (out : POut) (he : t.run E h = some out) : Persistent h out := by
  cases t with
  | seq ss => exact runSs_inv E lib h ss ho hn _ (Inv.init h) out he
  | fork pre c t e =>
    simp only [PF.ownOnly, Bool.and_eq_true] at ho
    simp only [PFretsNew, Bool.and_eq_true] at hn
    simp only [PF.run] at he
    split at he
    · rename_i σ1 h1
      have inv1 := stepSs_inv E lib h pre ho.1.1 _ σ1 (Inv.init h) h1
      split at he
      · exact runSs_inv E lib h t ho.1.2 hn.1 σ1 inv1 out he
      · exact runSs_inv E lib h e ho.2 hn.2 σ1 inv1 out he
      · cases he
    · cases he
  | «opaque» t => simp only [PF.run] at he; cases he


/-! ## Well-formed physical frames -/

/-- a slice header lies inside its backing array -/
structure IValid (h : Heap) (s : ISlice) : Prop where
  lenCap : s.len ≤ s.cap
  inArr : s.off + s.cap ≤ (h.ixArr s.id).length

/-- Well-formedness of a physical frame over columns of physical length `L`: the headers lie inside their arrays, the
`pos` of every column is its place, the name map holds exactly the columns of the list under their names, every column
is there (no zero values) with `L` cells, and every row number of the index is below `L`. -/
structure PWF (h : Heap) (f : PFrame) (L : Nat) : Prop where
  ixValid : IValid h f.index
  colsIn : f.cols.len ≤ (h.colArr f.cols.id).length
  mapIn : ∀ id, f.map = some id → id < h.maps.length
  pos : ∀ (i : Nat) (c : NCol), (f.colList h)[i]? = some c → c.pos = i
  mapOk : ∀ (n : Bytes) (c : NCol), f.lookup h n = some c → (f.colList h)[c.pos]? = some c ∧ c.name = n
  mapTotal : ∀ c : NCol, c ∈ f.colList h → (f.lookup h c.name).isSome = true
  hasCol : ∀ c : NCol, c ∈ f.colList h → ∃ p, c.col = some p ∧ p.data.size = L
  ixLt : ∀ p, p ∈ f.ixList h → p < L

/-- column names pairwise different -/
def UniqueNames (h : Heap) (f : PFrame) : Prop := ((f.colList h).map (·.name)).Nodup

theorem ixWin_length {h : Heap} {s : ISlice} (v : IValid h s) : (h.ixWin s).length = s.len := by
  have := v.lenCap; have := v.inArr
  simp only [Heap.ixWin, List.length_take, List.length_drop]; omega

theorem colList_length {h : Heap} {f : PFrame} {L : Nat} (wf : PWF h f L) : (f.colList h).length = f.cols.len := by
  have := wf.colsIn
  simp only [PFrame.colList, Heap.colWin, List.length_take]; omega

theorem abs_n {h : Heap} {f : PFrame} {L : Nat} (wf : PWF h f L) : (f.abs h).n = f.index.len := by
  simp only [PFrame.abs, PFrame.ixList]; exact ixWin_length wf.ixValid

/-! ## Slice -/

/-- the frame `Slice` returns: the same arrays, the header of the index moved -/
def sliceFrame (f : PFrame) (a b : Nat) : PFrame :=
  { f with index := ⟨f.index.id, f.index.off + a, b - a, f.index.cap - a⟩ }

theorem slice_run (E : PIn) (h : Heap) (hlo : 0 ≤ E.start) (hab : E.start ≤ E.stop) (hb : E.stop.toNat ≤ E.f.index.cap) :
    canonSlice.run E h = some (.frame (sliceFrame E.f E.start.toNat E.stop.toNat), h, []) := by
  have h2 : 0 ≤ E.stop := by omega
  have h3 : E.start.toNat ≤ E.stop.toNat := by omega
  simp [canonSlice, PF.run, runSs, PRet.eval, PIx.eval, PI.eval, PCs.eval, PMp.eval, hlo, h2, h3, hb, sliceFrame]

theorem take_drop_window {α : Type} (l : List α) (off len a b : Nat) (hab : a ≤ b) (hb : b ≤ len) :
    ((l.drop (off + a)).take (b - a)) = ((((l.drop off).take len).drop a).take (b - a)) := by
  rw [List.drop_take, List.take_take, List.drop_drop]
  congr 1
  omega

theorem ixList_slice (h : Heap) (f : PFrame) (a b : Nat) (hab : a ≤ b) (hb : b ≤ f.index.len) :
    (sliceFrame f a b).ixList h = ((f.ixList h).drop a).take (b - a) := by
  simp only [PFrame.ixList, Heap.ixWin, sliceFrame]
  exact take_drop_window _ _ _ _ _ hab hb

theorem pick_window (l : List Cell) (a k : Nat) (hk : a + k ≤ l.length) :
    ((List.range k).map (· + a)).map (fun r => l.toArray[r]!) = (l.drop a).take k := by
  apply List.ext_getElem
  · simp; omega
  · intro i h1 h2
    simp only [List.length_map, List.length_range] at h1
    have : a + i < l.length := by omega
    simp [List.getElem_take, List.getElem_drop, Nat.add_comm i a, List.getElem?_eq_getElem this]

/-- `Slice(a, b)` on the logical frame: rows `a … b-1` -/
theorem slice_abs (h : Heap) (f : PFrame) (L : Nat) (wf : PWF h f L) (a b : Int) (h0 : 0 ≤ a) (hab : a ≤ b)
    (hb : b ≤ (f.index.len : Int)) :
    sliceS (f.abs h) a b = .ok ((sliceFrame f a.toNat b.toNat).abs h) := by
  have hn := abs_n wf
  have hlen : (f.ixList h).length = f.index.len := ixWin_length wf.ixValid
  have c1 : ¬ (a < 0) := by omega
  have c2 : ¬ (a > b) := by omega
  have c3 : ¬ (b > ((f.abs h).n : Int)) := by rw [hn]; omega
  simp only [sliceS, c1, c2, c3, decide_false, Bool.or_self, Bool.false_eq_true, ↓reduceIte]
  congr 1
  have hk : a.toNat + (b - a).toNat ≤ (f.ixList h).length := by omega
  have e1 : (b - a).toNat = b.toNat - a.toNat := by omega
  have hix := ixList_slice h f a.toNat b.toNat (by omega) (by omega)
  simp only [LFrame.pick, PFrame.abs, hix, List.map_map]
  congr 1
  · apply List.map_congr_left
    intro c _
    simp only [Function.comp, lcol]
    congr 1
    rw [← List.map_map, pick_window _ _ _ (by rw [List.length_map]; exact hk), e1, List.map_take, List.map_drop]
  · simp [e1]; omega

theorem slice_wf (h : Heap) (f : PFrame) (L : Nat) (wf : PWF h f L) (a b : Nat) (hab : a ≤ b) (hb : b ≤ f.index.len) :
    PWF h (sliceFrame f a b) L := by
  have v := wf.ixValid
  have hsub : ((sliceFrame f a b).ixList h).Sublist (f.ixList h) := by
    rw [ixList_slice h f a b hab hb]
    exact (List.take_sublist _ _).trans (List.drop_sublist _ _)
  exact ⟨⟨by simp only [sliceFrame]; have := v.lenCap; omega, by simp only [sliceFrame]; have := v.inArr; have := v.lenCap; omega⟩,
    wf.colsIn, wf.mapIn, wf.pos, wf.mapOk, wf.mapTotal, wf.hasCol, fun p hp => wf.ixLt p (hsub.subset hp)⟩


/-! ## Select -/

/-- `s := qf.columnsByName[x]; s.pos = i` -/
def selCol (h : Heap) (f : PFrame) (i : Nat) (x : Bytes) : NCol := { (f.lookup h x).getD NCol.zero with pos := i }

/-- the new column list of `Select` -/
def selCols (h : Heap) (f : PFrame) : List Bytes → Nat → List NCol
  | [], _ => []
  | x :: xs, i => selCol h f i x :: selCols h f xs (i + 1)

/-- the new name map of `Select`: one assignment per name, in loop order (a later one shadows an earlier one) -/
def selMap (h : Heap) (f : PFrame) : List Bytes → Nat → List (Bytes × NCol) → List (Bytes × NCol)
  | [], _, m => m
  | x :: xs, i, m => selMap h f xs (i + 1) ((x, selCol h f i x) :: m)

theorem selCols_length (h : Heap) (f : PFrame) (xs : List Bytes) (i : Nat) : (selCols h f xs i).length = xs.length := by
  induction xs generalizing i with
  | nil => rfl
  | cons x xs ih => simp [selCols, ih]

theorem getD_append_last {α : Type} (l : List α) (a d : α) : (l ++ [a]).getD l.length d = a := by
  simp [List.getD_eq_getElem?_getD]

theorem getD_append_lt {α : Type} (l : List α) (a d : α) (i : Nat) (hi : i < l.length) : (l ++ [a]).getD i d = l.getD i d := by
  simp [List.getD_eq_getElem?_getD, List.getElem?_append_left hi]

theorem set_append_last {α : Type} (l : List α) (a b : α) : (l ++ [a]).set l.length b = l ++ [b] := by
  rw [List.set_append_right _ _ (Nat.le_refl _)]; simp

/-- a map of the old heap reads the same after allocations -/
theorem mapGet_alloc (h : Heap) (m : Option Nat) (hm : ∀ id, m = some id → id < h.maps.length) (x : Bytes)
    (ixs : List (List Nat)) (colss : List (List NCol)) (nm : List (Bytes × NCol)) :
    ({ ixs := ixs, colss := colss, maps := h.maps ++ [nm] } : Heap).mapGet m x = h.mapGet m x := by
  cases m with
  | none => rfl
  | some id =>
    simp only [Heap.mapGet, Heap.mapOf, Heap.mapArr]
    rw [getD_append_lt _ _ _ _ (hm id rfl)]

theorem select_iter (E : PIn) (h : Heap) (hm : ∀ id, E.f.map = some id → id < h.maps.length) (n i : Nat) (x : Bytes)
    (m : List (Bytes × NCol)) (arr : List NCol) (σ : PMem) (hi : i < n)
    (hσ : σ.h = { ixs := h.ixs, colss := h.colss ++ [arr], maps := h.maps ++ [m] })
    (hnm : σ.nMap = some h.maps.length) (hnc : σ.nCols = some ⟨h.colss.length, n, n⟩) :
    ∃ σ', execLs (bindName E i x) selectBody σ = some σ' ∧
      σ'.h = { ixs := h.ixs, colss := h.colss ++ [arr.set i (selCol h E.f i x)], maps := h.maps ++ [(x, selCol h E.f i x) :: m] } ∧
      σ'.nMap = σ.nMap ∧ σ'.nCols = σ.nCols ∧ σ'.nIx = σ.nIx := by
  have hl := mapGet_alloc h _ hm x h.ixs (h.colss ++ [arr]) m
  simp [selectBody, execLs, PL.exec, PA.exec, PMp.eval, PCs.eval, PN.eval, PI.eval, PEl.eval, bindName, PMem.bind, PMem.setReg, PMem.reg,
    hl, hnm, hnc, hi, Heap.setMap, Heap.setCols, Heap.mapArr, Heap.colArr, hσ, selCol, PFrame.lookup]


theorem take_succ_set {α : Type} (arr : List α) (i : Nat) (c : α) (hi : i < arr.length) :
    (arr.set i c).take (i + 1) = arr.take i ++ [c] := by
  induction arr generalizing i with
  | nil => simp at hi
  | cons a arr ih =>
    cases i with
    | zero => simp
    | succ i => simp at hi; simp [ih i hi]

theorem setWin_cons_set {α : Type} (arr : List α) (i : Nat) (c : α) (rest : List α) (hi : i < arr.length) :
    setWin (arr.set i c) (i + 1) rest = setWin arr i (c :: rest) := by
  simp only [setWin, List.length_cons]
  have e1 : (arr.set i c).take (i + 1) = arr.take i ++ [c] := take_succ_set arr i c hi
  have e2 : (arr.set i c).drop (i + 1 + rest.length) = arr.drop (i + (rest.length + 1)) := by
    rw [List.drop_set_of_lt (by omega)]
    congr 1; omega
  rw [e1, e2]; simp

theorem select_loop (E : PIn) (h : Heap) (hm : ∀ id, E.f.map = some id → id < h.maps.length) (n : Nat) (xs : List Bytes) :
    ∀ (i : Nat) (m : List (Bytes × NCol)) (arr : List NCol) (σ : PMem), arr.length = n → i + xs.length ≤ n →
      σ.h = { ixs := h.ixs, colss := h.colss ++ [arr], maps := h.maps ++ [m] } →
      σ.nMap = some h.maps.length → σ.nCols = some ⟨h.colss.length, n, n⟩ →
      ∃ σ', loopOver selectBody E bindName xs i σ = some σ' ∧
        σ'.h = { ixs := h.ixs, colss := h.colss ++ [setWin arr i (selCols h E.f xs i)],
                 maps := h.maps ++ [selMap h E.f xs i m] } ∧
        σ'.nMap = σ.nMap ∧ σ'.nCols = σ.nCols ∧ σ'.nIx = σ.nIx := by
  induction xs with
  | nil =>
    intro i m arr σ harr hi hσ hnm hnc
    refine ⟨σ, rfl, ?_, rfl, rfl, rfl⟩
    simp [hσ, selCols, selMap, setWin]
  | cons x xs ih =>
    intro i m arr σ harr hi hσ hnm hnc
    simp only [List.length_cons] at hi
    obtain ⟨σ1, e1, h1, m1, c1, i1⟩ := select_iter E h hm n i x m arr σ (by omega) hσ hnm hnc
    obtain ⟨σ2, e2, h2, m2, c2, i2⟩ := ih (i + 1) _ (arr.set i (selCol h E.f i x)) σ1 (by simp [harr]) (by omega) h1
      (m1.trans hnm) (c1.trans hnc)
    refine ⟨σ2, ?_, ?_, m2.trans m1, c2.trans c1, i2.trans i1⟩
    · simp only [loopOver, e1, e2]
    · rw [h2, setWin_cons_set _ _ _ _ (by omega)]; rfl

/-- the heap after `Select`: one new column list, one new map -/
def selectHeap (h : Heap) (f : PFrame) (names : List Bytes) : Heap :=
  { ixs := h.ixs, colss := h.colss ++ [selCols h f names 0], maps := h.maps ++ [selMap h f names 0 []] }

/-- the frame `Select` returns: the new list and map, the receiver's index, no error -/
def selectFrame (h : Heap) (f : PFrame) (names : List Bytes) : PFrame :=
  ⟨⟨h.colss.length, names.length, names.length⟩, some h.maps.length, f.index, false⟩

theorem setWin_all {α : Type} (arr vals : List α) (hl : arr.length = vals.length) : setWin arr 0 vals = vals := by
  simp [setWin, ← hl]

theorem select_run (E : PIn) (h : Heap) (hm : ∀ id, E.f.map = some id → id < h.maps.length) (hne : E.names ≠ []) :
    ∃ w, canonSelect.run E h = some (.frame (selectFrame h E.f E.names), selectHeap h E.f E.names, w) := by
  have hemp : E.names.isEmpty = false := by cases hn : E.names with
    | nil => exact absurd hn hne
    | cons => rfl
  obtain ⟨σ', e, hh, hm', hc', hi'⟩ := select_loop E h hm E.names.length E.names 0 [] (List.replicate E.names.length NCol.zero)
    { h := { ixs := h.ixs, colss := h.colss ++ [List.replicate E.names.length NCol.zero], maps := h.maps ++ [[]] },
      nMap := some h.maps.length, nCols := some ⟨h.colss.length, E.names.length, E.names.length⟩ }
    (by simp) (by simp) rfl rfl rfl
  refine ⟨σ'.log, ?_⟩
  simp only [canonSelect, PF.run, runSs, PCond.eval, PNs.eval, hemp, PStm.step, PA.exec, PI.eval, e, PRet.eval, PCs.eval, PMp.eval,
    PIx.eval, hm', hc', hh]
  rw [setWin_all _ _ (by simp [selCols_length])]
  rfl


/-- closed form of the map built by the loop: the LAST assignment to the key -/
def selLast (h : Heap) (f : PFrame) : List Bytes → Nat → Bytes → Option NCol
  | [], _, _ => none
  | x :: xs, i, k => (selLast h f xs (i + 1) k).or (if k = x then some (selCol h f i x) else none)

theorem selMap_lookup (h : Heap) (f : PFrame) (xs : List Bytes) (i : Nat) (m : List (Bytes × NCol)) (k : Bytes) :
    (selMap h f xs i m).lookup k = (selLast h f xs i k).or (m.lookup k) := by
  induction xs generalizing i m with
  | nil => simp [selMap, selLast]
  | cons x xs ih =>
    simp only [selMap, selLast]
    rw [ih]
    cases selLast h f xs (i + 1) k with
    | some c => simp
    | none =>
      by_cases hk : k = x
      · simp [hk, List.lookup]
      · have : (k == x) = false := by simpa using hk
        simp [hk, List.lookup, this]

theorem selCols_pos (h : Heap) (f : PFrame) (xs : List Bytes) (i j : Nat) (c : NCol)
    (hc : (selCols h f xs i)[j]? = some c) : c.pos = i + j := by
  induction xs generalizing i j with
  | nil => simp [selCols] at hc
  | cons x xs ih =>
    simp only [selCols] at hc
    cases j with
    | zero => simp at hc; subst hc; rfl
    | succ j =>
      simp only [List.getElem?_cons_succ] at hc
      have := ih (i + 1) j hc
      omega

theorem selCol_of_known {h : Heap} {f : PFrame} {L : Nat} (wf : PWF h f L) {x : Bytes} {c0 : NCol}
    (hx : f.lookup h x = some c0) (i : Nat) : selCol h f i x = { c0 with pos := i } ∧ c0.name = x ∧ c0 ∈ f.colList h := by
  refine ⟨by simp [selCol, hx], (wf.mapOk x c0 hx).2, List.mem_of_getElem? (wf.mapOk x c0 hx).1⟩

theorem selLast_ok (h : Heap) (f : PFrame) (L : Nat) (wf : PWF h f L) (xs : List Bytes) (i : Nat) (k : Bytes) (c : NCol)
    (hk : ∀ x, x ∈ xs → (f.lookup h x).isSome = true) (hc : selLast h f xs i k = some c) :
    i ≤ c.pos ∧ (selCols h f xs i)[c.pos - i]? = some c ∧ c.name = k := by
  induction xs generalizing i with
  | nil => simp [selLast] at hc
  | cons x xs ih =>
    simp only [selLast] at hc
    simp only [selCols]
    have hk' : ∀ y, y ∈ xs → (f.lookup h y).isSome = true := fun y hy => hk y (List.mem_cons_of_mem _ hy)
    cases ht : selLast h f xs (i + 1) k with
    | some y =>
      rw [ht] at hc
      have hc : y = c := by simpa using hc
      subst hc
      obtain ⟨h1, h2, h3⟩ := ih (i + 1) hk' ht
      refine ⟨by omega, ?_, h3⟩
      have : y.pos - i = (y.pos - (i + 1)) + 1 := by omega
      rw [this, List.getElem?_cons_succ]; exact h2
    | none =>
      rw [ht] at hc
      by_cases hkx : k = x
      · simp only [hkx, ↓reduceIte, Option.none_or, Option.some.injEq] at hc
        subst hc
        have hx := hk x List.mem_cons_self
        cases hl : f.lookup h x with
        | none => rw [hl] at hx; cases hx
        | some c0 =>
          obtain ⟨e1, e2, _⟩ := selCol_of_known wf hl i
          rw [e1]
          exact ⟨Nat.le_refl _, by simp, by rw [hkx]; exact e2⟩
      · simp [hkx] at hc

theorem selLast_total (h : Heap) (f : PFrame) (L : Nat) (wf : PWF h f L) (xs : List Bytes) (i : Nat) (c : NCol)
    (hk : ∀ x, x ∈ xs → (f.lookup h x).isSome = true) (hc : c ∈ selCols h f xs i) :
    (selLast h f xs i c.name).isSome = true := by
  induction xs generalizing i with
  | nil => simp [selCols] at hc
  | cons x xs ih =>
    simp only [selCols] at hc
    simp only [selLast]
    have hk' : ∀ y, y ∈ xs → (f.lookup h y).isSome = true := fun y hy => hk y (List.mem_cons_of_mem _ hy)
    rcases List.mem_cons.mp hc with hc | hc
    · have hx := hk x List.mem_cons_self
      cases hl : f.lookup h x with
      | none => rw [hl] at hx; cases hx
      | some c0 =>
        obtain ⟨e1, e2, _⟩ := selCol_of_known wf hl i
        have hn : c.name = x := by rw [hc, e1]; exact e2
        cases selLast h f xs (i + 1) c.name with
        | some y => simp
        | none => simp [hn]
    · have := ih (i + 1) hk' hc
      cases ht : selLast h f xs (i + 1) c.name with
      | some y => simp
      | none => rw [ht] at this; cases this

theorem selCols_mem (h : Heap) (f : PFrame) (L : Nat) (wf : PWF h f L) (xs : List Bytes) (i : Nat) (c : NCol)
    (hk : ∀ x, x ∈ xs → (f.lookup h x).isSome = true) (hc : c ∈ selCols h f xs i) :
    ∃ c0, c0 ∈ f.colList h ∧ c.col = c0.col ∧ c.name = c0.name := by
  induction xs generalizing i with
  | nil => simp [selCols] at hc
  | cons x xs ih =>
    simp only [selCols] at hc
    have hk' : ∀ y, y ∈ xs → (f.lookup h y).isSome = true := fun y hy => hk y (List.mem_cons_of_mem _ hy)
    rcases List.mem_cons.mp hc with hc | hc
    · have hx := hk x List.mem_cons_self
      cases hl : f.lookup h x with
      | none => rw [hl] at hx; cases hx
      | some c0 =>
        obtain ⟨e1, _, e3⟩ := selCol_of_known wf hl i
        exact ⟨c0, e3, by rw [hc, e1], by rw [hc, e1]⟩
    · exact ih (i + 1) hk' hc

/-! what the result of `Select` reads -/

theorem select_colList (h : Heap) (f : PFrame) (names : List Bytes) :
    (selectFrame h f names).colList (selectHeap h f names) = selCols h f names 0 := by
  simp [PFrame.colList, Heap.colWin, Heap.colArr, selectFrame, selectHeap,
    List.take_of_length_le, selCols_length]

theorem select_lookup (h : Heap) (f : PFrame) (names : List Bytes) (k : Bytes) :
    (selectFrame h f names).lookup (selectHeap h f names) k = selLast h f names 0 k := by
  simp [PFrame.lookup, Heap.mapGet, Heap.mapOf, Heap.mapArr, selectFrame, selectHeap, selMap_lookup]

theorem select_ixList (h : Heap) (f : PFrame) (names : List Bytes) :
    (selectFrame h f names).ixList (selectHeap h f names) = f.ixList h := rfl

theorem select_wf (h : Heap) (f : PFrame) (L : Nat) (wf : PWF h f L) (names : List Bytes)
    (hk : ∀ x, x ∈ names → (f.lookup h x).isSome = true) :
    PWF (selectHeap h f names) (selectFrame h f names) L := by
  constructor
  · exact ⟨wf.ixValid.lenCap, wf.ixValid.inArr⟩
  · simp [selectFrame, selectHeap, Heap.colArr, selCols_length]
  · intro id hid
    simp only [selectFrame, Option.some.injEq] at hid
    subst hid
    simp [selectHeap]
  · intro i c hc
    rw [select_colList] at hc
    have := selCols_pos h f names 0 i c hc
    omega
  · intro n c hc
    rw [select_lookup] at hc
    rw [select_colList]
    obtain ⟨_, h2, h3⟩ := selLast_ok h f L wf names 0 n c hk hc
    exact ⟨by simpa using h2, h3⟩
  · intro c hc
    rw [select_colList] at hc
    rw [select_lookup]
    exact selLast_total h f L wf names 0 c hk hc
  · intro c hc
    rw [select_colList] at hc
    obtain ⟨c0, hm, e1, _⟩ := selCols_mem h f L wf names 0 c hk hc
    rw [e1]; exact wf.hasCol c0 hm
  · exact wf.ixLt


/-! the logical side -/

theorem lcol_name (ix : List Nat) (c : NCol) : (lcol ix c).name = c.name := rfl

theorem lcol_setPos (ix : List Nat) (c : NCol) (i : Nat) : lcol ix { c with pos := i } = lcol ix c := rfl

theorem find_of_mem (l : List NCol) (hd : (l.map (·.name)).Nodup) (c : NCol) (hc : c ∈ l) :
    l.find? (fun o => o.name == c.name) = some c := by
  induction l with
  | nil => cases hc
  | cons a l ih =>
    simp only [List.map_cons, List.nodup_cons] at hd
    rcases List.mem_cons.mp hc with h | h
    · subst h; simp
    · have hne : a.name ≠ c.name := by
        intro he
        apply hd.1
        rw [he]; exact List.mem_map.mpr ⟨c, h, rfl⟩
      simp only [List.find?_cons]
      have : (a.name == c.name) = false := by simpa using hne
      rw [this]
      exact ih hd.2 h

theorem abs_find (h : Heap) (f : PFrame) (x : Bytes) :
    (f.abs h).find? x = ((f.colList h).find? (fun o => o.name == x)).map (lcol (f.ixList h)) := by
  simp only [LFrame.find?, PFrame.abs, List.find?_map]
  rfl

/-- with unique names the logical frame finds under a name the column the name map holds -/
theorem abs_find_known {h : Heap} {f : PFrame} {L : Nat} (wf : PWF h f L) (u : UniqueNames h f) {x : Bytes} {c0 : NCol}
    (hx : f.lookup h x = some c0) : (f.abs h).find? x = some (lcol (f.ixList h) c0) := by
  obtain ⟨h1, h2⟩ := wf.mapOk x c0 hx
  have hm : c0 ∈ f.colList h := List.mem_of_getElem? h1
  rw [abs_find, ← h2, find_of_mem _ u c0 hm]; rfl

/-- the logical frame has a name iff the name map does (no uniqueness needed) -/
theorem abs_has {h : Heap} {f : PFrame} {L : Nat} (wf : PWF h f L) (x : Bytes) :
    (f.abs h).has x = (f.lookup h x).isSome := by
  simp only [LFrame.has, abs_find, Option.isSome_map]
  cases hl : f.lookup h x with
  | some c0 =>
    obtain ⟨h1, h2⟩ := wf.mapOk x c0 hl
    have hm : c0 ∈ f.colList h := List.mem_of_getElem? h1
    simp only [Option.isSome_some, List.find?_isSome]
    exact ⟨c0, hm, by simp [h2]⟩
  | none =>
    simp only [Option.isSome_none]
    cases hf : (f.colList h).find? (fun o => o.name == x) with
    | none => rfl
    | some c =>
      have hm := List.mem_of_find?_eq_some hf
      have hn : c.name = x := by simpa using List.find?_some hf
      have := wf.mapTotal c hm
      rw [hn, hl] at this; cases this

theorem selCols_lcol (h : Heap) (f : PFrame) (L : Nat) (wf : PWF h f L) (u : UniqueNames h f) (xs : List Bytes) (i : Nat)
    (hk : ∀ x, x ∈ xs → (f.lookup h x).isSome = true) :
    (selCols h f xs i).map (lcol (f.ixList h)) = xs.filterMap (f.abs h).find? := by
  induction xs generalizing i with
  | nil => rfl
  | cons x xs ih =>
    have hx := hk x List.mem_cons_self
    cases hl : f.lookup h x with
    | none => rw [hl] at hx; cases hx
    | some c0 =>
      simp only [selCols, List.map_cons, List.filterMap_cons, abs_find_known wf u hl]
      rw [ih (i + 1) fun y hy => hk y (List.mem_cons_of_mem _ hy)]
      simp [selCol, hl, lcol_setPos]

/-- `Select(names…)` with all names known and at least one name: the spec's frame is the logical frame of the result -/
theorem select_abs (h : Heap) (f : PFrame) (L : Nat) (wf : PWF h f L) (u : UniqueNames h f) (names : List Bytes)
    (hne : names ≠ []) (hk : ∀ x, x ∈ names → (f.lookup h x).isSome = true) :
    selectS (f.abs h) names = .ok ((selectFrame h f names).abs (selectHeap h f names)) := by
  have hall : names.all (f.abs h).has = true := by
    rw [List.all_eq_true]; intro x hx; rw [abs_has wf]; exact hk x hx
  have hemp : names.isEmpty = false := by cases names with
    | nil => exact absurd rfl hne
    | cons => rfl
  simp only [selectS, hall, hemp, ↓reduceIte, Bool.false_eq_true]
  congr 1
  simp only [PFrame.abs, select_colList, select_ixList]
  rw [selCols_lcol h f L wf u names 0 hk]
  rfl

theorem selCols_names (h : Heap) (f : PFrame) (L : Nat) (wf : PWF h f L) (xs : List Bytes) (i : Nat)
    (hk : ∀ x, x ∈ xs → (f.lookup h x).isSome = true) : (selCols h f xs i).map (·.name) = xs := by
  induction xs generalizing i with
  | nil => rfl
  | cons x xs ih =>
    have hx := hk x List.mem_cons_self
    cases hl : f.lookup h x with
    | none => rw [hl] at hx; cases hx
    | some c0 =>
      obtain ⟨e1, e2, _⟩ := selCol_of_known wf hl i
      simp only [selCols, List.map_cons, ih (i + 1) fun y hy => hk y (List.mem_cons_of_mem _ hy), e1, e2]

/-- names without repetition give a frame with unique names -/
theorem select_unique (h : Heap) (f : PFrame) (L : Nat) (wf : PWF h f L) (names : List Bytes) (hd : names.Nodup)
    (hk : ∀ x, x ∈ names → (f.lookup h x).isSome = true) :
    UniqueNames (selectHeap h f names) (selectFrame h f names) := by
  simp only [UniqueNames, select_colList, selCols_names h f L wf names 0 hk]
  exact hd


/-! ## setColumn / Copy -/

/-- the bindings of the receiver's name map -/
def recvMap (h : Heap) (f : PFrame) : List (Bytes × NCol) := h.mapOf f.map

theorem lookup_recvMap (h : Heap) (f : PFrame) (k : Bytes) : (recvMap h f).lookup k = f.lookup h k := rfl

/-- a map of the old heap has the same bindings after allocations -/
theorem mapOf_alloc (h : Heap) (m : Option Nat) (hm : ∀ id, m = some id → id < h.maps.length)
    (ixs : List (List Nat)) (colss : List (List NCol)) (nm : List (Bytes × NCol)) :
    ({ ixs := ixs, colss := colss, maps := h.maps ++ [nm] } : Heap).mapOf m = h.mapOf m := by
  cases m with
  | none => rfl
  | some id =>
    simp only [Heap.mapOf, Heap.mapArr]
    rw [getD_append_lt _ _ _ _ (hm id rfl)]

/-- the new column list of `setColumn`: `n` slots, the receiver's columns copied in, element `e` stored at `pos` -/
def setCols' (h : Heap) (f : PFrame) (n pos : Nat) (e : NCol) : List NCol :=
  ((f.colList h) ++ List.replicate (n - f.cols.len) NCol.zero).set pos e

def setHeap (h : Heap) (f : PFrame) (n pos : Nat) (e : NCol) : Heap :=
  { ixs := h.ixs, colss := h.colss ++ [setCols' h f n pos e], maps := h.maps ++ [(e.name, e) :: recvMap h f] }

def setFrame (h : Heap) (f : PFrame) (n : Nat) : PFrame :=
  ⟨⟨h.colss.length, n, n⟩, some h.maps.length, f.index, f.err⟩

/-- a valid column-list header reads the same after an allocation -/
theorem colWin_alloc (h : Heap) (s : CSlice) (hs : s.len ≤ (h.colArr s.id).length) (ixs : List (List Nat))
    (a : List NCol) (maps : List (List (Bytes × NCol))) :
    ({ ixs := ixs, colss := h.colss ++ [a], maps := maps } : Heap).colWin s = h.colWin s := by
  simp only [Heap.colWin, Heap.colArr] at hs ⊢
  rcases Nat.lt_or_ge s.id h.colss.length with h1 | h1
  · rw [getD_append_lt _ _ _ _ h1]
  · have : h.colss.getD s.id [] = [] := by simp [List.getD_eq_getElem?_getD, List.getElem?_eq_none h1]
    rw [this] at hs
    have : s.len = 0 := by simpa using hs
    simp [this]

theorem setWin_prefix {α : Type} (n : Nat) (z : α) (vals : List α) (hv : vals.length ≤ n) :
    setWin (List.replicate n z) 0 vals = vals ++ List.replicate (n - vals.length) z := by
  simp [setWin]

/-- the writes of `setColumn`: all into the two arrays it has just allocated -/
def setLog (h : Heap) : List Wr :=
  [⟨.cols, h.colss.length⟩, ⟨.map, h.maps.length⟩, ⟨.map, h.maps.length⟩, ⟨.cols, h.colss.length⟩]

theorem setTail_run (E : PIn) (h : Heap) (L : Nat) (wf : PWF h E.f L) (n pos : PI) (c : PC) (σ : PMem) (nn pp : Nat)
    (col : Option PXCol) (hσ : σ.h = h)
    (hn : ∀ σ' : PMem, σ'.ea = σ.ea → σ'.eb = σ.eb → n.eval E σ' = some nn)
    (hp : ∀ σ' : PMem, σ'.ea = σ.ea → σ'.eb = σ.eb → pos.eval E σ' = some pp)
    (hc : ∀ σ' : PMem, σ'.ea = σ.ea → σ'.eb = σ.eb → c.eval E σ' = col)
    (hle : E.f.cols.len ≤ nn) (hlt : pp < nn) :
    runSs E (setTail n c pos) σ =
      some (.frame (setFrame h E.f nn), setHeap h E.f nn pp ⟨E.dst, pp, col⟩,
        σ.log ++ setLog h) := by
  have hlen := colList_length wf
  have hw := colWin_alloc h E.f.cols wf.colsIn h.ixs (List.replicate nn NCol.zero) (h.maps ++ [[]])
  have hm := fun a => mapOf_alloc h E.f.map wf.mapIn h.ixs a []
  simp only [setTail, runSs, PStm.step, PA.exec, hσ, hn, hp, hc, PCs.eval, PMp.eval, PEl.eval, PN.eval,
    PRet.eval, PIx.eval, hlt, ↓reduceIte, Heap.setCols, Heap.setMap, Heap.colArr, Heap.mapArr, getD_append_last,
    set_append_last, hw, hm, List.append_nil, Option.getD_some]
  have e1 : (h.colWin E.f.cols).take (min nn E.f.cols.len) = h.colWin E.f.cols := by
    apply List.take_of_length_le
    have : (h.colWin E.f.cols).length = E.f.cols.len := hlen
    omega
  have e2 : (h.colWin E.f.cols).length = E.f.cols.len := hlen
  rw [e1, setWin_prefix _ _ _ (by omega), e2]
  simp [setFrame, setHeap, setCols', setLog, recvMap, PFrame.colList]


theorem pos_lt {h : Heap} {f : PFrame} {L : Nat} (wf : PWF h f L) {n : Bytes} {c : NCol} (hc : f.lookup h n = some c) :
    c.pos < f.cols.len := by
  have h1 := (wf.mapOk n c hc).1
  rcases Nat.lt_or_ge c.pos (f.colList h).length with h2 | h2
  · rw [colList_length wf] at h2; exact h2
  · rw [List.getElem?_eq_none h2] at h1; cases h1

/-- `Copy(dst, src)`, the destination exists: replaced in its position -/
theorem copy_run_found (E : PIn) (h : Heap) (L : Nat) (wf : PWF h E.f L) (cs ex : NCol)
    (hs : E.f.lookup h E.src = some cs) (hd : E.f.lookup h E.dst = some ex) :
    canonCopy.run E h = some (.frame (setFrame h E.f E.f.cols.len),
      setHeap h E.f E.f.cols.len ex.pos ⟨E.dst, ex.pos, cs.col⟩, setLog h) := by
  have hs' : h.mapGet E.f.map E.src = some cs := hs
  have hd' : h.mapGet E.f.map E.dst = some ex := hd
  simp only [canonCopy, PF.run, stepSs, PStm.step, PA.exec, PMp.eval, PN.eval, hs', hd', PMem.bind, PCond.eval, PMem.ok,
    Option.isSome_some, Option.getD_some]
  refine (setTail_run E h L wf _ _ _ _ E.f.cols.len ex.pos cs.col rfl
    (fun σ' h1 h2 => by simp [PI.eval, PCs.eval])
    (fun σ' h1 h2 => by simp [PI.eval, PEl.eval, PMem.reg, h2])
    (fun σ' h1 h2 => by simp [PC.eval, PEl.eval, PMem.reg, h1])
    (Nat.le_refl _) (pos_lt wf hd)).trans (by simp)

/-- `Copy(dst, src)`, the destination is new: appended last -/
theorem copy_run_missing (E : PIn) (h : Heap) (L : Nat) (wf : PWF h E.f L) (cs : NCol)
    (hs : E.f.lookup h E.src = some cs) (hd : E.f.lookup h E.dst = none) :
    canonCopy.run E h = some (.frame (setFrame h E.f (E.f.cols.len + 1)),
      setHeap h E.f (E.f.cols.len + 1) E.f.cols.len ⟨E.dst, E.f.cols.len, cs.col⟩, setLog h) := by
  have hs' : h.mapGet E.f.map E.src = some cs := hs
  have hd' : h.mapGet E.f.map E.dst = none := hd
  simp only [canonCopy, PF.run, stepSs, PStm.step, PA.exec, PMp.eval, PN.eval, hs', hd', PMem.bind, PCond.eval, PMem.ok,
    Option.isSome_some, Option.isSome_none, Option.getD_some, Option.getD_none]
  refine (setTail_run E h L wf _ _ _ _ (E.f.cols.len + 1) E.f.cols.len cs.col rfl
    (fun σ' h1 h2 => by simp [PI.eval, PCs.eval])
    (fun σ' h1 h2 => by simp [PI.eval, PCs.eval])
    (fun σ' h1 h2 => by simp [PC.eval, PEl.eval, PMem.reg, h1])
    (Nat.le_succ _) (Nat.lt_succ_self _)).trans (by simp)

/-- `setColumn(name, c)` on its own -/
theorem setColumn_run_found (E : PIn) (h : Heap) (L : Nat) (wf : PWF h E.f L) (ex : NCol)
    (hd : E.f.lookup h E.dst = some ex) :
    canonSetColumn.run E h = some (.frame (setFrame h E.f E.f.cols.len),
      setHeap h E.f E.f.cols.len ex.pos ⟨E.dst, ex.pos, E.colParam⟩, setLog h) := by
  have hd' : h.mapGet E.f.map E.dst = some ex := hd
  simp only [canonSetColumn, PF.run, stepSs, PStm.step, PA.exec, PMp.eval, PN.eval, hd', PMem.bind, PCond.eval, PMem.ok,
    Option.isSome_some, Option.getD_some]
  refine (setTail_run E h L wf _ _ _ _ E.f.cols.len ex.pos E.colParam rfl
    (fun σ' h1 h2 => by simp [PI.eval, PCs.eval])
    (fun σ' h1 h2 => by simp [PI.eval, PEl.eval, PMem.reg, h1])
    (fun σ' h1 h2 => by simp [PC.eval])
    (Nat.le_refl _) (pos_lt wf hd)).trans (by simp)

theorem setColumn_run_missing (E : PIn) (h : Heap) (L : Nat) (wf : PWF h E.f L)
    (hd : E.f.lookup h E.dst = none) :
    canonSetColumn.run E h = some (.frame (setFrame h E.f (E.f.cols.len + 1)),
      setHeap h E.f (E.f.cols.len + 1) E.f.cols.len ⟨E.dst, E.f.cols.len, E.colParam⟩, setLog h) := by
  have hd' : h.mapGet E.f.map E.dst = none := hd
  simp only [canonSetColumn, PF.run, stepSs, PStm.step, PA.exec, PMp.eval, PN.eval, hd', PMem.bind, PCond.eval, PMem.ok,
    Option.isSome_none, Option.getD_none]
  refine (setTail_run E h L wf _ _ _ _ (E.f.cols.len + 1) E.f.cols.len E.colParam rfl
    (fun σ' h1 h2 => by simp [PI.eval, PCs.eval])
    (fun σ' h1 h2 => by simp [PI.eval, PCs.eval])
    (fun σ' h1 h2 => by simp [PC.eval])
    (Nat.le_succ _) (Nat.lt_succ_self _)).trans (by simp)


/-! what the result of `setColumn` reads -/

theorem setCols'_length {h : Heap} {f : PFrame} {L : Nat} (wf : PWF h f L) (n pos : Nat) (e : NCol) (hn : f.cols.len ≤ n) :
    (setCols' h f n pos e).length = n := by
  simp only [setCols', List.length_set, List.length_append, List.length_replicate, colList_length wf]; omega

theorem set_colList {h : Heap} {f : PFrame} {L : Nat} (wf : PWF h f L) (n pos : Nat) (e : NCol) (hn : f.cols.len ≤ n) :
    (setFrame h f n).colList (setHeap h f n pos e) = setCols' h f n pos e := by
  simp only [PFrame.colList, Heap.colWin, Heap.colArr, setFrame, setHeap, getD_append_last]
  exact List.take_of_length_le (by rw [setCols'_length wf n pos e hn]; exact Nat.le_refl _)

theorem set_lookup (h : Heap) (f : PFrame) (n pos : Nat) (e : NCol) (k : Bytes) :
    (setFrame h f n).lookup (setHeap h f n pos e) k = if k = e.name then some e else f.lookup h k := by
  simp only [PFrame.lookup, Heap.mapGet, Heap.mapOf, Heap.mapArr, setFrame, setHeap, getD_append_last, List.lookup]
  by_cases hk : k = e.name
  · simp [hk]
  · have : (k == e.name) = false := by simpa using hk
    simp only [this, hk, ↓reduceIte]
    rfl

theorem set_ixList (h : Heap) (f : PFrame) (n pos : Nat) (e : NCol) :
    (setFrame h f n).ixList (setHeap h f n pos e) = f.ixList h := rfl

theorem setCols'_found {h : Heap} {f : PFrame} (pos : Nat) (e : NCol) :
    setCols' h f f.cols.len pos e = (f.colList h).set pos e := by
  simp [setCols']

theorem setCols'_missing {h : Heap} {f : PFrame} {L : Nat} (wf : PWF h f L) (e : NCol) :
    setCols' h f (f.cols.len + 1) f.cols.len e = f.colList h ++ [e] := by
  have hl := colList_length wf
  simp only [setCols', Nat.add_sub_cancel_left, List.replicate_one]
  rw [← hl, set_append_last]

/-- the destination exists: well-formedness is kept (`Frame.setColumn_wf`, overwrite case) -/
theorem set_wf_found {h : Heap} {f : PFrame} {L : Nat} (wf : PWF h f L) (dst : Bytes) (ex : NCol)
    (hd : f.lookup h dst = some ex) (col : Option PXCol) (hcol : ∃ p, col = some p ∧ p.data.size = L) :
    PWF (setHeap h f f.cols.len ex.pos ⟨dst, ex.pos, col⟩) (setFrame h f f.cols.len) L := by
  obtain ⟨ea, eb⟩ := wf.mapOk dst ex hd
  have hlt : ex.pos < (f.colList h).length := by rw [colList_length wf]; exact pos_lt wf hd
  constructor
  · exact ⟨wf.ixValid.lenCap, wf.ixValid.inArr⟩
  · simp [setFrame, setHeap, Heap.colArr, setCols'_length wf _ _ _ (Nat.le_refl _)]
  · intro id hid
    simp only [setFrame, Option.some.injEq] at hid
    subst hid; simp [setHeap]
  · intro i x hx
    rw [set_colList wf _ _ _ (Nat.le_refl _), setCols'_found, List.getElem?_set] at hx
    by_cases hi : ex.pos = i
    · subst hi; simp [hlt] at hx; subst hx; rfl
    · simp [hi] at hx; exact wf.pos i x hx
  · intro n x hx
    rw [set_lookup] at hx
    rw [set_colList wf _ _ _ (Nat.le_refl _), setCols'_found]
    by_cases hk : n = dst
    · subst hk; simp at hx; subst hx; simp [hlt]
    · simp [hk] at hx
      obtain ⟨a, b⟩ := wf.mapOk n x hx
      refine ⟨?_, b⟩
      rw [List.getElem?_set]
      by_cases hi : ex.pos = x.pos
      · rw [← hi, ea] at a; cases a; exact absurd (b.symm.trans eb) hk
      · simp [hi]; exact a
  · intro x hx
    rw [set_colList wf _ _ _ (Nat.le_refl _), setCols'_found] at hx
    rw [set_lookup]
    by_cases hk : x.name = dst
    · simp [hk]
    · simp [hk]
      rcases List.mem_or_eq_of_mem_set hx with h1 | h1
      · exact wf.mapTotal x h1
      · subst h1; simp at hk
  · intro x hx
    rw [set_colList wf _ _ _ (Nat.le_refl _), setCols'_found] at hx
    rcases List.mem_or_eq_of_mem_set hx with h1 | h1
    · exact wf.hasCol x h1
    · subst h1; exact hcol
  · exact wf.ixLt

/-- the destination is new: well-formedness is kept (`Frame.setColumn_wf`, append case) -/
theorem set_wf_missing {h : Heap} {f : PFrame} {L : Nat} (wf : PWF h f L) (dst : Bytes)
    (hd : f.lookup h dst = none) (col : Option PXCol) (hcol : ∃ p, col = some p ∧ p.data.size = L) :
    PWF (setHeap h f (f.cols.len + 1) f.cols.len ⟨dst, f.cols.len, col⟩) (setFrame h f (f.cols.len + 1)) L := by
  have hl := colList_length wf
  constructor
  · exact ⟨wf.ixValid.lenCap, wf.ixValid.inArr⟩
  · simp [setFrame, setHeap, Heap.colArr, setCols'_length wf _ _ _ (Nat.le_succ _)]
  · intro id hid
    simp only [setFrame, Option.some.injEq] at hid
    subst hid; simp [setHeap]
  · intro i x hx
    rw [set_colList wf _ _ _ (Nat.le_succ _), setCols'_missing wf] at hx
    rcases Nat.lt_or_ge i (f.colList h).length with h1 | h1
    · rw [List.getElem?_append_left h1] at hx; exact wf.pos i x hx
    · rw [List.getElem?_append_right h1] at hx
      have : i - (f.colList h).length = 0 := by
        cases hk : i - (f.colList h).length with
        | zero => rfl
        | succ k => rw [hk] at hx; simp at hx
      rw [this] at hx; simp at hx; subst hx; simp; omega
  · intro n x hx
    rw [set_lookup] at hx
    rw [set_colList wf _ _ _ (Nat.le_succ _), setCols'_missing wf]
    by_cases hk : n = dst
    · subst hk; simp at hx; subst hx; simp [← hl]
    · simp [hk] at hx
      obtain ⟨a, b⟩ := wf.mapOk n x hx
      have : x.pos < (f.colList h).length := by rw [hl]; exact pos_lt wf hx
      exact ⟨by rw [List.getElem?_append_left this]; exact a, b⟩
  · intro x hx
    rw [set_colList wf _ _ _ (Nat.le_succ _), setCols'_missing wf] at hx
    rw [set_lookup]
    rcases List.mem_append.mp hx with h1 | h1
    · by_cases hk : x.name = dst
      · simp [hk]
      · simp [hk]; exact wf.mapTotal x h1
    · simp at h1; subst h1; simp
  · intro x hx
    rw [set_colList wf _ _ _ (Nat.le_succ _), setCols'_missing wf] at hx
    rcases List.mem_append.mp hx with h1 | h1
    · exact wf.hasCol x h1
    · simp at h1; subst h1; exact hcol
  · exact wf.ixLt


theorem replace_unique (ix : List Nat) (l : List NCol) (hd : (l.map (·.name)).Nodup) (p : Nat) (ex e : NCol)
    (hl : l[p]? = some ex) (hn : e.name = ex.name) :
    (l.map (lcol ix)).map (fun o => if o.name == ex.name then lcol ix e else o) = (l.set p e).map (lcol ix) := by
  induction l generalizing p with
  | nil => simp at hl
  | cons a l ih =>
    simp only [List.map_cons, List.nodup_cons] at hd
    cases p with
    | zero =>
      simp only [List.getElem?_cons_zero, Option.some.injEq] at hl
      subst hl
      simp only [List.map_cons, lcol_name, beq_self_eq_true, ↓reduceIte, List.set_cons_zero, List.cons.injEq, true_and]
      -- no other column carries the name
      rw [List.map_map]
      apply List.map_congr_left
      intro c hc
      have hne : c.name ≠ a.name := fun he => hd.1 (by rw [← he]; exact List.mem_map.mpr ⟨c, hc, rfl⟩)
      simp [lcol_name, hne]
    | succ p =>
      simp only [List.getElem?_cons_succ] at hl
      have hm : ex ∈ l := List.mem_of_getElem? hl
      have hne : a.name ≠ ex.name := fun he => hd.1 (by rw [he]; exact List.mem_map.mpr ⟨ex, hm, rfl⟩)
      have hb : (a.name == ex.name) = false := by simpa using hne
      simp only [List.map_cons, lcol_name, hb, Bool.false_eq_true, ↓reduceIte, List.set_cons_succ, List.cons.injEq, true_and]
      exact ih hd.2 p hl

/-- `Copy(dst, src)` with `src` present, `dst ≠ src`, `dst` a legal name, on a frame with unique names: the spec's frame
is the logical frame of the result (replaced in position, or appended last) -/
theorem copy_abs_found {h : Heap} {f : PFrame} {L : Nat} (wf : PWF h f L) (u : UniqueNames h f) (dst src : Bytes)
    (cs ex : NCol) (hs : f.lookup h src = some cs) (hd : f.lookup h dst = some ex) (hne : dst ≠ src)
    (hleg : legalName dst = true) :
    copyS (f.abs h) dst src =
      .ok ((setFrame h f f.cols.len).abs (setHeap h f f.cols.len ex.pos ⟨dst, ex.pos, cs.col⟩)) := by
  have hbeq : (dst == src) = false := by simpa using hne
  have hhas : (f.abs h).has dst = true := by rw [abs_has wf, hd]; rfl
  obtain ⟨ea, eb⟩ := wf.mapOk dst ex hd
  simp only [copyS, abs_find_known wf u hs, hbeq, Bool.false_eq_true, ↓reduceIte, hleg, setCol, hhas]
  congr 1
  simp only [PFrame.abs, set_colList wf _ _ _ (Nat.le_refl _), setCols'_found, set_ixList]
  congr 1
  have := replace_unique (f.ixList h) (f.colList h) u ex.pos ex ⟨dst, ex.pos, cs.col⟩ ea eb.symm
  rw [eb] at this
  exact this

theorem copy_abs_missing {h : Heap} {f : PFrame} {L : Nat} (wf : PWF h f L) (u : UniqueNames h f) (dst src : Bytes)
    (cs : NCol) (hs : f.lookup h src = some cs) (hd : f.lookup h dst = none) (hne : dst ≠ src)
    (hleg : legalName dst = true) :
    copyS (f.abs h) dst src =
      .ok ((setFrame h f (f.cols.len + 1)).abs (setHeap h f (f.cols.len + 1) f.cols.len ⟨dst, f.cols.len, cs.col⟩)) := by
  have hbeq : (dst == src) = false := by simpa using hne
  have hhas : (f.abs h).has dst = false := by rw [abs_has wf, hd]; rfl
  simp only [copyS, abs_find_known wf u hs, hbeq, Bool.false_eq_true, ↓reduceIte, hleg, setCol, hhas]
  congr 1
  simp only [PFrame.abs, set_colList wf _ _ _ (Nat.le_succ _), setCols'_missing wf, set_ixList, List.map_append,
    List.map_cons, List.map_nil]
  rfl

theorem set_self {α : Type} (l : List α) (i : Nat) (a : α) (h : l[i]? = some a) : l.set i a = l := by
  induction l generalizing i with
  | nil => rfl
  | cons x l ih =>
    cases i with
    | zero => simp at h; simp [h]
    | succ i => simp at h; simp [ih i h]

theorem set_unique_found {h : Heap} {f : PFrame} {L : Nat} (wf : PWF h f L) (u : UniqueNames h f) (dst : Bytes) (ex : NCol)
    (hd : f.lookup h dst = some ex) (col : Option PXCol) :
    UniqueNames (setHeap h f f.cols.len ex.pos ⟨dst, ex.pos, col⟩) (setFrame h f f.cols.len) := by
  obtain ⟨ea, eb⟩ := wf.mapOk dst ex hd
  simp only [UniqueNames, set_colList wf _ _ _ (Nat.le_refl _), setCols'_found, List.map_set]
  rw [set_self]
  · exact u
  · rw [List.getElem?_map, ea]; simp [eb]

theorem set_unique_missing {h : Heap} {f : PFrame} {L : Nat} (wf : PWF h f L) (u : UniqueNames h f) (dst : Bytes)
    (hd : f.lookup h dst = none) (col : Option PXCol) :
    UniqueNames (setHeap h f (f.cols.len + 1) f.cols.len ⟨dst, f.cols.len, col⟩) (setFrame h f (f.cols.len + 1)) := by
  simp only [UniqueNames, set_colList wf _ _ _ (Nat.le_succ _), setCols'_missing wf, List.map_append, List.map_cons,
    List.map_nil]
  rw [List.nodup_append]
  refine ⟨u, by simp, ?_⟩
  intro a ha b hb
  simp only [List.mem_singleton] at hb
  subst hb
  obtain ⟨x, hx, rfl⟩ := List.mem_map.mp ha
  intro hxe
  have := wf.mapTotal x hx
  rw [hxe, hd] at this; cases this


/-! ## The functions of internal/index -/

/-- a valid index header reads the same after an allocation -/
theorem ixWin_alloc (h : Heap) (s : ISlice) (v : IValid h s) (a : List Nat) (colss : List (List NCol))
    (maps : List (List (Bytes × NCol))) :
    ({ ixs := h.ixs ++ [a], colss := colss, maps := maps } : Heap).ixWin s = h.ixWin s := by
  have h1 := v.lenCap; have h2 := v.inArr
  simp only [Heap.ixWin, Heap.ixArr] at h2 ⊢
  rcases Nat.lt_or_ge s.id h.ixs.length with h3 | h3
  · rw [getD_append_lt _ _ _ _ h3]
  · have : h.ixs.getD s.id [] = [] := by simp [List.getD_eq_getElem?_getD, List.getElem?_eq_none h3]
    rw [this] at h2
    have : s.len = 0 := by simp at h2; omega
    simp [this]

/-- `Int.Copy`: a new array with the elements the receiver denotes -/
theorem ixCopy_run (E : PIn) (h : Heap) (v : IValid h E.ixParam) :
    canonIxCopy.run E h = some (.ix ⟨h.ixs.length, 0, E.ixParam.len, E.ixParam.len⟩,
      { h with ixs := h.ixs ++ [h.ixWin E.ixParam] }, [⟨.ix, h.ixs.length⟩]) := by
  have hw := ixWin_alloc h E.ixParam v (List.replicate E.ixParam.len 0) h.colss h.maps
  have hl := ixWin_length v
  simp only [canonIxCopy, PF.run, runSs, PStm.step, PA.exec, PI.eval, PIx.eval, Option.map_some, Nat.le_refl, ↓reduceIte,
    PRet.eval, Heap.setIx, Heap.ixArr, getD_append_last, set_append_last, hw, Nat.min_self, List.nil_append]
  rw [List.take_of_length_le (by omega), setWin_all _ _ (by simp [hl])]


theorem ixArr_setIx_ne (h : Heap) (id j : Nat) (a : List Nat) (hne : j ≠ id) : (h.setIx id a).ixArr j = h.ixArr j := by
  simp only [Heap.setIx, Heap.ixArr, List.getD_eq_getElem?_getD]
  rw [List.getElem?_set_ne (Ne.symm hne)]

theorem ixArr_setIx_eq (h : Heap) (id : Nat) (a : List Nat) (hid : id < h.ixs.length) : (h.setIx id a).ixArr id = a := by
  simp [Heap.setIx, Heap.ixArr, List.getD_eq_getElem?_getD, hid]

theorem valid_id_lt {h : Heap} {s : ISlice} (v : IValid h s) (hc : 0 < s.cap) : s.id < h.ixs.length := by
  rcases Nat.lt_or_ge s.id h.ixs.length with h3 | h3
  · exact h3
  · have := v.inArr
    have e : h.ixArr s.id = [] := by simp [Heap.ixArr, List.getD_eq_getElem?_getD, List.getElem?_eq_none h3]
    rw [e] at this; simp at this; omega

theorem ixWin_new (h : Heap) (a : List Nat) (cs : List (List NCol)) (ms : List (List (Bytes × NCol))) :
    ({ ixs := h.ixs ++ [a], colss := cs, maps := ms } : Heap).ixWin ⟨h.ixs.length, 0, a.length, a.length⟩ = a := by
  simp [Heap.ixWin, Heap.ixArr]

theorem window_set_next (arr : List Nat) (off len x : Nat) (hl : off + len < arr.length) :
    ((arr.set (off + len) x).drop off).take (len + 1) = (arr.drop off).take len ++ [x] := by
  apply List.ext_getElem?
  intro i
  rcases Nat.lt_or_ge i len with h1 | h1
  · rw [List.getElem?_append_left (by simp; omega)]
    simp only [List.getElem?_take, List.getElem?_drop]
    have : i < len + 1 := by omega
    simp only [this, h1, ↓reduceIte]
    rw [List.getElem?_set_ne (by omega)]
  · rcases Nat.lt_or_ge len i with h2 | h2
    · rw [List.getElem?_eq_none (Nat.le_trans (List.length_take_le _ _) (by omega)),
        List.getElem?_eq_none (by
          rw [List.length_append]
          exact Nat.le_trans (Nat.add_le_add_right (List.length_take_le _ _) _) (by simp; omega))]
    · have : i = len := by omega
      subst this
      rw [List.getElem?_append_right (by simp; omega)]
      simp only [List.getElem?_take, List.getElem?_drop, Nat.lt_succ_self, ↓reduceIte]
      simp [hl]
      have : i - min i (arr.length - off) = 0 := by omega
      rw [this]; rfl

/-- `append` on a valid slice: a valid slice holding one element more; other slices of other arrays are as before -/
theorem appendIxTo_spec (σ : PMem) (s : ISlice) (v : IValid σ.h s) (x : Nat) :
    ∃ s', (appendIxTo σ s x).nIx = some s' ∧ IValid (appendIxTo σ s x).h s' ∧
      (appendIxTo σ s x).h.ixWin s' = σ.h.ixWin s ++ [x] ∧
      (appendIxTo σ s x).h.colss = σ.h.colss ∧ (appendIxTo σ s x).h.maps = σ.h.maps ∧
      (s'.id = s.id ∨ s'.id = σ.h.ixs.length) ∧ σ.h.ixs.length ≤ (appendIxTo σ s x).h.ixs.length ∧
      (∀ t : ISlice, t.id ≠ s.id → IValid σ.h t →
        (appendIxTo σ s x).h.ixWin t = σ.h.ixWin t ∧ IValid (appendIxTo σ s x).h t) := by
  have hlc := v.lenCap; have hin := v.inArr
  unfold appendIxTo
  split
  · rename_i hlt
    have hid := valid_id_lt v (by omega)
    refine ⟨{ s with len := s.len + 1 }, rfl, ⟨by simp; omega, ?_⟩, ?_, rfl, rfl, Or.inl rfl, by simp [Heap.setIx], ?_⟩
    · simp only [ixArr_setIx_eq _ _ _ hid, List.length_set]; exact hin
    · simp only [Heap.ixWin, ixArr_setIx_eq _ _ _ hid]
      exact window_set_next _ _ _ _ (by omega)
    · intro t ht vt
      refine ⟨by simp only [Heap.ixWin, ixArr_setIx_ne _ _ _ _ ht], ⟨vt.lenCap, ?_⟩⟩
      rw [ixArr_setIx_ne _ _ _ _ ht]; exact vt.inArr
  · rename_i hge
    have hwl := ixWin_length v
    refine ⟨⟨σ.h.ixs.length, 0, s.len + 1, s.len + 1⟩, rfl, ⟨Nat.le_refl _, ?_⟩, ?_, rfl, rfl, Or.inr rfl, by simp, ?_⟩
    · simp [Heap.ixArr, hwl]
    · have := ixWin_new σ.h (σ.h.ixWin s ++ [x]) σ.h.colss σ.h.maps
      rw [List.length_append, hwl] at this
      exact this
    · intro t ht vt
      refine ⟨ixWin_alloc σ.h t vt _ _ _, ⟨vt.lenCap, ?_⟩⟩
      have := vt.inArr
      simp only [Heap.ixArr] at this ⊢
      rcases Nat.lt_or_ge t.id σ.h.ixs.length with h3 | h3
      · rw [getD_append_lt _ _ _ _ h3]; exact this
      · have e : σ.h.ixs.getD t.id [] = [] := by simp [List.getD_eq_getElem?_getD, List.getElem?_eq_none h3]
        rw [e] at this; simp at this; omega


/-- the first rows of the occupied entries, in table order -/
def firsts (es : List (Bool × Nat)) : List Nat := (es.filter (·.1)).map (·.2)

/-- the loop of `grouper.Distinct`: the first row of every occupied entry is appended, in table order; arrays that
existed before (ids below `b`) are not touched -/
theorem entry_loop (E : PIn) (b : Nat) (es : List (Bool × Nat)) :
    ∀ (k : Nat) (σ : PMem) (s : ISlice), σ.nIx = some s → IValid σ.h s → b ≤ s.id → b ≤ σ.h.ixs.length →
      ∃ σ' s', loopOver entryBody E bindEntry es k σ = some σ' ∧ σ'.nIx = some s' ∧ IValid σ'.h s' ∧
        σ'.h.ixWin s' = σ.h.ixWin s ++ firsts es ∧ σ'.h.colss = σ.h.colss ∧ σ'.h.maps = σ.h.maps ∧
        b ≤ s'.id ∧ b ≤ σ'.h.ixs.length ∧
        (∀ t : ISlice, t.id < b → IValid σ.h t → σ'.h.ixWin t = σ.h.ixWin t ∧ IValid σ'.h t) := by
  induction es with
  | nil =>
    intro k σ s hs v hb hl
    exact ⟨σ, s, rfl, hs, v, by simp [firsts], rfl, rfl, hb, hl, fun t _ vt => ⟨rfl, vt⟩⟩
  | cons e es ih =>
    intro k σ s hs v hb hl
    cases he : e.1 with
    | false =>
      have e1 : execLs (bindEntry E k e) entryBody σ = some σ := by
        simp [entryBody, execLs, PL.exec, PCond.eval, bindEntry, he]
      obtain ⟨σ', s', r1, r2, r3, r4, r5, r6, r7, r8, r10⟩ := ih (k + 1) σ s hs v hb hl
      refine ⟨σ', s', by simp only [loopOver, e1, r1], r2, r3, ?_, r5, r6, r7, r8, r10⟩
      rw [r4]; simp [firsts, he]
    | true =>
      obtain ⟨s1, a1, a2, a3, a4, a5, a6, a7, a8⟩ := appendIxTo_spec σ s v e.2
      have e1 : execLs (bindEntry E k e) entryBody σ = some (appendIxTo σ s e.2) := by
        simp [entryBody, execLs, PL.exec, PCond.eval, bindEntry, he, execAs, PA.exec, PIx.eval, PU.eval, hs]
      have hb1 : b ≤ s1.id := by rcases a6 with h1 | h1 <;> omega
      obtain ⟨σ', s', r1, r2, r3, r4, r5, r6, r7, r8, r10⟩ :=
        ih (k + 1) (appendIxTo σ s e.2) s1 a1 a2 hb1 (by omega)
      refine ⟨σ', s', by simp only [loopOver, e1, r1], r2, r3, ?_, r5.trans a4, r6.trans a5, r7, r8, ?_⟩
      · rw [r4, a3]; simp [firsts, he]
      · intro t ht vt
        obtain ⟨w1, w2⟩ := a8 t (by omega) vt
        obtain ⟨w3, w4⟩ := r10 t ht w2
        exact ⟨w3.trans w1, w4⟩


/-- `grouper.Distinct` after the table is built: a fresh index holding the first rows of the occupied entries in table
order (whatever capacity `stats.GroupCount` asks for); nothing that existed is touched -/
theorem grouperDistinct_run (E : PIn) (h : Heap) :
    ∃ r h' w, canonGrouperDistinct.run E h = some (.ix r, h', w) ∧ IValid h' r ∧ h'.ixWin r = firsts E.entries ∧
      h'.colss = h.colss ∧ h'.maps = h.maps ∧ h.ixs.length ≤ r.id ∧
      (∀ t : ISlice, t.id < h.ixs.length → IValid h t → h'.ixWin t = h.ixWin t ∧ IValid h' t) := by
  let σ1 : PMem := { h := { h with ixs := h.ixs ++ [List.replicate E.groupCount 0] }, nIx := some ⟨h.ixs.length, 0, 0, E.groupCount⟩ }
  have v1 : IValid σ1.h ⟨h.ixs.length, 0, 0, E.groupCount⟩ := ⟨Nat.zero_le _, by simp [σ1, Heap.ixArr]⟩
  obtain ⟨σ', s', r1, r2, r3, r4, r5, r6, r7, r8, r10⟩ :=
    entry_loop E h.ixs.length E.entries 0 σ1 _ rfl v1 (Nat.le_refl _) (by simp [σ1])
  refine ⟨s', σ'.h, σ'.log, ?_, r3, ?_, r5, r6, r7, ?_⟩
  · simp only [canonGrouperDistinct, PF.run, runSs, PStm.step, PA.exec, PI.eval, Nat.zero_le, ↓reduceIte]
    show (match loopOver entryBody E bindEntry E.entries 0 σ1 with
      | some σ' => runSs E [PStm.ret (PRet.ix PIx.new)] σ'
      | none => none) = _
    rw [r1]
    simp [runSs, PRet.eval, PIx.eval, r2]
  · rw [r4]; simp [σ1, Heap.ixWin]
  · intro t ht vt
    have w1 := ixWin_alloc h t vt (List.replicate E.groupCount 0) h.colss h.maps
    have w2 : IValid σ1.h t := ⟨vt.lenCap, by
      have := vt.inArr
      simp only [σ1, Heap.ixArr] at this ⊢
      rw [getD_append_lt _ _ _ _ ht]; exact this⟩
    obtain ⟨w3, w4⟩ := r10 t ht w2
    exact ⟨w3.trans w1, w4⟩


/-- the rows an `index.Bool` keeps -/
def filt : List Bool → List Nat → List Nat
  | b :: bs, x :: xs => if b then x :: filt bs xs else filt bs xs
  | _, _ => []

theorem count_loop (E : PIn) (bs : List Bool) : ∀ (k : Nat) (σ : PMem),
    loopOver countBody E bindBool bs k σ = some { σ with count := σ.count + bs.count true } := by
  induction bs with
  | nil => intro k σ; simp [loopOver]
  | cons b bs ih =>
    intro k σ
    cases b with
    | false =>
      have e1 : execLs (bindBool E k false) countBody σ = some σ := by
        simp [countBody, execLs, PL.exec, PCond.eval, bindBool]
      simp only [loopOver, e1, ih]; simp
    | true =>
      have e1 : execLs (bindBool E k true) countBody σ = some { σ with count := σ.count + 1 } := by
        simp [countBody, execLs, PL.exec, PCond.eval, bindBool, execAs, PA.exec]
      simp only [loopOver, e1, ih]; simp [Nat.add_assoc, Nat.add_comm 1]

theorem filter_loop (E : PIn) (b : Nat) (win : List Nat) (hp : E.ixParam.id < b) (bs : List Bool) :
    ∀ (k : Nat) (σ : PMem) (s : ISlice), σ.nIx = some s → IValid σ.h s → b ≤ s.id → b ≤ σ.h.ixs.length →
      IValid σ.h E.ixParam → σ.h.ixWin E.ixParam = win → k + bs.length ≤ win.length →
      ∃ σ' s', loopOver filterBody E bindBool bs k σ = some σ' ∧ σ'.nIx = some s' ∧ IValid σ'.h s' ∧
        σ'.h.ixWin s' = σ.h.ixWin s ++ filt bs (win.drop k) ∧ σ'.h.colss = σ.h.colss ∧ σ'.h.maps = σ.h.maps ∧
        b ≤ s'.id ∧ b ≤ σ'.h.ixs.length ∧
        (∀ t : ISlice, t.id < b → IValid σ.h t → σ'.h.ixWin t = σ.h.ixWin t ∧ IValid σ'.h t) := by
  induction bs with
  | nil =>
    intro k σ s hs v hb hl vp hw hk
    exact ⟨σ, s, rfl, hs, v, by simp [filt], rfl, rfl, hb, hl, fun t _ vt => ⟨rfl, vt⟩⟩
  | cons x bs ih =>
    intro k σ s hs v hb hl vp hw hk
    simp only [List.length_cons] at hk
    have hkl : k < win.length := by omega
    have hd : win.drop k = win[k] :: win.drop (k + 1) := List.drop_eq_getElem_cons hkl
    cases x with
    | false =>
      have e1 : execLs (bindBool E k false) filterBody σ = some σ := by
        simp [filterBody, execLs, PL.exec, PCond.eval, bindBool]
      obtain ⟨σ', s', r1, r2, r3, r4, r5, r6, r7, r8, r10⟩ := ih (k + 1) σ s hs v hb hl vp hw (by omega)
      refine ⟨σ', s', by simp only [loopOver, e1, r1], r2, r3, ?_, r5, r6, r7, r8, r10⟩
      rw [r4, hd]; simp [filt]
    | true =>
      have hpl : (σ.h.ixWin E.ixParam).length = E.ixParam.len := ixWin_length vp
      have hkp : k < E.ixParam.len := by rw [← hpl, hw]; exact hkl
      obtain ⟨s1, a1, a2, a3, a4, a5, a6, a7, a8⟩ := appendIxTo_spec σ s v win[k]
      have e1 : execLs (bindBool E k true) filterBody σ = some (appendIxTo σ s win[k]) := by
        simp [filterBody, execLs, PL.exec, PCond.eval, bindBool, execAs, PA.exec, PIx.eval, PU.eval, PI.eval, hs, hkp, hw,
          List.getElem?_eq_getElem hkl]
      have hb1 : b ≤ s1.id := by rcases a6 with h1 | h1 <;> omega
      obtain ⟨wp1, wp2⟩ := a8 E.ixParam (by omega) vp
      obtain ⟨σ', s', r1, r2, r3, r4, r5, r6, r7, r8, r10⟩ :=
        ih (k + 1) (appendIxTo σ s win[k]) s1 a1 a2 hb1 (by omega) wp2 (wp1.trans hw) (by omega)
      refine ⟨σ', s', by simp only [loopOver, e1, r1], r2, r3, ?_, r5.trans a4, r6.trans a5, r7, r8, ?_⟩
      · rw [r4, a3, hd]; simp [filt]
      · intro t ht vt
        obtain ⟨w1, w2⟩ := a8 t (by omega) vt
        obtain ⟨w3, w4⟩ := r10 t ht w2
        exact ⟨w3.trans w1, w4⟩

/-- `Int.Filter(bIx)`: a fresh index with the rows whose flag is set, in order (the flags must not outnumber the rows:
Go panics otherwise); nothing that existed is touched -/
theorem ixFilter_run (E : PIn) (h : Heap) (v : IValid h E.ixParam) (hid : E.ixParam.id < h.ixs.length)
    (hlen : E.bools.length ≤ E.ixParam.len) :
    ∃ r h' w, canonIxFilter.run E h = some (.ix r, h', w) ∧ IValid h' r ∧
      h'.ixWin r = filt E.bools (h.ixWin E.ixParam) ∧ h'.colss = h.colss ∧ h'.maps = h.maps ∧ h.ixs.length ≤ r.id ∧
      (∀ t : ISlice, t.id < h.ixs.length → IValid h t → h'.ixWin t = h.ixWin t ∧ IValid h' t) := by
  let n := E.bools.count true
  let σ1 : PMem := { h := { h with ixs := h.ixs ++ [List.replicate n 0] }, nIx := some ⟨h.ixs.length, 0, 0, n⟩, count := n }
  have v1 : IValid σ1.h ⟨h.ixs.length, 0, 0, n⟩ := ⟨Nat.zero_le _, by simp [σ1, Heap.ixArr]⟩
  have alloc_valid : ∀ t : ISlice, t.id < h.ixs.length → IValid h t → IValid σ1.h t := fun t ht vt => ⟨vt.lenCap, by
      have := vt.inArr
      simp only [σ1, Heap.ixArr] at this ⊢
      rw [getD_append_lt _ _ _ _ ht]; exact this⟩
  have wp : σ1.h.ixWin E.ixParam = h.ixWin E.ixParam := ixWin_alloc h _ v _ _ _
  obtain ⟨σ', s', r1, r2, r3, r4, r5, r6, r7, r8, r10⟩ :=
    filter_loop E h.ixs.length (h.ixWin E.ixParam) hid E.bools 0 σ1 _ rfl v1 (Nat.le_refl _) (by simp [σ1])
      (alloc_valid _ hid v) wp (by rw [ixWin_length v]; simpa using hlen)
  refine ⟨s', σ'.h, σ'.log, ?_, r3, ?_, r5, r6, r7, ?_⟩
  · simp only [canonIxFilter, PF.run, runSs, PStm.step, PA.exec, count_loop, PI.eval, Nat.zero_le, ↓reduceIte, Nat.zero_add]
    show (match loopOver filterBody E bindBool E.bools 0 σ1 with
      | some σ' => runSs E [PStm.ret (PRet.ix PIx.new)] σ'
      | none => none) = _
    rw [r1]
    simp [runSs, PRet.eval, PIx.eval, r2]
  · rw [r4]; simp [σ1, Heap.ixWin]
  · intro t ht vt
    obtain ⟨w3, w4⟩ := r10 t ht (alloc_valid t ht vt)
    exact ⟨w3.trans (ixWin_alloc h t vt _ _ _), w4⟩


theorem asc_loop (E : PIn) (pre : List (List Nat)) (n : Nat) (m : Nat) :
    ∀ (k : Nat) (arr : List Nat) (σ : PMem), arr.length = n → k + m ≤ n → σ.h.ixs = pre ++ [arr] →
      σ.nIx = some ⟨pre.length, 0, n, n⟩ →
      ∃ σ', loopOver ascBody E bindUnit (List.replicate m ()) k σ = some σ' ∧
        σ'.h.ixs = pre ++ [setWin arr k (List.range' k m)] ∧ σ'.h.colss = σ.h.colss ∧ σ'.h.maps = σ.h.maps ∧
        σ'.nIx = σ.nIx := by
  induction m with
  | zero =>
    intro k arr σ ha hk hσ hn
    exact ⟨σ, rfl, by simp [hσ, setWin], rfl, rfl, rfl⟩
  | succ m ih =>
    intro k arr σ ha hk hσ hn
    have hkn : k < n := by omega
    let σ1 : PMem :=
      { σ with h := σ.h.setIx pre.length ((σ.h.ixArr pre.length).set (0 + k) k), log := σ.log ++ [⟨.ix, pre.length⟩] }
    have e1 : execLs (bindUnit E k ()) ascBody σ = some σ1 := by
      simp [ascBody, execLs, PL.exec, PA.exec, PIx.eval, PI.eval, PU.eval, bindUnit, hn, hkn, σ1]
    have h1 : σ1.h.ixs = pre ++ [arr.set k k] := by
      simp [σ1, Heap.setIx, Heap.ixArr, hσ]
    obtain ⟨σ', r1, r2, r3, r4, r5⟩ := ih (k + 1) (arr.set k k) σ1 (by simp [ha]) (by omega) h1 hn
    refine ⟨σ', ?_, ?_, r3, r4, r5⟩
    · simp only [List.replicate_succ, loopOver, e1, r1]
    · rw [r2, setWin_cons_set _ _ _ _ (by omega)]; rfl

/-- `NewAscending(size)`: a fresh index `0, 1, …, size-1` -/
theorem ascending_run (E : PIn) (h : Heap) :
    ∃ w, canonAscending.run E h = some (.ix ⟨h.ixs.length, 0, E.size, E.size⟩,
      { h with ixs := h.ixs ++ [List.range E.size] }, w) := by
  let σ1 : PMem := { h := { h with ixs := h.ixs ++ [List.replicate E.size 0] }, nIx := some ⟨h.ixs.length, 0, E.size, E.size⟩ }
  obtain ⟨σ', r1, r2, r3, r4, r5⟩ := asc_loop E h.ixs E.size E.size 0 (List.replicate E.size 0) σ1 (by simp) (by omega) rfl rfl
  refine ⟨σ'.log, ?_⟩
  simp only [canonAscending, PF.run, runSs, PStm.step, PA.exec, PI.eval, Nat.le_refl, ↓reduceIte, PIx.eval]
  show (match loopOver ascBody E bindUnit (List.replicate E.size ()) 0 σ1 with
    | some σ' => runSs E [PStm.ret (PRet.ix PIx.new)] σ'
    | none => none) = _
  rw [r1]
  simp only [runSs, PRet.eval, PIx.eval, r5, Option.map_some, σ1]
  have : σ'.h = { h with ixs := h.ixs ++ [List.range E.size] } := by
    have e : setWin (List.replicate E.size 0) 0 (List.range' 0 E.size) = List.range E.size := by
      rw [setWin_all _ _ (by simp), List.range_eq_range']
    cases hh : σ'.h with
    | mk a b c =>
      rw [hh] at r2 r3 r4
      simp only at r2 r3 r4
      rw [r2, r3, r4, e]
  rw [this]


/-! ## Today's terms as a library -/

def genIx (name : String) : PF := (Gen.indexAst.lookup name).getD (.opaque name)
def genOp (name : String) : PF := (Gen.projectAst.lookup name).getD (.opaque name)
def genHelper (name : String) : PRet := (Gen.frameHelperAst.lookup name).getD (.opaque name)

theorem genIx_eq (name : String) : genIx name = (canonIndex.lookup name).getD (.opaque name) := by
  rw [genIx, gen_project_canon.2.2]
theorem genOp_eq (name : String) : genOp name = (canonProject.lookup name).getD (.opaque name) := by
  rw [genOp, gen_project_canon.2.1]
theorem genHelper_eq (name : String) : genHelper name = (canonHelpers.lookup name).getD (.opaque name) := by
  rw [genHelper, gen_project_canon.1]

/-- What lies outside the model: what the sorter makes of the rows it is given, and the table `groupIndex` builds for the
rows of an index — its entries in table order (occupied, first row) and the group count it reports. -/
structure Ext where
  sortFn : List Nat → List Nat
  table : List Nat → List (Bool × Nat) × Nat

def ixResult : Option POut → Option (ISlice × Heap × List Wr)
  | some (.ix r, h, w) => some (r, h, w)
  | _ => none

theorem ixResult_some {o : Option POut} {r : ISlice} {h : Heap} {w : List Wr} (e : ixResult o = some (r, h, w)) :
    o = some (.ix r, h, w) := by
  unfold ixResult at e
  split at e
  · cases e; rfl
  · cases e

/-- today's `Int.Copy` and `grouper.Distinct` (after `groupIndex`) as the functions a body may call -/
def genCallIx (X : Ext) (fn : IxFn) (s : ISlice) (h : Heap) : Option (ISlice × Heap × List Wr) :=
  match fn with
  | .copy => ixResult ((genIx "Int.Copy").run { ixParam := s } h)
  | .distinct =>
    ixResult ((genIx "grouper.Distinct").run
      { ixParam := s, entries := (X.table (h.ixWin s)).1, groupCount := (X.table (h.ixWin s)).2 } h)

/-- what the guards see of a physical frame -/
def physReq (h : Heap) (f : PFrame) : GReq :=
  { hasErr := f.err, rows := f.index.len, known := fun n => (f.lookup h n).isSome }

/-- A whole operation of today's source: its guard chain (`QF.Gen.guardAst`), then — if the request passes — its work. -/
def genFull (op : String) (q : GReq) (E : PIn) (h : Heap) : Option POut :=
  match C08Guards.genGuards op q with
  | some .returnSelf => some (.frame E.f, h, [])
  | some .err => (genHelper "(error) → frame").eval { E with errParam := true } { h := h }
  | some .ok => (genOp op).run E h
  | _ => none

def baseEnv (X : Ext) (f : PFrame) : PIn := { f := f, sortFn := X.sortFn, callIx := genCallIx X }

/-- today's `qf.Select(names...)` -/
def genSelect (X : Ext) (f : PFrame) (names : List Bytes) (h : Heap) : Option POut :=
  genFull "Select" { physReq h f with columns := names } { baseEnv X f with names := names } h

/-- the environment of an operation on receiver `f`: today's library -/
def genEnv (X : Ext) (f : PFrame) : PIn := { baseEnv X f with callSelect := genSelect X f }

/-- an environment without library functions -/
theorem lib_none (E : PIn) (h1 : E.callIx = fun _ _ _ => none) (h2 : E.callSelect = fun _ _ => none) : LibOK E :=
  ⟨fun fn s h r h' w e => (by rw [h1] at e; cases e), fun ns h out e => (by rw [h2] at e; cases e)⟩

/-- every term generated today writes only to what it made itself, and returns no index but the one it made -/
theorem gen_own_only :
    (∀ p ∈ Gen.projectAst, p.2.ownOnly = true ∧ PFretsNew p.2 = true) ∧
    (∀ p ∈ Gen.indexAst, p.2.ownOnly = true ∧ PFretsNew p.2 = true) ∧
    (∀ p ∈ Gen.frameHelperAst, retNew p.2 = true) := by decide

theorem lookup_mem {β : Type} (l : List (String × β)) (k : String) (v : β) (h : l.lookup k = some v) : (k, v) ∈ l := by
  induction l with
  | nil => cases h
  | cons a l ih =>
    obtain ⟨k', v'⟩ := a
    simp only [List.lookup] at h
    cases hk : k == k' with
    | true =>
      rw [hk] at h
      simp only [Option.some.injEq] at h
      have : k = k' := by simpa using hk
      subst this; subst h
      exact List.mem_cons_self
    | false =>
      rw [hk] at h
      exact List.mem_cons_of_mem _ (ih h)

theorem genIx_own (name : String) : (genIx name).ownOnly = true ∧ PFretsNew (genIx name) = true := by
  unfold genIx
  cases hl : Gen.indexAst.lookup name with
  | none => exact ⟨rfl, rfl⟩
  | some t => exact gen_own_only.2.1 _ (lookup_mem _ _ _ hl)

theorem genOp_own (name : String) : (genOp name).ownOnly = true ∧ PFretsNew (genOp name) = true := by
  unfold genOp
  cases hl : Gen.projectAst.lookup name with
  | none => exact ⟨rfl, rfl⟩
  | some t => exact gen_own_only.1 _ (lookup_mem _ _ _ hl)

theorem genHelper_new (name : String) : retNew (genHelper name) = true := by
  unfold genHelper
  cases hl : Gen.frameHelperAst.lookup name with
  | none => rfl
  | some t => exact gen_own_only.2.2 _ (lookup_mem _ _ _ hl)

theorem genCallIx_ok (X : Ext) (fn : IxFn) (s : ISlice) (h : Heap) (r : ISlice) (h' : Heap) (w : List Wr)
    (e : genCallIx X fn s h = some (r, h', w)) : Persistent h (.ix r, h', w) := by
  cases fn with
  | copy =>
    exact run_persistent _ (lib_none _ rfl rfl) _ (genIx_own _).1 (genIx_own _).2 h _ (ixResult_some e)
  | distinct =>
    exact run_persistent _ (lib_none _ rfl rfl) _ (genIx_own _).1 (genIx_own _).2 h _ (ixResult_some e)

theorem baseEnv_ok (X : Ext) (f : PFrame) (E : PIn) (h1 : E.callIx = genCallIx X) (h2 : E.callSelect = fun _ _ => none) :
    LibOK E :=
  ⟨fun fn s h r h' w e => (by rw [h1] at e; exact genCallIx_ok X fn s h r h' w e),
   fun ns h out e => (by rw [h2] at e; cases e)⟩

theorem genSelect_ok (X : Ext) (f : PFrame) (ns : List Bytes) (h : Heap) (out : POut)
    (e : genSelect X f ns h = some out) : Persistent h out := by
  unfold genSelect genFull at e
  split at e
  · cases e; exact ⟨fun _ hx => (by cases hx), Unchanged.refl h, fun s hs => (by cases hs)⟩
  · exact ret_inv _ (baseEnv_ok X f _ rfl rfl) h _ (genHelper_new _) _ (Inv.init h) out e
  · exact run_persistent _ (baseEnv_ok X f _ rfl rfl) _ (genOp_own _).1 (genOp_own _).2 h out e
  · cases e

/-- today's library keeps the discipline it is assumed to keep -/
theorem genEnv_ok (X : Ext) (f : PFrame) (E : PIn) (h1 : E.callIx = genCallIx X) (h2 : E.callSelect = genSelect X f) :
    LibOK E :=
  ⟨fun fn s h r h' w e => (by rw [h1] at e; exact genCallIx_ok X fn s h r h' w e),
   fun ns h out e => (by rw [h2] at e; exact genSelect_ok X f ns h out e)⟩


/-! ## Sort and Distinct -/

theorem genCallIx_copy (X : Ext) (s : ISlice) (h : Heap) (v : IValid h s) :
    genCallIx X .copy s h =
      some (⟨h.ixs.length, 0, s.len, s.len⟩, { h with ixs := h.ixs ++ [h.ixWin s] }, [⟨.ix, h.ixs.length⟩]) := by
  have e : genIx "Int.Copy" = canonIxCopy := by rw [genIx_eq]; rfl
  simp only [genCallIx, e]
  rw [ixCopy_run _ h v]; rfl

/-- the heap and frame `Sort` returns: the index copied into a new array and sorted there -/
def sortHeap (X : Ext) (h : Heap) (f : PFrame) : Heap :=
  { h with ixs := h.ixs ++ [setWin (h.ixWin f.index) 0 (X.sortFn (h.ixWin f.index))] }
def sortFrame (h : Heap) (f : PFrame) : PFrame := { f with index := ⟨h.ixs.length, 0, f.index.len, f.index.len⟩ }

theorem sort_run (X : Ext) (E : PIn) (h : Heap) (v : IValid h E.f.index) (hc : E.callIx = genCallIx X)
    (hs : E.sortFn = X.sortFn) :
    canonSort.run E h = some (.frame (sortFrame h E.f), sortHeap X h E.f, [⟨.ix, h.ixs.length⟩, ⟨.ix, h.ixs.length⟩]) := by
  have hl := ixWin_length v
  have hw : ({ ixs := h.ixs ++ [h.ixWin E.f.index], colss := h.colss, maps := h.maps } : Heap).ixWin
      ⟨h.ixs.length, 0, E.f.index.len, E.f.index.len⟩ = h.ixWin E.f.index := by
    have := ixWin_new h (h.ixWin E.f.index) h.colss h.maps
    rw [hl] at this; exact this
  simp only [canonSort, PF.run, runSs, PStm.step, PA.exec, PIx.eval, hc, genCallIx_copy X _ h v, hs, PRet.eval, PCs.eval,
    PMp.eval, Heap.setIx, Heap.ixArr, getD_append_last, set_append_last, hw, List.nil_append]
  rfl

theorem sort_ixList (X : Ext) (h : Heap) (f : PFrame) (v : IValid h f.index)
    (hlen : (X.sortFn (f.ixList h)).length = (f.ixList h).length) :
    (sortFrame h f).ixList (sortHeap X h f) = X.sortFn (f.ixList h) := by
  have hl : (h.ixWin f.index).length = f.index.len := ixWin_length v
  have hlen' : (X.sortFn (h.ixWin f.index)).length = (h.ixWin f.index).length := hlen
  have := ixWin_new h (setWin (h.ixWin f.index) 0 (X.sortFn (h.ixWin f.index))) h.colss h.maps
  rw [setWin_all _ _ hlen'.symm, hlen', hl] at this
  simp only [PFrame.ixList, sortFrame, sortHeap]
  rw [setWin_all _ _ hlen'.symm]
  exact this

/-- a frame that shares column list and name map with a well-formed one and has a valid index of known rows -/
theorem wf_reindex {h h' : Heap} {f : PFrame} {L : Nat} (wf : PWF h f L) (s : ISlice) (hc : h'.colss = h.colss)
    (hm : h'.maps = h.maps) (v : IValid h' s) (hlt : ∀ p, p ∈ h'.ixWin s → p < L) :
    PWF h' { f with index := s } L := by
  have e1 : ({ f with index := s } : PFrame).colList h' = f.colList h := by
    simp only [PFrame.colList, Heap.colWin, Heap.colArr, hc]
  have e2 : ∀ k, ({ f with index := s } : PFrame).lookup h' k = f.lookup h k := by
    intro k; simp only [PFrame.lookup, Heap.mapGet, Heap.mapOf, Heap.mapArr, hm]
  constructor
  · exact v
  · have := wf.colsIn; simp only [Heap.colArr, hc] at this ⊢; exact this
  · intro id hid; rw [hm]; exact wf.mapIn id hid
  · intro i c hi; rw [e1] at hi; exact wf.pos i c hi
  · intro n c hn; rw [e2] at hn; rw [e1]; exact wf.mapOk n c hn
  · intro c hcm; rw [e1] at hcm; rw [e2]; exact wf.mapTotal c hcm
  · intro c hcm; rw [e1] at hcm; exact wf.hasCol c hcm
  · exact hlt

theorem sort_wf (X : Ext) (h : Heap) (f : PFrame) (L : Nat) (wf : PWF h f L)
    (hperm : (X.sortFn (f.ixList h)).Perm (f.ixList h)) : PWF (sortHeap X h f) (sortFrame h f) L := by
  have hix := sort_ixList X h f wf.ixValid hperm.length_eq
  have hl : (h.ixWin f.index).length = f.index.len := ixWin_length wf.ixValid
  refine wf_reindex wf _ rfl rfl ⟨Nat.le_refl _, ?_⟩ ?_
  · have hlen' : (X.sortFn (h.ixWin f.index)).length = (h.ixWin f.index).length := hperm.length_eq
    simp [sortHeap, Heap.ixArr, setWin_all _ _ hlen'.symm, hlen', hl]
  · intro p hp
    have : p ∈ (sortFrame h f).ixList (sortHeap X h f) := hp
    rw [hix] at this
    exact wf.ixLt p (hperm.subset this)

/-- the heap and frame `Distinct` returns: whatever `grouper.Distinct` makes of the table, columns and map shared -/
theorem distinct_run (X : Ext) (E : PIn) (h : Heap) (hc : E.callIx = genCallIx X) :
    ∃ r h' w, canonDistinct.run E h = some (.frame { E.f with index := r }, h', w) ∧ IValid h' r ∧
      h'.ixWin r = firsts (X.table (h.ixWin E.f.index)).1 ∧ h'.colss = h.colss ∧ h'.maps = h.maps ∧
      h.ixs.length ≤ r.id := by
  have e : genIx "grouper.Distinct" = canonGrouperDistinct := by rw [genIx_eq]; rfl
  obtain ⟨r, h', w, e1, e2, e3, e4, e5, e6, _⟩ := grouperDistinct_run
    { ixParam := E.f.index, entries := (X.table (h.ixWin E.f.index)).1, groupCount := (X.table (h.ixWin E.f.index)).2 } h
  have hcall : genCallIx X .distinct E.f.index h = some (r, h', w) := by
    simp only [genCallIx, e, e1, ixResult]
  refine ⟨r, h', [] ++ w, ?_, e2, e3, e4, e5, e6⟩
  simp only [canonDistinct, PF.run, runSs, PStm.step, PA.exec, PIx.eval, hc, hcall, PRet.eval, PCs.eval, PMp.eval]


/-! ## Drop -/

/-- the names `Drop` hands to `Select`: those of the columns that are not dropped, in column order -/
def keptOf (h : Heap) (f : PFrame) (names : List Bytes) : List Bytes :=
  ((f.colList h).filter (fun c => !names.contains c.name)).map (·.name)

theorem drop_loop (E : PIn) (cs : List NCol) : ∀ (k : Nat) (σ : PMem),
    loopOver dropBody E bindCol cs k σ =
      some { σ with kept := σ.kept ++ (cs.filter (fun c => !E.names.contains c.name)).map (·.name) } := by
  induction cs with
  | nil => intro k σ; simp [loopOver]
  | cons c cs ih =>
    intro k σ
    cases hc : E.names.contains c.name with
    | true =>
      have hm : c.name ∈ E.names := by simpa using hc
      have e1 : execLs (bindCol E k c) dropBody σ = some σ := by
        simp [dropBody, execLs, PL.exec, PCond.eval, PN.eval, PEl.eval, bindCol, hm]
      simp only [loopOver, e1, ih, List.filter_cons, hc]; simp
    | false =>
      have hm : ¬ c.name ∈ E.names := by simpa using hc
      have e1 : execLs (bindCol E k c) dropBody σ = some { σ with kept := σ.kept ++ [c.name] } := by
        simp [dropBody, execLs, PL.exec, PCond.eval, PN.eval, PEl.eval, bindCol, hm, execAs, PA.exec]
      simp only [loopOver, e1, ih, List.filter_cons, hc]; simp

/-- `Drop` after its guards: `Select` of the names that are left -/
theorem drop_run (E : PIn) (h : Heap) :
    canonDrop.run E h = (E.callSelect (keptOf h E.f E.names) h).map (fun o => (o.1, o.2.1, [] ++ o.2.2)) := by
  simp only [canonDrop, PF.run, runSs, PStm.step, PA.exec, PCs.eval, drop_loop, PRet.eval, PNs.eval, List.nil_append, keptOf,
    PFrame.colList]
  cases E.callSelect _ h with
  | none => rfl
  | some o => obtain ⟨a, b, c⟩ := o; rfl

/-- today's whole `Select` on a frame without error and known names is its work -/
theorem genSelect_known (X : Ext) (f : PFrame) (h : Heap) (hne : f.err = false) (ns : List Bytes)
    (hk : ∀ x, x ∈ ns → (f.lookup h x).isSome = true) :
    genSelect X f ns h = canonSelect.run { baseEnv X f with names := ns } h := by
  have e : genOp "Select" = canonSelect := by rw [genOp_eq]; rfl
  have hany : ns.any (fun n => !(f.lookup h n).isSome) = false := by
    rw [List.any_eq_false]; intro x hx; simp [hk x hx]
  simp only [genSelect, genFull, C08Guards.gen_select_outcome, C08Guards.selectOutcome, physReq, hne, Bool.false_eq_true,
    ↓reduceIte, hany, e]

theorem select_run_empty (E : PIn) (h : Heap) (he : E.names = []) :
    canonSelect.run E h = some (.frame PFrame.empty, h, []) := by
  simp [canonSelect, PF.run, runSs, PCond.eval, PNs.eval, he, PRet.eval]

theorem empty_wf (h : Heap) (L : Nat) : PWF h PFrame.empty L := by
  constructor
  · exact ⟨Nat.le_refl _, Nat.zero_le _⟩
  · exact Nat.zero_le _
  · intro id hid; cases hid
  · intro i c hc; simp [PFrame.colList, Heap.colWin, PFrame.empty, CSlice.nil] at hc
  · intro n c hc; simp [PFrame.lookup, Heap.mapGet, Heap.mapOf, PFrame.empty] at hc
  · intro c hc; simp [PFrame.colList, Heap.colWin, PFrame.empty, CSlice.nil] at hc
  · intro c hc; simp [PFrame.colList, Heap.colWin, PFrame.empty, CSlice.nil] at hc
  · intro p hp; simp [PFrame.ixList, Heap.ixWin, PFrame.empty, ISlice.nil] at hp

theorem empty_abs (h : Heap) : PFrame.empty.abs h = LFrame.empty := by
  simp [PFrame.abs, PFrame.colList, PFrame.ixList, Heap.colWin, Heap.ixWin, PFrame.empty, CSlice.nil, ISlice.nil, LFrame.empty]

theorem kept_known {h : Heap} {f : PFrame} {L : Nat} (wf : PWF h f L) (names : List Bytes) :
    ∀ x, x ∈ keptOf h f names → (f.lookup h x).isSome = true := by
  intro x hx
  obtain ⟨c, hc, rfl⟩ := List.mem_map.mp hx
  exact wf.mapTotal c (List.mem_filter.mp hc).1

/-- with unique names every column is the one the name map returns for its name -/
theorem lookup_of_mem {h : Heap} {f : PFrame} {L : Nat} (wf : PWF h f L) (u : UniqueNames h f) {c : NCol}
    (hc : c ∈ f.colList h) : (f.abs h).find? c.name = some (lcol (f.ixList h) c) := by
  rw [abs_find, find_of_mem _ u c hc]; rfl

/-- `Drop(names…)`, at least one name, all known, unique names: the spec's frame is the logical frame of what
`Select(<remaining names>…)` returns (`QFrame{}` when nothing is left) -/
theorem drop_abs {h : Heap} {f : PFrame} {L : Nat} (wf : PWF h f L) (u : UniqueNames h f) (names : List Bytes)
    (hne : names ≠ []) (hk : ∀ x, x ∈ names → (f.lookup h x).isSome = true) :
    dropS (f.abs h) names = .ok (if keptOf h f names = [] then LFrame.empty
      else (selectFrame h f (keptOf h f names)).abs (selectHeap h f (keptOf h f names))) := by
  have hemp : names.isEmpty = false := by cases names with
    | nil => exact absurd rfl hne
    | cons => rfl
  have hall : names.all (f.abs h).has = true := by
    rw [List.all_eq_true]; intro x hx; rw [abs_has wf]; exact hk x hx
  have hkeep : (f.abs h).cols.filter (fun c => !names.contains c.name) =
      ((f.colList h).filter (fun c => !names.contains c.name)).map (lcol (f.ixList h)) := by
    simp only [PFrame.abs, List.filter_map]; rfl
  simp only [dropS, hemp, Bool.false_eq_true, ↓reduceIte, hall, Bool.not_true, hkeep]
  by_cases hke : keptOf h f names = []
  · have : (f.colList h).filter (fun c => !names.contains c.name) = [] := List.map_eq_nil_iff.mp hke
    rw [this, if_pos hke]; rfl
  · have hne2 : ((f.colList h).filter (fun c => !names.contains c.name)) ≠ [] := by
      intro he; apply hke; unfold keptOf; rw [he]; rfl
    have hemp2 : (((f.colList h).filter (fun c => !names.contains c.name)).map (lcol (f.ixList h))).isEmpty = false := by
      cases hl : (f.colList h).filter (fun c => !names.contains c.name) with
      | nil => exact absurd hl hne2
      | cons => rfl
    simp only [hemp2, Bool.false_eq_true, ↓reduceIte, hke]
    have hs := select_abs h f L wf u (keptOf h f names) hke (kept_known wf names)
    have hall2 : (keptOf h f names).all (f.abs h).has = true := by
      rw [List.all_eq_true]; intro x hx; rw [abs_has wf]; exact kept_known wf names x hx
    have hemp3 : (keptOf h f names).isEmpty = false := by
      cases hl : keptOf h f names with
      | nil => exact absurd hl hke
      | cons => rfl
    simp only [selectS, hall2, hemp3, Bool.false_eq_true, ↓reduceIte, Res.ok.injEq] at hs
    rw [← hs]
    congr 1
    -- every remaining name finds its own column
    have hfm : ∀ l : List NCol, (∀ c, c ∈ l → c ∈ f.colList h) →
        (l.map (·.name)).filterMap (f.abs h).find? = l.map (lcol (f.ixList h)) := by
      intro l
      induction l with
      | nil => intro _; rfl
      | cons c l ih =>
        intro hm
        simp only [List.map_cons, List.filterMap_cons, lookup_of_mem wf u (hm c List.mem_cons_self)]
        rw [ih fun x hx => hm x (List.mem_cons_of_mem _ hx)]
    simp only [keptOf]
    rw [hfm _ fun c hc => (List.mem_filter.mp hc).1]


/-! ## Main theorems -/

theorem genOp_slice : genOp "Slice" = canonSlice := by rw [genOp_eq]; rfl
theorem genOp_select : genOp "Select" = canonSelect := by rw [genOp_eq]; rfl
theorem genOp_drop : genOp "Drop" = canonDrop := by rw [genOp_eq]; rfl
theorem genOp_copy : genOp "Copy" = canonCopy := by rw [genOp_eq]; rfl
theorem genOp_setColumn : genOp "setColumn" = canonSetColumn := by rw [genOp_eq]; rfl
theorem genOp_sort : genOp "Sort" = canonSort := by rw [genOp_eq]; rfl
theorem genOp_distinct : genOp "Distinct" = canonDistinct := by rw [genOp_eq]; rfl

/-- `Slice(a, b)` of today's source, `0 ≤ a ≤ b ≤ Len()` -/
theorem gen_slice_semantics (X : Ext) (h : Heap) (f : PFrame) (L : Nat) (wf : PWF h f L) (a b : Int)
    (h0 : 0 ≤ a) (hab : a ≤ b) (hb : b ≤ (f.index.len : Int)) :
    ∃ f', (genOp "Slice").run { genEnv X f with start := a, stop := b } h = some (.frame f', h, []) ∧
      sliceS (f.abs h) a b = .ok (f'.abs h) ∧ PWF h f' L ∧ (UniqueNames h f → UniqueNames h f') := by
  refine ⟨sliceFrame f a.toNat b.toNat, ?_, slice_abs h f L wf a b h0 hab hb,
    slice_wf h f L wf _ _ (by omega) (by omega), fun u => u⟩
  rw [genOp_slice]
  exact slice_run _ h h0 hab (by have := wf.ixValid.lenCap; show b.toNat ≤ f.index.cap; omega)

/-- `Select(names…)` of today's source, all names known -/
theorem gen_select_semantics (X : Ext) (h : Heap) (f : PFrame) (L : Nat) (wf : PWF h f L) (u : UniqueNames h f)
    (names : List Bytes) (hk : ∀ x, x ∈ names → (f.lookup h x).isSome = true) :
    ∃ f' h' w, (genOp "Select").run { genEnv X f with names := names } h = some (.frame f', h', w) ∧
      selectS (f.abs h) names = .ok (f'.abs h') ∧ PWF h' f' L ∧ (names.Nodup → UniqueNames h' f') := by
  rw [genOp_select]
  by_cases hne : names = []
  · subst hne
    refine ⟨PFrame.empty, h, [], select_run_empty _ h rfl, ?_, empty_wf h L, fun _ => ?_⟩
    · rw [empty_abs]; rfl
    · simp [UniqueNames, PFrame.colList, Heap.colWin, PFrame.empty, CSlice.nil]
  · obtain ⟨w, e⟩ := select_run { genEnv X f with names := names } h wf.mapIn hne
    exact ⟨_, _, w, e, select_abs h f L wf u names hne hk, select_wf h f L wf names hk,
      fun hd => select_unique h f L wf names hd hk⟩

/-- `Drop(names…)` of today's source, at least one name, all known, no error on the frame (the final `qf.Select(…)` is
today's whole `Select`, guards included) -/
theorem gen_drop_semantics (X : Ext) (h : Heap) (f : PFrame) (L : Nat) (wf : PWF h f L) (u : UniqueNames h f)
    (he : f.err = false) (names : List Bytes) (hne : names ≠ []) (hk : ∀ x, x ∈ names → (f.lookup h x).isSome = true) :
    ∃ f' h' w, (genOp "Drop").run { genEnv X f with names := names } h = some (.frame f', h', w) ∧
      dropS (f.abs h) names = .ok (f'.abs h') ∧ PWF h' f' L ∧ UniqueNames h' f' := by
  rw [genOp_drop, drop_run]
  have hsel : ({ genEnv X f with names := names } : PIn).callSelect (keptOf h f names) h =
      canonSelect.run { baseEnv X f with names := keptOf h f names } h :=
    genSelect_known X f h he _ (kept_known wf names)
  have hkeptE : keptOf h ({ genEnv X f with names := names } : PIn).f ({ genEnv X f with names := names } : PIn).names
      = keptOf h f names := rfl
  rw [hkeptE, hsel, drop_abs wf u names hne hk]
  by_cases hke : keptOf h f names = []
  · rw [select_run_empty _ h hke, if_pos hke]
    refine ⟨PFrame.empty, h, _, rfl, by rw [empty_abs], empty_wf h L, ?_⟩
    simp [UniqueNames, PFrame.colList, Heap.colWin, PFrame.empty, CSlice.nil]
  · obtain ⟨w, e⟩ := select_run { baseEnv X f with names := keptOf h f names } h wf.mapIn hke
    rw [e, if_neg hke]
    refine ⟨_, _, _, rfl, rfl, select_wf h f L wf _ (kept_known wf names), ?_⟩
    apply select_unique h f L wf _ _ (kept_known wf names)
    exact ((List.filter_sublist).map _).nodup u

/-- `Copy(dst, src)` of today's source (`setColumn` inlined): `src` known, `dst ≠ src`, `dst` a legal name -/
theorem gen_copy_semantics (X : Ext) (h : Heap) (f : PFrame) (L : Nat) (wf : PWF h f L) (u : UniqueNames h f)
    (dst src : Bytes) (hs : (f.lookup h src).isSome = true) (hne : dst ≠ src) (hleg : legalName dst = true) :
    ∃ f' h' w, (genOp "Copy").run { genEnv X f with dst := dst, src := src } h = some (.frame f', h', w) ∧
      copyS (f.abs h) dst src = .ok (f'.abs h') ∧ PWF h' f' L ∧ UniqueNames h' f' := by
  rw [genOp_copy]
  cases hsrc : f.lookup h src with
  | none => rw [hsrc] at hs; cases hs
  | some cs =>
    have hcol := wf.hasCol cs (List.mem_of_getElem? (wf.mapOk src cs hsrc).1)
    cases hdst : f.lookup h dst with
    | some ex =>
      exact ⟨_, _, _, copy_run_found { genEnv X f with dst := dst, src := src } h L wf cs ex hsrc hdst,
        copy_abs_found wf u dst src cs ex hsrc hdst hne hleg, set_wf_found wf dst ex hdst cs.col hcol,
        set_unique_found wf u dst ex hdst cs.col⟩
    | none =>
      exact ⟨_, _, _, copy_run_missing { genEnv X f with dst := dst, src := src } h L wf cs hsrc hdst,
        copy_abs_missing wf u dst src cs hsrc hdst hne hleg, set_wf_missing wf dst hdst cs.col hcol,
        set_unique_missing wf u dst hdst cs.col⟩

/-- `Sort(orders…)` of today's source after its guards: the index is COPIED and the copy sorted; the result reads the rows
in the order the sorter left them, columns and name map are the receiver's. (That the sorter's order is a sorted
permutation is C03.) -/
theorem gen_sort_semantics (X : Ext) (h : Heap) (f : PFrame) (L : Nat) (wf : PWF h f L)
    (hperm : (X.sortFn (f.ixList h)).Perm (f.ixList h)) :
    ∃ f' h' w, (genOp "Sort").run (genEnv X f) h = some (.frame f', h', w) ∧
      f'.ixList h' = X.sortFn (f.ixList h) ∧ f'.colList h' = f.colList h ∧ (∀ k, f'.lookup h' k = f.lookup h k) ∧
      f'.abs h' = { cols := (f.colList h).map (lcol (X.sortFn (f.ixList h))), n := (f.abs h).n } ∧
      PWF h' f' L ∧ (UniqueNames h f → UniqueNames h' f') := by
  rw [genOp_sort]
  have hix := sort_ixList X h f wf.ixValid hperm.length_eq
  refine ⟨_, _, _, sort_run X (genEnv X f) h wf.ixValid rfl rfl, hix, rfl, fun _ => rfl, ?_, sort_wf X h f L wf hperm,
    fun u => u⟩
  show ({ cols := ((sortFrame h f).colList (sortHeap X h f)).map (lcol ((sortFrame h f).ixList (sortHeap X h f))),
          n := ((sortFrame h f).ixList (sortHeap X h f)).length } : LFrame) = _
  rw [hix, hperm.length_eq]; rfl

/-- `Distinct(…)` of today's source after its guards: a fresh index holding the first row of every occupied entry of the
table in table order; columns and name map are the receiver's. (That the table has one entry per key class is C04/C05.) -/
theorem gen_distinct_semantics (X : Ext) (h : Heap) (f : PFrame) (L : Nat) (wf : PWF h f L)
    (hrows : ∀ p, p ∈ firsts (X.table (f.ixList h)).1 → p ∈ f.ixList h) :
    ∃ f' h' w, (genOp "Distinct").run (genEnv X f) h = some (.frame f', h', w) ∧
      f'.ixList h' = firsts (X.table (f.ixList h)).1 ∧ f'.colList h' = f.colList h ∧
      (∀ k, f'.lookup h' k = f.lookup h k) ∧ PWF h' f' L ∧ (UniqueNames h f → UniqueNames h' f') := by
  rw [genOp_distinct]
  obtain ⟨r, h', w, e1, e2, e3, e4, e5, e6⟩ := distinct_run X (genEnv X f) h rfl
  have hf : (genEnv X f).f = f := rfl
  rw [hf] at e1 e3
  have ec : ({ f with index := r } : PFrame).colList h' = f.colList h := by
    simp only [PFrame.colList, Heap.colWin, Heap.colArr, e4]
  refine ⟨_, h', w, e1, e3, ec, fun k => ?_, wf_reindex wf r e4 e5 e2 fun p hp => ?_, fun u => ?_⟩
  · simp only [PFrame.lookup, Heap.mapGet, Heap.mapOf, Heap.mapArr, e5]
  · rw [e3] at hp; exact wf.ixLt p (hrows p hp)
  · simp only [UniqueNames, ec]; exact u


/-- **The index and column-list work of today's `Slice` / `Select` / `Drop` / `Copy` is the spec's.** For every heap, every
physical frame on it that is well-formed (`PWF`: headers inside their arrays, `pos` = place, the name map holds exactly the
listed columns, row numbers in range) with pairwise different column names, and every request the guards let through: the
term extracted from today's source has a value, the logical frame of the frame it returns is what `sliceS` / `selectS` /
`dropS` / `copyS` compute on the logical frame of the receiver, and the result is again well-formed with pairwise
different names (`Select`: if the requested names are). -/
theorem gen_project_semantics (X : Ext) (h : Heap) (f : PFrame) (L : Nat) (wf : PWF h f L) (u : UniqueNames h f) :
    (∀ a b : Int, 0 ≤ a → a ≤ b → b ≤ (f.index.len : Int) →
      ∃ f' h' w, (genOp "Slice").run { genEnv X f with start := a, stop := b } h = some (.frame f', h', w) ∧
        sliceS (f.abs h) a b = .ok (f'.abs h') ∧ PWF h' f' L ∧ UniqueNames h' f') ∧
    (∀ names : List Bytes, (∀ x, x ∈ names → (f.lookup h x).isSome = true) →
      ∃ f' h' w, (genOp "Select").run { genEnv X f with names := names } h = some (.frame f', h', w) ∧
        selectS (f.abs h) names = .ok (f'.abs h') ∧ PWF h' f' L ∧ (names.Nodup → UniqueNames h' f')) ∧
    (f.err = false → ∀ names : List Bytes, names ≠ [] → (∀ x, x ∈ names → (f.lookup h x).isSome = true) →
      ∃ f' h' w, (genOp "Drop").run { genEnv X f with names := names } h = some (.frame f', h', w) ∧
        dropS (f.abs h) names = .ok (f'.abs h') ∧ PWF h' f' L ∧ UniqueNames h' f') ∧
    (∀ dst src : Bytes, (f.lookup h src).isSome = true → dst ≠ src → legalName dst = true →
      ∃ f' h' w, (genOp "Copy").run { genEnv X f with dst := dst, src := src } h = some (.frame f', h', w) ∧
        copyS (f.abs h) dst src = .ok (f'.abs h') ∧ PWF h' f' L ∧ UniqueNames h' f') := by
  refine ⟨fun a b h0 hab hb => ?_, fun names hk => gen_select_semantics X h f L wf u names hk,
    fun he names hne hk => gen_drop_semantics X h f L wf u he names hne hk,
    fun dst src hs hne hl => gen_copy_semantics X h f L wf u dst src hs hne hl⟩
  obtain ⟨f', e1, e2, e3, e4⟩ := gen_slice_semantics X h f L wf a b h0 hab hb
  exact ⟨f', h, [], e1, e2, e3, e4 u⟩

/-- the guards' view and the logical frame agree: a name is known to the name map iff the logical frame has it, and
`Len()` is the number of logical rows -/
theorem gen_project_requests (h : Heap) (f : PFrame) (L : Nat) (wf : PWF h f L) :
    (∀ x, (f.abs h).has x = (f.lookup h x).isSome) ∧ (f.abs h).n = f.index.len :=
  ⟨abs_has wf, abs_n wf⟩

/-- **The functions of internal/index.** `Int.Copy` returns a NEW array holding the receiver's rows; `Int.Filter` a new
array with the rows whose flag is set, in order; `NewAscending(n)` a new array `0 … n-1`; `NewBool(n)` `n` times `false`;
the two `Len` the lengths. -/
theorem gen_index_semantics (h : Heap) (s : ISlice) (v : IValid h s) :
    ((genIx "Int.Copy").run { ixParam := s } h =
      some (.ix ⟨h.ixs.length, 0, s.len, s.len⟩, { h with ixs := h.ixs ++ [h.ixWin s] }, [⟨.ix, h.ixs.length⟩])) ∧
    (∀ bools : List Bool, s.id < h.ixs.length → bools.length ≤ s.len →
      ∃ r h' w, (genIx "Int.Filter").run { ixParam := s, bools := bools } h = some (.ix r, h', w) ∧ IValid h' r ∧
        h'.ixWin r = filt bools (h.ixWin s) ∧ h.ixs.length ≤ r.id ∧ h'.ixWin s = h.ixWin s) ∧
    (∀ n : Nat, ∃ w, (genIx "NewAscending").run { size := n } h =
      some (.ix ⟨h.ixs.length, 0, n, n⟩, { h with ixs := h.ixs ++ [List.range n] }, w)) ∧
    (∀ n : Nat, (genIx "NewBool").run { size := n } h = some (.bools (List.replicate n false), h, [])) ∧
    ((genIx "Int.Len").run { ixParam := s } h = some (.int s.len, h, [])) ∧
    (∀ bools : List Bool, (genIx "Bool.Len").run { bools := bools } h = some (.int bools.length, h, [])) := by
  have e1 : genIx "Int.Copy" = canonIxCopy := by rw [genIx_eq]; rfl
  have e2 : genIx "Int.Filter" = canonIxFilter := by rw [genIx_eq]; rfl
  have e3 : genIx "NewAscending" = canonAscending := by rw [genIx_eq]; rfl
  have e4 : genIx "NewBool" = .seq [.ret (.bools .size)] := by rw [genIx_eq]; rfl
  have e5 : genIx "Int.Len" = .seq [.ret (.int (.lenIx .param))] := by rw [genIx_eq]; rfl
  have e6 : genIx "Bool.Len" = .seq [.ret (.int .lenBools)] := by rw [genIx_eq]; rfl
  refine ⟨?_, ?_, ?_, ?_, ?_, ?_⟩
  · rw [e1]; exact ixCopy_run _ h v
  · intro bools hid hlen
    rw [e2]
    obtain ⟨r, h', w, r1, r2, r3, _, _, r6, r7⟩ := ixFilter_run { ixParam := s, bools := bools } h v hid hlen
    exact ⟨r, h', w, r1, r2, r3, r6, (r7 s hid v).1⟩
  · intro n; rw [e3]; exact ascending_run { size := n } h
  · intro n; rw [e4]; rfl
  · rw [e5]; rfl
  · intro bools; rw [e6]; rfl

/-- an earlier frame observes the same after any operation that leaves the arrays of its heap unchanged -/
theorem observation_kept {h h' : Heap} (uc : Unchanged h h') {f : PFrame} {L : Nat} (wf : PWF h f L) :
    f.abs h' = f.abs h ∧ f.colList h' = f.colList h ∧ f.ixList h' = f.ixList h ∧ (∀ k, f.lookup h' k = f.lookup h k) := by
  have hix : f.ixList h' = f.ixList h := by
    simp only [PFrame.ixList, Heap.ixWin, Heap.ixArr, List.getD_eq_getElem?_getD]
    rcases Nat.lt_or_ge f.index.id h.ixs.length with h1 | h1
    · rw [uc.ix _ h1]
    · have h2 := wf.ixValid.inArr; have h3 := wf.ixValid.lenCap
      have e : h.ixArr f.index.id = [] := by simp [Heap.ixArr, List.getD_eq_getElem?_getD, List.getElem?_eq_none h1]
      rw [e] at h2
      have : f.index.len = 0 := by simp at h2; omega
      simp [this]
  have hcl : f.colList h' = f.colList h := by
    simp only [PFrame.colList, Heap.colWin, Heap.colArr, List.getD_eq_getElem?_getD]
    rcases Nat.lt_or_ge f.cols.id h.colss.length with h1 | h1
    · rw [uc.cols _ h1]
    · have := wf.colsIn
      have e : h.colArr f.cols.id = [] := by simp [Heap.colArr, List.getD_eq_getElem?_getD, List.getElem?_eq_none h1]
      rw [e] at this
      have : f.cols.len = 0 := by simpa using this
      simp [this]
  have hlk : ∀ k, f.lookup h' k = f.lookup h k := by
    intro k
    simp only [PFrame.lookup, Heap.mapGet]
    cases hm : f.map with
    | none => rfl
    | some id => simp only [Heap.mapOf, Heap.mapArr, List.getD_eq_getElem?_getD]; rw [uc.maps _ (wf.mapIn id hm)]
  exact ⟨by simp only [PFrame.abs, hix, hcl], hcl, hix, hlk⟩

/-- **Persistence (C01), read off the regenerated code.** Every term extracted today writes — statically: the target of
every `copy`, store, `append`, in-place sort and map assignment — only into slices and maps the function made itself, and
an index it returns is the one it made (`Sort` sorts the COPY of the index, `setColumn` fills a NEW column list and a NEW
map, `Select` builds new ones, the functions of internal/index write only their result). Hence, for every heap, every
receiver and all arguments for which it has a value: every logged write goes to an array allocated during the run, every
array that existed before has the same contents afterwards, and a returned index is fresh — provided the functions it
calls do the same, which today's do (`LibOK (genEnv X f)`). So every earlier frame observes what it observed before. -/
theorem gen_project_persistent :
    (∀ p ∈ Gen.projectAst ++ Gen.indexAst, p.2.ownOnly = true ∧ PFretsNew p.2 = true) ∧
    (∀ p ∈ Gen.projectAst ++ Gen.indexAst, ∀ (E : PIn) (h : Heap) (out : POut), LibOK E → p.2.run E h = some out →
      Persistent h out ∧ ∀ (g : PFrame) (L : Nat), PWF h g L → g.abs out.2.1 = g.abs h) ∧
    (∀ (X : Ext) (f : PFrame) (E : PIn), E.callIx = genCallIx X → E.callSelect = genSelect X f → LibOK E) := by
  have hs : ∀ p ∈ Gen.projectAst ++ Gen.indexAst, p.2.ownOnly = true ∧ PFretsNew p.2 = true := by
    intro p hp
    rcases List.mem_append.mp hp with h1 | h1
    · exact gen_own_only.1 p h1
    · exact gen_own_only.2.1 p h1
  refine ⟨hs, fun p hp E h out lib e => ?_, fun X f E h1 h2 => genEnv_ok X f E h1 h2⟩
  have pr := run_persistent E lib p.2 (hs p hp).1 (hs p hp).2 h out e
  exact ⟨pr, fun g L wf => (observation_kept pr.keep wf).1⟩


/-! ## Guards and work together: the whole operations on ALL requests -/

/-- the result of a whole operation against the spec's: the spec's frame without error, or — where the spec rejects — the
receiver's content with an error -/
def Agrees (h : Heap) (f : PFrame) (spec : Res) (o : Option POut) : Prop :=
  ∃ f' h' w, o = some (.frame f', h', w) ∧
    match spec with
    | .ok l => f'.err = false ∧ f'.abs h' = l
    | .err => f'.err = true ∧ f'.abs h' = f.abs h ∧ h' = h

theorem helper_err (E : PIn) (h : Heap) :
    (genHelper "(error) → frame").eval { E with errParam := true } { h := h } =
      some (.frame { E.f with err := true }, h, []) := by
  have e : genHelper "(error) → frame" = .frame .recv .recv .recv .param := by rw [genHelper_eq]; rfl
  rw [e]; rfl

/-- **`Slice`, `Select`, `Drop`, `Copy` of today's source as a whole** — the guard chain `QF.Gen.guardAst` followed by the
work `QF.Gen.projectAst` — on a well-formed frame without error and with pairwise different column names, for ALL
arguments: where the spec says `.err` the frame comes back with an error and unchanged content, otherwise the logical
frame of the result is exactly the spec's. -/
theorem gen_project_total (X : Ext) (h : Heap) (f : PFrame) (L : Nat) (wf : PWF h f L) (u : UniqueNames h f)
    (he : f.err = false) :
    (∀ a b : Int, Agrees h f (sliceS (f.abs h) a b)
      (genFull "Slice" { physReq h f with start := a, stop := b } { genEnv X f with start := a, stop := b } h)) ∧
    (∀ names : List Bytes, Agrees h f (selectS (f.abs h) names)
      (genFull "Select" { physReq h f with columns := names } { genEnv X f with names := names } h)) ∧
    (∀ names : List Bytes, Agrees h f (dropS (f.abs h) names)
      (genFull "Drop" { physReq h f with columns := names } { genEnv X f with names := names } h)) ∧
    (∀ dst src : Bytes, Agrees h f (copyS (f.abs h) dst src)
      (genFull "Copy" { physReq h f with dst := dst, src := src } { genEnv X f with dst := dst, src := src } h)) := by
  have hn := abs_n wf
  refine ⟨fun a b => ?_, fun names => ?_, fun names => ?_, fun dst src => ?_⟩
  · -- Slice
    simp only [genFull, C08Guards.gen_slice_outcome, C08Guards.sliceOutcome, physReq, he, Bool.false_eq_true, ↓reduceIte]
    by_cases hbad : a < 0 ∨ b < a ∨ (f.index.len : Int) < b
    · rw [if_pos hbad]
      have hs : sliceS (f.abs h) a b = .err := by
        rw [C10Sticky.sliceS_err_iff, hn]; omega
      rw [hs]
      exact ⟨_, _, _, helper_err _ h, rfl, rfl, rfl⟩
    · rw [if_neg hbad]
      rw [genOp_slice, slice_run { genEnv X f with start := a, stop := b } h (by show 0 ≤ a; omega) (by show a ≤ b; omega)
        (by have := wf.ixValid.lenCap; show b.toNat ≤ f.index.cap; omega),
        slice_abs h f L wf a b (by omega) (by omega) (by omega)]
      exact ⟨_, _, _, rfl, he, rfl⟩
  · -- Select
    simp only [genFull, C08Guards.gen_select_outcome, C08Guards.selectOutcome, physReq, he, Bool.false_eq_true, ↓reduceIte]
    by_cases hbad : names.any (fun n => !(f.lookup h n).isSome) = true
    · rw [if_pos hbad]
      have hs : selectS (f.abs h) names = .err := by
        rw [C10Sticky.selectS_err_iff]
        obtain ⟨x, hx, hxn⟩ := List.any_eq_true.mp hbad
        exact ⟨x, hx, by rw [abs_has wf]; simpa using hxn⟩
      rw [hs]
      exact ⟨_, _, _, helper_err _ h, rfl, rfl, rfl⟩
    · rw [if_neg hbad]
      have hk : ∀ x, x ∈ names → (f.lookup h x).isSome = true := by
        intro x hx
        cases hv : (f.lookup h x).isSome with
        | true => rfl
        | false => exact absurd (List.any_eq_true.mpr ⟨x, hx, by simp [hv]⟩) hbad
      obtain ⟨f', h', w, e1, e2, e3, _⟩ := gen_select_semantics X h f L wf u names hk
      rw [e2]
      refine ⟨f', h', w, e1, ?_, rfl⟩
      rw [genOp_select] at e1
      by_cases hne : names = []
      · subst hne
        rw [select_run_empty _ h rfl] at e1; cases e1; rfl
      · obtain ⟨w', e⟩ := select_run { genEnv X f with names := names } h wf.mapIn hne
        rw [e] at e1; cases e1; rfl
  · -- Drop
    simp only [genFull, C08Guards.gen_drop_outcome, C08Guards.dropOutcome, physReq, he, Bool.false_or]
    by_cases hemp : names.isEmpty = true
    · have : names = [] := by simpa using hemp
      subst this
      simp only [List.isEmpty_nil, ↓reduceIte]
      exact ⟨f, h, [], rfl, by simp [dropS, he]⟩
    · have hne : names ≠ [] := by intro e; subst e; simp at hemp
      rw [if_neg hemp]
      by_cases hbad : names.any (fun n => !(f.lookup h n).isSome) = true
      · rw [if_pos hbad]
        have hs : dropS (f.abs h) names = .err := by
          rw [C10Sticky.dropS_err_iff]
          obtain ⟨x, hx, hxn⟩ := List.any_eq_true.mp hbad
          exact ⟨x, hx, by rw [abs_has wf]; simpa using hxn⟩
        rw [hs]
        exact ⟨_, _, _, helper_err _ h, rfl, rfl, rfl⟩
      · rw [if_neg hbad]
        have hk : ∀ x, x ∈ names → (f.lookup h x).isSome = true := by
          intro x hx
          cases hv : (f.lookup h x).isSome with
          | true => rfl
          | false => exact absurd (List.any_eq_true.mpr ⟨x, hx, by simp [hv]⟩) hbad
        -- the frame `Select` hands back carries no error
        rw [genOp_drop, drop_run]
        have hsel : ({ genEnv X f with names := names } : PIn).callSelect (keptOf h f names) h =
            canonSelect.run { baseEnv X f with names := keptOf h f names } h :=
          genSelect_known X f h he _ (kept_known wf names)
        have hkeptE : keptOf h ({ genEnv X f with names := names } : PIn).f
            ({ genEnv X f with names := names } : PIn).names = keptOf h f names := rfl
        rw [hkeptE, hsel, drop_abs wf u names hne hk]
        by_cases hke : keptOf h f names = []
        · rw [select_run_empty _ h hke, if_pos hke]
          exact ⟨PFrame.empty, h, _, rfl, rfl, empty_abs h⟩
        · obtain ⟨w, e⟩ := select_run { baseEnv X f with names := keptOf h f names } h wf.mapIn hke
          rw [e, if_neg hke]
          exact ⟨_, _, _, rfl, rfl, rfl⟩
  · -- Copy
    simp only [genFull, C08Guards.gen_copy_outcome, C08Guards.copyOutcome, physReq, he, Bool.false_eq_true, ↓reduceIte]
    cases hsrc : f.lookup h src with
    | none =>
      simp only [Option.isSome_none, Bool.not_false, ↓reduceIte]
      have hs : copyS (f.abs h) dst src = .err := by
        rw [C10Sticky.copyS_err_iff]; left; rw [abs_has wf, hsrc]; rfl
      rw [hs]
      exact ⟨_, _, _, helper_err _ h, rfl, rfl, rfl⟩
    | some cs =>
      simp only [Option.isSome_some, Bool.not_true, Bool.false_eq_true, ↓reduceIte]
      by_cases hsame : dst = src
      · subst hsame
        simp only [beq_self_eq_true, ↓reduceIte]
        refine ⟨f, h, [], rfl, ?_⟩
        simp [copyS, abs_find_known wf u hsrc, he]
      · have hb : (dst == src) = false := by simpa using hsame
        simp only [hb, Bool.false_eq_true, ↓reduceIte]
        cases hleg : legalName dst with
        | false =>
          simp only [Bool.not_false, ↓reduceIte]
          have hs : copyS (f.abs h) dst src = .err := by
            rw [C10Sticky.copyS_err_iff]; right; exact ⟨hsame, hleg⟩
          rw [hs]
          exact ⟨_, _, _, helper_err _ h, rfl, rfl, rfl⟩
        | true =>
          simp only [Bool.not_true, Bool.false_eq_true, ↓reduceIte]
          rw [genOp_copy]
          cases hdst : f.lookup h dst with
          | some ex =>
            rw [copy_run_found { genEnv X f with dst := dst, src := src } h L wf cs ex hsrc hdst,
              copy_abs_found wf u dst src cs ex hsrc hdst hsame hleg]
            exact ⟨_, _, _, rfl, he, rfl⟩
          | none =>
            rw [copy_run_missing { genEnv X f with dst := dst, src := src } h L wf cs hsrc hdst,
              copy_abs_missing wf u dst src cs hsrc hdst hsame hleg]
            exact ⟨_, _, _, rfl, he, rfl⟩


/-- a frame that carries an error comes back as it is, whatever the arguments -/
theorem gen_project_sticky (X : Ext) (h : Heap) (f : PFrame) (he : f.err = true) (q : GReq) (E : PIn) (hE : E.f = f)
    (hq : q.hasErr = f.err) :
    genFull "Slice" q E h = some (.frame f, h, []) ∧ genFull "Select" q E h = some (.frame f, h, []) ∧
    genFull "Drop" q E h = some (.frame f, h, []) ∧ genFull "Copy" q E h = some (.frame f, h, []) := by
  rw [he] at hq
  simp [genFull, C08Guards.gen_slice_outcome, C08Guards.sliceOutcome, C08Guards.gen_select_outcome,
    C08Guards.selectOutcome, C08Guards.gen_drop_outcome, C08Guards.dropOutcome, C08Guards.gen_copy_outcome,
    C08Guards.copyOutcome, hq, hE]


/-! ## A concrete instance: the hypotheses are satisfiable, the terms compute -/

def exA : NCol := ⟨[97], 0, some ⟨.int, [], false, #[.int 10, .int 11, .int 12]⟩⟩
def exB : NCol := ⟨[98], 1, some ⟨.bool, [], false, #[.bool true, .bool false, .bool true]⟩⟩
/-- two columns `a`, `b` of physical length 3, rows in the order 2, 0, 1 -/
def exH : Heap := { ixs := [[2, 0, 1]], colss := [[exA, exB]], maps := [[([97], exA), ([98], exB)]] }
def exF : PFrame := ⟨⟨0, 2, 2⟩, some 0, ⟨0, 0, 3, 3⟩, false⟩
def exX : Ext := { sortFn := fun l => l.reverse, table := fun l => (l.map (fun p => (p != 0, p)), 2) }

theorem exF_wf : PWF exH exF 3 := by
  constructor
  · exact ⟨by decide, by decide⟩
  · decide
  · intro id hid; cases hid; decide
  · intro i c hc
    match i with
    | 0 => simp [PFrame.colList, Heap.colWin, Heap.colArr, exF, exH] at hc; subst hc; rfl
    | 1 => simp [PFrame.colList, Heap.colWin, Heap.colArr, exF, exH] at hc; subst hc; rfl
    | i + 2 => simp [PFrame.colList, Heap.colWin, Heap.colArr, exF, exH] at hc
  · intro n c hc
    simp only [PFrame.lookup, Heap.mapGet, Heap.mapOf, Heap.mapArr, exF, exH, List.getD_cons_zero, List.lookup] at hc
    split at hc
    · cases hc; rename_i hn; have : n = [97] := by simpa using hn
      subst this; exact ⟨rfl, rfl⟩
    · split at hc
      · cases hc; rename_i hn; have : n = [98] := by simpa using hn
        subst this; exact ⟨rfl, rfl⟩
      · cases hc
  · intro c hc
    simp only [PFrame.colList, Heap.colWin, Heap.colArr, exF, exH, List.getD_cons_zero, List.take, List.mem_cons,
      List.not_mem_nil, or_false] at hc
    rcases hc with h | h <;> subst h <;> rfl
  · intro c hc
    simp only [PFrame.colList, Heap.colWin, Heap.colArr, exF, exH, List.getD_cons_zero, List.take, List.mem_cons,
      List.not_mem_nil, or_false] at hc
    rcases hc with h | h <;> subst h
    · exact ⟨_, rfl, rfl⟩
    · exact ⟨_, rfl, rfl⟩
  · intro p hp
    simp only [PFrame.ixList, Heap.ixWin, Heap.ixArr, exF, exH, List.getD_cons_zero, List.drop, List.take, List.mem_cons,
      List.not_mem_nil, or_false] at hp
    omega

theorem exF_unique : UniqueNames exH exF := by
  show ((exF.colList exH).map (·.name)).Nodup
  decide +kernel


/-- the names of the columns of a result and the cells it shows, row by row -/
def shown (o : Option POut) : Option (List (Bytes × List Cell)) :=
  match o with
  | some (.frame f, h, _) => some ((f.abs h).cols.map fun c => (c.name, c.cells.toList))
  | _ => none

def writes (o : Option POut) : Option (List Wr) := o.map (·.2.2)

/-- hypotheses of `gen_project_semantics` / the operations compute -/
example : PWF exH exF 3 ∧ UniqueNames exH exF := ⟨exF_wf, exF_unique⟩
example : shown ((genOp "Slice").run { genEnv exX exF with start := 1, stop := 3 } exH) =
    some [([97], [.int 10, .int 11]), ([98], [.bool true, .bool false])] := by decide +kernel
example : shown ((genOp "Select").run { genEnv exX exF with names := [[98], [97]] } exH) =
    some [([98], [.bool true, .bool true, .bool false]), ([97], [.int 12, .int 10, .int 11])] := by decide +kernel
example : shown ((genOp "Drop").run { genEnv exX exF with names := [[97]] } exH) =
    some [([98], [.bool true, .bool true, .bool false])] := by decide +kernel
example : shown ((genOp "Copy").run { genEnv exX exF with dst := [99], src := [97] } exH) =
    some [([97], [.int 12, .int 10, .int 11]), ([98], [.bool true, .bool true, .bool false]),
          ([99], [.int 12, .int 10, .int 11])] := by decide +kernel
example : shown ((genOp "Copy").run { genEnv exX exF with dst := [97], src := [98] } exH) =
    some [([97], [.bool true, .bool true, .bool false]), ([98], [.bool true, .bool true, .bool false])] := by
  decide +kernel
example : shown ((genOp "Sort").run (genEnv exX exF) exH) =
    some [([97], [.int 11, .int 10, .int 12]), ([98], [.bool false, .bool true, .bool true])] := by decide +kernel
example : shown ((genOp "Distinct").run (genEnv exX exF) exH) =
    some [([97], [.int 12, .int 11]), ([98], [.bool true, .bool false])] := by decide +kernel
/-- every write of these runs goes to an array with an id the heap did not have (`exH` has one array of each kind) -/
example : writes ((genOp "Sort").run (genEnv exX exF) exH) = some [⟨.ix, 1⟩, ⟨.ix, 1⟩] := by decide +kernel
example : writes ((genOp "Copy").run { genEnv exX exF with dst := [99], src := [97] } exH) =
    some [⟨.cols, 1⟩, ⟨.map, 1⟩, ⟨.map, 1⟩, ⟨.cols, 1⟩] := by decide +kernel


/-! ## Witnesses: plausible mutations violate the statements -/

instance (h0 : Heap) (w : List Wr) : Decidable (OwnWrites h0 w) := by unfold OwnWrites; exact inferInstance

/-- do all writes of a run go to arrays the heap did not have? -/
def ownB (h0 : Heap) (o : Option POut) : Option Bool := o.map fun out => decide (OwnWrites h0 out.2.2)
/-- the rows frame `g` reads after a run -/
def rowsAfter (g : PFrame) (o : Option POut) : Option (List Nat) := o.map fun out => g.ixList out.2.1
/-- the column list frame `g` reads after a run -/
def colsAfter (g : PFrame) (o : Option POut) : Option (List Bytes) := o.map fun out => (g.colList out.2.1).map (·.name)

/-- `newF.columns = append(qf.columns, newS)` instead of `make` + `copy` (the "new column" branch of `setColumn`) -/
def setColumnAppendShared : PF :=
  .fork [.do (.lookup .a .recv .dst)] (.present .a)
    (setTail (.lenCols .recv) .param (.posOf (.reg .a)))
    [.do (.appendCol .recv (.mk .dst .param (.lenCols .recv))), .do .allocMap, .do (.copyMap .new .recv),
     .do (.mapPut .new .dst (.mk .dst .param (.lenCols .recv))), .ret (.frame .new .new .recv .recv)]

/-- a column list with spare capacity (what `append` leaves behind): two columns in an array of three -/
def exHcap : Heap := { exH with colss := [[exA, exB, NCol.zero]] }
def exFcap : PFrame := { exF with cols := ⟨0, 2, 3⟩ }

/-- the static check rejects it, and on a list with spare capacity it writes into the receiver's array: the array that
existed before has changed (a sibling frame that had appended its own third column onto the same array now sees this one) -/
example : setColumnAppendShared.ownOnly = false := by decide
def exGcap : PFrame := { exF with cols := ⟨0, 3, 3⟩ }
example : ownB exHcap (setColumnAppendShared.run { genEnv exX exFcap with dst := [99], colParam := exA.col } exHcap) =
      some false ∧
    (exGcap.colList exHcap).map (·.name) = [[97], [98], []] ∧
    colsAfter exGcap (setColumnAppendShared.run { genEnv exX exFcap with dst := [99], colParam := exA.col } exHcap) =
      some [[97], [98], [99]] := by decide +kernel

/-- `sorter := qfsort.New(qf.index, comparables)` — sorting the receiver's index in place, no copy -/
def sortInPlace : PF := .seq [.do (.sortIx .recv), .ret (.frame .recv .recv .recv .recv)]

example : sortInPlace.ownOnly = false := by decide
/-- … the receiver itself (and every frame sharing its index) shows other rows afterwards -/
example : ownB exH (sortInPlace.run (genEnv exX exF) exH) = some false ∧ exF.ixList exH = [2, 0, 1] ∧
    rowsAfter exF (sortInPlace.run (genEnv exX exF) exH) = some [1, 0, 2] := by decide +kernel
/-- today's term: the receiver reads the same rows afterwards -/
example : ownB exH ((genOp "Sort").run (genEnv exX exF) exH) = some true ∧
    rowsAfter exF ((genOp "Sort").run (genEnv exX exF) exH) = some [2, 0, 1] := by decide +kernel

/-- `Int.Copy` returning its receiver (`return ix`): the term no longer returns the slice it made, and with it as library
function today's `Sort` sorts the shared index -/
def ixCopyAlias : PF := .seq [.ret (.ix .param)]

example : PFretsNew ixCopyAlias = false := by decide
example : ownB exH (canonSort.run { genEnv exX exF with
      callIx := fun _ s h => ixResult (ixCopyAlias.run { ixParam := s } h) } exH) = some false ∧
    rowsAfter exF (canonSort.run { genEnv exX exF with
      callIx := fun _ s h => ixResult (ixCopyAlias.run { ixParam := s } h) } exH) = some [1, 0, 2] := by decide +kernel

/-- `newColumnsByName[col] = s` BEFORE `s.pos = i`: the new map holds the old positions -/
def selectOldPos : PF := .seq [
  .retIf (.noNames .requested) .emptyFrame,
  .do .allocMap,
  .do (.allocCols (.countNames .requested)),
  .forEachName .requested [.do (.lookup .a .recv .each), .do (.mapPut .new .each (.reg .a)), .do (.setPos .a .i),
    .do (.colStore .new .i (.reg .a))],
  .ret (.frame .new .new .recv .none)]

/-- persistence is not affected, but the result of `Select("b", "a")` is not well-formed: the map says `b` is at place 1,
where `a` is (the next `Copy` onto `b` would overwrite `a`) -/
example : selectOldPos.ownOnly = true := by decide
example : ∃ f' h' w, selectOldPos.run { genEnv exX exF with names := [[98], [97]] } exH = some (.frame f', h', w) ∧
    ¬ PWF h' f' 3 := by
  refine ⟨_, _, _, rfl, fun wf => ?_⟩
  have := (wf.mapOk [98] { exB with pos := 1 } (by decide +kernel)).1
  revert this
  decide +kernel

/-- `Select` that keeps the receiver's map (`columnsByName: qf.columnsByName`) -/
def selectSharedMap : PF := .seq [
  .retIf (.noNames .requested) .emptyFrame,
  .do (.allocCols (.countNames .requested)),
  .forEachName .requested [.do (.lookup .a .recv .each), .do (.setPos .a .i), .do (.colStore .new .i (.reg .a))],
  .ret (.frame .new .recv .recv .none)]

example : ∃ f' h' w, selectSharedMap.run { genEnv exX exF with names := [[98]] } exH = some (.frame f', h', w) ∧
    ¬ PWF h' f' 3 := by
  refine ⟨_, _, _, rfl, fun wf => ?_⟩
  have := (wf.mapOk [98] exB (by decide +kernel)).1
  revert this
  decide +kernel

/-- `qf.index[start:]` — the end of the slice ignored -/
def sliceNoEnd : PF := .seq [.ret (.frame .recv .recv (.slice .recv .start (.lenIx .recv)) .recv)]

example : shown (sliceNoEnd.run { genEnv exX exF with start := 0, stop := 1 } exH) =
      some [([97], [.int 12, .int 10, .int 11]), ([98], [.bool true, .bool true, .bool false])] ∧
    shown ((genOp "Slice").run { genEnv exX exF with start := 0, stop := 1 } exH) =
      some [([97], [.int 12]), ([98], [.bool true])] := by decide +kernel

/-- `Drop` that keeps the REQUESTED columns (the negation lost) -/
def dropKeepsRequested : PF := .seq [
  .do .initNames,
  .forEachCol .recv [.when (.present .a) [.pushName (.nameOf .eachCol)]],
  .ret (.callSelect .kept)]

example : dropKeepsRequested ≠ canonDrop := by decide

/-- `setColumn` that always stores at `len(qf.columns)`, also when it overwrites: Go panics (index out of range), the term
has no value -/
def setColumnAlwaysLast : PF :=
  .fork [.do (.lookup .a .recv .dst)] (.present .a)
    (setTail (.lenCols .recv) .param (.lenCols .recv))
    (setTail (.add (.lenCols .recv) (.lit 1)) .param (.lenCols .recv))

example : setColumnAlwaysLast.run { genEnv exX exF with dst := [97], colParam := exB.col } exH = none := by decide +kernel

/-! ## Observation: frames with a repeated column name

`Select("a", "a", "b")` builds a frame in which two columns carry the name `a` (the spec does the same). On such a frame
the name map knows only the LAST of them, so code and spec part ways — `UniqueNames` in `gen_project_semantics` is needed:
`Copy("a", "b")` replaces only the second `a` (the spec's `setCol` replaces every column of that name). -/

def dupA2 : NCol := { exA with pos := 1 }
def dupB : NCol := { exB with pos := 2 }
/-- the frame `New({a, b}).Select("a", "a", "b")` leaves -/
def dupH : Heap := { ixs := [[0, 1, 2]], colss := [[exA, dupA2, dupB]], maps := [[([98], dupB), ([97], dupA2), ([97], exA)]] }
def dupF : PFrame := ⟨⟨0, 3, 3⟩, some 0, ⟨0, 0, 3, 3⟩, false⟩

/-- the code: `[a = 10 11 12, a = t f t, b = t f t]`; the spec: both `a` replaced -/
theorem dup_names_witness :
    shown ((genOp "Copy").run { genEnv exX dupF with dst := [97], src := [98] } dupH) =
      some [([97], [.int 10, .int 11, .int 12]), ([97], [.bool true, .bool false, .bool true]),
            ([98], [.bool true, .bool false, .bool true])] ∧
    (match copyS (dupF.abs dupH) [97] [98] with
      | .ok l => some (l.cols.map fun c => (c.name, c.cells.toList))
      | .err => none) =
      some [([97], [.bool true, .bool false, .bool true]), ([97], [.bool true, .bool false, .bool true]),
            ([98], [.bool true, .bool false, .bool true])] := by
  decide +kernel


#print axioms gen_project_canon
#print axioms gen_project_no_opaque
#print axioms run_persistent
#print axioms gen_project_persistent
#print axioms gen_project_semantics
#print axioms gen_project_requests
#print axioms gen_project_total
#print axioms gen_project_sticky
#print axioms gen_slice_semantics
#print axioms gen_select_semantics
#print axioms gen_drop_semantics
#print axioms gen_copy_semantics
#print axioms gen_sort_semantics
#print axioms gen_distinct_semantics
#print axioms gen_index_semantics
#print axioms observation_kept
#print axioms dup_names_witness
#print axioms exF_wf

end QF.Props.C08ProjectGen
