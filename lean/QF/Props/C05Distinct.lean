import QF.Core.GrouperMain
/-!
# C05 (Distinct) — Distinct keeps exactly the first row of every key class

`Distinct(columns)` uses the same open-addressing table as GroupBy and keeps the first row of
every group.  On the mirror model this is `distinctOf gs = gs.filterMap List.head?` applied to
the result of `G.groupBy`.  `distinct_spec` is a corollary of `G.groupBy_partition` plus one
extra fact the partition statement does not expose (`groupBy_nodup`: no group occurs twice in
the result list; it follows from the same table invariant `G.SInv`).

Reflexivity: `G.KeyRel` has only symmetry, transitivity and hash-compatibility, **not**
reflexivity, and `G.cls eqv f j = (j == f || eqv j f)` makes a class contain its own first row
by row identity.  Only the clause "every key is represented" (`eqv r j = true`) needs
`eqv j j = true`, and only for rows of `ix`:
* `distinct_spec_core` — no reflexivity hypothesis; the clause reads `r = j ∨ eqv r j = true`.
* `distinct_spec` — the statement exactly as specified, with the explicit extra hypothesis
  `hrefl : ∀ a ∈ ix, eqv a a = true`.
* `refl_needed` — a concrete `KeyRel` without reflexivity where the clause as specified fails,
  so the hypothesis cannot be dropped.
-/
namespace QF.Props.C05

def distinctOf (gs : List (List Nat)) : List Nat := gs.filterMap List.head?

/-! ## list lemmas -/

theorem idxOf_find_le (p : Nat → Bool) :
    ∀ (l : List Nat) (r j : Nat), l.find? p = some r → p j = true → j ∈ l → l.idxOf r ≤ l.idxOf j := by
  intro l
  induction l with
  | nil => intro r j _ _ hj; cases hj
  | cons x xs ih =>
    intro r j hf hp hj
    rw [List.find?_cons] at hf
    cases hpx : p x with
    | true =>
      rw [hpx] at hf
      have hxr : x = r := by simpa using hf
      subst hxr
      simp [List.idxOf_cons]
    | false =>
      rw [hpx] at hf
      have hf' : xs.find? p = some r := by simpa using hf
      have hjx : j ≠ x := by intro h; subst h; rw [hp] at hpx; cases hpx
      have hjm : j ∈ xs := by
        rcases List.mem_cons.mp hj with h | h
        · exact absurd h hjx
        · exact h
      have hrx : r ≠ x := by
        intro h; subst h
        have := List.find?_some hf'
        rw [this] at hpx; cases hpx
      have h1 : (x == r) = false := by simpa using fun h => hrx h.symm
      have h2 : (x == j) = false := by simpa using fun h => hjx h.symm
      have := ih r j hf' hp hjm
      simp only [List.idxOf_cons, h1, h2, cond_false]
      omega

theorem head_mem {g : List Nat} {r : Nat} (h : g.head? = some r) : r ∈ g := by
  cases g with
  | nil => cases h
  | cons a t => simp at h; subst h; simp

theorem mem_distinctOf {gs : List (List Nat)} {r : Nat} :
    r ∈ distinctOf gs ↔ ∃ g, g ∈ gs ∧ g.head? = some r := by
  unfold distinctOf; exact List.mem_filterMap

/-! ## the extra fact: no group is listed twice -/

theorem cls_self (eqv : Nat → Nat → Bool) (f : Nat) : G.cls eqv f f = true := by
  simp [G.cls]

/-- The groups returned by `groupBy` are pairwise different lists (different table slots hold
different, non-empty key classes). -/
theorem groupBy_nodup (hash : Nat → Nat) (eqv : Nat → Nat → Bool) (kr : G.KeyRel hash eqv)
    (ix : List Nat) (hnd : ix.Nodup) :
    ∃ gs, G.groupBy {} hash eqv ix = some gs ∧ gs.Nodup := by
  obtain ⟨i0, c0⟩ := G.init_inv hash eqv ix.length
  obtain ⟨t, ht, inv, _⟩ := G.foldlM_insert hash eqv kr ix [] _ (by simpa using hnd) i0 c0
  simp only [List.nil_append] at inv
  have hgs : G.groupBy {} hash eqv ix = some (t.slots.toList.filterMap fun s => s.map G.members) := by
    unfold G.groupBy G.groupIndex; rw [ht]; rfl
  refine ⟨_, hgs, ?_⟩
  unfold List.Nodup
  rw [List.pairwise_filterMap, List.pairwise_iff_getElem]
  intro i j hi hj hij g1 h1 g2 h2 hEq
  cases ho1 : t.slots.toList[i] with
  | none => rw [ho1] at h1; cases h1
  | some e1 =>
    cases ho2 : t.slots.toList[j] with
    | none => rw [ho2] at h2; cases h2
    | some e2 =>
      rw [ho1] at h1; rw [ho2] at h2
      simp only [Option.map_some, Option.some.injEq] at h1 h2
      have oc1 : G.occ t.slots i e1 := by
        unfold G.occ
        have : t.slots.toList[i]? = some (some e1) := by rw [List.getElem?_eq_getElem hi, ho1]
        simpa using this
      have oc2 : G.occ t.slots j e2 := by
        unfold G.occ
        have : t.slots.toList[j]? = some (some e2) := by rw [List.getElem?_eq_getElem hj, ho2]
        simpa using this
      obtain ⟨dq, df⟩ := inv.distinct i j e1 e2 oc1 oc2 (by omega)
      obtain ⟨m1, f1⟩ := inv.mem i e1 oc1
      obtain ⟨m2, _⟩ := inv.mem j e2 oc2
      have hin : e1.firstPos ∈ G.members e2 := by
        have hme : G.members e2 = G.members e1 := by rw [h2, h1, hEq]
        rw [hme, m1]
        exact List.mem_filter.mpr ⟨f1, cls_self eqv _⟩
      rw [m2] at hin
      have hc := (List.mem_filter.mp hin).2
      unfold G.cls at hc
      rcases Bool.or_eq_true_iff.mp hc with h | h
      · exact df (by simpa using h)
      · rw [dq] at h; cases h

/-! ## Distinct -/

/-- Distinct, without any reflexivity assumption on `eqv`: the "represented" clause says the
representative is the row itself or `eqv`-related to it. -/
theorem distinct_spec_core (hash : Nat → Nat) (eqv : Nat → Nat → Bool) (kr : G.KeyRel hash eqv)
    (ix : List Nat) (hnd : ix.Nodup) :
    ∃ gs, G.groupBy {} hash eqv ix = some gs ∧
      let d := distinctOf gs
      d.Nodup ∧
      (∀ r ∈ d, r ∈ ix) ∧
      (∀ j ∈ ix, ∃ r ∈ d, r = j ∨ eqv r j = true) ∧
      (∀ r1 ∈ d, ∀ r2 ∈ d, r1 ≠ r2 → eqv r1 r2 = false) ∧
      (∀ r ∈ d, ∀ j ∈ ix, eqv r j = true → ix.idxOf r ≤ ix.idxOf j) := by
  obtain ⟨gs, hgs, hcls, hcov, hdis⟩ := G.groupBy_partition hash eqv kr ix hnd
  obtain ⟨gs', hgs', hnod⟩ := groupBy_nodup hash eqv kr ix hnd
  have : gs' = gs := by rw [hgs] at hgs'; cases hgs'; rfl
  subst this
  -- what membership in a class means
  have clsD : ∀ f a, G.cls eqv f a = true → a = f ∨ eqv a f = true := by
    intro f a h
    unfold G.cls at h
    rcases Bool.or_eq_true_iff.mp h with h | h
    · exact Or.inl (by simpa using h)
    · exact Or.inr h
  -- the head of a group is the first row of `ix` in the class
  have headD : ∀ g r, g ∈ gs' → g.head? = some r →
      ∃ f, f ∈ ix ∧ g = ix.filter (G.cls eqv f) ∧ ix.find? (G.cls eqv f) = some r := by
    intro g r hg hr
    obtain ⟨f, hf, hgf⟩ := hcls g hg
    refine ⟨f, hf, hgf, ?_⟩
    rw [← List.head?_filter, ← hgf]; exact hr
  refine ⟨gs', hgs, ?_, ?_, ?_, ?_, ?_⟩
  · -- Nodup
    show (distinctOf gs').Nodup
    have hpw : gs'.Pairwise (fun g1 g2 => ∀ a ∈ g1, ∀ b ∈ g2, a ≠ b) := by
      refine List.Pairwise.imp_of_mem ?_ hnod
      intro g1 g2 h1 h2 hne a ha b hb
      exact (hdis g1 g2 h1 h2 hne a ha b hb).1
    unfold distinctOf List.Nodup
    refine List.Pairwise.filterMap _ ?_ hpw
    intro g1 g2 hR r1 h1 r2 h2
    exact hR r1 (head_mem h1) r2 (head_mem h2)
  · -- only input rows
    intro r hr
    obtain ⟨g, hg, hh⟩ := mem_distinctOf.mp hr
    obtain ⟨f, _, _, hfind⟩ := headD g r hg hh
    exact List.mem_of_find?_eq_some hfind
  · -- every key is represented
    intro j hj
    obtain ⟨g, hg, hjg⟩ := hcov j hj
    cases hh : g.head? with
    | none => cases g with
      | nil => cases hjg
      | cons a t => simp at hh
    | some r =>
      obtain ⟨f, _, hgf, hfind⟩ := headD g r hg hh
      refine ⟨r, mem_distinctOf.mpr ⟨g, hg, hh⟩, ?_⟩
      have cr := clsD f r (List.find?_some hfind)
      rw [hgf] at hjg
      have cj := clsD f j (List.mem_filter.mp hjg).2
      rcases cr with rfl | cr <;> rcases cj with rfl | cj
      · exact Or.inl rfl
      · exact Or.inr (kr.symm _ _ cj)
      · exact Or.inr cr
      · exact Or.inr (kr.trans _ _ _ cr (kr.symm _ _ cj))
  · -- one representative per key
    intro r1 hr1 r2 hr2 hne
    obtain ⟨g1, hg1, hh1⟩ := mem_distinctOf.mp hr1
    obtain ⟨g2, hg2, hh2⟩ := mem_distinctOf.mp hr2
    have hg : g1 ≠ g2 := by
      intro h; subst h; rw [hh1] at hh2; cases hh2; exact hne rfl
    exact (hdis g1 g2 hg1 hg2 hg r1 (head_mem hh1) r2 (head_mem hh2)).2
  · -- the representative is the first row of its class
    intro r hr j hj hrj
    obtain ⟨g, hg, hh⟩ := mem_distinctOf.mp hr
    obtain ⟨f, _, _, hfind⟩ := headD g r hg hh
    refine idxOf_find_le (G.cls eqv f) ix r j hfind ?_ hj
    have hjr := kr.symm _ _ hrj
    unfold G.cls
    rcases clsD f r (List.find?_some hfind) with rfl | cr
    · rw [hjr]; simp
    · rw [kr.trans _ _ _ hjr cr]; simp

/-- **Distinct**, as specified.  Extra explicit hypothesis `hrefl` (reflexivity of `eqv` on the
rows of `ix`): `G.KeyRel` does not contain reflexivity, and the third clause needs it (see
`refl_needed`); nothing else does (see `distinct_spec_core`). -/
theorem distinct_spec (hash : Nat → Nat) (eqv : Nat → Nat → Bool) (kr : G.KeyRel hash eqv)
    (ix : List Nat) (hnd : ix.Nodup) (hrefl : ∀ a ∈ ix, eqv a a = true) :
    ∃ gs, G.groupBy {} hash eqv ix = some gs ∧
      let d := distinctOf gs
      d.Nodup ∧                                   -- no row twice
      (∀ r ∈ d, r ∈ ix) ∧                         -- only input rows
      (∀ j ∈ ix, ∃ r ∈ d, eqv r j = true) ∧       -- every key is represented
      (∀ r1 ∈ d, ∀ r2 ∈ d, r1 ≠ r2 → eqv r1 r2 = false) ∧   -- exactly one representative per key
      (∀ r ∈ d, ∀ j ∈ ix, eqv r j = true → ix.idxOf r ≤ ix.idxOf j) := by  -- FIRST row of its class
  obtain ⟨gs, hgs, h1, h2, h3, h4, h5⟩ := distinct_spec_core hash eqv kr ix hnd
  refine ⟨gs, hgs, h1, h2, ?_, h4, h5⟩
  intro j hj
  obtain ⟨r, hr, h⟩ := h3 j hj
  refine ⟨r, hr, ?_⟩
  rcases h with rfl | h
  · exact hrefl _ hj
  · exact h

/-! ## examples -/

/-- keys 3,1,3,2,1,3 ; hashes collide for keys 3 and 1 -/
def exVals : Nat → Nat := fun i => [3, 1, 3, 2, 1, 3].getD i 0
def exHash : Nat → Nat := fun i => if exVals i = 2 then 16 else 8
def exEqv : Nat → Nat → Bool := fun i j => exVals i == exVals j

theorem exKeyRel : G.KeyRel exHash exEqv where
  symm := by intro a b h; simp only [exEqv, beq_iff_eq] at *; exact h.symm
  trans := by intro a b c h1 h2; simp only [exEqv, beq_iff_eq] at *; exact h1.trans h2
  hashOk := by intro a b h; simp only [exEqv, beq_iff_eq] at h; simp only [exHash, h]

/-- the hypotheses of `distinct_spec` hold on a concrete instance (rows given out of order),
and the distinct rows are 5 (key 3), 1 (key 1), 3 (key 2) — each the first row of its key in `ix`,
listed in table-slot order. -/
example : G.KeyRel exHash exEqv ∧ [5, 1, 0, 3, 4, 2].Nodup ∧ (∀ a ∈ [5, 1, 0, 3, 4, 2], exEqv a a = true) ∧
    (G.groupBy {} exHash exEqv [5, 1, 0, 3, 4, 2]).map distinctOf = some [5, 1, 3] :=
  ⟨exKeyRel, by decide, by decide, by decide⟩

example : ∃ gs, G.groupBy {} exHash exEqv [5, 1, 0, 3, 4, 2] = some gs ∧ distinctOf gs = [5, 1, 3] ∧
    (distinctOf gs).Nodup ∧ (∀ j ∈ [5, 1, 0, 3, 4, 2], ∃ r ∈ distinctOf gs, exEqv r j = true) := by
  obtain ⟨gs, hgs, h1, _, h3, _⟩ := distinct_spec exHash exEqv exKeyRel [5, 1, 0, 3, 4, 2] (by decide) (by decide)
  refine ⟨gs, hgs, ?_, h1, h3⟩
  have : G.groupBy {} exHash exEqv [5, 1, 0, 3, 4, 2] = some [[5, 0, 2], [1, 4], [3]] := by decide
  rw [this] at hgs; cases hgs; decide

/-- Reflexivity cannot be dropped from `distinct_spec`: the empty relation is a `KeyRel`
(symmetric, transitive, hash-compatible, all vacuously), every row is then its own group, and no
representative is `eqv`-related to row 0. -/
theorem refl_needed :
    G.KeyRel (fun _ => 0) (fun _ _ => false) ∧ [0].Nodup ∧
    ¬ ∃ gs, G.groupBy {} (fun _ => 0) (fun _ _ => false) [0] = some gs ∧
        ∀ j ∈ [0], ∃ r ∈ distinctOf gs, (fun _ _ => false : Nat → Nat → Bool) r j = true := by
  refine ⟨⟨fun _ _ h => Bool.noConfusion h, fun _ _ _ h => Bool.noConfusion h, fun _ _ h => Bool.noConfusion h⟩, by decide, ?_⟩
  rintro ⟨gs, _, h⟩
  obtain ⟨r, _, hr⟩ := h 0 (by simp)
  cases hr

end QF.Props.C05

#print axioms QF.Props.C05.groupBy_nodup
#print axioms QF.Props.C05.distinct_spec_core
#print axioms QF.Props.C05.distinct_spec
#print axioms QF.Props.C05.refl_needed
