import QF.Props.C09Observe
import QF.Gen.Writers
/-!
# C14 (C15) — the assembly loop of today's `QFrame.ToJSON` writes `C14ToJson.toJSON` (tie T1, by semantics)

`QF.Gen.toJsonAst` (regenerated on every run by go/cmd/extract/wast.go) is the body of `QFrame.ToJSON` after its guard as a
byte template program `QF.JS` (QF/Core/WExpr.lean): the table of quoted column names prepared before the loop, `[`, per row
a `,` (not before the first) and `{`, per column the prepared name, `:`, the cell (`AppendByteStringAt`), `,`; the removal
of the last comma, `}`, one `Write` per record; finally `]`. `JS.run` is its Go meaning. This file proves, for the term
generated TODAY:

* `gen_tojson_no_opaque`  — the function was found and translated completely
* `gen_tojson_canon`      — the term is the canonical one (finite check, redone on every run)
* `gen_tojson_writes`     — on EVERY frame (cells of their column's type) and for every fault pattern of the writer: the
                            `Write` calls are `[` · one call per row with `C14ToJson.rowBytes` · `]`, cut after the first
                            failing call, and the error returned is non-nil iff a call failed (what C15 relies on);
                            the per-cell bytes are those of today's `AppendByteStringAt` (`C09Observe.genAppend`)
* `gen_tojson_semantics`  — with a writer that does not fail: `n + 2` calls, and their concatenation is
                            `C14ToJson.toJSON fmt f`, the hand-written mirror; so
* `gen_tojson_parses`     — `C14ToJson.tojson_parses` is a statement about what today's code writes.

The lemmas about the canonical term (`canon_*`) are proved once and for all, for any cell writer that appends
`C14ToJson.cellBytes` and any fault pattern.
-/
namespace QF.Props.C14WriterGen
open QF QF.Props.C14 QF.Props.C14ToJson

/-! ## The canonical program -/

def canonColBody : JS :=
  .emit .prepared (.emit (.lit [58]) (.emitCell (.emit (.lit [44]) .done)))

def canonRowBody : JS :=
  .reset (.ifRowPos (.emit (.lit [44]) .done) (.emit (.lit [123]) (.forCols canonColBody
    (.stripIfLast 44 (.emit (.lit [125]) (.write .done))))))

def canonToJSON : JS :=
  .prep .quotedName (.setBuf [91] (.write (.forRows canonRowBody (.writeLitRet [93]))))

theorem gen_tojson_no_opaque : Gen.toJsonAst.hasOpaque = false := by decide

theorem gen_tojson_canon : Gen.toJsonAst = canonToJSON := by decide

/-! ## The `Write` calls of the mirror -/

/-- the chunks `ToJSON` hands to `Write`, one call each: `[`, one record per row, `]` -/
def chunks (fmt : UInt64 → Bytes) (f : LFrame) : List Bytes :=
  [[91]] ++ (List.range f.n).map (rowBytes fmt f) ++ [[93]]

theorem chunks_length (fmt : UInt64 → Bytes) (f : LFrame) : (chunks fmt f).length = f.n + 2 := by
  simp [chunks]

/-- the concatenation of the chunks is the mirror's text -/
theorem chunks_flatten (fmt : UInt64 → Bytes) (f : LFrame) : (chunks fmt f).flatten = toJSON fmt f := by
  simp [chunks, toJSON, List.flatMap_def]

/-! ## The meaning of the canonical program, once and for all -/

/-- the environment does what the mirror assumes: the quoting is `appendQuoted`, the cell writer appends `cellBytes` -/
structure EnvOK (fmt : UInt64 → Bytes) (E : JEnv) : Prop where
  quote : E.quote = appendQuoted
  app : ∀ c ∈ E.f.cols, ∀ i, i < E.f.n → ∀ buf, E.app c buf c.cells[i]! = some (buf ++ cellBytes fmt c.cells[i]!)

def namesTbl (f : LFrame) : List Bytes := f.cols.map (fun c => appendQuoted c.name)

theorem canon_cols (fmt : UInt64 → Bytes) (E : JEnv) (hE : EnvOK fmt E) (i : Nat) (hi : i < E.f.n) :
    ∀ (cs pre : List LCol) (b : Bytes) (w : List Bytes), E.f.cols = pre ++ cs →
      loopIdx (fun j col σ => canonColBody.run E { row := some i, col := some (j, col) } σ) (fun σ => σ.ret.isSome)
          pre.length cs { tbl := namesTbl E.f, buf := b, writes := w, ret := none }
        = some { tbl := namesTbl E.f, buf := b ++ cs.flatMap (memberBytes fmt i), writes := w, ret := none } := by
  intro cs
  induction cs with
  | nil => intro pre b w _; simp [loopIdx]
  | cons c cs ih =>
    intro pre b w hsplit
    have hmem : c ∈ E.f.cols := by rw [hsplit]; simp
    have hget : (namesTbl E.f)[pre.length]? = some (appendQuoted c.name) := by
      rw [namesTbl, hsplit]; simp
    have happ := hE.app c hmem i hi
    have hstep : canonColBody.run E { row := some i, col := some (pre.length, c) }
          { tbl := namesTbl E.f, buf := b, writes := w, ret := none }
        = some { tbl := namesTbl E.f, buf := b ++ memberBytes fmt i c, writes := w, ret := none } := by
      simp [canonColBody, JS.run, JSrc.eval, hget, happ, memberBytes]
    rw [loopIdx]
    simp only [Option.isSome_none, Bool.false_eq_true, if_false, hstep, Option.bind_some]
    have := ih (pre ++ [c]) (b ++ memberBytes fmt i c) w (by simp [hsplit])
    simp only [List.length_append, List.length_cons, List.length_nil, Nat.zero_add] at this
    rw [this]
    simp

/-- the end of a record: the last comma goes, `}`, `Write` -/
def canonRowTail : JS := .stripIfLast 44 (.emit (.lit [125]) (.write .done))

theorem canon_tail (E : JEnv) (c : JCtx) (t : List Bytes) (b : Bytes) (w : List Bytes) (hne : b ≠ []) :
    canonRowTail.run E c { tbl := t, buf := b, writes := w, ret := none } =
      some { tbl := t, buf := dropTrailingComma b ++ [125], writes := w ++ [dropTrailingComma b ++ [125]],
             ret := if E.fail w.length then some true else none } := by
  cases hl : b.getLast? with
  | none => rw [List.getLast?_eq_none_iff] at hl; exact absurd hl hne
  | some y =>
    by_cases hy : y = 44
    · subst hy
      by_cases hf : E.fail w.length = true <;>
        simp [canonRowTail, JS.run, JSrc.eval, hl, dropTrailingComma, hf]
    · by_cases hf : E.fail w.length = true <;>
        simp [canonRowTail, JS.run, JSrc.eval, hl, dropTrailingComma, hf, hy]

/-- `{`, the members, the end of the record -/
theorem canon_record (fmt : UInt64 → Bytes) (E : JEnv) (hE : EnvOK fmt E) (i : Nat) (hi : i < E.f.n)
    (b : Bytes) (w : List Bytes) :
    (JS.emit (.lit [123]) (.forCols canonColBody canonRowTail)).run E { row := some i }
        { tbl := namesTbl E.f, buf := b, writes := w, ret := none } =
      some { tbl := namesTbl E.f,
             buf := dropTrailingComma (b ++ [123] ++ E.f.cols.flatMap (memberBytes fmt i)) ++ [125],
             writes := w ++ [dropTrailingComma (b ++ [123] ++ E.f.cols.flatMap (memberBytes fmt i)) ++ [125]],
             ret := if E.fail w.length then some true else none } := by
  have hcols := canon_cols fmt E hE i hi E.f.cols [] (b ++ [123]) w rfl
  simp only [List.length_nil] at hcols
  simp only [JS.run, JSrc.eval]
  rw [hcols]
  simp only [Option.isSome_none, Bool.false_eq_true, if_false]
  rw [canon_tail E _ _ _ _ (by simp)]

/-- one round of the row loop: the record of row `i` is assembled in the buffer and handed to `Write` -/
theorem canon_row (fmt : UInt64 → Bytes) (E : JEnv) (hE : EnvOK fmt E) (i : Nat) (hi : i < E.f.n)
    (b : Bytes) (w : List Bytes) :
    canonRowBody.run E { row := some i } { tbl := namesTbl E.f, buf := b, writes := w, ret := none } =
      some { tbl := namesTbl E.f, buf := rowBytes fmt E.f i, writes := w ++ [rowBytes fmt E.f i],
             ret := if E.fail w.length then some true else none } := by
  have hB : ∀ pre : Bytes, pre = (if i > 0 then [44] else []) →
      rowBytes fmt E.f i = dropTrailingComma (pre ++ [123] ++ E.f.cols.flatMap (memberBytes fmt i)) ++ [125] := by
    intro pre hp
    simp only [rowBytes, foldl_append_eq, hp]
  have hbody : canonRowBody = .reset (.ifRowPos (.emit (.lit [44]) .done)
      (.emit (.lit [123]) (.forCols canonColBody canonRowTail))) := rfl
  rw [hbody]
  by_cases hpos : i > 0
  · have := canon_record fmt E hE i hi ([] ++ [44]) w
    simp only [JS.run, JSrc.eval] at this
    simp only [JS.run, JSrc.eval, hpos, if_true, Option.isSome_none, Bool.false_eq_true, if_false]
    rw [this, hB ([] ++ [44]) (by simp [hpos])]
  · have := canon_record fmt E hE i hi [] w
    simp only [JS.run, JSrc.eval] at this
    simp only [JS.run, JSrc.eval, hpos, if_false]
    rw [this, hB [] (by simp [hpos])]

/-- the row loop: one `Write` per row, until one of them fails -/
theorem canon_rows (fmt : UInt64 → Bytes) (E : JEnv) (hE : EnvOK fmt E) :
    ∀ (rs : List Nat) (j : Nat) (b : Bytes) (w : List Bytes), (∀ i ∈ rs, i < E.f.n) →
      ∃ b', loopIdx (fun _ i σ => canonRowBody.run E { row := some i } σ) (fun σ => σ.ret.isSome) j rs
          { tbl := namesTbl E.f, buf := b, writes := w, ret := none } =
        some { tbl := namesTbl E.f, buf := b',
               writes := w ++ (cutWrites E.fail w.length (rs.map (rowBytes fmt E.f))).1,
               ret := if (cutWrites E.fail w.length (rs.map (rowBytes fmt E.f))).2 then some true else none } := by
  intro rs
  induction rs with
  | nil => intro j b w _; exact ⟨b, by simp [loopIdx, cutWrites]⟩
  | cons i rs ih =>
    intro j b w hlt
    rw [loopIdx]
    simp only [Option.isSome_none, Bool.false_eq_true, if_false]
    rw [canon_row fmt E hE i (hlt i (by simp))]
    simp only [Option.bind_some, List.map_cons, cutWrites]
    by_cases hf : E.fail w.length = true
    · simp only [hf, if_true]
      refine ⟨rowBytes fmt E.f i, ?_⟩
      cases rs with
      | nil => rfl
      | cons i' rs' => simp [loopIdx]
    · simp only [hf, Bool.false_eq_true, if_false]
      obtain ⟨b', h1⟩ := ih (j + 1) (rowBytes fmt E.f i) (w ++ [rowBytes fmt E.f i]) (fun x hx => hlt x (by simp [hx]))
      refine ⟨b', ?_⟩
      rw [h1]
      simp

/-- **The canonical program, all frames, all fault patterns.** -/
theorem canon_output (fmt : UInt64 → Bytes) (E : JEnv) (hE : EnvOK fmt E) :
    canonToJSON.output E = some (cutWrites E.fail 0 (chunks fmt E.f)) := by
  have hprep : optMap (fun col => JSrc.quotedName.ofNil E col) E.f.cols = some (namesTbl E.f) := by
    simp only [JSrc.ofNil, hE.quote]
    exact optMap_some _ _
  unfold JS.output canonToJSON
  simp only [JS.run, hprep, List.length_nil, List.nil_append]
  simp only [chunks, List.cons_append, List.nil_append, cutWrites]
  by_cases h0 : E.fail 0 = true
  · simp [h0]
  · simp only [h0, Bool.false_eq_true, if_false]
    obtain ⟨b', h1⟩ := canon_rows fmt E hE (List.range E.f.n) 0 [91] [[91]] (fun i hi => List.mem_range.1 hi)
    rw [h1]
    simp only [List.length_cons, List.length_nil, Nat.zero_add]
    rw [cutWrites_snoc]
    by_cases hc : (cutWrites E.fail 1 ((List.range E.f.n).map (rowBytes fmt E.f))).2 = true
    · simp [hc]
    · rw [Bool.not_eq_true] at hc
      have hl := cutWrites_ok E.fail _ 1 hc
      have e : 1 + E.f.n = E.f.n + 1 := by omega
      simp [hc, hl, e]

/-! ## Today's `ToJSON` -/

/-- the environment of today's source: `AppendQuotedString` is its mirror `C14.appendQuoted` (C14Quote), a cell is written
by today's extracted `AppendByteStringAt` of its column's package (`fmt` = what `ryu.AppendFloat64f` appends) -/
def genEnv (fmt : UInt64 → Bytes) (f : LFrame) (fail : Nat → Bool) : JEnv where
  f := f
  quote := appendQuoted
  app := fun c buf x =>
    match C09Observe.genAppend ⟨fmt, fmt, appendQuoted⟩ c.ty c.vals [] buf x with
    | some (.buf b) => some b
    | _ => none
  fail := fail

/-- what a caller of today's `ToJSON` sees on the frame `f`: the `Write` calls and whether an error is returned -/
def genToJSON (fmt : UInt64 → Bytes) (f : LFrame) (fail : Nat → Bool) : Option (List Bytes × Bool) :=
  Gen.toJsonAst.output (genEnv fmt f fail)

theorem genEnv_ok (fmt : UInt64 → Bytes) (f : LFrame) (fail : Nat → Bool) (hf : C09Observe.FrameTyped f) :
    EnvOK fmt (genEnv fmt f fail) := by
  refine ⟨rfl, ?_⟩
  intro c hc i hi buf
  have ht := hf c hc
  simp only [genEnv]
  rw [C09Observe.gen_append_semantics ht.1 fmt c.vals _ (ht.2 i hi) fmt [] buf]

/-- **The `Write` calls of today's `ToJSON`** on every frame whose cells are of their column's type, for every fault
pattern of the writer (`fail k`: call number `k` returns an error): `[`, then ONE call per row with the record
`C14ToJson.rowBytes` (`,` in front of all but the first, the last comma of the members removed, also for a frame without
columns), then `]` — cut after the first failing call; the error returned is non-nil iff a call failed. -/
theorem gen_tojson_writes (fmt : UInt64 → Bytes) (f : LFrame) (hf : C09Observe.FrameTyped f) (fail : Nat → Bool) :
    genToJSON fmt f fail =
      some (cutWrites fail 0 ([[91]] ++ (List.range f.n).map (rowBytes fmt f) ++ [[93]])) := by
  have canon : Gen.toJsonAst = canonToJSON := by decide
  rw [genToJSON, canon]
  exact canon_output fmt _ (genEnv_ok fmt f fail hf)

/-- **Today's `ToJSON` writes `C14ToJson.toJSON`.** With a writer that does not fail: `nil` is returned after `n + 2`
`Write` calls (`[`, one per record, `]`), and the bytes written — the concatenation of the calls — are exactly the
hand-written mirror `toJSON fmt f`, for every frame whose cells are of their column's type. -/
theorem gen_tojson_semantics (fmt : UInt64 → Bytes) (f : LFrame) (hf : C09Observe.FrameTyped f) :
    ∃ ws, genToJSON fmt f (fun _ => false) = some (ws, false) ∧ ws.length = f.n + 2 ∧
      ws.flatten = toJSON fmt f ∧ ws = [[91]] ++ (List.range f.n).map (rowBytes fmt f) ++ [[93]] := by
  refine ⟨chunks fmt f, ?_, chunks_length fmt f, chunks_flatten fmt f, rfl⟩
  rw [gen_tojson_writes fmt f hf, cutWrites_nofail _ (fun _ => rfl)]
  rfl

/-- A failing `Write` number `k` (of the `n + 2`) ends `ToJSON` at once: exactly `k + 1` calls were made — the first `k`
complete chunks went through — and the error is returned. (The frame's text is cut at a chunk boundary: after `[`, or
after a complete record.) -/
theorem gen_tojson_fault (fmt : UInt64 → Bytes) (f : LFrame) (hf : C09Observe.FrameTyped f) (k : Nat) (hk : k < f.n + 2) :
    genToJSON fmt f (fun j => j == k) = some ((chunks fmt f).take (k + 1), true) := by
  rw [gen_tojson_writes fmt f hf]
  have h : ∀ (l : List Bytes) (s k : Nat), s ≤ k → k < s + l.length →
      cutWrites (fun j => j == k) s l = (l.take (k - s + 1), true) := by
    intro l
    induction l with
    | nil => intro s k h1 h2; simp at h2; omega
    | cons b bs ih =>
      intro s k h1 h2
      by_cases hs : s = k
      · subst hs; simp [cutWrites]
      · have hb : (s == k) = false := by simpa using hs
        have e : k - s + 1 = (k - (s + 1) + 1) + 1 := by omega
        simp only [cutWrites, hb, Bool.false_eq_true, if_false]
        rw [ih (s + 1) k (by omega) (by simp at h2; omega), e]
        simp
  have := h (chunks fmt f) 0 k (Nat.zero_le _) (by rw [chunks_length]; omega)
  simpa [chunks] using this

/-- **`tojson_parses` applies to what today's code writes**: with a float formatter that writes JSON number tokens, the
concatenation of the `Write` calls of today's `ToJSON` is a JSON text that denotes the array of the frame's records. -/
theorem gen_tojson_parses (fmt : UInt64 → Bytes)
    (hfmt : ∀ b, F64.isNaN b = false → ∀ tl, numEnd tl = true → Json.parseNum (fmt b ++ tl) = some (fmt b, tl))
    (f : LFrame) (hf : C09Observe.FrameTyped f) :
    ∃ ws, genToJSON fmt f (fun _ => false) = some (ws, false) ∧
      Json.parse ws.flatten
        = some (.arr ((List.range f.n).map (fun r =>
            .obj (f.cols.map (fun c => (Json.sanitize c.name, C14ToJson.cellVal fmt c.cells[r]!)))))) := by
  obtain ⟨ws, h1, _, h3, _⟩ := gen_tojson_semantics fmt f hf
  exact ⟨ws, h1, by rw [h3]; exact tojson_parses fmt hfmt f⟩

/-! ## Witnesses: the statements tell wrong assembly loops apart -/

def wFmt : UInt64 → Bytes := fun _ => [48]

/-- the cell writer of the witnesses: appends `cellBytes` -/
def wEnv (f : LFrame) : JEnv :=
  { f := f, quote := appendQuoted, app := fun _ buf x => some (buf ++ cellBytes wFmt x), fail := fun _ => false }

def wFrame : LFrame :=
  { cols := [{ name := [97], ty := .bool, cells := #[.bool true, .bool false] },
             { name := [98], ty := .string, cells := #[.str none, .str (some [120])] }],
    n := 2 }

/-- the canonical program on the witness frame: `[` `{"a":true,"b":null}` `,{"a":false,"b":"x"}` `]` -/
example : (canonToJSON.output (wEnv wFrame)).map (·.1) =
      some [[91], [123, 34, 97, 34, 58, 116, 114, 117, 101, 44, 34, 98, 34, 58, 110, 117, 108, 108, 125],
        [44, 123, 34, 97, 34, 58, 102, 97, 108, 115, 101, 44, 34, 98, 34, 58, 34, 120, 34, 125], [93]] ∧
    (canonToJSON.output (wEnv wFrame)).map (·.1.flatten) = some (toJSON wFmt wFrame) := by
  decide

/-- Without the removal of the last comma the records end in `,}`: not the mirror's text (and not JSON). -/
def noStrip : JS :=
  .prep .quotedName (.setBuf [91] (.write (.forRows
    (.reset (.ifRowPos (.emit (.lit [44]) .done) (.emit (.lit [123]) (.forCols canonColBody (.emit (.lit [125]) (.write .done))))))
    (.writeLitRet [93]))))

example : (noStrip.output (wEnv { cols := [{ name := [97], ty := .bool, cells := #[.bool true] }], n := 1 })).map (·.1.flatten)
      = some [91, 123, 34, 97, 34, 58, 116, 114, 117, 101, 44, 125, 93] ∧
    toJSON wFmt { cols := [{ name := [97], ty := .bool, cells := #[.bool true] }], n := 1 }
      = [91, 123, 34, 97, 34, 58, 116, 114, 117, 101, 125, 93] := by
  decide

/-- A comma in front of EVERY record (the test `i > 0` dropped) writes `[,{…}]`. -/
def commaAlways : JS :=
  .prep .quotedName (.setBuf [91] (.write (.forRows
    (.reset (.emit (.lit [44]) (.emit (.lit [123]) (.forCols canonColBody (.stripIfLast 44 (.emit (.lit [125]) (.write .done)))))))
    (.writeLitRet [93]))))

example : (commaAlways.output (wEnv { cols := [], n := 1 })).map (·.1.flatten) = some [91, 44, 123, 125, 93] ∧
    toJSON wFmt { cols := [], n := 1 } = [91, 123, 125, 93] := by
  decide

/-- The unquoted column name instead of the prepared (quoted) one: `{a:true}`. -/
def rawName : JS :=
  .prep (.lit [97]) (.setBuf [91] (.write (.forRows canonRowBody (.writeLitRet [93]))))

example : (rawName.output (wEnv { cols := [{ name := [97], ty := .bool, cells := #[.bool true] }], n := 1 })).map (·.1.flatten)
      = some [91, 123, 97, 58, 116, 114, 117, 101, 125, 93] := by
  decide

/-- One `Write` for the whole document instead of one per record gives the same bytes but other call boundaries: a fault
of call number 1 then loses everything, where today's code has written `[` already. -/
def oneWrite : JS :=
  .prep .quotedName (.setBuf [91] (.forRows
    (.ifRowPos (.emit (.lit [44]) .done) (.emit (.lit [123]) (.forCols canonColBody (.stripIfLast 44 (.emit (.lit [125]) .done)))))
    (.emit (.lit [93]) (.write (.writeLitRet [])))))

example : (oneWrite.output (wEnv { cols := [], n := 2 })).map (·.1) = some [[91, 123, 125, 44, 123, 125, 93], []] ∧
    (canonToJSON.output (wEnv { cols := [], n := 2 })).map (·.1) = some [[91], [123, 125], [44, 123, 125], [93]] := by
  decide

#print axioms gen_tojson_no_opaque
#print axioms gen_tojson_canon
#print axioms canon_output
#print axioms gen_tojson_writes
#print axioms gen_tojson_semantics
#print axioms gen_tojson_fault
#print axioms gen_tojson_parses

end QF.Props.C14WriterGen
