import QF.Props.C16RyuStep4
import QF.Props.C16Link
/-!
# C16 — the meaning of the canonical Ryu terms (4): the digit layout (`sizeSlice`, `dec64.appendF`, `AppendFloat64f`)

A Go byte slice is `Val.bytes content spare` (QF/Core/RYExpr.lean) — the buffer model `AF.Buf` of QF/Core/AppendF.lean: visible
content plus whatever lies in the spare capacity; an `append` that does not fit allocates a new backing array whose spare
capacity is unspecified (`Env.fresh site`, by the number of the `append`).

* `call_sizeSlice`  — `sizeSlice(b, n)` is `AF.sizeSlice`
* `zero_loop`, `digit_loop_*` — the loops of `appendF` are `AF.writeZeros` / `C16.digitLoop`
* `call_appendF`    — `d.appendF(b, neg)` is `C16Link.appendF` (sign, `decimalLen64`, the three layouts)
* `call_appendFloat` — `AppendFloat64f(b, f)` for a finite non-zero `f`: the fields are `C16Core.mantOf` / `expOf`, the
  decimal is `Ryu64.decimal`, the bytes are `C16Link.appendF`
-/
namespace QF.Props.C16RyuGen
open QF QF.RY AF
set_option linter.unusedSimpArgs false
set_option linter.unusedVariables false

/-- a Go byte slice as a value of the interpretation -/
def bufVal (b : AF.Buf) : Val := .bytes b.content b.spare

/-! ## `sizeSlice` -/

theorem call_sizeSlice (F : Nat) (fr : Nat → List UInt8) (n : Nat) (c sp : List UInt8) (k : Nat)
    (hlen : c.length + sp.length < 2 ^ 62) (hk : k < 2 ^ 62) :
    callAt canonFns T F fr (n+1) fSizeSlice [.bytes c sp, .i 64 k] = some (bufVal (AF.sizeSlice ⟨c, sp⟩ k (fr 7))) := by
  rw [callAt_succ F fr n _ _ look_sizeSlice, xrunFn, if_pos (by rfl)]
  simp only [fnSizeSlice]
  have hw : wrapS 64 ((c.length : Int) + (sp.length : Int) - (c.length : Int)) = (sp.length : Int) := by
    rw [wrapS64] <;> omega
  have hw2 : wrapS 64 ((c.length : Int) + (k : Int)) = (c.length : Int) + (k : Int) := by
    rw [wrapS64] <;> omega
  have hn1 : ¬ ((c.length : Int) + (k : Int) < 0) := by omega
  have hn2 : ((c.length : Int) + (k : Int)).toNat = c.length + k := by omega
  have hk0 : ¬ ((k : Int) < 0) := by omega
  by_cases h : sp.length ≥ k
  · have hc : (k : Int) ≤ (sp.length : Int) := by omega
    have hc2 : ¬ (sp.length < k) := by omega
    xif [hw, hc]
    xs [hw2, hn1, hn2, hc2]
    simp [bufVal, AF.sizeSlice, h, List.take_append, List.drop_append]
    exact List.take_of_length_le (by omega)
  · have hc : ¬ ((k : Int) ≤ (sp.length : Int)) := by omega
    xif [hw, hc]
    xs [hk0, appendTo, h]
    simp [bufVal, AF.sizeSlice, h]

/-! ## the loops of `appendF` -/

theorem stepOut_post (post rec : Store → Out) (σ σ' σ'' : Store) (h : post σ' = .next σ'') :
    stepOut (some true) (.next σ') post rec σ = rec σ'' := by
  unfold stepOut
  simp only [h]

theorem wz_shift : ∀ (k : Nat) (l : List Byte) (pos : Nat), writeZeros (l.set pos 48) (pos + 1) k = writeZeros l pos (k + 1) := by
  intro k
  induction k with
  | zero => intro l pos; simp [writeZeros]
  | succ k ih =>
    intro l pos
    rw [writeZeros, writeZeros, ← ih (l.set (pos + (k + 1)) 48) pos]
    congr 1
    rw [List.set_comm _ _ (by omega)]
    congr 2
    omega

/-- `for i := n; i < dE+n; i++ { b[outLen+i] = '0' }` -/
theorem zero_loop (Γ : Env) (d neg out : Val) (sp : List Byte) (olen dE n : Nat) : ∀ (r : Nat) (l : List Byte) (q F : Nat),
    q + r = dE + n → olen + dE + n ≤ l.length → l.length < 2 ^ 62 → r < F →
    forLoop (condOf Γ (E.cmp COp.lt (E.var 7) (E.bin AOp.add (E.var 5) (E.var 6))))
        (execOf Γ (S.scope (S.block [S.setIndex 1 (E.bin AOp.add (E.var 4) (E.var 7)) (E.u 8 48)])))
        (execOf Γ (S.block [S.assign 7 (E.bin AOp.add (E.var 7) (E.i 64 1))])) F
        [d, .bytes l sp, neg, out, .i 64 olen, .i 64 dE, .i 64 n, .i 64 q] =
      .next [d, .bytes (writeZeros l (olen + q) r) sp, neg, out, .i 64 olen, .i 64 dE, .i 64 n, .i 64 ((q + r : Nat) : Int)] := by
  intro r
  induction r with
  | zero =>
    intro l q F h1 h2 h3 hF
    obtain ⟨F', rfl⟩ : ∃ F', F = F' + 1 := ⟨F - 1, by omega⟩
    have hw : wrapS 64 ((dE : Int) + (n : Int)) = (dE : Int) + (n : Int) := by rw [wrapS64] <;> omega
    have hc : ¬ ((q : Int) < (dE : Int) + (n : Int)) := by omega
    have hcond : condOf Γ (E.cmp COp.lt (E.var 7) (E.bin AOp.add (E.var 5) (E.var 6)))
        [d, .bytes l sp, neg, out, .i 64 olen, .i 64 dE, .i 64 n, .i 64 q] = some false := by
      rewrite [condOf_eq]; exec_simp [hw, hc]
    rewrite [xforLoop, hcond, stepOut_false]
    simp [writeZeros]
  | succ r ih =>
    intro l q F h1 h2 h3 hF
    obtain ⟨F', rfl⟩ : ∃ F', F = F' + 1 := ⟨F - 1, by omega⟩
    have hw : wrapS 64 ((dE : Int) + (n : Int)) = (dE : Int) + (n : Int) := by rw [wrapS64] <;> omega
    have hw2 : wrapS 64 ((olen : Int) + (q : Int)) = (olen : Int) + (q : Int) := by rw [wrapS64] <;> omega
    have hw3 : wrapS 64 ((q : Int) + 1) = ((q + 1 : Nat) : Int) := by rw [wrapS64] <;> omega
    have hc : (q : Int) < (dE : Int) + (n : Int) := by omega
    have hcond : condOf Γ (E.cmp COp.lt (E.var 7) (E.bin AOp.add (E.var 5) (E.var 6)))
        [d, .bytes l sp, neg, out, .i 64 olen, .i 64 dE, .i 64 n, .i 64 q] = some true := by
      rewrite [condOf_eq]; exec_simp [hw, hc]
    have hi0 : (0 : Int) ≤ (olen : Int) + (q : Int) := by omega
    have hi1 : (olen : Int) + (q : Int) < (l.length : Int) := by omega
    have hi2 : ((olen : Int) + (q : Int)).toNat = olen + q := by omega
    have hbody : (S.scope (S.block [S.setIndex 1 (E.bin AOp.add (E.var 4) (E.var 7)) (E.u 8 48)])).exec Γ
        [d, .bytes l sp, neg, out, .i 64 olen, .i 64 dE, .i 64 n, .i 64 q] =
        .next [d, .bytes (l.set (olen + q) 48) sp, neg, out, .i 64 olen, .i 64 dE, .i 64 n, .i 64 q] := by
      rewrite [xscope]
      xs [hw2, hi0, hi1, hi2]
    have hpost : execOf Γ (S.block [S.assign 7 (E.bin AOp.add (E.var 7) (E.i 64 1))])
        [d, .bytes (l.set (olen + q) 48) sp, neg, out, .i 64 olen, .i 64 dE, .i 64 n, .i 64 q] =
        .next [d, .bytes (l.set (olen + q) 48) sp, neg, out, .i 64 olen, .i 64 dE, .i 64 n, .i 64 ((q + 1 : Nat) : Int)] := by
      rewrite [execOf_eq]
      xs [hw3]
      simp
    have hi := ih (l.set (olen + q) 48) (q + 1) F' (by omega) (by simp; omega) (by simp; omega) (by omega)
    rewrite [xforLoop, hcond, execOf_eq, hbody, stepOut_post _ _ _ _ _ hpost, hi, ← Nat.add_assoc, wz_shift]
    have : q + 1 + r = q + (r + 1) := by omega
    rw [this]

theorem digit_eq (out : Nat) : UInt8.ofNat ((48 + ((out : Int) % 10 % 256).toNat) % 256) = digit out := by
  have h1 : ((out : Int) % 10 % 256).toNat = out % 10 := by omega
  have h2 : (48 + out % 10) % 256 = 48 + out % 10 := by omega
  rw [h1, h2]
  rfl

theorem digit_loop_int (Γ : Env) (d neg olen dE : Val) (sp : List Byte) (pos : Nat) : ∀ (k : Nat) (l : List Byte) (out F : Nat) (iv : Int),
    iv = (pos : Int) + (k : Int) - 1 → pos + k ≤ l.length → l.length < 2 ^ 62 → k < F →
    forLoop (condOf Γ (E.cmp COp.ge (E.var 7) (E.var 6))) (execOf Γ (S.scope (S.block (digitStmts 1 7))))
        (execOf Γ (S.block [S.assign 7 (E.bin AOp.sub (E.var 7) (E.i 64 1))])) F
        [d, .bytes l sp, neg, .u 64 out, olen, dE, .i 64 pos, .i 64 iv] =
      .next [d, .bytes (C16.digitLoop l pos k out).1 sp, neg, .u 64 (C16.digitLoop l pos k out).2, olen, dE, .i 64 pos,
        .i 64 ((pos : Int) - 1)] := by
  intro k
  induction k with
  | zero =>
    intro l out F iv hiv h1 h2 hF
    obtain ⟨F', rfl⟩ : ∃ F', F = F' + 1 := ⟨F - 1, by omega⟩
    have hc : ¬ ((pos : Int) ≤ iv) := by omega
    have hcond : condOf Γ (E.cmp COp.ge (E.var 7) (E.var 6))
        [d, .bytes l sp, neg, .u 64 out, olen, dE, .i 64 pos, .i 64 iv] = some false := by
      rewrite [condOf_eq]; exec_simp [hc]
    have hiv' : iv = (pos : Int) - 1 := by omega
    rewrite [xforLoop, hcond, stepOut_false, hiv']
    simp [C16.digitLoop]
  | succ k ih =>
    intro l out F iv hiv h1 h2 hF
    obtain ⟨F', rfl⟩ : ∃ F', F = F' + 1 := ⟨F - 1, by omega⟩
    have hc : (pos : Int) ≤ iv := by omega
    have hcond : condOf Γ (E.cmp COp.ge (E.var 7) (E.var 6))
        [d, .bytes l sp, neg, .u 64 out, olen, dE, .i 64 pos, .i 64 iv] = some true := by
      rewrite [condOf_eq]; exec_simp [hc]
    have hi0 : (0 : Int) ≤ iv := by omega
    have hi1 : iv < (l.length : Int) := by omega
    have hi2 : iv.toNat = pos + k := by omega
    have hbody : (S.scope (S.block (digitStmts 1 7))).exec Γ
        [d, .bytes l sp, neg, .u 64 out, olen, dE, .i 64 pos, .i 64 iv] =
        .next [d, .bytes (l.set (pos + k) (digit out)) sp, neg, .u 64 (out / 10), olen, dE, .i 64 pos, .i 64 iv] := by
      rewrite [xscope]
      simp only [digitStmts]
      xs [hi0, hi1, hi2, digit_eq]
      xs []
    have hw : wrapS 64 (iv - 1) = iv - 1 := by rw [wrapS64] <;> omega
    have hpost : execOf Γ (S.block [S.assign 7 (E.bin AOp.sub (E.var 7) (E.i 64 1))])
        [d, .bytes (l.set (pos + k) (digit out)) sp, neg, .u 64 (out / 10), olen, dE, .i 64 pos, .i 64 iv] =
        .next [d, .bytes (l.set (pos + k) (digit out)) sp, neg, .u 64 (out / 10), olen, dE, .i 64 pos, .i 64 (iv - 1)] := by
      rewrite [execOf_eq]
      xs [hw]
    have hi := ih (l.set (pos + k) (digit out)) (out / 10) F' (iv - 1) (by omega) (by simp; omega) (by simp; omega) (by omega)
    rewrite [xforLoop, hcond, execOf_eq, hbody, stepOut_post _ _ _ _ _ hpost, hi]
    simp [C16.digitLoop]
theorem digit_loop_frac (Γ : Env) (d b0 neg olen dE ePos : Val) (sp : List Byte) (pos : Nat) : ∀ (k : Nat) (l : List Byte) (out F : Nat) (iv : Int),
    iv = (pos : Int) + (k : Int) - 1 → pos + k ≤ l.length → l.length < 2 ^ 62 → k < F →
    forLoop (condOf Γ (E.cmp COp.ge (E.var 9) (E.var 8))) (execOf Γ (S.scope (S.block (digitStmts 7 9))))
        (execOf Γ (S.block [S.assign 9 (E.bin AOp.sub (E.var 9) (E.i 64 1))])) F
        [d, b0, neg, .u 64 out, olen, dE, ePos, .bytes l sp, .i 64 pos, .i 64 iv] =
      .next [d, b0, neg, .u 64 (C16.digitLoop l pos k out).2, olen, dE, ePos, .bytes (C16.digitLoop l pos k out).1 sp, .i 64 pos, .i 64 ((pos : Int) - 1)] := by
  intro k
  induction k with
  | zero =>
    intro l out F iv hiv h1 h2 hF
    obtain ⟨F', rfl⟩ : ∃ F', F = F' + 1 := ⟨F - 1, by omega⟩
    have hc : ¬ ((pos : Int) ≤ iv) := by omega
    have hcond : condOf Γ (E.cmp COp.ge (E.var 9) (E.var 8))
        [d, b0, neg, .u 64 out, olen, dE, ePos, .bytes l sp, .i 64 pos, .i 64 iv] = some false := by
      rewrite [condOf_eq]; exec_simp [hc]
    have hiv' : iv = (pos : Int) - 1 := by omega
    rewrite [xforLoop, hcond, stepOut_false, hiv']
    simp [C16.digitLoop]
  | succ k ih =>
    intro l out F iv hiv h1 h2 hF
    obtain ⟨F', rfl⟩ : ∃ F', F = F' + 1 := ⟨F - 1, by omega⟩
    have hc : (pos : Int) ≤ iv := by omega
    have hcond : condOf Γ (E.cmp COp.ge (E.var 9) (E.var 8))
        [d, b0, neg, .u 64 out, olen, dE, ePos, .bytes l sp, .i 64 pos, .i 64 iv] = some true := by
      rewrite [condOf_eq]; exec_simp [hc]
    have hi0 : (0 : Int) ≤ iv := by omega
    have hi1 : iv < (l.length : Int) := by omega
    have hi2 : iv.toNat = pos + k := by omega
    have hbody : (S.scope (S.block (digitStmts 7 9))).exec Γ
        [d, b0, neg, .u 64 out, olen, dE, ePos, .bytes l sp, .i 64 pos, .i 64 iv] =
        .next [d, b0, neg, .u 64 (out / 10), olen, dE, ePos, .bytes (l.set (pos + k) (digit out)) sp, .i 64 pos, .i 64 iv] := by
      rewrite [xscope]
      simp only [digitStmts]
      xs [hi0, hi1, hi2, digit_eq]
      xs []
    have hw : wrapS 64 (iv - 1) = iv - 1 := by rw [wrapS64] <;> omega
    have hpost : execOf Γ (S.block [S.assign 9 (E.bin AOp.sub (E.var 9) (E.i 64 1))])
        [d, b0, neg, .u 64 (out / 10), olen, dE, ePos, .bytes (l.set (pos + k) (digit out)) sp, .i 64 pos, .i 64 iv] =
        .next [d, b0, neg, .u 64 (out / 10), olen, dE, ePos, .bytes (l.set (pos + k) (digit out)) sp, .i 64 pos, .i 64 (iv - 1)] := by
      rewrite [execOf_eq]
      xs [hw]
    have hi := ih (l.set (pos + k) (digit out)) (out / 10) F' (iv - 1) (by omega) (by simp; omega) (by simp; omega) (by omega)
    rewrite [xforLoop, hcond, execOf_eq, hbody, stepOut_post _ _ _ _ _ hpost, hi]
    simp [C16.digitLoop]

theorem digit_loop_mixedB (Γ : Env) (d neg olen dE ePos nn : Val) (sp : List Byte) (pos : Nat) : ∀ (k : Nat) (l : List Byte) (out F : Nat) (iv : Int),
    iv = (pos : Int) + (k : Int) - 1 → pos + k ≤ l.length → l.length < 2 ^ 62 → k < F →
    forLoop (condOf Γ (E.cmp COp.ge (E.var 8) (E.var 9))) (execOf Γ (S.scope (S.block (digitStmts 1 8))))
        (execOf Γ (S.block [S.assign 8 (E.bin AOp.sub (E.var 8) (E.i 64 1))])) F
        [d, .bytes l sp, neg, .u 64 out, olen, dE, ePos, nn, .i 64 iv, .i 64 pos] =
      .next [d, .bytes (C16.digitLoop l pos k out).1 sp, neg, .u 64 (C16.digitLoop l pos k out).2, olen, dE, ePos, nn, .i 64 ((pos : Int) - 1), .i 64 pos] := by
  intro k
  induction k with
  | zero =>
    intro l out F iv hiv h1 h2 hF
    obtain ⟨F', rfl⟩ : ∃ F', F = F' + 1 := ⟨F - 1, by omega⟩
    have hc : ¬ ((pos : Int) ≤ iv) := by omega
    have hcond : condOf Γ (E.cmp COp.ge (E.var 8) (E.var 9))
        [d, .bytes l sp, neg, .u 64 out, olen, dE, ePos, nn, .i 64 iv, .i 64 pos] = some false := by
      rewrite [condOf_eq]; exec_simp [hc]
    have hiv' : iv = (pos : Int) - 1 := by omega
    rewrite [xforLoop, hcond, stepOut_false, hiv']
    simp [C16.digitLoop]
  | succ k ih =>
    intro l out F iv hiv h1 h2 hF
    obtain ⟨F', rfl⟩ : ∃ F', F = F' + 1 := ⟨F - 1, by omega⟩
    have hc : (pos : Int) ≤ iv := by omega
    have hcond : condOf Γ (E.cmp COp.ge (E.var 8) (E.var 9))
        [d, .bytes l sp, neg, .u 64 out, olen, dE, ePos, nn, .i 64 iv, .i 64 pos] = some true := by
      rewrite [condOf_eq]; exec_simp [hc]
    have hi0 : (0 : Int) ≤ iv := by omega
    have hi1 : iv < (l.length : Int) := by omega
    have hi2 : iv.toNat = pos + k := by omega
    have hbody : (S.scope (S.block (digitStmts 1 8))).exec Γ
        [d, .bytes l sp, neg, .u 64 out, olen, dE, ePos, nn, .i 64 iv, .i 64 pos] =
        .next [d, .bytes (l.set (pos + k) (digit out)) sp, neg, .u 64 (out / 10), olen, dE, ePos, nn, .i 64 iv, .i 64 pos] := by
      rewrite [xscope]
      simp only [digitStmts]
      xs [hi0, hi1, hi2, digit_eq]
      xs []
    have hw : wrapS 64 (iv - 1) = iv - 1 := by rw [wrapS64] <;> omega
    have hpost : execOf Γ (S.block [S.assign 8 (E.bin AOp.sub (E.var 8) (E.i 64 1))])
        [d, .bytes (l.set (pos + k) (digit out)) sp, neg, .u 64 (out / 10), olen, dE, ePos, nn, .i 64 iv, .i 64 pos] =
        .next [d, .bytes (l.set (pos + k) (digit out)) sp, neg, .u 64 (out / 10), olen, dE, ePos, nn, .i 64 (iv - 1), .i 64 pos] := by
      rewrite [execOf_eq]
      xs [hw]
    have hi := ih (l.set (pos + k) (digit out)) (out / 10) F' (iv - 1) (by omega) (by simp; omega) (by simp; omega) (by omega)
    rewrite [xforLoop, hcond, execOf_eq, hbody, stepOut_post _ _ _ _ _ hpost, hi]
    simp [C16.digitLoop]

/-- `for ; ePos > 0; i-- { b[i] = '0' + byte(out%10); out /= 10; ePos-- }` -/
theorem digit_loop_mixedA (Γ : Env) (d neg olen dE nn endv : Val) (sp : List Byte) (pos : Nat) :
    ∀ (k : Nat) (l : List Byte) (out F : Nat) (iv : Int),
    iv = (pos : Int) + (k : Int) - 1 → pos + k ≤ l.length → l.length < 2 ^ 62 → k < F →
    forLoop (condOf Γ (E.cmp COp.gt (E.var 6) (E.i 64 0)))
        (execOf Γ (S.scope (S.block (digitStmts 1 8 ++ [S.assign 6 (E.bin AOp.sub (E.var 6) (E.i 64 1))]))))
        (execOf Γ (S.block [S.assign 8 (E.bin AOp.sub (E.var 8) (E.i 64 1))])) F
        [d, .bytes l sp, neg, .u 64 out, olen, dE, .i 64 k, nn, .i 64 iv, endv] =
      .next [d, .bytes (C16.digitLoop l pos k out).1 sp, neg, .u 64 (C16.digitLoop l pos k out).2, olen, dE, .i 64 0, nn,
        .i 64 ((pos : Int) - 1), endv] := by
  intro k
  induction k with
  | zero =>
    intro l out F iv hiv h1 h2 hF
    obtain ⟨F', rfl⟩ : ∃ F', F = F' + 1 := ⟨F - 1, by omega⟩
    have hcond : condOf Γ (E.cmp COp.gt (E.var 6) (E.i 64 0))
        [d, .bytes l sp, neg, .u 64 out, olen, dE, .i 64 ((0 : Nat) : Int), nn, .i 64 iv, endv] = some false := by
      rewrite [condOf_eq]; exec_simp []
    have hiv' : iv = (pos : Int) - 1 := by omega
    rewrite [xforLoop, hcond, stepOut_false, hiv']
    simp [C16.digitLoop]
  | succ k ih =>
    intro l out F iv hiv h1 h2 hF
    obtain ⟨F', rfl⟩ : ∃ F', F = F' + 1 := ⟨F - 1, by omega⟩
    have hc : (0 : Int) < ((k + 1 : Nat) : Int) := by omega
    have hcond : condOf Γ (E.cmp COp.gt (E.var 6) (E.i 64 0))
        [d, .bytes l sp, neg, .u 64 out, olen, dE, .i 64 ((k + 1 : Nat) : Int), nn, .i 64 iv, endv] = some true := by
      rewrite [condOf_eq]; exec_simp [hc]
    have hi0 : (0 : Int) ≤ iv := by omega
    have hi1 : iv < (l.length : Int) := by omega
    have hi2 : iv.toNat = pos + k := by omega
    have hwk : wrapS 64 (k : Int) = (k : Int) := by rw [wrapS64] <;> omega
    have hbody : (S.scope (S.block (digitStmts 1 8 ++ [S.assign 6 (E.bin AOp.sub (E.var 6) (E.i 64 1))]))).exec Γ
        [d, .bytes l sp, neg, .u 64 out, olen, dE, .i 64 ((k + 1 : Nat) : Int), nn, .i 64 iv, endv] =
        .next [d, .bytes (l.set (pos + k) (digit out)) sp, neg, .u 64 (out / 10), olen, dE, .i 64 (k : Int), nn, .i 64 iv, endv] := by
      rewrite [xscope]
      simp only [digitStmts, List.cons_append, List.nil_append]
      xs [hi0, hi1, hi2, digit_eq]
      xs []
      xs [hwk]
    have hw : wrapS 64 (iv - 1) = iv - 1 := by rw [wrapS64] <;> omega
    have hpost : execOf Γ (S.block [S.assign 8 (E.bin AOp.sub (E.var 8) (E.i 64 1))])
        [d, .bytes (l.set (pos + k) (digit out)) sp, neg, .u 64 (out / 10), olen, dE, .i 64 (k : Int), nn, .i 64 iv, endv] =
        .next [d, .bytes (l.set (pos + k) (digit out)) sp, neg, .u 64 (out / 10), olen, dE, .i 64 (k : Int), nn, .i 64 (iv - 1), endv] := by
      rewrite [execOf_eq]
      xs [hw]
    have hi := ih (l.set (pos + k) (digit out)) (out / 10) F' (iv - 1) (by omega) (by simp; omega) (by simp; omega) (by omega)
    rewrite [xforLoop, hcond, execOf_eq, hbody, stepOut_post _ _ _ _ _ hpost, hi]
    simp [C16.digitLoop]

/-! ## the three layouts -/

/-- a `for` statement as the next statement: its init statement is run, the loop itself is left as `forLoop … Γ.fuel σ` -/
macro "xforinit" " [" ts:Lean.Parser.Tactic.simpLemma,* "]" : tactic =>
  `(tactic| (rewrite [xblock_cons, xfor]; generalize hs__ : S.exec _ _ _ = r__; exec_simp [$ts,*] at hs__; (try unwrap at hs__); subst hs__; rewrite [Out.bindStrict_next, forRest_eq]))


theorem sizeSlice_len (b : Buf) (n : Nat) (x : List Byte) : (sizeSlice b n x).content.length = b.content.length + n := by
  obtain ⟨junk, hj, hc⟩ := sizeSlice_content b n x
  rw [hc, List.length_append, hj]

theorem exec_layoutInt (Γ : Env) (x7 : List Byte)
    (hss : ∀ (c sp : List Byte) (k : Nat), c.length + sp.length < 2 ^ 62 → k < 2 ^ 62 →
      Γ.call fSizeSlice [.bytes c sp, .i 64 k] = some (bufVal (sizeSlice ⟨c, sp⟩ k x7)))
    (d neg : Val) (c sp : List Byte) (m olen dE : Nat) (hlen : c.length + sp.length < 2 ^ 60) (ho : olen < 2 ^ 20) (hd : dE < 2 ^ 20)
    (hf1 : dE < Γ.fuel) (hf2 : olen < Γ.fuel) :
    layoutIntPart.exec Γ [d, .bytes c sp, neg, .u 64 m, .i 64 olen, .i 64 dE] =
      .ret (bufVal (layoutInt ⟨c, sp⟩ m olen dE x7)) := by
  have hcall := hss c sp (dE + olen) (by omega) (by omega)
  have hl := sizeSlice_len ⟨c, sp⟩ (dE + olen) x7
  unfold layoutInt
  simp only at hl ⊢
  generalize sizeSlice ⟨c, sp⟩ (dE + olen) x7 = b1 at hcall hl ⊢
  obtain ⟨c1, sp1⟩ := b1
  simp only at hl ⊢
  have hw : wrapS 64 ((dE : Int) + (olen : Int)) = ((dE + olen : Nat) : Int) := by rw [wrapS64] <;> omega
  simp only [layoutIntPart]
  rewrite [xscope]
  rw [Int.natCast_add] at hcall
  have hwz : wrapS 64 ((dE : Int) + (olen : Int)) = (dE : Int) + (olen : Int) := by rw [wrapS64] <;> omega
  xs []
  xs [hwz, hcall, bufVal]
  xforinit []
  have hz := zero_loop Γ d neg (.u 64 m) sp1 olen dE c.length dE c1 c.length Γ.fuel (by omega) (by omega) (by omega) hf1
  rewrite [hz, Out.loopEnd_next]
  xnorm
  xforinit []
  have hwl : (writeZeros c1 (olen + c.length) dE).length = c1.length := by
    have : ∀ (k : Nat) (l : List Byte) (p : Nat), (writeZeros l p k).length = l.length := by
      intro k; induction k with
      | zero => intro l p; rfl
      | succ k ih => intro l p; simp [writeZeros, ih]
    exact this _ _ _
  have hdl := digit_loop_int Γ d neg (.i 64 olen) (.i 64 dE) sp1 c.length olen (writeZeros c1 (olen + c.length) dE) m Γ.fuel
    ((c.length : Int) + (olen : Int) - 1) rfl (by omega) (by omega) hf2
  rewrite [hdl, Out.loopEnd_next]
  xnorm
  xs []
  rw [C16.digitLoop_eq, Nat.add_comm olen c.length]
  rfl

theorem digitLoop_len (pos : Nat) : ∀ (k : Nat) (l : List Byte) (out : Nat), (C16.digitLoop l pos k out).1.length = l.length := by
  intro k
  induction k with
  | zero => intro l out; rfl
  | succ k ih => intro l out; simp [C16.digitLoop, ih]

theorem exec_layoutFrac (Γ : Env) (x6 x7 : List Byte) (h6 : Γ.fresh 6 = x6)
    (hss : ∀ (c sp : List Byte) (k : Nat), c.length + sp.length < 2 ^ 62 → k < 2 ^ 62 →
      Γ.call fSizeSlice [.bytes c sp, .i 64 k] = some (bufVal (sizeSlice ⟨c, sp⟩ k x7)))
    (d neg olen dE : Val) (c sp : List Byte) (m ePos : Nat) (hlen : c.length + sp.length < 2 ^ 60) (hx6 : x6.length < 2 ^ 60)
    (he : ePos < 2 ^ 20) (hf : ePos < Γ.fuel) :
    layoutFracPart.exec Γ [d, .bytes c sp, neg, .u 64 m, olen, dE, .i 64 ePos] =
      .ret (bufVal (C16.layoutFrac ⟨c, sp⟩ m ePos x6 x7)) := by
  unfold C16.layoutFrac
  have hb0 : appendTo c sp [48, 46] x6 = bufVal (C16.appendBytes ⟨c, sp⟩ [48, 46] x6) := by
    unfold appendTo C16.appendBytes bufVal; simp only []; split <;> rfl
  have hc0 : (C16.appendBytes ⟨c, sp⟩ [48, 46] x6).content = c ++ [48, 46] := C16.appendBytes_content _ _ _
  have hs0 : (C16.appendBytes ⟨c, sp⟩ [48, 46] x6).spare.length < 2 ^ 60 := by
    unfold C16.appendBytes; simp only []; split
    · simp; omega
    · exact hx6
  generalize C16.appendBytes ⟨c, sp⟩ [48, 46] x6 = b0 at hb0 hc0 hs0 ⊢
  obtain ⟨c0, sp0⟩ := b0
  simp only at hc0 hs0 ⊢
  have hl0 : c0.length = c.length + 2 := by rw [hc0]; simp
  have hcall := hss c0 sp0 ePos (by omega) (by omega)
  have hl := sizeSlice_len ⟨c0, sp0⟩ ePos x7
  generalize sizeSlice ⟨c0, sp0⟩ ePos x7 = b1 at hcall hl ⊢
  obtain ⟨c1, sp1⟩ := b1
  simp only at hl ⊢
  simp only [layoutFracPart]
  rewrite [xscope]
  xs [h6, hb0, bufVal]
  xs []
  xs [hcall, bufVal]
  xforinit []
  have hdl := digit_loop_frac Γ d (.bytes c sp) neg olen dE (.i 64 ePos) sp1 c0.length ePos c1 m Γ.fuel
    ((c0.length : Int) + (ePos : Int) - 1) rfl (by omega) (by omega) hf
  rewrite [hdl, Out.loopEnd_next]
  xnorm
  xs []
  rfl

theorem exec_layoutMixed (Γ : Env) (x7 : List Byte)
    (hss : ∀ (c sp : List Byte) (k : Nat), c.length + sp.length < 2 ^ 62 → k < 2 ^ 62 →
      Γ.call fSizeSlice [.bytes c sp, .i 64 k] = some (bufVal (sizeSlice ⟨c, sp⟩ k x7)))
    (d neg dE : Val) (c sp : List Byte) (m olen ePos : Nat) (hlen : c.length + sp.length < 2 ^ 60) (ho : olen < 2 ^ 20)
    (he : ePos < olen) (hf : olen < Γ.fuel) :
    (S.block layoutMixedPart).exec Γ [d, .bytes c sp, neg, .u 64 m, .i 64 olen, dE, .i 64 ePos] =
      .ret (bufVal (C16.layoutMixed ⟨c, sp⟩ m olen ePos x7)) := by
  unfold C16.layoutMixed
  have hcall := hss c sp (olen + 1) (by omega) (by omega)
  have hl := sizeSlice_len ⟨c, sp⟩ (olen + 1) x7
  generalize sizeSlice ⟨c, sp⟩ (olen + 1) x7 = b1 at hcall hl ⊢
  obtain ⟨c1, sp1⟩ := b1
  simp only at hl ⊢
  push_cast at hcall
  have hw1 : wrapS 64 ((olen : Int) + 1) = (olen : Int) + 1 := by rw [wrapS64] <;> omega
  simp only [layoutMixedPart]
  xs [hw1, hcall, bufVal]
  xs []
  xs []
  xs []
  have hend : (c1.length : Int) - 1 - (olen : Int) = ((c1.length - 1 - olen : Nat) : Int) := by omega
  rewrite [hend]
  xforinit []
  have hA := digit_loop_mixedA Γ d neg (.i 64 olen) dE (.i 64 c1.length) (.i 64 ((c1.length - 1 - olen : Nat) : Int)) sp1
    (c1.length - 1 + 1 - ePos) ePos c1 m Γ.fuel ((c1.length : Int) - 1) (by omega) (by omega) (by omega) (by omega)
  rewrite [hA, Out.loopEnd_next]
  xnorm
  generalize hrA : C16.digitLoop c1 (c1.length - 1 + 1 - ePos) ePos m = rA
  have hlA : rA.1.length = c1.length := by rw [← hrA]; exact digitLoop_len _ _ _ _
  obtain ⟨lA, oA⟩ := rA
  simp only at hlA ⊢
  have hj0 : (0 : Int) ≤ ((c1.length - 1 + 1 - ePos : Nat) : Int) - 1 := by omega
  have hj1 : ((c1.length - 1 + 1 - ePos : Nat) : Int) - 1 < (lA.length : Int) := by omega
  have hj2 : (((c1.length - 1 + 1 - ePos : Nat) : Int) - 1).toNat = c1.length - 1 - ePos := by omega
  have hj0' : (1 : Int) ≤ ((c1.length - 1 + 1 - ePos : Nat) : Int) := by omega
  xs [hj0, hj0', hj1, hj2]
  xs []
  xforinit []
  have hB := digit_loop_mixedB Γ d neg (.i 64 olen) dE (.i 64 0) (.i 64 c1.length) sp1 (c1.length - 1 - olen)
    (c1.length - 1 - ePos - (c1.length - 1 - olen)) (lA.set (c1.length - 1 - ePos) 46) oA Γ.fuel
    (((c1.length - 1 + 1 - ePos : Nat) : Int) - 1 - 1) (by omega) (by simp; omega) (by simp; omega) (by omega)
  rewrite [hB, Out.loopEnd_next]
  xnorm
  xs []
  rfl

/-! ## `dec64.appendF` -/

theorem decimalLen64_le (u : Nat) (h : u < 2 ^ 59) : Ryu64.decimalLen64 u ≤ 18 := by
  have hb := bitLen_le u h
  unfold Ryu64.decimalLen64
  simp only []
  generalize Ryu64.bitLen64 u = B at hb
  have : (B * 1233) >>> 12 ≤ 17 := by rw [Nat.shiftRight_eq_div_pow]; omega
  omega

theorem exec_appendF_rest (Γ : Env) (x6 x7 : List Byte) (h6 : Γ.fresh 6 = x6)
    (hdl : ∀ u : Nat, u < 2 ^ 59 → Γ.call fDecimalLen [.u 64 u] = some (.i 64 (Ryu64.decimalLen64 u : Nat)))
    (hss : ∀ (c sp : List Byte) (k : Nat), c.length + sp.length < 2 ^ 62 → k < 2 ^ 62 →
      Γ.call fSizeSlice [.bytes c sp, .i 64 k] = some (bufVal (sizeSlice ⟨c, sp⟩ k x7)))
    (negv : Val) (c sp : List Byte) (m : Nat) (e : Int) (hm : m < 2 ^ 59) (he0 : -3000 ≤ e) (he1 : e ≤ 3000)
    (hlen : c.length + sp.length < 2 ^ 60) (hx6 : x6.length < 2 ^ 60) (hf : 3100 < Γ.fuel) (rest : List S)
    (hrest : rest = [
      S.define 3 (E.field (E.var 0) 0),
      S.define 4 (E.call1 fDecimalLen (E.var 3)),
      S.define 5 (E.toI 64 (E.field (E.var 0) 1)),
      S.ite (E.cmp COp.ge (E.var 5) (E.i 64 0)) layoutIntPart (S.scope (S.block [])),
      S.define 6 (E.neg (E.var 5)),
      S.ite (E.cmp COp.ge (E.var 6) (E.var 4)) layoutFracPart (S.scope (S.block []))] ++ layoutMixedPart) :
    (S.block rest).exec Γ [.pair (.u 64 m) (.i 32 e), .bytes c sp, negv] =
      .ret (bufVal (C16Link.appendFMag ⟨c, sp⟩ m e x6 x7)) := by
  subst hrest
  have hol := decimalLen64_le m hm
  have hcall := hdl m hm
  have hwe : wrapS 64 e = e := by rw [wrapS64] <;> omega
  unfold C16Link.appendFMag
  generalize Ryu64.decimalLen64 m = olen at hol hcall ⊢
  simp only [List.cons_append, List.nil_append]
  xs []
  xs [hcall]
  xs [hwe]
  by_cases hge : e ≥ 0
  · obtain ⟨dE, rfl⟩ : ∃ dE : Nat, e = (dE : Int) := ⟨e.toNat, by omega⟩
    have hc : (0 : Int) ≤ (dE : Int) := by omega
    rewrite [if_pos hge, Int.toNat_natCast]
    xif [hc]
    rewrite [exec_layoutInt Γ x7 hss _ _ c sp m olen dE hlen (by omega) (by omega) (by omega) (by omega)]
    xnorm
  · obtain ⟨ePos, rfl⟩ : ∃ ePos : Nat, e = -(ePos : Int) := ⟨(-e).toNat, by omega⟩
    have hp : 0 < ePos := by omega
    have hc : ¬ ((0 : Int) ≤ -(ePos : Int)) := by omega
    have hc' : ¬ ePos = 0 := by omega
    have hw : wrapS 64 (ePos : Int) = (ePos : Int) := by rw [wrapS64] <;> omega
    rewrite [if_neg hge, Int.neg_neg, Int.toNat_natCast]
    xif [hc, hc']
    xs [hw]
    unfold C16.appendFNeg
    by_cases hfr : ePos ≥ olen
    · have hc2 : (olen : Int) ≤ (ePos : Int) := by omega
      rewrite [if_pos hfr]
      xif [hc2]
      rewrite [exec_layoutFrac Γ x6 x7 h6 hss _ _ _ _ c sp m ePos hlen hx6 (by omega) (by omega)]
      xnorm
    · have hc2 : ¬ ((olen : Int) ≤ (ePos : Int)) := by omega
      rewrite [if_neg hfr]
      xif [hc2]
      exact exec_layoutMixed Γ x7 hss _ _ _ c sp m olen ePos hlen (by omega) (by omega) (by omega)

theorem exec_appendF (Γ : Env) (x5 x6 x7 : List Byte) (h5 : Γ.fresh 5 = x5) (h6 : Γ.fresh 6 = x6)
    (hdl : ∀ u : Nat, u < 2 ^ 59 → Γ.call fDecimalLen [.u 64 u] = some (.i 64 (Ryu64.decimalLen64 u : Nat)))
    (hss : ∀ (c sp : List Byte) (k : Nat), c.length + sp.length < 2 ^ 62 → k < 2 ^ 62 →
      Γ.call fSizeSlice [.bytes c sp, .i 64 k] = some (bufVal (sizeSlice ⟨c, sp⟩ k x7)))
    (neg : Bool) (c sp : List Byte) (m : Nat) (e : Int) (hm : m < 2 ^ 59) (he0 : -3000 ≤ e) (he1 : e ≤ 3000)
    (hlen : c.length + sp.length < 2 ^ 59) (hx5 : x5.length < 2 ^ 59) (hx6 : x6.length < 2 ^ 60) (hf : 3100 < Γ.fuel) :
    fnAppendF.body.exec Γ [.pair (.u 64 m) (.i 32 e), .bytes c sp, .bool neg] =
      .ret (bufVal (C16Link.appendF ⟨c, sp⟩ neg m e x5 x6 x7)) := by
  unfold C16Link.appendF
  simp only [fnAppendF, List.cons_append, List.nil_append]
  cases neg
  · xif []
    exact exec_appendF_rest Γ x6 x7 h6 hdl hss _ c sp m e hm he0 he1 (by omega) hx6 hf _ rfl
  · have hb : appendTo c sp [45] x5 = bufVal (C16.appendBytes ⟨c, sp⟩ [45] x5) := by
      unfold appendTo C16.appendBytes bufVal; simp only []; split <;> rfl
    have hl : (C16.appendBytes ⟨c, sp⟩ [45] x5).content.length + (C16.appendBytes ⟨c, sp⟩ [45] x5).spare.length < 2 ^ 60 := by
      unfold C16.appendBytes; simp only []; split
      · simp; omega
      · simp; omega
    generalize C16.appendBytes ⟨c, sp⟩ [45] x5 = b' at hb hl ⊢
    obtain ⟨c', sp'⟩ := b'
    xif []
    xs [h5, hb, bufVal]
    exact exec_appendF_rest Γ x6 x7 h6 hdl hss _ c' sp' m e hm he0 he1 hl hx6 hf _ rfl
theorem env_fresh (F : Nat) (fr : Nat → List UInt8) (n : Nat) : (env F fr n).fresh = fr := rfl

/-- `d.appendF(b, neg)` is the mirror `C16Link.appendF`: the sign, `decimalLen64`, the three layouts — buffer for buffer
(content and spare capacity), with `fr 5`, `fr 6`, `fr 7` what the three `append`s that may allocate leave behind -/
theorem call_appendF (F : Nat) (fr : Nat → List UInt8) (n : Nat) (hF : 3100 < F) (neg : Bool) (c sp : List Byte) (m : Nat) (e : Int)
    (hm : m < 2 ^ 59) (he0 : -3000 ≤ e) (he1 : e ≤ 3000) (hlen : c.length + sp.length < 2 ^ 59)
    (hx5 : (fr 5).length < 2 ^ 59) (hx6 : (fr 6).length < 2 ^ 60) :
    callAt canonFns T F fr (n+4) fAppendF [.pair (.u 64 m) (.i 32 e), .bytes c sp, .bool neg] =
      some (bufVal (C16Link.appendF ⟨c, sp⟩ neg m e (fr 5) (fr 6) (fr 7))) := by
  rw [callAt_succ F fr (n+3) _ _ look_appendF, xrunFn, if_pos (by rfl),
    exec_appendF (env F fr (n+3)) (fr 5) (fr 6) (fr 7) rfl rfl (fun u hu => call_decimalLen64 F fr (n+1) u hu)
      (fun c sp k h1 h2 => call_sizeSlice F fr (n+2) c sp k h1 h2) neg c sp m e hm he0 he1 hlen hx5 hx6 (by rw [env_fuel]; exact hF)]
  rfl

/-! ## `AppendFloat64f` -/

theorem and52 (x : Nat) : x &&& 4503599627370495 = x % 2 ^ 52 := Nat.and_two_pow_sub_one_eq_mod x 52
theorem and11 (x : Nat) : x &&& 2047 = x % 2048 := Nat.and_two_pow_sub_one_eq_mod x 11

theorem exec_appendFloat (Γ : Env) (x5 x6 x7 : List Byte) (c sp : List Byte) (bits mant exp xm dm : Nat) (xe de : Int) (ok : Bool)
    (hbits : bits < 2 ^ 64) (hmant : bits % 2 ^ 52 = mant) (hexp : bits / 2 ^ 52 % 2048 = exp)
    (hfin : exp ≠ 2047) (hnz : mant ≠ 0 ∨ exp ≠ 0)
    (hei : Γ.call fExactInt [.u 64 mant, .u 64 exp] = some (.pair (.pair (.u 64 xm) (.i 32 xe)) (.bool ok)))
    (htd : Γ.call fToDecimal [.u 64 mant, .u 64 exp] = some (.pair (.u 64 dm) (.i 32 de)))
    (haf : ∀ (neg : Bool), Γ.call fAppendF [.pair (.u 64 (if ok then xm else dm)) (.i 32 (if ok then xe else de)), .bytes c sp, .bool neg] =
      some (bufVal (C16Link.appendF ⟨c, sp⟩ neg (if ok then xm else dm) (if ok then xe else de) x5 x6 x7))) :
    fnAppendFloat.body.exec Γ [.bytes c sp, .f64 bits] =
      .ret (bufVal (C16Link.appendF ⟨c, sp⟩ (bits >>> 63 != 0) (if ok then xm else dm) (if ok then xe else de) x5 x6 x7)) := by
  simp only [fnAppendFloat]
  xs []
  xs []
  xs [and52, hmant]
  have hexp' : bits >>> 52 % 2048 = exp := by rw [Nat.shiftRight_eq_div_pow]; exact hexp
  xs [and11, hexp']
  have hcond : ((exp == 2047) || (exp == 0 && mant == 0)) = false := by
    rcases hnz with h | h <;> simp [hfin, h]
  xif [hcond]
  xs [hei]
  cases ok
  · xif []
    xs [htd]
    have := haf (bits >>> 63 != 0)
    simp only [Bool.false_eq_true, if_false] at this ⊢
    xs [this]
  · xif []
    have := haf (bits >>> 63 != 0)
    simp only [if_true] at this ⊢
    xs [this]

/-! ## bounds the final theorem needs -/

theorem exactIntLoop_e : ∀ (fuel : Nat) (d : Ryu64.Dec64), d.e ≤ (Ryu64.exactIntLoop fuel d).e ∧ (Ryu64.exactIntLoop fuel d).e ≤ d.e + fuel := by
  intro fuel
  induction fuel with
  | zero => intro d; simp [Ryu64.exactIntLoop]
  | succ fuel ih =>
    intro d
    unfold Ryu64.exactIntLoop
    split
    · have := ih { m := d.m / 10, e := d.e + 1 }
      simp only at this
      constructor <;> omega
    · constructor <;> omega

/-- the exponents of the two decimals are small -/
theorem exactInt_e_bound (mant exp : Nat) (X : Ryu64.Dec64) (ok : Bool) (h : Ryu64.float64ToDecimalExactInt mant exp = (X, ok)) :
    0 ≤ X.e ∧ X.e ≤ 20 := by
  unfold Ryu64.float64ToDecimalExactInt at h
  dsimp only at h
  split at h
  · have := (Prod.mk.inj h).1; subst this; simp
  · split at h
    · have := (Prod.mk.inj h).1; subst this; simp
    · have := (Prod.mk.inj h).1; subst this
      have := exactIntLoop_e 20 { m := Ryu64.shr64 (mant ||| Ryu64.shl64 1 Ryu64.mantBits64) (Ryu64.mantBits64 - Ryu64.subU64 exp Ryu64.bias64), e := 0 }
      simp only at this ⊢
      omega

theorem toDecimal_e_bound (mant exp : Nat) (he : exp < 2047) :
    -3000 ≤ (Ryu64.float64ToDecimal mant exp).e ∧ (Ryu64.float64ToDecimal mant exp).e ≤ 3000 := by
  have hfd : (Ryu64.float64ToDecimal mant exp).e =
      (Ryu64.step3 mant exp).e10 + (Ryu64.step4 (Ryu64.step3 mant exp) (Ryu64.acceptBoundsOf mant exp)).2 := rfl
  rw [hfd]
  have he10 := e10_bound mant exp he
  generalize Ryu64.step3 mant exp = s3 at he10 ⊢
  unfold Ryu64.step4
  split
  · rw [step4General_gen]
    have := genFinal_removed s3.vr s3.vp s3.vm s3.vmIsTrailingZeros s3.vrIsTrailingZeros
    simp only
    omega
  · unfold Ryu64.step4Common
    have := comFinal_removed s3.vr s3.vp s3.vm
    simp only
    omega

theorem neg_of_decode (b : UInt64) (dy : Num.Dyadic) (h : Num.decode b = some dy) : (b.toNat >>> 63 != 0) = dy.neg := by
  have hb : b.toNat < 2 ^ 64 := b.toNat_lt
  have hn : dy.neg = (b.toNat / 2 ^ 63 == 1) := by
    unfold Num.decode at h
    dsimp only at h
    split at h
    · cases h
    · split at h <;> (have := Option.some.inj h; subst this; rfl)
  rw [hn, Nat.shiftRight_eq_div_pow]
  have : b.toNat / 2 ^ 63 = 0 ∨ b.toNat / 2 ^ 63 = 1 := by omega
  rcases this with h | h <;> simp [h]

end QF.Props.C16RyuGen
