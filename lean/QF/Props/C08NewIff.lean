import QF.Props.C08EndToEnd
/-!
# C08 — `New` of today's source rejects exactly the inputs C08's text says it rejects (tie T1, composition)

`C08EndToEnd.gen_new_end_to_end_partial` says: the regenerated `New` = `newS`. This file reads the equality in the other
direction — WHICH inputs are rejected — in the words of C08's text, not in terms of `newS`:

* `NewViolation cols order enums` — the rules: illegal name; `ColumnOrder` of the wrong length / naming an unknown column;
  unsupported data (unknown type); a constant with a negative count; columns of unequal length (compared with the first column
  of the order); an `Enums` entry for a column that is missing or does not hold strings; more than 255 enum values (declared,
  or distinct in the data when nothing is declared); a value in the data that is not in a declared list.
* `newS_err_iff`            — spec level, NO hypothesis: `newS cols order enums = .err ↔ NewViolation cols order enums`
                              (`build_char`: `newS.build` fails iff a column is bad, else it records exactly the names of
                              the declared string columns; `mkEnum_none_iff`: when an enum cannot be built).
* `gen_new_rejects_prefix`  — the three rules of the guard prefix make the regenerated `New` return an error with NO
                              hypothesis (any constructors, ill-typed data, any sizes, orders with repetitions).
* `gen_new_rejects_partial` — every violation makes the regenerated `New` (regenerated constructors, enum factory,
                              `NewPointer`) return an error.
* `gen_new_iff_partial`     — together: the regenerated `New` has an outcome; it is an error exactly when a rule is violated
                              (exactly when `newS` is `.err`); otherwise it is `newS`'s frame, whose cells read back through
                              the regenerated typed views.
The two `_partial` theorems have the hypotheses of `gen_new_end_to_end_partial` and nothing else: columns that are well-typed
Go values with `count < 2^32`, pointer limits for the string columns WITHOUT enum declaration, an order without repetition
(necessary: `C08EndToEnd.nodup_necessary`). There is no separate well-typedness hypothesis on the frame or on the
declarations; `GoData` only says which `NewCol` values stand for Go values (`genCtors` has no cells for a string under the
kind `[]int`, which no Go value is).

The rules 4–9 speak of `orderedCols cols order`, the columns taken in the requested order; when the prefix has passed, for an
order without repetition over distinct names, these are exactly the columns of the map (`mem_orderedCols_iff`).
-/
namespace QF.Props.C08NewIff
open QF QF.Props.C08Guards QF.Props.C08Construct QF.Props.C08EndToEnd

/-- the columns taken in the requested order (default: sorted by name) -/
def orderedCols (cols : List NewCol) (order : List Bytes) : List NewCol :=
  (specOrder cols order).filterMap (fun n => cols.find? (·.name == n))

/-- the length of the first column of the order (0 without columns): the common length -/
def firstLen (cols : List NewCol) (order : List Bytes) : Int :=
  match orderedCols cols order with | c :: _ => c.count | [] => 0

/-- string data: `[]string`, `[]*string` or `ConstString` -/
def isStrCol (c : NewCol) : Bool :=
  match c.kind with | .cells .string => true | .const .string => true | _ => false

/-- the strings an enum column registers: its cells; a constant registers its value even when it has no rows -/
def enumSrc (c : NewCol) : List Cell :=
  match c.kind with
  | .const _ => c.cells ++ List.replicate c.count.toNat c.cells.head!
  | _ => c.cells

theorem declaredEnum_eq (enums : List (Bytes × List Bytes)) (c : NewCol) :
    declaredEnum enums c = (isStrCol c && (enums.find? (·.1 == c.name)).isSome) := rfl

/-- the ways `newS.build` treats one column: unsupported data; a column that is not made an enum (the declarations used so
far stay); a string column with a declaration — the enum cannot be built, or it is and the name is recorded -/
def SpecColCases (enums : List (Bytes × List Bytes)) (used : List Bytes) (c : NewCol) : Prop :=
  (c.kind = .unsupported ∧ specCol enums used c = none) ∨
  (c.kind ≠ .unsupported ∧ declaredEnum enums c = false ∧ ∃ col, specCol enums used c = some (col, used)) ∨
  (isStrCol c = true ∧ ∃ k decl, enums.find? (·.1 == c.name) = some (k, decl) ∧
    ((mkEnum decl (enumSrc c) = none ∧ specCol enums used c = none) ∨
     (mkEnum decl (enumSrc c) ≠ none ∧ ∃ col, specCol enums used c = some (col, c.name :: used))))

theorem specCol_cases (enums : List (Bytes × List Bytes)) (used : List Bytes) (c : NewCol) : SpecColCases enums used c := by
  unfold SpecColCases
  have hstr : ∀ (cl src : List Cell), (isStrCol c = true) → src = enumSrc c → c.kind ≠ .unsupported →
      (match enums.find? (·.1 == c.name) with
        | some (_, decl) =>
          (mkEnum decl src).map (fun (vals, strict) =>
            (({ name := c.name, ty := .enum, vals := vals, strict := strict, cells := cl.toArray } : LCol), c.name :: used))
        | none => some ({ name := c.name, ty := .string, cells := cl.toArray }, used)) = specCol enums used c →
      SpecColCases enums used c := by
    intro cl src hs hsrc hku he
    unfold SpecColCases
    cases hf : enums.find? (·.1 == c.name) with
    | none =>
      rw [hf] at he
      exact .inr (.inl ⟨hku, by rw [declaredEnum_eq, hf]; simp, _, he.symm⟩)
    | some p =>
      obtain ⟨k, decl⟩ := p
      rw [hf] at he
      simp only at he
      refine .inr (.inr ⟨hs, k, decl, rfl, ?_⟩)
      rw [← hsrc]
      cases hm : mkEnum decl src with
      | none => rw [hm] at he; exact .inl ⟨rfl, he.symm⟩
      | some q => rw [hm] at he; exact .inr ⟨by simp, _, he.symm⟩
  cases hk : c.kind with
  | unsupported => exact .inl ⟨rfl, by simp [specCol, hk]⟩
  | cells ty =>
    by_cases hs : ty = .string
    · subst hs
      rw [← hk]
      exact hstr c.cells c.cells (by simp [isStrCol, hk]) (by simp [enumSrc, hk]) (by simp [hk])
        (by simp only [specCol, hk]; rfl)
    · have hb : (ty == CType.string) = false := beq_false_of_ne hs
      refine .inr (.inl ⟨by simp, ?_, _, by simp [specCol, hk, hb]; rfl⟩)
      rw [declaredEnum_eq]
      have : isStrCol c = false := by cases ty <;> simp [isStrCol, hk] at hs ⊢
      simp [this]
  | const ty =>
    by_cases hs : ty = .string
    · subst hs
      rw [← hk]
      exact hstr (List.replicate c.count.toNat c.cells.head!) (c.cells ++ List.replicate c.count.toNat c.cells.head!)
        (by simp [isStrCol, hk]) (by simp [enumSrc, hk]) (by simp [hk]) (by simp only [specCol, hk]; rfl)
    · have hb : (ty == CType.string) = false := beq_false_of_ne hs
      refine .inr (.inl ⟨by simp, ?_, _, by simp [specCol, hk, hb]; rfl⟩)
      rw [declaredEnum_eq]
      have : isStrCol c = false := by cases ty <;> simp [isStrCol, hk] at hs ⊢
      simp [this]


/-- a column `newS.build` stops at, when the common length is `len` -/
def ColBad (enums : List (Bytes × List Bytes)) (len : Int) (c : NewCol) : Prop :=
  c.count < 0 ∨ c.kind = .unsupported ∨ c.count ≠ len ∨
  (isStrCol c = true ∧ ∃ k decl, enums.find? (·.1 == c.name) = some (k, decl) ∧ mkEnum decl (enumSrc c) = none)

/-- **`newS.build` characterised**: it fails iff one of the columns is bad; otherwise the names it records are those of
the string columns with a declaration. -/
theorem build_char (enums : List (Bytes × List Bytes)) (len : Int) : ∀ (cs : List NewCol) (used : List Bytes),
    (newS.build enums len used cs = none ↔ ∃ c ∈ cs, ColBad enums len c) ∧
    (∀ lcols u, newS.build enums len used cs = some (lcols, u) →
      ∀ n, n ∈ u ↔ n ∈ used ∨ ∃ c ∈ cs, c.name = n ∧ declaredEnum enums c = true) := by
  intro cs
  induction cs with
  | nil =>
    intro used
    rw [build_nil]
    refine ⟨by simp, fun lcols u h n => ?_⟩
    simp only [Option.some.injEq, Prod.mk.injEq] at h
    obtain ⟨_, rfl⟩ := h
    simp
  | cons c cs ih =>
    intro used
    rw [build_cons]
    by_cases hneg : c.count < 0
    · rw [if_pos hneg]
      exact ⟨⟨fun _ => ⟨c, by simp, .inl hneg⟩, fun _ => rfl⟩, fun _ _ h => by cases h⟩
    rw [if_neg hneg]
    -- the step with the column made and the recorded names `used'`
    have step : ∀ (col : LCol) (used' : List Bytes), specCol enums used c = some (col, used') →
        ¬ (c.kind = .unsupported) → ¬ (isStrCol c = true ∧ ∃ k decl, enums.find? (·.1 == c.name) = some (k, decl) ∧
          mkEnum decl (enumSrc c) = none) →
        (∀ n, n ∈ used' ↔ n ∈ used ∨ (c.name = n ∧ declaredEnum enums c = true)) →
        ((match specCol enums used c with
          | none => none
          | some (col, used') =>
            if c.count != len then none else
            match newS.build enums len used' cs with
            | none => none
            | some (rest, u) => some (col :: rest, u)) = none ↔ ∃ c' ∈ c :: cs, ColBad enums len c') ∧
        (∀ lcols u, (match specCol enums used c with
          | none => none
          | some (col, used') =>
            if c.count != len then none else
            match newS.build enums len used' cs with
            | none => none
            | some (rest, u) => some (col :: rest, u)) = some (lcols, u) →
          ∀ n, n ∈ u ↔ n ∈ used ∨ ∃ c' ∈ c :: cs, c'.name = n ∧ declaredEnum enums c' = true) := by
      intro col used' hs hk hm hu
      rw [hs]
      simp only
      obtain ⟨i1, i2⟩ := ih used'
      by_cases hl : c.count = len
      · have hb : (c.count != len) = false := by simp [hl]
        rw [if_neg (by rw [hb]; exact Bool.false_ne_true)]
        have hcb : ¬ ColBad enums len c := by
          rintro (h | h | h | h)
          · exact hneg h
          · exact hk h
          · exact h hl
          · exact hm h
        cases hb2 : newS.build enums len used' cs with
        | none =>
          refine ⟨⟨fun _ => ?_, fun _ => rfl⟩, fun _ _ h => by cases h⟩
          obtain ⟨c', hc', hbad⟩ := i1.1 hb2
          exact ⟨c', List.mem_cons_of_mem _ hc', hbad⟩
        | some q =>
          obtain ⟨rest, u'⟩ := q
          refine ⟨⟨(fun h => by cases h), ?_⟩, fun lcols u h n => ?_⟩
          · rintro ⟨c', hc', hbad⟩
            rcases List.mem_cons.1 hc' with rfl | hc'
            · exact absurd hbad hcb
            · have := i1.2 ⟨c', hc', hbad⟩
              rw [hb2] at this; cases this
          · simp only [Option.some.injEq, Prod.mk.injEq] at h
            obtain ⟨_, rfl⟩ := h
            rw [i2 rest u' hb2 n, hu n]
            simp only [List.mem_cons, exists_eq_or_imp]
            constructor
            · rintro ((h | h) | h)
              · exact .inl h
              · exact .inr (.inl h)
              · exact .inr (.inr h)
            · rintro (h | h | h)
              · exact .inl (.inl h)
              · exact .inl (.inr h)
              · exact .inr h
      · have hb : (c.count != len) = true := by simpa using hl
        rw [if_pos hb]
        exact ⟨⟨fun _ => ⟨c, by simp, .inr (.inr (.inl hl))⟩, fun _ => rfl⟩, fun _ _ h => by cases h⟩
    rcases specCol_cases enums used c with ⟨hk, hs⟩ | ⟨hk, hd, col, hs⟩ | ⟨hstr, k, decl, hf, ⟨hm, hs⟩ | ⟨hm, col, hs⟩⟩
    · rw [hs]
      exact ⟨⟨fun _ => ⟨c, by simp, .inr (.inl hk)⟩, fun _ => rfl⟩, fun _ _ h => by cases h⟩
    · refine step col used hs hk ?_ ?_
      · rintro ⟨h1, k, decl, h2, _⟩
        rw [declaredEnum_eq, h1, h2] at hd
        cases hd
      · intro n
        rw [hd]
        simp
    · rw [hs]
      exact ⟨⟨fun _ => ⟨c, by simp, .inr (.inr (.inr ⟨hstr, k, decl, hf, hm⟩))⟩, fun _ => rfl⟩, fun _ _ h => by cases h⟩
    · have hd : declaredEnum enums c = true := by rw [declaredEnum_eq, hstr, hf]; rfl
      refine step col (c.name :: used) hs ?_ ?_ ?_
      · intro hk
        simp [isStrCol, hk] at hstr
      · rintro ⟨_, k', decl', h2, h3⟩
        rw [hf] at h2
        simp only [Option.some.injEq, Prod.mk.injEq] at h2
        obtain ⟨_, rfl⟩ := h2
        exact hm h3
      · intro n
        rw [hd]
        simp only [List.mem_cons, and_true]
        constructor
        · rintro (h | h)
          · exact .inr h.symm
          · exact .inl h
        · rintro (h | h)
          · exact .inr h
          · exact .inl h.symm


/-- **When an enum cannot be built**: more than 255 declared values; nothing declared and more than 255 distinct values in
the data; or a declared list and a value in the data that is not in it. -/
theorem mkEnum_none_iff (decl : List Bytes) (cells : List Cell) :
    mkEnum decl cells = none ↔
      decl.length > 255 ∨ (decl = [] ∧ C17Enum.MoreDistinctThan 255 cells) ∨
      (decl ≠ [] ∧ ∃ s, Cell.str (some s) ∈ cells ∧ s ∉ decl) := by
  by_cases hl : decl.length > 255
  · rw [C17Enum.mkEnum_eq, if_pos hl]
    exact ⟨fun _ => .inl hl, fun _ => rfl⟩
  · cases decl with
    | nil =>
      rw [(C17Enum.mkEnum_derived cells).1]
      constructor
      · intro h; exact .inr (.inl ⟨rfl, h⟩)
      · rintro (h | ⟨_, h⟩ | ⟨h, _⟩)
        · exact absurd h hl
        · exact h
        · exact absurd rfl h
    | cons d ds =>
      rw [C17Enum.mkEnum_eq, if_neg hl]
      have he : (!(d :: ds).isEmpty) = true := rfl
      rw [if_pos he]
      by_cases hall : cells.all (C17Enum.declOk (d :: ds)) = true
      · rw [if_pos hall]
        constructor
        · intro h; cases h
        · rintro (h | ⟨h, _⟩ | ⟨_, s, hs, hn⟩)
          · exact absurd h hl
          · cases h
          · have := List.all_eq_true.1 hall _ hs
            simp only [C17Enum.declOk, List.contains_iff_mem] at this
            exact absurd this hn
      · rw [if_neg hall]
        refine ⟨fun _ => .inr (.inr ⟨by simp, ?_⟩), fun _ => rfl⟩
        have hall' : cells.all (C17Enum.declOk (d :: ds)) = false := by simpa using hall
        obtain ⟨x, hx, hbad⟩ := List.all_eq_false.1 hall'
        cases x with
        | str o =>
          cases o with
          | some t =>
            refine ⟨t, hx, fun hm => hbad ?_⟩
            simp only [C17Enum.declOk]
            exact List.contains_iff_mem.2 hm
          | none => exact absurd rfl hbad
        | int _ => exact absurd rfl hbad
        | float _ => exact absurd rfl hbad
        | bool _ => exact absurd rfl hbad

/-! ## The rules of C08's text -/

/-- **The rules by which `New` rejects its input**, as C08's text lists them (`orderedCols`: the columns taken in the
requested order, sorted by name by default; `firstLen`: the length of the first of them):
an illegal column name; a `ColumnOrder` of the wrong length or naming a column that is not in the data; unsupported data
(unknown type); a constant with a negative count; columns of unequal length; an `Enums` entry for a column that is not there
or does not hold strings; an enum with more than 255 values (declared, or — nothing declared — distinct in the data); a
value in the data that is not in the declared list. -/
inductive NewViolation (cols : List NewCol) (order : List Bytes) (enums : List (Bytes × List Bytes)) : Prop
  | illegalName (c : NewCol) (hc : c ∈ cols) (h : legalName c.name = false)
  | orderLength (h : (specOrder cols order).length ≠ cols.length)
  | orderUnknown (n : Bytes) (hn : n ∈ specOrder cols order) (h : ∀ c ∈ cols, c.name ≠ n)
  | unsupported (c : NewCol) (hc : c ∈ orderedCols cols order) (h : c.kind = .unsupported)
  | negativeCount (c : NewCol) (hc : c ∈ orderedCols cols order) (h : c.count < 0)
  | unequalLength (c : NewCol) (hc : c ∈ orderedCols cols order) (h : c.count ≠ firstLen cols order)
  | enumUnknown (e : Bytes × List Bytes) (he : e ∈ enums)
      (h : ∀ c ∈ orderedCols cols order, c.name = e.1 → isStrCol c = false)
  | enumTooMany (c : NewCol) (hc : c ∈ orderedCols cols order) (hs : isStrCol c = true) (k : Bytes) (decl : List Bytes)
      (hf : enums.find? (·.1 == c.name) = some (k, decl))
      (h : decl.length > 255 ∨ (decl = [] ∧ C17Enum.MoreDistinctThan 255 (enumSrc c)))
  | enumUndeclared (c : NewCol) (hc : c ∈ orderedCols cols order) (hs : isStrCol c = true) (k : Bytes) (decl : List Bytes)
      (hf : enums.find? (·.1 == c.name) = some (k, decl)) (hne : decl ≠ [])
      (s : Bytes) (hv : Cell.str (some s) ∈ enumSrc c) (h : s ∉ decl)

theorem colBad_violation (cols : List NewCol) (order : List Bytes) (enums : List (Bytes × List Bytes)) (c : NewCol)
    (hc : c ∈ orderedCols cols order) (h : ColBad enums (firstLen cols order) c) : NewViolation cols order enums := by
  rcases h with h | h | h | ⟨hs, k, decl, hf, hm⟩
  · exact .negativeCount c hc h
  · exact .unsupported c hc h
  · exact .unequalLength c hc h
  · rcases (mkEnum_none_iff decl _).1 hm with h | h | ⟨hne, s, hv, h⟩
    · exact .enumTooMany c hc hs k decl hf (.inl h)
    · exact .enumTooMany c hc hs k decl hf (.inr h)
    · exact .enumUndeclared c hc hs k decl hf hne s hv h

theorem prefix_violation (cols : List NewCol) (order : List Bytes) (enums : List (Bytes × List Bytes))
    (h : newPrefixRejects cols order) : NewViolation cols order enums := by
  rcases h with h | h | h
  · obtain ⟨c, hc, hl⟩ := List.all_eq_false.1 h
    exact .illegalName c hc (by simpa using hl)
  · exact .orderLength h
  · obtain ⟨n, hn, hl⟩ := List.all_eq_false.1 h
    refine .orderUnknown n hn (fun c hc e => hl ?_)
    exact List.any_eq_true.2 ⟨c, hc, by simp [e]⟩

/-- **`newS` rejects exactly the inputs that violate a rule of C08's text** — ALL column maps, orders and declaration
lists, no hypothesis. -/
theorem newS_err_iff (cols : List NewCol) (order : List Bytes) (enums : List (Bytes × List Bytes)) :
    newS cols order enums = .err ↔ NewViolation cols order enums := by
  by_cases hp : newPrefixRejects cols order
  · exact ⟨fun _ => prefix_violation cols order enums hp, fun _ => newS_prefix cols order enums hp⟩
  · rw [newS_after_prefix cols order enums hp]
    obtain ⟨b1, b2⟩ := build_char enums (firstLen cols order) (orderedCols cols order) []
    show (match newS.build enums (firstLen cols order) [] (orderedCols cols order) with
      | none => Res.err
      | some (lcols, used) =>
        if enums.all (fun e => used.contains e.1) then .ok { cols := lcols, n := (firstLen cols order).toNat } else .err) = .err ↔ _
    -- a violation that is not one of the prefix makes a column bad, or leaves a declaration unused
    have back : NewViolation cols order enums →
        (∃ c ∈ orderedCols cols order, ColBad enums (firstLen cols order) c) ∨
        (∃ e ∈ enums, ∀ c ∈ orderedCols cols order, c.name = e.1 → isStrCol c = false) := by
      intro hv
      cases hv with
      | illegalName c hc h =>
        exact absurd (.inl (List.all_eq_false.2 ⟨c, hc, by simp [h]⟩)) hp
      | orderLength h => exact absurd (.inr (.inl h)) hp
      | orderUnknown n hn h =>
        refine absurd (.inr (.inr (List.all_eq_false.2 ⟨n, hn, ?_⟩))) hp
        intro ha
        obtain ⟨c, hc, he⟩ := List.any_eq_true.1 ha
        exact h c hc (eq_of_beq he)
      | unsupported c hc h => exact .inl ⟨c, hc, .inr (.inl h)⟩
      | negativeCount c hc h => exact .inl ⟨c, hc, .inl h⟩
      | unequalLength c hc h => exact .inl ⟨c, hc, .inr (.inr (.inl h))⟩
      | enumUnknown e he h => exact .inr ⟨e, he, h⟩
      | enumTooMany c hc hs k decl hf h =>
        refine .inl ⟨c, hc, .inr (.inr (.inr ⟨hs, k, decl, hf, (mkEnum_none_iff decl _).2 ?_⟩))⟩
        rcases h with h | h
        · exact .inl h
        · exact .inr (.inl h)
      | enumUndeclared c hc hs k decl hf hne s hv h =>
        exact .inl ⟨c, hc, .inr (.inr (.inr ⟨hs, k, decl, hf, (mkEnum_none_iff decl _).2 (.inr (.inr ⟨hne, s, hv, h⟩))⟩))⟩
    cases hb : newS.build enums (firstLen cols order) [] (orderedCols cols order) with
    | none =>
      obtain ⟨c, hc, hbad⟩ := b1.1 hb
      exact ⟨fun _ => colBad_violation cols order enums c hc hbad, fun _ => rfl⟩
    | some q =>
      obtain ⟨lcols, used⟩ := q
      have hused := b2 lcols used hb
      simp only
      constructor
      · intro h
        have hall : enums.all (fun e => used.contains e.1) = false := by
          cases ha : enums.all (fun e => used.contains e.1)
          · rfl
          · rw [ha] at h; cases h
        obtain ⟨e, he, hne⟩ := List.all_eq_false.1 hall
        refine .enumUnknown e he (fun c hc hn => ?_)
        cases hs : isStrCol c
        · rfl
        · exfalso
          apply hne
          rw [List.contains_iff_mem, hused]
          refine .inr ⟨c, hc, hn, ?_⟩
          rw [declaredEnum_eq, hs, Bool.true_and, List.find?_isSome]
          exact ⟨e, he, by simp [hn]⟩
      · intro hv
        rcases back hv with hbad | ⟨e, he, h⟩
        · have := b1.2 hbad
          rw [hb] at this; cases this
        · have hall : enums.all (fun e => used.contains e.1) = false := by
            refine List.all_eq_false.2 ⟨e, he, ?_⟩
            rw [List.contains_iff_mem, hused]
            rintro (h' | ⟨c, hc, hn, hd⟩)
            · cases h'
            · rw [declaredEnum_eq, h c hc hn] at hd
              cases hd
          rw [hall]
          rfl


/-! ## The regenerated `New` rejects exactly these inputs -/

/-- **The rules of the guard prefix, with no hypothesis at all**: an illegal name, a `ColumnOrder` of the wrong length or
naming a column that is not in the data make the regenerated `New` return an error — for ALL column maps (ill-typed `NewCol`s,
any sizes, orders with repetitions) and whatever the column constructors do. -/
theorem gen_new_rejects_prefix (K : Ctors) (plain : Bytes → Bool) (cols : List NewCol) (order : List Bytes)
    (enums : List (Bytes × List Bytes)) (h : newPrefixRejects cols order) :
    genNew K plain cols order enums = some .err ∧ newS cols order enums = .err := by
  have hg := (gen_new_guards_partial cols order enums).1.2 h
  refine ⟨?_, newS_prefix cols order enums h⟩
  unfold genNew
  rw [hg]

/-- **The regenerated `New` returns an error for every input that violates a rule of C08's text** (`NewViolation`: illegal
name, `ColumnOrder` of the wrong length / with an unknown column, unsupported data, negative count, unequal lengths, an
`Enums` entry for a missing or non-string column, more than 255 enum values, an undeclared value under a declared list).

FULL STATEMENT: for every column map, order and declaration list, `NewViolation cols order enums →
genNew genCtors plain cols order enums = some .err`.
PROVED (`_partial`) under the hypotheses of `C08EndToEnd.gen_new_end_to_end_partial`; EXCLUDED, exactly: a column order
naming a column twice; a column of 2^32 rows or more; a string column WITHOUT enum declaration beyond the limits of the
packed string pointer (a string of 2^28 bytes or more, 2^35 bytes or more in the column) — there a violation that is found
only after that column was built (unequal lengths, a later bad column, an unused declaration) is not covered. The three rules
of the prefix are covered without any hypothesis (`gen_new_rejects_prefix`). `GoData` (which `NewCol`s stand for Go values)
does not restrict the Go inputs beyond `count < 2^32`. -/
theorem gen_new_rejects_partial (plain : Bytes → Bool) (cols : List NewCol) (order : List Bytes)
    (enums : List (Bytes × List Bytes)) (ht : ∀ c ∈ cols, TypedFor enums c) (hnd : (specOrder cols order).Nodup)
    (hv : NewViolation cols order enums) :
    genNew genCtors plain cols order enums = some .err := by
  rw [(gen_new_end_to_end_partial plain cols order enums ht hnd).1, (newS_err_iff cols order enums).2 hv]

/-- **The regenerated `New` succeeds iff `newS` does, iff no rule of C08's text is violated.** For every column map of
well-typed Go values within the size limits (`TypedFor`: `count < 2^32`; the pointer limits for the string columns that are
not declared enums), every order without repetition and every declaration list:
1. `New` as regenerated (guards, `createColumn`, loop and tail, the regenerated constructors, enum factory and
   `NewPointer`) has an outcome and it is `newS cols order enums`;
2. it is an error EXACTLY when a rule of C08's text is violated (`NewViolation`) — equivalently exactly when `newS` is `.err`;
3. otherwise it is the frame of `newS`, and every cell of it reads back through the regenerated typed views over the
   ascending index: the cells that were passed in.

FULL STATEMENT: the same for every column map, order and declaration list. EXCLUDED (`_partial`), exactly as in
`gen_new_end_to_end_partial`: an order naming a column twice (necessary: `C08EndToEnd.nodup_necessary`), 2^32 rows or more,
string columns without enum declaration beyond the pointer limits. -/
theorem gen_new_iff_partial (plain : Bytes → Bool) (cols : List NewCol) (order : List Bytes)
    (enums : List (Bytes × List Bytes)) (ht : ∀ c ∈ cols, TypedFor enums c) (hnd : (specOrder cols order).Nodup) :
    genNew genCtors plain cols order enums = some (newS cols order enums) ∧
    (genNew genCtors plain cols order enums = some .err ↔ NewViolation cols order enums) ∧
    (newS cols order enums = .err ↔ NewViolation cols order enums) ∧
    (¬ NewViolation cols order enums →
      ∃ f, genNew genCtors plain cols order enums = some (.ok f) ∧ newS cols order enums = .ok f ∧
        ∀ col ∈ f.cols,
          C09ViewsGen.genLen (vcolOf col) (List.range f.n) = some f.n ∧
          C09ViewsGen.genSlice (vcolOf col) (List.range f.n) = some col.cells.toList ∧
          ∀ i, C09ViewsGen.genItemAt (vcolOf col) (List.range f.n) i = col.cells[i]?) := by
  obtain ⟨h1, h2⟩ := gen_new_end_to_end_partial plain cols order enums ht hnd
  have h3 := newS_err_iff cols order enums
  refine ⟨h1, ?_, h3, fun hv => ?_⟩
  · rw [h1, ← h3]
    exact ⟨fun h => Option.some.inj h, fun h => by rw [h]⟩
  · cases hn : newS cols order enums with
    | err => exact absurd (h3.1 hn) hv
    | ok f => exact ⟨f, by rw [h1, hn], rfl, h2 f hn⟩

/-! ## Reading the rules: the columns in the requested order are the columns of the map -/

theorem find_self (cols : List NewCol) (hn : (cols.map (·.name)).Nodup) (c : NewCol) (hc : c ∈ cols) :
    cols.find? (·.name == c.name) = some c := by
  induction cols with
  | nil => cases hc
  | cons d ds ih =>
    rw [List.map_cons, List.nodup_cons] at hn
    rcases List.mem_cons.1 hc with rfl | hc'
    · simp
    · have hne : d.name ≠ c.name := fun e => hn.1 (e ▸ List.mem_map.2 ⟨c, hc', rfl⟩)
      rw [List.find?_cons, beq_false_of_ne hne]
      exact ih hn.2 hc'

/-- **The columns taken in the requested order are the columns of the map** — once the guard prefix has passed, for an
order without repetition over a map (pairwise different names): the rules of `NewViolation` that speak of `orderedCols` speak
of the columns of the map. -/
theorem mem_orderedCols_iff (cols : List NewCol) (order : List Bytes) (hp : ¬ newPrefixRejects cols order)
    (hnd : (specOrder cols order).Nodup) (hnames : (cols.map (·.name)).Nodup) (c : NewCol) :
    c ∈ orderedCols cols order ↔ c ∈ cols := by
  constructor
  · intro h
    obtain ⟨n, _, hn⟩ := List.mem_filterMap.1 h
    exact List.mem_of_find?_eq_some hn
  · intro hc
    have hlen : (specOrder cols order).length = (cols.map (·.name)).length := by
      rw [List.length_map]
      apply Classical.byContradiction; intro hh; exact hp (.inr (.inl hh))
    have hsub : ∀ n ∈ specOrder cols order, n ∈ cols.map (·.name) := by
      intro n hn
      have h3 : (specOrder cols order).all (fun n => cols.any (·.name == n)) = true := by
        cases hh : (specOrder cols order).all (fun n => cols.any (·.name == n))
        · exact absurd (.inr (.inr hh)) hp
        · rfl
      obtain ⟨d, hd, he⟩ := List.any_eq_true.1 (List.all_eq_true.1 h3 n hn)
      exact List.mem_map.2 ⟨d, hd, eq_of_beq he⟩
    have hmem : c.name ∈ specOrder cols order := by
      apply Classical.byContradiction
      intro hno
      have hin : c.name ∈ cols.map (·.name) := List.mem_map.2 ⟨c, hc, rfl⟩
      have hsub' : ∀ n ∈ specOrder cols order, n ∈ (cols.map (·.name)).erase c.name := by
        intro n hn
        have hne : n ≠ c.name := fun e => hno (by rw [← e]; exact hn)
        exact (List.mem_erase_of_ne hne).2 (hsub n hn)
      have h1 := hnd.length_le_of_subset hsub'
      rw [List.length_erase_of_mem hin] at h1
      have : 0 < (cols.map (·.name)).length := List.length_pos_of_mem hin
      omega
    exact List.mem_filterMap.2 ⟨c.name, hmem, find_self cols hnames c hc⟩

/-! ## Concrete inputs -/

section Examples

private def isErrR : Res → Bool
  | .err => true
  | .ok _ => false

theorem exCols_ordered : orderedCols exCols [] = [exCols[2], exCols[1], exCols[0], exCols[3]] := rfl

/-- the map of `C08EndToEnd.exCols` (`i: []int`, `f: ConstFloat`, `e, s: []*string`, two rows each) with `e` declared an
enum meets the hypotheses and violates no rule … -/
example : (∀ c ∈ exCols, TypedFor [([101], [[121], [120]])] c) ∧ (specOrder exCols []).Nodup ∧
    ¬ NewViolation exCols [] [([101], [[121], [120]])] :=
  ⟨fun c hc => (exCols_typed c hc).for _, by decide,
   fun hv => by
     have h := (newS_err_iff _ _ _).2 hv
     have h' : isErrR (newS exCols [] [([101], [[121], [120]])]) = false := by decide
     rw [h] at h'; cases h'⟩

/-- … a declaration for the int column `i` is a violation (`Enums` entry for a non-string column) … -/
example : (∀ c ∈ exCols, TypedFor [([105], [])] c) ∧ NewViolation exCols [] [([105], [])] :=
  ⟨fun c hc => (exCols_typed c hc).for _, .enumUnknown ([105], []) (by simp) (by decide)⟩

/-- … a declared list that lacks the value `"x"` of column `e` (`enumUndeclared`) … -/
example : NewViolation exCols [] [([101], [[121]])] :=
  .enumUndeclared exCols[2] (by rw [exCols_ordered]; simp) rfl [101] [[121]] rfl (by simp) [120]
    (by simp [enumSrc, exCols]) (by decide)

/-- … an order that names a column that is not there, and one that is too short … -/
example : NewViolation exCols [[105], [102], [101], [122]] [] ∧ NewViolation exCols [[105]] [] :=
  ⟨.orderUnknown [122] (by decide) (by decide), .orderLength (by decide)⟩

/-- … and columns of unequal length (`a: []int{1, 2}`, `b: []int{1}`), typed and within every limit: -/
def uneq : List NewCol :=
  [{ name := [97], kind := .cells .int, count := 2, cells := [.int 1, .int 2] },
   { name := [98], kind := .cells .int, count := 1, cells := [.int 1] }]

example : (∀ c ∈ uneq, TypedFor [] c) ∧ (specOrder uneq []).Nodup ∧ NewViolation uneq [] [] := by
  have ho : orderedCols uneq [] = [uneq[0], uneq[1]] := rfl
  refine ⟨?_, by decide, .unequalLength uneq[1] (by rw [ho]; simp) (by decide)⟩
  intro c hc
  simp only [uneq, List.mem_cons, List.not_mem_nil, or_false] at hc
  rcases hc with rfl | rfl
  · exact ⟨⟨⟨by decide, ⟨Or.inl rfl, rfl⟩⟩, by decide⟩, fun _ => trivial⟩
  · exact ⟨⟨⟨by decide, ⟨Or.inl rfl, rfl⟩⟩, by decide⟩, fun _ => trivial⟩

end Examples

end QF.Props.C08NewIff

#print axioms QF.Props.C08NewIff.build_char
#print axioms QF.Props.C08NewIff.mkEnum_none_iff
#print axioms QF.Props.C08NewIff.newS_err_iff
#print axioms QF.Props.C08NewIff.mem_orderedCols_iff
#print axioms QF.Props.C08NewIff.gen_new_rejects_prefix
#print axioms QF.Props.C08NewIff.gen_new_rejects_partial
#print axioms QF.Props.C08NewIff.gen_new_iff_partial
