import QF.Core.Csv
/-! # C15 (faults): a failure of the underlying reader is always reported

Proved on the L0 mirror `Csv` of internal/fastcsv/csv.go:

1. `more_fail` (+ `read_bytes`, `read_fail_nodata`): a failing `Src.read` makes `Buf.more` return `.fail`.
2. `Reader_next_sticky`, `readAllLoop_sticky`: once `fs.err = some .fail` nothing is read again and the
   final error is `.fail`.
3. `nextUnquoted_more_fail`, `quotedLoop_more_fail`, `Fields_next_more_fail`, `Fields_next_quoted_fail`:
   every `more` call site propagates `.fail` into `Fields.err`.
4. `fail_reported` (main), `clean_end_not_reached`, and the converse `fail_only_if_reached`
   (`fail_iff_reached`), with `readAll'` threading the final reader state and `readAll'_agree`.
-/
namespace QF.Props.C15Faults
open Csv

/-! ## 1. `more` and a failing read -/

/-- The buffer after the optional growth step of `more()` (cap := 2*len+1). -/
def growBuf (b : Buf) : Buf :=
  if b.len == b.data.size then { b with data := b.data ++ Array.replicate (b.len + 1) 0 } else b

/-- The room offered to the underlying reader by `more()`. -/
def roomOf (b : Buf) : Nat := (growBuf b).data.size - b.len

theorem more_eq (b : Buf) :
    b.more =
      ({ growBuf b with
          data := writeAll (growBuf b).data b.len (b.src.read (roomOf b)).1,
          len := b.len + (b.src.read (roomOf b)).1.length,
          src := (b.src.read (roomOf b)).2.2 },
       (b.src.read (roomOf b)).2.1) := by
  unfold Buf.more roomOf growBuf
  split <;> rfl

/-- 1. If the underlying read fails, `more` returns `.fail`; the bytes delivered by the
    failing call (if any) are appended at `len`. -/
theorem more_fail (b : Buf) (bytes : List Byte) (s' : Src)
    (h : b.src.read (roomOf b) = (bytes, some .fail, s')) :
    b.more =
      ({ growBuf b with data := writeAll (growBuf b).data b.len bytes,
                        len := b.len + bytes.length, src := s' }, some .fail) := by
  rw [more_eq, h]

/-- Every read delivers a prefix of the remaining document and leaves the rest. -/
theorem read_bytes (s : Src) (room : Nat) :
    (s.read room).1 ++ (s.read room).2.2.rest = s.rest ∧ (s.read room).1.length ≤ room := by
  unfold Src.read
  split
  · simp
  · split
    · simp
    · split
      · simp
      · simp only [List.take_append_drop, List.length_take, true_and]
        omega

/-- A failing read without `failWithData` (or with nothing left) delivers no bytes. -/
theorem read_fail_nodata (s : Src) (room : Nat) (h : (s.read room).2.1 = some .fail)
    (hn : s.failWithData = false ∨ s.rest = []) : (s.read room).1 = [] := by
  unfold Src.read at h ⊢
  by_cases h1 : s.wrapEof = true
  · rw [if_pos h1]
  · rw [if_neg h1] at h ⊢
    by_cases h2 : (s.failAt == some s.calls && !(s.failWithData && !s.rest.isEmpty)) = true
    · rw [if_pos h2]
    · rw [if_neg h2] at h ⊢
      by_cases h3 : s.rest.isEmpty = true
      · rw [if_pos h3]
      · rw [if_neg h3] at h
        exfalso
        dsimp only at h
        rcases hn with hn | hn
        · simp [hn] at h2
          simp [h2] at h
        · simp [hn] at h3

/-! ## Fault bookkeeping of `read` / `more` -/

def unqStep (fuel cursor : Nat) (fs : Fields) : Out (Fields × Bool) :=
  if h : cursor < fs.buf.data.size then
    if cursor < fs.buf.len then
      let ch := fs.buf.data[cursor]
      let fs1 : Fields := { fs with buf := { fs.buf with cursor := cursor + 1 } }
      if ch == fs.delim then
        .ok ({ fs1 with field := fs1.buf.slice fs.fieldStart cursor, fieldStart := cursor + 1 }, true)
      else if ch == LF then
        .ok ({ fs1 with field := fs1.buf.slice fs.fieldStart cursor, hitEOL := true }, true)
      else nextUnquoted fuel fs1 (cursor + 1)
    else .panic "index out of range (len)"
  else .panic "index out of range (cap)"

theorem nextUnquoted_succ (fuel : Nat) (fs : Fields) (cursor : Nat) :
    nextUnquoted (fuel + 1) fs cursor =
      if cursor ≥ fs.buf.len then
        match fs.buf.more.2 with
        | some .eof => .ok ({ fs with buf := fs.buf.more.1, field := fs.buf.more.1.slice fs.fieldStart cursor,
                                      hitEOL := true, err := some .eof }, true)
        | some .fail => .ok ({ fs with buf := fs.buf.more.1, err := some .fail }, false)
        | none => unqStep fuel cursor { fs with buf := fs.buf.more.1 }
      else unqStep fuel cursor fs := by
  rfl
theorem read_spec (s : Src) (room k : Nat) (hk : s.failAt = some k) :
    (s.read room).2.2.failAt = some k ∧
    s.calls ≤ (s.read room).2.2.calls ∧
    (s.calls ≤ k → k < (s.read room).2.2.calls → (s.read room).2.1 = some .fail) ∧
    ((s.read room).2.1 = some .fail → s.calls = k ∧ (s.read room).2.2.calls = k + 1) := by
  unfold Src.read
  split
  · simp [hk]
  · split
    · rename_i h1 h2
      simp [hk] at h2 ⊢
      omega
    · split
      · rename_i h1 h2 h3
        simp [hk] at h2 ⊢
        have : k ≠ s.calls := fun h => (h2 h).2 (List.isEmpty_iff.mp h3)
        omega
      · rename_i h1 h2 h3
        simp [hk] at h2 ⊢
        omega

/-- `Buf.more` only touches the source through one `read`. -/
theorem more_src (b : Buf) : ∃ room, b.more.1.src = (b.src.read room).2.2 ∧ b.more.2 = (b.src.read room).2.1 := by
  unfold Buf.more
  split <;> exact ⟨_, rfl, rfl⟩

theorem more_inv (b : Buf) (k : Nat) (hk : b.src.failAt = some k) (hc : b.src.calls ≤ k) :
    b.more.1.src.failAt = some k ∧ (k < b.more.1.src.calls → b.more.2 = some .fail) ∧
    (b.more.2 ≠ some .fail → b.more.1.src.calls ≤ k) := by
  obtain ⟨room, h1, h2⟩ := more_src b
  have := read_spec b.src room k hk
  rw [h1, h2]
  refine ⟨this.1, this.2.2.1 hc, fun h => ?_⟩
  apply Nat.le_of_not_lt
  intro h'
  exact h (this.2.2.1 hc h')

theorem nextUnquoted_inv (k fuel : Nat) : ∀ (fs : Fields) (cursor : Nat),
    fs.buf.src.failAt = some k → fs.buf.src.calls ≤ k →
    ∀ res flag, nextUnquoted fuel fs cursor = .ok (res, flag) →
      res.buf.src.failAt = some k ∧ (k < res.buf.src.calls → res.err = some .fail ∧ flag = false) := by
  induction fuel with
  | zero => intro fs cursor _ _ res flag h; simp [nextUnquoted] at h
  | succ fuel ih =>
    have step : ∀ (fs : Fields) (cursor : Nat),
        fs.buf.src.failAt = some k → fs.buf.src.calls ≤ k →
        ∀ res flag, unqStep fuel cursor fs = .ok (res, flag) →
        res.buf.src.failAt = some k ∧ (k < res.buf.src.calls → res.err = some .fail ∧ flag = false) := by
      intro fs cursor hk hc res flag h
      unfold unqStep at h
      split at h
      · split at h
        · dsimp only at h
          split at h
          · injection h with h; injection h with h1 h2; subst h1
            exact ⟨hk, fun h => by simp at h; omega⟩
          · split at h
            · injection h with h; injection h with h1 h2; subst h1
              exact ⟨hk, fun h => by simp at h; omega⟩
            · exact ih { fs with buf := { fs.buf with cursor := cursor + 1 } } _ hk hc _ _ h
        · cases h
      · cases h
    intro fs cursor hk hc res flag h
    rw [nextUnquoted_succ] at h
    have hm := more_inv fs.buf k hk hc
    split at h
    · split at h
      · rename_i he
        injection h with h; injection h with h1 h2; subst h1
        exact ⟨hm.1, fun h => by have := hm.2.1 h; simp_all⟩
      · injection h with h; injection h with h1 h2; subst h1
        exact ⟨hm.1, fun _ => ⟨rfl, h2.symm⟩⟩
      · rename_i he
        exact step _ _ hm.1 (hm.2.2 (by simp [he])) _ _ h
    · exact step _ _ hk hc _ _ h

def qKeep (fuel : Nat) (delim : Byte) (start writeCursor : Nat) (b : Buf) :
    Out (List Byte × Bool × Option RErr × Buf) :=
  let w := writeCursor + 1
  if w != b.cursor then
    if b.cursor + 1 ≤ b.data.size ∧ w + 1 ≤ b.data.size then
      quotedLoop fuel { b with data := b.data.setIfInBounds w b.data[b.cursor]! } delim start w 0
    else .panic "slice bounds out of range"
  else quotedLoop fuel b delim start w 0

def qBody (fuel : Nat) (delim : Byte) (start writeCursor quoteCount : Nat) (b : Buf) :
    Out (List Byte × Bool × Option RErr × Buf) :=
  if b.cursor < b.len then
    let ch := b.data[b.cursor]!
    let b1 : Buf := { b with cursor := b.cursor + 1 }
    if ch == delim then
      if quoteCount % 2 != 0 then .ok (b1.slice start writeCursor, false, none, b1)
      else qKeep fuel delim start writeCursor b1
    else if ch == LF then
      if quoteCount % 2 != 0 then .ok (b1.slice start writeCursor, true, none, b1)
      else qKeep fuel delim start writeCursor b1
    else if ch == CR then
      if quoteCount % 2 != 0 then quotedLoop fuel b1 delim start writeCursor quoteCount
      else qKeep fuel delim start writeCursor b1
    else if ch == QUOTE then
      if (quoteCount + 1) % 2 == 1 then quotedLoop fuel b1 delim start writeCursor (quoteCount + 1)
      else qKeep fuel delim start writeCursor b1
    else qKeep fuel delim start writeCursor b1
  else .panic "index out of range (quoted)"

theorem quotedLoop_succ (fuel : Nat) (b : Buf) (delim : Byte) (start w q : Nat) :
    quotedLoop (fuel + 1) b delim start w q =
      if b.cursor + 1 ≥ b.len then
        match b.more.2 with
        | some err =>
          if err == .eof && q % 2 != 0 && b.more.1.cursor < b.more.1.len
              && b.more.1.data[b.more.1.cursor]! == delim then
            .ok (({ b.more.1 with cursor := b.more.1.cursor + 1 } : Buf).slice start w, false, none,
                 { b.more.1 with cursor := b.more.1.cursor + 1 })
          else .ok (b.more.1.slice start w, true, some err, b.more.1)
        | none => quotedLoop fuel b.more.1 delim start w q
      else qBody fuel delim start w q b := by
  rfl

theorem quotedLoop_inv (k fuel : Nat) : ∀ (b : Buf) (delim : Byte) (start w q : Nat),
    b.src.failAt = some k → b.src.calls ≤ k →
    ∀ f eol err b', quotedLoop fuel b delim start w q = .ok (f, eol, err, b') →
      b'.src.failAt = some k ∧ (k < b'.src.calls → err = some .fail) := by
  induction fuel with
  | zero => intro b delim start w q _ _ f eol err b' h; simp [quotedLoop] at h
  | succ fuel ih =>
    have keep : ∀ (b : Buf) (delim : Byte) (start w : Nat),
        b.src.failAt = some k → b.src.calls ≤ k →
        ∀ f eol err b', qKeep fuel delim start w b = .ok (f, eol, err, b') →
        b'.src.failAt = some k ∧ (k < b'.src.calls → err = some .fail) := by
      intro b delim start w hk hc f eol err b' h
      unfold qKeep at h
      dsimp only at h
      split at h
      · split at h
        · exact ih { b with data := b.data.setIfInBounds (w + 1) b.data[b.cursor]! } _ _ _ _ hk hc _ _ _ _ h
        · cases h
      · exact ih b _ _ _ _ hk hc _ _ _ _ h
    have body : ∀ (b : Buf) (delim : Byte) (start w q : Nat),
        b.src.failAt = some k → b.src.calls ≤ k →
        ∀ f eol err b', qBody fuel delim start w q b = .ok (f, eol, err, b') →
        b'.src.failAt = some k ∧ (k < b'.src.calls → err = some .fail) := by
      intro b delim start w q hk hc f eol err b' h
      unfold qBody at h
      dsimp only at h
      have hk1 : ({ b with cursor := b.cursor + 1 } : Buf).src.failAt = some k := hk
      have hc1 : ({ b with cursor := b.cursor + 1 } : Buf).src.calls ≤ k := hc
      have done : ∀ (fl : Bool), Out.ok (({ b with cursor := b.cursor + 1 } : Buf).slice start w, fl, (none : Option RErr),
            ({ b with cursor := b.cursor + 1 } : Buf)) = Out.ok (f, eol, err, b') →
          b'.src.failAt = some k ∧ (k < b'.src.calls → err = some .fail) := by
        intro fl h
        injection h with h; injection h with _ h; injection h with _ h; injection h with _ h
        subst h
        exact ⟨hk, fun h => by simp at h; omega⟩
      split at h
      · split at h
        · split at h
          · exact done _ h
          · exact keep _ _ _ _ hk1 hc1 _ _ _ _ h
        · split at h
          · split at h
            · exact done _ h
            · exact keep _ _ _ _ hk1 hc1 _ _ _ _ h
          · split at h
            · split at h
              · exact ih _ _ _ _ _ hk1 hc1 _ _ _ _ h
              · exact keep _ _ _ _ hk1 hc1 _ _ _ _ h
            · split at h
              · split at h
                · exact ih _ _ _ _ _ hk1 hc1 _ _ _ _ h
                · exact keep _ _ _ _ hk1 hc1 _ _ _ _ h
              · exact keep _ _ _ _ hk1 hc1 _ _ _ _ h
      · cases h
    intro b delim start w q hk hc f eol err b' h
    rw [quotedLoop_succ] at h
    have hm := more_inv b k hk hc
    split at h
    · split at h
      · rename_i e he
        split at h
        · rename_i hcond
          have hne : b.more.2 ≠ some .fail := by
            rw [he]; intro hf; injection hf with hf; subst hf; simp at hcond
          injection h with h; injection h with _ h; injection h with _ h; injection h with h1 h2
          subst h1 h2
          exact ⟨hm.1, fun h => by have := hm.2.2 hne; simp at h; omega⟩
        · injection h with h; injection h with _ h; injection h with _ h; injection h with h1 h2
          subst h1 h2
          exact ⟨hm.1, fun h => by rw [← he]; exact hm.2.1 h⟩
      · rename_i he
        exact ih _ _ _ _ _ hm.1 (hm.2.2 (by simp [he])) _ _ _ _ h
    · exact body _ _ _ _ _ hk hc _ _ _ _ h

/-! ## Fields.next -/

def nextGo (fuel : Nat) (fs : Fields) : Out (Fields × Bool) :=
  if fs.buf.cursor < fs.buf.len then
    if fs.buf.data[fs.buf.cursor]! == QUOTE then
      match nextQuoted fuel fs.buf fs.delim with
      | .panic w => .panic w
      | .ok (f, eol, err, b) =>
        .ok ({ fs with field := f, hitEOL := eol, err := err, buf := b, fieldStart := b.cursor },
             err == none || err == some .eof)
    else nextUnquoted fuel fs fs.buf.cursor
  else .panic "index out of range (first)"

theorem Fields_next_eq (fuel : Nat) (fs : Fields) :
    fs.next fuel =
      if fs.hitEOL then .ok (fs, false) else
      if fs.buf.cursor ≥ fs.buf.len then
        match fs.buf.more.2 with
        | some err =>
          if err == .eof && fs.fieldStart > 0 then
            .ok ({ fs with buf := fs.buf.more.1, err := some err,
                           field := fs.buf.more.1.slice fs.fieldStart fs.fieldStart, hitEOL := true }, true)
          else .ok ({ fs with buf := fs.buf.more.1, err := some err }, false)
        | none => nextGo fuel { fs with buf := fs.buf.more.1 }
      else nextGo fuel fs := by
  rfl

theorem Fields_next_inv (k fuel : Nat) (fs : Fields)
    (hk : fs.buf.src.failAt = some k) (hc : fs.buf.src.calls ≤ k)
    (res : Fields) (flag : Bool) (h : fs.next fuel = .ok (res, flag)) :
    res.buf.src.failAt = some k ∧ (k < res.buf.src.calls → res.err = some .fail ∧ flag = false) := by
  have go : ∀ (fs : Fields), fs.buf.src.failAt = some k → fs.buf.src.calls ≤ k →
      ∀ res flag, nextGo fuel fs = .ok (res, flag) →
      res.buf.src.failAt = some k ∧ (k < res.buf.src.calls → res.err = some .fail ∧ flag = false) := by
    intro fs hk hc res flag h
    unfold nextGo at h
    split at h
    · split at h
      · split at h
        · cases h
        · rename_i f eol err b hq
          injection h with h; injection h with h1 h2; subst h1
          have := quotedLoop_inv k fuel { fs.buf with cursor := fs.buf.cursor + 1 } fs.delim _ _ _ hk hc _ _ _ _ hq
          refine ⟨this.1, fun h => ?_⟩
          have he := this.2 h
          subst he
          exact ⟨rfl, h2.symm⟩
      · exact nextUnquoted_inv k fuel _ _ hk hc _ _ h
    · cases h
  rw [Fields_next_eq] at h
  have hm := more_inv fs.buf k hk hc
  split at h
  · injection h with h; injection h with h1 h2; subst h1
    exact ⟨hk, fun h => by omega⟩
  · split at h
    · split at h
      · rename_i e he
        split at h
        · rename_i hcond
          have hne : fs.buf.more.2 ≠ some .fail := by
            rw [he]; intro hf; injection hf with hf; subst hf; simp at hcond
          injection h with h; injection h with h1 h2; subst h1
          exact ⟨hm.1, fun h => by have := hm.2.2 hne; simp at h; omega⟩
        · injection h with h; injection h with h1 h2; subst h1
          exact ⟨hm.1, fun h => ⟨by rw [← he]; exact hm.2.1 h, h2.symm⟩⟩
      · rename_i he
        exact go _ hm.1 (hm.2.2 (by simp [he])) _ _ h
    · exact go _ hk hc _ _ h

theorem rowLoop_inv (k fuel n : Nat) : ∀ (fs : Fields) (acc : List (List Byte)),
    fs.buf.src.failAt = some k → fs.buf.src.calls ≤ k →
    ∀ res row, rowLoop fuel n fs acc = .ok (res, row) →
      res.buf.src.failAt = some k ∧ (k < res.buf.src.calls → res.err = some .fail) := by
  induction n with
  | zero => intro fs acc _ _ res row h; simp [rowLoop] at h
  | succ n ih =>
    intro fs acc hk hc res row h
    unfold rowLoop at h
    split at h
    · cases h
    · rename_i fs' hn
      have := Fields_next_inv k fuel fs hk hc _ _ hn
      have hc' : fs'.buf.src.calls ≤ k := by
        apply Nat.le_of_not_lt
        intro h'
        have := (this.2 h').2
        cases this
      exact ih _ _ this.1 hc' _ _ h
    · rename_i fs' hn
      injection h with h; injection h with h1 h2; subst h1
      have := Fields_next_inv k fuel fs hk hc _ _ hn
      exact ⟨this.1, fun h => (this.2 h).1⟩

/-- The reader-level invariant: the fault position is `k`, and if the failing call
    has been made, the sticky error is `.fail`. -/
def Inv (k : Nat) (r : Reader) : Prop :=
  r.fs.buf.src.failAt = some k ∧ (k < r.fs.buf.src.calls → r.fs.err = some .fail)

theorem Reader_next_inv (k fuel : Nat) (r : Reader) (hi : Inv k r)
    (r' : Reader) (flag : Bool) (h : r.next fuel = .ok (r', flag)) : Inv k r' := by
  unfold Reader.next at h
  split at h
  · injection h with h; injection h with h1 h2; subst h1; exact hi
  · rename_i he
    have he : r.fs.err = none := by simpa using he
    have hc : r.fs.buf.src.calls ≤ k := by
      apply Nat.le_of_not_lt
      intro h'
      have := hi.2 h'
      rw [he] at this
      cases this
    dsimp only at h
    split at h
    · cases h
    · rename_i fs row hr
      have := rowLoop_inv k fuel fuel _ _ (by exact hi.1) (by exact hc) _ _ hr
      have fin : ∀ row' : List (List Byte),
          (if row'.isEmpty then
              Out.ok (({ fs := if fs.err == none then { fs with err := some .eof } else fs, row := [] } : Reader), false)
            else Out.ok (({ fs := fs, row := row' } : Reader), true)) = Out.ok (r', flag) → Inv k r' := by
        intro row' h
        split at h
        · injection h with h; injection h with h1 h2; subst h1
          refine ⟨?_, fun h => ?_⟩
          · dsimp only; split <;> exact this.1
          · dsimp only at h ⊢
            have hf := this.2 (by split at h <;> exact h)
            simp [hf]
        · injection h with h; injection h with h1 h2; subst h1
          exact this
      exact fin _ h

/-! ## readAll with the final reader state threaded out -/

def outMap {α β : Type} (f : α → β) : Out α → Out β
  | .ok a => .ok (f a)
  | .panic w => .panic w

/-- `readAllLoop`, additionally returning the final `Reader`. -/
def readAllLoop' (fuel n : Nat) (r : Reader) (acc : List (List (List Byte))) :
    Out (List (List (List Byte)) × Option RErr × Reader) :=
  match n with
  | 0 => .panic "fuel(all)"
  | n + 1 =>
    match r.next fuel with
    | .panic w => .panic w
    | .ok (r, true) => readAllLoop' fuel n r (acc ++ [r.row])
    | .ok (r, false) => .ok (acc, r.fs.err, r)

/-- The initial reader built by `readAll`. -/
def initReader (doc : List Byte) (sched : List Nat) (delim : Byte) (cap : Nat) (failAt : Option Nat)
    (eofWithData failWithData : Bool) : Reader :=
  { fs := { buf := { data := Array.replicate cap 0, len := 0, cursor := 0,
                     src := { rest := doc, sched := sched, failAt := failAt, eofWithData := eofWithData,
                              failWithData := failWithData } }, delim := delim } }

/-- `readAll`, additionally returning the final `Reader` (hence the final `Src.calls`). -/
def readAll' (doc : List Byte) (sched : List Nat) (delim : Byte) (cap : Nat) (failAt : Option Nat)
    (eofWithData failWithData : Bool) : Out (List (List (List Byte)) × Option RErr × Reader) :=
  let fuel := 8 * doc.length + 64
  readAllLoop' fuel fuel (initReader doc sched delim cap failAt eofWithData failWithData) []

theorem readAllLoop'_agree (fuel n : Nat) : ∀ (r : Reader) (acc : List (List (List Byte))),
    outMap (fun x => (x.1, x.2.1)) (readAllLoop' fuel n r acc) = readAllLoop fuel n r acc := by
  induction n with
  | zero => intro r acc; rfl
  | succ n ih =>
    intro r acc
    unfold readAllLoop' readAllLoop
    cases hn : r.next fuel with
    | panic w => rfl
    | ok x =>
      obtain ⟨r1, fl⟩ := x
      cases fl
      · rfl
      · exact ih _ _

/-- `readAll'` agrees with `readAll` on the first two components. -/
theorem readAll'_agree (doc : List Byte) (sched : List Nat) (delim : Byte) (cap : Nat) (failAt : Option Nat)
    (eofWD fwd : Bool) :
    outMap (fun x => (x.1, x.2.1)) (readAll' doc sched delim cap failAt eofWD fwd)
      = readAll doc sched delim cap failAt eofWD fwd :=
  readAllLoop'_agree _ _ _ _

theorem readAll'_of_readAll {doc sched delim cap failAt eofWD fwd rows e}
    (h : readAll doc sched delim cap failAt eofWD fwd = .ok (rows, e)) :
    ∃ r, readAll' doc sched delim cap failAt eofWD fwd = .ok (rows, e, r) := by
  rw [← readAll'_agree] at h
  cases h' : readAll' doc sched delim cap failAt eofWD fwd with
  | panic w => rw [h'] at h; cases h
  | ok x =>
    rw [h'] at h
    obtain ⟨a, b, c⟩ := x
    injection h with h; injection h with h1 h2
    subst h1 h2
    exact ⟨c, rfl⟩

theorem readAllLoop'_inv (k fuel n : Nat) : ∀ (r : Reader) (acc : List (List (List Byte))),
    Inv k r → ∀ rows e r', readAllLoop' fuel n r acc = .ok (rows, e, r') →
      Inv k r' ∧ e = r'.fs.err := by
  induction n with
  | zero => intro r acc _ rows e r' h; simp [readAllLoop'] at h
  | succ n ih =>
    intro r acc hi rows e r' h
    unfold readAllLoop' at h
    split at h
    · cases h
    · rename_i r1 hn
      exact ih _ _ (Reader_next_inv k fuel r hi _ _ hn) _ _ _ h
    · rename_i r1 hn
      injection h with h; injection h with _ h; injection h with h1 h2
      subst h1 h2
      exact ⟨Reader_next_inv k fuel r hi _ _ hn, rfl⟩

/-- The failing call number `k` was made during the run: the final `Src.calls` exceeds `k`. -/
def reached (doc : List Byte) (sched : List Nat) (delim : Byte) (cap k : Nat) (eofWD fwd : Bool) : Prop :=
  ∃ rows e r, readAll' doc sched delim cap (some k) eofWD fwd = .ok (rows, e, r) ∧ k < r.fs.buf.src.calls

/-- Main theorem C15 -/
theorem fail_reported (doc : List Byte) (sched : List Nat) (delim : Byte) (cap k : Nat) (eofWD fwd : Bool)
    (rows : List (List (List Byte))) (e : Option RErr)
    (h : readAll doc sched delim cap (some k) eofWD fwd = .ok (rows, e))
    (hr : reached doc sched delim cap k eofWD fwd) : e = some .fail := by
  obtain ⟨rows', e', r, h', hlt⟩ := hr
  have hi : Inv k (initReader doc sched delim cap (some k) eofWD fwd) := ⟨rfl, fun h => by simp [initReader] at h⟩
  have := readAllLoop'_inv k _ _ _ _ hi _ _ _ h'
  have he' : e' = some .fail := by rw [this.2]; exact this.1.2 hlt
  have ha := readAll'_agree doc sched delim cap (some k) eofWD fwd
  rw [h', h] at ha
  injection ha with ha; injection ha with _ ha
  rw [← ha]; exact he'

theorem clean_end_not_reached (doc : List Byte) (sched : List Nat) (delim : Byte) (cap k : Nat) (eofWD fwd : Bool)
    (rows : List (List (List Byte))) (e : Option RErr)
    (h : readAll doc sched delim cap (some k) eofWD fwd = .ok (rows, e))
    (he : e = some .eof ∨ e = none) : ¬ reached doc sched delim cap k eofWD fwd := by
  intro hr
  have := fail_reported doc sched delim cap k eofWD fwd rows e h hr
  subst this
  rcases he with he | he <;> cases he

/-! ## Converse: `.fail` is reported only if the failing call was made -/

theorem more_tag (b : Buf) (k : Nat) (hk : b.src.failAt = some k) :
    b.more.1.src.failAt = some k ∧ (b.more.2 = some .fail → k < b.more.1.src.calls) := by
  obtain ⟨room, h1, h2⟩ := more_src b
  have := read_spec b.src room k hk
  rw [h1, h2]
  exact ⟨this.1, fun h => by have := this.2.2.2 h; omega⟩

theorem nextUnquoted_conv (k fuel : Nat) : ∀ (fs : Fields) (cursor : Nat),
    fs.buf.src.failAt = some k → fs.err ≠ some .fail →
    ∀ res flag, nextUnquoted fuel fs cursor = .ok (res, flag) →
      res.err = some .fail → k < res.buf.src.calls := by
  induction fuel with
  | zero => intro fs cursor _ _ res flag h; simp [nextUnquoted] at h
  | succ fuel ih =>
    have step : ∀ (fs : Fields) (cursor : Nat),
        fs.buf.src.failAt = some k → fs.err ≠ some .fail →
        ∀ res flag, unqStep fuel cursor fs = .ok (res, flag) →
        res.err = some .fail → k < res.buf.src.calls := by
      intro fs cursor hk hne res flag h
      unfold unqStep at h
      split at h
      · split at h
        · dsimp only at h
          split at h
          · injection h with h; injection h with h1 h2; subst h1
            exact fun h => absurd h hne
          · split at h
            · injection h with h; injection h with h1 h2; subst h1
              exact fun h => absurd h hne
            · exact ih { fs with buf := { fs.buf with cursor := cursor + 1 } } _ hk hne _ _ h
        · cases h
      · cases h
    intro fs cursor hk hne res flag h
    rw [nextUnquoted_succ] at h
    have hm := more_tag fs.buf k hk
    split at h
    · split at h
      · injection h with h; injection h with h1 h2; subst h1
        intro h; cases h
      · rename_i he
        injection h with h; injection h with h1 h2; subst h1
        exact fun _ => hm.2 he
      · exact step { fs with buf := fs.buf.more.1 } _ hm.1 hne _ _ h
    · exact step _ _ hk hne _ _ h

theorem quotedLoop_conv (k fuel : Nat) : ∀ (b : Buf) (delim : Byte) (start w q : Nat),
    b.src.failAt = some k →
    ∀ f eol err b', quotedLoop fuel b delim start w q = .ok (f, eol, err, b') →
      err = some .fail → k < b'.src.calls := by
  induction fuel with
  | zero => intro b delim start w q _ f eol err b' h; simp [quotedLoop] at h
  | succ fuel ih =>
    have keep : ∀ (b : Buf) (delim : Byte) (start w : Nat),
        b.src.failAt = some k →
        ∀ f eol err b', qKeep fuel delim start w b = .ok (f, eol, err, b') →
        err = some .fail → k < b'.src.calls := by
      intro b delim start w hk f eol err b' h
      unfold qKeep at h
      dsimp only at h
      split at h
      · split at h
        · exact ih { b with data := b.data.setIfInBounds (w + 1) b.data[b.cursor]! } _ _ _ _ hk _ _ _ _ h
        · cases h
      · exact ih b _ _ _ _ hk _ _ _ _ h
    have body : ∀ (b : Buf) (delim : Byte) (start w q : Nat),
        b.src.failAt = some k →
        ∀ f eol err b', qBody fuel delim start w q b = .ok (f, eol, err, b') →
        err = some .fail → k < b'.src.calls := by
      intro b delim start w q hk f eol err b' h
      unfold qBody at h
      dsimp only at h
      have hk1 : ({ b with cursor := b.cursor + 1 } : Buf).src.failAt = some k := hk
      have done : ∀ (fl : Bool), Out.ok (({ b with cursor := b.cursor + 1 } : Buf).slice start w, fl, (none : Option RErr),
            ({ b with cursor := b.cursor + 1 } : Buf)) = Out.ok (f, eol, err, b') →
          err = some .fail → k < b'.src.calls := by
        intro fl h
        injection h with h; injection h with _ h; injection h with _ h; injection h with h _
        subst h
        intro h; cases h
      split at h
      · split at h
        · split at h
          · exact done _ h
          · exact keep _ _ _ _ hk1 _ _ _ _ h
        · split at h
          · split at h
            · exact done _ h
            · exact keep _ _ _ _ hk1 _ _ _ _ h
          · split at h
            · split at h
              · exact ih _ _ _ _ _ hk1 _ _ _ _ h
              · exact keep _ _ _ _ hk1 _ _ _ _ h
            · split at h
              · split at h
                · exact ih _ _ _ _ _ hk1 _ _ _ _ h
                · exact keep _ _ _ _ hk1 _ _ _ _ h
              · exact keep _ _ _ _ hk1 _ _ _ _ h
      · cases h
    intro b delim start w q hk f eol err b' h
    rw [quotedLoop_succ] at h
    have hm := more_tag b k hk
    split at h
    · split at h
      · rename_i e he
        split at h
        · injection h with h; injection h with _ h; injection h with _ h; injection h with h1 h2
          subst h1
          intro h; cases h
        · injection h with h; injection h with _ h; injection h with _ h; injection h with h1 h2
          subst h1 h2
          exact fun h => hm.2 (by rw [he, h])
      · exact ih _ _ _ _ _ hm.1 _ _ _ _ h
    · exact body _ _ _ _ _ hk _ _ _ _ h

theorem Fields_next_conv (k fuel : Nat) (fs : Fields)
    (hk : fs.buf.src.failAt = some k) (hne : fs.err ≠ some .fail)
    (res : Fields) (flag : Bool) (h : fs.next fuel = .ok (res, flag)) :
    res.err = some .fail → k < res.buf.src.calls := by
  have go : ∀ (fs : Fields), fs.buf.src.failAt = some k → fs.err ≠ some .fail →
      ∀ res flag, nextGo fuel fs = .ok (res, flag) →
      res.err = some .fail → k < res.buf.src.calls := by
    intro fs hk hne res flag h
    unfold nextGo at h
    split at h
    · split at h
      · split at h
        · cases h
        · rename_i f eol err b hq
          injection h with h; injection h with h1 h2; subst h1
          exact quotedLoop_conv k fuel { fs.buf with cursor := fs.buf.cursor + 1 } fs.delim _ _ _ hk _ _ _ _ hq
      · exact nextUnquoted_conv k fuel _ _ hk hne _ _ h
    · cases h
  rw [Fields_next_eq] at h
  have hm := more_tag fs.buf k hk
  split at h
  · injection h with h; injection h with h1 h2; subst h1
    exact fun h => absurd h hne
  · split at h
    · split at h
      · rename_i e he
        split at h
        · rename_i hcond
          injection h with h; injection h with h1 h2; subst h1
          intro h
          injection h with h
          subst h
          simp at hcond
        · injection h with h; injection h with h1 h2; subst h1
          intro h
          injection h with h
          exact hm.2 (by rw [he, h])
      · exact go { fs with buf := fs.buf.more.1 } hm.1 hne _ _ h
    · exact go _ hk hne _ _ h

theorem rowLoop_conv (k fuel n : Nat) : ∀ (fs : Fields) (acc : List (List Byte)),
    fs.buf.src.failAt = some k → fs.buf.src.calls ≤ k → fs.err ≠ some .fail →
    ∀ res row, rowLoop fuel n fs acc = .ok (res, row) →
      res.err = some .fail → k < res.buf.src.calls := by
  induction n with
  | zero => intro fs acc _ _ _ res row h; simp [rowLoop] at h
  | succ n ih =>
    intro fs acc hk hc hne res row h
    unfold rowLoop at h
    split at h
    · cases h
    · rename_i fs' hn
      have h1 := Fields_next_inv k fuel fs hk hc _ _ hn
      have h2 := Fields_next_conv k fuel fs hk hne _ _ hn
      have hc' : fs'.buf.src.calls ≤ k := by
        apply Nat.le_of_not_lt
        intro h'
        have := (h1.2 h').2
        cases this
      exact ih _ _ h1.1 hc' (fun h => by have := h2 h; omega) _ _ h
    · rename_i fs' hn
      injection h with h; injection h with h1 h2; subst h1
      exact Fields_next_conv k fuel fs hk hne _ _ hn

def Conv (k : Nat) (r : Reader) : Prop := r.fs.err = some .fail → k < r.fs.buf.src.calls

theorem Reader_next_conv (k fuel : Nat) (r : Reader) (hi : Inv k r) (hv : Conv k r)
    (r' : Reader) (flag : Bool) (h : r.next fuel = .ok (r', flag)) : Conv k r' := by
  unfold Reader.next at h
  split at h
  · injection h with h; injection h with h1 h2; subst h1; exact hv
  · rename_i he
    have he : r.fs.err = none := by simpa using he
    have hc : r.fs.buf.src.calls ≤ k := by
      apply Nat.le_of_not_lt
      intro h'
      have := hi.2 h'
      rw [he] at this
      cases this
    dsimp only at h
    split at h
    · cases h
    · rename_i fs row hr
      have := rowLoop_conv k fuel fuel _ _ (by exact hi.1) (by exact hc) (by simp [he]) _ _ hr
      have fin : ∀ row' : List (List Byte),
          (if row'.isEmpty then
              Out.ok (({ fs := if fs.err == none then { fs with err := some .eof } else fs, row := [] } : Reader), false)
            else Out.ok (({ fs := fs, row := row' } : Reader), true)) = Out.ok (r', flag) → Conv k r' := by
        intro row' h
        split at h
        · injection h with h; injection h with h1 h2; subst h1
          unfold Conv
          dsimp only
          split
          · intro h; cases h
          · exact this
        · injection h with h; injection h with h1 h2; subst h1
          exact this
      exact fin _ h

theorem readAllLoop'_conv (k fuel n : Nat) : ∀ (r : Reader) (acc : List (List (List Byte))),
    Inv k r → Conv k r → ∀ rows e r', readAllLoop' fuel n r acc = .ok (rows, e, r') → Conv k r' := by
  induction n with
  | zero => intro r acc _ _ rows e r' h; simp [readAllLoop'] at h
  | succ n ih =>
    intro r acc hi hv rows e r' h
    unfold readAllLoop' at h
    split at h
    · cases h
    · rename_i r1 hn
      exact ih _ _ (Reader_next_inv k fuel r hi _ _ hn) (Reader_next_conv k fuel r hi hv _ _ hn) _ _ _ h
    · rename_i r1 hn
      injection h with h; injection h with _ h; injection h with h1 h2
      subst h2
      exact Reader_next_conv k fuel r hi hv _ _ hn

/-- Converse of `fail_reported`: `.fail` is reported only if the failing call was made. -/
theorem fail_only_if_reached (doc : List Byte) (sched : List Nat) (delim : Byte) (cap k : Nat) (eofWD fwd : Bool)
    (rows : List (List (List Byte)))
    (h : readAll doc sched delim cap (some k) eofWD fwd = .ok (rows, some .fail)) :
    reached doc sched delim cap k eofWD fwd := by
  obtain ⟨r, h'⟩ := readAll'_of_readAll h
  have hi : Inv k (initReader doc sched delim cap (some k) eofWD fwd) := ⟨rfl, fun h => by simp [initReader] at h⟩
  have hv : Conv k (initReader doc sched delim cap (some k) eofWD fwd) := fun h => by simp [initReader] at h
  have h1 := readAllLoop'_inv k _ _ _ _ hi _ _ _ h'
  have h2 := readAllLoop'_conv k _ _ _ _ hi hv _ _ _ h'
  exact ⟨rows, _, r, h', h2 h1.2.symm⟩

theorem fail_iff_reached (doc : List Byte) (sched : List Nat) (delim : Byte) (cap k : Nat) (eofWD fwd : Bool)
    (rows : List (List (List Byte))) (e : Option RErr)
    (h : readAll doc sched delim cap (some k) eofWD fwd = .ok (rows, e)) :
    e = some .fail ↔ reached doc sched delim cap k eofWD fwd :=
  ⟨fun he => fail_only_if_reached doc sched delim cap k eofWD fwd rows (he ▸ h),
   fail_reported doc sched delim cap k eofWD fwd rows e h⟩

/-! ## 2. Stickiness of the error -/

/-- Once the sticky error is `.fail`, `Reader.next` returns `false` and the reader (in particular
    the source and its call counter) is unchanged: nothing is read again. -/
theorem Reader_next_sticky (fuel : Nat) (r : Reader) (h : r.fs.err = some .fail) :
    r.next fuel = .ok (r, false) := by
  unfold Reader.next
  simp [h]

/-- ... and `readAllLoop` ends with final error `.fail` (for any positive loop fuel). -/
theorem readAllLoop_sticky (fuel n : Nat) (r : Reader) (acc : List (List (List Byte)))
    (h : r.fs.err = some .fail) : readAllLoop fuel (n + 1) r acc = .ok (acc, some .fail) := by
  unfold readAllLoop
  rw [Reader_next_sticky fuel r h]
  dsimp only
  rw [h]

theorem readAllLoop'_sticky (fuel n : Nat) (r : Reader) (acc : List (List (List Byte)))
    (h : r.fs.err = some .fail) : readAllLoop' fuel (n + 1) r acc = .ok (acc, some .fail, r) := by
  unfold readAllLoop'
  rw [Reader_next_sticky fuel r h]
  dsimp only
  rw [h]

/-- A `Reader.next` that ends with `.fail` (whether or not it still delivers a row) makes the rest of
    `readAllLoop` stop with `.fail` after at most one more (non-reading) call. -/
theorem readAllLoop_after_fail (fuel n : Nat) (r r' : Reader) (flag : Bool) (acc : List (List (List Byte)))
    (hn : r.next fuel = .ok (r', flag)) (h : r'.fs.err = some .fail) :
    ∃ acc', readAllLoop fuel (n + 2) r acc = .ok (acc', some .fail) := by
  cases flag with
  | false => exact ⟨acc, by rw [readAllLoop, hn]; dsimp only; rw [h]⟩
  | true => exact ⟨acc ++ [r'.row], by rw [readAllLoop, hn]; exact readAllLoop_sticky fuel n r' _ h⟩

/-! ## 3. Every `more` call site propagates `.fail` -/

/-- Unquoted scanner: the `more` call of this step fails ⇒ `err = .fail`, result `false`. -/
theorem nextUnquoted_more_fail (fuel : Nat) (fs : Fields) (cursor : Nat)
    (hc : cursor ≥ fs.buf.len) (hm : fs.buf.more.2 = some .fail) :
    nextUnquoted (fuel + 1) fs cursor = .ok ({ fs with buf := fs.buf.more.1, err := some .fail }, false) := by
  rw [nextUnquoted_succ, if_pos hc, hm]

/-- Quoted scanner: the `more` call of this step fails ⇒ returned error is `.fail`. -/
theorem quotedLoop_more_fail (fuel : Nat) (b : Buf) (delim : Byte) (start w q : Nat)
    (hc : b.cursor + 1 ≥ b.len) (hm : b.more.2 = some .fail) :
    quotedLoop (fuel + 1) b delim start w q = .ok (b.more.1.slice start w, true, some .fail, b.more.1) := by
  rw [quotedLoop_succ, if_pos hc, hm]
  rfl

/-- `Fields.next`: its own `more` call fails ⇒ `err = .fail`, result `false`. -/
theorem Fields_next_more_fail (fuel : Nat) (fs : Fields) (hE : fs.hitEOL = false)
    (hc : fs.buf.cursor ≥ fs.buf.len) (hm : fs.buf.more.2 = some .fail) :
    fs.next fuel = .ok ({ fs with buf := fs.buf.more.1, err := some .fail }, false) := by
  rw [Fields_next_eq, hE, if_pos hc, hm]
  rfl

/-- `Fields.next`: an error `.fail` coming out of the quoted scanner is stored in `Fields.err`, result `false`. -/
theorem Fields_next_quoted_fail (fuel : Nat) (fs : Fields) (hE : fs.hitEOL = false)
    (hc : fs.buf.cursor < fs.buf.len) (hq : (fs.buf.data[fs.buf.cursor]! == QUOTE) = true)
    (f : List Byte) (eol : Bool) (b : Buf)
    (hn : nextQuoted fuel fs.buf fs.delim = .ok (f, eol, some .fail, b)) :
    fs.next fuel =
      .ok ({ fs with field := f, hitEOL := eol, err := some .fail, buf := b, fieldStart := b.cursor }, false) := by
  rw [Fields_next_eq, hE]
  have : ¬ fs.buf.cursor ≥ fs.buf.len := by omega
  simp only [Bool.false_eq_true, if_false, if_neg this]
  unfold nextGo
  rw [if_pos hc, if_pos hq, hn]
  rfl

/-- `Fields.next`: likewise for the unquoted scanner: its result is the result of `Fields.next`. -/
theorem Fields_next_unquoted (fuel : Nat) (fs : Fields) (hE : fs.hitEOL = false)
    (hc : fs.buf.cursor < fs.buf.len) (hq : (fs.buf.data[fs.buf.cursor]! == QUOTE) = false) :
    fs.next fuel = nextUnquoted fuel fs fs.buf.cursor := by
  rw [Fields_next_eq, hE]
  have : ¬ fs.buf.cursor ≥ fs.buf.len := by omega
  simp only [Bool.false_eq_true, if_false, if_neg this]
  unfold nextGo
  rw [if_pos hc, hq]
  rfl


/-! ## Concrete instances (hypotheses are satisfiable)

The runs are evaluated by the kernel (`decide +kernel` on Boolean checkers; no axioms, no native code). -/

/-- Boolean form of `reached`. -/
def reachedB (doc : List Byte) (sched : List Nat) (delim : Byte) (cap k : Nat) (eofWD fwd : Bool) : Bool :=
  match readAll' doc sched delim cap (some k) eofWD fwd with
  | .ok (_, _, r) => decide (k < r.fs.buf.src.calls)
  | .panic _ => false

theorem reached_iff_reachedB (doc : List Byte) (sched : List Nat) (delim : Byte) (cap k : Nat) (eofWD fwd : Bool) :
    reached doc sched delim cap k eofWD fwd ↔ reachedB doc sched delim cap k eofWD fwd = true := by
  unfold reached reachedB
  constructor
  · rintro ⟨rows, e, r, h, hlt⟩
    rw [h]; simpa using hlt
  · intro h
    split at h
    · rename_i rows e r hr
      exact ⟨rows, e, r, hr, by simpa using h⟩
    · cases h

instance (doc : List Byte) (sched : List Nat) (delim : Byte) (cap k : Nat) (eofWD fwd : Bool) :
    Decidable (reached doc sched delim cap k eofWD fwd) :=
  decidable_of_iff _ (reached_iff_reachedB doc sched delim cap k eofWD fwd).symm

def okIs (o : Out (List (List (List Byte)) × Option RErr)) (rows : List (List (List Byte)))
    (e : Option RErr) : Bool :=
  match o with
  | .ok (r, e') => r == rows && e' == e
  | .panic _ => false

theorem okIs_eq {o rows e} (h : okIs o rows e = true) : o = .ok (rows, e) := by
  unfold okIs at h
  split at h
  · simp at h; rw [h.1, h.2]
  · cases h

/-- `a,b⏎"c",d⏎` -/
def exDoc : List Byte := [97, 44, 98, 10, 34, 99, 34, 44, 100, 10]

/-- Chunks of 2 bytes, capacity 4, call number 2 fails while still delivering data: the first row is
    returned, the failing call is reached, `.fail` is reported. -/
theorem ex_fail_run : readAll exDoc [2, 2, 2, 2] 44 4 (some 2) false true = .ok ([[[97], [98]]], some .fail) :=
  okIs_eq (by decide +kernel)

theorem ex_fail_reached : reached exDoc [2, 2, 2, 2] 44 4 2 false true := by decide +kernel

/-- Both hypotheses of `fail_reported` hold on this instance. -/
example : (some RErr.fail : Option RErr) = some .fail :=
  fail_reported _ _ _ _ _ _ _ _ _ ex_fail_run ex_fail_reached

/-- Same run with the fault after the end of input (call 9 is never made): clean EOF, both rows. -/
theorem ex_clean_run : readAll exDoc [2, 2, 2, 2] 44 4 (some 9) false true
    = .ok ([[[97], [98]], [[99], [100]]], some .eof) :=
  okIs_eq (by decide +kernel)

example : ¬ reached exDoc [2, 2, 2, 2] 44 4 9 false true :=
  clean_end_not_reached _ _ _ _ _ _ _ _ _ ex_clean_run (Or.inl rfl)

/-- Hypothesis of `more_fail` / item 3 on the initial buffer with the very first call failing;
    hypothesis of the stickiness theorems after that. -/
example : ∃ bytes s', (initReader exDoc [] 44 4 (some 0) false false).fs.buf.src.read
      (roomOf (initReader exDoc [] 44 4 (some 0) false false).fs.buf) = (bytes, some .fail, s') :=
  ⟨_, _, rfl⟩

example : ∃ fs', (initReader exDoc [] 44 4 (some 0) false false).fs.next 100 = .ok (fs', false)
    ∧ fs'.err = some .fail :=
  ⟨_, Fields_next_more_fail 100 _ rfl (Nat.le_refl 0) (by decide +kernel), rfl⟩

#print axioms more_fail
#print axioms read_bytes
#print axioms read_fail_nodata
#print axioms Reader_next_sticky
#print axioms readAllLoop_sticky
#print axioms readAllLoop_after_fail
#print axioms nextUnquoted_more_fail
#print axioms quotedLoop_more_fail
#print axioms Fields_next_more_fail
#print axioms Fields_next_quoted_fail
#print axioms Fields_next_unquoted
#print axioms nextUnquoted_inv
#print axioms quotedLoop_inv
#print axioms Fields_next_inv
#print axioms readAll'_agree
#print axioms fail_reported
#print axioms clean_end_not_reached
#print axioms fail_only_if_reached
#print axioms fail_iff_reached
#print axioms ex_fail_run
#print axioms ex_fail_reached
#print axioms ex_clean_run
end QF.Props.C15Faults
