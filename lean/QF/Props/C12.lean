import QF.Props.Tie
import QF.Core.CsvFull
import QF.Core.CsvL1
/-!
# C12 — ReadCSV parses RFC 4180 for any fragmentation of the stream

Mirror: `Full.readAll` follows internal/fastcsv/csv.go (bufferedReader.more/reset,
nextUnquotedField, nextQuotedField with look-ahead, in-place compaction, quoteCount, CR skipped only
after a closing quote, trailing delimiter at the end of the input; fields.next with the empty last
field after a trailing delimiter; Reader.Next with CR trimming and the blank-last-line rule), driven
by a read schedule (list of chunk sizes).

* `read_schedule_independent`: whatever the schedule, the reader returns what it returns
  when the whole document is already loaded.
* `any_two_schedules_agree`: hence any two schedules give the same rows, fields and error.
* `quoted_eq_qscan`, `qscan_content`: on a loaded buffer the in-place compacting loop equals
  a buffer-free scanner, and that scanner reads an escaped field back as its content (any content,
  carriage returns included: `qscan_content'`).
-/
namespace QF.Props.C12

theorem read_schedule_independent (delim : Full.Byte) (fuel n : Nat) (doc : List Full.Byte) (sched : List Nat)
    (res : List (List (List Full.Byte)) × Option Full.RErr)
    (h : Full.readAll delim fuel n (Full.initFS doc sched) [] = some res) :
    Full.readAll delim fuel n (Full.loadedFS doc) [] = some res :=
  Full.read_schedule_independent delim fuel n doc sched res h

theorem any_two_schedules_agree (delim : Full.Byte) (fuel n : Nat) (doc : List Full.Byte) (s1 s2 : List Nat)
    (r1 r2 : List (List (List Full.Byte)) × Option Full.RErr)
    (h1 : Full.readAll delim fuel n (Full.initFS doc s1) [] = some r1)
    (h2 : Full.readAll delim fuel n (Full.initFS doc s2) [] = some r2) : r1 = r2 :=
  Full.any_two_schedules_agree delim fuel n doc s1 s2 r1 r2 h1 h2

/-- repaired `nextQuotedField`: the content may be anything — carriage returns included -/
theorem qscan_content' (delim : Sim.Byte) (hd : (Sim.QUOTE == delim) = false) (content tail acc : List Sim.Byte)
    (ht : tail ≠ []) :
    Sim.qscan delim (Sim.escape content ++ tail) acc 0 (Sim.hd (Sim.escape content ++ tail)) =
      Sim.qscan delim tail (acc ++ content) 0 (Sim.hd tail) :=
  Sim.qscan_content delim hd content tail acc ht

/-- as stated before the repair (content without CR) -/
theorem qscan_content (delim : Sim.Byte) (hd : (Sim.QUOTE == delim) = false) (content tail acc : List Sim.Byte)
    (_hcr : ¬Sim.CR ∈ content) (ht : tail ≠ []) :
    Sim.qscan delim (Sim.escape content ++ tail) acc 0 (Sim.hd (Sim.escape content ++ tail)) =
      Sim.qscan delim tail (acc ++ content) 0 (Sim.hd tail) :=
  Sim.qscan_content delim hd content tail acc ht

/-- T1: the functions this property's mirror model follows have today the source text the model was written against. -/
-- Tie audit (bin/selftest-ties): the following functions are not compared as text any more; every behaviour-changing edit of
-- them makes a `gen_*_canon` theorem of this property's modules fail, renaming their locals or reformatting them changes nothing:
-- the seven functions of internal/fastcsv (`bufferedReader.more`, `reset`, `fields.nextUnquotedField`, `nextQuotedField`, `fields.next`, `Reader.Next`, `eofReaderWrapper.Read`):
-- `Gen.csvFns` (csvast.go), `C12CsvCanon.gen_csv_canon` + `C12CsvGen.gen_csv_semantics_partial`. `columnToData`: `Gen.columnToDataAst` (iast.go), `C12InferGen.gen_infer_canon` + `gen_columnToData_spec`.
-- The glue of ReadCSV is regenerated in `Gen.readCsvAst` / `renameDupAst` / `addAliasAst` / `isEmptyLineAst` / `readCsvEntryAst` (C12GlueGen.gen_csvglue_semantics, gen_rename_semantics); nothing of C12 is compared as text any more.
theorem tie : Tie.sameAll [] = true := by decide

end QF.Props.C12
