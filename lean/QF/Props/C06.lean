import QF.Props.Tie
import QF.Core.Frame
/-!
# C06 — Apply computes each destination cell from the same row and changes nothing else

Mirror: `Fr.Frame` (columns with `pos`, name map, index, err), `Fr.setColumn`,
`Fr.applyFn1` (result allocated at physical length, written at the index positions).

* `setColumn_wf`: overwrite and append both preserve well-formedness (needs `pos = i`).
* `setColumn_abs`: logical effect = replace in place or append last; index, Err untouched.
* `applyFn1_rowwise`: read back through the index, the result is `fn` applied row by row.
-/
namespace QF.Props.C06

theorem setColumn_wf (f : Fr.Frame) (L : Nat) (h : Fr.WF f L) (name : String) (c : Fr.Col)
    (hl : c.data.length = L) (hn : Fr.checkName name = true) : Fr.WF (Fr.setColumn f name c) L :=
  Fr.setColumn_wf f L h name c hl hn

theorem setColumn_abs (f : Fr.Frame) (L : Nat) (h : Fr.WF f L) (name : String) (c : Fr.Col)
    (hn : Fr.checkName name = true) :
    (Fr.setColumn f name c).abs =
        Fr.absSet f.abs (Option.map (fun x => x.pos) (f.byName name)) (name, c.ty, List.map (fun p => c.data[p]?) f.index) ∧
      (Fr.setColumn f name c).index = f.index ∧ (Fr.setColumn f name c).err = f.err :=
  Fr.setColumn_abs f L h name c hn

theorem applyFn1_rowwise (f : Fr.Frame) (L : Nat) (h : Fr.WF f L) (fn : Fr.Val → Fr.Val) (rty : Fr.Ty)
    (src : Fr.Col) (hl : src.data.length = L) :
    List.map (fun p => (Fr.applyFn1 f L fn rty src).data[p]?) f.index =
      List.map (fun p => Option.map fn src.data[p]?) f.index :=
  Fr.applyFn1_rowwise f L h fn rty src hl

/-- T1: the functions this property's mirror model follows have today the source text the model was written against. -/
theorem tie : Tie.sameAll ["qframe.setColumn", "qframe.QFrame.Apply", "qframe.QFrame.apply0", "qframe.QFrame.apply1", "qframe.QFrame.apply2", "qframe.QFrame.FilteredApply", "qframe.QFrame.WithRowNums", "icolumn.Column.Apply1", "icolumn.Column.Apply2", "scolumn.toUpper", "ecolumn.toUpper"] = true := by decide

end QF.Props.C06
