import QF.Props.Tie
import QF.Core.Frame
/-!
# C06 — Apply computes each destination cell from the same row and changes nothing else

Mirror: `Fr.Frame` (columns with `pos`, name map, index, err), `Fr.setColumn`,
`Fr.applyFn1` (result allocated at physical length, written at the index positions).

* `setColumn_wf`: overwrite and append both preserve well-formedness (needs `pos = i`).
* `setColumn_abs`: logical effect = replace in place or append last; index, Err untouched.
* `applyFn1_rowwise`: read back through the index, the result is `fn` applied row by row.
-/
namespace QF.Props.C06

theorem setColumn_wf (f : Fr.Frame) (L : Nat) (h : Fr.WF f L) (name : String) (c : Fr.Col)
    (hl : c.data.length = L) (hn : Fr.checkName name = true) : Fr.WF (Fr.setColumn f name c) L :=
  Fr.setColumn_wf f L h name c hl hn

theorem setColumn_abs (f : Fr.Frame) (L : Nat) (h : Fr.WF f L) (name : String) (c : Fr.Col)
    (hn : Fr.checkName name = true) :
    (Fr.setColumn f name c).abs =
        Fr.absSet f.abs (Option.map (fun x => x.pos) (f.byName name)) (name, c.ty, List.map (fun p => c.data[p]?) f.index) ∧
      (Fr.setColumn f name c).index = f.index ∧ (Fr.setColumn f name c).err = f.err :=
  Fr.setColumn_abs f L h name c hn

theorem applyFn1_rowwise (f : Fr.Frame) (L : Nat) (h : Fr.WF f L) (fn : Fr.Val → Fr.Val) (rty : Fr.Ty)
    (src : Fr.Col) (hl : src.data.length = L) :
    List.map (fun p => (Fr.applyFn1 f L fn rty src).data[p]?) f.index =
      List.map (fun p => Option.map fn src.data[p]?) f.index :=
  Fr.applyFn1_rowwise f L h fn rty src hl

/-- T1: the functions this property's mirror model follows have today the source text the model was written against. -/
-- Tie audit (bin/selftest-ties): the following functions are not compared as text any more; every behaviour-changing edit of
-- them makes a `gen_*_canon` theorem of this property's modules fail, renaming their locals or reformatting them changes nothing:
-- `QFrame.Apply`, `QFrame.apply0`, `icolumn.Column.Apply1`, `icolumn.Column.Apply2`: `Gen.applyAst` / `Gen.guardAst2` (gast.go) and `Gen.apply0Ast` / `Gen.apply1Ast` / `Gen.apply2Ast` (last.go),
-- `C10Guards.gen_apply_canon` + `gen_apply_dispatch` / `gen_apply_loop`, `C10Guards.gen_guards2_canon`, `C06LoopsGen.gen_apply0_canon` / `gen_apply1_canon` / `gen_apply2_canon` + `gen_apply_loops_semantics`.
-- (`QFrame.setColumn` stays: its column work is regenerated as `Gen.projectAst`, but `C08ProjectGen` cannot be imported next to `C06LoopsGen` -
-- `QF.Core.PExpr` and `QF.Core.LExpr` both declare `QF.PCol` - so no theorem of this property would see a change of it.)
-- `setColumn` is regenerated in `Gen.projectAst` (C08ProjectGen, now in this property's list: gen_project_semantics, gen_project_persistent).
-- FilteredApply, WithRowNums and the two built-in toUpper functions are regenerated in `Gen.fapplyAst` / `rowNumsFnAst` / `supperTable` / `eupperTable` (C06FApplyGen).
-- `QFrame.apply1`, `QFrame.apply2` are regenerated statement by statement in `Gen.apply1GlueAst` / `Gen.apply2GlueAst` (sortgast.go): which column receives `Apply1` / `Apply2`,
-- the index argument, the type switch, the destination of `setColumn` — `C03SortGlueGen.gen_sortglue_canon` + `gen_apply12_semantics`.
theorem tie : Tie.sameAll [] = true := by decide

end QF.Props.C06
