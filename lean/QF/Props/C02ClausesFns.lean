import QF.Props.C02ClausesCanon
/-!
# C02 — the meaning of the canonical clause-evaluation terms, function by function

Symbolic execution of the canonical terms of C02ClausesCanon (`canonFns`) in the semantics `CL.S.exec` / `CL.E.eval`
(QF/Core/CLExpr.lean): one lemma per statement form (`exec_*`; the `range` loops keep their step function folded so
that loop lemmas can be stated by induction on the slice), and then, bottom-up along the call graph,

* `call_withErr`, `call_withIndex`, `call_newBool`, `call_ixLen`, `call_maskLen`, `call_max`
* `call_ixFilter`   — `index.Int.Filter` (counting loop, collecting loop) = `F.idxFilter` when the mask is not longer than the index
* `call_anyErr`     — `anyFilterErr` = "some sub-clause has an error"
* `call_orFrames`   — `orFrames` = `F.orFrames`; its two-cursor loop = `F.orMerge` (`orMerge_loop`)
* `call_leaves`     — `QFrame.filter(filters...)` = `F.filterLeaves`: per filter the look-ups (`prefix_part`), the shortcut
                      through `filter.Inverse` (`shortcut_part`: taken iff `Leaf.inv`), the fallback (`fallback_part`, the
                      in-place loop `fallback_loop`), together `F.leafStep` (`leaf_step`), folded over the filters on ONE mask
                      (`leaves_loop`), then `index.Filter`.

`O : Leaf → LeafCalls` is what the calls made for a leaf return; `hO : ∀ l, (O l).Abstracts l` ties it to `F.Leaf`.
-/
namespace QF.Props.C02ClausesGen
open QF QF.CL F
set_option linter.unusedSimpArgs false

variable (O : Leaf → LeafCalls)

/-- the environment of a function body run at call depth `n + 1` -/
abbrev env (n : Nat) : Env := { call := callAt canonFns O n, oracle := O }

theorem callAt_succ (n : Nat) (f : FnId) (fn : Fn) (h : canonFns.lookup f = some fn) (args : List Val) :
    callAt canonFns O (n+1) f args = runFn (env O n) fn args := by
  simp [callAt, h]

theorem set_apply (σ : Store) (v w : Var) (x : Val) : σ.set v x w = if w = v then some x else σ w := rfl

/-! ## Execution lemmas (one per statement form; `range` keeps its step function folded) -/

def stepOf (Γ : Env) (k v : Option Var) (body : S) (y : Val) (i : Nat) (σ : Store) : Out :=
  body.exec Γ (bindKV k v i y σ)

section exec
variable (Γ : Env) (σ : Store)
theorem exec_skip : S.skip.exec Γ σ = .next σ := rfl
theorem exec_block_nil : (S.block []).exec Γ σ = .next σ := rfl
theorem exec_block_cons (s : S) (ss : List S) :
    (S.block (s :: ss)).exec Γ σ = (match s.exec Γ σ with | .next σ' => (S.block ss).exec Γ σ' | r => r) := rfl
theorem exec_seq (a b : S) : (S.seq a b).exec Γ σ = (match a.exec Γ σ with | .next σ' => b.exec Γ σ' | r => r) := rfl
theorem exec_define (v : Var) (e : E) : (S.define v e).exec Γ σ = (match e.eval Γ σ with | some x => .next (σ.set v x) | none => .stuck) := rfl
theorem exec_assign (v : Var) (e : E) : (S.assign v e).exec Γ σ = (match e.eval Γ σ with | some x => .next (σ.set v x) | none => .stuck) := rfl
theorem exec_incr (v : Var) : (S.incr v).exec Γ σ = (match σ v with | some (.int n) => .next (σ.set v (.int (n + 1))) | _ => .stuck) := rfl
theorem exec_setAt (m : Var) (i e : E) : (S.setAt m i e).exec Γ σ =
    (match σ m, i.eval Γ σ, e.eval Γ σ with
     | some (.mask mm), some (.int n), some (.bool b) =>
       if n < 0 ∨ (mm.length : Int) ≤ n then .stuck else .next (σ.set m (.mask (mm.set n.toNat b)))
     | _, _, _ => .stuck) := rfl
theorem exec_setInverse (v : Var) (e : E) : (S.setInverse v e).exec Γ σ =
    (match σ v, e.eval Γ σ with
     | some (.leaf l), some (.bool b) => .next (σ.set v (.leaf { l with inverse := b }))
     | _, _ => .stuck) := rfl
theorem exec_ite (c : E) (t e : S) : (S.ite c t e).exec Γ σ =
    (match c.eval Γ σ with
     | some (.bool true) => t.exec Γ σ
     | some (.bool false) => e.exec Γ σ
     | _ => .stuck) := rfl
theorem exec_ifIs (x : E) (ty : DynTy) (v : Var) (t e : S) : (S.ifIs x ty v t e).exec Γ σ =
    (match x.eval Γ σ with
     | some (.obj o) =>
       if o.ty = ty then
         t.exec Γ (σ.set v (match ty with | .filter => .leaf o.leaf | _ => .struct o.ty o.subs o.errField))
       else e.exec Γ σ
     | _ => .stuck) := rfl
theorem exec_range (xs : E) (k v : Option Var) (body : S) : (S.range xs k v body).exec Γ σ =
    (match xs.eval Γ σ with
     | some x => (match x.elems with | some l => loop (stepOf Γ k v body) l 0 σ | none => .stuck)
     | none => .stuck) := rfl
theorem exec_rangeLive (m : Var) (k v : Option Var) (body : S) : (S.rangeLive m k v body).exec Γ σ =
    (match σ m with
     | some (.mask mm) => loopLive (stepOf Γ k v body) m mm.length 0 σ
     | _ => .stuck) := rfl
theorem exec_ret (e : E) : (S.ret e).exec Γ σ = (match e.eval Γ σ with | some x => .ret x | none => .stuck) := rfl
theorem exec_lookupColumn (s ok : Var) (fr lf : E) : (S.lookupColumn s ok fr lf).exec Γ σ =
    (match fr.eval Γ σ, lf.eval Γ σ with
     | some (.frame _), some (.leaf l) => .next ((σ.set s (.tok .col l)).set ok (.bool (Γ.oracle l).colKnown))
     | _, _ => .stuck) := rfl
theorem exec_ifArgIsColumn (lf name : Var) (t : S) : (S.ifArgIsColumn lf name t).exec Γ σ =
    (match σ lf with
     | some (.leaf l) => if (Γ.oracle l).argIsCol then t.exec Γ (σ.set name (.tok .argName l)) else .next σ
     | _ => .stuck) := rfl
theorem exec_lookupArgColumn (a ok : Var) (fr : E) (name : Var) : (S.lookupArgColumn a ok fr name).exec Γ σ =
    (match fr.eval Γ σ, σ name with
     | some (.frame _), some (.tok .argName l) => .next ((σ.set a (.tok .argCol l)).set ok (.bool (Γ.oracle l).argColKnown))
     | _, _ => .stuck) := rfl
theorem exec_promote (r : List PRule) (s a : Var) : (S.promote r s a).exec Γ σ =
    (match σ s, σ a with
     | some (.tok .col _), some (.tok .argCol _) => .next σ
     | _, _ => .stuck) := rfl
theorem exec_setArg (lf a : Var) : (S.setArg lf a).exec Γ σ =
    (match σ lf, σ a with
     | some (.leaf _), some (.tok .argCol _) => .next σ
     | _, _ => .stuck) := rfl
theorem exec_ifCmpIsString (lf sc : Var) (t : S) : (S.ifCmpIsString lf sc t).exec Γ σ =
    (match σ lf with
     | some (.leaf l) => if (Γ.oracle l).cmpIsString then t.exec Γ (σ.set sc (.tok .cmpStr l)) else .next σ
     | _ => .stuck) := rfl
theorem exec_ifInverseEntry (key inv : Var) (t : S) : (S.ifInverseEntry key inv t).exec Γ σ =
    (match σ key with
     | some (.tok .cmpStr l) => if (Γ.oracle l).hasInverse then t.exec Γ (σ.set inv (.tok .invCmp l)) else .next σ
     | _ => .stuck) := rfl
theorem exec_kernel (er s : Var) (ix : E) (cmp : KCmp) (lf m : Var) : (S.kernel er s ix cmp lf m).exec Γ σ =
    (match σ s, ix.eval Γ σ, σ lf, σ m with
     | some (.tok .col _), some (.ix I), some (.leaf l), some (.mask mm) =>
       let k : Option (Option (KShape × (Pos → Bool))) :=
         match cmp with
         | .own => some (Γ.oracle l).direct
         | .inverseVia v => (match σ v with | some (.tok .invCmp _) => some (Γ.oracle l).inverse | _ => none)
       (match k with
        | none => .stuck
        | some none => .next (σ.set er (.err true))
        | some (some (sh, p)) => .next ((σ.set m (.mask (F.runKernel sh p I mm))).set er (.err false)))
     | _, _, _, _ => .stuck) := rfl
end exec

/-- symbolic execution of the statement forms (loops stay folded) and of expressions -/
macro "exec_simp" " [" ts:Lean.Parser.Tactic.simpLemma,* "]" : tactic =>
  `(tactic| simp [exec_block_nil, exec_block_cons, exec_skip, exec_seq, exec_define, exec_assign, exec_incr, exec_setAt, exec_setInverse, exec_ite, exec_ifIs,
      exec_range, exec_rangeLive, exec_ret, exec_lookupColumn, exec_ifArgIsColumn, exec_lookupArgColumn, exec_promote, exec_setArg,
      exec_ifCmpIsString, exec_ifInverseEntry, exec_kernel, E.eval, bindArgs, bindKV, Store.setOpt, set_apply, Val.isNil, Val.len,
      Val.elems, Val.at, COp.holds, loop, $ts,*])

theorem look_withErr : canonFns.lookup .withErr = some fnWithErr := by decide
theorem look_withIndex : canonFns.lookup .withIndex = some fnWithIndex := by decide
theorem look_newBool : canonFns.lookup .newBool = some fnNewBool := by decide
theorem look_ixLen : canonFns.lookup .ixLen = some fnIxLen := by decide
theorem look_maskLen : canonFns.lookup .maskLen = some fnMaskLen := by decide
theorem look_max : canonFns.lookup .max = some fnMax := by decide
theorem look_ixFilter : canonFns.lookup .ixFilter = some fnIxFilter := by decide
theorem look_anyErr : canonFns.lookup .anyErr = some fnAnyErr := by decide
theorem look_orFrames : canonFns.lookup .orFrames = some fnOrFrames := by decide
theorem look_leaves : canonFns.lookup .leaves = some fnLeaves := by decide

theorem call_withErr (n : Nat) (f : Frame) (e : Bool) :
    callAt canonFns O (n+1) .withErr [.frame f, .err e] = some (.frame { index := f.index, err := e }) := by
  rw [callAt_succ O n _ _ look_withErr]
  exec_simp [runFn, fnWithErr]

theorem call_withIndex (n : Nat) (f : Frame) (l : List Pos) :
    callAt canonFns O (n+1) .withIndex [.frame f, .ix l] = some (.frame { index := l, err := f.err }) := by
  rw [callAt_succ O n _ _ look_withIndex]
  exec_simp [runFn, fnWithIndex]

theorem call_newBool (n : Nat) (k : Nat) :
    callAt canonFns O (n+1) .newBool [.int k] = some (.mask (List.replicate k false)) := by
  rw [callAt_succ O n _ _ look_newBool]
  have hk : ¬ ((k : Int) < 0) := by omega
  exec_simp [runFn, fnNewBool, hk]

theorem call_ixLen (n : Nat) (l : List Pos) :
    callAt canonFns O (n+1) .ixLen [.ix l] = some (.int l.length) := by
  rw [callAt_succ O n _ _ look_ixLen]
  exec_simp [runFn, fnIxLen]

theorem call_maskLen (n : Nat) (l : List Bool) :
    callAt canonFns O (n+1) .maskLen [.mask l] = some (.int l.length) := by
  rw [callAt_succ O n _ _ look_maskLen]
  exec_simp [runFn, fnMaskLen]

theorem call_max (n : Nat) (a b : Int) :
    callAt canonFns O (n+1) .max [.int a, .int b] = some (.int (max a b)) := by
  rw [callAt_succ O n _ _ look_max]
  by_cases h : b < a
  · exec_simp [runFn, fnMax, h]; omega
  · exec_simp [runFn, fnMax, h]; omega

/-! ## `Int.Filter` -/

theorem ixFilter_count (Γ : Env) (m : List Bool) : ∀ (j : Nat) (σ : Store) (k : Int), 0 ≤ k → σ 2 = some (.int k) →
    ∃ σ' k', loop (stepOf Γ none (some 3) ixCountBody)
      (m.map .bool) j σ = .next σ' ∧ 0 ≤ k' ∧ σ' 2 = some (.int k') ∧ σ' 0 = σ 0 ∧ σ' 1 = σ 1 := by
  induction m with
  | nil => intro j σ k hk h; exact ⟨σ, k, rfl, hk, h, rfl, rfl⟩
  | cons b m ih =>
    intro j σ k hk h
    cases b
    · obtain ⟨σ', k', h1, hk', h2, h3, h4⟩ := ih (j+1) ((σ.set 3 (.bool false))) k hk (by simp [set_apply, h])
      refine ⟨σ', k', ?_, hk', h2, ?_, ?_⟩
      · exec_simp [stepOf, h1]
      · simp [h3, set_apply]
      · simp [h4, set_apply]
    · obtain ⟨σ', k', h1, hk', h2, h3, h4⟩ := ih (j+1) (((σ.set 3 (.bool true))).set 2 (.int (k+1))) (k+1) (by omega) (by simp [set_apply])
      refine ⟨σ', k', ?_, hk', h2, ?_, ?_⟩
      · exec_simp [stepOf, h, h1]
      · simp [h3, set_apply]
      · simp [h4, set_apply]

theorem ixFilter_collect (Γ : Env) (l : List Pos) (m : List Bool) : ∀ (j : Nat) (σ : Store) (acc : List Pos),
    σ 0 = some (.ix l) → σ 4 = some (.ix acc) → j + m.length ≤ l.length →
    ∃ σ', loop (stepOf Γ (some 5) (some 6) ixCollectBody)
      (m.map .bool) j σ = .next σ' ∧ σ' 4 = some (.ix (acc ++ idxFilter (l.drop j) m)) := by
  induction m with
  | nil => intro j σ acc h0 h4 _; exact ⟨σ, rfl, by simp [idxFilter, h4]⟩
  | cons b m ih =>
    intro j σ acc h0 h4 hlen
    simp only [List.length_cons] at hlen
    have hj : j < l.length := by omega
    have hd : l.drop j = l[j] :: l.drop (j+1) := (List.getElem_cons_drop hj).symm
    have hnn : ¬ ((j : Int) < 0) := by omega
    cases b
    · obtain ⟨σ', h1, h2⟩ := ih (j+1) ((σ.set 5 (.int j)).set 6 (.bool false)) acc (by simp [set_apply, h0]) (by simp [set_apply, h4]) (by omega)
      refine ⟨σ', ?_, ?_⟩
      · exec_simp [stepOf, h1]
      · rw [h2, hd]; simp [idxFilter]
    · obtain ⟨σ', h1, h2⟩ := ih (j+1) (((σ.set 5 (.int j)).set 6 (.bool true)).set 4 (.ix (acc ++ [l[j]]))) (acc ++ [l[j]])
        (by simp [set_apply, h0]) (by simp [set_apply]) (by omega)
      refine ⟨σ', ?_, ?_⟩
      · exec_simp [stepOf, h0, h4, hnn, hj, h1]
      · rw [h2, hd]; simp [idxFilter]

theorem idxFilter_nil_left (m : List Bool) : idxFilter [] m = [] := by cases m <;> rfl

theorem call_ixFilter (n : Nat) (l : List Pos) (m : List Bool) (h : m.length ≤ l.length) :
    callAt canonFns O (n+1) .ixFilter [.ix l, .mask m] = some (.ix (idxFilter l m)) := by
  rw [callAt_succ O n _ _ look_ixFilter]
  obtain ⟨σ1, k, h1, hk, h2, h3, h4⟩ := ixFilter_count (env O n) m 0 (((Store.empty.set 0 (.ix l)).set 1 (.mask m)).set 2 (.int 0)) 0 (by omega) (by simp [set_apply])
  obtain ⟨σ2, h5, h6⟩ := ixFilter_collect (env O n) l m 0 (σ1.set 4 (.ix [])) [] (by simp [set_apply, h3]) (by simp [set_apply]) (by omega)
  have hk' : ¬ (k < 0) := by omega
  simp [set_apply] at h4
  exec_simp [runFn, fnIxFilter, h1, h2, h4, hk', h5, h6]

/-! ## `anyFilterErr` -/

def errTrue (o : Obj) : Bool := o.errM == some true

theorem anyErr_loop (Γ : Env) (os : List Obj) (hos : ∀ o ∈ os, ∃ b, o.errM = some b) : ∀ (j : Nat) (σ : Store),
    (os.any errTrue = true → loop (stepOf Γ none (some 1) anyErrBody)
      (os.map .obj) j σ = .ret (.err true)) ∧
    (os.any errTrue = false → ∃ σ', loop (stepOf Γ none (some 1) anyErrBody)
      (os.map .obj) j σ = .next σ') := by
  induction os with
  | nil => intro j σ; exact ⟨by simp, fun _ => ⟨σ, rfl⟩⟩
  | cons o os ih =>
    intro j σ
    obtain ⟨b, hb⟩ := hos o (by simp)
    have ih' := ih (fun o h => hos o (by simp [h])) (j+1) (σ.set 1 (.obj o))
    cases b
    · constructor
      · intro h
        have h' : os.any errTrue = true := by simpa [errTrue, hb] using h
        exec_simp [stepOf, hb, ih'.1 h']
      · intro h
        have h' : os.any errTrue = false := by simpa [errTrue, hb] using h
        obtain ⟨σ', h1⟩ := ih'.2 h'
        exact ⟨σ', by exec_simp [stepOf, hb, h1]⟩
    · constructor
      · intro _; exec_simp [stepOf, hb]
      · intro h; simp [errTrue, hb] at h

theorem call_anyErr (n : Nat) (os : List Obj) (hos : ∀ o ∈ os, ∃ b, o.errM = some b) :
    callAt canonFns O (n+1) .anyErr [.objs os] = some (.err (os.any errTrue)) := by
  rw [callAt_succ O n _ _ look_anyErr]
  have hl := anyErr_loop (env O n) os hos 0 (Store.empty.set 0 (.objs os))
  cases h : os.any errTrue
  · obtain ⟨σ', h1⟩ := hl.2 h
    exec_simp [runFn, fnAnyErr, h1]
  · exec_simp [runFn, fnAnyErr, hl.1 h]

/-! ## `orFrames` -/

theorem natCast_beq (a b : Nat) : ((a : Int) == (b : Int)) = (a == b) := by
  rw [Bool.eq_iff_iff]; simp [Int.ofNat_inj]

theorem eval_hit (Γ : Env) (σ : Store) (p c x : Var) (G : Frame) (i : Nat) (y : Pos)
    (hp : σ p = some (.ptr (some G))) (hc : σ c = some (.int i)) (hx : σ x = some (.pos y)) :
    (hitCond c p x).eval Γ σ = some (.bool ((G.index.drop i).head? == some y)) := by
  have hnn : ¬ ((i : Int) < 0) := by omega
  rw [List.head?_drop]
  by_cases hi : i < G.index.length
  · simp [hitCond, E.eval, hp, hc, hx, Val.len, Val.at, COp.holds, hi, hnn, List.getElem?_eq_getElem hi, natCast_beq]
  · have : G.index[i]? = none := by simp; omega
    simp [hitCond, E.eval, hp, hc, hx, Val.len, Val.at, COp.holds, hi, this]

theorem orMerge_loop (Γ : Env) (L R : Frame) (xs : List Pos) : ∀ (c : Nat) (σ : Store) (acc : List Pos) (i j : Nat),
    σ 1 = some (.ptr (some L)) → σ 2 = some (.ptr (some R)) → σ 3 = some (.ix acc) → σ 4 = some (.int i) → σ 5 = some (.int j) →
    ∃ σ', loop (stepOf Γ none (some 6) orBody) (xs.map .pos) c σ = .next σ' ∧ σ' 0 = σ 0 ∧
      σ' 3 = some (.ix (acc ++ orMerge xs (L.index.drop i) (R.index.drop j))) := by
  induction xs with
  | nil => intro c σ acc i j _ _ h3 _ _; exact ⟨σ, rfl, rfl, by simp [orMerge, h3]⟩
  | cons x xs ih =>
    intro c σ acc i j h1 h2 h3 h4 h5
    cases hL : ((L.index.drop i).head? == some x) <;> cases hR : ((R.index.drop j).head? == some x)
    · -- neither side
      let σ0 := (σ.set 6 (.pos x)).set 7 (.bool false)
      have e1 := eval_hit Γ σ0 1 4 6 L i x (by simp [σ0, set_apply, h1]) (by simp [σ0, set_apply, h4]) (by simp [σ0, set_apply])
      have e2 := eval_hit Γ σ0 2 5 6 R j x (by simp [σ0, set_apply, h2]) (by simp [σ0, set_apply, h5]) (by simp [σ0, set_apply])
      obtain ⟨σ', g1, g2, g3⟩ := ih (c+1) σ0 acc i j (by simp [σ0, set_apply, h1]) (by simp [σ0, set_apply, h2]) (by simp [σ0, set_apply, h3])
        (by simp [σ0, set_apply, h4]) (by simp [σ0, set_apply, h5])
      refine ⟨σ', ?_, by simp [g2, σ0, set_apply], ?_⟩
      · rw [hL] at e1; rw [hR] at e2
        simp only [σ0] at e1 e2 g1
        exec_simp [stepOf, e1, e2, g1]
      · simp only [g3, orMerge, hL, hR]; simp
    · -- the right side only
      let σ0 := (σ.set 6 (.pos x)).set 7 (.bool false)
      have e1 := eval_hit Γ σ0 1 4 6 L i x (by simp [σ0, set_apply, h1]) (by simp [σ0, set_apply, h4]) (by simp [σ0, set_apply])
      have e2 := eval_hit Γ σ0 2 5 6 R j x (by simp [σ0, set_apply, h2]) (by simp [σ0, set_apply, h5]) (by simp [σ0, set_apply])
      let σ1 := ((σ0.set 7 (.bool true)).set 5 (.int ((j:Int) + 1))).set 3 (.ix (acc ++ [x]))
      obtain ⟨σ', g1, g2, g3⟩ := ih (c+1) σ1 (acc ++ [x]) i (j+1) (by simp [σ1, σ0, set_apply, h1]) (by simp [σ1, σ0, set_apply, h2])
        (by simp [σ1, σ0, set_apply]) (by simp [σ1, σ0, set_apply, h4]) (by simp [σ1, σ0, set_apply])
      refine ⟨σ', ?_, by simp [g2, σ1, σ0, set_apply], ?_⟩
      · rw [hL] at e1; rw [hR] at e2
        simp only [σ0] at e1 e2
        simp only [σ1, σ0] at g1
        exec_simp [stepOf, e1, e2, h3, h5, g1]
      · simp only [g3, orMerge, hL, hR]; simp [List.tail_drop]
    · -- the left side only
      let σ0 := (σ.set 6 (.pos x)).set 7 (.bool false)
      have e1 := eval_hit Γ σ0 1 4 6 L i x (by simp [σ0, set_apply, h1]) (by simp [σ0, set_apply, h4]) (by simp [σ0, set_apply])
      let σ0' := (σ0.set 7 (.bool true)).set 4 (.int ((i:Int) + 1))
      have e2 := eval_hit Γ σ0' 2 5 6 R j x (by simp [σ0', σ0, set_apply, h2]) (by simp [σ0', σ0, set_apply, h5]) (by simp [σ0', σ0, set_apply])
      let σ1 := σ0'.set 3 (.ix (acc ++ [x]))
      obtain ⟨σ', g1, g2, g3⟩ := ih (c+1) σ1 (acc ++ [x]) (i+1) j (by simp [σ1, σ0', σ0, set_apply, h1]) (by simp [σ1, σ0', σ0, set_apply, h2])
        (by simp [σ1, σ0', σ0, set_apply]) (by simp [σ1, σ0', σ0, set_apply]) (by simp [σ1, σ0', σ0, set_apply, h5])
      refine ⟨σ', ?_, by simp [g2, σ1, σ0', σ0, set_apply], ?_⟩
      · rw [hL] at e1; rw [hR] at e2
        simp only [σ0] at e1
        simp only [σ0', σ0] at e2
        simp only [σ1, σ0', σ0] at g1
        exec_simp [stepOf, e1, e2, h3, h4, g1]
      · simp only [g3, orMerge, hL, hR]; simp [List.tail_drop]
    · -- both sides
      let σ0 := (σ.set 6 (.pos x)).set 7 (.bool false)
      have e1 := eval_hit Γ σ0 1 4 6 L i x (by simp [σ0, set_apply, h1]) (by simp [σ0, set_apply, h4]) (by simp [σ0, set_apply])
      let σ0' := (σ0.set 7 (.bool true)).set 4 (.int ((i:Int) + 1))
      have e2 := eval_hit Γ σ0' 2 5 6 R j x (by simp [σ0', σ0, set_apply, h2]) (by simp [σ0', σ0, set_apply, h5]) (by simp [σ0', σ0, set_apply])
      let σ1 := ((σ0'.set 7 (.bool true)).set 5 (.int ((j:Int) + 1))).set 3 (.ix (acc ++ [x]))
      obtain ⟨σ', g1, g2, g3⟩ := ih (c+1) σ1 (acc ++ [x]) (i+1) (j+1) (by simp [σ1, σ0', σ0, set_apply, h1]) (by simp [σ1, σ0', σ0, set_apply, h2])
        (by simp [σ1, σ0', σ0, set_apply]) (by simp [σ1, σ0', σ0, set_apply]) (by simp [σ1, σ0', σ0, set_apply])
      refine ⟨σ', ?_, by simp [g2, σ1, σ0', σ0, set_apply], ?_⟩
      · rw [hL] at e1; rw [hR] at e2
        simp only [σ0] at e1
        simp only [σ0', σ0] at e2
        simp only [σ1, σ0', σ0] at g1
        exec_simp [stepOf, e1, e2, h3, h4, h5, g1]
      · simp only [g3, orMerge, hL, hR]; simp [List.tail_drop]

theorem call_orFrames (n : Nat) (orig rhs : Frame) (lhs : Option Frame) :
    callAt canonFns O (n+2) .orFrames [.ptr (some orig), .ptr lhs, .ptr (some rhs)] = some (.ptr (some (F.orFrames orig lhs rhs))) := by
  rw [callAt_succ O (n+1) _ _ look_orFrames]
  cases lhs with
  | none => exec_simp [runFn, fnOrFrames, F.orFrames]
  | some lhs =>
    cases hl : lhs.err
    · cases hr : rhs.err
      · have hcap : ¬ (max (lhs.index.length : Int) (rhs.index.length : Int) < 0) := by omega
        obtain ⟨σ', g1, g2, g3⟩ := orMerge_loop (env O (n+1)) lhs rhs orig.index 0
          ((((((Store.empty.set 0 (.ptr (some orig))).set 1 (.ptr (some lhs))).set 2 (.ptr (some rhs))).set 3 (.ix [])).set 4 (.int 0)).set 5 (.int 0)) [] 0 0
          (by simp [set_apply]) (by simp [set_apply]) (by simp [set_apply]) (by simp [set_apply]) (by simp [set_apply])
        simp [set_apply] at g2
        exec_simp [runFn, fnOrFrames, F.orFrames, hl, hr, call_max, hcap, g1, g2, g3, call_withIndex]
      · exec_simp [runFn, fnOrFrames, F.orFrames, hl, hr]
    · exec_simp [runFn, fnOrFrames, F.orFrames, hl]

/-! ## `QFrame.filter` -/

theorem runKernel_length (sh : KShape) (p : Pos → Bool) : ∀ (ix : List Pos) (m : List Bool),
    (runKernel sh p ix m).length = min ix.length m.length := by
  intro ix
  induction ix with
  | nil => intro m; simp [runKernel]
  | cons i ix ih =>
    intro m
    cases m with
    | nil => simp [runKernel]
    | cons b m => simp [runKernel, ih, Nat.succ_min_succ]

def fb (x y : Bool) : Bool := if !x then !y else x

theorem fallback_loop (Γ : Env) : ∀ (rest irest pre ipre : List Bool) (σ : Store), pre.length = ipre.length → rest.length = irest.length →
    σ 2 = some (.mask (pre ++ rest)) → σ 13 = some (.mask (ipre ++ irest)) →
    ∃ σ', loopLive (stepOf Γ (some 14) (some 15) fallbackBody) 2 rest.length pre.length σ = .next σ' ∧
      σ' 2 = some (.mask (pre ++ List.zipWith fb rest irest)) ∧ σ' 0 = σ 0 ∧ σ' 9 = σ 9 := by
  intro rest
  induction rest with
  | nil => intro irest pre ipre σ _ _ h2 _; exact ⟨σ, rfl, by simpa using h2, rfl, rfl⟩
  | cons b rest ih =>
    intro irest pre ipre σ hp hr h2 h13
    cases irest with
    | nil => simp at hr
    | cons c irest =>
      simp only [List.length_cons, Nat.add_right_cancel_iff] at hr
      have hnn : ¬ ((pre.length : Int) < 0) := by omega
      have hb : ¬ ((pre.length : Int) + ((rest.length : Int) + 1) ≤ (pre.length : Int)) := by omega
      have hget : (pre ++ b :: rest)[pre.length]? = some b := by simp
      have hget' : (ipre ++ c :: irest)[pre.length]? = some c := by rw [hp]; simp
      cases b
      · -- the entry is still false: it becomes the complement
        let σ1 := ((σ.set 14 (.int pre.length)).set 15 (.bool false)).set 2 (.mask (pre ++ (!c) :: rest))
        obtain ⟨σ', g1, g2, g3, g4⟩ := ih irest (pre ++ [!c]) (ipre ++ [c]) σ1 (by simp [hp]) hr (by simp [σ1, set_apply])
          (by simp [σ1, set_apply, h13])
        refine ⟨σ', ?_, ?_, by simp [g3, σ1, set_apply], by simp [g4, σ1, set_apply]⟩
        · simp only [List.length_append, List.length_cons, List.length_nil, Nat.zero_add] at g1
          simp only [σ1] at g1
          rw [List.length_cons]
          simp only [loopLive, h2, hget]
          exec_simp [stepOf, h2, h13, hnn, hb, hget', g1]
        · simp [g2, fb]
      · let σ1 := (σ.set 14 (.int pre.length)).set 15 (.bool true)
        obtain ⟨σ', g1, g2, g3, g4⟩ := ih irest (pre ++ [true]) (ipre ++ [c]) σ1 (by simp [hp]) hr (by simp [σ1, set_apply, h2])
          (by simp [σ1, set_apply, h13])
        refine ⟨σ', ?_, ?_, by simp [g3, σ1, set_apply], by simp [g4, σ1, set_apply]⟩
        · simp only [List.length_append, List.length_cons, List.length_nil, Nat.zero_add] at g1
          simp only [σ1] at g1
          rw [List.length_cons]
          simp only [loopLive, h2, hget]
          exec_simp [stepOf, g1]
        · simp [g2, fb]

theorem exec_block_append (Γ : Env) (a b : List S) : ∀ σ : Store,
    (S.block (a ++ b)).exec Γ σ = (match (S.block a).exec Γ σ with | .next σ' => (S.block b).exec Γ σ' | r => r) := by
  induction a with
  | nil => intro σ; rfl
  | cons s a ih =>
    intro σ
    simp only [List.cons_append, exec_block_cons]
    cases s.exec Γ σ with
    | next σ' => exact ih σ'
    | ret v => rfl
    | stuck => rfl

/-- the variables of the loop of `QFrame.filter` that matter: the frame, the shared mask, the filter, its column -/
def LeafSt (σ : Store) (f : Frame) (l : Leaf) (mask : List Bool) : Prop :=
  σ 0 = some (.frame f) ∧ σ 2 = some (.mask mask) ∧ σ 3 = some (.leaf l) ∧ σ 4 = some (.tok .col l)

def failed (f : Frame) : Frame := { index := f.index, err := true }

theorem err_or_none {l : Leaf} (h : none = (if l.err = true then none else l.inv)) : l.err = true ∨ l.inv = none := by
  cases he : l.err
  · right; simpa [he] using h.symm
  · left; rfl

section leaf
variable (n : Nat) (f : Frame) (l : Leaf) (mask : List Bool) (hA : (O l).Abstracts l)
include hA

/-- the look-ups: they fail only for a leaf that `F.Leaf` marks as failing -/
theorem prefix_part (σ : Store) (h0 : σ 0 = some (.frame f)) (h2 : σ 2 = some (.mask mask)) (h3 : σ 3 = some (.leaf l)) :
    ((S.block leafPrefix).exec (env O (n+1)) σ = .ret (.frame (failed f)) ∧ l.err = true) ∨
    (∃ σ', (S.block leafPrefix).exec (env O (n+1)) σ = .next σ' ∧ LeafSt σ' f l mask) := by
  obtain ⟨a1, a2, _, _⟩ := hA
  cases hck : (O l).colKnown
  · left
    exact ⟨by exec_simp [leafPrefix, retNewErr, h0, h3, hck, call_withErr, failed], a1 hck⟩
  · cases hac : (O l).argIsCol
    · right
      refine ⟨_, by exec_simp [leafPrefix, retNewErr, h0, h3, hck, hac]; rfl, ?_⟩
      simp [LeafSt, set_apply, h0, h2, h3]
    · cases hak : (O l).argColKnown
      · left
        exact ⟨by exec_simp [leafPrefix, retNewErr, h0, h3, hck, hac, hak, call_withErr, failed], a2 hac hak⟩
      · right
        refine ⟨_, by exec_simp [leafPrefix, retNewErr, h0, h3, hck, hac, hak]; rfl, ?_⟩
        simp [LeafSt, set_apply, h0, h2, h3]

/-- the shortcut through `filter.Inverse` is taken exactly when `F.Leaf.inv` says so -/
theorem shortcut_part (σ : Store) (hs : LeafSt σ f l mask) (h10 : σ 10 = some (.bool false)) :
    ∃ σ', shortcutPart.exec (env O (n+1)) σ = .next σ' ∧
      ((l.err = false ∧ ∃ sh p, l.inv = some (sh, p) ∧ LeafSt σ' f l (runKernel sh p f.index mask) ∧
          σ' 10 = some (.bool true) ∧ σ' 9 = some (.err false)) ∨
       ((l.err = true ∨ l.inv = none) ∧ LeafSt σ' f l mask ∧ σ' 10 = some (.bool false))) := by
  obtain ⟨_, _, _, a4⟩ := hA
  obtain ⟨h0, h2, h3, h4⟩ := hs
  cases hstr : (O l).cmpIsString
  · refine ⟨σ, by exec_simp [shortcutPart, h3, hstr], Or.inr ⟨?_, ⟨h0, h2, h3, h4⟩, h10⟩⟩
    simp only [hstr, Bool.false_and, Bool.false_eq_true, if_false] at a4
    exact err_or_none a4
  · cases hinv : (O l).hasInverse
    · refine ⟨_, by exec_simp [shortcutPart, h3, hstr, hinv]; rfl, Or.inr ⟨?_, ?_, by simp [set_apply, h10]⟩⟩
      · simp only [hstr, hinv, Bool.and_false, Bool.false_eq_true, if_false] at a4
        exact err_or_none a4
      · simp [LeafSt, set_apply, h0, h2, h3, h4]
    · simp only [hstr, hinv, Bool.and_self, if_true] at a4
      cases hk : (O l).inverse with
      | none =>
        refine ⟨_, by exec_simp [shortcutPart, h0, h2, h3, h4, hstr, hinv, hk]; rfl, Or.inr ⟨?_, ?_, by simp [set_apply, h10]⟩⟩
        · rw [hk] at a4
          exact err_or_none a4
        · simp [LeafSt, set_apply, h0, h2, h3, h4]
      | some sp =>
        obtain ⟨sh, p⟩ := sp
        rw [hk] at a4
        have he : l.err = false := by
          cases he : l.err
          · rfl
          · simp [he] at a4
        have hi : l.inv = some (sh, p) := by simp [he] at a4; exact a4.symm
        refine ⟨_, by exec_simp [shortcutPart, h0, h2, h3, h4, hstr, hinv, hk]; rfl, Or.inl ⟨he, sh, p, hi, ?_, by simp [set_apply], by simp [set_apply]⟩⟩
        simp [LeafSt, set_apply, h0, h3, h4]

/-- the fallback evaluates the comparator itself on a fresh mask and complements into the entries that are still false -/
theorem fallback_part (σ : Store) (hs : LeafSt σ f l mask) (h10 : σ 10 = some (.bool false)) (hlen : mask.length = f.index.length) :
    ∃ σ', fallbackPart.exec (env O (n+1)) σ = .next σ' ∧
      ((l.err = true ∧ σ' 0 = some (.frame f) ∧ σ' 9 = some (.err true)) ∨
       (l.err = false ∧ σ' 0 = some (.frame f) ∧ σ' 9 = some (.err false) ∧
        σ' 2 = some (.mask (List.zipWith fb mask (runKernel l.shape l.pred f.index (List.replicate mask.length false)))))) := by
  obtain ⟨_, _, a3, _⟩ := hA
  obtain ⟨h0, h2, h3, h4⟩ := hs
  cases he : l.err
  · simp only [he, Bool.false_eq_true, if_false] at a3
    let inv := runKernel l.shape l.pred f.index (List.replicate mask.length false)
    have hil : mask.length = inv.length := by simp [inv, runKernel_length, hlen]
    let σ1 := ((σ.set 13 (.mask (List.replicate mask.length false))).set 13 (.mask inv)).set 9 (.err false)
    obtain ⟨σ', g1, g2, g3, g4⟩ := fallback_loop (env O (n+1)) mask inv [] [] σ1 rfl hil (by simp [σ1, set_apply, h2]) (by simp [σ1, set_apply])
    refine ⟨σ', ?_, Or.inr ⟨rfl, by simp [g3, σ1, set_apply, h0], by simp [g4, σ1, set_apply], by simpa using g2⟩⟩
    simp only [List.length_nil, σ1, inv] at g1
    exec_simp [fallbackPart, h0, h2, h3, h4, h10, a3, call_maskLen, call_newBool, g1]
  · simp only [he, if_true] at a3
    refine ⟨_, by exec_simp [fallbackPart, h0, h2, h3, h4, h10, a3, call_maskLen, call_newBool]; rfl, Or.inl ⟨rfl, ?_, ?_⟩⟩
    · simp [set_apply, h0]
    · simp [set_apply]

omit hA in
theorem fb_eq : (fun x y => if (!x) = true then !y else x) = fb := by funext x y; rfl

/-- the kernel calls of one filter are `F.leafStep` -/
theorem tail_part (σ : Store) (hs : LeafSt σ f l mask) (hlen : mask.length = f.index.length) :
    (leafStep f.index mask l = none → (S.block leafTail).exec (env O (n+1)) σ = .ret (.frame (failed f))) ∧
    (∀ mask', leafStep f.index mask l = some mask' →
      ∃ σ', (S.block leafTail).exec (env O (n+1)) σ = .next σ' ∧ σ' 0 = some (.frame f) ∧ σ' 2 = some (.mask mask')) := by
  have ⟨_, _, a3, _⟩ := hA
  have ⟨h0, h2, h3, h4⟩ := hs
  cases hfl : l.inverse
  · -- the comparator itself
    cases he : l.err
    · simp only [he, Bool.false_eq_true, if_false] at a3
      constructor
      · intro h; simp [leafStep, he, hfl] at h
      · intro mask' h
        simp only [leafStep, he, hfl, Bool.false_eq_true, if_false, Option.some.injEq] at h
        subst h
        exact ⟨_, by exec_simp [leafTail, leafKernel, h0, h2, h3, h4, hfl, a3]; rfl, by simp [set_apply, h0], by simp [set_apply]⟩
    · simp only [he, if_true] at a3
      constructor
      · intro _; exec_simp [leafTail, leafKernel, retNewErr, h0, h2, h3, h4, hfl, a3, call_withErr, failed]
      · intro mask' h; simp [leafStep, he] at h
  · -- the inverse
    let σ1 := (σ.set 9 (.err false)).set 10 (.bool false)
    have hs1 : LeafSt σ1 f l mask := by simp [LeafSt, σ1, set_apply, h0, h2, h3, h4]
    obtain ⟨σ2, e2, hcase⟩ := shortcut_part O n f l mask hA σ1 hs1 (by simp [σ1, set_apply])
    simp only [σ1] at e2
    rcases hcase with ⟨he, sh, p, hi, hs2, h10, h9⟩ | ⟨hen, hs2, h10⟩
    · -- shortcut taken
      constructor
      · intro h; simp [leafStep, he, hfl, hi] at h
      · intro mask' h
        simp only [leafStep, he, hfl, hi, Bool.false_eq_true, if_false, if_true, Option.some.injEq] at h
        subst h
        exact ⟨σ2, by exec_simp [leafTail, leafKernel, h3, hfl, e2, fallbackPart, h10, h9], hs2.1, hs2.2.1⟩
    · obtain ⟨σ3, e3, hc3⟩ := fallback_part O n f l mask hA σ2 hs2 h10 hlen
      rcases hc3 with ⟨he, g0, g9⟩ | ⟨he, g0, g9, g2⟩
      · constructor
        · intro _; exec_simp [leafTail, leafKernel, retNewErr, h3, hfl, e2, e3, g0, g9, call_withErr, failed]
        · intro mask' h; simp [leafStep, he] at h
      · have hi : l.inv = none := by
          rcases hen with h | h
          · simp [he] at h
          · exact h
        constructor
        · intro h; simp [leafStep, he, hfl, hi] at h
        · intro mask' h
          simp only [leafStep, he, hfl, hi, Bool.false_eq_true, if_false, if_true, Option.some.injEq, fb_eq] at h
          subst h
          exact ⟨σ3, by exec_simp [leafTail, leafKernel, h3, hfl, e2, e3, g9], g0, g2⟩

/-- one round of the loop of `QFrame.filter` is `F.leafStep` -/
theorem leaf_step (j : Nat) (σ : Store) (h0 : σ 0 = some (.frame f)) (h2 : σ 2 = some (.mask mask)) (hlen : mask.length = f.index.length) :
    (leafStep f.index mask l = none → stepOf (env O (n+1)) none (some 3) leafBody (.leaf l) j σ = .ret (.frame (failed f))) ∧
    (∀ mask', leafStep f.index mask l = some mask' →
      ∃ σ', stepOf (env O (n+1)) none (some 3) leafBody (.leaf l) j σ = .next σ' ∧ σ' 0 = some (.frame f) ∧ σ' 2 = some (.mask mask')) := by
  have hstep : stepOf (env O (n+1)) none (some 3) leafBody (.leaf l) j σ =
      (match (S.block leafPrefix).exec (env O (n+1)) (σ.set 3 (.leaf l)) with
       | .next σ' => (S.block leafTail).exec (env O (n+1)) σ'
       | r => r) := by
    simp only [stepOf, bindKV, Store.setOpt, exec_block_append]
  rw [hstep]
  rcases prefix_part O n f l mask hA (σ.set 3 (.leaf l)) (by simp [set_apply, h0]) (by simp [set_apply, h2]) (by simp [set_apply]) with ⟨e, he⟩ | ⟨σ', e, hs⟩
  · rw [e]
    exact ⟨fun _ => rfl, fun mask' h => by simp [leafStep, he] at h⟩
  · rw [e]
    exact tail_part O n f l mask hA σ' hs hlen

end leaf

theorem leafStep_length (ix : List Pos) (mask mask' : List Bool) (l : Leaf) (h : leafStep ix mask l = some mask')
    (hlen : mask.length = ix.length) : mask'.length = ix.length := by
  unfold leafStep at h
  cases he : l.err <;> simp only [he, Bool.false_eq_true, if_false, if_true] at h
  · cases hfl : l.inverse <;> simp only [hfl, Bool.false_eq_true, if_false, if_true] at h
    · simp only [Option.some.injEq] at h; subst h; simp [runKernel_length, hlen]
    · cases hi : l.inv with
      | none => simp only [hi, Option.some.injEq] at h; subst h; simp [runKernel_length, hlen]
      | some sp => obtain ⟨sh, p⟩ := sp; simp only [hi, Option.some.injEq] at h; subst h; simp [runKernel_length, hlen]
  · cases h

theorem leaves_loop (hO : ∀ l, (O l).Abstracts l) (n : Nat) (f : Frame) : ∀ (ls : List Leaf) (j : Nat) (σ : Store) (mask : List Bool),
    σ 0 = some (.frame f) → σ 2 = some (.mask mask) → mask.length = f.index.length →
    (ls.foldlM (leafStep f.index) mask = none →
      loop (stepOf (env O (n+1)) none (some 3) leafBody) (ls.map .leaf) j σ = .ret (.frame (failed f))) ∧
    (∀ mask', ls.foldlM (leafStep f.index) mask = some mask' →
      ∃ σ', loop (stepOf (env O (n+1)) none (some 3) leafBody) (ls.map .leaf) j σ = .next σ' ∧ σ' 0 = some (.frame f) ∧
        σ' 2 = some (.mask mask') ∧ mask'.length = f.index.length) := by
  intro ls
  induction ls with
  | nil =>
    intro j σ mask h0 h2 hlen
    constructor
    · intro h; simp at h
    · intro mask' h
      simp only [List.foldlM_nil, pure, Option.some.injEq] at h
      subst h
      exact ⟨σ, rfl, h0, h2, hlen⟩
  | cons l ls ih =>
    intro j σ mask h0 h2 hlen
    have hstep := leaf_step O n f l mask (hO l) j σ h0 h2 hlen
    simp only [List.foldlM_cons, List.map_cons, loop]
    cases hl : leafStep f.index mask l with
    | none =>
      rw [hstep.1 hl]
      exact ⟨fun _ => rfl, fun mask' h => by simp [bind] at h⟩
    | some m1 =>
      obtain ⟨σ1, e1, g0, g2⟩ := hstep.2 m1 hl
      rw [e1]
      simpa [bind] using ih (j+1) σ1 m1 g0 g2 (leafStep_length _ _ _ _ hl hlen)

/-- `QFrame.filter(filters...)` is `F.filterLeaves` -/
theorem call_leaves (hO : ∀ l, (O l).Abstracts l) (n : Nat) (f : Frame) (ls : List Leaf) :
    callAt canonFns O (n+2) .leaves [.frame f, .leaves ls] = some (.frame (filterLeaves f ls)) := by
  rw [callAt_succ O (n+1) _ _ look_leaves]
  cases he : f.err
  · let σ0 := ((Store.empty.set 0 (.frame f)).set 1 (.leaves ls)).set 2 (.mask (List.replicate f.index.length false))
    have hl := leaves_loop O hO n f ls 0 σ0 (List.replicate f.index.length false) (by simp [σ0, set_apply]) (by simp [σ0, set_apply]) (by simp)
    simp only [σ0] at hl
    cases hf : ls.foldlM (leafStep f.index) (List.replicate f.index.length false) with
    | none =>
      exec_simp [runFn, fnLeaves, retIfFailed, he, call_ixLen, call_newBool, hl.1 hf, filterLeaves, hf, failed]
    | some mask' =>
      obtain ⟨σ', e, g0, g2, glen⟩ := hl.2 mask' hf
      exec_simp [runFn, fnLeaves, retIfFailed, he, call_ixLen, call_newBool, e, g0, g2, filterLeaves, hf,
        call_ixFilter O n f.index mask' (by omega), call_withIndex]
  · exec_simp [runFn, fnLeaves, retIfFailed, he, filterLeaves]

end QF.Props.C02ClausesGen
