import QF.Props.C03SorterPivot
/-!
# C03 — the sorter of today's source IS the hand mirror (tie T1)

`QF.Gen.sorterFns` — `Sorter.Sort`, `Len`, `Swap`, `Less`, `quickSort`, `maxDepth`, `heapSort`, `doPivot`, `insertionSort`,
`siftDown`, `medianOfThree` of /repo/internal/sort/sorter.go, translated statement by statement on every run
(go/cmd/extract/sortast.go) into the imperative language `QF.SL` (QF/Core/SLExpr.lean) — is interpreted by `SL.exec`
(Go semantics: integer variables, `for` with `break` / `continue` / `return`, calls and recursion, an index out of range
is a panic) and proved equal to the hand mirror QF/Core/Sorter.lean, function by function, each by induction following
the mirror's own recursion:

    call_len, call_swap, call_less, call_maxDepth, call_median, call_insertionSort, call_siftDown, call_heapSort   (C03SorterFns)
    call_doPivot                                                                                                   (C03SorterPivot)
    call_quickSort, call_sort                                                                                      (here)

* `gen_sorter_no_opaque`, `gen_sorter_canon` (C03SorterCanon): today's extraction is complete and is the canonical program.
* `gen_sorter_semantics`: for every index array and every list of comparators whose `Less` is `less`, interpreting
  TODAY'S `Sort` with enough fuel returns exactly `Sorter.sort less ix` — and with less fuel it runs out of fuel, it
  never returns anything else. In particular the code never indexes outside the array (for ANY comparison function,
  consistent or not) and always terminates.
* `gen_sorter_semantics_less`: the same for every comparison function `less : Nat → Nat → Bool` on row numbers.
* `gen_less_semantics`: the regenerated `Less` is `sorterLess` of C03Compare (whose comparators are regenerated there).
* `gen_sorter_sorted_perm`: hence the regenerated sorter returns a sorted permutation for every strict weak order.
* witnesses: `hi-c < (hi-lo)>>1` for `/4`, a child index off by one in `siftDown`, a dropped `!` — the canonical check
  fails and the interpreted result differs on a concrete array.
-/
namespace QF.Props.C03SorterGen
open QF QF.SL
set_option linter.unusedSimpArgs false

/-! ## `quickSort` -/

theorem quickSort_size (less : Nat → Nat → Bool) (fuel : Nat) (a : Ix) (lo hi d : Nat) :
    (Sorter.quickSort less fuel a lo hi d).size = a.size :=
  (Sorter.quickSort_perm less fuel a lo hi d).size_eq

theorem shell_size (less : Nat → Nat → Bool) (l : List Nat) : ∀ (a : Ix),
    (l.foldl (fun a i => if Sorter.lt less a i (i - 6) then Sorter.sw a i (i - 6) else a) a).size = a.size := by
  induction l with
  | nil => intro a; rfl
  | cons x xs ih =>
    intro a
    rw [List.foldl_cons, ih]
    split
    · rw [Sorter.sw_size]
    · rfl

theorem two_log2_lt : ∀ n : Nat, 5 ≤ n → 2 * Nat.log2 n < n := by
  intro n
  induction n using Nat.strongRecOn with
  | _ n ih =>
    intro h
    by_cases h10 : 10 ≤ n
    · have := ih (n / 2) (by omega) (by omega)
      rw [Nat.log2_def n]
      have h2 : 2 ≤ n := by omega
      simp only [h2, ↓reduceIte]
      omega
    · have : n = 5 ∨ n = 6 ∨ n = 7 ∨ n = 8 ∨ n = 9 := by omega
      rcases this with rfl | rfl | rfl | rfl | rfl <;> decide

/-- the depth limit is below the fuel the mirror gives itself -/
theorem maxDepth_lt (n : Nat) (h : 12 < n) : Sorter.maxDepth n < n + 2 := by
  have := two_log2_lt n (by omega)
  have h0 : n ≠ 0 := by omega
  simp only [Sorter.maxDepth, h0, ↓reduceIte]
  omega

section withLess
variable {cols : Cols} {less : Nat → Nat → Bool} (hl : LessIs cols less)
include hl

/-- the ShellSort pass with gap 6 -/
theorem qs_shell (lo hi : Nat) (v3 p4 p5 : Val) : ∀ (k i : Nat) (a : Ix) (iz : Int), iz = i → hi - i = k → lo + 6 ≤ i →
    hi ≤ a.size →
    ∃ iz' : Int, X cols qsShellLoop ([.sorter, .int lo, .int hi, v3, p4, p5, .int iz], a) =
      .ok (.next ([.sorter, .int lo, .int hi, v3, p4, p5, .int iz'], (List.range' i k).foldl (fun a i => if Sorter.lt less a i (i - 6) then Sorter.sw a i (i - 6) else a) a)) := by
  intro k
  induction k with
  | zero =>
    intro i a iz hi' hk _ _
    rw [qsShellLoop, x_loop]
    have : ¬ iz < (hi : Int) := by omega
    sl_simp [this, decide_false]
    exact ⟨_, rfl⟩
  | succ k ih =>
    intro i a iz hi' hk hlo hsz
    rw [qsShellLoop, x_loop]
    have : iz < (hi : Int) := by omega
    have t1 : iz.toNat = i := by omega
    have t2 : (iz - 6).toNat = i - 6 := by omega
    simp only [List.range'_succ, List.foldl_cons]
    sl_simp [this, decide_true, call_less' hl, t1, t2]
    cases e : Sorter.lt less a i (i - 6)
    · sl_simp [Bool.false_eq_true]
      rw [← qsShellLoop]
      exact ih (i + 1) _ _ (by omega) (by omega) (by omega) hsz
    · sl_simp [call_swap, t1, t2]
      rw [← qsShellLoop]
      exact ih (i + 1) _ _ (by omega) (by omega) (by omega) (by rw [Sorter.sw_size]; exact hsz)

/-- the part of `quickSort` after its loop: ShellSort pass and insertion sort for at most 12 elements -/
theorem qs_tail (lo hi : Nat) (v3 p4 p5 p6 : Val) (a : Ix) (hlh : lo ≤ hi) (hsz : hi ≤ a.size) :
    ∃ σ', X cols qsTail ([.sorter, .int lo, .int hi, v3, p4, p5, p6], a) =
      .ok (.next (σ', if hi - lo > 1 then
        Sorter.insertionSort less ((List.range' (lo + 6) (hi - (lo + 6))).foldl
          (fun a i => if Sorter.lt less a i (i - 6) then Sorter.sw a i (i - 6) else a) a) lo hi else a)) := by
  simp only [qsTail]
  by_cases h : hi - lo > 1
  · have h' : (hi : Int) - lo > 1 := by omega
    sl_simp [h, h', decide_true]
    obtain ⟨iz', hs⟩ := qs_shell hl lo hi v3 p4 p5 (hi - (lo + 6)) (lo + 6) a (lo + 6) (by omega) rfl (by omega) hsz
    rw [hs]
    sl_simp []
    rw [call_insertionSort hl _ lo hi (by rw [shell_size]; exact hsz)]
    sl_simp []
    exact ⟨_, rfl⟩
  · have h' : ¬ (hi : Int) - lo > 1 := by omega
    sl_simp [h, h', decide_false]
    exact ⟨_, rfl⟩

/-- the body of `quickSort` is the mirror's `quickSort`, for every fuel of the mirror that exceeds the depth limit -/
theorem qs_body : ∀ (fuel : Nat) (a : Ix) (lo hi d : Nat) (p4 p5 p6 : Val), 1 ≤ fuel → (hi - lo > 12 → d < fuel) → lo ≤ hi →
    hi ≤ a.size →
    ∃ c, X cols (S.block [qsLoop, qsTail]) ([.sorter, .int lo, .int hi, .int d, p4, p5, p6], a) = .ok c ∧
      Done (Sorter.quickSort less fuel a lo hi d) c := by
  intro fuel
  induction fuel with
  | zero => intro a lo hi d p4 p5 p6 h1; omega
  | succ fuel ih =>
    intro a lo hi d p4 p5 p6 _ hd hlh hsz
    rw [x_block_cons, qsLoop, x_loop]
    simp only [Sorter.quickSort]
    by_cases h12 : hi - lo > 12
    · have h12' : (hi : Int) - lo > 12 := by omega
      simp only [qsLoopBody]
      sl_simp [h12, h12', decide_true]
      by_cases h0 : d = 0
      · subst h0
        sl_simp [beq_self_eq_true, Int.natCast_zero]
        rw [call_heapSort hl a lo hi hlh hsz]
        sl_simp []
        exact ⟨_, rfl, .inr rfl⟩
      · have h0' : ((d : Int) == 0) = false := by simp; omega
        have db := doPivot_bounds less a lo hi (by omega) hsz
        sl_simp [h0, h0']
        rw [call_doPivot hl a lo hi (by omega) hsz]
        generalize Sorter.doPivot less a lo hi = r at db ⊢
        obtain ⟨a1, mlo, mhi⟩ := r
        simp only at db ⊢
        sl_simp []
        have hdd : (d : Int) - 1 = ↑(d - 1) := by omega
        by_cases hc : mlo - lo < hi - mhi
        · have hc' : (mlo : Int) - lo < (hi : Int) - mhi := by omega
          sl_simp [hc, hc', decide_true, hdd]
          -- the recursive call
          obtain ⟨c1, e1, d1⟩ := ih a1 lo mlo (d - 1) .unit .unit .unit (by omega) (by omega) (by omega) (by omega)
          rw [callLim_eq canonFns cols _ fQuickSort fnQuickSort rfl _ rfl
            [.sorter, .int lo, .int mlo, .int ↑(d - 1), .unit, .unit, .unit] rfl]
          simp only [fnQuickSort]
          rw [e1]
          sl_simp [done_wrap d1]
          -- the rest of the loop
          rw [← qsLoopBody, ← qsLoop, ← x_block_cons]
          exact ih _ mhi hi (d - 1) _ _ _ (by omega) (by omega) (by omega) (by rw [quickSort_size]; omega)
        · have hc' : ¬ (mlo : Int) - lo < (hi : Int) - mhi := by omega
          sl_simp [hc, hc', decide_false, hdd]
          obtain ⟨c1, e1, d1⟩ := ih a1 mhi hi (d - 1) .unit .unit .unit (by omega) (by omega) (by omega) (by omega)
          rw [callLim_eq canonFns cols _ fQuickSort fnQuickSort rfl _ rfl
            [.sorter, .int mhi, .int hi, .int ↑(d - 1), .unit, .unit, .unit] rfl]
          simp only [fnQuickSort]
          rw [e1]
          sl_simp [done_wrap d1]
          rw [← qsLoopBody, ← qsLoop, ← x_block_cons]
          exact ih _ lo mlo (d - 1) _ _ _ (by omega) (by omega) (by omega) (by rw [quickSort_size]; omega)
    · have h12' : ¬ (hi : Int) - lo > 12 := by omega
      sl_simp [h12, h12', decide_false]
      obtain ⟨σ', ht⟩ := qs_tail hl lo hi (.int d) p4 p5 p6 a hlh hsz
      rw [ht]
      sl_simp []
      exact ⟨_, rfl, .inl ⟨_, rfl⟩⟩

/-- `quickSort(data, lo, hi, d)` is the mirror's `quickSort` -/
theorem call_quickSort (fuel : Nat) (a : Ix) (lo hi d : Nat) (hf : 1 ≤ fuel) (hd : hi - lo > 12 → d < fuel) (hlh : lo ≤ hi)
    (hsz : hi ≤ a.size) :
    C cols fQuickSort [.sorter, .int lo, .int hi, .int d] a = .ok (.unit, Sorter.quickSort less fuel a lo hi d) := by
  rw [callLim_eq canonFns cols _ fQuickSort fnQuickSort rfl _ rfl [.sorter, .int lo, .int hi, .int d, .unit, .unit, .unit] rfl]
  simp only [fnQuickSort]
  obtain ⟨c, e, dn⟩ := qs_body hl fuel a lo hi d .unit .unit .unit hf hd hlh hsz
  rw [e]
  sl_simp [done_wrap dn]

/-- `s.Sort()` is the mirror's `sort` -/
theorem call_sort (a : Ix) : C cols fSort [.sorter] a = .ok (.unit, Sorter.sort less a) := by
  rw [callLim_eq canonFns cols _ fSort fnSort rfl _ rfl [.sorter, .unit] rfl]
  simp only [fnSort, Sorter.sort]
  sl_simp [call_len, call_maxDepth]
  rw [show (0 : Int) = ((0 : Nat) : Int) from rfl,
    call_quickSort hl (a.size + 2) a 0 a.size (Sorter.maxDepth a.size) (by omega)
      (fun h => maxDepth_lt a.size (by omega)) (by omega) (by omega)]
  sl_simp []

end withLess

/-! ## The theorems about today's source -/

/-- `s.Sort()` of the program `P` on the index `ix` with `n` levels of fuel: the index afterwards -/
def interp (P : Prog) (cols : Cols) (n : Nat) (ix : Ix) : R Ix :=
  (callAt P cols n fSort [.sorter] ix).bind fun r => .ok r.2

/-- a list of comparators whose `Less` is the given comparison function -/
def colsOf (less : Nat → Nat → Bool) : Cols := [fun i j => some (if less i j then .lessThan else .equal)]

theorem lessIs_colsOf (less : Nat → Nat → Bool) : LessIs (colsOf less) less := by
  intro i j
  simp only [colsOf, lessOf]
  cases less i j <;> simp

/-- **Today's sorter is the mirror.** For every index array and all comparators (`Less` over them being `less`):
interpreting today's extracted `Sort` with enough fuel returns exactly `Sorter.sort less ix`; with less fuel the
interpreter runs out of fuel — it never returns anything else, and the program never panics. -/
theorem gen_sorter_semantics (cols : Cols) (less : Nat → Nat → Bool) (hl : LessIs cols less) (ix : Ix) :
    (∃ N, ∀ n, N ≤ n → interp Gen.sorterFns cols n ix = .ok (Sorter.sort less ix)) ∧
    (∀ n, interp Gen.sorterFns cols n ix = .timeout ∨ interp Gen.sorterFns cols n ix = .ok (Sorter.sort less ix)) := by
  rw [gen_sorter_canon]
  have h := call_sort hl ix
  refine ⟨?_, fun n => ?_⟩
  · obtain ⟨N, hN⟩ := callLim_ok canonFns cols h
    exact ⟨N, fun n hn => by simp only [interp, hN n hn, bind_ok]⟩
  · rcases callAt_cases canonFns cols h n with q | q
    · left; simp only [interp, q, bind_timeout]
    · right; simp only [interp, q, bind_ok]

/-- … for every comparison function on row numbers, exactly as QF/Core/Sorter.lean abstracts `Less`. -/
theorem gen_sorter_semantics_less (less : Nat → Nat → Bool) (ix : Ix) :
    (∃ N, ∀ n, N ≤ n → interp Gen.sorterFns (colsOf less) n ix = .ok (Sorter.sort less ix)) ∧
    (∀ n, interp Gen.sorterFns (colsOf less) n ix = .timeout ∨
      interp Gen.sorterFns (colsOf less) n ix = .ok (Sorter.sort less ix)) :=
  gen_sorter_semantics (colsOf less) less (lessIs_colsOf less) ix

/-- Whatever today's `Sort` returns (with whatever fuel) is a sorted permutation of the index, for every strict weak
order (`sort_perm`, `sort_sorted_full` of the mirror). -/
theorem gen_sorter_sorted_perm (cols : Cols) (less : Nat → Nat → Bool) (hl : LessIs cols less) (sw0 : Sorter.SWO less)
    (ix r : Ix) (n : Nat) (h : interp Gen.sorterFns cols n ix = .ok r) :
    r.Perm ix ∧ Sorter.Sorted less r 0 ix.size := by
  rcases (gen_sorter_semantics cols less hl ix).2 n with q | q
  · rw [q] at h; cases h
  · rw [q] at h
    cases h
    exact ⟨Sorter.sort_perm less ix, Sorter.sort_sorted_full less sw0 ix⟩

/-- … and it does return (for all sufficiently large fuel). -/
theorem gen_sorter_terminates (cols : Cols) (less : Nat → Nat → Bool) (hl : LessIs cols less) (ix : Ix) :
    ∃ N r, ∀ n, N ≤ n → interp Gen.sorterFns cols n ix = .ok r :=
  let ⟨N, h⟩ := (gen_sorter_semantics cols less hl ix).1
  ⟨N, _, h⟩

/-- The functions of today's source one by one, in the limit semantics (`callLim`: all the fuel that is asked for), for
all arguments within the array: each IS the function of the mirror. -/
theorem gen_sorter_functions (cols : Cols) (less : Nat → Nat → Bool) (hl : LessIs cols less) (a : Ix) :
    (callLim Gen.sorterFns cols fLen [.sorter] a = .ok (.int a.size, a)) ∧
    (∀ x y : Int, 0 ≤ x ∧ x < a.size → 0 ≤ y ∧ y < a.size →
      callLim Gen.sorterFns cols fSwap [.sorter, .int x, .int y] a = .ok (.unit, Sorter.sw a x.toNat y.toNat)) ∧
    (∀ x y : Int, 0 ≤ x ∧ x < a.size → 0 ≤ y ∧ y < a.size →
      callLim Gen.sorterFns cols fLess [.sorter, .int x, .int y] a = .ok (.bool (Sorter.lt less a x.toNat y.toNat), a)) ∧
    (∀ n : Nat, callLim Gen.sorterFns cols fMaxDepth [.int n] a = .ok (.int (Sorter.maxDepth n : Nat), a)) ∧
    (∀ m1 m0 m2 : Int, 0 ≤ m1 ∧ m1 < a.size → 0 ≤ m0 ∧ m0 < a.size → 0 ≤ m2 ∧ m2 < a.size →
      callLim Gen.sorterFns cols fMedianOfThree [.sorter, .int m1, .int m0, .int m2] a =
        .ok (.unit, Sorter.medianOfThree less a m1.toNat m0.toNat m2.toNat)) ∧
    (∀ lo hi : Nat, hi ≤ a.size →
      callLim Gen.sorterFns cols fInsertionSort [.sorter, .int lo, .int hi] a = .ok (.unit, Sorter.insertionSort less a lo hi)) ∧
    (∀ (fuel lo hi first : Nat), hi ≤ fuel + lo → first + hi ≤ a.size →
      callLim Gen.sorterFns cols fSiftDown [.sorter, .int lo, .int hi, .int first] a =
        .ok (.unit, Sorter.siftDown less fuel a lo hi first)) ∧
    (∀ lo hi : Nat, lo ≤ hi → hi ≤ a.size →
      callLim Gen.sorterFns cols fHeapSort [.sorter, .int lo, .int hi] a = .ok (.unit, Sorter.heapSort less a lo hi)) ∧
    (∀ lo hi : Nat, lo + 12 < hi → hi ≤ a.size →
      callLim Gen.sorterFns cols fDoPivot [.sorter, .int lo, .int hi] a =
        .ok (.pair ↑(Sorter.doPivot less a lo hi).2.1 ↑(Sorter.doPivot less a lo hi).2.2, (Sorter.doPivot less a lo hi).1)) ∧
    (∀ fuel lo hi d : Nat, 1 ≤ fuel → (hi - lo > 12 → d < fuel) → lo ≤ hi → hi ≤ a.size →
      callLim Gen.sorterFns cols fQuickSort [.sorter, .int lo, .int hi, .int d] a =
        .ok (.unit, Sorter.quickSort less fuel a lo hi d)) ∧
    (callLim Gen.sorterFns cols fSort [.sorter] a = .ok (.unit, Sorter.sort less a)) := by
  rw [gen_sorter_canon]
  refine ⟨call_len cols a, fun x y hx hy => call_swap cols a x y hx hy, fun x y hx hy => call_less' hl a x y hx hy,
    fun n => call_maxDepth cols a n, fun m1 m0 m2 h1 h0 h2 => call_median hl a m1 m0 m2 h1 h0 h2,
    fun lo hi h => call_insertionSort hl a lo hi h, fun fuel lo hi first h1 h2 => ?_,
    fun lo hi h1 h2 => call_heapSort hl a lo hi h1 h2, fun lo hi h1 h2 => call_doPivot hl a lo hi h1 h2,
    fun fuel lo hi d h1 h2 h3 h4 => call_quickSort hl fuel a lo hi d h1 h2 h3 h4, call_sort hl a⟩
  have := call_siftDown hl fuel a lo hi first ⟨by omega, by simp only [Int.toNat_natCast]; omega⟩
  simpa only [Int.toNat_natCast] using this

/-! ## Witnesses: plausible mutations of the source violate the statements

Each mutant is the canonical program with one function changed the way the translator would render the changed source.
`gen_sorter_canon` fails for it (the terms differ), and the interpreted function differs from the mirror on a concrete
array (kernel evaluation of the interpreter with explicit fuel). -/
section witnesses

/-- `hi-c < (hi-lo)>>1` for `hi-c < (hi-lo)/4` in `doPivot` -/
def dpDupsMut : S := S.ite (E.and (not' (v 9)) (lt (sub (v 2) (v 7)) (E.bin BOp.shr (sub (v 2) (v 1)) (lit 1))))
  (S.block [
    S.define 10 (lit 0),
    S.ite (not' (less (v 5) (sub (v 2) (lit 1)))) (S.block [swap (v 7) (sub (v 2) (lit 1)), S.incr 7, S.incr 10]) nop,
    S.ite (not' (less (sub (v 8) (lit 1)) (v 5))) (S.block [S.decr 8, S.incr 10]) nop,
    S.ite (not' (less (v 3) (v 5))) (S.block [swap (v 3) (sub (v 8) (lit 1)), S.decr 8, S.incr 10]) nop,
    S.assign 9 (gt (v 10) (lit 1))])
  nop

def fnDoPivotMut : Fn := { fnDoPivot with body := S.block [
  S.define 3 (E.un UOp.toInt (E.bin BOp.shr (E.un UOp.toUint (add (v 1) (v 2))) (lit 1))),
  dpNinther,
  median (v 1) (v 3) (sub (v 2) (lit 1)),
  S.define 5 (v 1),
  S.define 6 (add (v 1) (lit 1)),
  S.define 7 (sub (v 2) (lit 1)),
  dpScanA,
  S.define 8 (v 6),
  dpPartLoop,
  S.define 9 (lt (sub (v 2) (v 7)) (lit 5)),
  dpDupsMut,
  S.ite (v 9) (S.block [dpProtLoop]) nop,
  swap (v 5) (sub (v 8) (lit 1)),
  S.ret2 (sub (v 8) (lit 1)) (v 7)] }

def mutQuarter : Prog := canonFns.set fDoPivot fnDoPivotMut

/-- `child := 2*root + 2` for `child := 2*root + 1` in `siftDown` -/
def fnSiftDownMut : Fn := { fnSiftDown with body := S.block [S.define 4 (v 1), S.loop (E.bool true) nop (S.block [
  S.define 5 (add (mul (lit 2) (v 4)) (lit 2)),
  S.ite (ge (v 5) (v 2)) (S.block [S.brk]) nop,
  S.ite (E.and (lt (add (v 5) (lit 1)) (v 2)) (less (add (v 3) (v 5)) (add (add (v 3) (v 5)) (lit 1)))) (S.block [S.incr 5]) nop,
  S.ite (not' (less (add (v 3) (v 4)) (add (v 3) (v 5)))) (S.block [S.ret0]) nop,
  swap (add (v 3) (v 4)) (add (v 3) (v 5)),
  S.assign 4 (v 5)])] }

def mutChild : Prog := canonFns.set fSiftDown fnSiftDownMut

/-- `b < c && data.Less(pivot, b)` for `b < c && !data.Less(pivot, b)` in the partition loop of `doPivot` (only the term check) -/
def mutNot : Prog := canonFns.set fDoPivot { fnDoPivot with body := S.block [
  S.define 3 (E.un UOp.toInt (E.bin BOp.shr (E.un UOp.toUint (add (v 1) (v 2))) (lit 1))),
  dpNinther,
  median (v 1) (v 3) (sub (v 2) (lit 1)),
  S.define 5 (v 1),
  S.define 6 (add (v 1) (lit 1)),
  S.define 7 (sub (v 2) (lit 1)),
  dpScanA,
  S.define 8 (v 6),
  S.loop (E.bool true) nop (S.block [
    S.loop (E.and (lt (v 8) (v 7)) (less (v 5) (v 8))) (S.block [S.incr 8]) nop,
    dpScanC,
    S.ite (ge (v 8) (v 7)) (S.block [S.brk]) nop,
    swap (v 8) (sub (v 7) (lit 1)),
    S.incr 8,
    S.decr 7]),
  S.define 9 (lt (sub (v 2) (v 7)) (lit 5)),
  dpDups,
  S.ite (v 9) (S.block [dpProtLoop]) nop,
  swap (v 5) (sub (v 8) (lit 1)),
  S.ret2 (sub (v 8) (lit 1)) (v 7)] }

example : mutQuarter ≠ canonFns := by decide
example : mutChild ≠ canonFns := by decide
example : mutNot ≠ canonFns := by decide

/-- fifteen rows with the keys 2 1 0 4 3 2 1 0 4 3 2 1 0 4 3 -/
def witKeys : Array Nat := #[2, 1, 0, 4, 3, 2, 1, 0, 4, 3, 2, 1, 0, 4, 3]
def witLess : Nat → Nat → Bool := fun i j => witKeys[i]! < witKeys[j]!

/-- today's `doPivot` on these rows: the mirror's result (with explicit fuel) … -/
example : callAt canonFns (colsOf witLess) 120 fDoPivot [.sorter, .int 0, .int 15] (Array.range 15) =
    .ok (.pair ↑(Sorter.doPivot witLess (Array.range 15) 0 15).2.1 ↑(Sorter.doPivot witLess (Array.range 15) 0 15).2.2,
      (Sorter.doPivot witLess (Array.range 15) 0 15).1) := by decide +kernel
/-- … but not with `>>1` for `/4` -/
example : callAt mutQuarter (colsOf witLess) 120 fDoPivot [.sorter, .int 0, .int 15] (Array.range 15) ≠
    .ok (.pair ↑(Sorter.doPivot witLess (Array.range 15) 0 15).2.1 ↑(Sorter.doPivot witLess (Array.range 15) 0 15).2.2,
      (Sorter.doPivot witLess (Array.range 15) 0 15).1) := by decide +kernel

/-- three rows with the keys 1 5 3: `siftDown(data, 0, 3, 0)` lifts the greater child … -/
def heapLess : Nat → Nat → Bool := fun i j => #[1, 5, 3][i]! < #[1, 5, 3][j]!
example : callAt canonFns (colsOf heapLess) 40 fSiftDown [.sorter, .int 0, .int 3, .int 0] #[0, 1, 2] =
    .ok (.unit, Sorter.siftDown heapLess 4 #[0, 1, 2] 0 3 0) := by decide +kernel
/-- … but not with the child index off by one -/
example : callAt mutChild (colsOf heapLess) 40 fSiftDown [.sorter, .int 0, .int 3, .int 0] #[0, 1, 2] ≠
    .ok (.unit, Sorter.siftDown heapLess 4 #[0, 1, 2] 0 3 0) := by decide +kernel

/-- and the whole `Sort` of today's source on the fifteen rows is the mirror's, by evaluation -/
example : interp Gen.sorterFns (colsOf witLess) 200 (Array.range 15) = .ok (Sorter.sort witLess (Array.range 15)) := by
  decide +kernel

end witnesses

end QF.Props.C03SorterGen
