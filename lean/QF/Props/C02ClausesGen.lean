import QF.Props.C02ClausesFns
/-!
# C02 — the clause evaluation of Filter in today's source IS the hand mirror `F.Clause.filter` (tie T1, by semantics)

`QF.Gen.clauseFns` (regenerated on every run by go/cmd/extract/clast.go) holds the bodies of

    QFrame.Filter, QFrame.filter(filters ...filter.Filter), QFrame.withErr, QFrame.withIndex           /repo/qframe.go
    {Filter, AndClause, OrClause, NotClause, NullClause}.filter / .Err, And, Or, Not, Null,
    anyFilterErr, orFrames                                                                             /repo/filter.go
    index.NewBool, Int.Len, Bool.Len, Int.Filter                                                       /repo/internal/index
    integer.Max                                                                                        /repo/internal/math/integer

as terms of the imperative language `QF.CL` (QF/Core/CLExpr.lean), translated statement by statement, variables and
callees named by role. `CL.interp` is the Go meaning of such a table of functions: a clause tree is turned into Go
values by running the extracted constructors (`And` / `Or` store `anyFilterErr(clauses)` or the "zero subclauses" error),
each value carries the extracted `filter` / `Err` methods of its dynamic type, and `qf.Filter(clause)` is executed. What
is NOT in the terms are the cells: the calls made for one `filter.Filter` (column look-ups, the kernel call
`s.Filter(qf.index, comparator, f.Arg, mask)` for the comparator and for its entry in `filter.Inverse`) are parameters
`O : Leaf → LeafCalls`, constrained to what `F.Leaf` says about the leaf (`LeafCalls.Abstracts`) — exactly the abstraction of
the hand mirror QF/Core/Filter.lean. Proved here and in the two files imported, over the terms generated TODAY:

* `gen_clauses_no_opaque`        — every function was translated completely (C02ClausesCanon)
* `gen_clauses_canon`            — finite `decide`: today's terms are the canonical ones `canonFns` (C02ClausesCanon);
                                   insensitive to the names of variables, private helpers and private fields, to
                                   comments and formatting; sensitive to every statement, operand and call
* `gen_clause_filter_semantics`  — for EVERY clause tree, EVERY frame (failed or not, any index) and every `O` with
                                   `∀ l, (O l).Abstracts l`: `interp Gen.clauseFns O c f = some (c.filter f)` — the
                                   extracted code has a meaning (no nil dereference, no index out of range, no negative
                                   capacity, nothing opaque) and returns the index and the error flag of `F.Clause.filter`
* `gen_filter_refines`           — hence `F.filter_refines` speaks about the regenerated code: sound kernels, well-typed
                                   clause, duplicate-free index ⟹ the extracted `Filter` returns `index.filter sem`, no error
* `gen_filter_eq_mirror`, `gen_filter_eq_spec_today` (C02ClausesLink) — hence `C02Mirror.mirrorFilter_eq_spec_today` does: the extracted code
                                   on the mirror clause of a spec clause = the spec's `keptRows` (or the error)
* `filter_length_le`             — the mirror never lengthens the index (used for the capacity of `NotClause.filter`)
* function by function (C02ClausesFns and below): `call_ixFilter` (`Int.Filter` = `F.idxFilter`), `call_orFrames`
  (`orFrames` = `F.orFrames`, the two-cursor loop = `F.orMerge`), `call_leaves` (`QFrame.filter` = `F.filterLeaves`: one
  `F.leafStep` per filter on the shared mask, shortcut through `filter.Inverse` iff `Leaf.inv`, else the fallback
  `bIndex[i] = !invBIndex[i]` where still false), `call_filterAnd` (= `F.andLoop`), `call_filterOr` (batches of
  consecutive plain filters, flushed in front of a nested clause and at the end = `F.orLoop`), `call_filterNot` (leaf: flip
  `Inverse`; else complement within the frame = `F.notMerge`), `call_ctorAnd/Or` + `call_anyErr` (= `Clause.hasErr`).
* witnesses at the end: mutations of single statements that change the result on a concrete input (`decide`), and two
  that provably cannot be seen in any result of the examples (they only make `gen_clauses_canon` fail).
-/
namespace QF.Props.C02ClausesGen
open QF QF.CL F
set_option linter.unusedSimpArgs false

variable (O : Leaf → LeafCalls)

theorem look_publicFilter : canonFns.lookup .publicFilter = some fnPublicFilter := by decide
theorem look_filterLeaf : canonFns.lookup (.filter .filter) = some fnFilterLeaf := by decide
theorem look_filterAnd : canonFns.lookup (.filter .and) = some fnFilterAnd := by decide
theorem look_filterOr : canonFns.lookup (.filter .or) = some fnFilterOr := by decide
theorem look_filterNot : canonFns.lookup (.filter .not) = some fnFilterNot := by decide
theorem look_filterNull : canonFns.lookup (.filter .null) = some fnFilterNull := by decide
theorem look_errLeaf : canonFns.lookup (.errM .filter) = some fnErrLeaf := by decide
theorem look_errAnd : canonFns.lookup (.errM .and) = some fnErrCombo := by decide
theorem look_errOr : canonFns.lookup (.errM .or) = some fnErrCombo := by decide
theorem look_errNot : canonFns.lookup (.errM .not) = some fnErrNot := by decide
theorem look_errNull : canonFns.lookup (.errM .null) = some fnErrNull := by decide
theorem look_ctorAnd : canonFns.lookup (.ctor .and) = some (fnCtorCombo .and) := by decide
theorem look_ctorOr : canonFns.lookup (.ctor .or) = some (fnCtorCombo .or) := by decide
theorem look_ctorNot : canonFns.lookup (.ctor .not) = some fnCtorNot := by decide
theorem look_ctorNull : canonFns.lookup (.ctor .null) = some fnCtorNull := by decide

/-! ## `Err()` and the constructors -/

theorem call_errLeaf (n : Nat) (l : Leaf) : callAt canonFns O (n+1) (.errM .filter) [.leaf l] = some (.err false) := by
  rw [callAt_succ O n _ _ look_errLeaf]; exec_simp [runFn, fnErrLeaf]

theorem call_errNull (n : Nat) (s : List Obj) (e : Bool) : callAt canonFns O (n+1) (.errM .null) [.struct .null s e] = some (.err false) := by
  rw [callAt_succ O n _ _ look_errNull]; exec_simp [runFn, fnErrNull]

theorem call_errAnd (n : Nat) (s : List Obj) (e : Bool) : callAt canonFns O (n+1) (.errM .and) [.struct .and s e] = some (.err e) := by
  rw [callAt_succ O n _ _ look_errAnd]; exec_simp [runFn, fnErrCombo]

theorem call_errOr (n : Nat) (s : List Obj) (e : Bool) : callAt canonFns O (n+1) (.errM .or) [.struct .or s e] = some (.err e) := by
  rw [callAt_succ O n _ _ look_errOr]; exec_simp [runFn, fnErrCombo]

theorem call_errNot (n : Nat) (o : Obj) (e b : Bool) (h : o.errM = some b) :
    callAt canonFns O (n+1) (.errM .not) [.struct .not [o] e] = some (.err b) := by
  rw [callAt_succ O n _ _ look_errNot]; exec_simp [runFn, fnErrNot, h]

theorem call_ctorNot (n : Nat) (o : Obj) : callAt canonFns O (n+1) (.ctor .not) [.obj o] = some (.struct .not [o] false) := by
  rw [callAt_succ O n _ _ look_ctorNot]; exec_simp [runFn, fnCtorNot]

theorem call_ctorNull (n : Nat) : callAt canonFns O (n+1) (.ctor .null) [] = some (.struct .null [] false) := by
  rw [callAt_succ O n _ _ look_ctorNull]; exec_simp [runFn, fnCtorNull]

theorem run_ctorCombo (n : Nat) (ty : DynTy) (os : List Obj) (hos : ∀ o ∈ os, ∃ b, o.errM = some b) :
    runFn (env O (n+1)) (fnCtorCombo ty) [.objs os] = some (.struct ty os (os.isEmpty || os.any errTrue)) := by
  cases os with
  | nil => exec_simp [runFn, fnCtorCombo]
  | cons o os =>
    have hne : (((os.length : Int) + 1) == 0) = false := by rw [beq_eq_false_iff_ne]; omega
    have := call_anyErr O n (o :: os) hos
    exec_simp [runFn, fnCtorCombo, hne, this]

theorem call_ctorAnd (n : Nat) (os : List Obj) (hos : ∀ o ∈ os, ∃ b, o.errM = some b) :
    callAt canonFns O (n+2) (.ctor .and) [.objs os] = some (.struct .and os (os.isEmpty || os.any errTrue)) := by
  rw [callAt_succ O (n+1) _ _ look_ctorAnd]; exact run_ctorCombo O n .and os hos

theorem call_ctorOr (n : Nat) (os : List Obj) (hos : ∀ o ∈ os, ∃ b, o.errM = some b) :
    callAt canonFns O (n+2) (.ctor .or) [.objs os] = some (.struct .or os (os.isEmpty || os.any errTrue)) := by
  rw [callAt_succ O (n+1) _ _ look_ctorOr]; exact run_ctorCombo O n .or os hos

/-! ## The interface values and the clause tree -/

def tyOf : Clause → DynTy
  | .leaf _ => .filter
  | .and _ => .and
  | .or _ => .or
  | .not _ => .not
  | .null => .null

/-- the interface value `o` behaves as the hand mirror says the clause `c` does -/
structure Rep (o : Obj) (c : Clause) : Prop where
  ty : o.ty = tyOf c
  leaf : ∀ l, c = .leaf l → o.leaf = l
  run : ∀ f, o.filterM f = some (c.filter f)
  err : o.errM = some c.hasErr

inductive Reps : List Obj → List Clause → Prop where
  | nil : Reps [] []
  | cons {o : Obj} {c : Clause} {os : List Obj} {cs : List Clause} : Rep o c → Reps os cs → Reps (o :: os) (c :: cs)

theorem rep_errs {os : List Obj} {cs : List Clause} (hr : Reps os cs) :
    (∀ o ∈ os, ∃ b, o.errM = some b) ∧ os.any errTrue = cs.any (·.hasErr) ∧ os.isEmpty = cs.isEmpty := by
  induction hr with
  | nil => simp
  | cons h _ ih =>
    obtain ⟨i1, i2, _⟩ := ih
    refine ⟨?_, ?_, rfl⟩
    · intro o ho
      rcases List.mem_cons.mp ho with rfl | ho
      · exact ⟨_, h.err⟩
      · exact i1 o ho
    · simp [errTrue, h.err, i2]

theorem filter_of_err (c : Clause) (f : Frame) (h : f.err = true) : c.filter f = f := by
  cases c with
  | leaf l => simp [Clause.filter, filterLeaves, h]
  | and cs => simp [Clause.filter, h]
  | or cs => simp [Clause.filter, h]
  | not c => cases c <;> simp [Clause.filter, h]
  | null => simp [Clause.filter]

/-! ## The `filter` methods -/

theorem call_filterLeaf (hO : ∀ l, (O l).Abstracts l) (n : Nat) (l : Leaf) (f : Frame) :
    callAt canonFns O (n+3) (.filter .filter) [.leaf l, .frame f] = some (.frame (filterLeaves f [l])) := by
  rw [callAt_succ O (n+2) _ _ look_filterLeaf]
  exec_simp [runFn, fnFilterLeaf, call_leaves O hO n]

theorem call_filterNull (n : Nat) (s : List Obj) (e : Bool) (f : Frame) :
    callAt canonFns O (n+1) (.filter .null) [.struct .null s e, .frame f] = some (.frame f) := by
  rw [callAt_succ O n _ _ look_filterNull]
  exec_simp [runFn, fnFilterNull]

theorem and_loop (Γ : Env) {os : List Obj} {cs : List Clause} (hr : Reps os cs) : ∀ (j : Nat) (σ : Store) (g : Frame),
    σ 2 = some (.ptr (some g)) →
    ∃ σ', loop (stepOf Γ none (some 3) andBody) (os.map .obj) j σ = .next σ' ∧ σ' 2 = some (.ptr (some (andLoop cs g))) := by
  induction hr with
  | nil => intro j σ g h; exact ⟨σ, rfl, by simpa [andLoop] using h⟩
  | @cons o c os cs h _ ih =>
    intro j σ g h2
    obtain ⟨σ', e, g2⟩ := ih (j+1) (((σ.set 3 (.obj o)).set 4 (.frame (c.filter g))).set 2 (.ptr (some (c.filter g)))) (c.filter g) (by simp [set_apply])
    exact ⟨σ', by exec_simp [stepOf, h2, h.run, e], by simpa [andLoop] using g2⟩

theorem call_filterAnd (n : Nat) {os : List Obj} {cs : List Clause} (hr : Reps os cs) (f : Frame) :
    callAt canonFns O (n+2) (.filter .and) [.struct .and os (cs.isEmpty || cs.any (·.hasErr)), .frame f] =
      some (.frame ((Clause.and cs).filter f)) := by
  rw [callAt_succ O (n+1) _ _ look_filterAnd]
  cases hf : f.err
  · cases he : (cs.isEmpty || cs.any (·.hasErr))
    · obtain ⟨σ', e, g2⟩ := and_loop (env O (n+1)) hr 0
        ((((Store.empty.set 0 (.struct .and os false)).set 1 (.frame f))).set 2 (.ptr (some f))) f (by simp [set_apply])
      exec_simp [runFn, fnFilterAnd, retIfFailed, retIfClauseErr, hf, call_errAnd, e, g2, Clause.filter, he]
    · exec_simp [runFn, fnFilterAnd, retIfFailed, retIfClauseErr, hf, call_errAnd, call_withErr, Clause.filter, he]
  · exec_simp [runFn, fnFilterAnd, retIfFailed, hf, Clause.filter]

/-! ### `OrClause.filter` -/

theorem orLoop_nonleaf (c : Clause) (cs : List Clause) (f : Frame) (pending : List Leaf) (acc : Option Frame) (h : tyOf c ≠ .filter) :
    orLoop (c :: cs) f pending acc =
      orLoop cs f [] (some (F.orFrames f (if pending.isEmpty then acc else some (F.orFrames f acc (filterLeaves f pending))) (c.filter f))) := by
  cases c with
  | leaf l => exact absurd rfl h
  | and cs' => simp [orLoop]
  | or cs' => simp [orLoop]
  | not c' => simp [orLoop]
  | null => simp [orLoop]

/-- a nested clause: the pending batch is flushed (one shared mask), then the clause is filtered on the whole frame -/
theorem or_step_other (hO : ∀ l, (O l).Abstracts l) (n : Nat) (f g : Frame) (o : Obj) (hty : o.ty ≠ .filter) (hrun : o.filterM f = some g)
    (j : Nat) (σ : Store) (pending : List Leaf) (acc : Option Frame)
    (h1 : σ 1 = some (.frame f)) (h2 : σ 2 = some (.leaves pending)) (h3 : σ 3 = some (.ptr acc)) :
    ∃ σ', stepOf (env O (n+2)) none (some 4) orClauseBody (.obj o) j σ = .next σ' ∧ σ' 1 = some (.frame f) ∧ σ' 2 = some (.leaves []) ∧
      σ' 3 = some (.ptr (some (F.orFrames f (if pending.isEmpty then acc else some (F.orFrames f acc (filterLeaves f pending))) g))) := by
  cases pending with
  | nil =>
    refine ⟨_, by exec_simp [stepOf, hty, h1, h2, h3, hrun, call_orFrames]; rfl, ?_, ?_, ?_⟩ <;> simp [set_apply, h1, h2]
  | cons p ps =>
    have hpos : (0 : Int) < (ps.length : Int) + 1 := by omega
    have hle : ¬ ((ps.length : Int) + 1 < 0) := by omega
    refine ⟨_, by exec_simp [stepOf, hty, flush, h1, h2, h3, hrun, hpos, hle, call_leaves O hO n, call_orFrames]; rfl, ?_, ?_, ?_⟩ <;>
      simp [set_apply, h1]

theorem or_loop (hO : ∀ l, (O l).Abstracts l) (n : Nat) (f : Frame) {os : List Obj} {cs : List Clause} (hr : Reps os cs) :
    ∀ (j : Nat) (σ : Store) (pending : List Leaf) (acc : Option Frame),
    σ 1 = some (.frame f) → σ 2 = some (.leaves pending) → σ 3 = some (.ptr acc) →
    ∃ σ' pending' acc', loop (stepOf (env O (n+2)) none (some 4) orClauseBody) (os.map .obj) j σ = .next σ' ∧
      σ' 1 = some (.frame f) ∧ σ' 2 = some (.leaves pending') ∧ σ' 3 = some (.ptr acc') ∧
      orLoop cs f pending acc = orLoop [] f pending' acc' ∧
      (pending' = [] → acc' = none → cs = [] ∧ pending = [] ∧ acc = none) := by
  induction hr with
  | nil => intro j σ pending acc h1 h2 h3; exact ⟨σ, pending, acc, rfl, h1, h2, h3, rfl, fun a b => ⟨rfl, a, b⟩⟩
  | @cons o c os cs h _ ih =>
    intro j σ pending acc h1 h2 h3
    by_cases hc : tyOf c = .filter
    · -- a plain filter joins the batch
      cases c with
      | leaf l =>
        have hl : o.leaf = l := h.leaf l rfl
        have hty : o.ty = .filter := h.ty
        obtain ⟨σ', p', a', e, g1, g2, g3, g4, g5⟩ := ih (j+1) (((σ.set 4 (.obj o)).set 5 (.leaf l)).set 2 (.leaves (pending ++ [l]))) (pending ++ [l]) acc
          (by simp [set_apply, h1]) (by simp [set_apply]) (by simp [set_apply, h3])
        refine ⟨σ', p', a', by exec_simp [stepOf, hty, hl, h2, e], g1, g2, g3, by simpa [orLoop] using g4, ?_⟩
        intro a b
        have := (g5 a b).2.1
        simp at this
      | and _ => cases hc
      | or _ => cases hc
      | not _ => cases hc
      | null => cases hc
    · have hty : o.ty ≠ .filter := by rw [h.ty]; exact hc
      obtain ⟨σ1, e1, k1, k2, k3⟩ := or_step_other O hO n f (c.filter f) o hty (h.run f) j σ pending acc h1 h2 h3
      obtain ⟨σ', p', a', e, g1, g2, g3, g4, g5⟩ := ih (j+1) σ1 [] _ k1 k2 k3
      refine ⟨σ', p', a', ?_, g1, g2, g3, by rw [orLoop_nonleaf c cs f pending acc hc]; exact g4, ?_⟩
      · simp only [List.map_cons, loop, e1, e]
      · intro a b
        have := (g5 a b).2.2
        simp at this

theorem call_filterOr (hO : ∀ l, (O l).Abstracts l) (n : Nat) {os : List Obj} {cs : List Clause} (hr : Reps os cs) (f : Frame) :
    callAt canonFns O (n+3) (.filter .or) [.struct .or os (cs.isEmpty || cs.any (·.hasErr)), .frame f] =
      some (.frame ((Clause.or cs).filter f)) := by
  rw [callAt_succ O (n+2) _ _ look_filterOr]
  cases hf : f.err
  · cases he : (cs.isEmpty || cs.any (·.hasErr))
    · obtain ⟨σ', p', a', e, g1, g2, g3, g4, g5⟩ := or_loop O hO n f hr 0
        ((((Store.empty.set 0 (.struct .or os false)).set 1 (.frame f)).set 2 (.leaves [])).set 3 (.ptr none)) [] none
        (by simp [set_apply]) (by simp [set_apply]) (by simp [set_apply])
      have hne : cs ≠ [] := by intro h; simp [h] at he
      cases p' with
      | nil =>
        cases a' with
        | none => exact absurd (g5 rfl rfl).1 hne
        | some a =>
          exec_simp [runFn, fnFilterOr, retIfFailed, retIfClauseErr, hf, call_errOr, e, g2, g3, Clause.filter, he, g4, orLoop]
      | cons p ps =>
        have hpos : (0 : Int) < (ps.length : Int) + 1 := by omega
        exec_simp [runFn, fnFilterOr, retIfFailed, retIfClauseErr, hf, call_errOr, e, g1, g2, g3, Clause.filter, he, g4, orLoop, flush, hpos,
          call_leaves O hO n, call_orFrames]
    · exec_simp [runFn, fnFilterOr, retIfFailed, retIfClauseErr, hf, call_errOr, call_withErr, Clause.filter, he]
  · exec_simp [runFn, fnFilterOr, retIfFailed, hf, Clause.filter]

/-! ### The mirror never lengthens the index (so the capacity `qf.index.Len()-newQf.index.Len()` of `NotClause.filter` is not negative) -/

theorem idxFilter_length_le : ∀ (ix : List Pos) (m : List Bool), (idxFilter ix m).length ≤ ix.length := by
  intro ix
  induction ix with
  | nil => intro m; simp [idxFilter]
  | cons i ix ih =>
    intro m
    cases m with
    | nil => simp [idxFilter]
    | cons b m => cases b <;> simp [idxFilter] <;> have := ih m <;> omega

theorem filterLeaves_length_le (f : Frame) (ls : List Leaf) : (filterLeaves f ls).index.length ≤ f.index.length := by
  unfold filterLeaves
  cases f.err
  · simp only [Bool.false_eq_true, if_false]
    cases ls.foldlM (leafStep f.index) (List.replicate f.index.length false) with
    | none => simp
    | some m => exact idxFilter_length_le _ _
  · simp

theorem orMerge_length_le : ∀ (orig l r : List Pos), (orMerge orig l r).length ≤ orig.length := by
  intro orig
  induction orig with
  | nil => intro l r; simp [orMerge]
  | cons x orig ih =>
    intro l r
    simp only [orMerge]
    split
    · simp only [List.length_cons]; have := ih (if (l.head? == some x) = true then l.tail else l) (if (r.head? == some x) = true then r.tail else r); omega
    · simp only [List.length_cons]; have := ih (if (l.head? == some x) = true then l.tail else l) (if (r.head? == some x) = true then r.tail else r); omega

theorem notMerge_length_le : ∀ (orig s : List Pos), (notMerge orig s).length ≤ orig.length := by
  intro orig
  induction orig with
  | nil => intro s; simp [notMerge]
  | cons x orig ih =>
    intro s
    simp only [notMerge]
    split
    · have := ih s.tail; simp only [List.length_cons]; omega
    · have := ih s; simp only [List.length_cons]; omega

theorem orFrames_length_le (orig rhs : Frame) (lhs : Option Frame) (hl : ∀ g, lhs = some g → g.index.length ≤ orig.index.length)
    (hr : rhs.index.length ≤ orig.index.length) : (F.orFrames orig lhs rhs).index.length ≤ orig.index.length := by
  cases lhs with
  | none => exact hr
  | some g =>
    simp only [F.orFrames]
    split
    · exact hl g rfl
    · split
      · exact hr
      · exact orMerge_length_le _ _ _

def Shrinks (c : Clause) : Prop := ∀ f : Frame, (c.filter f).index.length ≤ f.index.length

theorem andLoop_length_le (cs : List Clause) (h : ∀ c ∈ cs, Shrinks c) : ∀ f : Frame, (andLoop cs f).index.length ≤ f.index.length := by
  induction cs with
  | nil => intro f; simp [andLoop]
  | cons c cs ih =>
    intro f
    simp only [andLoop]
    have h1 := ih (fun c hc => h c (by simp [hc])) (c.filter f)
    have h2 := h c (by simp) f
    omega

theorem orLoop_length_le (f : Frame) (cs : List Clause) (h : ∀ c ∈ cs, Shrinks c) : ∀ (pending : List Leaf) (acc : Option Frame),
    (∀ g, acc = some g → g.index.length ≤ f.index.length) → (orLoop cs f pending acc).index.length ≤ f.index.length := by
  induction cs with
  | nil =>
    intro pending acc ha
    simp only [orLoop]
    cases hp : pending.isEmpty
    · simp only [Bool.false_eq_true, if_false, Option.getD_some]
      exact orFrames_length_le _ _ _ ha (filterLeaves_length_le _ _)
    · simp only [if_true]
      cases acc with
      | none => simp
      | some g => exact ha g rfl
  | cons c cs ih =>
    intro pending acc ha
    have ih' := ih (fun c hc => h c (by simp [hc]))
    by_cases hc : tyOf c = .filter
    · cases c with
      | leaf l => simp only [orLoop]; exact ih' _ _ ha
      | and _ => cases hc
      | or _ => cases hc
      | not _ => cases hc
      | null => cases hc
    · rw [orLoop_nonleaf c cs f pending acc hc]
      apply ih'
      intro g hg
      cases hg
      apply orFrames_length_le
      · intro g hg
        cases hp : pending.isEmpty
        · simp only [hp, Bool.false_eq_true, if_false, Option.some.injEq] at hg
          subst hg
          exact orFrames_length_le _ _ _ ha (filterLeaves_length_le _ _)
        · simp only [hp, if_true] at hg
          exact ha g hg
      · exact h c (by simp) f

theorem filter_length_le_aux (n : Nat) : ∀ c : Clause, sizeOf c ≤ n → Shrinks c := by
  induction n with
  | zero => intro c h; cases c <;> simp at h <;> omega
  | succ n ih =>
    intro c hsz f
    match c with
    | .leaf l => simp only [Clause.filter]; exact filterLeaves_length_le _ _
    | .null => simp [Clause.filter]
    | .and cs =>
      simp only [Clause.filter]
      split
      · exact Nat.le_refl _
      · split
        · exact Nat.le_refl _
        · exact andLoop_length_le cs (fun c hc => ih c (by have := List.sizeOf_lt_of_mem hc; simp at hsz; omega)) f
    | .or cs =>
      simp only [Clause.filter]
      split
      · exact Nat.le_refl _
      · split
        · exact Nat.le_refl _
        · exact orLoop_length_le f cs (fun c hc => ih c (by have := List.sizeOf_lt_of_mem hc; simp at hsz; omega)) [] none (by intro g h; cases h)
    | .not c =>
      have hc : Shrinks c := ih c (by simp at hsz; omega)
      cases c with
      | leaf l =>
        simp only [Clause.filter]
        split
        · exact Nat.le_refl _
        · split
          · exact Nat.le_refl _
          · exact filterLeaves_length_le _ _
      | null =>
        rw [Clause.filter]
        · split
          · exact Nat.le_refl _
          · split
            · exact Nat.le_refl _
            · simp only []
              split
              · exact hc f
              · exact notMerge_length_le _ _
        · intro l h; cases h
      | and _ | or _ | not _ =>
        all_goals
          rw [Clause.filter]
          · split
            · exact Nat.le_refl _
            · split
              · exact Nat.le_refl _
              · simp only []
                split
                · exact hc f
                · exact notMerge_length_le _ _
          · intro l h; cases h

/-- whatever the kernels do, the mirror's result never has more rows than the frame -/
theorem filter_length_le (c : Clause) (f : Frame) : (c.filter f).index.length ≤ f.index.length :=
  filter_length_le_aux _ c (Nat.le_refl _) f

/-! ### `NotClause.filter` -/

theorem eval_notCond (n : Nat) (σ : Store) (G : Frame) (i : Nat) (y : Pos)
    (h4 : σ 4 = some (.frame G)) (h6 : σ 6 = some (.int i)) (h7 : σ 7 = some (.pos y)) :
    notCond.eval (env O (n+1)) σ = some (.bool ((G.index.drop i).head? == some y)) := by
  have hnn : ¬ ((i : Int) < 0) := by omega
  rw [List.head?_drop]
  by_cases hi : i < G.index.length
  · simp [notCond, E.eval, h4, h6, h7, call_ixLen, Val.at, COp.holds, hi, hnn, List.getElem?_eq_getElem hi, natCast_beq]
  · have : G.index[i]? = none := by simp; omega
    simp [notCond, E.eval, h4, h6, h7, call_ixLen, Val.at, COp.holds, hi, this]

theorem not_loop (n : Nat) (G : Frame) (xs : List Pos) : ∀ (c : Nat) (σ : Store) (acc : List Pos) (i : Nat),
    σ 4 = some (.frame G) → σ 5 = some (.ix acc) → σ 6 = some (.int i) →
    ∃ σ', loop (stepOf (env O (n+1)) none (some 7) notBody) (xs.map .pos) c σ = .next σ' ∧ σ' 1 = σ 1 ∧
      σ' 5 = some (.ix (acc ++ notMerge xs (G.index.drop i))) := by
  induction xs with
  | nil => intro c σ acc i _ h5 _; exact ⟨σ, rfl, rfl, by simp [notMerge, h5]⟩
  | cons x xs ih =>
    intro c σ acc i h4 h5 h6
    have e1 := eval_notCond O n (σ.set 7 (.pos x)) G i x (by simp [set_apply, h4]) (by simp [set_apply, h6]) (by simp [set_apply])
    cases hh : ((G.index.drop i).head? == some x)
    · obtain ⟨σ', g1, g2, g3⟩ := ih (c+1) ((σ.set 7 (.pos x)).set 5 (.ix (acc ++ [x]))) (acc ++ [x]) i (by simp [set_apply, h4]) (by simp [set_apply])
        (by simp [set_apply, h6])
      rw [hh] at e1
      refine ⟨σ', by exec_simp [stepOf, e1, h5, g1], by simp [g2, set_apply], ?_⟩
      simp only [g3, notMerge, hh]; simp
    · obtain ⟨σ', g1, g2, g3⟩ := ih (c+1) ((σ.set 7 (.pos x)).set 6 (.int ((i : Int) + 1))) acc (i+1) (by simp [set_apply, h4]) (by simp [set_apply, h5])
        (by simp [set_apply])
      rw [hh] at e1
      refine ⟨σ', by exec_simp [stepOf, e1, h6, g1], by simp [g2, set_apply], ?_⟩
      simp only [g3, notMerge, hh]; simp [List.tail_drop]

theorem not_filter_nonleaf (c : Clause) (f : Frame) (hc : tyOf c ≠ .filter) :
    (Clause.not c).filter f =
      (if f.err then f else if c.hasErr then { f with err := true } else
        if (c.filter f).err then c.filter f else { f with index := notMerge f.index (c.filter f).index }) := by
  generalize hg : c.filter f = g
  cases c with
  | leaf l => exact absurd rfl hc
  | and cs => rw [Clause.filter]; simp [hg]; intro l h; cases h
  | or cs => rw [Clause.filter]; simp [hg]; intro l h; cases h
  | not c' => rw [Clause.filter]; simp [hg]; intro l h; cases h
  | null => rw [Clause.filter]; simp [hg]; intro l h; cases h

theorem call_filterNot (hO : ∀ l, (O l).Abstracts l) (n : Nat) (o : Obj) (c : Clause) (h : Rep o c) (e : Bool) (f : Frame) :
    callAt canonFns O (n+3) (.filter .not) [.struct .not [o] e, .frame f] = some (.frame ((Clause.not c).filter f)) := by
  rw [callAt_succ O (n+2) _ _ look_filterNot]
  cases hf : f.err
  · cases he : c.hasErr
    · by_cases hc : tyOf c = .filter
      · cases c with
        | leaf l =>
          have hl : o.leaf = l := h.leaf l rfl
          have hty : o.ty = .filter := h.ty
          exec_simp [runFn, fnFilterNot, retIfFailed, retIfClauseErr, hf, call_errNot O (n+1) o e _ h.err, he, hty, hl, call_leaves O hO n,
            Clause.filter]
        | and _ => cases hc
        | or _ => cases hc
        | not _ => cases hc
        | null => cases hc
      · have hty : o.ty ≠ .filter := by rw [h.ty]; exact hc
        have hmir : (Clause.not c).filter f =
            (if (c.filter f).err then c.filter f else { f with index := notMerge f.index (c.filter f).index }) := by
          rw [not_filter_nonleaf c f hc]; simp [hf, he]
        rw [hmir]
        cases hg : (c.filter f).err
        · have hlen := filter_length_le c f
          have hcap : ¬ ((f.index.length : Int) - ((c.filter f).index.length : Int) < 0) := by omega
          obtain ⟨σ', g1, g2, g3⟩ := not_loop O (n+1) (c.filter f) f.index 0
            (((((Store.empty.set 0 (.struct .not [o] e)).set 1 (.frame f)).set 4 (.frame (c.filter f))).set 5 (.ix [])).set 6 (.int 0)) [] 0
            (by simp [set_apply]) (by simp [set_apply]) (by simp [set_apply])
          simp [set_apply] at g2
          exec_simp [runFn, fnFilterNot, retIfFailed, retIfClauseErr, hf, call_errNot O (n+1) o e _ h.err, he, hty, h.run, hg, call_ixLen, hcap,
            g1, g2, g3, call_withIndex]
        · exec_simp [runFn, fnFilterNot, retIfFailed, retIfClauseErr, hf, call_errNot O (n+1) o e _ h.err, he, hty, h.run, hg]
    · have : (Clause.not c).filter f = { f with err := true } := by
        cases c <;> simp [Clause.filter, hf, he]
      rw [this]
      exec_simp [runFn, fnFilterNot, retIfFailed, retIfClauseErr, hf, call_errNot O (n+1) o e _ h.err, he, call_withErr]
  · rw [filter_of_err _ _ hf]
    exec_simp [runFn, fnFilterNot, retIfFailed, hf]

/-! ## The clause tree as Go values -/

section main
variable (hO : ∀ l, (O l).Abstracts l)
include hO

omit hO in
theorem mkObj_of_construct (call : FnId → List Val → Option Val) (ty : DynTy) (leaf : Leaf) (subs s : List Obj) (e : Bool)
    (h : construct call ty subs = some (s, e)) :
    mkObj call ty leaf subs = some (Obj.mk ty leaf s e
      (fun f => asFrame (call (.filter ty) [recvOf ty leaf s e, .frame f])) (asErr (call (.errM ty) [recvOf ty leaf s e]))) := by
  simp [mkObj, h]

theorem mkObj_leaf (l : Leaf) : ∃ o, mkObj (callAt canonFns O depth) .filter l [] = some o ∧ Rep o (.leaf l) := by
  refine ⟨_, mkObj_of_construct _ _ _ _ [] false rfl, ⟨rfl, fun l' h => (by cases h; rfl), fun f => ?_, ?_⟩⟩
  · simp [Obj.filterM, asFrame, recvOf, depth, call_filterLeaf O hO 1, Clause.filter]
  · simp [Obj.errM, asErr, recvOf, depth, call_errLeaf O 3]

theorem mkObj_null : ∃ o, mkObj (callAt canonFns O depth) .null default [] = some o ∧ Rep o .null := by
  have hc : construct (callAt canonFns O depth) .null [] = some ([], false) := by simp [construct, depth, call_ctorNull O 3]
  refine ⟨_, mkObj_of_construct _ _ _ _ _ _ hc, ⟨rfl, fun l' h => (by cases h), fun f => ?_, ?_⟩⟩
  · simp [Obj.filterM, asFrame, recvOf, depth, call_filterNull O 3, Clause.filter]
  · simp [Obj.errM, asErr, recvOf, depth, call_errNull O 3]

theorem mkObj_not (o : Obj) (c : Clause) (h : Rep o c) :
    ∃ o', mkObj (callAt canonFns O depth) .not default [o] = some o' ∧ Rep o' (.not c) := by
  have hc : construct (callAt canonFns O depth) .not [o] = some ([o], false) := by simp [construct, depth, call_ctorNot O 3]
  refine ⟨_, mkObj_of_construct _ _ _ _ _ _ hc, ⟨rfl, fun l' h => (by cases h), fun f => ?_, ?_⟩⟩
  · simp [Obj.filterM, asFrame, recvOf, depth, call_filterNot O hO 1 o c h]
  · simp [Obj.errM, asErr, recvOf, depth, call_errNot O 3 o false _ h.err]

theorem mkObj_and (os : List Obj) (cs : List Clause) (hr : Reps os cs) :
    ∃ o, mkObj (callAt canonFns O depth) .and default os = some o ∧ Rep o (.and cs) := by
  obtain ⟨e1, e2, e3⟩ := rep_errs hr
  have hc : construct (callAt canonFns O depth) .and os = some (os, cs.isEmpty || cs.any (·.hasErr)) := by
    simp [construct, depth, call_ctorAnd O 2 os e1, e2, e3]
  refine ⟨_, mkObj_of_construct _ _ _ _ _ _ hc, ⟨rfl, fun l' h => (by cases h), fun f => ?_, ?_⟩⟩
  · simp [Obj.filterM, asFrame, recvOf, depth, call_filterAnd O 2 hr]
  · simp [Obj.errM, asErr, recvOf, depth, call_errAnd O 3]

theorem mkObj_or (os : List Obj) (cs : List Clause) (hr : Reps os cs) :
    ∃ o, mkObj (callAt canonFns O depth) .or default os = some o ∧ Rep o (.or cs) := by
  obtain ⟨e1, e2, e3⟩ := rep_errs hr
  have hc : construct (callAt canonFns O depth) .or os = some (os, cs.isEmpty || cs.any (·.hasErr)) := by
    simp [construct, depth, call_ctorOr O 2 os e1, e2, e3]
  refine ⟨_, mkObj_of_construct _ _ _ _ _ _ hc, ⟨rfl, fun l' h => (by cases h), fun f => ?_, ?_⟩⟩
  · simp [Obj.filterM, asFrame, recvOf, depth, call_filterOr O hO 1 hr]
  · simp [Obj.errM, asErr, recvOf, depth, call_errOr O 3]

mutual
theorem objOf_rep : ∀ c : Clause, ∃ o, objOf (callAt canonFns O depth) c = some o ∧ Rep o c
  | .leaf l => by simpa [objOf] using mkObj_leaf O hO l
  | .null => by simpa [objOf] using mkObj_null O hO
  | .not c => by
    obtain ⟨o, e, h⟩ := objOf_rep c
    simpa [objOf, e] using mkObj_not O hO o c h
  | .and cs => by
    obtain ⟨os, e, h⟩ := objsOf_rep cs
    simpa [objOf, e] using mkObj_and O hO os cs h
  | .or cs => by
    obtain ⟨os, e, h⟩ := objsOf_rep cs
    simpa [objOf, e] using mkObj_or O hO os cs h
theorem objsOf_rep : ∀ cs : List Clause, ∃ os, objsOf (callAt canonFns O depth) cs = some os ∧ Reps os cs
  | [] => ⟨[], rfl, .nil⟩
  | c :: cs => by
    obtain ⟨o, e, h⟩ := objOf_rep c
    obtain ⟨os, e', h'⟩ := objsOf_rep cs
    exact ⟨o :: os, by simp [objsOf, e, e'], .cons h h'⟩
end

theorem canon_clause_filter_semantics (c : Clause) (f : Frame) : interp canonFns O c f = some (c.filter f) := by
  obtain ⟨o, e, h⟩ := objOf_rep O hO c
  have hp : callAt canonFns O depth .publicFilter [.frame f, .obj o] = some (.frame (c.filter f)) := by
    show callAt canonFns O (3+1) .publicFilter _ = _
    rw [callAt_succ O 3 _ _ look_publicFilter]
    cases hf : f.err
    · exec_simp [runFn, fnPublicFilter, retIfFailed, hf, h.run]
    · rw [filter_of_err _ _ hf]
      exec_simp [runFn, fnPublicFilter, retIfFailed, hf]
  simp [interp, e, hp, asFrame]

/-- **The clause evaluation regenerated from today's source is the hand mirror.** For every clause tree, every frame
(failed or not, any index) and every behaviour of the calls made for the leaves that `F.Leaf` abstracts (`hO`), running
`qf.Filter(clause)` through the functions extracted today — `QFrame.Filter`, the `filter` / `Err` methods and the
constructors of the clause types, `anyFilterErr`, `QFrame.filter` with its shared mask and its handling of `Inverse`,
`orFrames`, `withErr` / `withIndex`, `index.NewBool` / `Int.Filter` / `Len`, `integer.Max` — has a meaning (no panic, nothing
opaque) and returns exactly the frame (index and error flag) `F.Clause.filter` returns. -/
theorem gen_clause_filter_semantics (c : Clause) (f : Frame) : interp Gen.clauseFns O c f = some (c.filter f) := by
  rw [gen_clauses_canon]; exact canon_clause_filter_semantics O hO c f

end main

/-- the hypothesis of `gen_clause_filter_semantics` is satisfiable: the simplest calls with the abstraction -/
theorem gen_clause_filter_semantics_ofLeaf (c : Clause) (f : Frame) :
    interp Gen.clauseFns LeafCalls.ofLeaf c f = some (c.filter f) :=
  gen_clause_filter_semantics _ LeafCalls.ofLeaf_abstracts c f

/-! ## `filter_refines` and `mirrorFilter_eq_spec_today` speak about the regenerated code -/

/-- `F.filter_refines` for the extracted code: sound kernels, a well-typed clause, a duplicate-free index and no error ⟹
`qf.Filter(clause)` as extracted today keeps exactly the rows that satisfy the clause, in order, without error. -/
theorem gen_filter_refines (hO : ∀ l, (O l).Abstracts l) (c : Clause) (hs : c.sound) (hw : c.wellTyped = true)
    (f : Frame) (hnd : f.index.Nodup) (he : f.err = false) :
    interp Gen.clauseFns O c f = some { index := f.index.filter c.sem, err := false } := by
  rw [gen_clause_filter_semantics O hO]
  obtain ⟨e, i⟩ := F.filter_refines c hs hw f hnd he
  cases hr : c.filter f with
  | mk ix er => rw [hr] at e i; simp only at e i; rw [e, i]

/-! ## Witnesses: what the statement rules out -/

/-- the table with one function replaced -/
def withFn (id : FnId) (fn : Fn) : List (FnId × Fn) := canonFns.map (fun p => if p.1 = id then (id, fn) else p)

/-- `some (c.filter f)` as the extracted code computes it (the mirror itself is defined by well-founded recursion and
does not reduce; the theorem turns it into something `decide` can run) -/
theorem mirror_eq_canon (c : Clause) (f : Frame) : some (c.filter f) = interp canonFns LeafCalls.ofLeaf c f :=
  (canon_clause_filter_semantics _ LeafCalls.ofLeaf_abstracts c f).symm

def fr3 : Frame := { index := [0, 1, 2] }
/-- `x = first`: a guarded kernel; `!=` is in `filter.Inverse` -/
def eq0 : Leaf := { shape := .guarded, pred := fun p => p == 0, inv := some (.guarded, fun p => p != 0) }
/-- `x > first`: a guarded kernel without an entry in `filter.Inverse` -/
def gt0 : Leaf := { shape := .guarded, pred := fun p => p > 0 }
def bad : Leaf := { shape := .guarded, pred := fun _ => false, err := true }
/-- the shape of the original int `isnull` kernel: it overwrites the mask -/
def wipe : Leaf := { shape := .setAll false, pred := fun _ => false }

/-- today's code on these inputs -/
example : interp canonFns LeafCalls.ofLeaf (.not (.leaf gt0)) fr3 = some { index := [0] } := by decide
example : interp canonFns LeafCalls.ofLeaf (.not (.leaf eq0)) fr3 = some { index := [1, 2] } := by decide
example : interp canonFns LeafCalls.ofLeaf (.or [.leaf eq0, .not (.leaf eq0), .leaf gt0]) fr3 = some { index := [0, 1, 2] } := by decide
example : interp canonFns LeafCalls.ofLeaf (.and [.leaf bad, .leaf eq0]) fr3 = some { index := [0, 1, 2], err := true } := by decide
example : interp canonFns LeafCalls.ofLeaf (.and []) fr3 = some { index := [0, 1, 2], err := true } := by decide
example : interp canonFns LeafCalls.ofLeaf (.not (.or [.and []])) fr3 = some { index := [0, 1, 2], err := true } := by decide

/-- 1. `Not(leaf)` that does not flip `Inverse` (`f.Inverse = !f.Inverse` dropped): the leaf's own rows come back. -/
def mutNotNoFlip : Fn := { fnFilterNot with body := S.block [
  retIfFailed 1, retIfClauseErr .not,
  S.ifIs (E.subClause (E.var 0)) DynTy.filter 2
    (S.block [S.define 3 (E.var 2), S.ret (E.call2 FnId.leaves (E.var 1) (E.single (E.var 3)))]) (S.block []),
  S.define 4 (E.callFilter (E.subClause (E.var 0)) (E.var 1)), retIfFailed 4,
  S.define 5 (E.makeIx (E.sub (E.call1 FnId.ixLen (E.frameIndex (E.var 1))) (E.call1 FnId.ixLen (E.frameIndex (E.var 4))))),
  S.define 6 (E.int 0), S.range (E.frameIndex (E.var 1)) none (some 7) notBody,
  S.ret (E.call2 FnId.withIndex (E.var 1) (E.var 5))] }
example : interp (withFn (.filter .not) mutNotNoFlip) LeafCalls.ofLeaf (.not (.leaf gt0)) fr3 ≠ some ((Clause.not (.leaf gt0)).filter fr3) := by
  rw [mirror_eq_canon]; decide


/-- `QFrame.filter` with its parts as parameters (the canonical ones give `fnLeaves` back) -/
def fnLeavesWith (guard : List S) (shortcutCmp : KCmp) (fallbackValue : E) : Fn := { params := 2, body := S.block (guard ++ [
  S.define 2 (E.call1 FnId.newBool (E.call1 FnId.ixLen (E.frameIndex (E.var 0)))),
  S.range (E.var 1) none (some 3) (S.block (leafPrefix ++ [
    S.define 9 E.nilErr,
    S.ite (E.inverseFlag (E.var 3))
      (S.block [
        S.define 10 (E.bool false),
        S.ifCmpIsString 3 11 (S.block [
          S.ifInverseEntry 11 12 (S.block [
            S.kernel 9 4 (E.frameIndex (E.var 0)) shortcutCmp 3 2,
            S.ite (E.isNil (E.var 9)) (S.block [S.assign 10 (E.bool true)]) (S.block [])])]),
        S.ite (E.not (E.var 10))
          (S.block [
            S.define 13 (E.call1 FnId.newBool (E.call1 FnId.maskLen (E.var 2))),
            S.kernel 9 4 (E.frameIndex (E.var 0)) KCmp.own 3 13,
            S.ite (E.isNil (E.var 9)) (S.block [S.rangeLive 2 (some 14) (some 15)
              (S.block [S.ite (E.not (E.var 15)) (S.block [S.setAt 2 (E.var 14) fallbackValue]) (S.block [])])]) (S.block [])])
          (S.block [])])
      (S.block [S.kernel 9 4 (E.frameIndex (E.var 0)) KCmp.own 3 2]),
    S.ite (E.notNil (E.var 9)) (S.block [retNewErr]) (S.block [])])),
  S.ret (E.call2 FnId.withIndex (E.var 0) (E.call2 FnId.ixFilter (E.frameIndex (E.var 0)) (E.var 2)))]) }

example : fnLeavesWith [retIfFailed 0] (KCmp.inverseVia 12) (E.not (E.at (E.var 13) (E.var 14))) = fnLeaves := by decide

/-- 2. the fallback that does not complement (`bIndex[i] = invBIndex[i]`): `Not(x > c)` — `>` is not in `filter.Inverse` —
returns the rows of `x > c`. -/
example : interp (withFn .leaves (fnLeavesWith [retIfFailed 0] (KCmp.inverseVia 12) (E.at (E.var 13) (E.var 14)))) LeafCalls.ofLeaf
    (.not (.leaf gt0)) fr3 ≠ some ((Clause.not (.leaf gt0)).filter fr3) := by
  rw [mirror_eq_canon]; decide

/-- 3. the shortcut that hands the comparator itself to the kernel instead of its entry in `filter.Inverse`: `Not(x = c)`
returns the rows of `x = c`. -/
example : interp (withFn .leaves (fnLeavesWith [retIfFailed 0] KCmp.own (E.not (E.at (E.var 13) (E.var 14))))) LeafCalls.ofLeaf
    (.not (.leaf eq0)) fr3 ≠ some ((Clause.not (.leaf eq0)).filter fr3) := by
  rw [mirror_eq_canon]; decide

/-- 4. an And that does not stop at an error: `QFrame.filter` without `if qf.Err != nil { return qf }` goes on narrowing the
index of a frame that has already failed. -/
example : interp (withFn .leaves (fnLeavesWith [] (KCmp.inverseVia 12) (E.not (E.at (E.var 13) (E.var 14))))) LeafCalls.ofLeaf
    (.and [.leaf bad, .leaf eq0]) fr3 ≠ some ((Clause.and [.leaf bad, .leaf eq0]).filter fr3) := by
  rw [mirror_eq_canon]; decide

/-- 5. `AndClause.filter` without `if c.Err() != nil { … }`: the empty And selects every row instead of failing. -/
def mutAndNoErrCheck : Fn := { params := 2, body := S.block [
  retIfFailed 1, S.define 2 (E.addr (E.var 1)), S.range (E.subClauses (E.var 0)) none (some 3) andBody, S.ret (E.deref (E.var 2))] }
example : interp (withFn (.filter .and) mutAndNoErrCheck) LeafCalls.ofLeaf (.and []) fr3 ≠ some ((Clause.and []).filter fr3) := by
  rw [mirror_eq_canon]; decide

/-- 6. `And` that does not record the errors of its sub-clauses (`err: nil` instead of `anyFilterErr(clauses)`): the failure
of a nested clause still surfaces, but only after the clauses in front of it have narrowed the index. -/
def mutCtorNoChildErr : Fn := { params := 1, body := S.block [
  S.ite (E.cmp COp.eq (E.len (E.var 0)) (E.int 0)) (S.block [S.ret (E.mkCombo .and E.noSubs E.newErr)]) (S.block []),
  S.ret (E.mkCombo .and (E.var 0) E.nilErr)] }
example : interp (withFn (.ctor .and) mutCtorNoChildErr) LeafCalls.ofLeaf (.and [.leaf eq0, .and []]) fr3 ≠
    some ((Clause.and [.leaf eq0, .and []]).filter fr3) := by
  rw [mirror_eq_canon]; decide

/-- `OrClause.filter` with the else-branch of the loop as a parameter -/
def fnFilterOrWith (nested : List S) : Fn := { params := 2, body := S.block [
  retIfFailed 1, retIfClauseErr .or, S.define 2 E.emptyLeaves, S.define 3 E.nilPtr,
  S.range (E.subClauses (E.var 0)) none (some 4) (S.block [S.ifIs (E.var 4) DynTy.filter 5
    (S.block [S.assign 2 (E.snoc (E.var 2) (E.var 5))]) (S.block nested)]),
  S.ite (E.cmp COp.gt (E.len (E.var 2)) (E.int 0)) (S.block (flush 8)) (S.block []),
  S.ret (E.deref (E.var 3))] }

def nestedCall : List S := [
  S.define 7 (E.callFilter (E.var 4) (E.var 1)),
  S.assign 3 (E.call3 FnId.orFrames (E.addr (E.var 1)) (E.var 3) (E.addr (E.var 7)))]

example : fnFilterOrWith (S.ite (E.cmp COp.gt (E.len (E.var 2)) (E.int 0)) (S.block (flush 6 ++ [S.assign 2 (E.truncate (E.var 2) (E.int 0))]))
    (S.block []) :: nestedCall) = fnFilterOr := by decide

/-- 7. an Or that keeps ONE batch across a nested clause (no flush in front of it): with kernels that only add to the mask
nothing changes, but a kernel that overwrites the mask (the shape of the original int `isnull`) now also wipes the rows
of the filters in front of the nested clause. -/
example : interp (withFn (.filter .or) (fnFilterOrWith nestedCall)) LeafCalls.ofLeaf (.or [.leaf eq0, .not (.leaf eq0), .leaf wipe]) fr3 ≠
    some ((Clause.or [.leaf eq0, .not (.leaf eq0), .leaf wipe]).filter fr3) := by
  rw [mirror_eq_canon]; decide
example : interp (withFn (.filter .or) (fnFilterOrWith nestedCall)) LeafCalls.ofLeaf (.or [.leaf eq0, .not (.leaf eq0), .leaf gt0]) fr3 =
    some ((Clause.or [.leaf eq0, .not (.leaf eq0), .leaf gt0]).filter fr3) := by
  rw [mirror_eq_canon]; decide

/-- 8. an Or that flushes but does not empty the batch (`filters = filters[:0]` dropped): the stale filters are evaluated
again in the next batch, on a mask whose result is united with theirs anyway — NOT a change of behaviour (here even with
the overwriting kernel); `gen_clauses_canon` fails on it all the same (a conservative alarm). -/
def staleBatch : List S :=
  S.ite (E.cmp COp.gt (E.len (E.var 2)) (E.int 0)) (S.block (flush 6)) (S.block []) :: nestedCall
example : interp (withFn (.filter .or) (fnFilterOrWith staleBatch)) LeafCalls.ofLeaf (.or [.leaf eq0, .not (.leaf eq0), .leaf wipe]) fr3 =
    some ((Clause.or [.leaf eq0, .not (.leaf eq0), .leaf wipe]).filter fr3) := by
  rw [mirror_eq_canon]; decide
example : interp (withFn (.filter .or) (fnFilterOrWith staleBatch)) LeafCalls.ofLeaf (.or [.leaf wipe, .null, .leaf gt0, .and [.leaf eq0], .leaf eq0]) fr3 =
    some ((Clause.or [.leaf wipe, .null, .leaf gt0, .and [.leaf eq0], .leaf eq0]).filter fr3) := by
  rw [mirror_eq_canon]; decide
example : withFn (.filter .or) (fnFilterOrWith staleBatch) ≠ canonFns := by decide

/-- 9. `orFrames` that forgets to advance the right cursor: a row both sides kept blocks the rest of the right side. -/
def mutOrFramesCursor : Fn := { fnOrFrames with body := S.block [
  S.ite (E.isNil (E.var 1)) (S.block [S.ret (E.var 2)]) (S.block []),
  S.ite (E.notNil (E.frameErr (E.deref (E.var 1)))) (S.block [S.ret (E.var 1)]) (S.block []),
  S.ite (E.notNil (E.frameErr (E.deref (E.var 2)))) (S.block [S.ret (E.var 2)]) (S.block []),
  S.define 3 (E.makeIx (E.call2 FnId.max (E.len (E.frameIndex (E.deref (E.var 1)))) (E.len (E.frameIndex (E.deref (E.var 2)))))),
  S.define 4 (E.int 0), S.define 5 (E.int 0),
  S.range (E.frameIndex (E.deref (E.var 0))) none (some 6) (S.block [
    S.define 7 (E.bool false),
    S.ite (hitCond 4 1 6) (S.block [S.assign 7 (E.bool true), S.incr 4]) (S.block []),
    S.ite (hitCond 5 2 6) (S.block [S.assign 7 (E.bool true)]) (S.block []),
    S.ite (E.var 7) (S.block [S.assign 3 (E.snoc (E.var 3) (E.var 6))]) (S.block [])]),
  S.define 8 (E.call2 FnId.withIndex (E.deref (E.var 0)) (E.var 3)), S.ret (E.addr (E.var 8))] }
example : interp (withFn .orFrames mutOrFramesCursor) LeafCalls.ofLeaf (.or [.leaf eq0, .null]) fr3 ≠ some ((Clause.or [.leaf eq0, .null]).filter fr3) := by
  rw [mirror_eq_canon]; decide

end QF.Props.C02ClausesGen
