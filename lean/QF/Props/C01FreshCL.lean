import QF.Gen.Clauses
/-!
# C01 / C11 — `writesOnlyFresh` for the language of Filter's clause evaluation (`QF.CL`)

The interpreter of `QF.CL` (QF/Core/CLExpr.lean) computes on VALUES: a variable holds a list, `m[i] = e` replaces the
list held by `m`. In the Go code a slice variable holds a HEADER; `m[i] = e`, `append(m, x)` (with spare capacity) and the
kernel call `s.Filter(ix, cmp, arg, m)` store into the BACKING ARRAY, which every other header derived from it shares. The
value semantics is exact — and the operation persistent (C01), race-free (C11) — exactly when no storing statement ever
hits a backing array that something else can reach. This file makes that a checked statement about the regenerated terms.

* `E.fresh N τ e` — PROVENANCE of an expression, given which variables currently hold an array made in this run (`τ`) and
  which callees return a new array (`N`): `make`, the literal `make([]filter.Filter, 0)`, the variadic list, `append(l, x)`
  / `l[:n]` of a fresh `l`, a call of a function of `N`, anything that is not an array (numbers, booleans, errors) are fresh;
  `<frame>.index`, a frame, a pointer to a frame, the sub-clauses of a clause are NOT (they share what the frame / the
  caller holds).
* the STORING constructs of the language: `S.setAt m i e` (`m[i] = e`), `S.kernel … m` (the kernel writes the mask `m`),
  and every `E.snoc l x` (`append(l, x)`: stores into the array of `l` when it has capacity). `S.setInverse`, `S.setArg`
  and `S.incr` assign a field of a struct VALUE / an `int` local — a variable of the function's own frame, never an array.
* `S.okF N F s` — the static check for a set `F` of variables ("only ever bound to fresh arrays"): every `:=` / `=` of a
  variable of `F` has a fresh right-hand side; no other binder (range variables, `v, ok := …`, type-test variables) binds a
  variable of `F`; every storing construct targets a variable of `F` / a fresh expression; nothing is opaque.
* `Fn.writesOnlyFresh N fn` — `okF` for the candidate set read off the body (`S.cands`: the variables with a `make` / new-call
  definition), none of them a parameter or the receiver.
* `tagExec` — the GHOST RUN: along the ACTUAL run of the interpreter (same branches, same loop rounds, same stores — it
  consults `S.exec` / `E.eval` for every decision) it keeps the dynamic provenance `τ` of every variable (flow-sensitive: a
  variable re-bound to a shared array loses its tag) and COUNTS the storing constructs executed on a non-fresh target.
* **`tagExec_sound`** (soundness of the static check against the interpreter): if `okF N F s` and every variable of `F` is
  tagged fresh, the ghost run of `s` from any store counts 0 bad stores and every variable of `F` is still tagged fresh.
  `runFn_writes_only_fresh`: a whole function run from any arguments — the parameters tagged SHARED, the locals not yet
  bound tagged fresh (they hold nothing) — executes no store into an array that was not made in this run.
* `gen_clauses_writes_only_fresh` — every function of today's `QF.Gen.clauseFns` passes (finite `decide`, redone on every
  run), with `N` = `newFns clauseFns` = the functions whose every `return` is fresh (today: `index.NewBool`,
  `index.Int.Filter`, and the functions that return no array).
* what the RESULT of `Filter` shares (read off the terms, `gen_clauses_result_provenance`): the result frame is (a) the
  receiver itself when `qf.Err != nil` (`publicFilter`, `leaves`, every clause method: `return qf`) and for `NullClause`;
  (b) `qf.withErr(err)` = the receiver's index UNCHANGED with a new error (unknown column, kernel error, clause error);
  (c) otherwise `qf.withIndex(ix)` with `ix` the result of `index.Int.Filter` (a `make` of the same call) / the `make` of
  `orFrames` / of `NotClause.filter`. In (a), (b) the index array is SHARED with the receiver and not written; in (c) it is
  new. The mask (`index.NewBool`) is always new and dies with the call.
* witnesses: `leavesInPlace` (the result index compacted into the receiver's index array: `ix := qf.index[:0]`-style
  `append` onto `qf.index`), `leavesSharedMask` (the kernels run on a mask that is an argument) fail the check and their ghost run counts a bad store;
  `witness_isnull_kernel_shared_mask`: the repaired int-`isnull` defect (the kernel cleared the mask the leaves of one call
  share) — a wrong value in an array the call owns, no store into an array that existed.
-/
set_option linter.unusedVariables false
namespace QF.Props.C01FreshCL
open QF.CL

/-! ## Provenance of expressions -/

/-- is the value of `e` free of arrays that existed before this run? (`τ`: the variables that hold a fresh array now;
`N`: the callees that return one) -/
def fresh (N : FnId → Bool) (τ : Var → Bool) : E → Bool
  | .var v => τ v
  | .makeMask _ | .makeIx _ | .emptyLeaves | .single _ => true
  | .snoc l _ => fresh N τ l
  | .truncate l _ => fresh N τ l
  | .call1 f _ | .call2 f _ _ | .call3 f _ _ _ => N f
  | .int _ | .bool _ | .nilErr | .newErr | .nilPtr | .isNil _ | .notNil _ | .not _ | .and _ _ | .or _ _ | .cmp _ _ _
  | .add _ _ | .sub _ _ | .len _ | .at _ _ | .inverseFlag _ | .errField _ | .callErr _ => true
  | _ => false

/-- the bases `l` of all `append(l, x)` inside an expression -/
def snocs : E → List E
  | .snoc l x => l :: (snocs l ++ snocs x)
  | .addr e | .deref e | .frameErr e | .frameIndex e | .isNil e | .notNil e | .not e | .len e | .makeMask e | .makeIx e
  | .single e | .inverseFlag e | .subClauses e | .subClause e | .errField e | .mkNot e | .callErr e | .call1 _ e => snocs e
  | .mkFrame a b | .and a b | .or a b | .cmp _ a b | .add a b | .sub a b | .at a b | .truncate a b
  | .mkCombo _ a b | .callFilter a b | .call2 _ a b => snocs a ++ snocs b
  | .call3 _ a b c => snocs a ++ snocs b ++ snocs c
  | _ => []

/-- every `append` inside `e` goes onto a fresh array -/
def okE (N : FnId → Bool) (τ : Var → Bool) (e : E) : Bool := (snocs e).all (fresh N τ)

/-- the number of `append`s inside `e` onto an array that is not fresh -/
def badE (N : FnId → Bool) (τ : Var → Bool) (e : E) : Nat := ((snocs e).filter fun l => !fresh N τ l).length

def inF (F : List Var) (v : Var) : Bool := F.contains v
def notF (F : List Var) : Option Var → Bool
  | some v => !inF F v
  | none => true

/-! ## The static check -/

def okF (N : FnId → Bool) (F : List Var) : S → Bool
  | .skip => true
  | .seq a b => okF N F a && okF N F b
  | .define v e | .assign v e => okE N (inF F) e && (!inF F v || fresh N (inF F) e)
  | .incr _ => true
  | .setAt m i e => inF F m && okE N (inF F) i && okE N (inF F) e
  | .setInverse _ e => okE N (inF F) e
  | .ite c t e => okE N (inF F) c && okF N F t && okF N F e
  | .ifIs x _ v t e => okE N (inF F) x && !inF F v && okF N F t && okF N F e
  | .range xs k v b => okE N (inF F) xs && notF F k && notF F v && okF N F b
  | .rangeLive _ k v b => notF F k && notF F v && okF N F b
  | .ret e => okE N (inF F) e
  | .lookupColumn s ok f l => !inF F s && !inF F ok && okE N (inF F) f && okE N (inF F) l
  | .ifArgIsColumn _ name t => !inF F name && okF N F t
  | .lookupArgColumn a ok f _ => !inF F a && !inF F ok && okE N (inF F) f
  | .promote _ _ _ => true
  | .setArg _ _ => true
  | .ifCmpIsString _ sc t => !inF F sc && okF N F t
  | .ifInverseEntry _ inv t => !inF F inv && okF N F t
  | .kernel er _ ix _ _ m => inF F m && !inF F er && okE N (inF F) ix
  | .opaque _ => false

/-- is `e` an allocation by its head? -/
def isAlloc (N : FnId → Bool) : E → Bool
  | .makeMask _ | .makeIx _ | .emptyLeaves => true
  | .call1 f _ | .call2 f _ _ | .call3 f _ _ _ => N f
  | _ => false

/-- the variables with a definition that is an allocation -/
def cands (N : FnId → Bool) : S → List Var
  | .define v e | .assign v e => if isAlloc N e then [v] else []
  | .seq a b => cands N a ++ cands N b
  | .ite _ t e | .ifIs _ _ _ t e => cands N t ++ cands N e
  | .range _ _ _ b | .rangeLive _ _ _ b | .ifArgIsColumn _ _ b | .ifCmpIsString _ _ b | .ifInverseEntry _ _ b => cands N b
  | _ => []

/-- the expressions returned -/
def rets : S → List E
  | .ret e => [e]
  | .seq a b => rets a ++ rets b
  | .ite _ t e | .ifIs _ _ _ t e => rets t ++ rets e
  | .range _ _ _ b | .rangeLive _ _ _ b | .ifArgIsColumn _ _ b | .ifCmpIsString _ _ b | .ifInverseEntry _ _ b => rets b
  | _ => []

/-- **The static check on a function**: every storing statement targets a variable that only ever holds arrays allocated
in the same run; no such variable is the receiver or a parameter. -/
def writesOnlyFresh (N : FnId → Bool) (fn : Fn) : Bool :=
  okF N (cands N fn.body) fn.body && (cands N fn.body).all (fun v => decide (fn.params ≤ v))

/-- the functions of a unit all of whose `return`s are fresh (callees judged as not new: no recursion) -/
def newFns (P : List (FnId × Fn)) (f : FnId) : Bool :=
  match P.lookup f with
  | some fn => (rets fn.body).all (fresh (fun _ => false) (inF (cands (fun _ => false) fn.body)))
  | none => false

/-! ## The ghost run -/

abbrev Tags := Var → Bool
def tset (τ : Tags) (v : Var) (b : Bool) : Tags := fun w => if w = v then b else τ w
def tsetOpt (τ : Tags) (v : Option Var) (b : Bool) : Tags :=
  match v with
  | some v => tset τ v b
  | none => τ

def tagLoop (step : Val → Nat → Store → Out) (tstep : Val → Nat → Store → Tags → Tags × Nat) :
    List Val → Nat → Store → Tags → Tags × Nat
  | [], _, _, τ => (τ, 0)
  | x :: xs, i, σ, τ =>
    match step x i σ with
    | .next σ' => ((tagLoop step tstep xs (i + 1) σ' (tstep x i σ τ).1).1,
                   (tstep x i σ τ).2 + (tagLoop step tstep xs (i + 1) σ' (tstep x i σ τ).1).2)
    | _ => tstep x i σ τ

def tagLoopLive (step : Val → Nat → Store → Out) (tstep : Val → Nat → Store → Tags → Tags × Nat) (m : Var) :
    Nat → Nat → Store → Tags → Tags × Nat
  | 0, _, _, τ => (τ, 0)
  | n + 1, i, σ, τ =>
    match σ m with
    | some (.mask mm) =>
      (match mm[i]? with
       | some b =>
         (match step (.bool b) i σ with
          | .next σ' => ((tagLoopLive step tstep m n (i + 1) σ' (tstep (.bool b) i σ τ).1).1,
                         (tstep (.bool b) i σ τ).2 + (tagLoopLive step tstep m n (i + 1) σ' (tstep (.bool b) i σ τ).1).2)
          | _ => tstep (.bool b) i σ τ)
       | none => (τ, 0))
    | _ => (τ, 0)

/-- what `v, ok := x.(T)` binds `v` to (as in `S.exec`) -/
def isBound (ty : DynTy) (o : Obj) : Val :=
  match ty with
  | .filter => .leaf o.leaf
  | _ => .struct o.ty o.subs o.errField

def tbindKV (k v : Option Var) (τ : Tags) : Tags := tsetOpt (tsetOpt τ k false) v false

/-- **The ghost run**: the provenance tags after the statement and the number of stores executed on a target that was not
fresh, along the run `S.exec Γ s σ` of the interpreter. -/
def tagExec (Γ : Env) (N : FnId → Bool) : S → Store → Tags → Tags × Nat
  | .skip, _, τ => (τ, 0)
  | .seq a b, σ, τ =>
    match a.exec Γ σ with
    | .next σ' => ((tagExec Γ N b σ' (tagExec Γ N a σ τ).1).1, (tagExec Γ N a σ τ).2 + (tagExec Γ N b σ' (tagExec Γ N a σ τ).1).2)
    | _ => tagExec Γ N a σ τ
  | .define v e, _, τ => (tset τ v (fresh N τ e), badE N τ e)
  | .assign v e, _, τ => (tset τ v (fresh N τ e), badE N τ e)
  | .incr _, _, τ => (τ, 0)
  | .setAt m i e, _, τ => (τ, (if τ m then 0 else 1) + badE N τ i + badE N τ e)
  | .setInverse _ e, _, τ => (τ, badE N τ e)
  | .ite c t e, σ, τ =>
    match c.eval Γ σ with
    | some (.bool true) => ((tagExec Γ N t σ τ).1, badE N τ c + (tagExec Γ N t σ τ).2)
    | some (.bool false) => ((tagExec Γ N e σ τ).1, badE N τ c + (tagExec Γ N e σ τ).2)
    | _ => (τ, badE N τ c)
  | .ifIs x ty v t e, σ, τ =>
    match x.eval Γ σ with
    | some (.obj o) =>
      if o.ty = ty then
        ((tagExec Γ N t (σ.set v (isBound ty o)) (tset τ v false)).1,
         badE N τ x + (tagExec Γ N t (σ.set v (isBound ty o)) (tset τ v false)).2)
      else ((tagExec Γ N e σ τ).1, badE N τ x + (tagExec Γ N e σ τ).2)
    | _ => (τ, badE N τ x)
  | .range xs k v body, σ, τ =>
    match xs.eval Γ σ with
    | some x =>
      (match x.elems with
       | some l =>
         ((tagLoop (fun y i σ' => body.exec Γ (bindKV k v i y σ')) (fun y i σ' τ' => tagExec Γ N body (bindKV k v i y σ') (tbindKV k v τ')) l 0 σ τ).1,
          badE N τ xs + (tagLoop (fun y i σ' => body.exec Γ (bindKV k v i y σ')) (fun y i σ' τ' => tagExec Γ N body (bindKV k v i y σ') (tbindKV k v τ')) l 0 σ τ).2)
       | none => (τ, badE N τ xs))
    | none => (τ, badE N τ xs)
  | .rangeLive m k v body, σ, τ =>
    match σ m with
    | some (.mask mm) =>
      tagLoopLive (fun y i σ' => body.exec Γ (bindKV k v i y σ')) (fun y i σ' τ' => tagExec Γ N body (bindKV k v i y σ') (tbindKV k v τ')) m mm.length 0 σ τ
    | _ => (τ, 0)
  | .ret e, _, τ => (τ, badE N τ e)
  | .lookupColumn s ok fr lf, _, τ => (tset (tset τ s false) ok false, badE N τ fr + badE N τ lf)
  | .ifArgIsColumn lf name t, σ, τ =>
    match σ lf with
    | some (.leaf l) => if (Γ.oracle l).argIsCol then tagExec Γ N t (σ.set name (.tok .argName l)) (tset τ name false) else (τ, 0)
    | _ => (τ, 0)
  | .lookupArgColumn a ok fr _, _, τ => (tset (tset τ a false) ok false, badE N τ fr)
  | .promote _ _ _, _, τ => (τ, 0)
  | .setArg _ _, _, τ => (τ, 0)
  | .ifCmpIsString lf sc t, σ, τ =>
    match σ lf with
    | some (.leaf l) => if (Γ.oracle l).cmpIsString then tagExec Γ N t (σ.set sc (.tok .cmpStr l)) (tset τ sc false) else (τ, 0)
    | _ => (τ, 0)
  | .ifInverseEntry key inv t, σ, τ =>
    match σ key with
    | some (.tok .cmpStr l) => if (Γ.oracle l).hasInverse then tagExec Γ N t (σ.set inv (.tok .invCmp l)) (tset τ inv false) else (τ, 0)
    | _ => (τ, 0)
  | .kernel er _ ix _ _ m, _, τ => (tset τ er false, (if τ m then 0 else 1) + badE N τ ix)
  | .opaque _, _, τ => (τ, 1)

/-! ## Soundness -/

/-- every variable of `F` is tagged fresh -/
def Inv (F : List Var) (τ : Tags) : Prop := ∀ v, inF F v = true → τ v = true

theorem fresh_mono (N : FnId → Bool) (F : List Var) (τ : Tags) (h : Inv F τ) (e : E) :
    fresh N (inF F) e = true → fresh N τ e = true := by
  induction e <;> simp_all [fresh]
  case var v => exact h v

theorem badE_zero (N : FnId → Bool) (F : List Var) (τ : Tags) (h : Inv F τ) (e : E) (ok : okE N (inF F) e = true) :
    badE N τ e = 0 := by
  unfold badE
  rw [List.length_eq_zero_iff, List.filter_eq_nil_iff]
  intro l hl
  have := fresh_mono N F τ h l (List.all_eq_true.1 ok l hl)
  simp [this]

theorem Inv.tset_out {F : List Var} {τ : Tags} (h : Inv F τ) (v : Var) (b : Bool) (hv : inF F v = false) : Inv F (tset τ v b) := by
  intro w hw
  unfold tset
  split
  · rename_i e; subst e; rw [hv] at hw; cases hw
  · exact h w hw

theorem Inv.tset_fresh {F : List Var} {τ : Tags} (h : Inv F τ) (v : Var) : Inv F (tset τ v true) := by
  intro w hw
  unfold tset
  split
  · rfl
  · exact h w hw

theorem Inv.tsetOpt_out {F : List Var} {τ : Tags} (h : Inv F τ) (v : Option Var) (b : Bool) (hv : notF F v = true) :
    Inv F (tsetOpt τ v b) := by
  cases v with
  | none => exact h
  | some v => exact h.tset_out v b (by simpa [notF] using hv)

theorem tagLoop_sound (F : List Var) (step : Val → Nat → Store → Out) (tstep : Val → Nat → Store → Tags → Tags × Nat)
    (hs : ∀ x i σ τ, Inv F τ → (tstep x i σ τ).2 = 0 ∧ Inv F (tstep x i σ τ).1) :
    ∀ (l : List Val) (i : Nat) (σ : Store) (τ : Tags), Inv F τ →
      (tagLoop step tstep l i σ τ).2 = 0 ∧ Inv F (tagLoop step tstep l i σ τ).1 := by
  intro l
  induction l with
  | nil => intro i σ τ h; exact ⟨rfl, h⟩
  | cons x xs ih =>
    intro i σ τ h
    have h1 := hs x i σ τ h
    unfold tagLoop
    split
    · rename_i σ' _
      have h2 := ih (i + 1) σ' _ h1.2
      exact ⟨by simp only [h1.1, h2.1], h2.2⟩
    · exact h1

theorem tagLoopLive_sound (F : List Var) (step : Val → Nat → Store → Out) (tstep : Val → Nat → Store → Tags → Tags × Nat)
    (m : Var) (hs : ∀ x i σ τ, Inv F τ → (tstep x i σ τ).2 = 0 ∧ Inv F (tstep x i σ τ).1) :
    ∀ (n i : Nat) (σ : Store) (τ : Tags), Inv F τ →
      (tagLoopLive step tstep m n i σ τ).2 = 0 ∧ Inv F (tagLoopLive step tstep m n i σ τ).1 := by
  intro n
  induction n with
  | zero => intro i σ τ h; exact ⟨rfl, h⟩
  | succ n ih =>
    intro i σ τ h
    unfold tagLoopLive
    split
    · split
      · rename_i b _
        have h1 := hs (.bool b) i σ τ h
        split
        · rename_i σ' _
          have h2 := ih (i + 1) σ' _ h1.2
          exact ⟨by simp only [h1.1, h2.1], h2.2⟩
        · exact h1
      · exact ⟨rfl, h⟩
    · exact ⟨rfl, h⟩

/-- **Soundness of the static check against the interpreter.** Along the actual run of `s` from ANY store: no store into an
array that was not made in this run, and the variables of `F` still hold fresh arrays. -/
theorem tagExec_sound (Γ : Env) (N : FnId → Bool) (F : List Var) (s : S) :
    okF N F s = true → ∀ (σ : Store) (τ : Tags), Inv F τ → (tagExec Γ N s σ τ).2 = 0 ∧ Inv F (tagExec Γ N s σ τ).1 := by
  induction s with
  | skip => intro _ σ τ h; exact ⟨rfl, h⟩
  | seq a b iha ihb =>
    intro ok σ τ h
    simp only [okF, Bool.and_eq_true] at ok
    have h1 := iha ok.1 σ τ h
    unfold tagExec
    split
    · rename_i σ' _
      have h2 := ihb ok.2 σ' _ h1.2
      exact ⟨by simp only [h1.1, h2.1], h2.2⟩
    · exact h1
  | define v e =>
    intro ok σ τ h
    simp only [okF, Bool.and_eq_true, Bool.or_eq_true, Bool.not_eq_true'] at ok
    refine ⟨badE_zero N F τ h e ok.1, ?_⟩
    rcases ok.2 with hv | hf
    · exact h.tset_out v _ hv
    · simp only [tagExec, fresh_mono N F τ h e hf]; exact h.tset_fresh v
  | assign v e =>
    intro ok σ τ h
    simp only [okF, Bool.and_eq_true, Bool.or_eq_true, Bool.not_eq_true'] at ok
    refine ⟨badE_zero N F τ h e ok.1, ?_⟩
    rcases ok.2 with hv | hf
    · exact h.tset_out v _ hv
    · simp only [tagExec, fresh_mono N F τ h e hf]; exact h.tset_fresh v
  | incr v => intro _ σ τ h; exact ⟨rfl, h⟩
  | setAt m i e =>
    intro ok σ τ h
    simp only [okF, Bool.and_eq_true] at ok
    refine ⟨?_, h⟩
    simp only [tagExec, h m ok.1.1, badE_zero N F τ h i ok.1.2, badE_zero N F τ h e ok.2, ↓reduceIte]
  | setInverse v e =>
    intro ok σ τ h
    simp only [okF] at ok
    exact ⟨badE_zero N F τ h e ok, h⟩
  | ite c t e iht ihe =>
    intro ok σ τ h
    simp only [okF, Bool.and_eq_true] at ok
    have hc := badE_zero N F τ h c ok.1.1
    unfold tagExec
    split
    · exact ⟨by simp only [hc, (iht ok.1.2 σ τ h).1], (iht ok.1.2 σ τ h).2⟩
    · exact ⟨by simp only [hc, (ihe ok.2 σ τ h).1], (ihe ok.2 σ τ h).2⟩
    · exact ⟨hc, h⟩
  | ifIs x ty v t e iht ihe =>
    intro ok σ τ h
    simp only [okF, Bool.and_eq_true, Bool.not_eq_true'] at ok
    have hc := badE_zero N F τ h x ok.1.1.1
    unfold tagExec
    split
    · split
      · rename_i o _ _
        have := iht ok.1.2 (σ.set v (isBound ty o)) _
          (h.tset_out v false ok.1.1.2)
        exact ⟨by simp only [hc, this.1], this.2⟩
      · exact ⟨by simp only [hc, (ihe ok.2 σ τ h).1], (ihe ok.2 σ τ h).2⟩
    · exact ⟨hc, h⟩
  | range xs k v body ih =>
    intro ok σ τ h
    simp only [okF, Bool.and_eq_true] at ok
    have hc := badE_zero N F τ h xs ok.1.1.1
    unfold tagExec
    split
    · split
      · rename_i l _
        have := tagLoop_sound F (fun y i σ' => body.exec Γ (bindKV k v i y σ'))
          (fun y i σ' τ' => tagExec Γ N body (bindKV k v i y σ') (tbindKV k v τ'))
          (fun x i σ τ hτ => ih ok.2 _ _ ((hτ.tsetOpt_out k false ok.1.1.2).tsetOpt_out v false ok.1.2)) l 0 σ τ h
        exact ⟨by simp only [hc, this.1], this.2⟩
      · exact ⟨hc, h⟩
    · exact ⟨hc, h⟩
  | rangeLive m k v body ih =>
    intro ok σ τ h
    simp only [okF, Bool.and_eq_true] at ok
    unfold tagExec
    split
    · exact tagLoopLive_sound F _ _ m
        (fun x i σ τ hτ => ih ok.2 _ _ ((hτ.tsetOpt_out k false ok.1.1).tsetOpt_out v false ok.1.2)) _ 0 σ τ h
    · exact ⟨rfl, h⟩
  | ret e =>
    intro ok σ τ h
    simp only [okF] at ok
    exact ⟨badE_zero N F τ h e ok, h⟩
  | lookupColumn s okv fr lf =>
    intro ok σ τ h
    simp only [okF, Bool.and_eq_true, Bool.not_eq_true'] at ok
    refine ⟨?_, (h.tset_out s false ok.1.1.1).tset_out okv false ok.1.1.2⟩
    simp only [tagExec, badE_zero N F τ h fr ok.1.2, badE_zero N F τ h lf ok.2]
  | ifArgIsColumn lf name t ih =>
    intro ok σ τ h
    simp only [okF, Bool.and_eq_true, Bool.not_eq_true'] at ok
    unfold tagExec
    split
    · split
      · exact ih ok.2 _ _ (h.tset_out name false ok.1)
      · exact ⟨rfl, h⟩
    · exact ⟨rfl, h⟩
  | lookupArgColumn a okv fr name =>
    intro ok σ τ h
    simp only [okF, Bool.and_eq_true, Bool.not_eq_true'] at ok
    refine ⟨?_, (h.tset_out a false ok.1.1).tset_out okv false ok.1.2⟩
    simp only [tagExec, badE_zero N F τ h fr ok.2]
  | promote _ _ _ => intro _ σ τ h; exact ⟨rfl, h⟩
  | setArg _ _ => intro _ σ τ h; exact ⟨rfl, h⟩
  | ifCmpIsString lf sc t ih =>
    intro ok σ τ h
    simp only [okF, Bool.and_eq_true, Bool.not_eq_true'] at ok
    unfold tagExec
    split
    · split
      · exact ih ok.2 _ _ (h.tset_out sc false ok.1)
      · exact ⟨rfl, h⟩
    · exact ⟨rfl, h⟩
  | ifInverseEntry key inv t ih =>
    intro ok σ τ h
    simp only [okF, Bool.and_eq_true, Bool.not_eq_true'] at ok
    unfold tagExec
    split
    · split
      · exact ih ok.2 _ _ (h.tset_out inv false ok.1)
      · exact ⟨rfl, h⟩
    · exact ⟨rfl, h⟩
  | kernel er s ix cmp lf m =>
    intro ok σ τ h
    simp only [okF, Bool.and_eq_true, Bool.not_eq_true'] at ok
    refine ⟨?_, h.tset_out er false ok.1.2⟩
    simp only [tagExec, h m ok.1.1, badE_zero N F τ h ix ok.2, ↓reduceIte]
  | «opaque» _ => intro ok; simp [okF] at ok

/-- the tags a function run starts with: the receiver and the parameters are SHARED, a local that is not bound yet holds
nothing -/
def tags0 (params : Nat) : Tags := fun v => decide (params ≤ v)

/-- the ghost run of a whole function from its arguments -/
def tagRunFn (Γ : Env) (N : FnId → Bool) (fn : Fn) (args : List Val) : Nat :=
  (tagExec Γ N fn.body (bindArgs args 0 Store.empty) (tags0 fn.params)).2

/-- **A function that passes the check executes no store into an array that was not made in the same run** — for every
environment (callees, leaf oracle) and all arguments. -/
theorem runFn_writes_only_fresh (Γ : Env) (N : FnId → Bool) (fn : Fn) (args : List Val)
    (h : writesOnlyFresh N fn = true) : tagRunFn Γ N fn args = 0 := by
  simp only [writesOnlyFresh, Bool.and_eq_true, List.all_eq_true, decide_eq_true_eq] at h
  refine (tagExec_sound Γ N _ fn.body h.1 _ (tags0 fn.params) ?_).1
  intro v hv
  simp only [tags0, decide_eq_true_eq]
  exact h.2 v (by simpa [inF] using hv)

/-! ## Today's terms -/

/-- the callees of today's unit that return a new array (or no array) -/
abbrev todayNew : FnId → Bool := newFns Gen.clauseFns

/-- **Every function of today's clause evaluation passes the check** (redone on every run). -/
theorem gen_clauses_writes_only_fresh : ∀ p ∈ Gen.clauseFns, writesOnlyFresh todayNew p.2 = true := by decide

/-- `index.NewBool` and `index.Int.Filter` return new arrays; `withIndex` / `withErr` return frames (not new: they carry the
index they are given / the receiver's) -/
example : todayNew .newBool = true ∧ todayNew .ixFilter = true ∧ todayNew .withIndex = false ∧ todayNew .withErr = false := by
  decide

/-- **Any run of any function of today's unit, from any arguments, under any environment: no store into an existing array.** -/
theorem gen_clauses_runs_write_only_fresh (Γ : Env) (p : FnId × Fn) (hp : p ∈ Gen.clauseFns) (args : List Val) :
    tagRunFn Γ todayNew p.2 args = 0 :=
  runFn_writes_only_fresh Γ _ _ args (gen_clauses_writes_only_fresh p hp)

/-- what a returned frame expression shares -/
inductive RetKind where
  /-- the receiver / the frame parameter itself (variable `v`) -/
  | param (v : Var)
  /-- a frame with the index of frame `v` unchanged (`withErr`) -/
  | sameIndex
  /-- a frame with an index made in this run (`withIndex(qf, <fresh>)`) -/
  | newIndex
  /-- the result of another function of the unit / of a sub-clause's method -/
  | callee
  /-- not a frame (an array, a number, an error, a clause struct) -/
  | other
  deriving DecidableEq, Repr

def retKind (N : FnId → Bool) (params : Nat) (F : List Var) : E → RetKind
  | .var v => if v < params then .param v else if inF F v then .other else .callee
  | .call2 .withErr _ _ => .sameIndex
  | .call2 .withIndex _ ix => if fresh N (inF F) ix then .newIndex else .sameIndex
  | .call2 .leaves _ _ | .callFilter _ _ | .deref _ | .call3 .orFrames _ _ _ | .addr _ => .callee
  | _ => .other

def retKinds (N : FnId → Bool) (fn : Fn) : List RetKind :=
  (rets fn.body).map (retKind N fn.params (cands N fn.body))

/-- **What the results of today's Filter functions share** (read off the terms): `QFrame.filter` returns the receiver
(failed frame), `withErr` of the receiver (unknown column, unknown argument column, kernel error) or `withIndex` of a NEW
index (`index.Int.Filter`); `NotClause.filter` and `orFrames` build their index with `make` + `append`; the clause methods
and `QFrame.Filter` return the receiver or what their callees return. No function returns a frame whose index is an
existing array that the function has written. -/
theorem gen_clauses_result_provenance :
    (Gen.clauseFns.lookup .leaves).map (retKinds todayNew) =
      some [.param 0, .sameIndex, .sameIndex, .sameIndex, .newIndex] ∧
    (Gen.clauseFns.lookup .publicFilter).map (retKinds todayNew) = some [.param 0, .callee] ∧
    (Gen.clauseFns.lookup (.filter .null)).map (retKinds todayNew) = some [.param 1] ∧
    (Gen.clauseFns.lookup (.filter .not)).map (retKinds todayNew) =
      some [.param 1, .sameIndex, .callee, .callee, .newIndex] ∧
    (Gen.clauseFns.lookup .orFrames).map (retKinds todayNew) = some [.param 2, .param 1, .param 2, .callee] := by
  decide

/-! ## Witnesses -/

/-- `QFrame.filter` compacting the surviving rows INTO THE RECEIVER'S INDEX (`ix := qf.index; … ix = append(ix[:0]…)` —
here: the result index is `append`ed onto `qf.index` itself) -/
def leavesInPlace : Fn :=
  { params := 2, body := S.block [S.define 2 (E.call1 FnId.newBool (E.call1 FnId.ixLen (E.frameIndex (E.var 0)))),
      S.define 3 (E.frameIndex (E.var 0)),
      S.range (E.var 2) (some 4) (some 5) (S.block [S.ite (E.not (E.var 5)) (S.block [S.assign 3 (E.snoc (E.var 3) (E.at (E.frameIndex (E.var 0)) (E.var 4)))]) (S.block [])]),
      S.ret (E.call2 FnId.withIndex (E.var 0) (E.var 3))] }

/-- `QFrame.filter` evaluating its kernels on a mask it was handed (parameter 2) instead of its own `index.NewBool` -/
def leavesSharedMask : Fn :=
  { params := 3, body := S.block [S.range (E.var 1) none (some 3) (S.block [S.lookupColumn 4 5 (E.var 0) (E.var 3),
      S.kernel 6 4 (E.frameIndex (E.var 0)) KCmp.own 3 2]),
      S.ret (E.call2 FnId.withIndex (E.var 0) (E.call2 FnId.ixFilter (E.frameIndex (E.var 0)) (E.var 2)))] }

def exLeaf : F.Leaf := { shape := .guarded, pred := fun p => p == 1 }
def exEnv : Env := { call := callAt Gen.clauseFns LeafCalls.ofLeaf 3, oracle := LeafCalls.ofLeaf }

/-- **Witness: a Filter that compacts into the receiver's index** fails the check, and its ghost run on the frame with
index [2, 0, 1] counts a store into an array that existed. -/
theorem witness_filter_in_place :
    writesOnlyFresh todayNew leavesInPlace = false ∧
    0 < tagRunFn exEnv todayNew leavesInPlace [.frame { index := [2, 0, 1] }, .leaves [exLeaf]] := by
  constructor <;> decide

/-- **Witness: kernels run on a mask that is an argument** (a mask shared with the caller). -/
theorem witness_filter_shared_mask :
    writesOnlyFresh todayNew leavesSharedMask = false ∧
    0 < tagRunFn exEnv todayNew leavesSharedMask [.frame { index := [2, 0, 1] }, .leaves [exLeaf], .mask [false, false, false]] := by
  constructor <;> decide

/-- today's `QFrame.filter` on the same input: the run has a value and the ghost run counts nothing -/
example : (Gen.clauseFns.lookup .leaves).map (fun fn =>
    ((runFn exEnv fn [.frame { index := [2, 0, 1] }, .leaves [exLeaf]]).isSome,
      tagRunFn exEnv todayNew fn [.frame { index := [2, 0, 1] }, .leaves [exLeaf]])) = some (true, 0) := by decide

/-- the int `isnull` kernel as it was before the repair `fix: isnull on an int column no longer clears matches of earlier OR
branches` (/repo history): `for i := range bIndex { bIndex[i] = false }` — `KShape.setAll false` — instead of leaving the
mask alone -/
def isnullOld : F.Leaf := { shape := .setAll false, pred := fun _ => false }
/-- the repaired kernel: a guarded kernel whose predicate never holds (an int is never null) -/
def isnullNew : F.Leaf := { shape := .guarded, pred := fun _ => false }

def indexOf : Option Val → Option (List F.Pos)
  | some (.frame g) => some g.index
  | _ => none

/-- **Witness: the int `isnull` kernel clearing the SHARED MASK** — shared between the leaves of one `QFrame.filter` call
(an `Or` of filters is evaluated on one mask). With the old kernel the match of the first leaf (position 1) is lost, with
the repaired one it is kept. In both runs the ghost run counts NO store into an existing array: the mask is
`index.NewBool` of the same call, the kernels store into it by design — the defect was a wrong value in an array the call
owns (a C02 defect: seeded / repaired there), not a write into storage that existed; C01 / C11 hold for both. -/
theorem witness_isnull_kernel_shared_mask :
    (Gen.clauseFns.lookup .leaves).map (fun fn =>
      (indexOf (runFn exEnv fn [.frame { index := [2, 0, 1] }, .leaves [exLeaf, isnullOld]]),
       indexOf (runFn exEnv fn [.frame { index := [2, 0, 1] }, .leaves [exLeaf, isnullNew]]),
       tagRunFn exEnv todayNew fn [.frame { index := [2, 0, 1] }, .leaves [exLeaf, isnullOld]],
       tagRunFn exEnv todayNew fn [.frame { index := [2, 0, 1] }, .leaves [exLeaf, isnullNew]])) =
    some (some [], some [1], 0, 0) := by decide

#print axioms witness_isnull_kernel_shared_mask
#print axioms tagExec_sound
#print axioms runFn_writes_only_fresh
#print axioms gen_clauses_writes_only_fresh
#print axioms gen_clauses_runs_write_only_fresh
#print axioms gen_clauses_result_provenance
#print axioms witness_filter_in_place
#print axioms witness_filter_shared_mask

end QF.Props.C01FreshCL
