import QF.Spec.Csv
/-!
# C12 (second half): column typing of ReadCSV — `columnToData` mirror, equality with the spec, type inference

Go: `/repo/internal/io/csv.go`, `columnToData` (with `internal/strings.ParseInt/ParseFloat/ParseBool` and the enum
factory of `internal/ecolumn`).  Spec: `QF.csvColumn` in `QF/Spec/Csv.lean`.

* §1 `columnToDataG` mirrors the Go function over the list of cell byte strings of one column (the `bytePointer`s
  into the column's byte blob are abstracted to the slices they denote): the zero-row test, then the blocks
  `if dataType == T || dataType == None { loop with break at the first cell that fails; return / error / fall
  through }` for int, float (empty cell = `math.NaN()`, whose bits are `F64.canonNaN`), bool, the string block
  (null pointer iff empty and `EmptyNull`), the enum block (`conf.EnumVals[colName]`, `delete`, `NewFactory`,
  `AppendNil` / `AppendByteString` with `appendString` and `newEnumVal`, `ToColumn`; the Go map `valToEnum` is an
  association list) and the final "unknown data type" error.  `Data` is the Go `interface{}` result, `Data.toLCol`
  the logical column it denotes, `columnToDataM` the composition.
  The parsers are the parameters `ParseOracle`: `strings.ParseInt` IS `strconv.Atoi` (there is no hand-written
  integer parser in this version of the repository), `strings.ParseFloat` is `strconv.ParseFloat(s, 64)`,
  `strings.ParseBool` is `strconv.ParseBool`.  `enumVal` is a `uint8`; the factory never holds more than 255 values
  (`Factory.Inv.len`), so `Nat` indices are exact.
* §2–§3 the loops against `List.mapM`; the factory against `mkEnum` (invariant `Factory.Inv`).
* §4 `columnToData_eq_spec : columnToDataM po cfg name cells = specView (csvColumn po cfg name cells)` for all
  oracles, configurations, names and cell lists.  The mirror returns `none` for an error and `some (column,
  deleted)` otherwise, where `deleted` says whether `delete(conf.EnumVals, colName)` removed an entry; `specView`
  forgets the spec's flag when the spec's column is `none` (ReadCSV fails then, the flag is not observable).
  `columnToData_eq_spec_pair` is the same equation read from the spec's side.
* §5 `infer_spec` (`Inferred`): the declarative characterisation of the inference for untyped columns, its
  completeness (`Inferred.unique`, `infer_spec_complete`).
* §6 examples by evaluation of the mirror.  NOTE `["1","true"]` is a BOOL column in the Go code (ParseBool accepts
  "1"), not a string column; `["1","0"]` is int.
-/
namespace QF.Props.C12Infer
open QF

/-! ## §0 helpers: pointwise relation, `mapM` in `Option` -/

inductive Forall₂ {α β} (R : α → β → Prop) : List α → List β → Prop
  | nil : Forall₂ R [] []
  | cons {a b l₁ l₂} : R a b → Forall₂ R l₁ l₂ → Forall₂ R (a :: l₁) (b :: l₂)

theorem forall₂_cons {α β} {R : α → β → Prop} {a b l₁ l₂} :
    Forall₂ R (a :: l₁) (b :: l₂) ↔ R a b ∧ Forall₂ R l₁ l₂ :=
  ⟨fun h => by cases h; exact ⟨‹_›, ‹_›⟩, fun h => .cons h.1 h.2⟩

theorem forall₂_nil_left {α β} {R : α → β → Prop} {l₂} : Forall₂ R [] l₂ ↔ l₂ = [] :=
  ⟨fun h => by cases h; rfl, fun h => h ▸ .nil⟩

theorem forall₂_nil_right {α β} {R : α → β → Prop} {l₁} : Forall₂ R l₁ [] ↔ l₁ = [] :=
  ⟨fun h => by cases h; rfl, fun h => h ▸ .nil⟩

theorem forall₂_iff_get {α β} {R : α → β → Prop} {l₁ : List α} {l₂ : List β} :
    Forall₂ R l₁ l₂ ↔ l₁.length = l₂.length ∧ ∀ i (h₁ : i < l₁.length) (h₂ : i < l₂.length), R l₁[i] l₂[i] := by
  induction l₁ generalizing l₂ with
  | nil =>
    rw [forall₂_nil_left]
    constructor
    · rintro rfl; simp
    · intro h; exact List.eq_nil_of_length_eq_zero h.1.symm
  | cons a l₁ ih =>
    cases l₂ with
    | nil => rw [forall₂_nil_right]; simp
    | cons b l₂ =>
      rw [forall₂_cons, ih]
      constructor
      · rintro ⟨hab, hlen, hall⟩
        refine ⟨by simp [hlen], ?_⟩
        intro i h₁ h₂
        cases i with
        | zero => exact hab
        | succ i => exact hall i (by simpa using h₁) (by simpa using h₂)
      · rintro ⟨hlen, hall⟩
        refine ⟨hall 0 (by simp) (by simp), by simpa using hlen, ?_⟩
        intro i h₁ h₂
        exact hall (i + 1) (by simpa using h₁) (by simpa using h₂)

theorem mapM_cons_opt {α β} (g : α → Option β) (a : α) (l : List α) :
    (a :: l).mapM g = match g a with
      | none => none
      | some b => match l.mapM g with
        | none => none
        | some bs => some (b :: bs) := by
  rw [List.mapM_cons]
  cases g a <;> simp
  cases l.mapM g <;> simp

theorem mapM_map_opt {α β γ} (g : α → Option β) (h : β → γ) (l : List α) :
    l.mapM (fun c => (g c).map h) = (l.mapM g).map (List.map h) := by
  induction l with
  | nil => simp
  | cons a l ih =>
    rw [mapM_cons_opt, mapM_cons_opt, ih]
    cases g a <;> simp
    cases l.mapM g <;> simp

theorem mapM_eq_some_iff {α β} (g : α → Option β) (l : List α) (xs : List β) :
    l.mapM g = some xs ↔ Forall₂ (fun c x => g c = some x) l xs := by
  induction l generalizing xs with
  | nil => rw [forall₂_nil_left]; simp [eq_comm]
  | cons a l ih =>
    rw [mapM_cons_opt]
    cases xs with
    | nil =>
      rw [forall₂_nil_right]
      cases hg : g a <;> simp
      cases l.mapM g <;> simp
    | cons x xs =>
      rw [forall₂_cons, ← ih]
      cases hg : g a with
      | none => simp
      | some b =>
        cases hl : l.mapM g with
        | none => simp
        | some bs => simp

theorem mapM_eq_none_iff {α β} (g : α → Option β) (l : List α) :
    l.mapM g = none ↔ ∃ c ∈ l, g c = none := by
  induction l with
  | nil => simp
  | cons a l ih =>
    rw [mapM_cons_opt]
    cases hg : g a with
    | none => simp [hg]
    | some b =>
      cases hl : l.mapM g with
      | none => simp [hg, ← ih, hl]
      | some bs => 
        simp [hg, ← ih, hl]

theorem mapM_isSome_iff {α β} (g : α → Option β) (l : List α) :
    (l.mapM g).isSome ↔ ∀ c ∈ l, (g c).isSome := by
  cases h : l.mapM g with
  | none =>
    obtain ⟨c, hc, hn⟩ := (mapM_eq_none_iff g l).1 h
    simp only [Option.isSome_none, Bool.false_eq_true, false_iff]
    intro hall
    have := hall c hc
    simp [hn] at this
  | some xs =>
    simp only [Option.isSome_some, true_iff]
    intro c hc
    cases hn : g c with
    | some _ => rfl
    | none =>
      have : l.mapM g = none := (mapM_eq_none_iff g l).2 ⟨c, hc, hn⟩
      simp [h] at this

/-! ## §1 the mirror -/

/-- What `columnToData` returns in its `interface{}` result. -/
inductive Data where
  | empty                                              -- `ncolumn.Column{}` (zero rows, no declared type)
  | ints (a : Array Int)                               -- `[]int`
  | floats (a : Array UInt64)                          -- `[]float64` (bits)
  | bools (a : Array Bool)                             -- `[]bool`
  | blob (ptrs : Array (Option Bytes))                 -- `strings.StringBlob`: null pointer or the cell's bytes
  | enum (values : List Bytes) (strict : Bool) (data : Array Nat)   -- `ecolumn.Column`
  deriving Repr

/-- `conf.Types[colName]`; a missing key yields the zero value `types.None = ""`. -/
def dataTypeOf (cfg : CsvCfg) (name : Bytes) : String :=
  match cfg.types.find? (·.1 == name) with
  | some e => e.2
  | none => ""

/-- The `[]int` loop: `(intData, err != nil)`; leaves at the first cell that does not parse. -/
def intLoop (po : ParseOracle) : List Bytes → Array Int → Array Int × Bool
  | [], acc => (acc, false)
  | p :: ps, acc =>
    match po.atoi p with
    | none => (acc, true)
    | some x => intLoop po ps (acc.push x)

def floatLoop (po : ParseOracle) : List Bytes → Array UInt64 → Array UInt64 × Bool
  | [], acc => (acc, false)
  | p :: ps, acc =>
    if p.isEmpty then floatLoop po ps (acc.push F64.canonNaN)      -- `continue`
    else match po.pfloat p with
      | none => (acc, true)
      | some x => floatLoop po ps (acc.push x)

def boolLoop (po : ParseOracle) : List Bytes → Array Bool → Array Bool × Bool
  | [], acc => (acc, false)
  | p :: ps, acc =>
    match po.pbool p with
    | none => (acc, true)
    | some x => boolLoop po ps (acc.push x)

def strLoop (emptyNull : Bool) : List Bytes → Array (Option Bytes) → Array (Option Bytes)
  | [], acc => acc
  | p :: ps, acc =>
    if p.isEmpty && emptyNull then strLoop emptyNull ps (acc.push none)
    else strLoop emptyNull ps (acc.push (some p))

/-! ### the enum factory (`internal/ecolumn`) -/

def maxCardinality : Nat := 255
def nullValue : Nat := maxCardinality

/-- `ecolumn.Factory`; the Go map `valToEnum` as an association list, newest binding first. -/
structure Factory where
  values : List Bytes
  strict : Bool
  data : Array Nat
  valToEnum : List (Bytes × Nat)
  deriving Repr

def mapGet (m : List (Bytes × Nat)) (s : Bytes) : Option Nat :=
  match m.find? (·.1 == s) with
  | some e => some e.2
  | none => none

/-- `for i, v := range values { valToEnum[v] = enumVal(i) }` -/
def buildMap : List Bytes → Nat → List (Bytes × Nat) → List (Bytes × Nat)
  | [], _, m => m
  | v :: vs, i, m => buildMap vs (i + 1) ((v, i) :: m)

def newFactory (values : List Bytes) : Option Factory :=
  if values.length > maxCardinality then none
  else some { values := values, strict := values.length > 0, data := #[], valToEnum := buildMap values 0 [] }

def Factory.appendNil (f : Factory) : Factory := { f with data := f.data.push nullValue }

/-- `AppendByteString` (with `appendString` and `newEnumVal` inlined); `none` = error. -/
def Factory.appendByteString (f : Factory) (s : Bytes) : Option Factory :=
  match mapGet f.valToEnum s with
  | some e => some { f with data := f.data.push e }
  | none =>
    if f.strict then none
    else if f.values.length ≥ maxCardinality then none
    else
      let ev := f.values.length
      some { values := f.values ++ [s], strict := f.strict, valToEnum := (s, ev) :: f.valToEnum, data := f.data.push ev }

def enumLoop (emptyNull : Bool) : List Bytes → Factory → Option Factory
  | [], f => some f
  | p :: ps, f =>
    if p.isEmpty && emptyNull then enumLoop emptyNull ps f.appendNil
    else match f.appendByteString p with
      | none => none
      | some f' => enumLoop emptyNull ps f'

/-- `some r`: the block returns `r` (`none` = error); `none`: control falls through to the next block. -/
abbrev Block := Option (Option (Data × Bool))

/-- `if dataType == types.Int || dataType == types.None { … }` -/
def intBlock (po : ParseOracle) (dataType : String) (cells : List Bytes) : Block :=
  if dataType == "int" || dataType == "" then
    let r := intLoop po cells #[]
    if !r.2 then some (some (.ints r.1, false))
    else if dataType == "int" then some none
    else none
  else none

def floatBlock (po : ParseOracle) (dataType : String) (cells : List Bytes) : Block :=
  if dataType == "float" || dataType == "" then
    let r := floatLoop po cells #[]
    if !r.2 then some (some (.floats r.1, false))
    else if dataType == "float" then some none
    else none
  else none

def boolBlock (po : ParseOracle) (dataType : String) (cells : List Bytes) : Block :=
  if dataType == "bool" || dataType == "" then
    let r := boolLoop po cells #[]
    if !r.2 then some (some (.bools r.1, false))
    else if dataType == "bool" then some none
    else none
  else none

def stringBlock (cfg : CsvCfg) (dataType : String) (cells : List Bytes) : Block :=
  if dataType == "string" || dataType == "" then
    some (some (.blob (strLoop cfg.emptyNull cells #[]), false))
  else none

/-- The enum part of the Go function (factory creation, loop, `ToColumn`). -/
def enumG (en : Bool) (decl : List Bytes) (cs : List Bytes) : Option Data :=
  match newFactory decl with
  | none => none
  | some factory =>
    match enumLoop en cs factory with
    | none => none
    | some f => some (.enum f.values f.strict f.data)

def enumBlock (cfg : CsvCfg) (dataType : String) (name : Bytes) (cells : List Bytes) : Block :=
  if dataType == "enum" then
    -- `values := conf.EnumVals[colName]` (nil when absent); `delete(conf.EnumVals, colName)`
    let values := match cfg.enums.find? (·.1 == name) with
      | some e => e.2
      | none => []
    let deleted := cfg.enums.any (·.1 == name)
    match enumG cfg.emptyNull values cells with
    | none => some none
    | some d => some (some (d, deleted))
  else none

/-- The Go function. Result: `none` = an error is returned; `some (data, deleted)` = `data` is returned and
`deleted` tells whether `delete(conf.EnumVals, colName)` removed an entry. -/
def columnToDataG (po : ParseOracle) (cfg : CsvCfg) (name : Bytes) (cells : List Bytes) : Option (Data × Bool) :=
  let dataType := dataTypeOf cfg name
  if cells.length == 0 && dataType == "" then some (.empty, false) else
  match intBlock po dataType cells with
  | some r => r
  | none =>
  match floatBlock po dataType cells with
  | some r => r
  | none =>
  match boolBlock po dataType cells with
  | some r => r
  | none =>
  match stringBlock cfg dataType cells with
  | some r => r
  | none =>
  match enumBlock cfg dataType name cells with
  | some r => r
  | none => none          -- "unknown data type"

/-- Enum cell as the user observes it (`ecolumn.Column.StringAt`-like decoding). -/
def decodeEnum (values : List Bytes) (e : Nat) : Cell :=
  if e == nullValue then .str none else .str values[e]?

/-- The logical column denoted by returned data. -/
def Data.toLCol (name : Bytes) : Data → LCol
  | .empty => { name := name, ty := .undef, cells := #[] }
  | .ints a => { name := name, ty := .int, cells := (a.toList.map Cell.int).toArray }
  | .floats a => { name := name, ty := .float, cells := (a.toList.map Cell.float).toArray }
  | .bools a => { name := name, ty := .bool, cells := (a.toList.map Cell.bool).toArray }
  | .blob a => { name := name, ty := .string, cells := (a.toList.map Cell.str).toArray }
  | .enum values strict data =>
    { name := name, ty := .enum, vals := values, strict := strict, cells := (data.toList.map (decodeEnum values)).toArray }

def columnToDataM (po : ParseOracle) (cfg : CsvCfg) (name : Bytes) (cells : List Bytes) : Option (LCol × Bool) :=
  (columnToDataG po cfg name cells).map (fun r => (r.1.toLCol name, r.2))

/-- The observable part of the spec's result: on an error the flag is not observable. -/
def specView (r : Option LCol × Bool) : Option (LCol × Bool) := r.1.map (fun c => (c, r.2))


/-! ## §2 the loops -/

/-- The float parser of a cell with the `p.start == p.end` test in front. -/
def gFloat (po : ParseOracle) (c : Bytes) : Option UInt64 :=
  if c.isEmpty then some F64.canonNaN else po.pfloat c

theorem intLoop_some (po : ParseOracle) (cs : List Bytes) (acc : Array Int) (xs : List Int)
    (h : cs.mapM po.atoi = some xs) : intLoop po cs acc = (acc ++ xs.toArray, false) := by
  induction cs generalizing acc xs with
  | nil => simp at h; subst h; simp [intLoop]
  | cons c cs ih =>
    rw [mapM_cons_opt] at h
    cases hc : po.atoi c with
    | none => simp [hc] at h
    | some x =>
      cases hl : cs.mapM po.atoi with
      | none => simp [hc, hl] at h
      | some ys =>
        simp [hc, hl] at h
        subst h
        simp [intLoop, hc, ih _ _ hl]

theorem intLoop_none (po : ParseOracle) (cs : List Bytes) (acc : Array Int)
    (h : cs.mapM po.atoi = none) : (intLoop po cs acc).2 = true := by
  induction cs generalizing acc with
  | nil => simp at h
  | cons c cs ih =>
    rw [mapM_cons_opt] at h
    cases hc : po.atoi c with
    | none => simp [intLoop, hc]
    | some x =>
      cases hl : cs.mapM po.atoi with
      | none => simp [intLoop, hc, ih _ hl]
      | some ys => simp [hc, hl] at h

theorem floatLoop_some (po : ParseOracle) (cs : List Bytes) (acc : Array UInt64) (xs : List UInt64)
    (h : cs.mapM (gFloat po) = some xs) : floatLoop po cs acc = (acc ++ xs.toArray, false) := by
  induction cs generalizing acc xs with
  | nil => simp at h; subst h; simp [floatLoop]
  | cons c cs ih =>
    rw [mapM_cons_opt] at h
    cases hc : gFloat po c with
    | none => simp [hc] at h
    | some x =>
      cases hl : cs.mapM (gFloat po) with
      | none => simp [hc, hl] at h
      | some ys =>
        simp [hc, hl] at h
        subst h
        unfold gFloat at hc
        by_cases he : c.isEmpty
        · simp [he] at hc; subst hc
          simp [floatLoop, he, ih _ _ hl]
        · simp [he] at hc
          simp [floatLoop, he, hc, ih _ _ hl]

theorem floatLoop_none (po : ParseOracle) (cs : List Bytes) (acc : Array UInt64)
    (h : cs.mapM (gFloat po) = none) : (floatLoop po cs acc).2 = true := by
  induction cs generalizing acc with
  | nil => simp at h
  | cons c cs ih =>
    rw [mapM_cons_opt] at h
    cases hc : gFloat po c with
    | none =>
      unfold gFloat at hc
      by_cases he : c.isEmpty
      · simp [he] at hc
      · simp [he] at hc; simp [floatLoop, he, hc]
    | some x =>
      cases hl : cs.mapM (gFloat po) with
      | none =>
        unfold gFloat at hc
        by_cases he : c.isEmpty
        · simp [floatLoop, he, ih _ hl]
        · simp [he] at hc; simp [floatLoop, he, hc, ih _ hl]
      | some ys => simp [hc, hl] at h

theorem boolLoop_some (po : ParseOracle) (cs : List Bytes) (acc : Array Bool) (xs : List Bool)
    (h : cs.mapM po.pbool = some xs) : boolLoop po cs acc = (acc ++ xs.toArray, false) := by
  induction cs generalizing acc xs with
  | nil => simp at h; subst h; simp [boolLoop]
  | cons c cs ih =>
    rw [mapM_cons_opt] at h
    cases hc : po.pbool c with
    | none => simp [hc] at h
    | some x =>
      cases hl : cs.mapM po.pbool with
      | none => simp [hc, hl] at h
      | some ys =>
        simp [hc, hl] at h
        subst h
        simp [boolLoop, hc, ih _ _ hl]

theorem boolLoop_none (po : ParseOracle) (cs : List Bytes) (acc : Array Bool)
    (h : cs.mapM po.pbool = none) : (boolLoop po cs acc).2 = true := by
  induction cs generalizing acc with
  | nil => simp at h
  | cons c cs ih =>
    rw [mapM_cons_opt] at h
    cases hc : po.pbool c with
    | none => simp [boolLoop, hc]
    | some x =>
      cases hl : cs.mapM po.pbool with
      | none => simp [boolLoop, hc, ih _ hl]
      | some ys => simp [hc, hl] at h

/-- The pointer written for one cell by the string loop. -/
def strPtr (emptyNull : Bool) (c : Bytes) : Option Bytes := if c.isEmpty && emptyNull then none else some c

theorem strLoop_eq (en : Bool) (cs : List Bytes) (acc : Array (Option Bytes)) :
    strLoop en cs acc = acc ++ (cs.map (strPtr en)).toArray := by
  induction cs generalizing acc with
  | nil => simp [strLoop]
  | cons c cs ih =>
    by_cases he : (c.isEmpty && en) = true
    · simp [strLoop, strPtr, he, ih]
    · simp [strLoop, strPtr, he, ih]


/-! ## §3 the enum factory -/

/-- The cell the specification makes of a cell text in a string or enum column. -/
def strCell (emptyNull : Bool) (c : Bytes) : Cell := if c.isEmpty && emptyNull then Cell.str none else Cell.str (some c)

theorem strCell_eq (en : Bool) (c : Bytes) : strCell en c = Cell.str (strPtr en c) := by
  unfold strCell strPtr; split <;> rfl

/-- The step of the fold in `mkEnum` (values in order of first appearance). -/
def enumStep (acc : List Bytes) (c : Cell) : List Bytes :=
  match c with
  | .str (some s) => if acc.contains s then acc else acc ++ [s]
  | _ => acc

theorem enumStep_length_le (acc : List Bytes) (c : Cell) : acc.length ≤ (enumStep acc c).length := by
  unfold enumStep
  split
  · split <;> simp
  · exact Nat.le_refl _

theorem foldl_enumStep_length_le (cs : List Cell) (acc : List Bytes) :
    acc.length ≤ (cs.foldl enumStep acc).length := by
  induction cs generalizing acc with
  | nil => exact Nat.le_refl _
  | cons c cs ih => exact Nat.le_trans (enumStep_length_le acc c) (ih _)

theorem mapGet_cons (k : Bytes) (v : Nat) (m : List (Bytes × Nat)) (s : Bytes) :
    mapGet ((k, v) :: m) s = if k = s then some v else mapGet m s := by
  unfold mapGet
  by_cases h : k = s
  · simp [h]
  · simp [h]

theorem buildMap_get_some (P : Bytes → Nat → Prop) (vs : List Bytes) (i : Nat) (m : List (Bytes × Nat))
    (hm : ∀ s e, mapGet m s = some e → P s e)
    (hv : ∀ j (h : j < vs.length), P vs[j] (i + j)) :
    ∀ s e, mapGet (buildMap vs i m) s = some e → P s e := by
  induction vs generalizing i m with
  | nil => simpa [buildMap] using hm
  | cons v vs ih =>
    unfold buildMap
    apply ih
    · intro s e
      rw [mapGet_cons]
      split
      · rename_i hvs
        intro he
        simp only [Option.some.injEq] at he
        subst he; subst hvs
        exact hv 0 (by simp)
      · exact hm s e
    · intro j h
      have := hv (j + 1) (by simpa using h)
      simpa [Nat.add_assoc, Nat.add_comm 1 j] using this

theorem buildMap_get_none (vs : List Bytes) (i : Nat) (m : List (Bytes × Nat)) (s : Bytes) :
    mapGet (buildMap vs i m) s = none ↔ mapGet m s = none ∧ s ∉ vs := by
  induction vs generalizing i m with
  | nil => simp [buildMap]
  | cons v vs ih =>
    unfold buildMap
    rw [ih, mapGet_cons]
    by_cases h : v = s
    · simp [h]
    · have h' : ¬ s = v := fun e => h e.symm
      simp [h, h']

/-- Decoded data of a factory. -/
def Factory.dec (f : Factory) : List Cell := f.data.toList.map (decodeEnum f.values)

structure Factory.Inv (f : Factory) : Prop where
  len : f.values.length ≤ 255
  get_some : ∀ s e, mapGet f.valToEnum s = some e → f.values[e]? = some s
  get_none : ∀ s, mapGet f.valToEnum s = none ↔ s ∉ f.values
  data : ∀ e ∈ f.data.toList, e = 255 ∨ e < f.values.length

theorem newFactory_none (values : List Bytes) (h : values.length > 255) : newFactory values = none := by
  simp [newFactory, maxCardinality, h]

theorem newFactory_some (values : List Bytes) (h : ¬ values.length > 255) :
    ∃ f, newFactory values = some f ∧ f.Inv ∧ f.values = values ∧ f.strict = decide (values.length > 0) ∧ f.dec = [] := by
  refine ⟨_, by simp only [newFactory, maxCardinality, h, ↓reduceIte]; rfl, ?_, rfl, rfl, by simp [Factory.dec]⟩
  constructor
  · simp only; omega
  · apply buildMap_get_some (fun s e => values[e]? = some s)
    · intro s e h; simp [mapGet] at h
    · intro j h; simp [h]
  · intro s
    simp only
    rw [buildMap_get_none]
    simp [mapGet]
  · simp

theorem Factory.Inv.appendNil {f : Factory} (hi : f.Inv) : f.appendNil.Inv := by
  constructor
  · exact hi.len
  · exact hi.get_some
  · exact hi.get_none
  · intro e he
    simp only [Factory.appendNil, Array.toList_push, List.mem_append, List.mem_singleton] at he
    rcases he with he | he
    · exact hi.data e he
    · left; simpa [nullValue, maxCardinality] using he

theorem Factory.dec_appendNil (f : Factory) : f.appendNil.dec = f.dec ++ [Cell.str none] := by
  simp [Factory.dec, Factory.appendNil, decodeEnum]

theorem decodeEnum_lt {values : List Bytes} {e : Nat} {s : Bytes} (hl : values.length ≤ 255)
    (h : values[e]? = some s) : decodeEnum values e = Cell.str (some s) := by
  have hlt : e < values.length := by
    rcases Nat.lt_or_ge e values.length with h' | h'
    · exact h'
    · rw [List.getElem?_eq_none h'] at h; simp at h
  have : e ≠ 255 := by omega
  simp [decodeEnum, nullValue, maxCardinality, this, h]

theorem decodeEnum_append {values : List Bytes} {e : Nat} (s : Bytes)
    (h : e = 255 ∨ e < values.length) : decodeEnum (values ++ [s]) e = decodeEnum values e := by
  unfold decodeEnum
  rcases h with h | h
  · simp [h, nullValue, maxCardinality]
  · rw [List.getElem?_append_left h]

/-- `AppendByteString` when the value is already in the table. -/
theorem append_known {f : Factory} (hi : f.Inv) {s : Bytes} (hs : s ∈ f.values) :
    ∃ f', f.appendByteString s = some f' ∧ f'.Inv ∧ f'.values = f.values ∧ f'.strict = f.strict ∧
      f'.dec = f.dec ++ [Cell.str (some s)] := by
  cases hg : mapGet f.valToEnum s with
  | none => exact absurd hs ((hi.get_none s).1 hg)
  | some e =>
    have hv := hi.get_some s e hg
    have hlt : e < f.values.length := by
      rcases Nat.lt_or_ge e f.values.length with h' | h'
      · exact h'
      · rw [List.getElem?_eq_none h'] at hv; simp at hv
    refine ⟨{ f with data := f.data.push e }, by simp [Factory.appendByteString, hg], ?_, rfl, rfl, ?_⟩
    · constructor
      · exact hi.len
      · exact hi.get_some
      · exact hi.get_none
      · intro e' he
        simp only [Array.toList_push, List.mem_append, List.mem_singleton] at he
        rcases he with he | he
        · exact hi.data e' he
        · right; subst he; exact hlt
    · simp [Factory.dec, decodeEnum_lt hi.len hv]

/-- `AppendByteString` of an unknown value to a strict factory. -/
theorem append_strict {f : Factory} (hi : f.Inv) {s : Bytes} (hs : s ∉ f.values) (hst : f.strict = true) :
    f.appendByteString s = none := by
  have hg := (hi.get_none s).2 hs
  simp [Factory.appendByteString, hg, hst]

theorem append_full {f : Factory} (hi : f.Inv) {s : Bytes} (hs : s ∉ f.values) (hl : f.values.length ≥ 255) :
    f.appendByteString s = none := by
  have hg := (hi.get_none s).2 hs
  simp only [Factory.appendByteString, hg, maxCardinality]
  split
  · rfl
  · simp [hl]

theorem append_new {f : Factory} (hi : f.Inv) {s : Bytes} (hs : s ∉ f.values) (hst : f.strict = false)
    (hl : f.values.length < 255) :
    ∃ f', f.appendByteString s = some f' ∧ f'.Inv ∧ f'.values = f.values ++ [s] ∧ f'.strict = false ∧
      f'.dec = f.dec ++ [Cell.str (some s)] := by
  have hg := (hi.get_none s).2 hs
  have hnl : ¬ f.values.length ≥ 255 := by omega
  refine ⟨{ values := f.values ++ [s], strict := f.strict, valToEnum := (s, f.values.length) :: f.valToEnum,
            data := f.data.push f.values.length },
          by simp [Factory.appendByteString, hg, hst, maxCardinality, hnl], ?_, rfl, hst, ?_⟩
  · constructor
    · simp only [List.length_append, List.length_singleton]; omega
    · intro s' e'
      simp only
      rw [mapGet_cons]
      split
      · rename_i h; subst h
        intro he; simp only [Option.some.injEq] at he; subst he
        simp
      · intro he
        have := hi.get_some s' e' he
        have hlt : e' < f.values.length := by
          rcases Nat.lt_or_ge e' f.values.length with h' | h'
          · exact h'
          · rw [List.getElem?_eq_none h'] at this; simp at this
        rw [List.getElem?_append_left hlt]; exact this
    · intro s'
      simp only
      rw [mapGet_cons]
      by_cases h : s = s'
      · simp [h]
      · have h' : ¬ s' = s := fun e => h e.symm
        simp [h, h', hi.get_none s']
    · intro e' he
      simp only [Array.toList_push, List.mem_append, List.mem_singleton, List.length_append,
        List.length_singleton] at he ⊢
      rcases he with he | he
      · rcases hi.data e' he with h | h
        · left; exact h
        · right; omega
      · right; omega
  · simp only [Factory.dec, Array.toList_push, List.map_append, List.map_cons, List.map_nil]
    congr 1
    · apply List.map_congr_left
      intro e he
      exact decodeEnum_append s (hi.data e he)
    · have : (f.values ++ [s])[f.values.length]? = some s := by simp
      rw [decodeEnum_lt (by simp only [List.length_append, List.length_singleton]; omega) this]


theorem enumLoop_nonstrict (en : Bool) (cs : List Bytes) (f : Factory) (hi : f.Inv) (hst : f.strict = false) :
    (255 < ((cs.map (strCell en)).foldl enumStep f.values).length → enumLoop en cs f = none) ∧
    (¬ 255 < ((cs.map (strCell en)).foldl enumStep f.values).length →
      ∃ f', enumLoop en cs f = some f' ∧ f'.values = (cs.map (strCell en)).foldl enumStep f.values ∧
        f'.strict = false ∧ f'.dec = f.dec ++ cs.map (strCell en)) := by
  induction cs generalizing f with
  | nil =>
    have := hi.len
    simp only [List.map_nil, List.foldl_nil, enumLoop, List.append_nil]
    exact ⟨fun h => by omega, fun _ => ⟨f, rfl, rfl, hst, rfl⟩⟩
  | cons c cs ih =>
    by_cases hn : (c.isEmpty && en) = true
    · -- a null cell
      have hc : strCell en c = Cell.str none := by simp [strCell, hn]
      have ih' := ih f.appendNil hi.appendNil hst
      simp only [List.map_cons, List.foldl_cons, hc, enumStep, enumLoop, hn, ↓reduceIte]
      have hv : f.appendNil.values = f.values := rfl
      rw [hv, Factory.dec_appendNil] at ih'
      simpa [List.append_assoc] using ih'
    · have hc : strCell en c = Cell.str (some c) := by simp [strCell, hn]
      simp only [List.map_cons, List.foldl_cons, hc, enumLoop, hn]
      by_cases hm : c ∈ f.values
      · obtain ⟨f₁, ha, hi₁, hv₁, hs₁, hd₁⟩ := append_known hi hm
        have hstep : enumStep f.values (Cell.str (some c)) = f.values := by simp [enumStep, hm]
        have ih' := ih f₁ hi₁ (hs₁.trans hst)
        rw [hv₁, hd₁] at ih'
        simp only [hstep, ha, Bool.false_eq_true, ↓reduceIte]
        simpa [List.append_assoc] using ih'
      · have hstep : enumStep f.values (Cell.str (some c)) = f.values ++ [c] := by simp [enumStep, hm]
        rw [hstep]
        by_cases hl : f.values.length < 255
        · obtain ⟨f₁, ha, hi₁, hv₁, hs₁, hd₁⟩ := append_new hi hm hst hl
          have ih' := ih f₁ hi₁ hs₁
          rw [hv₁, hd₁] at ih'
          simp only [ha, Bool.false_eq_true, ↓reduceIte]
          simpa [List.append_assoc] using ih'
        · have ha := append_full hi hm (by omega)
          have hge := foldl_enumStep_length_le (cs.map (strCell en)) (f.values ++ [c])
          simp only [List.length_append, List.length_singleton] at hge
          simp only [ha, Bool.false_eq_true, ↓reduceIte]
          exact ⟨fun _ => trivial, fun h => by omega⟩

/-- The test of `mkEnum` for declared values. -/
def declOk (declared : List Bytes) (c : Cell) : Bool :=
  match c with
  | .str (some s) => declared.contains s
  | _ => true

theorem enumLoop_strict (en : Bool) (cs : List Bytes) (f : Factory) (hi : f.Inv) (hst : f.strict = true) :
    ((cs.map (strCell en)).all (declOk f.values) = false → enumLoop en cs f = none) ∧
    ((cs.map (strCell en)).all (declOk f.values) = true →
      ∃ f', enumLoop en cs f = some f' ∧ f'.values = f.values ∧
        f'.strict = true ∧ f'.dec = f.dec ++ cs.map (strCell en)) := by
  induction cs generalizing f with
  | nil =>
    simp only [List.map_nil, List.all_nil, enumLoop, List.append_nil]
    exact ⟨fun h => by simp at h, fun _ => ⟨f, rfl, rfl, hst, rfl⟩⟩
  | cons c cs ih =>
    by_cases hn : (c.isEmpty && en) = true
    · have hc : strCell en c = Cell.str none := by simp [strCell, hn]
      have ih' := ih f.appendNil hi.appendNil hst
      simp only [List.map_cons, List.all_cons, hc, declOk, enumLoop, hn, ↓reduceIte, Bool.true_and]
      have hv : f.appendNil.values = f.values := rfl
      rw [hv, Factory.dec_appendNil] at ih'
      simpa [List.append_assoc] using ih'
    · have hc : strCell en c = Cell.str (some c) := by simp [strCell, hn]
      simp only [List.map_cons, List.all_cons, hc, enumLoop, hn]
      by_cases hm : c ∈ f.values
      · obtain ⟨f₁, ha, hi₁, hv₁, hs₁, hd₁⟩ := append_known hi hm
        have hok : declOk f.values (Cell.str (some c)) = true := by simp [declOk, hm]
        have ih' := ih f₁ hi₁ (hs₁.trans hst)
        rw [hv₁, hd₁] at ih'
        simp only [hok, ha, Bool.false_eq_true, ↓reduceIte, Bool.true_and]
        simpa [List.append_assoc] using ih'
      · have hok : declOk f.values (Cell.str (some c)) = false := by simp [declOk, hm]
        have ha := append_strict hi hm hst
        simp only [hok, ha, Bool.false_eq_true, ↓reduceIte, Bool.false_and]
        exact ⟨fun _ => trivial, fun h => by simp at h⟩


theorem mkEnum_eq (decl : List Bytes) (src : List Cell) :
    mkEnum decl src =
      if decl.length > 255 then none
      else if !decl.isEmpty then (if src.all (declOk decl) then some (decl, true) else none)
      else if (src.foldl enumStep []).length > 255 then none else some (src.foldl enumStep [], false) := rfl

theorem enumG_eq (en : Bool) (decl : List Bytes) (cs : List Bytes) (name : Bytes) :
    (enumG en decl cs).map (Data.toLCol name) =
      (mkEnum decl (cs.map (strCell en))).map (fun r =>
        ({ name := name, ty := .enum, vals := r.1, strict := r.2, cells := (cs.map (strCell en)).toArray } : LCol)) := by
  rw [mkEnum_eq]
  unfold enumG
  by_cases hl : decl.length > 255
  · simp [newFactory_none decl hl, hl]
  · obtain ⟨fac, hf, hi, hv, hs, hd⟩ := newFactory_some decl hl
    simp only [hf, hl, ↓reduceIte]
    have hcells : ∀ f' : Factory, f'.dec = fac.dec ++ cs.map (strCell en) →
        (f'.data.toList.map (decodeEnum f'.values)).toArray = (cs.map (strCell en)).toArray := by
      intro f' h
      rw [hd, List.nil_append] at h
      exact congrArg List.toArray h
    by_cases he : decl.isEmpty = true
    · -- no declared values: not strict
      have hd0 : decl = [] := List.isEmpty_iff.1 he
      have hst : fac.strict = false := by rw [hs, hd0]; rfl
      have hL := enumLoop_nonstrict en cs fac hi hst
      rw [hv, hd0] at hL
      simp only [he, Bool.not_true, Bool.false_eq_true, ↓reduceIte]
      by_cases hc : 255 < ((cs.map (strCell en)).foldl enumStep []).length
      · simp [hL.1 hc, hc]
      · obtain ⟨f', hr, hv', hs', hd'⟩ := hL.2 hc
        have hcl := hcells f' hd'
        rw [hv'] at hcl
        simp only [hr, hc, ↓reduceIte, Option.map_some, Data.toLCol, hv', hs', hcl]
    · have hpos : decl.length > 0 := by
        cases decl with
        | nil => simp at he
        | cons _ _ => simp
      have hst : fac.strict = true := by rw [hs]; simp [hpos]
      have hL := enumLoop_strict en cs fac hi hst
      rw [hv] at hL
      simp only [he, Bool.not_false, ↓reduceIte]
      cases hc : (cs.map (strCell en)).all (declOk decl) with
      | false => simp [hL.1 hc]
      | true =>
        obtain ⟨f', hr, hv', hs', hd'⟩ := hL.2 hc
        have hcl := hcells f' hd'
        rw [hv'] at hcl
        simp only [hr, ↓reduceIte, Option.map_some, Data.toLCol, hv', hs', hcl]


/-! ## §4 the mirror is the specification -/

theorem dataTypeOf_some {cfg : CsvCfg} {name : Bytes} {s : String}
    (h : (cfg.types.find? (·.1 == name)).map (·.2) = some s) : dataTypeOf cfg name = s := by
  unfold dataTypeOf
  cases hf : cfg.types.find? (·.1 == name) with
  | none => simp [hf] at h
  | some e => simpa [hf] using h

theorem dataTypeOf_none {cfg : CsvCfg} {name : Bytes}
    (h : (cfg.types.find? (·.1 == name)).map (·.2) = none) : dataTypeOf cfg name = "" := by
  unfold dataTypeOf
  cases hf : cfg.types.find? (·.1 == name) with
  | none => rfl
  | some e => simp [hf] at h

theorem spec_int_fun (po : ParseOracle) :
    (fun c => Option.map Cell.int (po.atoi c)) = fun c => (po.atoi c).map Cell.int := rfl

theorem spec_float_fun (po : ParseOracle) :
    (fun c : Bytes => if c.isEmpty = true then some (Cell.float F64.canonNaN) else Option.map Cell.float (po.pfloat c))
      = fun c => (gFloat po c).map Cell.float := by
  funext c
  unfold gFloat
  split <;> rfl

theorem spec_str_fun (en : Bool) :
    (fun c : Bytes => if (c.isEmpty && en) = true then Cell.str none else Cell.str (some c)) = strCell en := rfl

/-- The untyped case of the specification, with the parsers of the loops. -/
def inferS (po : ParseOracle) (en : Bool) (name : Bytes) (cells : List Bytes) : LCol :=
  if cells.isEmpty then { name := name, ty := .undef, cells := #[] }
  else match cells.mapM po.atoi with
    | some xs => { name := name, ty := .int, cells := (xs.map Cell.int).toArray }
    | none => match cells.mapM (gFloat po) with
      | some xs => { name := name, ty := .float, cells := (xs.map Cell.float).toArray }
      | none => match cells.mapM po.pbool with
        | some xs => { name := name, ty := .bool, cells := (xs.map Cell.bool).toArray }
        | none => { name := name, ty := .string, cells := (cells.map (strCell en)).toArray }

theorem csvColumn_untyped (po : ParseOracle) (cfg : CsvCfg) (name : Bytes) (cells : List Bytes)
    (h : dataTypeOf cfg name = "") :
    csvColumn po cfg name cells = (some (inferS po cfg.emptyNull name cells), false) := by
  have key : (if cells.isEmpty = true then ((some { name := name, ty := CType.undef, cells := #[] } : Option LCol), false)
    else
      match List.mapM (fun c => Option.map Cell.int (po.atoi c)) cells with
      | some cs => (some { name := name, ty := CType.int, cells := cs.toArray }, false)
      | none =>
        match
          List.mapM
            (fun c =>
              if List.isEmpty c = true then some (Cell.float F64.canonNaN) else Option.map Cell.float (po.pfloat c))
            cells with
        | some cs => (some { name := name, ty := CType.float, cells := cs.toArray }, false)
        | none =>
          match List.mapM (fun c => Option.map Cell.bool (po.pbool c)) cells with
          | some cs => (some { name := name, ty := CType.bool, cells := cs.toArray }, false)
          | none =>
            (some
                { name := name, ty := CType.string,
                  cells :=
                    (List.map
                        (fun c => if (List.isEmpty c && cfg.emptyNull) = true then Cell.str none else Cell.str (some c))
                        cells).toArray },
              false)) = (some (inferS po cfg.emptyNull name cells), false) := by
    unfold inferS
    rw [spec_float_fun, spec_str_fun, mapM_map_opt, mapM_map_opt, mapM_map_opt]
    split
    · rfl
    · cases cells.mapM po.atoi with
      | some xs => rfl
      | none =>
        cases cells.mapM (gFloat po) with
        | some xs => rfl
        | none =>
          cases cells.mapM po.pbool with
          | some xs => rfl
          | none => rfl
  unfold csvColumn
  simp only []
  split
  · exact key
  · exact key
  all_goals
    rename_i heq
    have := dataTypeOf_some heq
    rw [h] at this
    first
      | exact absurd this (by decide)
      | (rename_i h0 _ _ _ _ _; exact absurd this.symm h0)


theorem intBlock_some (po : ParseOracle) (dt : String) (cells : List Bytes) (xs : List Int)
    (hdt : dt = "int" ∨ dt = "") (h : cells.mapM po.atoi = some xs) :
    intBlock po dt cells = some (some (.ints xs.toArray, false)) := by
  have := intLoop_some po cells #[] xs h
  rcases hdt with rfl | rfl <;> simp [intBlock, this]

theorem intBlock_none_typed (po : ParseOracle) (cells : List Bytes)
    (h : cells.mapM po.atoi = none) : intBlock po "int" cells = some none := by
  have := intLoop_none po cells #[] h
  simp [intBlock, this]

theorem intBlock_none_untyped (po : ParseOracle) (cells : List Bytes)
    (h : cells.mapM po.atoi = none) : intBlock po "" cells = none := by
  have := intLoop_none po cells #[] h
  simp [intBlock, this]

theorem intBlock_other (po : ParseOracle) (dt : String) (cells : List Bytes)
    (h1 : dt ≠ "int") (h2 : dt ≠ "") : intBlock po dt cells = none := by
  simp [intBlock, h1, h2]

theorem floatBlock_some (po : ParseOracle) (dt : String) (cells : List Bytes) (xs : List UInt64)
    (hdt : dt = "float" ∨ dt = "") (h : cells.mapM (gFloat po) = some xs) :
    floatBlock po dt cells = some (some (.floats xs.toArray, false)) := by
  have := floatLoop_some po cells #[] xs h
  rcases hdt with rfl | rfl <;> simp [floatBlock, this]

theorem floatBlock_none_typed (po : ParseOracle) (cells : List Bytes)
    (h : cells.mapM (gFloat po) = none) : floatBlock po "float" cells = some none := by
  have := floatLoop_none po cells #[] h
  simp [floatBlock, this]

theorem floatBlock_none_untyped (po : ParseOracle) (cells : List Bytes)
    (h : cells.mapM (gFloat po) = none) : floatBlock po "" cells = none := by
  have := floatLoop_none po cells #[] h
  simp [floatBlock, this]

theorem floatBlock_other (po : ParseOracle) (dt : String) (cells : List Bytes)
    (h1 : dt ≠ "float") (h2 : dt ≠ "") : floatBlock po dt cells = none := by
  simp [floatBlock, h1, h2]

theorem boolBlock_some (po : ParseOracle) (dt : String) (cells : List Bytes) (xs : List Bool)
    (hdt : dt = "bool" ∨ dt = "") (h : cells.mapM po.pbool = some xs) :
    boolBlock po dt cells = some (some (.bools xs.toArray, false)) := by
  have := boolLoop_some po cells #[] xs h
  rcases hdt with rfl | rfl <;> simp [boolBlock, this]

theorem boolBlock_none_typed (po : ParseOracle) (cells : List Bytes)
    (h : cells.mapM po.pbool = none) : boolBlock po "bool" cells = some none := by
  have := boolLoop_none po cells #[] h
  simp [boolBlock, this]

theorem boolBlock_none_untyped (po : ParseOracle) (cells : List Bytes)
    (h : cells.mapM po.pbool = none) : boolBlock po "" cells = none := by
  have := boolLoop_none po cells #[] h
  simp [boolBlock, this]

theorem boolBlock_other (po : ParseOracle) (dt : String) (cells : List Bytes)
    (h1 : dt ≠ "bool") (h2 : dt ≠ "") : boolBlock po dt cells = none := by
  simp [boolBlock, h1, h2]

theorem stringBlock_some (cfg : CsvCfg) (dt : String) (cells : List Bytes) (hdt : dt = "string" ∨ dt = "") :
    stringBlock cfg dt cells = some (some (.blob (cells.map (strPtr cfg.emptyNull)).toArray, false)) := by
  rcases hdt with rfl | rfl <;> simp [stringBlock, strLoop_eq]

theorem stringBlock_other (cfg : CsvCfg) (dt : String) (cells : List Bytes)
    (h1 : dt ≠ "string") (h2 : dt ≠ "") : stringBlock cfg dt cells = none := by
  simp [stringBlock, h1, h2]

theorem blob_toLCol (name : Bytes) (en : Bool) (cells : List Bytes) :
    (Data.blob (cells.map (strPtr en)).toArray).toLCol name =
      { name := name, ty := .string, cells := (cells.map (strCell en)).toArray } := by
  simp [Data.toLCol, strCell_eq]

theorem columnToDataM_untyped (po : ParseOracle) (cfg : CsvCfg) (name : Bytes) (cells : List Bytes)
    (h : dataTypeOf cfg name = "") :
    columnToDataM po cfg name cells = some (inferS po cfg.emptyNull name cells, false) := by
  unfold columnToDataM columnToDataG inferS
  simp only [h]
  cases cells with
  | nil => simp [Data.toLCol]
  | cons c cs =>
    simp only [List.length_cons, Nat.add_eq_zero_iff, Nat.succ_ne_self, and_false, beq_self_eq_true,
      Bool.and_true, List.isEmpty_cons, Bool.false_eq_true, ↓reduceIte, beq_iff_eq]
    cases hi : (c :: cs).mapM po.atoi with
    | some xs => simp [intBlock_some po "" _ xs (Or.inr rfl) hi, Data.toLCol]
    | none =>
      rw [intBlock_none_untyped po _ hi]
      cases hf : (c :: cs).mapM (gFloat po) with
      | some xs => simp [floatBlock_some po "" _ xs (Or.inr rfl) hf, Data.toLCol]
      | none =>
        rw [floatBlock_none_untyped po _ hf]
        cases hb : (c :: cs).mapM po.pbool with
        | some xs => simp [boolBlock_some po "" _ xs (Or.inr rfl) hb, Data.toLCol]
        | none =>
          rw [boolBlock_none_untyped po _ hb, stringBlock_some cfg "" _ (Or.inr rfl)]
          simp only [Option.map_some, blob_toLCol]


theorem columnToDataG_typed (po : ParseOracle) (cfg : CsvCfg) (name : Bytes) (cells : List Bytes)
    (h : dataTypeOf cfg name ≠ "") :
    columnToDataG po cfg name cells =
      match intBlock po (dataTypeOf cfg name) cells with
      | some r => r
      | none =>
      match floatBlock po (dataTypeOf cfg name) cells with
      | some r => r
      | none =>
      match boolBlock po (dataTypeOf cfg name) cells with
      | some r => r
      | none =>
      match stringBlock cfg (dataTypeOf cfg name) cells with
      | some r => r
      | none =>
      match enumBlock cfg (dataTypeOf cfg name) name cells with
      | some r => r
      | none => none := by
  unfold columnToDataG
  simp [h]

theorem enumBlock_other (cfg : CsvCfg) (dt : String) (name : Bytes) (cells : List Bytes)
    (h : dt ≠ "enum") : enumBlock cfg dt name cells = none := by
  simp [enumBlock, h]

theorem columnToData_eq_spec (po : ParseOracle) (cfg : CsvCfg) (name : Bytes) (cells : List Bytes) :
    columnToDataM po cfg name cells = specView (csvColumn po cfg name cells) := by
  by_cases hu : dataTypeOf cfg name = ""
  · rw [columnToDataM_untyped po cfg name cells hu, csvColumn_untyped po cfg name cells hu]; rfl
  · unfold columnToDataM
    generalize hg : columnToDataG po cfg name cells = g
    rw [columnToDataG_typed po cfg name cells hu] at hg
    unfold csvColumn specView
    simp only []
    split <;> subst hg
    · rename_i heq; exact absurd (dataTypeOf_none heq) hu
    · rename_i heq; exact absurd (dataTypeOf_some heq) hu
    · -- int
      rename_i heq
      rw [dataTypeOf_some heq, mapM_map_opt]
      cases hi : cells.mapM po.atoi with
      | some xs => simp [intBlock_some po "int" _ xs (Or.inl rfl) hi, Data.toLCol]
      | none => simp [intBlock_none_typed po _ hi]
    · -- float
      rename_i heq
      rw [dataTypeOf_some heq, spec_float_fun, mapM_map_opt, intBlock_other po _ _ (by decide) (by decide)]
      cases hi : cells.mapM (gFloat po) with
      | some xs => simp [floatBlock_some po "float" _ xs (Or.inl rfl) hi, Data.toLCol]
      | none => simp [floatBlock_none_typed po _ hi]
    · -- bool
      rename_i heq
      rw [dataTypeOf_some heq, mapM_map_opt, intBlock_other po _ _ (by decide) (by decide),
        floatBlock_other po _ _ (by decide) (by decide)]
      cases hi : cells.mapM po.pbool with
      | some xs => simp [boolBlock_some po "bool" _ xs (Or.inl rfl) hi, Data.toLCol]
      | none => simp [boolBlock_none_typed po _ hi]
    · -- string
      rename_i heq
      rw [dataTypeOf_some heq, spec_str_fun, intBlock_other po _ _ (by decide) (by decide),
        floatBlock_other po _ _ (by decide) (by decide), boolBlock_other po _ _ (by decide) (by decide),
        stringBlock_some cfg "string" _ (Or.inl rfl)]
      simp only [Option.map_some, blob_toLCol]
    · -- enum
      rename_i heq
      rw [dataTypeOf_some heq, spec_str_fun, intBlock_other po _ _ (by decide) (by decide),
        floatBlock_other po _ _ (by decide) (by decide), boolBlock_other po _ _ (by decide) (by decide),
        stringBlock_other cfg _ _ (by decide) (by decide)]
      have hdecl : ((cfg.enums.find? (·.1 == name)).map (·.2)).getD [] =
          (match cfg.enums.find? (·.1 == name) with | some e => e.2 | none => []) := by
        cases cfg.enums.find? (·.1 == name) <;> rfl
      have hG := enumG_eq cfg.emptyNull
        (match cfg.enums.find? (·.1 == name) with | some e => e.2 | none => []) cells name
      simp only [enumBlock, beq_self_eq_true, ↓reduceIte]
      rw [hdecl]
      cases hg : enumG cfg.emptyNull (match cfg.enums.find? (·.1 == name) with | some e => e.2 | none => []) cells with
      | none =>
        rw [hg] at hG
        cases hm : mkEnum (match cfg.enums.find? (·.1 == name) with | some e => e.2 | none => [])
            (cells.map (strCell cfg.emptyNull)) with
        | none => simp
        | some r => rw [hm] at hG; simp at hG
      | some d =>
        rw [hg] at hG
        cases hm : mkEnum (match cfg.enums.find? (·.1 == name) with | some e => e.2 | none => [])
            (cells.map (strCell cfg.emptyNull)) with
        | none => rw [hm] at hG; simp at hG
        | some r =>
          rw [hm] at hG
          simp only [Option.map_some, Option.some.injEq] at hG
          simp [hG]
    · -- unknown type
      rename_i h0 h1 h2 h3 h4 h5 heq
      have hd := dataTypeOf_some heq
      rw [hd, intBlock_other po _ _ (fun e => h1 e) (fun e => h0 e),
        floatBlock_other po _ _ (fun e => h2 e) (fun e => h0 e),
        boolBlock_other po _ _ (fun e => h3 e) (fun e => h0 e),
        stringBlock_other cfg _ _ (fun e => h4 e) (fun e => h0 e),
        enumBlock_other cfg _ _ _ (fun e => h5 e)]
      rfl


/-- The same with the spec's pair: on an error the specification's flag is `true` exactly for a declared enum. -/
theorem columnToData_eq_spec_pair (po : ParseOracle) (cfg : CsvCfg) (name : Bytes) (cells : List Bytes) :
    csvColumn po cfg name cells =
      match columnToDataM po cfg name cells with
      | some (c, consumed) => (some c, consumed)
      | none => (none, dataTypeOf cfg name == "enum") := by
  rw [columnToData_eq_spec]
  by_cases hu : dataTypeOf cfg name = ""
  · rw [csvColumn_untyped po cfg name cells hu]; rfl
  · unfold csvColumn specView
    simp only []
    split
    · rename_i heq; exact absurd (dataTypeOf_none heq) hu
    · rename_i heq; exact absurd (dataTypeOf_some heq) hu
    · rename_i heq; rw [dataTypeOf_some heq]
      cases List.mapM (fun c => Option.map Cell.int (po.atoi c)) cells <;> rfl
    · rename_i heq; rw [dataTypeOf_some heq]
      cases List.mapM (fun c : Bytes => if c.isEmpty = true then some (Cell.float F64.canonNaN)
        else Option.map Cell.float (po.pfloat c)) cells <;> rfl
    · rename_i heq; rw [dataTypeOf_some heq]
      cases List.mapM (fun c => Option.map Cell.bool (po.pbool c)) cells <;> rfl
    · rfl
    · rename_i heq; rw [dataTypeOf_some heq]
      split
      · rfl
      · rfl
    · rename_i h0 h1 h2 h3 h4 h5 heq
      rw [dataTypeOf_some heq]
      have : (_ == "enum") = false := beq_false_of_ne (fun e => h5 e)
      simp [this]

/-! ## §5 the declarative characterisation of type inference -/

theorem Forall₂.imp {α β} {R S : α → β → Prop} {l₁ l₂} (h : ∀ a b, R a b → S a b)
    (hf : Forall₂ R l₁ l₂) : Forall₂ S l₁ l₂ := by
  induction hf with
  | nil => exact .nil
  | cons hab _ ih => exact .cons (h _ _ hab) ih

theorem forall₂_map_right {α β γ} {R : α → γ → Prop} (h : β → γ) {l₁ : List α} {l₂ : List β}
    (hf : Forall₂ (fun a b => R a (h b)) l₁ l₂) : Forall₂ R l₁ (l₂.map h) := by
  induction hf with
  | nil => exact .nil
  | cons hab _ ih => exact .cons hab ih

theorem forall₂_map_self {α β} {R : α → β → Prop} (h : α → β) (hr : ∀ a, R a (h a)) (l : List α) :
    Forall₂ R l (l.map h) := by
  induction l with
  | nil => exact .nil
  | cons a l ih => exact .cons (hr a) ih

/-- Every cell parses as an int (strconv.Atoi). -/
def AllInt (po : ParseOracle) (cs : List Bytes) : Prop := ∀ c ∈ cs, (po.atoi c).isSome
/-- Every cell is empty or parses as a float (strconv.ParseFloat). -/
def AllFloat (po : ParseOracle) (cs : List Bytes) : Prop := ∀ c ∈ cs, c = [] ∨ (po.pfloat c).isSome
/-- Every cell parses as a bool (strconv.ParseBool). -/
def AllBool (po : ParseOracle) (cs : List Bytes) : Prop := ∀ c ∈ cs, (po.pbool c).isSome

def IntCell (po : ParseOracle) (c : Bytes) (x : Cell) : Prop := ∃ v, po.atoi c = some v ∧ x = Cell.int v
def FloatCell (po : ParseOracle) (c : Bytes) (x : Cell) : Prop :=
  (c = [] ∧ x = Cell.float F64.canonNaN) ∨ (c ≠ [] ∧ ∃ v, po.pfloat c = some v ∧ x = Cell.float v)
def BoolCell (po : ParseOracle) (c : Bytes) (x : Cell) : Prop := ∃ v, po.pbool c = some v ∧ x = Cell.bool v
def StrCell (emptyNull : Bool) (c : Bytes) (x : Cell) : Prop :=
  (c = [] ∧ emptyNull = true ∧ x = Cell.str none) ∨ (¬ (c = [] ∧ emptyNull = true) ∧ x = Cell.str (some c))

instance (po : ParseOracle) (cs : List Bytes) : Decidable (AllInt po cs) := by unfold AllInt; infer_instance
instance (po : ParseOracle) (cs : List Bytes) : Decidable (AllFloat po cs) := by unfold AllFloat; infer_instance
instance (po : ParseOracle) (cs : List Bytes) : Decidable (AllBool po cs) := by unfold AllBool; infer_instance

theorem allInt_iff (po : ParseOracle) (cs : List Bytes) : AllInt po cs ↔ (cs.mapM po.atoi).isSome :=
  (mapM_isSome_iff po.atoi cs).symm

theorem allBool_iff (po : ParseOracle) (cs : List Bytes) : AllBool po cs ↔ (cs.mapM po.pbool).isSome :=
  (mapM_isSome_iff po.pbool cs).symm

theorem gFloat_isSome (po : ParseOracle) (c : Bytes) : (gFloat po c).isSome ↔ c = [] ∨ (po.pfloat c).isSome := by
  unfold gFloat
  cases c with
  | nil => simp
  | cons b c => simp

theorem allFloat_iff (po : ParseOracle) (cs : List Bytes) : AllFloat po cs ↔ (cs.mapM (gFloat po)).isSome := by
  rw [mapM_isSome_iff]
  unfold AllFloat
  constructor
  · intro h c hc; exact (gFloat_isSome po c).2 (h c hc)
  · intro h c hc; exact (gFloat_isSome po c).1 (h c hc)

theorem gFloat_cell (po : ParseOracle) (c : Bytes) (x : UInt64) (h : gFloat po c = some x) :
    FloatCell po c (Cell.float x) := by
  unfold gFloat at h
  cases c with
  | nil => simp at h; left; exact ⟨rfl, by rw [h]⟩
  | cons b c => simp at h; right; exact ⟨by simp, x, h, rfl⟩

theorem strCell_cell (en : Bool) (c : Bytes) : StrCell en c (strCell en c) := by
  unfold StrCell strCell
  cases c with
  | nil => cases en <;> simp
  | cons b c => simp

/-- Characterisation of the column inferred for an untyped column. -/
structure Inferred (po : ParseOracle) (emptyNull : Bool) (name : Bytes) (cs : List Bytes) (col : LCol) : Prop where
  name_eq : col.name = name
  vals_eq : col.vals = []
  strict_eq : col.strict = false
  size_eq : col.cells.size = cs.length
  undef_iff : col.ty = .undef ↔ cs = []
  int_iff : col.ty = .int ↔ cs ≠ [] ∧ AllInt po cs
  float_iff : col.ty = .float ↔ cs ≠ [] ∧ ¬ AllInt po cs ∧ AllFloat po cs
  bool_iff : col.ty = .bool ↔ cs ≠ [] ∧ ¬ AllInt po cs ∧ ¬ AllFloat po cs ∧ AllBool po cs
  string_iff : col.ty = .string ↔ cs ≠ [] ∧ ¬ AllInt po cs ∧ ¬ AllFloat po cs ∧ ¬ AllBool po cs
  not_enum : col.ty ≠ .enum
  int_cells : col.ty = .int → Forall₂ (IntCell po) cs col.cells.toList
  float_cells : col.ty = .float → Forall₂ (FloatCell po) cs col.cells.toList
  bool_cells : col.ty = .bool → Forall₂ (BoolCell po) cs col.cells.toList
  string_cells : col.ty = .string → Forall₂ (StrCell emptyNull) cs col.cells.toList

theorem inferS_inferred (po : ParseOracle) (en : Bool) (name : Bytes) (cs : List Bytes) :
    Inferred po en name cs (inferS po en name cs) := by
  unfold inferS
  cases cs with
  | nil =>
    simp only [List.isEmpty_nil, ↓reduceIte]
    constructor <;> simp
  | cons c0 cs0 =>
    generalize hcs : c0 :: cs0 = cs
    have hne : cs ≠ [] := by rw [← hcs]; simp
    have hemp : cs.isEmpty = false := by rw [← hcs]; rfl
    simp only [hemp, Bool.false_eq_true, ↓reduceIte]
    have hI := allInt_iff po cs
    have hF := allFloat_iff po cs
    have hB := allBool_iff po cs
    cases hi : cs.mapM po.atoi with
    | some xs =>
      rw [hi] at hI
      have hall : AllInt po cs := hI.2 rfl
      have hf2 := (mapM_eq_some_iff _ _ _).1 hi
      have hlen := (forall₂_iff_get.1 hf2).1
      constructor <;> simp [hne, hall, hlen]
      exact forall₂_map_right Cell.int (hf2.imp (fun a b h => ⟨b, h, rfl⟩))
    | none =>
      rw [hi] at hI
      have hnall : ¬ AllInt po cs := fun h => by simpa using hI.1 h
      simp only []
      cases hf : cs.mapM (gFloat po) with
      | some xs =>
        rw [hf] at hF
        have hall : AllFloat po cs := hF.2 rfl
        have hf2 := (mapM_eq_some_iff _ _ _).1 hf
        have hlen := (forall₂_iff_get.1 hf2).1
        constructor <;> simp [hne, hall, hnall, hlen]
        exact forall₂_map_right Cell.float (hf2.imp (fun a b h => gFloat_cell po a b h))
      | none =>
        rw [hf] at hF
        have hnallf : ¬ AllFloat po cs := fun h => by simpa using hF.1 h
        simp only []
        cases hb : cs.mapM po.pbool with
        | some xs =>
          rw [hb] at hB
          have hall : AllBool po cs := hB.2 rfl
          have hf2 := (mapM_eq_some_iff _ _ _).1 hb
          have hlen := (forall₂_iff_get.1 hf2).1
          constructor <;> simp [hne, hall, hnall, hnallf, hlen]
          exact forall₂_map_right Cell.bool (hf2.imp (fun a b h => ⟨b, h, rfl⟩))
        | none =>
          rw [hb] at hB
          have hnallb : ¬ AllBool po cs := fun h => by simpa using hB.1 h
          constructor <;> simp [hne, hnall, hnallf, hnallb]
          exact forall₂_map_self _ (strCell_cell en) cs


/-- The column is untyped: `conf.Types` has no entry for it, or the entry is `types.None`. -/
theorem dataTypeOf_eq_empty_iff (cfg : CsvCfg) (name : Bytes) :
    dataTypeOf cfg name = "" ↔
      (cfg.types.find? (·.1 == name)).map (·.2) = none ∨ (cfg.types.find? (·.1 == name)).map (·.2) = some "" := by
  unfold dataTypeOf
  cases cfg.types.find? (·.1 == name) with
  | none => simp
  | some e => simp

/-- **Type inference, declaratively.** For an untyped column the Go function never fails and consumes no enum
declaration; the column it returns is `int` iff there is a row and all cells parse as int, else `float` iff all cells
are empty or parse as float, else `bool` iff all parse as bool, else `string`; zero rows give the typeless empty
column; the cells are the parsed values (empty ↦ NaN in a float column, empty ↦ null in a string column iff
`EmptyNull`). -/
theorem infer_spec (po : ParseOracle) (cfg : CsvCfg) (name : Bytes) (cs : List Bytes)
    (hun : dataTypeOf cfg name = "") :
    ∃ col, columnToDataM po cfg name cs = some (col, false) ∧ Inferred po cfg.emptyNull name cs col :=
  ⟨_, columnToDataM_untyped po cfg name cs hun, inferS_inferred po cfg.emptyNull name cs⟩

/-- The same for the specification's column function. -/
theorem infer_spec_csvColumn (po : ParseOracle) (cfg : CsvCfg) (name : Bytes) (cs : List Bytes)
    (hun : dataTypeOf cfg name = "") :
    ∃ col, csvColumn po cfg name cs = (some col, false) ∧ Inferred po cfg.emptyNull name cs col :=
  ⟨_, csvColumn_untyped po cfg name cs hun, inferS_inferred po cfg.emptyNull name cs⟩

/-- `infer_spec` written out, without the structure. -/
theorem infer_spec_explicit (po : ParseOracle) (cfg : CsvCfg) (name : Bytes) (cs : List Bytes)
    (hun : dataTypeOf cfg name = "") :
    ∃ col, columnToDataM po cfg name cs = some (col, false) ∧
      col.name = name ∧ col.vals = [] ∧ col.strict = false ∧ col.cells.size = cs.length ∧
      (col.ty = .undef ↔ cs = []) ∧
      (col.ty = .int ↔ cs ≠ [] ∧ AllInt po cs) ∧
      (col.ty = .float ↔ cs ≠ [] ∧ ¬ AllInt po cs ∧ AllFloat po cs) ∧
      (col.ty = .bool ↔ cs ≠ [] ∧ ¬ AllInt po cs ∧ ¬ AllFloat po cs ∧ AllBool po cs) ∧
      (col.ty = .string ↔ cs ≠ [] ∧ ¬ AllInt po cs ∧ ¬ AllFloat po cs ∧ ¬ AllBool po cs) ∧
      col.ty ≠ .enum ∧
      (col.ty = .int → Forall₂ (fun c x => ∃ v, po.atoi c = some v ∧ x = Cell.int v) cs col.cells.toList) ∧
      (col.ty = .float → Forall₂ (fun c x => (c = [] ∧ x = Cell.float F64.canonNaN) ∨
          (c ≠ [] ∧ ∃ v, po.pfloat c = some v ∧ x = Cell.float v)) cs col.cells.toList) ∧
      (col.ty = .bool → Forall₂ (fun c x => ∃ v, po.pbool c = some v ∧ x = Cell.bool v) cs col.cells.toList) ∧
      (col.ty = .string → Forall₂ (fun c x => (c = [] ∧ cfg.emptyNull = true ∧ x = Cell.str none) ∨
          (¬ (c = [] ∧ cfg.emptyNull = true) ∧ x = Cell.str (some c))) cs col.cells.toList) := by
  obtain ⟨col, h, hi⟩ := infer_spec po cfg name cs hun
  exact ⟨col, h, hi.name_eq, hi.vals_eq, hi.strict_eq, hi.size_eq, hi.undef_iff, hi.int_iff, hi.float_iff,
    hi.bool_iff, hi.string_iff, hi.not_enum, hi.int_cells, hi.float_cells, hi.bool_cells, hi.string_cells⟩

/-! ### the characterisation is complete: it determines the column -/

theorem forall₂_functional {α β} {R : α → β → Prop} (hR : ∀ a b b', R a b → R a b' → b = b')
    {l : List α} {l₁ l₂ : List β} (h₁ : Forall₂ R l l₁) (h₂ : Forall₂ R l l₂) : l₁ = l₂ := by
  induction h₁ generalizing l₂ with
  | nil => cases h₂; rfl
  | cons hab _ ih =>
    cases h₂ with
    | cons hab' h' => rw [hR _ _ _ hab hab', ih h']

theorem intCell_functional (po : ParseOracle) (c : Bytes) (x y : Cell) (hx : IntCell po c x) (hy : IntCell po c y) :
    x = y := by
  obtain ⟨v, hv, rfl⟩ := hx
  obtain ⟨w, hw, rfl⟩ := hy
  rw [hv] at hw; cases hw; rfl

theorem boolCell_functional (po : ParseOracle) (c : Bytes) (x y : Cell) (hx : BoolCell po c x) (hy : BoolCell po c y) :
    x = y := by
  obtain ⟨v, hv, rfl⟩ := hx
  obtain ⟨w, hw, rfl⟩ := hy
  rw [hv] at hw; cases hw; rfl

theorem floatCell_functional (po : ParseOracle) (c : Bytes) (x y : Cell) (hx : FloatCell po c x)
    (hy : FloatCell po c y) : x = y := by
  rcases hx with ⟨hc, rfl⟩ | ⟨hc, v, hv, rfl⟩ <;> rcases hy with ⟨hc', rfl⟩ | ⟨hc', w, hw, rfl⟩
  · rfl
  · exact absurd hc hc'
  · exact absurd hc' hc
  · rw [hv] at hw; cases hw; rfl

theorem strCell_functional (en : Bool) (c : Bytes) (x y : Cell) (hx : StrCell en c x) (hy : StrCell en c y) :
    x = y := by
  rcases hx with ⟨hc, he, rfl⟩ | ⟨hc, rfl⟩ <;> rcases hy with ⟨hc', he', rfl⟩ | ⟨hc', rfl⟩
  · rfl
  · exact absurd ⟨hc, he⟩ hc'
  · exact absurd ⟨hc', he'⟩ hc
  · rfl

theorem Inferred.ty_cases {po : ParseOracle} {en : Bool} {name : Bytes} {cs : List Bytes} {col : LCol}
    (h : Inferred po en name cs col) :
    col.ty = .undef ∨ col.ty = .int ∨ col.ty = .float ∨ col.ty = .bool ∨ col.ty = .string := by
  have := h.not_enum
  cases hty : col.ty <;> simp_all

theorem Inferred.unique {po : ParseOracle} {en : Bool} {name : Bytes} {cs : List Bytes} {c₁ c₂ : LCol}
    (h₁ : Inferred po en name cs c₁) (h₂ : Inferred po en name cs c₂) : c₁ = c₂ := by
  have hty : c₁.ty = c₂.ty := by
    rcases h₁.ty_cases with h | h | h | h | h
    · rw [h, h₂.undef_iff.2 (h₁.undef_iff.1 h)]
    · rw [h, h₂.int_iff.2 (h₁.int_iff.1 h)]
    · rw [h, h₂.float_iff.2 (h₁.float_iff.1 h)]
    · rw [h, h₂.bool_iff.2 (h₁.bool_iff.1 h)]
    · rw [h, h₂.string_iff.2 (h₁.string_iff.1 h)]
  have hcells : c₁.cells.toList = c₂.cells.toList := by
    rcases h₁.ty_cases with h | h | h | h | h
    · have hcs := h₁.undef_iff.1 h
      have s₁ := h₁.size_eq
      have s₂ := h₂.size_eq
      rw [hcs] at s₁ s₂
      have e₁ : c₁.cells.toList = [] := List.eq_nil_of_length_eq_zero (by simpa using s₁)
      have e₂ : c₂.cells.toList = [] := List.eq_nil_of_length_eq_zero (by simpa using s₂)
      rw [e₁, e₂]
    · exact forall₂_functional (intCell_functional po) (h₁.int_cells h) (h₂.int_cells (hty ▸ h))
    · exact forall₂_functional (floatCell_functional po) (h₁.float_cells h) (h₂.float_cells (hty ▸ h))
    · exact forall₂_functional (boolCell_functional po) (h₁.bool_cells h) (h₂.bool_cells (hty ▸ h))
    · exact forall₂_functional (strCell_functional en) (h₁.string_cells h) (h₂.string_cells (hty ▸ h))
  cases c₁ with
  | mk n₁ t₁ v₁ s₁ cl₁ =>
    cases c₂ with
    | mk n₂ t₂ v₂ s₂ cl₂ =>
      have hn : n₁ = n₂ := h₁.name_eq.trans h₂.name_eq.symm
      have hv : v₁ = v₂ := h₁.vals_eq.trans h₂.vals_eq.symm
      have hs : s₁ = s₂ := h₁.strict_eq.trans h₂.strict_eq.symm
      have hc : cl₁ = cl₂ := Array.toList_inj.1 hcells
      simp only at hty
      rw [hn, hv, hs, hc, hty]

/-- Converse of `infer_spec`: whatever satisfies the characterisation is what the Go function returns. -/
theorem infer_spec_complete (po : ParseOracle) (cfg : CsvCfg) (name : Bytes) (cs : List Bytes)
    (hun : dataTypeOf cfg name = "") (col : LCol) (h : Inferred po cfg.emptyNull name cs col) :
    columnToDataM po cfg name cs = some (col, false) := by
  obtain ⟨col', h', hi'⟩ := infer_spec po cfg name cs hun
  rw [h', hi'.unique h]

/-! ## §6 examples -/

def tbl {α} (t : List (Bytes × α)) (c : Bytes) : Option α :=
  match t.find? (·.1 == c) with
  | some e => some e.2
  | none => none

def b1 : Bytes := [49]
def b2 : Bytes := [50]
def b0 : Bytes := [48]
def bx : Bytes := [120]
def bTrue : Bytes := [116, 114, 117, 101]
def bFalse : Bytes := [102, 97, 108, 115, 101]

/-- A fragment of strconv, as a table. -/
def toy : ParseOracle where
  atoi := tbl [(b0, 0), (b1, 1), (b2, 2)]
  pfloat := tbl [(b0, 0), (b1, 0x3ff0000000000000), (b2, 0x4000000000000000)]
  pbool := tbl [(b0, false), (b1, true), (bTrue, true), (bFalse, false)]

def view (r : Option (LCol × Bool)) : Option (CType × List Cell) := r.map (fun r => (r.1.ty, r.1.cells.toList))

example : view (columnToDataM toy {} [97] [b1, b2]) = some (.int, [.int 1, .int 2]) := by decide

/-- ["1","2"] ↦ int -/
example : view (columnToDataM toy {} [97] [b1, b2]) = some (.int, [.int 1, .int 2]) := by decide
/-- ["1",""] ↦ float with NaN -/
example : view (columnToDataM toy {} [97] [b1, []]) =
    some (.float, [.float 0x3ff0000000000000, .float F64.canonNaN]) := by decide
/-- ["1","x"] ↦ string -/
example : view (columnToDataM toy {} [97] [b1, bx]) = some (.string, [.str (some b1), .str (some bx)]) := by decide
/-- ["true","false"] ↦ bool -/
example : view (columnToDataM toy {} [97] [bTrue, bFalse]) = some (.bool, [.bool true, .bool false]) := by decide
/-- ["1","true"] ↦ BOOL, not string: the int attempt stops at "true", so does the float attempt, and the bool attempt
succeeds because strconv.ParseBool accepts both "1" and "true". (A string column needs a cell that is no bool.) -/
example : view (columnToDataM toy {} [97] [b1, bTrue]) = some (.bool, [.bool true, .bool true]) := by decide
/-- ["1","0"] ↦ int: ints win over bools. -/
example : view (columnToDataM toy {} [97] [b1, b0]) = some (.int, [.int 1, .int 0]) := by decide
/-- ["1","true","x"] ↦ string -/
example : view (columnToDataM toy {} [97] [b1, bTrue, bx]) =
    some (.string, [.str (some b1), .str (some bTrue), .str (some bx)]) := by decide
/-- ["x",""] ↦ string; the empty cell is null iff EmptyNull. -/
example : view (columnToDataM toy {} [97] [bx, []]) = some (.string, [.str (some bx), .str (some [])]) := by decide
example : view (columnToDataM toy { emptyNull := true } [97] [bx, []]) =
    some (.string, [.str (some bx), .str none]) := by decide
/-- no rows ↦ the typeless empty column -/
example : view (columnToDataM toy {} [97] []) = some (.undef, []) := by decide
/-- all cells empty ↦ float column of NaNs -/
example : view (columnToDataM toy {} [97] [[], []]) =
    some (.float, [.float F64.canonNaN, .float F64.canonNaN]) := by decide
/-- declared types -/
example : view (columnToDataM toy { types := [([97], "int")] } [97] [b1, bx]) = none := by decide
example : view (columnToDataM toy { types := [([97], "int")] } [97] []) = some (.int, []) := by decide
example : view (columnToDataM toy { types := [([97], "float")] } [97] [b1, b2]) =
    some (.float, [.float 0x3ff0000000000000, .float 0x4000000000000000]) := by decide
example : view (columnToDataM toy { types := [([97], "bool")] } [97] [b1, b0]) =
    some (.bool, [.bool true, .bool false]) := by decide
example : view (columnToDataM toy { types := [([97], "bool")] } [97] [b1, b2]) = none := by decide
example : view (columnToDataM toy { types := [([97], "string")] } [97] [b1, b2]) =
    some (.string, [.str (some b1), .str (some b2)]) := by decide
example : view (columnToDataM toy { types := [([97], "enum")], emptyNull := true } [97] [bx, b1, [], bx]) =
    some (.enum, [.str (some bx), .str (some b1), .str none, .str (some bx)]) := by decide
example : (columnToDataM toy { types := [([97], "enum")], enums := [([97], [b1, bx])] } [97] [bx, b1, bx]).map
    (fun r => (r.1.vals, r.1.strict, r.2)) = some ([b1, bx], true, true) := by decide
example : view (columnToDataM toy { types := [([97], "enum")], enums := [([97], [b1, bx])] } [97] [bx, b2]) = none := by
  decide
example : view (columnToDataM toy { types := [([97], "date")] } [97] [bx]) = none := by decide

/-- The hypothesis of `infer_spec` holds for every column of the default configuration … -/
example (name : Bytes) : dataTypeOf {} name = "" := rfl
/-- … and for columns not mentioned in `Types`. -/
example : dataTypeOf { types := [([98], "int")] } [97] = "" := by decide
/-- A non-trivial instance of `Inferred`. -/
example : ∃ col, columnToDataM toy {} [97] [b1, []] = some (col, false) ∧ Inferred toy false [97] [b1, []] col ∧
    col.ty = .float :=
  let ⟨col, h, hi⟩ := infer_spec toy {} [97] [b1, []] rfl
  ⟨col, h, hi, hi.float_iff.2 (by decide)⟩

#print axioms columnToData_eq_spec
#print axioms columnToData_eq_spec_pair
#print axioms infer_spec
#print axioms infer_spec_csvColumn
#print axioms infer_spec_explicit
#print axioms infer_spec_complete
#print axioms Inferred.unique
end QF.Props.C12Infer
