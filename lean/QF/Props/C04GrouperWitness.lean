import QF.Props.C04GrouperGen
/-!
# C04 / C05 — the grouper terms: concrete runs, and mutations that the theorems reject

`interpGroupBy` / `interpDistinct` on concrete inputs (keys and hash values per row) by kernel evaluation, for today's
canonical terms and for hand-made variants of them. Every variant differs from `canonFns` (so `gen_grouper_canon` fails
for a source that translates to it) AND has a concrete run that differs from the mirror — where the grouping itself
breaks, the run violates `groupBy_partition`.
-/
namespace QF.Props.C04GrouperGen
open QF QF.GL

/-- a comparable over explicit keys and hash values (row `i` has key `keys[i]` and hash `hs[i]`) -/
def cmpKH (keys hs : List Nat) : Cmp :=
  { compare := fun i j => if keys.getD i 0 == keys.getD j 0 then .equal else .notEqual, hash := fun i _ => hs.getD i 0 }

/-- `canonFns` with one function replaced -/
def withFn (f : FnId) (fn : Fn) : List (FnId × Fn) := canonFns.map fun p => if p.1 = f then (f, fn) else p

/-- (groups, RelocationCount, RelocationCollisions, InsertCollisions, GroupCount, LoadFactor) -/
def summary (r : Option (List (List Nat) × Stats)) : Option (List (List Nat) × List Int) :=
  r.map fun (g, s) => (g, [s.relocationCount, s.relocationCollisions, s.insertCollisions, s.groupCount, s.lfNum, s.lfDen])

/-! ## today's code -/

/-- the run of the Go probe program recorded in the design round: keys 3,1,3,2,1 with hashes 8,8,8,16,8 -/
example : summary (interpGroupBy canonFns 64 [cmpKH [3, 1, 3, 2, 1] [8, 8, 8, 16, 8]] [0, 1, 2, 3, 4]) =
    some ([[0, 2], [1, 4], [3]], [0, 0, 4, 3, 3, 8]) := by decide +kernel

/-- six different keys, hashes 16,1,2,3,4,5: the sixth insertion doubles the table of 8 slots; the three EMPTY old slots are
"relocated" too and each passes the five entries already placed — `RelocationCollisions = 15` (real grouper: `{1 15 0 6 0.375}`) -/
example : summary (interpGroupBy canonFns 64 [cmpKH [0, 1, 2, 3, 4, 5] [16, 1, 2, 3, 4, 5]] [0, 1, 2, 3, 4, 5]) =
    some ([[0], [1], [2], [3], [4], [5]], [1, 15, 0, 6, 6, 16]) := by decide +kernel

example : (G.groupIndex {} (fun i => [16, 1, 2, 3, 4, 5].getD i 0) (fun i j => i == j) [0, 1, 2, 3, 4, 5] true).map
    (fun t => (t.relocCount, t.relocCollisions, t.insertCollisions, t.groupCount, t.lfNum, t.lfDen)) = some (1, 15, 0, 6, 6, 16) := by
  decide +kernel

/-- a key that arrives at the moment of growth and again later: one group -/
example : (interpGroupBy canonFns 64 [cmpKH [0, 1, 2, 3, 4, 5, 5] [1, 2, 3, 4, 5, 8, 8]] [0, 1, 2, 3, 4, 5, 6]).map (·.1) =
    some [[0], [1], [2], [3], [4], [5, 6]] := by decide +kernel

/-- hashes above 2^16 -/
example : (interpGroupBy canonFns 64 [cmpKH [7, 7] [65537, 65537]] [0, 1]).map (·.1) = some [[0, 1]] := by decide +kernel

/-- a group of two rows that is relocated -/
example : (interpGroupBy canonFns 64 [cmpKH [0, 0, 1, 2, 3, 4, 5] [1, 1, 2, 3, 4, 5, 6]] [0, 1, 2, 3, 4, 5, 6]).map (·.1) =
    some [[0, 1], [2], [3], [4], [5], [6]] := by decide +kernel

example : interpDistinct canonFns 64 [cmpKH [3, 1, 3, 2, 1] [8, 8, 8, 16, 8]] [0, 1, 2, 3, 4] = some [0, 1, 3] := by decide +kernel

/-! ## 1. the probe mask computed BEFORE `grow()` -/

/-- `insertEntry` with `bitMask := uint64(len(t.entries) - 1)` in front of the growth check -/
def mutMaskBeforeGrow : Fn := { params := 2, body := S.block [
  S.define 3 (E.toU64 (E.bin AOp.sub (E.len (E.field (E.var 0) Fld.entries)) (E.int 1))),
  growCheckPart,
  S.define 2 (E.call2 FnId.hash (E.var 0) (E.var 1)),
  S.define 4 (E.bin AOp.band (E.toU64 (E.var 2)) (E.var 3)),
  S.define 5 E.nilPtr,
  probeLoop,
  updatePart] }

example : withFn .insertEntry mutMaskBeforeGrow ≠ canonFns := by decide +kernel

/-- the row that triggers the growth is stored under the OLD mask (slot `8 & 7 = 0` of 16); the next row with the same key
starts at slot `8 & 15 = 8`, finds it free and opens a second group for the key: not a partition by key. -/
example : (interpGroupBy (withFn .insertEntry mutMaskBeforeGrow) 64 [cmpKH [0, 1, 2, 3, 4, 5, 5] [1, 2, 3, 4, 5, 8, 8]] [0, 1, 2, 3, 4, 5, 6]).map (·.1) =
    some [[5], [0], [1], [2], [3], [4], [6]] := by decide +kernel

/-! ## 2. the stored hash truncated to 16 bits -/

/-- the new entry with `dstEntry.hash = hashSum & 0xFFFF` -/
def mutEden16 : S := S.block [
  S.setPtrField 5 Fld.hash (E.bin AOp.band (E.var 2) (E.u32 65535)),
  S.setPtrField 5 Fld.firstPos (E.var 1),
  S.setPtrField 5 Fld.occupied (E.bool true),
  S.incrField 0 [Fld.groupCount],
  S.setField 0 [Fld.loadFactor] (E.bin AOp.div (E.toFloat (E.field (E.var 0) Fld.groupCount)) (E.toFloat (E.len (E.field (E.var 0) Fld.entries))))]

def mutHash16 : Fn := { params := 2, body := S.block [
  growCheckPart,
  S.define 2 (E.call2 FnId.hash (E.var 0) (E.var 1)),
  S.define 3 (E.toU64 (E.bin AOp.sub (E.len (E.field (E.var 0) Fld.entries)) (E.int 1))),
  S.define 4 (E.bin AOp.band (E.toU64 (E.var 2)) (E.var 3)),
  S.define 5 E.nilPtr,
  probeLoop,
  S.ite (E.not (E.field (E.deref (E.var 5)) Fld.occupied)) mutEden16 existingPart] }

example : withFn .insertEntry mutHash16 ≠ canonFns := by decide +kernel

/-- a second row with the same key and hash 65537 does not recognise the entry (stored hash 1): the key gets two groups. -/
example : (interpGroupBy (withFn .insertEntry mutHash16) 64 [cmpKH [7, 7] [65537, 65537]] [0, 1]).map (·.1) = some [[0], [1]] := by
  decide +kernel

/-! ## 3. `ix` not carried over on relocation -/

/-- `grow` that drops the rows collected so far: `e.ix = nil; newEntries[pos] = e` -/
def mutGrowNoIx : Fn := { params := 1, body := S.block [
  S.define 1 (E.toU32 (E.bin AOp.mul (E.int 2) (E.len (E.field (E.var 0) Fld.entries)))),
  S.define 2 (E.makeEntries (E.var 1)),
  S.define 3 (E.bin AOp.sub (E.var 1) (E.u32 1)),
  S.range (E.field (E.var 0) Fld.entries) none (some 4) (S.block [S.for relocInit (E.bool true) relocPost (S.block [
    S.ite (E.not (E.field (E.at (E.var 2) (E.var 5)) Fld.occupied))
      (S.block [S.setField 4 [Fld.ix] E.nilRows, S.setAt 2 (E.var 5) (E.var 4), S.brk]) (S.block []),
    S.incrField 0 [Fld.stats, Fld.sRelocationCollisions]])]),
  S.incrField 0 [Fld.stats, Fld.sRelocationCount],
  S.setField 0 [Fld.entries] (E.var 2),
  S.setField 0 [Fld.loadFactor] (E.bin AOp.div (E.field (E.var 0) Fld.loadFactor) (E.flt 2 1))] }

example : withFn .grow mutGrowNoIx ≠ canonFns := by decide +kernel

/-- row 1 (second row of key 0) is in no group after the growth: the groups do not cover the rows. -/
example : (interpGroupBy (withFn .grow mutGrowNoIx) 64 [cmpKH [0, 0, 1, 2, 3, 4, 5] [1, 1, 2, 3, 4, 5, 6]] [0, 1, 2, 3, 4, 5, 6]).map (·.1) =
    some [[0], [2], [3], [4], [5], [6]] := by decide +kernel

/-! ## 4. growth that skips the empty slots (what the hand mirror did before this round) -/

/-- `for _, e := range t.entries { if e.occupied { <probe loop> } }`: same table, other `RelocationCollisions` -/
def mutGrowSkipEmpty : Fn := { params := 1, body := S.block [
  S.define 1 (E.toU32 (E.bin AOp.mul (E.int 2) (E.len (E.field (E.var 0) Fld.entries)))),
  S.define 2 (E.makeEntries (E.var 1)),
  S.define 3 (E.bin AOp.sub (E.var 1) (E.u32 1)),
  S.range (E.field (E.var 0) Fld.entries) none (some 4) (S.block [S.ite (E.field (E.var 4) Fld.occupied) growBody (S.block [])]),
  S.incrField 0 [Fld.stats, Fld.sRelocationCount],
  S.setField 0 [Fld.entries] (E.var 2),
  S.setField 0 [Fld.loadFactor] (E.bin AOp.div (E.field (E.var 0) Fld.loadFactor) (E.flt 2 1))] }

example : withFn .grow mutGrowSkipEmpty ≠ canonFns := by decide +kernel

example : summary (interpGroupBy (withFn .grow mutGrowSkipEmpty) 64 [cmpKH [0, 1, 2, 3, 4, 5] [16, 1, 2, 3, 4, 5]] [0, 1, 2, 3, 4, 5]) =
    some ([[0], [1], [2], [3], [4], [5]], [1, 0, 0, 6, 6, 16]) := by decide +kernel

/-! ## 5. the load factor test with `>=` -/

def mutGrowAtHalf : Fn := { params := 2, body := S.block [
  S.ite (E.cmp COp.ge (E.field (E.var 0) Fld.loadFactor) (E.flt 1 2)) (S.block [S.callMut FnId.grow 0 []]) (S.block []),
  S.define 2 (E.call2 FnId.hash (E.var 0) (E.var 1)),
  S.define 3 (E.toU64 (E.bin AOp.sub (E.len (E.field (E.var 0) Fld.entries)) (E.int 1))),
  S.define 4 (E.bin AOp.band (E.toU64 (E.var 2)) (E.var 3)),
  S.define 5 E.nilPtr,
  probeLoop,
  updatePart] }

example : withFn .insertEntry mutGrowAtHalf ≠ canonFns := by decide +kernel

/-- five keys: today's code does not grow (5/8 is reached only after the fifth insertion), the variant grows at 4/8 -/
example : summary (interpGroupBy canonFns 64 [cmpKH [0, 1, 2, 3, 4] [1, 2, 3, 4, 5]] [0, 1, 2, 3, 4]) =
    some ([[0], [1], [2], [3], [4]], [0, 0, 0, 5, 5, 8]) := by decide +kernel
example : summary (interpGroupBy (withFn .insertEntry mutGrowAtHalf) 64 [cmpKH [0, 1, 2, 3, 4] [1, 2, 3, 4, 5]] [0, 1, 2, 3, 4]) =
    some ([[0], [1], [2], [3], [4]], [1, 0, 0, 5, 5, 16]) := by decide +kernel

end QF.Props.C04GrouperGen
