import QF.Props.C19ReadSqlGen
import QF.Props.C19SqlWriteGen
import QF.Props.C03SortGlueGen
/-!
# C19 — ToSQL ∘ ReadSQL end to end: what today's `ToSQL` hands to a recording driver, read back by today's `ReadSQL`, is the frame

Pieces (proved elsewhere, each for the terms regenerated from today's source):

    stored frame ──(`QFrame.ToSQL`, `ColumnNames`, `Insert`, `escape`, `NewArgBuilder`, the views: `Gen.toSqlAst` …,
    C19SqlWriteGen.gen_tosql_semantics)──▶ `Exec` calls (text, arguments) ──(the recording driver: THE MODEL OF THIS FILE)──▶
    result set ──(`ReadSQL`: `Gen.readSqlAst` over `Column.Scan` / `Data`: `Gen.scanAst` …,
    C19ReadSqlGen.gen_readsql_semantics / gen_readsql_refines_spec)──▶ data map + names ──(`New(data, ColumnOrder(names...))`:
    the spec's `newS`, as in `C19ReadSqlGen.frameOf`)──▶ frame

and, at the level of the spec, `C19Sql.readback_frame` (reading back what `toSqlS` wrote is the frame, enums as strings).
What was missing is the chain. This file proves

* `stored_inScope`     — every column of what `ToSQL` stores is in the scope in which `Column.Scan` refines the spec
                         (`C19Sql.inScope`: typed; NULLs only where the column's first value is text or float)
* `readSqlM_delivered` — `ReadSQL` of today's source looks at a driver value only through what it denotes
                         (`DVal.toSql`): text may arrive as `string` or as `[]uint8`, chosen cell by cell
* `gen_readsql_refines_spec_delivered` — `gen_readsql_refines_spec` for ANY table of driver values that denotes the rows
* `gen_sql_roundtrip_end_to_end` — THE STATEMENT: for every stored frame in C19's quantifier and every dialect
                         configuration, regenerated `ToSQL` against the recording driver returns nil after one `Exec` per row
                         whose text is the configured INSERT; and regenerated `ReadSQL` over the store, followed by `New`,
                         returns the frame (enum columns as strings)
* `gen_sql_roundtrip_spec_text` — … and the text is the spec's `insertText` for every escape rune that is a Unicode scalar
                         value (`gen_insert_semantics_partial`; for surrogates the spec's text is not Go's:
                         `insert_spec_differs_on_surrogate`)
* `gen_sql_roundtrip_withargs` — the same through the regenerated `ReadSQLWithArgs` glue (Prepare / Query / ReadSQL / New)

## The recording driver (stated model — `database/sql` and the driver are not regenerated)

The store is the list of the argument lists of the `Exec` calls the driver received, in order (`storeOf`). A query over it
delivers one row per stored row, in insertion order, under the column names of the INSERT, each value with the driver's
kind of what was written (`C19Sql.cellToVal`: `int` → int64, `float64` → float64 — a NaN stays the float64 NaN —, `bool` →
bool, a non-nil `*string` → text, a nil `*string` → NULL); text arrives as `string` or as `[]uint8`, as the driver likes,
cell by cell (`Delivered`). `rows.Columns()`, `rows.Err()` do not fail (the failing cases are `gen_readsql_faults`).
-/
namespace QF.Props.C19EndToEnd
open QF QF.Props.C19Sql QF.Props.C19ScanGen QF.Props.C19ReadSqlGen QF.Props.C19SqlWriteGen
set_option linter.unusedSimpArgs false
set_option linter.unusedVariables false

/-! ## What `ToSQL` stores is in the scope of `Column.Scan` -/

/-- A column of cells of one of the five types, not empty, a string / enum column not entirely null, as the driver values
the store holds: typed (`homogeneous`), and a NULL in front of the first value only in a text column. -/
theorem stored_inScope (ty : CType) (cells : List Cell) (hty : ∀ c ∈ cells, cellHasTy ty c = true) (hne : cells ≠ [])
    (hu : ty ≠ .undef) (hnn : isStrTy ty = true → ∃ c ∈ cells, c ≠ Cell.str none) :
    inScope .none (argsToVals cells) = true := by
  obtain ⟨v, hf, hv, hk⟩ := first_of_cells ty cells hty hne hu hnn
  have hfirst : firstVal (argsToVals cells) = some v := hf
  simp only [inScope, Bool.and_eq_true]
  constructor
  · unfold homogeneous
    rw [hfirst]
    simp only [List.all_eq_true]
    intro w hw
    obtain ⟨c, hc, rfl⟩ := List.mem_map.1 hw
    by_cases hn : cellToVal c = .null
    · simp [hn]
    · rw [kind_of_cell ty c (hty c hc) hn, hk]; simp
  · unfold noLeadingNullUnlessTextOrFloat firstIsTextOrFloat
    rw [hfirst]
    cases cells with
    | nil => exact absurd rfl hne
    | cons c cs =>
      have hc := hty c (by simp)
      cases ty <;> cases c <;> cases v <;>
        simp_all [cellHasTy, tyKind, kindOf, argsToVals, cellToVal] <;>
        (rename_i s _ <;> cases s <;> simp_all [cellToVal])

/-! ## `ReadSQL` sees a driver value only through what it denotes -/

/-- the table `D` of driver values denotes the rows `rows`: every value is an `int64`, a `float64`, a `bool`, a `string` or a
`[]uint8` (both: text), or nil, and stands for the `SqlVal` at its place — text as `string` or as `[]uint8` CELL BY CELL -/
def Delivered (D : List (List DVal)) (rows : List (List SqlVal)) : Prop :=
  D.map (List.map DVal.toSql) = rows.map (List.map some)

theorem foldlM_stepV_congr (P : RParams) (co : Coerce) : ∀ (vs vs' : List DVal) (c : Col),
    vs.map DVal.toSql = vs'.map DVal.toSql → vs.foldlM (stepV P co) c = vs'.foldlM (stepV P co) c := by
  intro vs
  induction vs with
  | nil =>
    intro vs' c h
    cases vs' with
    | nil => rfl
    | cons _ _ => simp at h
  | cons v vs ih =>
    intro vs' c h
    cases vs' with
    | nil => simp at h
    | cons v' vs' =>
      simp only [List.map_cons, List.cons.injEq] at h
      simp only [List.foldlM_cons, stepV, h.1]
      cases (DVal.toSql v').bind (scan (P.cfg co) c) with
      | none => rfl
      | some c' => exact ih vs' c' h.2

theorem getElem!_toSql (r : List DVal) (j : Nat) :
    DVal.toSql r[j]! = ((r.map DVal.toSql)[j]?).getD (DVal.toSql default) := by
  by_cases h : j < r.length
  · simp [h]
  · simp [h]

theorem column_toSql (D D' : List (List DVal)) (h : D.map (List.map DVal.toSql) = D'.map (List.map DVal.toSql)) (j : Nat) :
    (D.map (fun r => r[j]!)).map DVal.toSql = (D'.map (fun r => r[j]!)).map DVal.toSql := by
  have key : ∀ X : List (List DVal), (X.map (fun r => r[j]!)).map DVal.toSql =
      (X.map (List.map DVal.toSql)).map (fun r => (r[j]?).getD (DVal.toSql default)) := by
    intro X
    simp only [List.map_map, Function.comp_def, getElem!_toSql]
  rw [key D, key D', h]

/-- **`ReadSQL` does not tell `string` from `[]uint8`**: two scripted result sets whose values denote the same `SqlVal`s
(same names, same failures of `rows.Columns()` / `rows.Err()`) have the same closed form. -/
theorem readSqlM_delivered (P : RParams) (cmap : Option (List (Bytes × CoFn))) (names : List Bytes) (cf fe : Bool)
    (D D' : List (List DVal)) (h : D.map (List.map DVal.toSql) = D'.map (List.map DVal.toSql)) :
    readSqlM P cmap { names := names, columnsFail := cf, rows := D, finalErr := fe } =
      readSqlM P cmap { names := names, columnsFail := cf, rows := D', finalErr := fe } := by
  have hall : D.all (fun r => r.length == names.length) = D'.all (fun r => r.length == names.length) := by
    have hl := congrArg (List.map List.length) h
    simp only [List.map_map, Function.comp_def, List.length_map] at hl
    have e : ∀ X : List (List DVal), X.all (fun r => r.length == names.length) =
        (X.map (fun r => r.length)).all (fun n => n == names.length) := by
      intro X; simp [List.all_map, Function.comp_def]
    rw [e D, e D', hl]
  have hfun : (fun (j : Nat) (c : MCol) => colM P c (D.map (fun r => r[j]!))) =
      (fun (j : Nat) (c : MCol) => colM P c (D'.map (fun r => r[j]!))) := by
    funext j c
    unfold colM
    rw [foldlM_stepV_congr P c.2 _ _ c.1 (column_toSql D D' h j)]
  cases D with
  | nil =>
    cases D' with
    | nil => rfl
    | cons _ _ => simp at h
  | cons r rs =>
    cases D' with
    | nil => simp at h
    | cons r' rs' =>
      simp only [readSqlM]
      rw [hall, hfun]

/-- the driver's usual delivery: text as `string` -/
def asString : SqlVal → DVal
  | .int v => .int v | .float b => .float b | .bool b => .bool b | .text s => .str s | .null => .null

/-- … or text as `[]uint8` -/
def asBytes : SqlVal → DVal
  | .int v => .int v | .float b => .float b | .bool b => .bool b | .text s => .bytes s | .null => .null

theorem asString_denotes (v : SqlVal) : DVal.toSql (asString v) = some v := by cases v <;> rfl
theorem asBytes_denotes (v : SqlVal) : DVal.toSql (asBytes v) = some v := by cases v <;> rfl

theorem delivered_map (δ : SqlVal → DVal) (hδ : ∀ v, DVal.toSql (δ v) = some v) (rows : List (List SqlVal)) :
    Delivered (rows.map (List.map δ)) rows := by
  unfold Delivered
  simp only [List.map_map, Function.comp_def, hδ]

/-- **`gen_readsql_refines_spec` for any delivery**: regenerated `ReadSQL` followed by `New(data, ColumnOrder(columns...))`
is the spec's `readSqlNamedS`, for every table `D` of driver values that denotes the rows (text as `string` or `[]uint8`
cell by cell), under the hypotheses of `C19ReadSqlGen.gen_readsql_refines_spec`. -/
theorem gen_readsql_refines_spec_delivered (P : RParams) (cmap : Option (List (Bytes × CoFn))) (names : List Bytes)
    (rows : List (List SqlVal)) (D : List (List DVal)) (hD : Delivered D rows) (hn : names ≠ [])
    (harity : ∀ r ∈ rows, r.length = names.length)
    (hscope : ∀ j, j < names.length → inScope (coerceOf cmap names[j]!) (rows.map (fun r => r[j]!)) = true) :
    ∃ r, genReadSql P cmap { names := names, rows := D } = some r ∧
      frameOf (r.map viewRes) = readSqlNamedS names (specCmap cmap) (P.cfg .none).fixed P.pfloat rows := by
  obtain ⟨r, hr, hv⟩ := gen_readsql_semantics P cmap { names := names, rows := D }
  obtain ⟨r', hr', hf'⟩ := gen_readsql_refines_spec P cmap names rows asString asString_denotes hn harity hscope
  obtain ⟨r'', hr'', hv''⟩ := gen_readsql_semantics P cmap { names := names, rows := rows.map (List.map asString) }
  rw [hr'] at hr''
  cases hr''
  refine ⟨r, hr, ?_⟩
  rw [hv, ← hf', hv'']
  congr 1
  apply readSqlM_delivered
  rw [hD]
  exact (delivered_map asString asString_denotes rows).symm

/-! ## The recording driver -/

/-- the recording driver's store after a run of `ToSQL`: the argument lists of the `Exec` calls it received, in order -/
def storeOf (execs : List (Bytes × List Cell)) : List (List Cell) := execs.map (·.2)

/-- the rows a query over the store denotes: one per stored row, in insertion order, every value with the driver's kind of
what was written (`cellToVal`: int64, float64 — NaN included —, bool, text, NULL for a nil `*string`) -/
def storeRows (st : List (List Cell)) : List (List SqlVal) := st.map argsToVals

theorem storeRows_toSqlGo (cfg : SqlCfg) (f : LFrame) : storeRows (storeOf (toSqlGo cfg f)) = storedRows cfg f := by
  simp [storeRows, storeOf, toSqlGo, storedRows, toSqlS, Function.comp_def]

/-! ## C19's quantifier on stored frames -/

/-- **The frames of C19**: a stored frame (physical columns and an index, however derived) whose columns are of the five
types with cells of their type and whose index stays inside them (`FrameOK`: what every `QFrame` satisfies), with at least
one row, at least one column (a `QFrame` without columns has no rows), no string / enum column entirely null among the
selected rows, and legal, distinct column names (as `New` guarantees). NULLs can occur in string / enum columns only (cells
of an int / bool column are never null; a float NaN is handed to the driver as the float64 NaN, not as NULL). -/
structure InC19 (P : VFrame) : Prop where
  ok : FrameOK P
  rows : 1 ≤ P.index.length
  cols : P.cols ≠ []
  notAllNull : ∀ c ∈ P.cols, isStrTy c.ty = true → ∃ x ∈ c.pick P.index, x ≠ Cell.str none
  legal : (P.cols.map (·.name)).all legalName = true
  distinct : (P.cols.map (·.name)).eraseDups.length = P.cols.length

theorem wtCell_hasTy (ty : CType) (vals : List Bytes) (x : Cell) (h : wtCell ty vals x = true) : cellHasTy ty x = true := by
  cases ty <;> cases x <;> simp_all [wtCell, cellVal, cellHasTy]

/-- the logical frame of a frame of C19 is in the scope of `C19Sql.readback_frame` -/
theorem InC19.wf {P : VFrame} (h : InC19 P) : FrameWF P.logical := by
  refine ⟨h.rows, ?_⟩
  intro lc hlc
  obtain ⟨c, hc, rfl⟩ := List.mem_map.1 hlc
  have hok := h.ok c hc
  refine ⟨?_, ?_, ?_, ?_⟩
  · intro hu
    have := hok.ty
    simp only [VCol.logical] at hu
    rw [hu] at this
    simp [C03Compare.tys] at this
  · simp [VCol.logical, VCol.pick, VFrame.logical]
  · intro x hx
    simp only [VCol.logical, VCol.pick, List.mem_map] at hx
    obtain ⟨j, hj, rfl⟩ := hx
    exact wtCell_hasTy _ _ _ (hok.cells j (hok.index j hj))
  · intro hs
    obtain ⟨x, hx, hn⟩ := h.notAllNull c hc hs
    exact ⟨x, by simpa [VCol.logical] using hx, hn⟩

/-! ## The round trip -/

/-- what `ReadSQL` ∘ `New` makes of the frame: the same cells, enum columns as string columns -/
def readBack (P : VFrame) : LFrame := { cols := P.logical.cols.map readCol, n := P.index.length }

theorem fixed_id (R : RParams) (h : R.precision = 0) : (R.cfg .none).fixed = id := by
  funext b
  simp [Cfg.fixed, RParams.cfg, h]

/-- **ToSQL ∘ ReadSQL, everything regenerated, end to end.** For EVERY stored frame of C19's quantifier (`InC19`: ≥ 1 row,
≥ 1 column, columns of the five types, any index, string / enum columns not entirely null, however the frame was derived)
and EVERY dialect configuration (escape rune — 0, `"`, a backtick, anything —, `?` or `$1 … $n`, table name):

1. today's `ToSQL` (with today's `ColumnNames`, `Insert`, `escape`, `NewArgBuilder` and views) against a recording driver
   that does not fail returns nil after exactly one `Exec` per row of the frame;
2. the text of every statement is the configured INSERT: `INSERT INTO <table> (<names>) VALUES (<markers>);`
   (`insertTextGo`: identifiers wrapped in the escape rune as Go's `WriteRune` writes it);
3. for every delivery `D` of the store by a query — the rows in insertion order, under the names of the INSERT, int64 /
   float64 / bool by value, text as `string` or `[]uint8` cell by cell, NULL for a nil `*string` — today's `ReadSQL` (no
   coercion, no precision; over today's `Column.Scan` and `Data`) returns data and names of which
   `New(data, ColumnOrder(names...))` is THE FRAME: the same names in the same order, the same number of rows, every cell
   identical (floats bit for bit, NaN payloads included; null strings null), enum columns as string columns. -/
theorem gen_sql_roundtrip_end_to_end (P : VFrame) (hP : InC19 P) (cfg : SqlCfg) (R : RParams) (hprec : R.precision = 0)
    (D : List (List DVal)) :
    ∃ execs, genToSQLToday P false cfg (fun _ => false) = some (execs, .nil) ∧
      execs.length = P.index.length ∧
      (∀ e ∈ execs, e.1 = insertTextGo cfg (P.cols.map (·.name))) ∧
      (Delivered D (storeRows (storeOf execs)) →
        ∃ r, genReadSql R none { names := P.cols.map (·.name), rows := D } = some r ∧
          frameOf (r.map viewRes) = .ok (readBack P)) := by
  have hwf := hP.wf
  have hnames := logical_names P
  refine ⟨toSqlGo cfg P.logical, ?_, ?_, ?_, ?_⟩
  · rw [gen_tosql_semantics P hP.ok]
    simp [expected, cutWrites_nofail _ (fun _ => rfl)]
  · simp [toSqlGo, VFrame.logical]
  · intro e he
    simp only [toSqlGo, List.mem_map] at he
    obtain ⟨i, _, rfl⟩ := he
    rw [hnames]
  · intro hD
    rw [storeRows_toSqlGo] at hD
    have hlen : P.logical.cols.length = P.cols.length := by simp [VFrame.logical]
    have hn : P.cols.map (·.name) ≠ [] := by
      intro h0
      exact hP.cols (List.map_eq_nil_iff.1 h0)
    have harity : ∀ r ∈ storedRows cfg P.logical, r.length = (P.cols.map (·.name)).length := by
      intro r hr
      simp only [storedRows, toSqlS, List.map_map, List.mem_map, Function.comp_def] at hr
      obtain ⟨i, _, rfl⟩ := hr
      simp [argsToVals, LFrame.row, VFrame.logical]
    have hscope : ∀ j, j < (P.cols.map (·.name)).length →
        inScope (coerceOf none (P.cols.map (·.name))[j]!) ((storedRows cfg P.logical).map (fun r => r[j]!)) = true := by
      intro j hj
      have hj' : j < P.logical.cols.length := by rw [hlen]; simpa using hj
      obtain ⟨hu, hsz, hty, hnn⟩ := hwf.2 P.logical.cols[j] (List.getElem_mem hj')
      have hcol := resultColumn_stored cfg P.logical j hj' hsz
      unfold resultColumn at hcol
      rw [hcol]
      have hne : (P.logical.cols[j]).cells.toList ≠ [] := by
        intro h0
        have : (P.logical.cols[j]).cells.toList.length = 0 := by rw [h0]; rfl
        rw [Array.length_toList, hsz] at this
        have := hwf.1
        omega
      exact stored_inScope _ _ hty hne hu hnn
    obtain ⟨r, hr, hf⟩ := gen_readsql_refines_spec_delivered R none (P.cols.map (·.name)) (storedRows cfg P.logical) D hD hn
      harity hscope
    refine ⟨r, hr, ?_⟩
    rw [hf, fixed_id R hprec]
    have hrb := readback_frame cfg P.logical hwf R.pfloat (by rw [hnames]; exact hP.legal)
      (by rw [hnames]; simpa using hP.distinct)
    have hne : (storedRows cfg P.logical).isEmpty = false := by
      have hl := storedRows_length cfg P.logical
      cases hs : storedRows cfg P.logical with
      | nil => rw [hs] at hl; have := hwf.1; simp at hl; omega
      | cons _ _ => rfl
    unfold readSqlNamedS
    rw [hne]
    simp only [Bool.false_eq_true, if_false, specCmap, Option.getD_none, List.map_nil, List.any_nil, List.find?_nil,
      Option.map_none, Option.getD_none]
    rw [← hnames]
    have hrep : P.logical.names.map (fun _ => (0 : Nat)) = List.replicate P.logical.cols.length 0 := by
      simp only [LFrame.names, List.map_map]
      exact List.map_const'
    rw [hrep, hrb]
    rfl

/-- FULL STATEMENT (not provable: `insert_spec_differs_on_surrogate`): the same with the SPEC's statement text `insertText`
for every escape rune.
PROVED: … **with the spec's `toSqlS` / `insertText`** for every escape rune that is a Unicode scalar value (0 = no escaping
included). EXCLUDED: the surrogates U+D800..U+DFFF and values above U+10FFFF, where the spec writes the generalized UTF-8
encoding of the rune and Go's `WriteRune` writes U+FFFD. -/
theorem gen_sql_roundtrip_spec_text_partial (P : VFrame) (hP : InC19 P) (cfg : SqlCfg) (hr : validRune cfg.escape = true) :
    genToSQLToday P false cfg (fun _ => false) = some (toSqlS cfg P.logical, .nil) ∧
    (∀ e ∈ toSqlS cfg P.logical, e.1 = insertText cfg (P.cols.map (·.name))) ∧
    storeRows (storeOf (toSqlS cfg P.logical)) = storedRows cfg P.logical := by
  refine ⟨gen_tosql_all P hP.ok cfg hr, ?_, ?_⟩
  · intro e he
    simp only [toSqlS, List.mem_map] at he
    obtain ⟨i, _, rfl⟩ := he
    rw [logical_names]
  · rw [← toSqlGo_eq cfg hr, storeRows_toSqlGo]

/-! ## … through `ReadSQLWithArgs` -/

section WithArgs
open QF.SG QF.Props.C03SortGlueGen
variable {α χ : Type}

/-- **The round trip through the regenerated `ReadSQLWithArgs`** (`Gen.readSqlArgsAst`: configuration → `Prepare(conf.Query)`
→ `defer Close` → `Query(queryArgs...)` → `qfsqlio.ReadSQL` → `New(data, ColumnOrder(columns...))`): with a database whose
`Prepare` succeeds and whose `Query` delivers the store `ToSQL` filled (`D`), and `qfsqlio.ReadSQL` = today's `ReadSQL`, the
statement is closed and the frame returned is `New(d, ColumnOrder(cols...))` of data and names that ARE the frame
(`frameOf` = `New` as the spec has it). -/
theorem gen_sql_roundtrip_withargs (P : VFrame) (hP : InC19 P) (cfg : SqlCfg) (R : RParams) (hprec : R.precision = 0)
    (D : List (List DVal)) (hD : Delivered D (storeRows (storeOf (toSqlGo cfg P.logical))))
    (E : REnv α (List (List DVal)) (List (Bytes × SRData)) χ) (args : List α)
    (hprep : E.prepare (E.queryText E.cfg) = true) (hquery : E.query (E.queryText E.cfg) args = some D)
    (hread : ∀ rows c, E.readSql rows c = (genReadSql R none { names := P.cols.map (·.name), rows := rows }).bind id) :
    ∃ d cols, genReadSqlArgs E args =
        some { frame := E.new d (some cols), prepared := some (E.queryText E.cfg), closed := true } ∧
      frameOf (some (viewRes (d, cols))) = .ok (readBack P) := by
  obtain ⟨execs, h1, _, _, h4⟩ := gen_sql_roundtrip_end_to_end P hP cfg R hprec D
  have he : execs = toSqlGo cfg P.logical := by
    rw [gen_tosql_semantics P hP.ok] at h1
    simp [expected, cutWrites_nofail _ (fun _ => rfl)] at h1
    exact h1.symm
  subst he
  obtain ⟨r, hr, hf⟩ := h4 hD
  cases r with
  | none => simp [frameOf] at hf
  | some x =>
    obtain ⟨d, cols⟩ := x
    refine ⟨d, cols, ?_, hf⟩
    rw [gen_readsqlargs_semantics]
    simp [specReadSqlArgs, hprep, hquery, hread, hr]

end WithArgs

/-! ## Examples: concrete inputs meet the hypotheses -/

/-- a derived frame: four physical rows, the index picks rows 3, 0, 2 (in that order); an int, a float (with a NaN), a
string (with a null in front of the first value), an enum (with a null) and a bool column -/
def exP : VFrame :=
  { cols := [{ name := [105], ty := .int, data := #[.int 10, .int 11, .int (-12), .int 13] },
             { name := [102], ty := .float, data := #[.float 0x3ff0000000000000, .float 0, .float F64.canonNaN, .float 0x7ff8000000000002] },
             { name := [115], ty := .string, data := #[.str (some [120]), .str (some []), .str (some [121, 34]), .str none] },
             { name := [101], ty := .enum, vals := [[97], [98]], data := #[.str (some [98]), .str none, .str none, .str (some [97])] },
             { name := [98], ty := .bool, data := #[.bool true, .bool false, .bool false, .bool true] }],
    index := [3, 0, 2] }

theorem exP_ok : FrameOK exP := by
  intro c hc
  have hcells : ∀ j, j < 4 → j = 0 ∨ j = 1 ∨ j = 2 ∨ j = 3 := by omega
  simp only [exP, List.mem_cons, List.not_mem_nil, or_false] at hc
  rcases hc with rfl | rfl | rfl | rfl | rfl <;>
    exact ⟨by decide, fun j hj => by rcases hcells j hj with rfl | rfl | rfl | rfl <;> decide, by decide⟩

theorem exP_inC19 : InC19 exP := by
  refine ⟨exP_ok, by decide, by decide, ?_, by decide, by decide⟩
  intro c hc hs
  simp only [exP, List.mem_cons, List.not_mem_nil, or_false] at hc
  rcases hc with rfl | rfl | rfl | rfl | rfl
  · simp [isStrTy] at hs
  · simp [isStrTy] at hs
  · exact ⟨.str (some [120]), by decide, by decide⟩
  · exact ⟨.str (some [97]), by decide, by decide⟩
  · simp [isStrTy] at hs

/-- PostgreSQL style: `"` around identifiers, `$1 … $n` -/
def exCfg : SqlCfg := { escape := 34, incrementing := true, table := [116] }

def exR : RParams := { precision := 0, fixedFn := fun _ b => b, pfloat := fun _ => none }

/-- what the driver delivers for the store of `exP`: the string column as `[]uint8` in one row and `string` in another, the
enum column the other way round -/
def exD : List (List DVal) :=
  [[.int 13, .float 0x7ff8000000000002, .null, .bytes [97], .bool true],
   [.int 10, .float 0x3ff0000000000000, .str [120], .str [98], .bool true],
   [.int (-12), .float F64.canonNaN, .bytes [121, 34], .null, .bool false]]

/-- `exD` is a delivery of what `ToSQL` stores for `exP` -/
theorem exD_delivered : Delivered exD (storeRows (storeOf (toSqlGo exCfg exP.logical))) := by unfold Delivered; decide

/-- the theorem on the example: three `Exec`s `INSERT INTO "t" ("i","f","s","e","b") VALUES ($1,$2,$3,$4,$5);`, and reading
the store back gives the three logical rows, `e` as a string column -/
example : ∃ execs, genToSQLToday exP false exCfg (fun _ => false) = some (execs, .nil) ∧ execs.length = 3 ∧
    (∀ e ∈ execs, e.1 = insertTextGo exCfg [[105], [102], [115], [101], [98]]) ∧
    (Delivered exD (storeRows (storeOf execs)) →
      ∃ r, genReadSql exR none { names := [[105], [102], [115], [101], [98]], rows := exD } = some r ∧
        frameOf (r.map viewRes) = .ok (readBack exP)) :=
  gen_sql_roundtrip_end_to_end exP exP_inC19 exCfg exR rfl exD

example : insertTextGo exCfg [[105], [102], [115], [101], [98]] = strBytes "INSERT INTO \"t\" (\"i\",\"f\",\"s\",\"e\",\"b\") VALUES ($1,$2,$3,$4,$5);" ∧
    validRune exCfg.escape = true := by
  constructor <;> decide +kernel

example : (readBack exP).n = 3 ∧ (readBack exP).cols.map (fun c => (c.name, c.ty, c.vals, c.cells.toList)) =
    [([105], .int, [], [.int 13, .int 10, .int (-12)]),
     ([102], .float, [], [.float 0x7ff8000000000002, .float 0x3ff0000000000000, .float F64.canonNaN]),
     ([115], .string, [], [.str none, .str (some [120]), .str (some [121, 34])]),
     ([101], .string, [], [.str (some [97]), .str (some [98]), .str none]),
     ([98], .bool, [], [.bool true, .bool true, .bool false])] := by decide

/-- the scope lemma on the stored string column (a NULL in front of the first value) -/
example : inScope .none (argsToVals [.str none, .str (some [120]), .str (some [121, 34])]) = true :=
  stored_inScope .string _ (by decide) (by decide) (by decide) (fun _ => ⟨.str (some [120]), by decide, by decide⟩)

/-- outside C19's quantifier the round trip fails, and the spec says so: a string column that is entirely null among the
selected rows comes back as an error (a column of NULLs only has no type) -/
example : (match readSqlS [[115]] [0] id (fun _ => none)
      (storedRows exCfg { cols := [{ name := [115], ty := .string, cells := #[.str none] }], n := 1 }) with
    | .err => true | .ok _ => false) = true := by decide

#print axioms stored_inScope
#print axioms readSqlM_delivered
#print axioms gen_readsql_refines_spec_delivered
#print axioms gen_sql_roundtrip_end_to_end
#print axioms gen_sql_roundtrip_spec_text_partial
#print axioms gen_sql_roundtrip_withargs
#print axioms exP_inC19
#print axioms exD_delivered

end QF.Props.C19EndToEnd
