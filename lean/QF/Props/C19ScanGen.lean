import QF.Props.C19Sql
import QF.Gen.Scan
/-!
# C19 — `Column.Scan` of today's source IS the mirror's `scan`; folded over a result-set column it is `scanAll` (tie T1)

`QF.Gen.scanAst`, `QF.Gen.scanMethods`, `QF.Gen.coerceAsts`, `QF.Gen.dataAst` (regenerated on every run by
go/cmd/extract/sast.go) hold `Column.Scan`, the helpers `Null` / `Int` / `Float` / `String` / `Bool`, the closures of
`Int64ToBool` / `StringToFloat` (coerce.go) and `Data` of /repo/internal/io/sql as decision trees `QF.SX`
(QF/Core/SExpr.lean: their Go meaning over the column struct; `float.Fixed` and `strconv.ParseFloat` are parameters).
This file proves, for the terms generated TODAY:

* `gen_scan_no_opaque`         — everything was found and translated completely
* `gen_scan_canon`             — the terms are the canonical ones
* `gen_method_semantics`       — each helper is the mirror's `Col.null` / `Col.int` / `Col.float` / `Col.string` / `Col.bool`
                                 on every column state: kind detection when the slice pointer is nil, back-fill of the
                                 counted NULLs (NaN / nil pointer) and reset of the counter, the precision, NULL
                                 counting, the "non-nullable" error
* `gen_step_semantics`         — one `Scan` of ANY driver value `t` on any column state is the mirror's `scan` of the
                                 `SqlVal` that `t` denotes (`DVal.toSql`: `string` and `[]uint8` both denote `.text`): the
                                 same error / the same next state; a value of any other dynamic type is an error.
                                 TOTAL since the repair a7b7122 "StringToFloat accepts text delivered as a byte slice":
                                 the closure of `StringToFloat` now has a `[]uint8` branch that converts the bytes and
                                 goes on like the `string` branch (before, it returned "type []uint8 is not string" while
                                 mirror and spec parse the text — regression witness `bytes_under_stringToFloat_fixed`)
* `gen_scan_semantics`         — folding today's `Scan` over ANY list of driver values from the zero column =
                                 `scanAll` of the denoted `SqlVal`s (an error as soon as a value has no denotation),
                                 for every coercion, precision, `float.Fixed` and `strconv.ParseFloat`; no hypotheses
* `gen_scan_semantics_ofSql`   — corollary: for every list of `SqlVal`s, delivered with text as `string` (`DVal.ofSql`) or
                                 as `[]uint8` (`DVal.ofSqlBytes`), today's fold = `scanAll cfg vals`
* `gen_scan_refines_spec`      — hence, in the scope of `scan_refines_spec`, `Data()` after today's fold over driver values
                                 that denote `vals` is the spec's `sqlColumn … vals`
* `gen_data_semantics`         — `Data` returns the slice the pointer field points to, nil when it is nil (`Col.toLCol`)

Witnesses at the end: plausible mutations violate the statements.
-/
namespace QF.Props.C19ScanGen
open QF QF.Props.C19Sql

/-! ## Canonical terms -/

/-- `c.data.X = append(c.data.X, v)` and the end of the method -/
def push (s : SSlice) (v : SVE) : SX := .append s v .retNil

/-- an appender without back-fill: `if c.ptr == nil { c.kind = K; c.ptr = &c.data.X }; c.data.X = append(c.data.X, v)` -/
def plainAppender (kd : SKind) (s : SSlice) : SX :=
  .ifC .ptrNil (.setKind kd (.setPtr s (push s .arg))) (push s .arg)

/-- `if c.precision > 0 { f = float.Fixed(f, c.precision) }; c.data.Floats = append(c.data.Floats, f)` -/
def floatTail : SX := .ifC .precPos (.fixArg (push .floats .arg)) (push .floats .arg)

def strTail : SX := push .strings (.addrOf .arg)

/-- an appender with back-fill of the NULLs counted before the first value -/
def fillAppender (kd : SKind) (s : SSlice) (null : SVE) (tail : SX) : SX :=
  .ifC .ptrNil (.setKind kd (.setPtr s (.ifC .nullsPos (.backfill s null (.clearNulls tail)) tail))) tail

def canonNull : SX :=
  .ifC (.kindIs .invalid) (.incNulls .retNil)
    (.ifC (.kindIs .float) (push .floats .nan) (.ifC (.kindIs .string) (push .strings .nilPtr) .retErr))

def canonMethods : List (SMeth × SX) := [
  (.null, canonNull),
  (.int, plainAppender .int .ints),
  (.float, fillAppender .float .floats .nan floatTail),
  (.string, fillAppender .string .strings .nilPtr strTail),
  (.bool, plainAppender .bool .bools)]

/-- `c.<Method>(v); return nil` -/
def callRet (m : SMeth) (v : SVE) : SX := .call m v .retNil

/-- `err := c.Null(); if err != nil { return err }; return nil` / `return c.Null()` -/
def nullRet : SX := .callNull .retErr .retNil

def canonScan : SX :=
  .ifC .hasCoerce .retCoerce
    (.ifDyn .bool (callRet .bool .arg) (.ifDyn .string (callRet .string .arg) (.ifDyn .int64 (callRet .int (.intOf .arg))
      (.ifDyn .bytes (callRet .string (.stringOf .arg)) (.ifDyn .float64 (callRet .float .arg)
        (.ifDyn .null nullRet .retErr))))))

def canonI2B : SX := .ifDyn .int64 (callRet .bool (.neZero .arg)) .retErr

/-- `f, err := strconv.ParseFloat(v, 64); if err != nil { return error }; c.Float(f); return nil` -/
def parseTail : SX := .parseFloat .retErr (callRet .float .parsed)

/-- `v, ok := t.(string); if b, isBytes := t.([]uint8); isBytes { v, ok = string(b), true }; if !ok { return error }; …` -/
def canonS2F : SX :=
  .ifC .argNil nullRet (.ifDyn .string parseTail (.ifDyn .bytes (.bindArg (.stringOf .arg) parseTail) .retErr))

/-- the closure of `StringToFloat` before the repair a7b7122: only `t.(string)` -/
def preFixS2F : SX := .ifC .argNil nullRet (.ifDyn .string parseTail .retErr)

def canonData : SX := .ifC .ptrNil .retNoData .retPointee

theorem gen_scan_canon :
    Gen.scanMethods = canonMethods ∧ Gen.scanAst = canonScan ∧ Gen.dataAst = canonData ∧
    Gen.coerceAsts = [("Int64ToBool", canonI2B), ("StringToFloat", canonS2F)] := by decide

theorem gen_scan_no_opaque :
    Gen.scanMethods.map (·.1) = [.null, .int, .float, .string, .bool] ∧
    (∀ p ∈ Gen.scanMethods, p.2.hasOpaque = false) ∧ Gen.scanAst.hasOpaque = false ∧ Gen.dataAst.hasOpaque = false ∧
    Gen.coerceAsts.map (·.1) = ["Int64ToBool", "StringToFloat"] ∧ (∀ p ∈ Gen.coerceAsts, p.2.hasOpaque = false) := by decide

/-! ## The state of the column, the parameters, the program -/

def kindOfS : SKind → Kind
  | .invalid => .invalid | .int => .int | .float => .float | .bool => .bool | .string => .string

def sliceKind : SSlice → Kind
  | .ints => .int | .floats => .float | .bools => .bool | .strings => .string

/-- the mirror's `Col` of a column state -/
def toCol (c : SCol) : Col :=
  { kind := kindOfS c.kind, nulls := c.nulls, ptr := c.ptr.map sliceKind, ints := c.ints, floats := c.floats,
    bools := c.bools, strings := c.strings }

def params (cfg : Cfg) : SParams := { precision := cfg.precision, fixedFn := cfg.fixedFn, pfloat := cfg.pfloat }

/-- the program for a column with the coercion `co`, from the terms `ms`, `sc`, `cos` -/
def progOf (ms : List (SMeth × SX)) (sc : SX) (cos : List (String × SX)) (co : Coerce) : Option SProg :=
  match co with
  | .none => some { methods := ms, scan := sc, coerce := none }
  | .int64ToBool => (cos.lookup "Int64ToBool").map (fun b => { methods := ms, scan := sc, coerce := some b })
  | .stringToFloat => (cos.lookup "StringToFloat").map (fun b => { methods := ms, scan := sc, coerce := some b })

def canonProg (co : Coerce) : SProg :=
  { methods := canonMethods, scan := canonScan,
    coerce := match co with | .none => none | .int64ToBool => some canonI2B | .stringToFloat => some canonS2F }

theorem gen_prog (co : Coerce) : progOf Gen.scanMethods Gen.scanAst Gen.coerceAsts co = some (canonProg co) := by
  rw [gen_scan_canon.1, gen_scan_canon.2.1, gen_scan_canon.2.2.2]
  cases co <;> rfl

/-- the `SqlVal` a driver value denotes: `string` and `[]uint8` are both text; other dynamic types denote nothing -/
def DVal.toSql : DVal → Option SqlVal
  | .bool b => some (.bool b)
  | .str s => some (.text s)
  | .int i => some (.int i)
  | .bytes s => some (.text s)
  | .float f => some (.float f)
  | .null => some .null
  | .other => none

def toSqlAll : List DVal → Option (List SqlVal)
  | [] => some []
  | t :: ts =>
    match DVal.toSql t, toSqlAll ts with
    | some v, some vs => some (v :: vs)
    | _, _ => none

/-- a `SqlVal` delivered by a driver that hands out text as `string` -/
def DVal.ofSql : SqlVal → DVal
  | .bool b => .bool b
  | .text s => .str s
  | .int i => .int i
  | .float f => .float f
  | .null => .null

/-- a `SqlVal` delivered by a driver that hands out text as `[]uint8` -/
def DVal.ofSqlBytes : SqlVal → DVal
  | .bool b => .bool b
  | .text s => .bytes s
  | .int i => .int i
  | .float f => .float f
  | .null => .null

/-- what a call returns, in the mirror's types: `none` = no meaning, `some none` = an error -/
def view : SRes → Option (Option Col)
  | .ok c => some (some (toCol c))
  | .err => some none
  | .stuck => none

/-- one `Scan` of today's source: `none` = no meaning -/
def genStep (cfg : Cfg) (c : SCol) (t : DVal) : Option (Option SCol) :=
  match progOf Gen.scanMethods Gen.scanAst Gen.coerceAsts cfg.coerce with
  | some G => G.step (params cfg) c t
  | none => none

/-- today's `Scan` folded over the values of a result-set column, from the zero `Column` -/
def genScanAll (cfg : Cfg) (vals : List DVal) : Option (Option SCol) :=
  match progOf Gen.scanMethods Gen.scanAst Gen.coerceAsts cfg.coerce with
  | some G => G.scanAll (params cfg) vals {}
  | none => none

/-! ## The helpers -/

theorem lookup_null : canonMethods.lookup .null = some canonNull := by decide
theorem lookup_int : canonMethods.lookup .int = some (plainAppender .int .ints) := by decide
theorem lookup_float : canonMethods.lookup .float = some (fillAppender .float .floats .nan floatTail) := by decide
theorem lookup_string : canonMethods.lookup .string = some (fillAppender .string .strings .nilPtr strTail) := by decide
theorem lookup_bool : canonMethods.lookup .bool = some (plainAppender .bool .bools) := by decide

section Methods
variable (cfg : Cfg) (co : Coerce)

theorem method_null (c : SCol) :
    view ((canonProg co).method (params cfg) .null .none c) = some ((toCol c).null) := by
  obtain ⟨kind, nulls, ptr, ints, floats, bools, strings⟩ := c
  cases kind <;>
    simp [SProg.method, canonProg, lookup_null, canonNull, push, SX.run, SC.eval, SVE.eval, SCol.push, view,
      toCol, Col.null, kindOfS]

theorem method_int (c : SCol) (i : Int) :
    view ((canonProg co).method (params cfg) .int (.int i) c) = some (some ((toCol c).int i)) := by
  obtain ⟨kind, nulls, ptr, ints, floats, bools, strings⟩ := c
  cases ptr <;>
    simp [SProg.method, canonProg, lookup_int, plainAppender, push, SX.run, SC.eval, SVE.eval, SCol.push, view,
      toCol, Col.int, kindOfS, sliceKind]

theorem method_bool (c : SCol) (b : Bool) :
    view ((canonProg co).method (params cfg) .bool (.bool b) c) = some (some ((toCol c).bool b)) := by
  obtain ⟨kind, nulls, ptr, ints, floats, bools, strings⟩ := c
  cases ptr <;>
    simp [SProg.method, canonProg, lookup_bool, plainAppender, push, SX.run, SC.eval, SVE.eval, SCol.push, view,
      toCol, Col.bool, kindOfS, sliceKind]

theorem method_string (c : SCol) (s : Bytes) :
    view ((canonProg co).method (params cfg) .string (.str s) c) = some (some ((toCol c).string s)) := by
  obtain ⟨kind, nulls, ptr, ints, floats, bools, strings⟩ := c
  cases ptr with
  | some p =>
    simp [SProg.method, canonProg, lookup_string, fillAppender, strTail, push, SX.run, SC.eval, SVE.eval,
      SCol.push, view, toCol, Col.string, kindOfS, sliceKind]
  | none =>
    by_cases hn : nulls > 0 <;>
      simp [SProg.method, canonProg, lookup_string, fillAppender, strTail, push, SX.run, SC.eval, SVE.eval,
        SCol.push, view, toCol, Col.string, kindOfS, sliceKind, hn]

theorem method_float (c : SCol) (f : UInt64) :
    view ((canonProg co).method (params cfg) .float (.float f) c) = some (some ((toCol c).float cfg f)) := by
  obtain ⟨kind, nulls, ptr, ints, floats, bools, strings⟩ := c
  cases ptr with
  | some p =>
    by_cases hp : cfg.precision > 0 <;>
      simp [SProg.method, canonProg, lookup_float, fillAppender, floatTail, push, SX.run, SC.eval, SVE.eval,
        SCol.push, view, toCol, Col.float, kindOfS, sliceKind, params, hp]
  | none =>
    by_cases hn : nulls > 0 <;> by_cases hp : cfg.precision > 0 <;>
      simp [SProg.method, canonProg, lookup_float, fillAppender, floatTail, push, SX.run, SC.eval, SVE.eval,
        SCol.push, view, toCol, Col.float, kindOfS, sliceKind, params, hn, hp]

end Methods

/-! ## One `Scan` -/

section Step

theorem call_ret (P : SParams) (call : SMeth → SRV → SCol → SRes) (co : Option (DVal → SCol → SRes)) (ρ : SEnv) (c : SCol)
    (m : SMeth) (v : SVE) (x : Col) (hm : m ≠ .null) (h : view (call m (v.eval ρ) c) = some (some x)) :
    view ((callRet m v).run P call co ρ c) = some (some x) := by
  cases hr : call m (v.eval ρ) c with
  | ok c' => rw [hr] at h; cases m <;> first | exact absurd rfl hm | simpa [callRet, SX.run, hr, view] using h
  | err => rw [hr] at h; simp [view] at h
  | stuck => rw [hr] at h; simp [view] at h

theorem callNull_ret (P : SParams) (call : SMeth → SRV → SCol → SRes) (co : Option (DVal → SCol → SRes)) (ρ : SEnv) (c : SCol)
    (r : Option Col) (h : view (call .null .none c) = some r) :
    view (nullRet.run P call co ρ c) = some r := by
  cases hr : call .null .none c with
  | ok c' => rw [hr] at h; simpa [nullRet, SX.run, hr, view] using h
  | err => rw [hr] at h; simpa [nullRet, SX.run, hr, view] using h
  | stuck => rw [hr] at h; simp [view] at h

theorem step_view (G : SProg) (P : SParams) (c : SCol) (t : DVal) :
    (G.step P c t).map (fun r => r.map toCol) =
      view (G.scan.run P (G.method P)
        (G.coerce.map (fun b v c => b.run P (G.method P) none { arg := .dyn v } c)) { arg := .dyn t } c) := by
  unfold SProg.step
  simp only []
  cases G.scan.run P (G.method P) (G.coerce.map (fun b v c => b.run P (G.method P) none { arg := .dyn v } c))
    { arg := .dyn t } c <;> rfl

variable (cfg : Cfg)

/-- the type switch of `Scan` (no coercion) -/
theorem scan_plain (co : Coerce) (c : SCol) (t : DVal) :
    view (canonScan.run (params cfg) ((canonProg co).method (params cfg)) none { arg := .dyn t } c) =
      some ((DVal.toSql t).bind (scanPlain cfg (toCol c))) := by
  cases t with
  | bool b =>
    simp only [canonScan, SX.run, SC.eval, SDyn.bind, Option.isSome_none, DVal.toSql, Option.bind_some, scanPlain]
    exact call_ret _ _ _ _ _ _ _ _ (by decide) (method_bool cfg co c b)
  | str s =>
    simp only [canonScan, SX.run, SC.eval, SDyn.bind, Option.isSome_none, DVal.toSql, Option.bind_some, scanPlain]
    exact call_ret _ _ _ _ _ _ _ _ (by decide) (method_string cfg co c s)
  | int i =>
    simp only [canonScan, SX.run, SC.eval, SDyn.bind, Option.isSome_none, DVal.toSql, Option.bind_some, scanPlain]
    exact call_ret _ _ _ _ _ _ _ _ (by decide) (method_int cfg co c i)
  | bytes s =>
    simp only [canonScan, SX.run, SC.eval, SDyn.bind, Option.isSome_none, DVal.toSql, Option.bind_some, scanPlain]
    exact call_ret _ _ _ _ _ _ _ _ (by decide) (method_string cfg co c s)
  | float f =>
    simp only [canonScan, SX.run, SC.eval, SDyn.bind, Option.isSome_none, DVal.toSql, Option.bind_some, scanPlain]
    exact call_ret _ _ _ _ _ _ _ _ (by decide) (method_float cfg co c f)
  | null =>
    simp only [canonScan, SX.run, SC.eval, SDyn.bind, Option.isSome_none, DVal.toSql, Option.bind_some, scanPlain]
    exact callNull_ret _ _ _ _ _ _ (method_null cfg co c)
  | other =>
    simp [canonScan, SX.run, SC.eval, SDyn.bind, DVal.toSql, view]

/-- the closure of `Int64ToBool` -/
theorem coerce_i2b (co : Coerce) (c : SCol) (t : DVal) :
    view (canonI2B.run (params cfg) ((canonProg co).method (params cfg)) none { arg := .dyn t } c) =
      some ((DVal.toSql t).bind (coerceInt64ToBool (toCol c))) := by
  cases t with
  | int i =>
    simp only [canonI2B, SX.run, SDyn.bind, DVal.toSql, Option.bind_some, coerceInt64ToBool]
    exact call_ret _ _ _ _ _ _ _ _ (by decide) (method_bool cfg co c (i != 0))
  | _ => simp [canonI2B, SX.run, SDyn.bind, DVal.toSql, view, coerceInt64ToBool]

/-- parsing the text `s` bound to the value variable and appending the float -/
theorem parseTail_run (co : Coerce) (c : SCol) (s : Bytes) (ρ : SEnv) (hρ : ρ.arg = .str s) :
    view (parseTail.run (params cfg) ((canonProg co).method (params cfg)) none ρ c) =
      some (match cfg.pfloat s with
        | some f => some ((toCol c).float cfg f)
        | none => none) := by
  simp only [parseTail, SX.run, hρ, params]
  cases hp : cfg.pfloat s with
  | none => simp [view]
  | some f =>
    simp only []
    exact call_ret _ _ _ _ _ _ _ _ (by decide) (method_float cfg co c f)

/-- the closure of `StringToFloat`, for every driver value -/
theorem coerce_s2f (co : Coerce) (c : SCol) (t : DVal) :
    view (canonS2F.run (params cfg) ((canonProg co).method (params cfg)) none { arg := .dyn t } c) =
      some ((DVal.toSql t).bind (coerceStringToFloat cfg (toCol c))) := by
  cases t with
  | null =>
    simp only [canonS2F, SX.run, SC.eval, DVal.toSql, Option.bind_some, coerceStringToFloat]
    exact callNull_ret _ _ _ _ _ _ (method_null cfg co c)
  | str s =>
    simp only [canonS2F, SX.run, SC.eval, SDyn.bind, DVal.toSql, Option.bind_some, coerceStringToFloat]
    rw [parseTail_run cfg co c s _ rfl]
    cases cfg.pfloat s <;> rfl
  | bytes s =>
    simp only [canonS2F, SX.run, SC.eval, SDyn.bind, SVE.eval, DVal.toSql, Option.bind_some, coerceStringToFloat]
    rw [parseTail_run cfg co c s _ rfl]
    cases cfg.pfloat s <;> rfl
  | _ => simp [canonS2F, SX.run, SC.eval, SDyn.bind, DVal.toSql, view, coerceStringToFloat]

/-- **One `Scan` of the canonical program is the mirror's `scan`.** -/
theorem canon_step (c : SCol) (t : DVal) :
    ((canonProg cfg.coerce).step (params cfg) c t).map (fun r => r.map toCol) =
      some ((DVal.toSql t).bind (scan cfg (toCol c))) := by
  rw [step_view]
  unfold scan
  rcases hc : cfg.coerce with _ | _ | _
  · exact scan_plain cfg .none c t
  · simp only [canonProg, Option.map_some, canonScan, SX.run, SC.eval, Option.isSome_some]
    exact coerce_i2b cfg .int64ToBool c t
  · simp only [canonProg, Option.map_some, canonScan, SX.run, SC.eval, Option.isSome_some]
    exact coerce_s2f cfg .stringToFloat c t

end Step

/-! ## The fold -/

theorem toSqlAll_cons (t : DVal) (ts : List DVal) :
    toSqlAll (t :: ts) = (DVal.toSql t).bind (fun v => (toSqlAll ts).map (fun vs => v :: vs)) := by
  simp only [toSqlAll]
  cases DVal.toSql t <;> cases toSqlAll ts <;> rfl

/-- **The canonical `Scan` folded over a list of driver values is the mirror's fold of `scan`**, from any column state. -/
theorem canon_scanAll (cfg : Cfg) : ∀ (vals : List DVal) (c : SCol),
    ((canonProg cfg.coerce).scanAll (params cfg) vals c).map (fun r => r.map toCol) =
      some ((toSqlAll vals).bind (fun svs => svs.foldlM (scan cfg) (toCol c))) := by
  intro vals
  induction vals with
  | nil => intro c; simp [SProg.scanAll, toSqlAll]
  | cons t ts ih =>
    intro c
    have hstep := canon_step cfg c t
    have ih' := ih
    rw [toSqlAll_cons]
    unfold SProg.scanAll
    cases hs : (canonProg cfg.coerce).step (params cfg) c t with
    | none => rw [hs] at hstep; simp at hstep
    | some r =>
      rw [hs] at hstep
      cases r with
      | none =>
        simp only [Option.map_some, Option.map_none, Option.some.injEq] at hstep ⊢
        cases hv : DVal.toSql t with
        | none => rfl
        | some sv =>
          rw [hv] at hstep
          simp only [Option.bind_some] at hstep ⊢
          cases toSqlAll ts with
          | none => rfl
          | some svs => simp [List.foldlM_cons, ← hstep]
      | some c' =>
        simp only [Option.map_some, Option.some.injEq] at hstep
        simp only []
        rw [ih' c']
        cases hv : DVal.toSql t with
        | none => rw [hv] at hstep; simp at hstep
        | some sv =>
          rw [hv] at hstep
          simp only [Option.bind_some] at hstep ⊢
          cases toSqlAll ts with
          | none => rfl
          | some svs => simp [List.foldlM_cons, ← hstep]

/-! ## Today's source -/

/-- **Each helper of today's source is the mirror's method**, on every column state `c`: `Null` (`none` = the
"non-nullable type" error), `Int`, `Float` (precision and back-fill), `String` (back-fill), `Bool`. -/
theorem gen_method_semantics (cfg : Cfg) (c : SCol) :
    let G : SProg := { methods := Gen.scanMethods, scan := Gen.scanAst, coerce := none }
    view (G.method (params cfg) .null .none c) = some ((toCol c).null) ∧
    (∀ i, view (G.method (params cfg) .int (.int i) c) = some (some ((toCol c).int i))) ∧
    (∀ f, view (G.method (params cfg) .float (.float f) c) = some (some ((toCol c).float cfg f))) ∧
    (∀ s, view (G.method (params cfg) .string (.str s) c) = some (some ((toCol c).string s))) ∧
    (∀ b, view (G.method (params cfg) .bool (.bool b) c) = some (some ((toCol c).bool b))) := by
  simp only [gen_scan_canon.1, gen_scan_canon.2.1]
  exact ⟨method_null cfg .none c, method_int cfg .none c, method_float cfg .none c, method_string cfg .none c,
    method_bool cfg .none c⟩

/-- **One `Scan` of today's source is the mirror's `scan`.** For every configuration (coercion, precision,
`float.Fixed`, `strconv.ParseFloat`), every column state `c` and EVERY driver value `t`: the extracted `Scan` has a
meaning; it returns an error exactly when `t` denotes no `SqlVal` (a dynamic type the type switch does not know) or the
mirror's `scan` fails on the denoted value, and otherwise leaves the column in the state the mirror computes. -/
theorem gen_step_semantics (cfg : Cfg) (c : SCol) (t : DVal) :
    (genStep cfg c t).map (fun r => r.map toCol) = some ((DVal.toSql t).bind (scan cfg (toCol c))) := by
  unfold genStep
  rw [gen_prog]
  exact canon_step cfg c t

/-- **Folding today's `Scan` over any list of driver values is the mirror's `scanAll`** of the values they denote;
`toSqlAll vals = none` (some value has a dynamic type `Scan` does not know) gives an error. No hypotheses. -/
theorem gen_scan_semantics (cfg : Cfg) (vals : List DVal) :
    (genScanAll cfg vals).map (fun r => r.map toCol) = some ((toSqlAll vals).bind (scanAll cfg)) := by
  unfold genScanAll
  rw [gen_prog]
  exact canon_scanAll cfg vals {}

theorem toSqlAll_ofSql (vals : List SqlVal) : toSqlAll (vals.map DVal.ofSql) = some vals := by
  induction vals with
  | nil => rfl
  | cons v vs ih =>
    rw [List.map_cons, toSqlAll_cons, ih]
    cases v <;> rfl

theorem toSqlAll_ofSqlBytes (vals : List SqlVal) : toSqlAll (vals.map DVal.ofSqlBytes) = some vals := by
  induction vals with
  | nil => rfl
  | cons v vs ih =>
    rw [List.map_cons, toSqlAll_cons, ih]
    cases v <;> rfl

/-- … in particular for every list of `SqlVal`s, whether the driver delivers text as `string` or as `[]uint8`. -/
theorem gen_scan_semantics_ofSql (cfg : Cfg) (vals : List SqlVal) :
    (genScanAll cfg (vals.map DVal.ofSql)).map (fun r => r.map toCol) = some (scanAll cfg vals) ∧
    (genScanAll cfg (vals.map DVal.ofSqlBytes)).map (fun r => r.map toCol) = some (scanAll cfg vals) := by
  rw [gen_scan_semantics, gen_scan_semantics, toSqlAll_ofSql, toSqlAll_ofSqlBytes]
  exact ⟨rfl, rfl⟩

/-! ## `Data` -/

/-- `Data()` followed by `createColumn`, for the term `t` of `Data` -/
def dataOf (t : SX) (c : SCol) (name : Bytes) : Option LCol :=
  match t.runData c with
  | some (some s) => some (mkCol name (sliceKind s) ((toCol c).cellsOf (sliceKind s)))
  | _ => none

/-- **`Data` of today's source** returns the slice the pointer field points to (nil when it is nil): the mirror's
`Col.toLCol`. -/
theorem gen_data_semantics (c : SCol) (name : Bytes) :
    Gen.dataAst.runData c = some c.ptr ∧ dataOf Gen.dataAst c name = (toCol c).toLCol name := by
  rw [gen_scan_canon.2.2.1]
  obtain ⟨kind, nulls, ptr, ints, floats, bools, strings⟩ := c
  cases ptr <;> simp [canonData, SX.runData, dataOf, Col.toLCol, toCol]

/-- the column ReadSQL hands to `qframe.New`: today's `Scan` over the values, then today's `Data` -/
def genColumn (cfg : Cfg) (name : Bytes) (vals : List DVal) : Option LCol :=
  match genScanAll cfg vals with
  | some (some c) => dataOf Gen.dataAst c name
  | _ => none

/-- **Today's `Scan` and `Data` refine the spec** wherever the mirror does (`scan_refines_spec`): for driver values
`dvals` that denote `vals` (text as `string` or as `[]uint8`, in any mixture). -/
theorem gen_scan_refines_spec (cfg : Cfg) (name : Bytes) (dvals : List DVal) (vals : List SqlVal)
    (hd : toSqlAll dvals = some vals) (h : inScope cfg.coerce vals = true) :
    genColumn cfg name dvals = sqlColumn name cfg.coerce.toNat cfg.fixed cfg.pfloat vals := by
  rw [← scan_refines_spec cfg name vals h]
  have hs := gen_scan_semantics cfg dvals
  rw [hd] at hs
  unfold genColumn
  cases hg : genScanAll cfg dvals with
  | none => rw [hg] at hs; simp at hs
  | some r =>
    rw [hg] at hs
    simp only [Option.map_some, Option.some.injEq, Option.bind_some] at hs
    rw [← hs]
    cases r with
    | none => rfl
    | some c => exact (gen_data_semantics c name).2

/-! ## FINDING and witnesses -/

section Witnesses

private def one : Bytes := [49]
private def f1 : UInt64 := 0x3ff0000000000000

/-- a configuration for evaluation: "1" parses to 1.0, `float.Fixed(f, p)` is modelled by `f + p` (any visible change) -/
def cfgW (co : Coerce) (precision : Nat) : Cfg :=
  { coerce := co, precision := precision, fixedFn := fun p f => f + p.toUInt64,
    pfloat := fun s => if s = one then some f1 else none }

/-- one `Scan` with the coercion closures `cos` in place of today's -/
def stepW (cos : List (String × SX)) (cfg : Cfg) (c : SCol) (t : DVal) : Option (Option SCol) :=
  match progOf Gen.scanMethods Gen.scanAst cos cfg.coerce with
  | some G => G.step (params cfg) c t
  | none => none

/-- **Regression witness for the repaired finding `bytes_under_stringToFloat`** (fix a7b7122). Column with the
`StringToFloat` coercion, one row whose driver value is the `[]uint8` text "1" (what e.g. the MySQL driver delivers for
DECIMAL and text columns). The closure as it was BEFORE the repair (`preFixS2F`: it only asserts `t.(string)`) returns
an error ("type []uint8 is not string"), while the mirror's `scan` — for which `string` and `[]uint8` are the same
`SqlVal.text` — appends 1.0 and the spec's `sqlColumn` returns the float column `[1.0]`. TODAY's closure accepts the
bytes and leaves exactly the mirror's state, the same as for the `string` "1". -/
theorem bytes_under_stringToFloat_fixed :
    stepW [("Int64ToBool", canonI2B), ("StringToFloat", preFixS2F)] (cfgW .stringToFloat 0) {} (.bytes one) = some none ∧
    DVal.toSql (.bytes one) = some (.text one) ∧
    ((scan (cfgW .stringToFloat 0) {} (.text one)).map (·.floats)) = some [f1] ∧
    ((sqlColumn [97] 2 (cfgW .stringToFloat 0).fixed (cfgW .stringToFloat 0).pfloat [.text one]).map (·.cells.toList)) =
      some [.float f1] ∧
    genStep (cfgW .stringToFloat 0) {} (.bytes one) = some (some { kind := .float, ptr := some .floats, floats := [f1] }) ∧
    genStep (cfgW .stringToFloat 0) {} (.str one) = genStep (cfgW .stringToFloat 0) {} (.bytes one) ∧
    stepW Gen.coerceAsts (cfgW .stringToFloat 0) {} (.bytes one) = genStep (cfgW .stringToFloat 0) {} (.bytes one) ∧
    genStep (cfgW .none 0) {} (.bytes one) = some (some { kind := .string, ptr := some .strings, strings := [some one] }) := by
  decide

/-- a `[]uint8` branch that forgets to set `ok` (`v = string(b)` only) still rejects the bytes; one that does not convert
(`ok = true` only) has no text to parse — the pre-fix term and these are told apart from today's by `gen_step_semantics` -/
example : stepW [("Int64ToBool", canonI2B), ("StringToFloat", .ifC .argNil nullRet (.ifDyn .string parseTail
      (.ifDyn .bytes (.bindArg (.stringOf .arg) .retErr) .retErr)))] (cfgW .stringToFloat 0) {} (.bytes one) = some none ∧
    stepW [("Int64ToBool", canonI2B), ("StringToFloat", .ifC .argNil nullRet (.ifDyn .string parseTail
      (.ifDyn .bytes parseTail .retErr)))] (cfgW .stringToFloat 0) {} (.bytes one) = none := by decide

/-- run a program made of the given terms on a column of driver values; the float / string slice and what `Data` points to -/
def runW (ms : List (SMeth × SX)) (sc : SX) (cfg : Cfg) (vals : List DVal) : Option (Option SCol) :=
  match progOf ms sc [("Int64ToBool", canonI2B), ("StringToFloat", canonS2F)] cfg.coerce with
  | some G => G.scanAll (params cfg) vals {}
  | none => none

/-- what is observed of a column: the slice `Data` returns and the slices -/
structure Obs where
  ptr : Option SSlice
  floats : List UInt64
  strings : List (Option Bytes)
  ints : List Int
  deriving DecidableEq, Repr

def mirrorW (cfg : Cfg) (vals : List SqlVal) : Option Obs :=
  (scanAll cfg vals).map (fun c => ⟨c.ptr.bind (fun k => match k with
    | .int => some .ints | .float => some .floats | .bool => some .bools | .string => some .strings | .invalid => none),
    c.floats, c.strings, c.ints⟩)

def obsW (r : Option (Option SCol)) : Option Obs :=
  match r with
  | some (some c) => some ⟨c.ptr, c.floats, c.strings, c.ints⟩
  | _ => none

def withMethod (m : SMeth) (t : SX) : List (SMeth × SX) := canonMethods.map (fun p => if p.1 = m then (m, t) else p)

/-- the canonical terms agree with the mirror on the inputs used below -/
example : obsW (runW canonMethods canonScan (cfgW .none 2) [.null, .null, .float f1]) =
      mirrorW (cfgW .none 2) [.null, .null, .float f1] ∧
    obsW (runW canonMethods canonScan (cfgW .none 0) [.null, .str one, .null]) = mirrorW (cfgW .none 0) [.null, .text one, .null] ∧
    obsW (runW canonMethods canonScan (cfgW .none 0) [.int 1, .null]) = mirrorW (cfgW .none 0) [.int 1, .null] := by decide

/-- `Float` without the back-fill loses the NULLs in front of the first value: -/
example : obsW (runW (withMethod .float (.ifC .ptrNil (.setKind .float (.setPtr .floats floatTail)) floatTail)) canonScan
      (cfgW .none 0) [.null, .null, .float f1]) = some ⟨some .floats, [f1], [], []⟩ ∧
    mirrorW (cfgW .none 0) [.null, .null, .float f1] = some ⟨some .floats, [F64.canonNaN, F64.canonNaN, f1], [], []⟩ := by decide

/-- `Float` that does not reset the counter is not visible in the column, but `Float` without the precision is: -/
example : obsW (runW (withMethod .float (fillAppender .float .floats .nan (push .floats .arg))) canonScan
      (cfgW .none 2) [.float f1]) = some ⟨some .floats, [f1], [], []⟩ ∧
    mirrorW (cfgW .none 2) [.float f1] = some ⟨some .floats, [f1 + 2], [], []⟩ := by decide

/-- `Null` that does not count the NULLs in front of the first value: -/
example : obsW (runW (withMethod .null (.ifC (.kindIs .invalid) .retNil
      (.ifC (.kindIs .float) (push .floats .nan) (.ifC (.kindIs .string) (push .strings .nilPtr) .retErr)))) canonScan
      (cfgW .none 0) [.null, .str one]) = some ⟨some .strings, [], [some one], []⟩ ∧
    mirrorW (cfgW .none 0) [.null, .text one] = some ⟨some .strings, [], [none, some one], []⟩ := by decide

/-- `Null` that accepts a NULL in an int column (no "non-nullable type" error): -/
example : obsW (runW (withMethod .null (.ifC (.kindIs .invalid) (.incNulls .retNil)
      (.ifC (.kindIs .float) (push .floats .nan) (.ifC (.kindIs .string) (push .strings .nilPtr) .retNil)))) canonScan
      (cfgW .none 0) [.int 1, .null]) = some ⟨some .ints, [], [], [1]⟩ ∧
    mirrorW (cfgW .none 0) [.int 1, .null] = none := by decide

/-- `String` that sets the kind but not the pointer: `Data()` stays nil -/
example : obsW (runW (withMethod .string (.ifC .ptrNil (.setKind .string strTail) strTail)) canonScan
      (cfgW .none 0) [.str one]) = some ⟨none, [], [some one], []⟩ ∧
    mirrorW (cfgW .none 0) [.text one] = some ⟨some .strings, [], [some one], []⟩ := by decide

/-- a type switch without the `[]uint8` clause rejects text delivered as bytes: -/
example : obsW (runW canonMethods (.ifC .hasCoerce .retCoerce (.ifDyn .bool (callRet .bool .arg) (.ifDyn .string (callRet .string .arg)
      (.ifDyn .int64 (callRet .int (.intOf .arg)) (.ifDyn .float64 (callRet .float .arg) (.ifDyn .null nullRet .retErr))))))
      (cfgW .none 0) [.bytes one]) = none ∧
    (toSqlAll [.bytes one]).bind (mirrorW (cfgW .none 0)) = some ⟨some .strings, [], [some one], []⟩ := by decide

/-- `Scan` that ignores the coercion field: -/
example : obsW (runW canonMethods (.ifDyn .int64 (callRet .int (.intOf .arg)) .retErr) (cfgW .int64ToBool 0) [.int 1]) =
      some ⟨some .ints, [], [], [1]⟩ ∧
    (scanAll (cfgW .int64ToBool 0) [.int 1]).map (fun c => (c.ptr, c.bools)) = some (some .bool, [true]) := by decide

end Witnesses

#print axioms gen_scan_canon
#print axioms gen_scan_no_opaque
#print axioms gen_method_semantics
#print axioms gen_step_semantics
#print axioms gen_scan_semantics
#print axioms gen_scan_semantics_ofSql
#print axioms gen_data_semantics
#print axioms gen_scan_refines_spec
#print axioms bytes_under_stringToFloat_fixed

end QF.Props.C19ScanGen
