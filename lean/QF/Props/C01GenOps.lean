import QF.Props.C01Ops
import QF.Props.C08ProjectGen
import QF.Props.C06FApplyGen
import QF.Props.C17EnumRestGen
import QF.Props.C04LoopsGen
import QF.Props.C04GlueGen
import QF.Props.C01FreshCL
import QF.Props.C01FreshGL
/-!
# C01 — persistence from the REGENERATED operations

`QF.Props.C01Ops` proves the ownership discipline (`H.Prog.OwnWrites`: a program writes only arrays it allocated) for nine
HAND-WRITTEN operation models. This file derives the same statement, on the same store type (`H.Store`, `H.Prog`), for the
runs of the terms the translator regenerates from today's Go source, from the write accounting those runs already carry:

| family (term, interpreter)                                                       | accounting used                                   |
|----------------------------------------------------------------------------------|---------------------------------------------------|
| `Slice` `Select` `Drop` `Copy` `setColumn` `Sort` `Distinct` — whole operations, guard chain included (`genFull`), and the functions of internal/index (`Int.Copy`, `Int.Filter`, `NewAscending`, `NewBool`, the two `Len`, `grouper.Distinct`) — `QF.PF`, `PF.run` | the log of writes `List Wr` and the heap before / after: `C08ProjectGen.run_persistent` (from the static check `PF.ownOnly`) |
| the built-in `ToUpper` of string columns — `SUFn.run`                            | `SUOut.writes`, `shared`, `ptrsFresh`, `dataFresh`: `C06FApplyGen.gen_supper_semantics` |
| the built-in `ToUpper` of enum columns — `EUFn.run`                              | `EUOut.writes`, `dataShared`: `C06FApplyGen.gen_eupper_semantics` |
| `ecolumn.Subset` — `SS.run`                                                      | `SubOut.freshCells`: `C17EnumRestGen.gen_enum_subset_semantics` |
| the loops of `Apply1` / `Apply2` (five column packages) and `apply0` — `LFn.run`  | static check `writesOnlyFresh` (no part of the term is opaque: the only storing statement of the language is `result[slot] = rhs` into the `make` of the same loop; the interpreter cannot change its inputs): `C06LoopsGen.gen_loops_no_opaque` |

| `Filter` (clause evaluation, `QF.CL`), `GroupBy` and the table of `Distinct` (`QF.GL`, glue `QF.GG`) — value-semantics interpreters | static check `C01FreshCL.writesOnlyFresh` / `C01FreshGL.writesOnlyFresh` (provenance: every store targets an array / table made in the same run, or the table owned by the call), SOUND against the interpreter (`tagExec_sound`: the ghost run along the actual run counts no store into an existing array); today's terms pass by `decide` |
| `Aggregate` (`QF.LGFn`, `QF.LGTail`, `QF.GG.AT`), `FilteredApply` / `WithRowNums` (`QF.FAStm`) — languages of shapes | "no opaque part" (+ `alloc` in front of the loops): every storing construct makes its own target |

## The simulation

A run of a regenerated term is turned into an `H.Prog` by `Eff.prog`: an EFFECT SUMMARY (`Eff`) lists, in order, the arrays
that existed and are read, the arrays the run allocated, and every write — `Act.writeNew k` into the `k`-th array the run
allocated itself, `Act.writeOld id` into an array that existed when it started. The summary of a run is computed FROM THE
RUN'S OWN OUTCOME (heap before, heap after, write log / write counter), not from a second reading of the source; where an
existing array lives in the store is a parameter (`Dir`), what a typed array looks like as a list of numbers is a parameter
(`Enc`) — as in C01Ops, values are abstract, the statement is about which arrays are read, allocated and written.

* `Eff.own`            : a summary without `writeOld` gives a program with `OwnWrites base` for every `base`;
* `Eff.not_own`        : a summary with a `writeOld id`, `id < base`, gives a program that is NOT `OwnWrites base`;
* `gen_project_own_writes`, `gen_index_own_writes`, `gen_supper_own_writes`, `gen_eupper_own_writes`,
  `gen_subset_own_writes`, `gen_apply_loops_own_writes`, `gen_run_own_writes` : the regenerated runs obey the discipline;
* `gen_any_history_persistent` : `H.history_persistent` instantiated — any history of regenerated runs (each started from any
  heap, with any arguments) leaves every array of the initial store as it was;
* `gen_history_observation_kept` : the same on the typed heap of `QF.PF` — after any history of regenerated whole operations
  every array that existed is unchanged and every well-formed earlier frame observes (`PFrame.abs`, column list, index,
  look-ups) exactly what it observed; `gen_history_observation_kept_from` for frames made in the middle of the history;
* `gen_filter_own_writes`, `gen_groupBy_own_writes`, `gen_distinct_table_own_writes`, `gen_aggregate_own_writes`,
  `gen_fapply_own_writes` : the same for the families with value-semantics interpreters (section "The families whose
  interpreters compute on VALUES"); with them `GRun` covers EVERY public operation and `gen_any_history_persistent` is the
  full statement.
* `any_history_persistent_partial` : (kept) histories that MIX regenerated runs with the hand models of C01Ops — no longer
  needed: every family now enters as a regenerated run.
* witnesses: `append` onto the shared column list in `setColumn`, sorting the receiver's index in place, `newData :=
  s.data[:0]` in the enum `toUpper`, `newPtrs := s.pointers` in the string one, an in-place `Apply1` — each fails the static
  check / the counter AND its program is not `OwnWrites`.
-/
set_option linter.unusedVariables false
namespace QF.Props.C01GenOps
open H QF QF.Props.C01 QF.Props.C08ProjectGen

/-! ## Effect summaries and their programs -/

/-- one storage action of a run -/
inductive Act where
  /-- an array is read -/
  | read (id : Id)
  /-- an array is allocated -/
  | alloc (init : Arr)
  /-- a write into the `k`-th array this run allocated -/
  | writeNew (k : Nat) (v : Arr)
  /-- a write into an array that existed when the run started (absolute id) -/
  | writeOld (id : Id) (v : Arr)
  deriving Repr, DecidableEq

def Act.fresh : Act → Bool
  | .writeOld _ _ => false
  | _ => true

/-- the program of a list of actions; `ids`: the arrays allocated so far -/
def actsProg : List Act → List Id → Prog Unit
  | [], _ => .ret ()
  | .read id :: as, ids => .read id fun _ => actsProg as ids
  | .alloc init :: as, ids => .alloc init fun id => actsProg as (ids ++ [id])
  | .writeNew k v :: as, ids =>
    match ids[k]? with
    | some id => .write id v (actsProg as ids)
    | none => actsProg as ids
  | .writeOld id v :: as, ids => .write id v (actsProg as ids)

theorem actsProg_own (base : Nat) (as : List Act) (hf : ∀ a ∈ as, a.fresh = true) (ids : List Id)
    (hi : ∀ id ∈ ids, base ≤ id) : (actsProg as ids).OwnWrites base := by
  induction as generalizing ids with
  | nil => trivial
  | cons a as ih =>
    have hf' : ∀ a ∈ as, a.fresh = true := fun x hx => hf x (List.mem_cons_of_mem _ hx)
    cases a with
    | read id => intro v; exact ih hf' ids hi
    | alloc init =>
      intro id hid
      refine ih hf' _ fun x hx => ?_
      rcases List.mem_append.1 hx with h | h
      · exact hi x h
      · rw [List.mem_singleton.1 h]; exact hid
    | writeNew k v =>
      simp only [actsProg]
      split
      · rename_i id hk
        exact ⟨hi id (List.mem_of_getElem? hk), ih hf' ids hi⟩
      · exact ih hf' ids hi
    | writeOld id v => have := hf _ List.mem_cons_self; simp [Act.fresh] at this

/-- a write into an existing array cannot be hidden by what comes before or after it -/
theorem actsProg_not_own (base : Nat) (pre post : List Act) (id : Id) (v : Arr) (ids : List Id)
    (h : (actsProg (pre ++ .writeOld id v :: post) ids).OwnWrites base) : base ≤ id := by
  induction pre generalizing ids with
  | nil => exact h.1
  | cons a pre ih =>
    cases a with
    | read r => exact ih ids (h [])
    | alloc init => exact ih _ (h base (Nat.le_refl _))
    | writeNew k w =>
      simp only [List.cons_append, actsProg] at h
      split at h
      · exact ih ids h.2
      · exact ih ids h
    | writeOld r w => exact ih ids h.2

/-- What a run does to storage: the existing arrays it reads, then — given what it read — its allocations and writes. -/
structure Eff where
  reads : List Id
  acts : List Arr → List Act

def Eff.prog (e : Eff) : Prog Unit := readAll e.reads fun ds => actsProg (e.acts ds) []

/-- no write into an array that existed -/
def Eff.Fresh (e : Eff) : Prop := ∀ ds, ∀ a ∈ e.acts ds, a.fresh = true

/-- **Soundness of the summary.** A run whose summary has no write into an existing array writes only arrays it allocated. -/
theorem Eff.own (e : Eff) (h : e.Fresh) : ∀ base, e.prog.OwnWrites base := fun base =>
  readAll_own base _ _ fun ds => actsProg_own base _ (h ds) [] (by simp)

theorem readAll_own_inv {α : Type} (base : Nat) (cs : List Id) (k : List Arr → Prog α)
    (h : (readAll cs k).OwnWrites base) : ∃ ds, (k ds).OwnWrites base := by
  induction cs generalizing k with
  | nil => exact ⟨[], h⟩
  | cons c cs ih =>
    obtain ⟨ds, hd⟩ := ih (fun ds => k ([] :: ds)) (h [])
    exact ⟨[] :: ds, hd⟩

/-- **Completeness of the summary**: a summary that always contains a write into an array below `base` gives a program
outside the discipline. -/
theorem Eff.not_own (e : Eff) (base : Nat)
    (h : ∀ ds, ∃ pre post id v, e.acts ds = pre ++ .writeOld id v :: post ∧ id < base) : ¬ e.prog.OwnWrites base := by
  intro ho
  obtain ⟨ds, hd⟩ := readAll_own_inv base _ _ ho
  obtain ⟨pre, post, id, v, he, hlt⟩ := h ds
  rw [he] at hd
  have := actsProg_not_own base pre post id v [] hd
  omega

/-! ## Where typed arrays live in the store, and what they look like there -/

/-- what an array of each type looks like as a list of numbers (values are abstract: any functions) -/
structure Enc where
  cols : List NCol → Arr
  map : List (Bytes × NCol) → Arr
  ptrs : List BPtr → Arr
  bytes : Bytes → Arr
  strs : List Bytes → Arr
  cells : List Cell → Arr

/-- where the arrays that exist when a run starts live in the store -/
abbrev Dir := Kind → Nat → Id

def oldLen (h : Heap) : Kind → Nat
  | .ix => h.ixs.length
  | .cols => h.colss.length
  | .map => h.maps.length

/-- the array of a kind, as numbers -/
def encArr (C : Enc) (h : Heap) : Kind → Nat → Arr
  | .ix, id => h.ixArr id
  | .cols, id => C.cols (h.colArr id)
  | .map, id => C.map (h.mapArr id)

/-- the arrays of `h'` that `h` did not have: index arrays, then column lists, then name maps -/
def newArrs (C : Enc) (h h' : Heap) : List Arr :=
  (h'.ixs.drop h.ixs.length) ++ (h'.colss.drop h.colss.length).map C.cols ++ (h'.maps.drop h.maps.length).map C.map

/-- the number of a new array among the allocations of the run -/
def newNo (h h' : Heap) : Kind → Nat → Nat
  | .ix, id => id - h.ixs.length
  | .cols, id => (h'.ixs.length - h.ixs.length) + (id - h.colss.length)
  | .map, id => (h'.ixs.length - h.ixs.length) + (h'.colss.length - h.colss.length) + (id - h.maps.length)

/-- a logged write as an action: into an array that existed, or into one of the run's own -/
def wrAct (C : Enc) (D : Dir) (h h' : Heap) (w : Wr) : Act :=
  if w.id < oldLen h w.kind then .writeOld (D w.kind w.id) (encArr C h' w.kind w.id)
  else .writeNew (newNo h h' w.kind w.id) (encArr C h' w.kind w.id)

/-- the arrays a frame's headers point to -/
def frameReads (D : Dir) (f : PFrame) : List Id :=
  [D .ix f.index.id, D .cols f.cols.id] ++ (match f.map with | some m => [D .map m] | none => [])

/-- **The summary of a run of the `PF` interpreter**, from its own outcome: the arrays of the receiver and of the index
argument are read, the arrays the heap gained are allocated, every entry of the write log is a write. A run without value
(Go: a panic, or a term that is not understood) does nothing. -/
def pfEff (C : Enc) (D : Dir) (E : PIn) (h : Heap) (o : Option POut) : Eff where
  reads := frameReads D E.f ++ [D .ix E.ixParam.id]
  acts := fun _ =>
    match o with
    | some out => (newArrs C h out.2.1).map Act.alloc ++ out.2.2.map (wrAct C D h out.2.1)
    | none => []

theorem wrAct_fresh (C : Enc) (D : Dir) (h h' : Heap) (w : Wr) (hw : wrOwn h w) : (wrAct C D h h' w).fresh = true := by
  unfold wrAct
  have : ¬ w.id < oldLen h w.kind := by
    unfold wrOwn at hw; unfold oldLen
    cases hk : w.kind <;> rw [hk] at hw <;> simp only at hw ⊢ <;> omega
  rw [if_neg this]; rfl

theorem pfEff_fresh (C : Enc) (D : Dir) (E : PIn) (h : Heap) (o : Option POut)
    (hp : ∀ out, o = some out → OwnWrites h out.2.2) : (pfEff C D E h o).Fresh := by
  intro ds a ha
  cases o with
  | none => simp [pfEff] at ha
  | some out =>
    simp only [pfEff, List.mem_append, List.mem_map] at ha
    rcases ha with ⟨x, _, rfl⟩ | ⟨w, hw, rfl⟩
    · rfl
    · exact wrAct_fresh C D h _ w (hp out rfl w hw)

/-- a logged write into an array that existed shows in the program -/
theorem pfEff_not_own (C : Enc) (D : Dir) (E : PIn) (h : Heap) (out : POut) (w : Wr) (hw : w ∈ out.2.2)
    (hold : w.id < oldLen h w.kind) (base : Nat) (hb : D w.kind w.id < base) :
    ¬ (pfEff C D E h (some out)).prog.OwnWrites base := by
  refine Eff.not_own _ base fun ds => ?_
  obtain ⟨l1, l2, hl⟩ := List.append_of_mem hw
  refine ⟨(newArrs C h out.2.1).map Act.alloc ++ l1.map (wrAct C D h out.2.1), l2.map (wrAct C D h out.2.1),
    D w.kind w.id, encArr C out.2.1 w.kind w.id, ?_, hb⟩
  simp only [pfEff, hl, List.map_append, List.map_cons, List.append_assoc]
  simp [wrAct, hold]

/-! ## The regenerated whole operations (guards + work) and index functions keep the discipline -/

/-- a whole operation of today's source keeps the discipline of `C08ProjectGen.Persistent`, for every request -/
theorem genFull_persistent (X : Ext) (op : String) (q : GReq) (E : PIn) (hc : E.callIx = genCallIx X)
    (hs : E.callSelect = genSelect X E.f) (h : Heap) (out : POut) (e : genFull op q E h = some out) :
    Persistent h out := by
  have lib : LibOK E := genEnv_ok X E.f E hc hs
  unfold genFull at e
  split at e
  · cases e; exact ⟨fun _ hx => (by cases hx), Unchanged.refl h, fun s hs => (by cases hs)⟩
  · exact ret_inv { E with errParam := true } ⟨lib.ix, lib.sel⟩ h _ (genHelper_new _) _ (Inv.init h) out e
  · exact run_persistent _ lib _ (genOp_own _).1 (genOp_own _).2 h out e
  · cases e

/-- a regenerated whole operation: name, the request as the guards see it, environment (receiver, arguments, today's
library), and what lies outside the model (`Ext`: the sorter's permutation, the table) -/
structure GOp where
  op : String
  /-- `true`: guard chain and work (`genFull`; `Slice`, `Select`, `Drop`, `Copy`, whose guard chains are `QF.Gen.guardAst`);
  `false`: the work after the guards (`Sort`, `Distinct`, `setColumn`, whose guards are `QF.Gen.guardAst2`, C10Guards) -/
  whole : Bool
  X : Ext
  q : GReq
  E : PIn
  hc : E.callIx = genCallIx X
  hs : E.callSelect = genSelect X E.f

def GOp.run (g : GOp) (h : Heap) : Option POut :=
  if g.whole then genFull g.op g.q g.E h else (genOp g.op).run g.E h

theorem GOp.run_persistent (g : GOp) (h : Heap) (out : POut) (e : g.run h = some out) : Persistent h out := by
  unfold GOp.run at e
  split at e
  · exact genFull_persistent g.X g.op g.q g.E g.hc g.hs h out e
  · exact QF.Props.C08ProjectGen.run_persistent _ (genEnv_ok g.X g.E.f g.E g.hc g.hs) _ (genOp_own _).1 (genOp_own _).2 h out e

/-- **The regenerated run as a program on the store of C01 / C11.** -/
def GOp.prog (g : GOp) (C : Enc) (D : Dir) (h : Heap) : Prog Unit := (pfEff C D g.E h (g.run h)).prog

/-- **`Slice`, `Select`, `Drop`, `Copy`, `setColumn`, `Sort`, `Distinct` of today's source write only arrays they
allocate** — for every request (valid or not), receiver, heap, directory and encoding. -/
theorem gen_project_own_writes (g : GOp) (C : Enc) (D : Dir) (h : Heap) : ∀ base, (g.prog C D h).OwnWrites base :=
  Eff.own _ (pfEff_fresh C D g.E h _ fun out e => (g.run_persistent h out e).own)

/-- a function of internal/index (or `grouper.Distinct`) of today's source, called on its own -/
def ixProg (name : String) (C : Enc) (D : Dir) (E : PIn) (h : Heap) : Prog Unit :=
  (pfEff C D E h ((genIx name).run E h)).prog

/-- **`Int.Copy`, `Int.Filter`, `NewAscending`, `NewBool`, `Len`, `grouper.Distinct` write only arrays they allocate.** -/
theorem gen_index_own_writes (name : String) (C : Enc) (D : Dir) (E : PIn) (lib : LibOK E) (h : Heap) :
    ∀ base, (ixProg name C D E h).OwnWrites base :=
  Eff.own _ (pfEff_fresh C D E h _ fun out e =>
    (run_persistent E lib _ (genIx_own name).1 (genIx_own name).2 h out e).own)

/-- the general form: ANY term that passes the static check, under any library that keeps the discipline -/
theorem pf_own_writes (t : PF) (ho : t.ownOnly = true) (hn : PFretsNew t = true) (C : Enc) (D : Dir) (E : PIn)
    (lib : LibOK E) (h : Heap) : ∀ base, (pfEff C D E h (t.run E h)).prog.OwnWrites base :=
  Eff.own _ (pfEff_fresh C D E h _ fun out e => (run_persistent E lib t ho hn h out e).own)

/-! ## The built-in `ToUpper` of string and enum columns, `ecolumn.Subset` -/

open QF.Props.C06FApplyGen QF.Props.C17EnumRestGen
open QF.Props.C04LoopsGen (BValid)

/-- **The summary of a run of the string `toUpper`** (`SUFn.run`), from its accounting: the index and the source's two
arrays are read; a pointer / data array the function allocated (`ptrsFresh` / `dataFresh`) is an allocation and written;
stores into the source's arrays are counted by `writes` — the counter does not say into which of the two, so a non-zero
counter is a write into both. -/
def supperEff (C : Enc) (ixId ptrsId dataId : Id) (o : LR SUOut) : Eff where
  reads := [ixId, ptrsId, dataId]
  acts := fun _ =>
    match o with
    | .ok R =>
      (if R.ptrsFresh then [Act.alloc (C.ptrs R.res.ptrs), .writeNew 0 (C.ptrs R.res.ptrs)] else []) ++
      (if R.dataFresh then [Act.alloc (C.bytes R.res.data), .writeNew (if R.ptrsFresh then 1 else 0) (C.bytes R.res.data)]
        else []) ++
      (if R.writes = 0 then [] else [Act.writeOld ptrsId (C.ptrs R.src.ptrs), .writeOld dataId (C.bytes R.src.data)])
    | _ => []

theorem supperEff_fresh (C : Enc) (ixId ptrsId dataId : Id) (o : LR SUOut) (hw : ∀ R, o = .ok R → R.writes = 0) :
    (supperEff C ixId ptrsId dataId o).Fresh := by
  intro ds a ha
  cases o with
  | ok R =>
    have := hw R rfl
    simp only [supperEff, this, ↓reduceIte, List.append_nil, List.mem_append] at ha
    rcases ha with ha | ha
    · split at ha
      · simp only [List.mem_cons, List.not_mem_nil, or_false] at ha; rcases ha with rfl | rfl <;> rfl
      · cases ha
    · split at ha
      · simp only [List.mem_cons, List.not_mem_nil, or_false] at ha; rcases ha with rfl | rfl <;> rfl
      · cases ha
  | panic => simp [supperEff] at ha
  | stuck => simp [supperEff] at ha

/-- the string `toUpper` of today's source as a program on the store -/
def supperProg (C : Enc) (up : Bytes → Bytes) (B : BCol) (ix : List Nat) (ixId ptrsId dataId : Id) : Prog Unit :=
  (supperEff C ixId ptrsId dataId ((supperOf (strBytes "ToUpper")).run up B ix)).prog

/-- **The string `toUpper` of today's source writes only arrays it allocates** (`gen_supper_semantics`: `writes = 0`). -/
theorem gen_supper_own_writes (C : Enc) (up : Bytes → Bytes) (B : BCol) (ix : List Nat) (hv : BValid B.ptrs B.data)
    (hix : ∀ r ∈ ix, r < B.ptrs.length) (ixId ptrsId dataId : Id) :
    ∀ base, (supperProg C up B ix ixId ptrsId dataId).OwnWrites base := by
  refine Eff.own _ (supperEff_fresh C _ _ _ _ fun R hR => ?_)
  obtain ⟨R', h1, _, h3, _⟩ := gen_supper_semantics up B ix hv hix
  rw [h1] at hR; cases hR; exact h3

/-- **The summary of a run of the enum `toUpper`** (`EUFn.run`): the source's `data` and `values` are read, the new value
table is allocated, the new `data` is allocated unless it IS the source's (`dataShared`), `writes` counts the stores into
the source's `data`. -/
def eupperEff (C : Enc) (dataId valsId : Id) (o : LR EUOut) : Eff where
  reads := [dataId, valsId]
  acts := fun _ =>
    match o with
    | .ok R =>
      [Act.alloc (C.strs R.values), .writeNew 0 (C.strs R.values)] ++
      (if R.dataShared then [] else [Act.alloc R.data, .writeNew 1 R.data]) ++
      (if R.writes = 0 then [] else [Act.writeOld dataId R.src.data])
    | _ => []

theorem eupperEff_fresh (C : Enc) (dataId valsId : Id) (o : LR EUOut) (hw : ∀ R, o = .ok R → R.writes = 0) :
    (eupperEff C dataId valsId o).Fresh := by
  intro ds a ha
  cases o with
  | ok R =>
    have := hw R rfl
    simp only [eupperEff, this, ↓reduceIte, List.append_nil, List.mem_append] at ha
    rcases ha with ha | ha
    · simp only [List.mem_cons, List.not_mem_nil, or_false] at ha; rcases ha with rfl | rfl <;> rfl
    · split at ha
      · cases ha
      · simp only [List.mem_cons, List.not_mem_nil, or_false] at ha; rcases ha with rfl | rfl <;> rfl
  | panic => simp [eupperEff] at ha
  | stuck => simp [eupperEff] at ha

def eupperProg (C : Enc) (up : Bytes → Bytes) (E : ECol) (dataId valsId : Id) : Prog Unit :=
  (eupperEff C dataId valsId ((eupperOf (strBytes "ToUpper")).run up E)).prog

/-- **The enum `toUpper` of today's source writes only arrays it allocates** (`gen_eupper_semantics`: `writes = 0`). -/
theorem gen_eupper_own_writes (C : Enc) (up : Bytes → Bytes) (E : ECol)
    (hc : ∀ c ∈ E.data, c = euNull ∨ c < E.values.length) (dataId valsId : Id) :
    ∀ base, (eupperProg C up E dataId valsId).OwnWrites base := by
  refine Eff.own _ (eupperEff_fresh C _ _ _ fun R hR => ?_)
  obtain ⟨_, R', h1, _, h3, _⟩ := gen_eupper_semantics up E hc
  rw [h1] at hR; cases hR; exact h3

/-- **The summary of a run of `ecolumn.Subset`** (`SS.run`): the index and the receiver's cells are read; the cells of the
result are an array made inside the function (`freshCells`) — or else the receiver's, written. -/
def subsetEff (ixId cellsId : Id) (o : Option ER.SubOut) : Eff where
  reads := [ixId, cellsId]
  acts := fun _ =>
    match o with
    | some out =>
      if out.freshCells then [Act.alloc out.col.cells, .writeNew 0 out.col.cells] else [Act.writeOld cellsId out.col.cells]
    | none => []

def subsetProg (c : ER.Col) (index : List Nat) (ixId cellsId : Id) : Prog Unit :=
  (subsetEff ixId cellsId (genSubsetExported c index)).prog

/-- **`ecolumn.Subset` of today's source writes only the array it allocates** (`gen_enum_subset_semantics`). -/
theorem gen_subset_own_writes (c : ER.Col) (index : List Nat) (ixId cellsId : Id) :
    ∀ base, (subsetProg c index ixId cellsId).OwnWrites base := by
  refine Eff.own _ fun ds a ha => ?_
  obtain ⟨h1, _, h3⟩ := gen_enum_subset_semantics c index
  simp only [subsetEff] at ha
  cases ho : genSubsetExported c index with
  | none => rw [ho] at ha; cases ha
  | some out =>
    rw [ho] at ha
    have := (h3 out (h1 ▸ ho)).1
    simp only [this, ↓reduceIte, List.mem_cons, List.not_mem_nil, or_false] at ha
    rcases ha with rfl | rfl <;> rfl


/-! ## The loops of `Apply1` / `Apply2` / `apply0` -/

open QF.Props.C06LoopsGen in
/-- **The summary of a run of an apply function** (`LFn.run`, QF/Core/LExpr.lean). The only statement of the term language
that stores anything is `LStmt.store`: `result[slot] = rhs`, into the array `result := make([]R, len)` of the same
`LBody.loop`; the receiver, the second column and the index are inputs the interpreter cannot change. A statement the
translator could not express is `.opaque` — it might write anything the function can reach, so the static check
`writesOnlyFresh` is "no opaque part", and a term that fails it counts as a write into the receiver's cells. -/
def applyEff {σ : Type} (C : Enc) (F : LFn) (E : LEnv σ) (ixId recvId otherId : Id) : Eff where
  reads := [ixId, recvId, otherId]
  acts := fun _ =>
    if F.hasOpaque then [Act.writeOld recvId []]
    else
      match F.run E with
      | .arr _ _ r _ => [Act.alloc (C.cells r), .writeNew 0 (C.cells r)]
      | _ => []

/-- the static check on an apply function: every store goes to the array the function made -/
def writesOnlyFresh (F : LFn) : Bool := !F.hasOpaque

theorem applyEff_fresh {σ : Type} (C : Enc) (F : LFn) (E : LEnv σ) (ixId recvId otherId : Id)
    (h : writesOnlyFresh F = true) : (applyEff C F E ixId recvId otherId).Fresh := by
  intro ds a ha
  have hf : F.hasOpaque = false := by simpa [writesOnlyFresh] using h
  simp only [applyEff, hf, Bool.false_eq_true, ↓reduceIte] at ha
  split at ha
  · simp only [List.mem_cons, List.not_mem_nil, or_false] at ha; rcases ha with rfl | rfl <;> rfl
  · cases ha

/-- today's apply functions pass the check (`C06LoopsGen.gen_loops_no_opaque`, a finite check redone on every run) -/
theorem writesOnlyFresh_today :
    (∀ e ∈ Gen.apply1Ast, writesOnlyFresh e.2 = true) ∧ (∀ e ∈ Gen.apply2Ast, writesOnlyFresh e.2 = true) ∧
    writesOnlyFresh Gen.apply0Ast = true := by
  obtain ⟨h1, h2, h3, _⟩ := QF.Props.C06LoopsGen.gen_loops_no_opaque
  exact ⟨fun e he => by simp [writesOnlyFresh, h1 e he], fun e he => by simp [writesOnlyFresh, h2 e he],
    by simp [writesOnlyFresh, h3]⟩

/-- the apply functions of today's source: `Apply1` / `Apply2` of one of the five column packages, `apply0` -/
inductive ApplyFn where
  | apply1 (ty : CType) (h : ty ∈ QF.Props.C02Kernels.tys)
  | apply2 (ty : CType) (h : ty ∈ QF.Props.C02Kernels.tys)
  | apply0

open QF.Props.C06LoopsGen in
def ApplyFn.term : ApplyFn → LFn
  | .apply1 ty _ => apply1Of ty
  | .apply2 ty _ => apply2Of ty
  | .apply0 => Gen.apply0Ast

theorem applyOf_fresh : ∀ ty ∈ QF.Props.C02Kernels.tys,
    writesOnlyFresh (QF.Props.C06LoopsGen.apply1Of ty) = true ∧ writesOnlyFresh (QF.Props.C06LoopsGen.apply2Of ty) = true := by
  decide

theorem ApplyFn.fresh (f : ApplyFn) : writesOnlyFresh f.term = true := by
  cases f with
  | apply1 ty h => exact (applyOf_fresh ty h).1
  | apply2 ty h => exact (applyOf_fresh ty h).2
  | apply0 => exact writesOnlyFresh_today.2.2

def applyProg {σ : Type} (C : Enc) (f : ApplyFn) (E : LEnv σ) (ixId recvId otherId : Id) : Prog Unit :=
  (applyEff C f.term E ixId recvId otherId).prog

/-- **The loops of `Apply1` / `Apply2` (all five column packages) and `apply0` of today's source write only the array they
make** — for every receiver, second column, index and function value. -/
theorem gen_apply_loops_own_writes {σ : Type} (C : Enc) (f : ApplyFn) (E : LEnv σ) (ixId recvId otherId : Id) :
    ∀ base, (applyProg C f E ixId recvId otherId).OwnWrites base :=
  Eff.own _ (applyEff_fresh C _ E _ _ _ f.fresh)

/-- a term with a statement the language cannot express (e.g. `c.data[i] = t(c.data[i])`, an in-place apply) fails the
check, and its program is not `OwnWrites` -/
theorem witness_apply_in_place {σ : Type} (C : Enc) (E : LEnv σ) (ixId recvId otherId base : Nat) (hb : recvId < base) :
    let F : LFn := { cases := [(.fn [.int] .int, .loop .int .recvLen [.opaque "c.data[i] = t(c.data[i])"] .ownCol)], dflt := .err }
    writesOnlyFresh F = false ∧ ¬ (applyEff C F E ixId recvId otherId).prog.OwnWrites base := by
  intro F
  refine ⟨by decide, Eff.not_own _ base fun ds => ⟨[], [], recvId, [], ?_, hb⟩⟩
  have : F.hasOpaque = true := by decide
  simp [applyEff, this]

/-! ## The families whose interpreters compute on VALUES: Filter, GroupBy, the table of Distinct, Aggregate, FilteredApply

The interpreters of `QF.CL` (clause evaluation of Filter), `QF.GL` (the grouper's hash table), `QF.LGFn` / `QF.LGTail` (the
loops of `Column.Aggregate` and the first-row index), `QF.GG` (the glue of GroupBy / Distinct / Aggregate) and `QF.FAStm`
(FilteredApply, WithRowNums) hold lists in variables; they carry no array identities. What makes their runs programs on the
store is the static check `writesOnlyFresh` on the regenerated TERMS, with its soundness against the interpreter:

* `QF.CL`, `QF.GL` are generic imperative languages (`m[i] = e`, `append`, field updates, pointer receivers): the check is a
  provenance analysis (`QF.Props.C01FreshCL`, `QF.Props.C01FreshGL`: every storing statement targets a variable only ever
  bound to arrays / tables made in the same run — or the table owned by the call), sound against the interpreter by the
  ghost run (`tagExec_sound`: along the actual run no store into an array that existed), today's terms pass by `decide`.
* `QF.LGFn`, `QF.LGTail`, `QF.GG.AT`, `QF.GG.GB`, `QF.GG.DK`, `QF.FAStm` are languages of SHAPES: every storing construct names
  its target by construction and the target is made by the construct itself or by one in front of it in the same term —
  `LGCase.agg … init write`: `out := make(…)` then `out = append(out, …)` / `out[i] = …`; `LGSlice`: the slice handed to the
  aggregation function, `make` or the function's own buffer re-sliced (`buf[:0]`, `buf` a local of `Column.Aggregate` — the
  translator accepts nothing else as a buffer, last.go); `LGTail.firstInit/firstWrite`: `first := make(…)`, `first[i] = …`;
  `AT.alloc` then `AS.putGrouped` / `putNamed` / `appendCol` into the map and the slice `alloc` made, `AS.setPosI` /
  `setPosLen` / `setName` on the local copy `col` of a map entry, `AS.compute`: `counts := make(…)`; `GB.setOneGroup` /
  `setIndices` / `setStats` and `FAStm.setIndex` assign a FIELD OF A LOCAL STRUCT (`g := Grouper{…}`, `newQf := qf` — Go copies
  the struct). Their interpreters cannot change an input. A statement outside these shapes is `.opaque` (seeded C01-7:
  `inStorageOrder(ix)` in front of `col.Aggregate`), so the check is "no opaque part" (+ `alloc` in front of the loops), as
  for the apply loops.

What the RESULTS share with the inputs (read off the terms, `C01FreshCL.gen_clauses_result_provenance`,
`C01FreshGL.gen_grouper_result_provenance`): Filter returns the receiver itself for a failed frame and for `NullClause`, the
receiver's index UNCHANGED under a new error for an unknown column / a kernel error / a clause error, else a NEW index;
GroupBy without columns puts the receiver's index header into a new one-element group list (`g.indices =
[]index.Int{qf.index}`, shared and never written), else the groups are arrays the table built; the table of Distinct
returns a NEW row array; FilteredApply returns a frame with THE RECEIVER'S index header (`newQf.index = qf.index`) and the
column list `Apply` made; Aggregate a new ascending index and new columns. Shared arrays are read, never written.

A run is summarised by `freshEff`: the arrays read, then — when the term passes its check — one allocation and one write per
array the run's OUTCOME says was made; when it does not, a write into the receiver's array (a term that fails may store
anywhere it can reach). -/

def newActs : List Arr → Nat → List Act
  | [], _ => []
  | a :: as, k => .alloc (List.replicate a.length 0) :: .writeNew k a :: newActs as (k + 1)

theorem newActs_fresh (l : List Arr) (k : Nat) : ∀ a ∈ newActs l k, a.fresh = true := by
  induction l generalizing k with
  | nil => intro a ha; cases ha
  | cons x xs ih =>
    intro a ha
    simp only [newActs, List.mem_cons] at ha
    rcases ha with rfl | rfl | ha
    · rfl
    · rfl
    · exact ih _ a ha

/-- the summary of a run of a value-semantics interpreter: `ok` the static check of the term(s), `blame` the receiver's
array, `news` the arrays the outcome of the run says were made -/
def freshEff (reads : List Id) (ok : Bool) (blame : Id) (news : List Arr) : Eff where
  reads := reads
  acts := fun _ => if ok then newActs news 0 else [Act.writeOld blame []]

theorem freshEff_fresh (reads : List Id) (ok : Bool) (blame : Id) (news : List Arr) (h : ok = true) :
    (freshEff reads ok blame news).Fresh := by
  intro ds a ha
  simp only [freshEff, h, ↓reduceIte] at ha
  exact newActs_fresh news 0 a ha

theorem freshEff_not_own (reads : List Id) (ok : Bool) (blame : Id) (news : List Arr) (h : ok = false) (base : Nat)
    (hb : blame < base) : ¬ (freshEff reads ok blame news).prog.OwnWrites base := by
  refine Eff.not_own _ base fun ds => ⟨[], [], blame, [], ?_, hb⟩
  simp [freshEff, h]

/-! ### Filter -/

/-- every function of a clause-evaluation unit passes `C01FreshCL.writesOnlyFresh` -/
def clausesOK (P : List (CL.FnId × CL.Fn)) : Bool :=
  P.all fun p => C01FreshCL.writesOnlyFresh (C01FreshCL.newFns P) p.2

/-- the arrays a run of `qf.Filter(c)` made, from its outcome: nothing on a failed receiver or for `NullClause` (the receiver
is returned); else the mask, and — unless the result carries an error (`withErr`: the receiver's index unchanged) — the
result index -/
def filterNews (c : F.Clause) (f : F.Frame) : Option F.Frame → List Arr
  | some g =>
    if f.err then []
    else match c with
      | .null => []
      | _ => [f.index.map fun p => if g.index.contains p then 1 else 0] ++ (if g.err then [] else [g.index])
  | none => []

def filterEff (P : List (CL.FnId × CL.Fn)) (O : F.Leaf → CL.LeafCalls) (c : F.Clause) (f : F.Frame) (ixId colsId : Id) : Eff :=
  freshEff [ixId, colsId] (clausesOK P) ixId (filterNews c f (CL.interp P O c f))

theorem clausesOK_today : clausesOK Gen.clauseFns = true :=
  List.all_eq_true.2 fun p hp => C01FreshCL.gen_clauses_writes_only_fresh p hp

/-- `qf.Filter(c)` of today's source as a program on the store -/
def filterProg (O : F.Leaf → CL.LeafCalls) (c : F.Clause) (f : F.Frame) (ixId colsId : Id) : Prog Unit :=
  (filterEff Gen.clauseFns O c f ixId colsId).prog

/-- **Filter of today's source writes only arrays it allocates** — every clause tree, receiver, leaf oracle. -/
theorem gen_filter_own_writes (O : F.Leaf → CL.LeafCalls) (c : F.Clause) (f : F.Frame) (ixId colsId : Id) :
    ∀ base, (filterProg O c f ixId colsId).OwnWrites base :=
  Eff.own _ (freshEff_fresh _ _ _ _ clausesOK_today)

/-! ### GroupBy and the table of Distinct -/

/-- every function of a grouper unit passes `C01FreshGL.writesOnlyFresh` (mutating methods with their owned receiver) -/
def grouperOK (P : List (GL.FnId × GL.Fn)) : Bool :=
  P.all fun p => C01FreshGL.writesOnlyFresh (C01FreshGL.mutFns P)
    (C01FreshGL.newFns P (C01FreshGL.mutFns P) (C01FreshGL.newFns P (C01FreshGL.mutFns P) (fun _ => false)))
    (C01FreshGL.mutFns P p.1) p.2

theorem grouperOK_today : grouperOK Gen.grouperFns = true :=
  List.all_eq_true.2 fun p hp => C01FreshGL.gen_grouper_writes_only_fresh p hp

/-- `qf.GroupBy(…)`: the glue (`QF.GG.GB`) and `grouper.GroupBy`; made: every group and the group list -/
def groupByEff (P : List (GL.FnId × GL.Fn)) (glue : GG.GB) (fuel : Nat) (cs : List GL.Cmp) (ix : List Nat) (ixId colsId : Id) : Eff :=
  freshEff [ixId, colsId] (grouperOK P && !glue.hasOpaque) ixId
    (match GL.interpGroupBy P fuel cs ix with
     | some (gs, _) => gs ++ [gs.map List.length]
     | none => [])

def groupByProg (fuel : Nat) (cs : List GL.Cmp) (ix : List Nat) (ixId colsId : Id) : Prog Unit :=
  (groupByEff Gen.grouperFns Gen.groupByAst fuel cs ix ixId colsId).prog

theorem gen_groupBy_own_writes (fuel : Nat) (cs : List GL.Cmp) (ix : List Nat) (ixId colsId : Id) :
    ∀ base, (groupByProg fuel cs ix ixId colsId).OwnWrites base :=
  Eff.own _ (freshEff_fresh _ _ _ _ (by
    rw [Bool.and_eq_true]; exact ⟨grouperOK_today, by rw [QF.Props.C04GlueGen.gen_glue_no_opaque.1]; rfl⟩))

/-- the table of `qf.Distinct(…)`: what `QFrame.Distinct` hands over (`QF.GG.DK`) and `grouper.Distinct`; made: the rows -/
def distinctTableEff (P : List (GL.FnId × GL.Fn)) (dk : GG.DK) (fuel : Nat) (cs : List GL.Cmp) (ix : List Nat) (ixId colsId : Id) : Eff :=
  freshEff [ixId, colsId] (grouperOK P && !dk.hasOpaque) ixId
    (match GL.interpDistinct P fuel cs ix with
     | some l => [l]
     | none => [])

def distinctTableProg (fuel : Nat) (cs : List GL.Cmp) (ix : List Nat) (ixId colsId : Id) : Prog Unit :=
  (distinctTableEff Gen.grouperFns Gen.distinctCmpsAst fuel cs ix ixId colsId).prog

theorem gen_distinct_table_own_writes (fuel : Nat) (cs : List GL.Cmp) (ix : List Nat) (ixId colsId : Id) :
    ∀ base, (distinctTableProg fuel cs ix ixId colsId).OwnWrites base :=
  Eff.own _ (freshEff_fresh _ _ _ _ (by
    rw [Bool.and_eq_true]; exact ⟨grouperOK_today, by rw [QF.Props.C04GlueGen.gen_glue_no_opaque.2.2.2.2]; rfl⟩))

/-! ### Aggregate -/

/-- the static check on the terms of Aggregate: the loop of `Column.Aggregate`, the first-row index, the glue — no part
outside the shapes, and the map / slice of the result allocated in front of the loops that fill them -/
def aggregateOK (F : LGFn) (tail : LGTail) (glue : List GG.AT) : Bool :=
  !F.hasOpaque && !tail.hasOpaque && glue.all (fun t => !t.hasOpaque) &&
    ((glue.takeWhile fun t => match t with | .keyLoop _ | .aggLoop _ => false | _ => true).any fun t => t == .alloc)

/-- made: the first-row index, the cells of the aggregated column -/
def aggregateEff (C : Enc) (F : LGFn) (tail : LGTail) (glue : List GG.AT) (E : LGEnv) (z : Cell) (groupsId recvId : Id) : Eff :=
  freshEff [groupsId, recvId] (aggregateOK F tail glue) recvId
    ((match tail.first E.groups with | some l => [l] | none => []) ++
     (match F.run E z with | .col _ cells => [C.cells cells] | _ => []))

theorem aggregateOK_today : ∀ ty ∈ QF.Props.C02Kernels.tys,
    aggregateOK (QF.Props.C04LoopsGen.aggregateOf ty) Gen.grouperTailAst Gen.aggregateGlueAst = true := by decide

def aggregateProg (C : Enc) (ty : CType) (E : LGEnv) (z : Cell) (groupsId recvId : Id) : Prog Unit :=
  (aggregateEff C (QF.Props.C04LoopsGen.aggregateOf ty) Gen.grouperTailAst Gen.aggregateGlueAst E z groupsId recvId).prog

theorem gen_aggregate_own_writes (C : Enc) (ty : CType) (hty : ty ∈ QF.Props.C02Kernels.tys) (E : LGEnv) (z : Cell)
    (groupsId recvId : Id) : ∀ base, (aggregateProg C ty E z groupsId recvId).OwnWrites base :=
  Eff.own _ (freshEff_fresh _ _ _ _ (aggregateOK_today ty hty))

/-! ### FilteredApply, WithRowNums -/

def fapplyOK (stms : List FAStm) : Bool := stms.all fun s => !s.hasOpaque

/-- the plumbing of `FilteredApply` / `WithRowNums` makes no array: it copies frame VALUES and assigns the index field of a
local copy; `Filter` and `Apply` inside it are runs of their own -/
def fapplyEff (stms : List FAStm) (ixId colsId : Id) : Eff := freshEff [ixId, colsId] (fapplyOK stms) ixId []

theorem fapplyOK_today : fapplyOK Gen.fapplyAst = true ∧ fapplyOK Gen.rowNumsFnAst = true := by decide

/-- `rowNums = false`: `FilteredApply`; `true`: `WithRowNums` -/
def fapplyProg (rowNums : Bool) (ixId colsId : Id) : Prog Unit :=
  (fapplyEff (if rowNums then Gen.rowNumsFnAst else Gen.fapplyAst) ixId colsId).prog

theorem gen_fapply_own_writes (rowNums : Bool) (ixId colsId : Id) : ∀ base, (fapplyProg rowNums ixId colsId).OwnWrites base :=
  Eff.own _ (freshEff_fresh _ _ _ _ (by cases rowNums <;> simp [fapplyOK_today.1, fapplyOK_today.2]))

/-! ### Witnesses for these families -/

/-- **Witness: a Filter that compacts the surviving rows into the receiver's index** (`C01FreshCL.leavesInPlace` in the
place of `QFrame.filter`): the unit fails the check and the program of ANY run of it writes the receiver's index. -/
theorem witness_filter_in_place (O : F.Leaf → CL.LeafCalls) (c : F.Clause) (f : F.Frame) (ixId colsId base : Nat) (hb : ixId < base) :
    clausesOK ((CL.FnId.leaves, C01FreshCL.leavesInPlace) :: Gen.clauseFns) = false ∧
    ¬ (filterEff ((CL.FnId.leaves, C01FreshCL.leavesInPlace) :: Gen.clauseFns) O c f ixId colsId).prog.OwnWrites base := by
  have h : clausesOK ((CL.FnId.leaves, C01FreshCL.leavesInPlace) :: Gen.clauseFns) = false := by decide
  exact ⟨h, freshEff_not_own _ _ _ _ h base hb⟩

/-- **Witness: a Distinct that collects its rows in the caller's index / a grouper that appends to the caller's index
slice** (`C01FreshGL.distinctInPlace`, `groupByIntoCallerIx`). -/
theorem witness_grouper_in_place (fuel : Nat) (cs : List GL.Cmp) (ix : List Nat) (ixId colsId base : Nat) (hb : ixId < base) :
    ¬ (distinctTableEff ((GL.FnId.distinct, C01FreshGL.distinctInPlace) :: Gen.grouperFns) Gen.distinctCmpsAst fuel cs ix ixId colsId).prog.OwnWrites base ∧
    ¬ (groupByEff ((GL.FnId.groupBy, C01FreshGL.groupByIntoCallerIx) :: Gen.grouperFns) Gen.groupByAst fuel cs ix ixId colsId).prog.OwnWrites base := by
  have h1 : grouperOK ((GL.FnId.distinct, C01FreshGL.distinctInPlace) :: Gen.grouperFns) = false := by decide
  have h2 : grouperOK ((GL.FnId.groupBy, C01FreshGL.groupByIntoCallerIx) :: Gen.grouperFns) = false := by decide
  exact ⟨freshEff_not_own _ _ _ _ (by rw [h1]; rfl) base hb, freshEff_not_own _ _ _ _ (by rw [h2]; rfl) base hb⟩

/-- **Witness (seeded C01-7): `inStorageOrder(ix)` — an in-place sort of every group's index — in front of
`col.Aggregate(g.indices, agg.Fn)`.** The statement is outside the shapes of the glue, the term fails the check, and the
program of any run writes the grouper's array. -/
theorem witness_aggregate_sorts_groups (C : Enc) (ty : CType) (E : LGEnv) (z : Cell) (groupsId recvId base : Nat) (hb : recvId < base) :
    let glue : List GG.AT := [.ifGrouperErr, .firstRows 0, .alloc,
      .keyLoop [.lookupGrouped, .setPosI, .subsetFirst, .putGrouped, .appendCol], .declErr,
      .aggLoop [.lookupAggOrErr, .nameFromColumn, .nameFromAsIfSet, .setName, .setPosLen, .rejectIfPresent,
        .opaque "for _, ix := range g.indices { inStorageOrder(ix) }", .compute "count", .putNamed, .appendCol], .retFrame]
    aggregateOK (QF.Props.C04LoopsGen.aggregateOf ty) Gen.grouperTailAst glue = false ∧
    ¬ (aggregateEff C (QF.Props.C04LoopsGen.aggregateOf ty) Gen.grouperTailAst glue E z groupsId recvId).prog.OwnWrites base := by
  intro glue
  have h : aggregateOK (QF.Props.C04LoopsGen.aggregateOf ty) Gen.grouperTailAst glue = false := by
    have : (glue.all fun t => !t.hasOpaque) = false := by decide
    simp [aggregateOK, this]
  exact ⟨h, freshEff_not_own _ _ _ _ h base hb⟩

/-! ## Any regenerated run; histories -/

/-- A run of regenerated code, with everything it starts from. -/
inductive GRun : Type 1 where
  /-- a whole operation `Slice` / `Select` / `Drop` / `Copy` / `setColumn` / `Sort` / `Distinct` (guards + work) -/
  | op (g : GOp) (h : Heap) (D : Dir)
  /-- a function of internal/index or `grouper.Distinct` -/
  | ixfn (name : String) (E : PIn) (lib : LibOK E) (h : Heap) (D : Dir)
  /-- the built-in `ToUpper` of a string column -/
  | supper (up : Bytes → Bytes) (B : BCol) (ix : List Nat) (hv : BValid B.ptrs B.data)
      (hix : ∀ r ∈ ix, r < B.ptrs.length) (ixId ptrsId dataId : Id)
  /-- the built-in `ToUpper` of an enum column -/
  | eupper (up : Bytes → Bytes) (E : ECol) (hc : ∀ c ∈ E.data, c = euNull ∨ c < E.values.length) (dataId valsId : Id)
  /-- `ecolumn.Subset` -/
  | subset (c : ER.Col) (index : List Nat) (ixId cellsId : Id)
  /-- the loop of `Apply1` / `Apply2` of a column package, or of `apply0` -/
  | applyLoop (σ : Type) (f : ApplyFn) (E : LEnv σ) (ixId recvId otherId : Id)
  /-- `Filter`: the clause evaluation (`QF.CL`), any clause tree -/
  | filter (O : F.Leaf → CL.LeafCalls) (c : F.Clause) (f : F.Frame) (ixId colsId : Id)
  /-- `GroupBy`: the glue and the hash table of internal/grouper (`QF.GG.GB`, `QF.GL`) -/
  | groupBy (fuel : Nat) (cs : List GL.Cmp) (ix : List Nat) (ixId colsId : Id)
  /-- the table of `Distinct` (`QF.GG.DK`, `QF.GL`); its result index goes through `GRun.op` -/
  | distinctTable (fuel : Nat) (cs : List GL.Cmp) (ix : List Nat) (ixId colsId : Id)
  /-- `Grouper.Aggregate`: the glue, the first-row index, the loop of `Column.Aggregate` of a column package -/
  | aggregate (ty : CType) (hty : ty ∈ QF.Props.C02Kernels.tys) (E : LGEnv) (z : Cell) (groupsId recvId : Id)
  /-- the plumbing of `FilteredApply` (`false`) / `WithRowNums` (`true`) -/
  | fapply (rowNums : Bool) (ixId colsId : Id)

def GRun.prog (C : Enc) : GRun → Prog Unit
  | .op g h D => g.prog C D h
  | .ixfn name E _ h D => ixProg name C D E h
  | .supper up B ix _ _ a b c => supperProg C up B ix a b c
  | .eupper up E _ a b => eupperProg C up E a b
  | .subset c index a b => subsetProg c index a b
  | .applyLoop _ f E a b c => applyProg C f E a b c
  | .filter O c f a b => filterProg O c f a b
  | .groupBy fuel cs ix a b => groupByProg fuel cs ix a b
  | .distinctTable fuel cs ix a b => distinctTableProg fuel cs ix a b
  | .aggregate ty _ E z a b => aggregateProg C ty E z a b
  | .fapply r a b => fapplyProg r a b

/-- **Every regenerated run writes only arrays it allocates.** -/
theorem gen_run_own_writes (C : Enc) (r : GRun) : ∀ base, (r.prog C).OwnWrites base := by
  cases r with
  | op g h D => exact gen_project_own_writes g C D h
  | ixfn name E lib h D => exact gen_index_own_writes name C D E lib h
  | supper up B ix hv hix a b c => exact gen_supper_own_writes C up B ix hv hix a b c
  | eupper up E hc a b => exact gen_eupper_own_writes C up E hc a b
  | subset c index a b => exact gen_subset_own_writes c index a b
  | applyLoop σ f E a b c => exact gen_apply_loops_own_writes C f E a b c
  | filter O c f a b => exact gen_filter_own_writes O c f a b
  | groupBy fuel cs ix a b => exact gen_groupBy_own_writes fuel cs ix a b
  | distinctTable fuel cs ix a b => exact gen_distinct_table_own_writes fuel cs ix a b
  | aggregate ty hty E z a b => exact gen_aggregate_own_writes C ty hty E z a b
  | fapply r a b => exact gen_fapply_own_writes r a b

/-- **C01 for histories of regenerated runs** (`H.history_persistent` instantiated): whatever regenerated operations are
run one after the other — each started from any heap, directory and arguments —, every array of the initial store keeps
its contents. FULL: `GRun` has a constructor for every public frame-deriving operation — `Slice`, `Select`, `Drop`, `Copy`,
`setColumn` (the tail of every `Apply` / `Eval` / `WithRowNums`), `Sort`, `Distinct` (result index `.op`, table
`.distinctTable`), `Filter`, `GroupBy`, `Aggregate`, `Apply1` / `Apply2` / `apply0`, the built-in `ToUpper`s, `Subset`,
`FilteredApply` — each entering as a RUN OF ITS REGENERATED CODE; no hand model (`AnyOp.hand`) is needed any more. -/
theorem gen_any_history_persistent (C : Enc) (runs : List GRun) (s : Store) :
    ∀ id, id < s.length → (runAll (runs.map (GRun.prog C)) s).getD id [] = s.getD id [] := by
  refine history_persistent _ s fun p hp base => ?_
  obtain ⟨r, _, rfl⟩ := List.mem_map.1 hp
  exact gen_run_own_writes C r base

/-- … and at every later point: an array that exists after the first part of the history is never changed by the rest -/
theorem gen_any_history_persistent_from (C : Enc) (before after : List GRun) (s : Store) :
    ∀ id, id < (runAll (before.map (GRun.prog C)) s).length →
      (runAll ((before ++ after).map (GRun.prog C)) s).getD id [] = (runAll (before.map (GRun.prog C)) s).getD id [] := by
  intro id hid
  rw [List.map_append, runAll_append]
  exact gen_any_history_persistent C after _ id hid

/-- a regenerated run, or one of the hand models of C01Ops -/
inductive AnyOp where
  | gen (r : GRun)
  | hand (op : Op)

def AnyOp.prog (C : Enc) : AnyOp → Prog Unit
  | .gen r => r.prog C
  | .hand op => op.prog

theorem any_op_own_writes (C : Enc) (o : AnyOp) : ∀ base, (o.prog C).OwnWrites base := by
  cases o with
  | gen r => exact gen_run_own_writes C r
  | hand op => exact fun base => op_own_writes op base

/- (kept from the time when Filter, GroupBy, the table of Distinct and Aggregate had no regenerated run; the FULL statement
   — every public operation of qframe enters the history as a RUN OF ITS REGENERATED CODE — is now
   `gen_any_history_persistent` above.) Formerly: FULL STATEMENT (not proved). Proved: the statement for histories in which `Slice`, `Select`, `Drop`, `Copy`, `setColumn`, `Sort` (copy of the index,
   in-place sort of the copy; the sorter's permutation a parameter), `Distinct` (its result index; the table a parameter),
   the functions of internal/index, the built-in `ToUpper` of string and enum columns, `ecolumn.Subset` and the loops of
   `Apply1` / `Apply2` / `apply0` (whose result goes through the regenerated `setColumn`) are regenerated runs (`AnyOp.gen`),
   and `Filter` (clause evaluation: mask and result index), `GroupBy` (table and group slices), the table of `Distinct`,
   `Aggregate` still enter through their hand models (`AnyOp.hand`: `Op.filter`, `Op.groupBy`, `Op.distinct`,
   `Op.aggregate`; `Op.apply1` too is still admitted): their regenerated interpreters (`QF.CLExpr`, `QF.GLExpr`, the
   grouper) compute on values and carry neither array identities nor a write log. -/
theorem any_history_persistent_partial (C : Enc) (ops : List AnyOp) (s : Store) :
    ∀ id, id < s.length → (runAll (ops.map (AnyOp.prog C)) s).getD id [] = s.getD id [] := by
  refine history_persistent _ s fun p hp base => ?_
  obtain ⟨o, _, rfl⟩ := List.mem_map.1 hp
  exact any_op_own_writes C o base

/-! ## The same on the typed heap: every earlier frame observes what it observed -/

/-- the heap after a whole operation (a run without value — a Go panic — leaves it as it is) -/
def GOp.next (g : GOp) (h : Heap) : Heap :=
  match g.run h with
  | some out => out.2.1
  | none => h

def runHist : List GOp → Heap → Heap
  | [], h => h
  | g :: gs, h => runHist gs (g.next h)

theorem GOp.next_unchanged (g : GOp) (h : Heap) : Unchanged h (g.next h) := by
  unfold GOp.next
  cases e : g.run h with
  | none => exact Unchanged.refl h
  | some out => exact (g.run_persistent h out e).keep

theorem runHist_unchanged (gs : List GOp) (h : Heap) : Unchanged h (runHist gs h) := by
  induction gs generalizing h with
  | nil => exact Unchanged.refl h
  | cons g gs ih => exact (g.next_unchanged h).trans (ih _)

theorem runHist_append (as bs : List GOp) (h : Heap) : runHist (as ++ bs) h = runHist bs (runHist as h) := by
  induction as generalizing h with
  | nil => rfl
  | cons a as ih => exact ih _

/-- **Persistence (C01) over histories, from the regenerated code.** After ANY history of whole operations of today's
source (any requests, any receivers — earlier frames, results of earlier steps, anything), every array that existed has
the contents it had, and every well-formed frame of the initial heap observes exactly what it observed: its logical frame,
its column list, its index, its look-ups. -/
theorem gen_history_observation_kept (gs : List GOp) (h : Heap) :
    Unchanged h (runHist gs h) ∧
    ∀ (f : PFrame) (L : Nat), PWF h f L →
      f.abs (runHist gs h) = f.abs h ∧ f.colList (runHist gs h) = f.colList h ∧ f.ixList (runHist gs h) = f.ixList h ∧
        ∀ k, f.lookup (runHist gs h) k = f.lookup h k :=
  ⟨runHist_unchanged gs h, fun f L wf => observation_kept (runHist_unchanged gs h) wf⟩

/-- … and for a frame made in the middle of the history: the rest of the history does not change what it observes -/
theorem gen_history_observation_kept_from (before after : List GOp) (h : Heap) (f : PFrame) (L : Nat)
    (wf : PWF (runHist before h) f L) :
    f.abs (runHist (before ++ after) h) = f.abs (runHist before h) := by
  rw [runHist_append]
  exact ((gen_history_observation_kept after _).2 f L wf).1

/-! ## Witnesses: the mutations the property is about are NOT `OwnWrites` -/

theorem not_wrOwn_old {h : Heap} {w : Wr} (hn : ¬ wrOwn h w) : w.id < oldLen h w.kind := by
  unfold wrOwn at hn; unfold oldLen
  cases hk : w.kind <;> rw [hk] at hn <;> simp only at hn ⊢ <;> omega

/-- a run whose log has a write into an array that existed gives a program outside the discipline, wherever the existing
arrays live below `base` -/
theorem pfEff_not_own_of_log (C : Enc) (D : Dir) (E : PIn) (h : Heap) (out : POut) (hn : ¬ OwnWrites h out.2.2)
    (base : Nat) (hb : ∀ k id, id < oldLen h k → D k id < base) :
    ¬ (pfEff C D E h (some out)).prog.OwnWrites base := by
  obtain ⟨w, hw⟩ := Classical.not_forall.mp hn
  obtain ⟨hmem, hno⟩ := Classical.not_imp.mp hw
  have hold := not_wrOwn_old hno
  exact pfEff_not_own C D E h out w hmem hold base (hb _ _ hold)

theorem ownB_false {h : Heap} {o : Option POut} (e : ownB h o = some false) : ∃ out, o = some out ∧ ¬ OwnWrites h out.2.2 := by
  cases o with
  | none => cases e
  | some out =>
    refine ⟨out, rfl, ?_⟩
    simp only [ownB, Option.map_some, Option.some.injEq, decide_eq_false_iff_not] at e
    exact e

/-- the environment of the `setColumn` witness: a new column "c" onto a column list with spare capacity -/
def capEnv : PIn := { genEnv exX exFcap with dst := [99], colParam := exA.col }

/-- **Witness (seeded C01-1): `newF.columns = append(qf.columns, newS)` in `setColumn`.** The static check rejects the term,
and the program of its run on a column list with spare capacity is not `OwnWrites`: it writes the receiver's array. -/
theorem witness_setColumn_append (C : Enc) (D : Dir) (base : Nat) (hb : ∀ k id, id < oldLen exHcap k → D k id < base) :
    setColumnAppendShared.ownOnly = false ∧
    ¬ (pfEff C D capEnv exHcap (setColumnAppendShared.run capEnv exHcap)).prog.OwnWrites base := by
  refine ⟨by decide, ?_⟩
  have e : ownB exHcap (setColumnAppendShared.run capEnv exHcap) = some false := by decide +kernel
  obtain ⟨out, ho, hn⟩ := ownB_false e
  rw [ho]
  exact pfEff_not_own_of_log C D capEnv exHcap out hn base hb

/-- **Witness: sorting the receiver's index in place** (`qfsort.New(qf.index, …).Sort()` without the copy). -/
theorem witness_sort_in_place (C : Enc) (D : Dir) (base : Nat) (hb : ∀ k id, id < oldLen exH k → D k id < base) :
    sortInPlace.ownOnly = false ∧
    ¬ (pfEff C D (genEnv exX exF) exH (sortInPlace.run (genEnv exX exF) exH)).prog.OwnWrites base := by
  refine ⟨by decide, ?_⟩
  have e : ownB exH (sortInPlace.run (genEnv exX exF) exH) = some false := by decide +kernel
  obtain ⟨out, ho, hn⟩ := ownB_false e
  rw [ho]
  exact pfEff_not_own_of_log C D _ exH out hn base hb

/-- a run of the enum `toUpper` that stored into the source's `data` gives a program outside the discipline -/
theorem eupperEff_not_own (C : Enc) (dataId valsId : Id) (R : EUOut) (hw : R.writes ≠ 0) (base : Nat) (hb : dataId < base) :
    ¬ (eupperEff C dataId valsId (.ok R)).prog.OwnWrites base := by
  refine Eff.not_own _ base fun ds => ?_
  refine ⟨[Act.alloc (C.strs R.values), .writeNew 0 (C.strs R.values)] ++
      (if R.dataShared then [] else [Act.alloc R.data, .writeNew 1 R.data]), [], dataId, R.src.data, ?_, hb⟩
  simp [eupperEff, hw]

/-- a run of the string `toUpper` that stored into the source's arrays gives a program outside the discipline -/
theorem supperEff_not_own (C : Enc) (ixId ptrsId dataId : Id) (R : SUOut) (hw : R.writes ≠ 0) (base : Nat)
    (hb : ptrsId < base) : ¬ (supperEff C ixId ptrsId dataId (.ok R)).prog.OwnWrites base := by
  refine Eff.not_own _ base fun ds => ?_
  refine ⟨(if R.ptrsFresh then [Act.alloc (C.ptrs R.res.ptrs), .writeNew 0 (C.ptrs R.res.ptrs)] else []) ++
      (if R.dataFresh then [Act.alloc (C.bytes R.res.data), .writeNew (if R.ptrsFresh then 1 else 0) (C.bytes R.res.data)]
        else []), [.writeOld dataId (C.bytes R.src.data)], ptrsId, C.ptrs R.src.ptrs, ?_, hb⟩
  simp [supperEff, hw]

def upW : Bytes → Bytes := fun b => b.map (fun c => if c = 97 then 65 else if c = 98 then 66 else if c = 99 then 67 else c)
/-- codes a, A, null, b over the table ["a", "A", "b"] -/
def enumW : ECol := { data := [0, 1, 255, 2], values := [[97], [65], [98]], strict := true }
/-- "a", null, "bc" in the blob "abc" -/
def blobW : BCol := { ptrs := [⟨0, 1, false⟩, ⟨1, 0, true⟩, ⟨1, 2, false⟩], data := [97, 98, 99] }

def wroteE : LR EUOut → Bool
  | .ok R => R.writes != 0
  | _ => false
def wroteS : LR SUOut → Bool
  | .ok R => R.writes != 0
  | _ => false

/-- **Witness (seeded C06-8): `newData := s.data[:0]` in the enum `toUpper`.** The run stores four codes into the source's
`data`; its program is not `OwnWrites` for any `base` above that array. Today's term on the same column: no store. -/
theorem witness_eupper_reuse_data (C : Enc) (dataId valsId base : Nat) (hb : dataId < base) :
    ¬ (eupperEff C dataId valsId (eupperReuseData.run upW enumW)).prog.OwnWrites base := by
  have e : wroteE (eupperReuseData.run upW enumW) = true := by decide
  cases hr : eupperReuseData.run upW enumW with
  | ok R =>
    rw [hr] at e
    exact eupperEff_not_own C dataId valsId R (by simpa [wroteE] using e) base hb
  | panic => rw [hr] at e; cases e
  | stuck => rw [hr] at e; cases e

/-- **Witness: `pointers := source.pointers` / `data := source.data[:0]` in the string `toUpper`.** -/
theorem witness_supper_reuse (C : Enc) (ixId ptrsId dataId base : Nat) (hb : ptrsId < base) :
    ¬ (supperEff C ixId ptrsId dataId (supperReusePtrs.run upW blobW [2, 0])).prog.OwnWrites base ∧
    ¬ (supperEff C ixId ptrsId dataId (supperReuseData.run upW blobW [2, 0])).prog.OwnWrites base := by
  have e1 : wroteS (supperReusePtrs.run upW blobW [2, 0]) = true := by decide
  have e2 : wroteS (supperReuseData.run upW blobW [2, 0]) = true := by decide
  constructor
  · cases hr : supperReusePtrs.run upW blobW [2, 0] with
    | ok R => rw [hr] at e1; exact supperEff_not_own C _ _ _ R (by simpa [wroteS] using e1) base hb
    | panic => rw [hr] at e1; cases e1
    | stuck => rw [hr] at e1; cases e1
  · cases hr : supperReuseData.run upW blobW [2, 0] with
    | ok R => rw [hr] at e2; exact supperEff_not_own C _ _ _ R (by simpa [wroteS] using e2) base hb
    | panic => rw [hr] at e2; cases e2
    | stuck => rw [hr] at e2; cases e2

/-! ## Concrete instances: the hypotheses are satisfiable, the programs allocate and write -/

/-- today's `Sort`, `Copy("c", "a")`, `Select("b", "a")`, `Slice(1, 3)` and `Drop("a")` on the example frame -/
def exSort : GOp := ⟨"Sort", false, exX, physReq exH exF, genEnv exX exF, rfl, rfl⟩
def exCopy : GOp :=
  ⟨"Copy", true, exX, { physReq exH exF with dst := [99], src := [97] }, { genEnv exX exF with dst := [99], src := [97] }, rfl, rfl⟩
def exSelect : GOp :=
  ⟨"Select", true, exX, { physReq exH exF with columns := [[98], [97]] }, { genEnv exX exF with names := [[98], [97]] }, rfl, rfl⟩
def exSlice : GOp :=
  ⟨"Slice", true, exX, { physReq exH exF with start := 1, stop := 3 }, { genEnv exX exF with start := 1, stop := 3 }, rfl, rfl⟩

/-- a simple encoding and directory: a column list as its `pos` fields, a map as its size; index arrays first, then the
column lists, then the maps -/
def exEnc : Enc :=
  { cols := fun l => l.map (·.pos), map := fun l => [l.length], ptrs := fun l => l.map (·.off),
    bytes := fun b => b.map (·.toNat), strs := fun l => l.map (·.length), cells := fun l => [l.length] }
def exDir : Dir := fun k id => match k with | .ix => id | .cols => 1 + id | .map => 2 + id
/-- the store of `exH` under them: the index, the column list, the name map -/
def exStore : Store := [[2, 0, 1], [0, 1], [2]]

/-- today's `Sort` on the example: reads the receiver's three arrays (and the index argument), allocates ONE array — the
copy of the index — and writes it twice (the copy, the in-place sort of the copy); the three arrays that existed are as
they were -/
example : ((exSort.prog exEnc exDir exH).run exStore).2 =
    ([[2, 0, 1], [0, 1], [2], [1, 0, 2]],
     [.read 0, .read 1, .read 2, .read 0, .alloc 3, .write 3, .write 3]) := by decide +kernel

/-- today's `Copy("c", "a")`: a new column list and a new name map -/
example : (((exCopy.prog exEnc exDir exH).run exStore).2.1.length, (((exCopy.prog exEnc exDir exH).run exStore).2.1.take 3)) =
    (5, exStore) := by decide +kernel

/-- instances of the theorems -/
example : ∀ base, (exSort.prog exEnc exDir exH).OwnWrites base := gen_project_own_writes exSort exEnc exDir exH
example : ∀ id, id < 3 →
    (runAll ([GRun.op exSort exH exDir, .op exCopy exH exDir, .op exSelect exH exDir, .op exSlice exH exDir,
        .eupper upW enumW (by decide) 1 2, .subset ⟨[0, 1, 255, 2], [[97]], false⟩ [3, 0] 0 1].map (GRun.prog exEnc))
      exStore).getD id [] = exStore.getD id [] :=
  gen_any_history_persistent exEnc _ exStore
example : exF.abs (runHist [exSort, exCopy, exSelect, exSlice] exH) = exF.abs exH :=
  ((gen_history_observation_kept [exSort, exCopy, exSelect, exSlice] exH).2 exF 3 exF_wf).1
/-- the history really allocates: two new index arrays (`Sort`: the copy), two column lists and two maps (`Copy`, `Select`) -/
example : ((runHist [exSort, exCopy, exSelect, exSlice] exH).ixs.length, (runHist [exSort, exCopy, exSelect, exSlice] exH).colss.length,
    (runHist [exSort, exCopy, exSelect, exSlice] exH).maps.length) = (2, 3, 3) := by decide +kernel

/-- `Apply1(func(int) int)` of the int column package on rows 1, 0 of the cells 5, 6, 7: one array allocated and written -/
def exApplyEnv : LEnv Unit :=
  { recv := { ty := .int, cells := [.int 5, .int 6, .int 7] }, other := { ty := .int, cells := [] }, ix := [1, 0],
    fn := .fn1 .int .int (fun c => match c with | .int v => .int (v + 1) | c => c), s0 := () }
example : ∀ base, (applyProg exEnc (.apply1 .int (by decide)) exApplyEnv 0 1 1).OwnWrites base :=
  gen_apply_loops_own_writes exEnc _ exApplyEnv 0 1 1
example : ((applyProg exEnc (.apply1 .int (by decide)) exApplyEnv 0 1 1).run [[1, 0], [5, 6, 7]]).2 =
    ([[1, 0], [5, 6, 7], [3]], [.read 0, .read 1, .read 1, .alloc 2, .write 2]) := by decide +kernel

/-- `Filter(a-leaf)` of today's source on the frame with index [2, 0, 1] (the leaf holds at position 1): the mask and the
result index are allocated and written, the receiver's arrays only read -/
def exLeafClause : F.Clause := .leaf C01FreshCL.exLeaf
example : ∀ base, (filterProg CL.LeafCalls.ofLeaf exLeafClause { index := [2, 0, 1] } 0 1).OwnWrites base :=
  gen_filter_own_writes _ _ _ 0 1
example : ((filterProg CL.LeafCalls.ofLeaf exLeafClause { index := [2, 0, 1] } 0 1).run [[2, 0, 1], [0, 1]]).2 =
    ([[2, 0, 1], [0, 1], [0, 0, 1], [1]], [.read 0, .read 1, .alloc 2, .write 2, .alloc 3, .write 3]) := by decide +kernel
/-- `NullClause`: the receiver is returned, nothing is allocated -/
example : ((filterProg CL.LeafCalls.ofLeaf .null { index := [2, 0, 1] } 0 1).run [[2, 0, 1], [0, 1]]).2 =
    ([[2, 0, 1], [0, 1]], [.read 0, .read 1]) := by decide +kernel
/-- `GroupBy` on the parity of the row number, rows 2, 0, 1: the groups [2, 0] and [1], and the group list -/
example : ((groupByProg 64 [C01FreshGL.exCmp] [2, 0, 1] 0 1).run [[2, 0, 1], [0, 1]]).2.1 =
    [[2, 0, 1], [0, 1], [2, 0], [1], [2, 1]] := by decide +kernel
/-- `Aggregate` with a user function `func([]int) int` (the number of cells) on the int cells 5, 6, 7 and the groups
[2, 0], [1]: the first-row index [2, 1] and the cells of the aggregated column are allocated and written -/
def exAggEnv : LGEnv :=
  { recv := { ty := .int, cells := [.int 5, .int 6, .int 7] }, groups := [[2, 0], [1]],
    fn := .aggFn .int .int (fun l => .int l.length), builtin := fun _ => none }
example : ∀ base, (aggregateProg exEnc .int exAggEnv (.int 0) 0 1).OwnWrites base :=
  gen_aggregate_own_writes exEnc .int (by decide) exAggEnv (.int 0) 0 1
example : ((aggregateProg exEnc .int exAggEnv (.int 0) 0 1).run [[2, 0, 1], [5, 6, 7]]).2 =
    ([[2, 0, 1], [5, 6, 7], [2, 1], [2]], [.read 0, .read 1, .alloc 2, .write 2, .alloc 3, .write 3]) := by decide +kernel
/-- a history with every family, the new ones included -/
example : ∀ id, id < 3 →
    (runAll ([GRun.op exSort exH exDir, .filter CL.LeafCalls.ofLeaf exLeafClause { index := [2, 0, 1] } 0 1,
        .groupBy 64 [C01FreshGL.exCmp] [2, 0, 1] 0 1, .distinctTable 64 [C01FreshGL.exCmp] [2, 0, 1] 0 1,
        .aggregate .int (by decide) exAggEnv (.int 0) 0 1, .fapply false 0 1, .fapply true 0 1].map (GRun.prog exEnc))
      exStore).getD id [] = exStore.getD id [] :=
  gen_any_history_persistent exEnc _ exStore

#print axioms gen_filter_own_writes
#print axioms gen_groupBy_own_writes
#print axioms gen_distinct_table_own_writes
#print axioms gen_aggregate_own_writes
#print axioms gen_fapply_own_writes
#print axioms witness_filter_in_place
#print axioms witness_grouper_in_place
#print axioms witness_aggregate_sorts_groups
#print axioms Eff.own
#print axioms Eff.not_own
#print axioms gen_project_own_writes
#print axioms gen_index_own_writes
#print axioms pf_own_writes
#print axioms gen_supper_own_writes
#print axioms gen_eupper_own_writes
#print axioms gen_subset_own_writes
#print axioms gen_apply_loops_own_writes
#print axioms witness_apply_in_place
#print axioms gen_run_own_writes
#print axioms gen_any_history_persistent
#print axioms gen_any_history_persistent_from
#print axioms any_history_persistent_partial
#print axioms gen_history_observation_kept
#print axioms gen_history_observation_kept_from
#print axioms witness_setColumn_append
#print axioms witness_sort_in_place
#print axioms witness_eupper_reuse_data
#print axioms witness_supper_reuse

end QF.Props.C01GenOps
