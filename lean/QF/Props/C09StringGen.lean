import QF.Props.C09Observe
import QF.Spec.Render
import QF.Gen.Writers
/-!
# C09 — the layout decisions of today's `QFrame.String()` are those of the spec's `stringPieces` (tie T1, by semantics)

`QF.Gen.stringAst` (regenerated on every run by go/cmd/extract/wast.go) is the body of `QFrame.String` after its guard as a
layout program `QF.PS` (QF/Core/WExpr.lean); `QF.Gen.fixLengthAst` is `fixLengthString`, `QF.Gen.intMaxAst` / `intMinAst`
are `integer.Max` / `Min`, `QF.Gen.dataTypeNames` the strings `Column.DataType()` returns. This file proves, for the terms
generated TODAY:

* `gen_string_no_opaque`, `gen_string_canon` — all of them were translated completely and are the canonical terms
* `gen_minmax_semantics`  — `Max` / `Min` are `max` / `min` on all ints
* `gen_fix_semantics`     — `fixLengthString(s, pad, w)` is the spec's `fixLen s pad w` for every `w ≥ 3` (the text cut to
                            `w - 3` bytes and `...` when it is longer than `w`, else left-padded to `w`);
                            `gen_fix_panics`: for `w < 3` and a longer text Go panics (the comment in the source says so)
* `gen_type_letters`      — the first byte of `DataType()` is the spec's `typeLetter` for the five column types
* `gen_string_semantics`  — on EVERY frame whose cells are of their column's type the string `String()` returns is the
                            rendering of the spec's `stringPieces f`: header `name(letter)` per column in a field of width
                            `max(len(header), 5)`, the rule of `-`, at most 50 rows of cells (`StringAt(·, "null")` of
                            today's column code) right-aligned or cut to the column width, the truncation notice iff there
                            are more than 50 rows, the `Dims` line. Float cells are rendered with the parameter `fmt`
                            (`Piece.flt w b` ↦ `fixLen (fmt b) ' ' w`): what the spec's `stringDenotes` then checks of the
                            digits is C16's business.
-/
namespace QF.Props.C09StringGen
open QF
open QF.Props.C03Compare (pkgOf tys)

/-! ## The canonical terms -/

def canonFix : FX :=
  .ite .gt .lenS .w (.ret (.cat (.sliceTo .s (.sub .w (.lit 3))) (.lit [46, 46, 46])))
    (.ite .gt (.sub .w .lenS) (.lit 0) (.ret (.cat (.rep .pad (.sub .w .lenS)) .s)) (.ret .s))

def canonMax : IE := .ite .gt .x .y .x .y
def canonMin : IE := .ite .lt .x .y .x .y

def canonTypeNames : List (String × Bytes) :=
  [("icolumn", [105, 110, 116]), ("fcolumn", [102, 108, 111, 97, 116]), ("bcolumn", [98, 111, 111, 108]),
   ("scolumn", [115, 116, 114, 105, 110, 103]), ("ecolumn", [101, 110, 117, 109])]

/-- `s.name + "(" + string(s.DataType())[:1] + ")"` -/
def hdrE : PE := .cat (.cat (.cat .colName (.str [40])) (.sliceTo 1 .typeName)) (.str [41])

def hdrBody : PS := .setWidth (.max (.len hdrE) (.num 5)) (.setRow (.fix hdrE (.str [32]) .width) .done)

def ruleE : PE := .fix (.str []) (.str [45]) .width

def ruleBody : PS := .setRow ruleE .done

def nullLit : Bytes := [110, 117, 108, 108]

def cellE : PE := .fix (.cellStr nullLit) (.str [32]) .width

def cellBody : PS := .setRow cellE .done

def rowBody : PS := .forCols cellBody (.pushJoin [32] .done)

def truncLit : Bytes :=
  [46, 46, 46, 32, 112, 114, 105, 110, 116, 111, 117, 116, 32, 116, 114, 117, 110, 99, 97, 116, 101, 100, 32, 46, 46, 46]

/-- `fmt.Sprintf("\nDims = %d x %d", len(qf.columns), qf.Len())` -/
def dimsE : PE :=
  .cat (.cat (.cat (.str [10, 68, 105, 109, 115, 32, 61, 32]) (.itoa .ncols)) (.str [32, 120, 32])) (.itoa .nrows)

def canonTail : PS :=
  .forRowsTo (.min .nrows (.num 50)) rowBody
    (.ifGt .nrows (.num 50) (.push (.str truncLit) .done) (.push dimsE (.retJoin [10])))

def canonString : PS :=
  .allocResult (.allocRow (.allocWidths (.forCols hdrBody (.pushJoin [32]
    (.forCols ruleBody (.pushJoin [32] canonTail))))))

theorem gen_string_no_opaque :
    Gen.stringAst.hasOpaque = false ∧ Gen.fixLengthAst.hasOpaque = false ∧ Gen.intMaxAst.hasOpaque = false ∧
    Gen.intMinAst.hasOpaque = false ∧ Gen.dataTypeNames.map (·.1) = tys.map pkgOf := by decide

theorem gen_string_canon :
    Gen.stringAst = canonString ∧ Gen.fixLengthAst = canonFix ∧ Gen.intMaxAst = canonMax ∧ Gen.intMinAst = canonMin ∧
    Gen.dataTypeNames = canonTypeNames := by decide

/-! ## `Max`, `Min`, `fixLengthString`, the type letters -/

theorem canonMax_sem (x y : Int) : canonMax.eval x y = some (max x y) := by
  simp only [canonMax, IE.eval, ICmp.eval]
  by_cases h : x > y
  · simp [h]; omega
  · simp [h]; omega

theorem canonMin_sem (x y : Int) : canonMin.eval x y = some (min x y) := by
  simp only [canonMin, IE.eval, ICmp.eval]
  by_cases h : x < y
  · simp [h]; omega
  · simp [h]; omega

/-- **`integer.Max` / `integer.Min` of today's source** are `max` / `min` on all pairs of ints. -/
theorem gen_minmax_semantics (x y : Int) :
    Gen.intMaxAst.eval x y = some (max x y) ∧ Gen.intMinAst.eval x y = some (min x y) := by
  have canon : Gen.intMaxAst = canonMax ∧ Gen.intMinAst = canonMin := by decide
  rw [canon.1, canon.2]
  exact ⟨canonMax_sem x y, canonMin_sem x y⟩

theorem canonFix_sem (s : Bytes) (p : UInt8) (w : Nat) (hw : 3 ≤ w) :
    canonFix.eval s [p] w = some (fixLen s p w) := by
  unfold fixLen
  by_cases h : s.length > w
  · have h' : (s.length : Int) > (w : Int) := by omega
    have h1 : (0 : Int) ≤ (w : Int) - 3 ∧ (w : Int) - 3 ≤ (s.length : Int) := by omega
    have h2 : ((w : Int) - 3).toNat = w - 3 := by omega
    have h3 : (3 : Int) ≤ (w : Int) := by omega
    simp [canonFix, FX.eval, FXS.eval, FXI.eval, ICmp.eval, h, h', h1, h2, h3]
  · have h' : ¬ (s.length : Int) > (w : Int) := by omega
    by_cases hp : (w : Int) - (s.length : Int) > 0
    · have h2 : ((w : Int) - (s.length : Int)).toNat = w - s.length := by omega
      have hlt : s.length < w := by omega
      have hle : s.length ≤ w := by omega
      simp [canonFix, FX.eval, FXS.eval, FXI.eval, ICmp.eval, h, h', h2, hlt, hle]
    · have h0 : w - s.length = 0 := by omega
      have hnlt : ¬ s.length < w := by omega
      simp [canonFix, FX.eval, FXS.eval, FXI.eval, ICmp.eval, h, h', h0, hnlt]

/-- **`fixLengthString` of today's source is the spec's `fixLen`** for every text, every pad byte and every width `w ≥ 3`:
a text longer than `w` is cut to its first `w - 3` bytes followed by `...`; otherwise it is padded on the left to `w`. -/
theorem gen_fix_semantics (s : Bytes) (p : UInt8) (w : Nat) (hw : 3 ≤ w) :
    Gen.fixLengthAst.eval s [p] w = some (fixLen s p w) := by
  have canon : Gen.fixLengthAst = canonFix := by decide
  rw [canon]
  exact canonFix_sem s p w hw

/-- "NB: Assumes desiredLen to be >= 3": with a smaller width and a longer text the slice bound is negative — Go panics. -/
theorem gen_fix_panics (s pad : Bytes) (w : Int) (hw : w < 3) (hs : (s.length : Int) > w) :
    Gen.fixLengthAst.eval s pad w = none := by
  have canon : Gen.fixLengthAst = canonFix := by decide
  rw [canon]
  have h1 : ¬ ((3 : Int) ≤ w ∧ w - 3 ≤ (s.length : Int)) := by omega
  simp [canonFix, FX.eval, FXS.eval, FXI.eval, ICmp.eval, hs, h1]

/-- **The type letters**: the first byte of the string `DataType()` of each of the five column packages returns is the
spec's `typeLetter` (`i`, `f`, `b`, `s`, `e`). -/
theorem gen_type_letters : ∀ ty ∈ tys, ∃ tn, Gen.dataTypeNames.lookup (pkgOf ty) = some tn ∧ 1 ≤ tn.length ∧
    tn.take 1 = typeLetter ty := by
  decide

/-! ## The spec side: `stringPieces` as lines -/

/-- the bytes of a piece: a float cell of width `w` is the formatter's text, right-aligned or cut -/
def pieceBytes (fmt : UInt64 → Bytes) : Piece → Bytes
  | .lit b => b
  | .flt w bits => fixLen (fmt bits) 32 w

/-- the text a list of pieces stands for, with `fmt` for the float cells -/
def render (fmt : UInt64 → Bytes) (ps : List Piece) : Bytes := ps.flatMap (pieceBytes fmt)

/-- `name(letter)` -/
def hdrOf (c : LCol) : Bytes := c.name ++ [40] ++ typeLetter c.ty ++ [41]

/-- the width of a column: `max(len(header), 5)` -/
def wOf (c : LCol) : Nat := max (hdrOf c).length 5

/-- `StringAt(·, "null")` -/
def cellText (fmt : UInt64 → Bytes) (x : Cell) : Bytes := if x.isNull then nullLit else C13Write.cellString fmt x

def hdrLine (f : LFrame) : Bytes := joinBytes [32] (f.cols.map (fun c => fixLen (hdrOf c) 32 (wOf c)))
def ruleLine (f : LFrame) : Bytes := joinBytes [32] (f.cols.map (fun c => List.replicate (wOf c) 45))
def dataLine (fmt : UInt64 → Bytes) (f : LFrame) (i : Nat) : Bytes :=
  joinBytes [32] (f.cols.map (fun c => fixLen (cellText fmt c.cells[i]!) 32 (wOf c)))
def dimsLine (f : LFrame) : Bytes := strBytes s!"Dims = {f.cols.length} x {f.n}"

/-- the strings `String()` joins with newlines -/
def lines (fmt : UInt64 → Bytes) (f : LFrame) : List Bytes :=
  hdrLine f :: ruleLine f :: ((List.range (min f.n 50)).map (dataLine fmt f) ++
    ((if f.n > 50 then [truncLit] else []) ++ [[10] ++ dimsLine f]))

theorem sb (s : String) (l : List Char) (b : Bytes) (h : s = String.ofList l)
    (h2 : l.flatMap String.utf8EncodeChar = b) : strBytes s = b := by
  rw [h, C13Write.strBytes_ofList, h2]

theorem sb_null : strBytes "null" = nullLit := sb _ "null".toList _ rfl (by decide)
theorem sb_true : strBytes "true" = [116, 114, 117, 101] := sb _ "true".toList _ rfl (by decide)
theorem sb_false : strBytes "false" = [102, 97, 108, 115, 101] := sb _ "false".toList _ rfl (by decide)
theorem sb_trunc : strBytes "... printout truncated ..." = truncLit :=
  sb _ "... printout truncated ...".toList _ rfl (by decide)
theorem sb_dims : strBytes "Dims = " = [68, 105, 109, 115, 32, 61, 32] := sb _ "Dims = ".toList _ rfl (by decide)
theorem sb_x : strBytes " x " = [32, 120, 32] := sb _ " x ".toList _ rfl (by decide)

/-- the piece the spec shows for a cell in a column of width `w` -/
def cellPiece (x : Cell) (w : Nat) : Piece :=
  match x with
  | .int v => .lit (fixLen (intStr v) 32 w)
  | .bool b => .lit (fixLen (strBytes (if b then "true" else "false")) 32 w)
  | .str none => .lit (fixLen (strBytes "null") 32 w)
  | .str (some s) => .lit (fixLen s 32 w)
  | .float b => if F64.isNaN b then .lit (fixLen (strBytes "null") 32 w) else .flt w b

theorem cellPiece_bytes (fmt : UInt64 → Bytes) (x : Cell) (w : Nat) :
    pieceBytes fmt (cellPiece x w) = fixLen (cellText fmt x) 32 w := by
  cases x with
  | int v => simp [cellPiece, pieceBytes, cellText, Cell.isNull, C13Write.cellString]
  | bool b => cases b <;> simp [cellPiece, pieceBytes, cellText, Cell.isNull, C13Write.cellString, sb_true, sb_false]
  | str s => cases s <;> simp [cellPiece, pieceBytes, cellText, Cell.isNull, C13Write.cellString, sb_null]
  | float b =>
    cases h : F64.isNaN b <;> simp [cellPiece, pieceBytes, cellText, Cell.isNull, C13Write.cellString, sb_null, h]

theorem joinBytes_cons (sep a : Bytes) (l : List Bytes) : joinBytes sep (a :: l) = a ++ l.flatMap (sep ++ ·) := by
  induction l generalizing a with
  | nil => simp [joinBytes]
  | cons b l ih =>
    have := ih b
    simp only [joinBytes, List.intersperse_cons_cons, List.flatten_cons] at this ⊢
    rw [this]
    simp

/-- the spec's `sep`: pieces of the fields with a space piece between them -/
theorem render_sep {α : Type} (fmt : UInt64 → Bytes) (F : α → List Piece) (P : α → Piece) (hF : ∀ x, F x = [P x]) :
    ∀ l : List α, render fmt ((l.map F).intersperse [Piece.lit [32]]).flatten
      = joinBytes [32] (l.map (fun x => pieceBytes fmt (P x))) := by
  intro l
  cases l with
  | nil => rfl
  | cons a l =>
    rw [List.map_cons, List.map_cons, joinBytes_cons]
    induction l generalizing a with
    | nil => simp [render, hF, pieceBytes]
    | cons b l ih =>
      have := ih b
      simp only [List.map_cons, List.intersperse_cons_cons, List.flatten_cons, render, List.flatMap_append,
        List.flatMap_cons] at this ⊢
      rw [this]
      simp [hF, pieceBytes]

theorem zip_map_map {α β γ δ : Type} (a : α → β) (g : α → γ) (h : β × γ → δ) :
    ∀ l : List α, (List.zip (l.map a) (l.map g)).map h = l.map (fun c => h (a c, g c)) := by
  intro l
  induction l with
  | nil => rfl
  | cons x l ih => simp [ih]

/-- **The spec's pieces are these lines, joined by newlines.** -/
theorem render_stringPieces (fmt : UInt64 → Bytes) (f : LFrame) :
    render fmt (stringPieces f) = joinBytes [10] (lines fmt f) := by
  have hws : (f.cols.map (fun c => c.name ++ [40] ++ typeLetter c.ty ++ [41])).map (fun h => max h.length 5)
      = f.cols.map wOf := by
    rw [List.map_map]; rfl
  have hH : render fmt (((List.zip (f.cols.map (fun c => c.name ++ [40] ++ typeLetter c.ty ++ [41])) (f.cols.map wOf)).map
        (fun (p : Bytes × Nat) => [Piece.lit (fixLen p.1 32 p.2)])).intersperse [Piece.lit [32]]).flatten = hdrLine f := by
    rw [render_sep fmt _ (fun (p : Bytes × Nat) => Piece.lit (fixLen p.1 32 p.2)) (fun _ => rfl)]
    rw [zip_map_map]
    rfl
  have hR : render fmt (((f.cols.map wOf).map (fun w => [Piece.lit (List.replicate w 45)])).intersperse
        [Piece.lit [32]]).flatten = ruleLine f := by
    rw [render_sep fmt _ (fun w => Piece.lit (List.replicate w 45)) (fun _ => rfl), List.map_map]
    rfl
  have hD : ∀ (G : Nat → LCol × Nat → List Piece), (∀ r p, G r p = [cellPiece p.1.cells[r]! p.2]) →
      ∀ rs : List Nat,
      List.flatMap (fun r => [10] ++ render fmt (((List.zip f.cols (f.cols.map wOf)).map (G r)).intersperse
        [Piece.lit [32]]).flatten) rs = rs.flatMap (fun r => [10] ++ dataLine fmt f r) := by
    intro G hG rs
    have one : ∀ r, render fmt (((List.zip f.cols (f.cols.map wOf)).map (G r)).intersperse
        [Piece.lit [32]]).flatten = dataLine fmt f r := by
      intro r
      rw [render_sep fmt _ (fun (p : LCol × Nat) => cellPiece p.1.cells[r]! p.2) (hG r)]
      have := zip_map_map (fun c : LCol => c) wOf
        (fun (p : LCol × Nat) => pieceBytes fmt (cellPiece p.1.cells[r]! p.2)) f.cols
      rw [List.map_id'] at this
      rw [this]
      simp only [cellPiece_bytes]
      rfl
    induction rs with
    | nil => rfl
    | cons r rs _ => simp only [List.flatMap_cons, one]
  unfold stringPieces
  simp only [hws]
  have rapp : ∀ a b, render fmt (a ++ b) = render fmt a ++ render fmt b := by
    intro a b; simp [render]
  have rrows : ∀ (g : Nat → List Piece) (rs : List Nat),
      render fmt ((rs.map g).map (fun r => [Piece.lit [10]] ++ r)).flatten
        = rs.flatMap (fun r => [10] ++ render fmt (g r)) := by
    intro g rs
    induction rs with
    | nil => rfl
    | cons r rs ih =>
      simp only [List.map_cons, List.flatten_cons, rapp, ih, List.flatMap_cons]
      simp [render, pieceBytes]
  have rlit : ∀ b, render fmt [Piece.lit b] = b := by intro b; simp [render, pieceBytes]
  rw [rapp, rapp, rapp, rapp, rapp, rapp, rapp, hH, hR, rrows, hD]
  · simp only [rlit]
    rw [lines, joinBytes_cons]
    by_cases h : f.n > 50
    · simp [h, sb_trunc, dimsLine, List.flatMap_append, List.flatMap_map, render, pieceBytes]
    · simp [h, render, dimsLine, List.flatMap_append, List.flatMap_map]
  · intro r p
    generalize p.1.cells[r]! = x
    cases x with
    | int v => rfl
    | bool b => rfl
    | str s => cases s <;> rfl
    | float b => simp only [cellPiece]; split <;> rfl

/-! ## The code side: the canonical program, once and for all -/

/-- what the canonical program needs of its environment -/
structure EnvOK (fmt : UInt64 → Bytes) (E : PEnv) : Prop where
  typeName : ∀ c ∈ E.f.cols, ∃ tn, E.typeName c = some tn ∧ 1 ≤ tn.length ∧ tn.take 1 = typeLetter c.ty
  strAt : ∀ c ∈ E.f.cols, ∀ i, i < E.f.n → E.strAt c nullLit c.cells[i]! = some (cellText fmt c.cells[i]!)
  fix : ∀ (s : Bytes) (p : UInt8) (w : Nat), 3 ≤ w → E.fix s [p] w = some (fixLen s p w)
  max : ∀ a b, E.max a b = some (max a b)
  min : ∀ a b, E.min a b = some (min a b)
  itoa : ∀ n : Nat, E.itoa n = strBytes (toString n)

theorem set_at {α : Type} (a b : List α) (x y : α) (n : Nat) (h : a.length = n) : (a ++ x :: b).set n y = a ++ y :: b := by
  subst h; simp

theorem get_at {α : Type} (a b : List α) (x : α) (n : Nat) (h : a.length = n) : (a ++ x :: b)[n]? = some x := by
  subst h; simp

theorem wOf_ge (c : LCol) : 3 ≤ wOf c := by unfold wOf; omega

theorem hdrE_eval (fmt : UInt64 → Bytes) (E : PEnv) (hE : EnvOK fmt E) (c0 : PCtx) (j : Nat) (c : LCol) (hc : c ∈ E.f.cols)
    (σ : PSt) : hdrE.eval E { c0 with col := some (j, c) } σ = some (.s (hdrOf c)) := by
  obtain ⟨tn, h1, h2, h3⟩ := hE.typeName c hc
  simp [hdrE, PE.eval, h1, h2, h3, hdrOf]

/-- the first loop: the widths and the header cells -/
theorem loop_hdr (fmt : UInt64 → Bytes) (E : PEnv) (hE : EnvOK fmt E) (c0 : PCtx) :
    ∀ (cs pre : List LCol) (res rdone rold : List Bytes) (wdone wold : List Int),
    E.f.cols = pre ++ cs → rdone.length = pre.length → wdone.length = pre.length → rold.length = cs.length →
    wold.length = cs.length →
    loopIdx (fun j col σ => hdrBody.run E { c0 with col := some (j, col) } σ) (fun σ => σ.ret.isSome) pre.length cs
        { result := res, row := rdone ++ rold, widths := wdone ++ wold, ret := none }
      = some { result := res, row := rdone ++ cs.map (fun c => fixLen (hdrOf c) 32 (wOf c)),
               widths := wdone ++ cs.map (fun c => ((wOf c : Nat) : Int)), ret := none } := by
  intro cs
  induction cs with
  | nil =>
    intro pre res rdone rold wdone wold _ _ _ h4 h5
    have : rold = [] := List.length_eq_zero_iff.mp h4
    have : wold = [] := List.length_eq_zero_iff.mp h5
    subst_vars
    simp [loopIdx]
  | cons c cs ih =>
    intro pre res rdone rold wdone wold hsplit h2 h3 h4 h5
    obtain ⟨ro, rold', rfl⟩ := List.exists_cons_of_length_eq_add_one h4
    obtain ⟨wo, wold', rfl⟩ := List.exists_cons_of_length_eq_add_one h5
    have hc : c ∈ E.f.cols := by rw [hsplit]; simp
    have hmax : max ((hdrOf c).length : Int) 5 = ((wOf c : Nat) : Int) := by unfold wOf; omega
    have hlw : pre.length < (wdone ++ wo :: wold').length := by simp; omega
    have hlr : pre.length < (rdone ++ ro :: rold').length := by simp; omega
    have hstep : hdrBody.run E { c0 with col := some (pre.length, c) }
          { result := res, row := rdone ++ ro :: rold', widths := wdone ++ wo :: wold', ret := none }
        = some { result := res, row := rdone ++ fixLen (hdrOf c) 32 (wOf c) :: rold',
                 widths := wdone ++ ((wOf c : Nat) : Int) :: wold', ret := none } := by
      simp only [hdrBody, PS.run, PE.eval, hdrE_eval fmt E hE c0 _ c hc, hE.max, hmax, Option.map_some, hlw, if_true,
        set_at _ _ _ _ _ h3, Option.bind_some, get_at _ _ _ _ h3, hE.fix _ _ _ (wOf_ge c), hlr, set_at _ _ _ _ _ h2]
    rw [loopIdx]
    simp only [Option.isSome_none, Bool.false_eq_true, if_false, hstep, Option.bind_some]
    have := ih (pre ++ [c]) res (rdone ++ [fixLen (hdrOf c) 32 (wOf c)]) rold' (wdone ++ [((wOf c : Nat) : Int)]) wold'
      (by simp [hsplit]) (by simp [h2]) (by simp [h3]) (by simpa using h4) (by simpa using h5)
    simp only [List.length_append, List.length_cons, List.length_nil, Nat.zero_add, List.append_assoc,
      List.singleton_append] at this
    rw [this]
    simp

/-- a loop that fills the row with one expression per column, the widths being fixed -/
theorem loop_setRow (E : PEnv) (c0 : PCtx) (body : PS) (e : PE) (hbody : body = .setRow e .done) (g : LCol → Bytes)
    (W : List Int)
    (he : ∀ pre c cs', E.f.cols = pre ++ c :: cs' → ∀ res row,
      e.eval E { c0 with col := some (pre.length, c) } { result := res, row := row, widths := W, ret := none } = some (.s (g c))) :
    ∀ (cs pre : List LCol) (res rdone rold : List Bytes),
    E.f.cols = pre ++ cs → rdone.length = pre.length → rold.length = cs.length →
    loopIdx (fun j col σ => body.run E { c0 with col := some (j, col) } σ) (fun σ => σ.ret.isSome)
        pre.length cs { result := res, row := rdone ++ rold, widths := W, ret := none }
      = some { result := res, row := rdone ++ cs.map g, widths := W, ret := none } := by
  intro cs
  induction cs with
  | nil =>
    intro pre res rdone rold _ _ h4
    have : rold = [] := List.length_eq_zero_iff.mp h4
    subst this
    simp [loopIdx]
  | cons c cs ih =>
    intro pre res rdone rold hsplit h2 h4
    obtain ⟨ro, rold', rfl⟩ := List.exists_cons_of_length_eq_add_one h4
    have hlr : pre.length < (rdone ++ ro :: rold').length := by simp; omega
    have hstep : body.run E { c0 with col := some (pre.length, c) }
          { result := res, row := rdone ++ ro :: rold', widths := W, ret := none }
        = some { result := res, row := rdone ++ g c :: rold', widths := W, ret := none } := by
      rw [hbody]
      simp only [PS.run, he pre c cs hsplit, hlr, if_true, set_at _ _ _ _ _ h2]
    rw [loopIdx]
    simp only [Option.isSome_none, Bool.false_eq_true, if_false, hstep, Option.bind_some]
    have := ih (pre ++ [c]) res (rdone ++ [g c]) rold' (by simp [hsplit]) (by simp [h2]) (by simpa using h4)
    simp only [List.length_append, List.length_cons, List.length_nil, Nat.zero_add, List.append_assoc,
      List.singleton_append] at this
    rw [this]
    simp

def widthsOf (f : LFrame) : List Int := f.cols.map (fun c => ((wOf c : Nat) : Int))

theorem width_at (f : LFrame) (pre : List LCol) (c : LCol) (cs : List LCol) (h : f.cols = pre ++ c :: cs) :
    (widthsOf f)[pre.length]? = some ((wOf c : Nat) : Int) := by
  rw [widthsOf, h]; simp

theorem ruleE_eval (fmt : UInt64 → Bytes) (E : PEnv) (hE : EnvOK fmt E) (c0 : PCtx) (pre : List LCol) (c : LCol)
    (cs : List LCol) (h : E.f.cols = pre ++ c :: cs) (res row : List Bytes) :
    ruleE.eval E { c0 with col := some (pre.length, c) } { result := res, row := row, widths := widthsOf E.f, ret := none }
      = some (.s (List.replicate (wOf c) 45)) := by
  simp [ruleE, PE.eval, width_at E.f pre c cs h, hE.fix _ _ _ (wOf_ge c), fixLen]

theorem cellE_eval (fmt : UInt64 → Bytes) (E : PEnv) (hE : EnvOK fmt E) (i : Nat) (hi : i < E.f.n) (c0 : PCtx)
    (pre : List LCol) (c : LCol) (cs : List LCol) (h : E.f.cols = pre ++ c :: cs) (res row : List Bytes) :
    cellE.eval E { c0 with row := some i, col := some (pre.length, c) }
        { result := res, row := row, widths := widthsOf E.f, ret := none }
      = some (.s (fixLen (cellText fmt c.cells[i]!) 32 (wOf c))) := by
  have hc : c ∈ E.f.cols := by rw [h]; simp
  simp [cellE, PE.eval, width_at E.f pre c cs h, hE.fix _ _ _ (wOf_ge c), hi, hE.strAt c hc i hi]

/-- one data row -/
theorem canon_row (fmt : UInt64 → Bytes) (E : PEnv) (hE : EnvOK fmt E) (c0 : PCtx) (i : Nat) (hi : i < E.f.n)
    (res row : List Bytes) (hrow : row.length = E.f.cols.length) :
    rowBody.run E { c0 with row := some i } { result := res, row := row, widths := widthsOf E.f, ret := none }
      = some { result := res ++ [dataLine fmt E.f i],
               row := E.f.cols.map (fun c => fixLen (cellText fmt c.cells[i]!) 32 (wOf c)), widths := widthsOf E.f,
               ret := none } := by
  have := loop_setRow E { c0 with row := some i } cellBody cellE rfl (fun c => fixLen (cellText fmt c.cells[i]!) 32 (wOf c))
    (widthsOf E.f) (fun pre c cs' h res row => cellE_eval fmt E hE i hi c0 pre c cs' h res row)
    E.f.cols [] res [] row rfl rfl hrow
  simp only [List.length_nil, List.nil_append] at this
  simp only [rowBody, PS.run]
  rw [this]
  simp [dataLine]

theorem canon_rows (fmt : UInt64 → Bytes) (E : PEnv) (hE : EnvOK fmt E) (c0 : PCtx) :
    ∀ (rs : List Nat) (j : Nat) (res row : List Bytes), (∀ i ∈ rs, i < E.f.n) → row.length = E.f.cols.length →
    ∃ row', row'.length = E.f.cols.length ∧
      loopIdx (fun _ i σ => rowBody.run E { c0 with row := some i } σ) (fun σ => σ.ret.isSome) j rs
          { result := res, row := row, widths := widthsOf E.f, ret := none }
        = some { result := res ++ rs.map (dataLine fmt E.f), row := row', widths := widthsOf E.f, ret := none } := by
  intro rs
  induction rs with
  | nil => intro j res row _ h; exact ⟨row, h, by simp [loopIdx]⟩
  | cons i rs ih =>
    intro j res row hlt hrow
    rw [loopIdx]
    simp only [Option.isSome_none, Bool.false_eq_true, if_false]
    rw [canon_row fmt E hE c0 i (hlt i (by simp)) res row hrow]
    obtain ⟨row', h1, h2⟩ := ih (j + 1) (res ++ [dataLine fmt E.f i])
      (E.f.cols.map (fun c => fixLen (cellText fmt c.cells[i]!) 32 (wOf c))) (fun x hx => hlt x (by simp [hx])) (by simp)
    refine ⟨row', h1, ?_⟩
    simp only [Option.bind_some]
    rw [h2]
    simp

theorem dims_eq (f : LFrame) :
    [10, 68, 105, 109, 115, 32, 61, 32] ++ strBytes (toString f.cols.length) ++ [32, 120, 32] ++ strBytes (toString f.n)
      = [10] ++ dimsLine f := by
  have e : dimsLine f = strBytes ("Dims = " ++ toString f.cols.length ++ " x " ++ toString f.n) := rfl
  rw [e, C13Write.strBytes_append, C13Write.strBytes_append, C13Write.strBytes_append, sb_dims, sb_x]
  simp

/-- **The canonical program returns the spec's lines joined by newlines**, on every frame. -/
theorem canon_output (fmt : UInt64 → Bytes) (E : PEnv) (hE : EnvOK fmt E) :
    canonString.output E = some (render fmt (stringPieces E.f)) := by
  rw [render_stringPieces]
  have h1 := loop_hdr fmt E hE {} E.f.cols [] [] [] (List.replicate E.f.cols.length []) []
    (List.replicate E.f.cols.length 0) rfl rfl rfl (by simp) (by simp)
  simp only [List.length_nil, List.nil_append] at h1
  have h2 := loop_setRow E {} ruleBody ruleE rfl (fun c => List.replicate (wOf c) 45) (widthsOf E.f)
    (fun pre c cs' h res row => ruleE_eval fmt E hE {} pre c cs' h res row)
    E.f.cols [] [hdrLine E.f] [] (E.f.cols.map (fun c => fixLen (hdrOf c) 32 (wOf c))) rfl rfl (by simp)
  simp only [List.length_nil, List.nil_append] at h2
  obtain ⟨row', _, h3⟩ := canon_rows fmt E hE {} (List.range (min E.f.n 50)) 0 [hdrLine E.f, ruleLine E.f]
    (E.f.cols.map (fun c => List.replicate (wOf c) 45))
    (fun i hi => by have := List.mem_range.1 hi; omega) (by simp)
  have hmin : (min (E.f.n : Int) 50).toNat = min E.f.n 50 := by omega
  unfold PS.output canonString
  simp only [PS.run]
  rw [h1]
  simp only [Option.isSome_none, Bool.false_eq_true, if_false]
  have e1 : joinBytes [32] (E.f.cols.map (fun c => fixLen (hdrOf c) 32 (wOf c))) = hdrLine E.f := rfl
  have e2 : (E.f.cols.map (fun c => ((wOf c : Nat) : Int))) = widthsOf E.f := rfl
  rw [e1, e2, List.nil_append, h2]
  simp only [Option.isSome_none, Bool.false_eq_true, if_false]
  have e3 : joinBytes [32] (E.f.cols.map (fun c => List.replicate (wOf c) 45)) = ruleLine E.f := rfl
  rw [e3]
  simp only [canonTail, PS.run, PE.eval, hE.min, Option.map_some, hmin, List.cons_append, List.nil_append]
  rw [h3]
  simp only [Option.isSome_none, Bool.false_eq_true, if_false, dimsE, PE.eval, hE.itoa]
  by_cases hn : E.f.n > 50
  · have hn' : (E.f.n : Int) > 50 := by omega
    simp only [hn', if_true, Option.bind_some]
    rw [dims_eq]
    simp [lines, hn]
  · have hn' : ¬ (E.f.n : Int) > 50 := by omega
    simp only [hn', if_false, Option.bind_some]
    rw [dims_eq]
    simp [lines, hn]

/-! ## Today's `String()` -/

/-- the environment of today's source: the type names, `fixLengthString`, `Max`, `Min` are the extracted terms; a cell is
rendered by today's extracted `StringAt` of its column's package (`fmt` = `strconv.FormatFloat(·, 'f', -1, 64)`); `%d` is
the decimal text -/
def genEnv (fmt : UInt64 → Bytes) (f : LFrame) : PEnv where
  f := f
  typeName := fun c => Gen.dataTypeNames.lookup (pkgOf c.ty)
  strAt := fun c naRep x =>
    match C09Observe.genStringAt ⟨fmt, fmt, C14.appendQuoted⟩ c.ty c.vals naRep [] x with
    | some (.str b) => some b
    | _ => none
  fix := fun s p w => Gen.fixLengthAst.eval s p w
  max := fun a b => Gen.intMaxAst.eval a b
  min := fun a b => Gen.intMinAst.eval a b
  itoa := intStr

/-- the string today's `String()` returns on the frame `f` -/
def genString (fmt : UInt64 → Bytes) (f : LFrame) : Option Bytes := Gen.stringAst.output (genEnv fmt f)

theorem genEnv_ok (fmt : UInt64 → Bytes) (f : LFrame) (hf : C09Observe.FrameTyped f) : EnvOK fmt (genEnv fmt f) where
  typeName := fun c hc => gen_type_letters c.ty (hf c hc).1
  strAt := by
    intro c hc i hi
    have ht := hf c hc
    simp only [genEnv]
    rw [C09Observe.gen_stringAt_naRep ht.1 _ c.vals nullLit [] _ (ht.2 i hi)]
    rfl
  fix := fun s p w hw => gen_fix_semantics s p w hw
  max := fun a b => (gen_minmax_semantics a b).1
  min := fun a b => (gen_minmax_semantics a b).2
  itoa := fun _ => rfl

/-- **Today's `String()` prints the spec's `stringPieces`.** On every frame whose cells are of their column's type, the
string the extracted program returns — with today's `fixLengthString`, `integer.Max` / `Min`, `DataType()` strings and
per-cell `StringAt(·, "null")` — is the rendering of `stringPieces f`: for every column the header `name(letter)` in a field
of width `max(len(header), 5)`, the rule, the first `min(n, 50)` rows with every cell right-aligned in its column's width
or cut to `width - 3` bytes and `...`, fields separated by one space, lines by `\n`; `... printout truncated ...` iff
`n > 50`; an empty line and `Dims = <columns> x <rows>`. A non-NaN float cell stands for `fixLen (fmt b) ' ' w`. -/
theorem gen_string_semantics (fmt : UInt64 → Bytes) (f : LFrame) (hf : C09Observe.FrameTyped f) :
    genString fmt f = some (render fmt (stringPieces f)) := by
  have canon : Gen.stringAst = canonString := by decide
  rw [genString, canon]
  exact canon_output fmt _ (genEnv_ok fmt f hf)

/-- the layout in words: the lines that are joined -/
theorem gen_string_lines (fmt : UInt64 → Bytes) (f : LFrame) (hf : C09Observe.FrameTyped f) :
    genString fmt f = some (joinBytes [10] (lines fmt f)) := by
  rw [gen_string_semantics fmt f hf, render_stringPieces]

/-! ## Witnesses: the statements tell wrong layouts apart -/

def wFmt : UInt64 → Bytes := fun _ => [48]

/-- an environment in which everything can be computed: the canonical helper terms, `cellText` for the cells, the decimal
digits for `%d` -/
def wEnv (f : LFrame) : PEnv where
  f := f
  typeName := fun c => canonTypeNames.lookup (pkgOf c.ty)
  strAt := fun _ naRep x => some (if x.isNull then naRep else C13Write.cellString wFmt x)
  fix := fun s p w => canonFix.eval s p w
  max := fun a b => canonMax.eval a b
  min := fun a b => canonMin.eval a b
  itoa := fun n => C14ToJson.natDigits n.toNat

theorem wEnv_ok (f : LFrame) (hf : ∀ c ∈ f.cols, c.ty ∈ tys) : EnvOK wFmt (wEnv f) where
  typeName := by
    intro c hc
    have : ∀ ty ∈ tys, ∃ tn, canonTypeNames.lookup (pkgOf ty) = some tn ∧ 1 ≤ tn.length ∧ tn.take 1 = typeLetter ty := by
      decide
    exact this c.ty (hf c hc)
  strAt := fun _ _ _ _ => rfl
  fix := fun s p w hw => canonFix_sem s p w hw
  max := canonMax_sem
  min := canonMin_sem
  itoa := by
    intro n
    have := C14ToJson.intText_eq (n : Int)
    simp only [Int.natCast_nonneg, if_true, Int.toNat_natCast] at this
    show C14ToJson.natDigits ((n : Int)).toNat = _
    rw [Int.toNat_natCast, ← this]
    rfl

/-- one bool column `a` and one string column `name` with a long and a null cell; two rows -/
def wFrame : LFrame :=
  { cols := [{ name := [97], ty := .bool, cells := #[.bool true, .bool false] },
             { name := [110, 97, 109, 101], ty := .string, cells := #[.str (some [108, 111, 110, 103, 101, 114, 32, 116, 101, 120, 116]), .str none] }],
    n := 2 }

/-- the canonical program on the witness frame:
```
 a(b) name(s)
----- -------
 true long...
false    null

Dims = 2 x 2
``` -/
example : canonString.output (wEnv wFrame) = some
    [32, 97, 40, 98, 41, 32, 110, 97, 109, 101, 40, 115, 41, 10,
     45, 45, 45, 45, 45, 32, 45, 45, 45, 45, 45, 45, 45, 10,
     32, 116, 114, 117, 101, 32, 108, 111, 110, 103, 46, 46, 46, 10,
     102, 97, 108, 115, 101, 32, 32, 32, 32, 110, 117, 108, 108, 10,
     10, 68, 105, 109, 115, 32, 61, 32, 50, 32, 120, 32, 50] := by
  decide

example : canonString.output (wEnv wFrame) = some (render wFmt (stringPieces wFrame)) :=
  canon_output wFmt _ (wEnv_ok wFrame (by decide))

/-- A minimum column width of 3 instead of 5 prints other widths than the spec's `max(len(header), 5)`. -/
def minWidth3 : PS :=
  .allocResult (.allocRow (.allocWidths (.forCols
    (.setWidth (.max (.len hdrE) (.num 3)) (.setRow (.fix hdrE (.str [32]) .width) .done))
    (.pushJoin [32] (.forCols ruleBody (.pushJoin [32] canonTail))))))

example : minWidth3.output (wEnv wFrame) ≠ canonString.output (wEnv wFrame) := by decide

/-- Two letters of the type name instead of one: `a(bo)`. -/
def twoLetters : PS :=
  .allocResult (.allocRow (.allocWidths (.forCols
    (.setWidth (.max (.len (.cat (.cat (.cat .colName (.str [40])) (.sliceTo 2 .typeName)) (.str [41]))) (.num 5))
      (.setRow (.fix (.cat (.cat (.cat .colName (.str [40])) (.sliceTo 2 .typeName)) (.str [41])) (.str [32]) .width) .done))
    (.pushJoin [32] (.forCols ruleBody (.pushJoin [32] canonTail))))))

example : twoLetters.output (wEnv wFrame) ≠ canonString.output (wEnv wFrame) := by decide

/-- `StringAt(·, "")` instead of `StringAt(·, "null")`: the null cell is printed as blanks. -/
def naRepEmpty : PS :=
  .allocResult (.allocRow (.allocWidths (.forCols hdrBody (.pushJoin [32] (.forCols ruleBody (.pushJoin [32]
    (.forRowsTo (.min .nrows (.num 50))
      (.forCols (.setRow (.fix (.cellStr []) (.str [32]) .width) .done) (.pushJoin [32] .done))
      (.ifGt .nrows (.num 50) (.push (.str truncLit) .done) (.push dimsE (.retJoin [10]))))))))))

example : naRepEmpty.output (wEnv wFrame) ≠ canonString.output (wEnv wFrame) := by decide

/-- A row limit of 1 instead of 50 (rows beyond it dropped, notice printed) on a frame with two rows. -/
def limit1 : PS :=
  .allocResult (.allocRow (.allocWidths (.forCols hdrBody (.pushJoin [32] (.forCols ruleBody (.pushJoin [32]
    (.forRowsTo (.min .nrows (.num 1)) rowBody
      (.ifGt .nrows (.num 1) (.push (.str truncLit) .done) (.push dimsE (.retJoin [10]))))))))))

example : limit1.output (wEnv wFrame) ≠ canonString.output (wEnv wFrame) := by decide

/-- `fixLengthString` that pads on the right (left-aligned cells) is not `fixLen`. -/
def padRight : FX :=
  .ite .gt .lenS .w (.ret (.cat (.sliceTo .s (.sub .w (.lit 3))) (.lit [46, 46, 46])))
    (.ite .gt (.sub .w .lenS) (.lit 0) (.ret (.cat .s (.rep .pad (.sub .w .lenS)))) (.ret .s))

example : padRight.eval [97] [32] 3 = some [97, 32, 32] ∧ fixLen [97] 32 3 = [32, 32, 97] := by decide

/-- … one that cuts to `w - 2` bytes before the dots makes the field one byte too wide. -/
def cutLate : FX :=
  .ite .gt .lenS .w (.ret (.cat (.sliceTo .s (.sub .w (.lit 2))) (.lit [46, 46, 46])))
    (.ite .gt (.sub .w .lenS) (.lit 0) (.ret (.cat (.rep .pad (.sub .w .lenS)) .s)) (.ret .s))

example : cutLate.eval [97, 98, 99, 100, 101, 102] [32] 5 = some [97, 98, 99, 46, 46, 46] ∧
    fixLen [97, 98, 99, 100, 101, 102] 32 5 = [97, 98, 46, 46, 46] := by decide

/-- `Max` with the comparison turned round is `min`. -/
example : (IE.ite .lt .x .y .x .y).eval 7 5 = some 5 ∧ max (7 : Int) 5 = 7 := by decide

#print axioms gen_string_no_opaque
#print axioms gen_string_canon
#print axioms gen_minmax_semantics
#print axioms gen_fix_semantics
#print axioms gen_fix_panics
#print axioms gen_type_letters
#print axioms render_stringPieces
#print axioms canon_output
#print axioms gen_string_semantics
#print axioms gen_string_lines

end QF.Props.C09StringGen
