import QF.Gen.SetFunc
/-!
# C07 — the gate keeper of user functions files every function under its operand type (regenerated)

`Gen.setFuncTable` is read off the type switch of `Context.SetFunc` in today's source (go/cmd/extract/sfast.go), with the
wiring of `setFunc` and the fields `GetFunc` reads. Eval looks a function up under the *column's* type and the number of
operands (`getFunc` in expression.go → `ctx.GetFunc(typ, ac, name)`, regenerated in `C07EvalGen`); so a user function is
found for the columns it can be applied to exactly when the table files it under the kind of its own parameters and their
number, `setFunc` stores it there, and `GetFunc` reads the same place. These are finite statements about today's table.
-/
namespace QF.Props.C07SetFunc
open QF

def typeOf : String → Option String
  | "int" => some "FunctionTypeInt"
  | "float" => some "FunctionTypeFloat"
  | "bool" => some "FunctionTypeBool"
  | "string" => some "FunctionTypeString"
  | _ => none

def countOf : Nat → Option String
  | 1 => some "ArgCountOne"
  | 2 => some "ArgCountTwo"
  | _ => none

/-- an entry is filed correctly: all parameters of one kind, that kind's function type, the parameter count -/
def entryOk (e : List String × String × String × String) : Bool :=
  match e with
  | (ps, r, ac, ty) =>
    match ps.head? with
    | none => false
    | some k => ps.all (· == k) && typeOf k == some ty && countOf ps.length == some ac && (typeOf r).isSome

/-- no text the translator did not understand: every word of the generated data is one of the words it emits for
understood code (anything else is printed as `opaque:<source text>`) -/
def vocabulary : List String :=
  ["int", "float", "bool", "string", "ArgCountOne", "ArgCountTwo", "FunctionTypeInt", "FunctionTypeFloat", "FunctionTypeBool",
   "FunctionTypeString", "typ<-typVar", "typ<-acVar", "ac<-acVar", "ac<-typVar", "name<-nameParam", "name<-fnParam", "fn<-fnParam",
   "fn<-nameParam", "ArgCountOne:field0", "ArgCountOne:field1", "ArgCountTwo:field0", "ArgCountTwo:field1", "else:field0", "else:field1"]

theorem gen_setfunc_no_opaque :
    (Gen.setFuncTable.all (fun e => e.1.all vocabulary.contains && vocabulary.contains e.2.1 && vocabulary.contains e.2.2.1 && vocabulary.contains e.2.2.2)
      && Gen.setFuncWiring.all vocabulary.contains && Gen.setFuncStore.all vocabulary.contains
      && Gen.getFuncLoad.all vocabulary.contains) = true := by decide

/-- **every accepted signature is filed under the kind and number of its own parameters** -/
theorem gen_setfunc_files_by_operand : Gen.setFuncTable.all entryOk = true := by decide

/-- the signatures Eval can apply (Apply1/Apply2 of the column packages accept exactly these: one operand to any of the four
result kinds, two operands to the same kind) are all accepted: 4 kinds × (4 one-operand + 1 two-operand) -/
def wanted : List (List String × String) :=
  ["int", "float", "bool", "string"].flatMap fun k =>
    ([k, k], k) :: ["int", "float", "bool", "string"].map fun r => ([k], r)

theorem gen_setfunc_complete : wanted.all (fun w => Gen.setFuncTable.any (fun e => e.1 == w.1 && e.2.1 == w.2)) = true := by decide

/-- … and nothing else is (no signature is listed twice, none outside `wanted`) -/
theorem gen_setfunc_exact :
    (Gen.setFuncTable.all (fun e => wanted.any (fun w => e.1 == w.1 && e.2.1 == w.2)) && Gen.setFuncTable.length == wanted.length) = true := by decide

/-- whatever is not in the table is refused with an error -/
theorem gen_setfunc_default_is_error : Gen.setFuncDefaultIsError = true := by decide

/-- `SetFunc` hands type, count, name and function to the parameters of `setFunc` that play these roles -/
theorem gen_setfunc_wiring : Gen.setFuncWiring = ["typ<-typVar", "ac<-acVar", "name<-nameParam", "fn<-fnParam"] := by decide

/-- `GetFunc` reads, per argument count, the field `setFunc` writes, and the two counts use different fields -/
theorem gen_setfunc_store_load :
    Gen.setFuncStore = Gen.getFuncLoad ∧ Gen.setFuncStore = ["ArgCountOne:field0", "else:field1"] := by decide

/-- Consequence used by C07: a function registered with signature `ps → r` is found by a look-up under `(typ, ac)` iff
`typ` is the kind of its operands and `ac` their number. -/
def filedUnder (ps : List String) (r : String) : Option (String × String) :=
  (Gen.setFuncTable.find? (fun e => e.1 == ps && e.2.1 == r)).map (fun e => (e.2.2.2, e.2.2.1))

theorem gen_setfunc_lookup (k r : String) (hk : k ∈ ["int", "float", "bool", "string"]) (hr : r ∈ ["int", "float", "bool", "string"]) :
    filedUnder [k] r = (typeOf k).map (fun t => (t, "ArgCountOne")) ∧
    filedUnder [k, k] k = (typeOf k).map (fun t => (t, "ArgCountTwo")) := by
  simp only [List.mem_cons, List.not_mem_nil, or_false] at hk hr
  rcases hk with rfl | rfl | rfl | rfl <;> rcases hr with rfl | rfl | rfl | rfl <;> decide

/-! Witnesses: the transposition of seed C07-8 (`func(int) bool` filed under Bool, `func(bool) int` under Int) and a
count slip violate `entryOk`. -/
example : entryOk (["int"], "bool", "ArgCountOne", "FunctionTypeBool") = false := by decide
example : entryOk (["bool"], "int", "ArgCountOne", "FunctionTypeInt") = false := by decide
example : entryOk (["int", "int"], "int", "ArgCountOne", "FunctionTypeInt") = false := by decide
example : entryOk (["int"], "bool", "ArgCountOne", "FunctionTypeInt") = true := by decide

end QF.Props.C07SetFunc
