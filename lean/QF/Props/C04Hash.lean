import QF.Props.C03Compare
import QF.Props.C04Spec
import QF.Core.F64Lemmas
import QF.Gen.Hash
/-!
# C04 / C05 — the row hashes of today's source agree on rows that compare Equal (tie T1, by semantics)

GroupBy and Distinct find the group of a row in a hash table (internal/grouper): `table.hash` folds `Comparable.Hash`
over the key columns, `insertEntry` probes the entries with that hash and `equals` (C03Compare:
`grouper_equals_eq_rowKeyEq`) decides. The table is only correct if rows that `equals` identifies hash equal — otherwise
two equal keys land in different probe sequences and open two groups.

`QF.Gen.hashAst` (regenerated on every run by go/cmd/extract/hast.go) holds `Comparable.Hash` of each of the five column
packages as a term of `QF.HE`; `HE.eval` (QF/Core/HExpr.lean) is its Go meaning, with `hash.HashBytes` an arbitrary
function `H` of (bytes, seed) and every `rand.Uint64()` an arbitrary value. This file proves, for the terms generated
TODAY:

* `gen_hash_no_opaque`           — `Hash` of every package was translated completely
* `gen_hash_total`               — it returns a value on every cell of the column's type
* `gen_hash_respects_equality`   — for every column type, both settings of `equalNull`, every `H`, seed and random values,
                                   and ALL cells `x`, `y` of the type: if today's comparator `Comparable(false, equalNull,
                                   false)` (what GroupBy / Distinct use) says `Equal` for (`x`, `y`), the two hashes are
                                   the same value
* `grouper_hash_respects_rowKeyEq` — grouper.go's `table.hash` over today's hash functions of the key columns gives the
                                   same value on two rows with `rowKeyEq`

Method (as in C03Compare): `decide` shows that each generated term IS the canonical term of its type (`gen_hash_canon`);
`canon_hash_eq` gives the meaning of the canonical terms on every pair of cells, once and for all. The `random` branch is
reached only for a null cell under ¬equalNull, which compares `Equal` to nothing.
-/
namespace QF.Props.C04Hash
open QF QF.Props.C03Compare

abbrev HashFn := List UInt8 → UInt64 → UInt64

/-- `Comparable(fl).Hash(i, seed)` for the given translations, on the cell `x` at `i` -/
def hashIn (asts : List (String × HE)) (progs : List (String × List FStmt)) (H : HashFn) (rnd : UInt64) (ty : CType)
    (vals : List Bytes) (fl : CFlags) (x : Cell) (seed : UInt64) : Option UInt64 :=
  match asts.lookup (pkgOf ty), (progs.lookup (pkgOf ty)).bind (fun p => runFields p fl) with
  | some h, some F => h.eval H rnd ty vals F x seed
  | _, _ => none

/-- … for today's source -/
def genHash (H : HashFn) (rnd : UInt64) (ty : CType) (vals : List Bytes) (fl : CFlags) (x : Cell) (seed : UInt64) :
    Option UInt64 :=
  hashIn Gen.hashAst Gen.comparableFields H rnd ty vals fl x seed

/-! ## Canonical terms -/

/-- `c.equalNullValue == column.NotEqual` -/
def nullsDiffer : HCond := .fieldEq .equalNull .notEqual

def canonHash : CType → HE
  | .int => .hashBytes .rawInt
  | .float => .ite (.and .isNaN nullsDiffer) .random (.hashBytes (.floatBits true true))
  | .bool => .ite .isTrue (.hashBytes (.oneByte 1)) (.hashBytes (.oneByte 0))
  | .string => .ite .isNull (.ite nullsDiffer .random (.hashBytes (.oneByte 0))) (.hashBytes .strBytes)
  | .enum => .hashBytes .enumCode
  | .undef => .opaque ""

/-! ## Today's terms are the canonical ones (finite checks over `QF.Gen`, redone on every run) -/

theorem gen_hash_canon : ∀ ty ∈ tys, Gen.hashAst.lookup (pkgOf ty) = some (canonHash ty) := by
  decide

/-- `Hash` of each of the five packages was found and does not translate to (a term containing) `.opaque`. -/
theorem gen_hash_no_opaque :
    Gen.hashAst.map (·.1) = tys.map pkgOf ∧ (∀ p ∈ Gen.hashAst, p.2.hasOpaque = false) := by
  decide

theorem genHash_eq_canon {ty : CType} (hty : ty ∈ tys) (H : HashFn) (rnd : UInt64) (vals : List Bytes) (e : Bool)
    (x : Cell) (seed : UInt64) :
    genHash H rnd ty vals ⟨false, e, false⟩ x seed =
      (canonHash ty).eval H rnd ty vals (canonFields ⟨false, e, false⟩) x seed := by
  have hb : ∀ b : Bool, b ∈ [false, true] := by intro b; cases b <;> simp
  have h1 := gen_hash_canon ty hty
  have h2 := gen_fields_canon ty hty false (hb _) e (hb _) false (hb _)
  unfold genHash hashIn
  rw [h1, h2]

/-! ## The meaning of the canonical terms, once and for all -/

theorem canonFloat_nan {a : UInt64} (h : F64.isNaN a = true) : canonFloat true true a = F64.canonNaN := by
  simp [canonFloat, F64.eq, h]

/-- non-NaN floats with the same order key (equal, or the two zeros) have the same canonical bits -/
theorem canonFloat_key {a b : UInt64} (ha : F64.isNaN a = false) (hb : F64.isNaN b = false) (h : F64.key a = F64.key b) :
    canonFloat true true a = canonFloat true true b := by
  have hz : F64.isNaN 0 = false := by decide
  by_cases h0 : F64.key a = 0
  · have h0' : F64.key b = 0 := by rw [← h]; exact h0
    simp [canonFloat, F64.eq, ha, hb, hz, F64.key_zero, h0, h0']
  · have := F64.key_inj h h0
    subst this
    rfl

theorem res_eq_ne : (CRes.equal == CRes.notEqual) = false := by decide

theorem bool_toNat_inj {a b : Bool} (h : a.toNat = b.toNat) : a = b := by
  cases a <;> cases b <;> simp_all

/-- The canonical hash terms give the same value on two cells of the type that the spec's key equality identifies. -/
theorem canon_hash_eq (c : LCol) (hty : c.ty ∈ tys) (e : Bool) (H : HashFn) (seed rx ry : UInt64) (x y : Cell)
    (hx : wtCell c.ty c.vals x = true) (hy : wtCell c.ty c.vals y = true) (hk : keyEq e c x y = true) :
    ∃ h, (canonHash c.ty).eval H rx c.ty c.vals (canonFields ⟨false, e, false⟩) x seed = some h ∧
         (canonHash c.ty).eval H ry c.ty c.vals (canonFields ⟨false, e, false⟩) y seed = some h := by
  rw [C04Spec.keyEq_true_iff] at hk
  cases h : c.ty <;> rw [h] at hx hy hty
  · -- int
    cases x <;> simp [wtCell, cellVal] at hx
    cases y <;> simp [wtCell, cellVal] at hy
    rename_i a b
    rcases hk with ⟨hn, _, _⟩ | ⟨_, _, hc⟩
    · simp [Cell.isNull] at hn
    · obtain ⟨k, h1, h2⟩ := (C04Spec.cellCmp_eq_iff c _ _).mp hc
      simp only [C04Spec.ckey] at h1 h2
      have : a = b := by rw [← h2] at h1; simpa using h1
      subst this
      exact ⟨_, rfl, rfl⟩
  · -- float
    cases x <;> simp [wtCell, cellVal] at hx
    cases y <;> simp [wtCell, cellVal] at hy
    rename_i a b
    rcases hk with ⟨ha, hb, he⟩ | ⟨ha, hb, hc⟩
    · simp only [Cell.isNull] at ha hb
      subst he
      refine ⟨H (le8 F64.canonNaN.toNat) seed, ?_, ?_⟩ <;>
      simp [canonHash, nullsDiffer, HE.eval, HCond.eval, HB.eval, nanOf, canonFields, CFields.get, res_eq_ne, ha, hb, canonFloat_nan]
    · simp only [Cell.isNull] at ha hb
      obtain ⟨k, h1, h2⟩ := (C04Spec.cellCmp_eq_iff c _ _).mp hc
      simp only [C04Spec.ckey, ha, hb] at h1 h2
      have hkey : F64.key a = F64.key b := by rw [← h2] at h1; simpa using h1
      refine ⟨H (le8 (canonFloat true true b).toNat) seed, ?_, ?_⟩ <;>
      simp [canonHash, nullsDiffer, HE.eval, HCond.eval, HB.eval, nanOf, ha, hb, canonFloat_key ha hb hkey]
  · -- bool
    cases x <;> simp [wtCell, cellVal] at hx
    cases y <;> simp [wtCell, cellVal] at hy
    rename_i a b
    rcases hk with ⟨hn, _, _⟩ | ⟨_, _, hc⟩
    · simp [Cell.isNull] at hn
    · obtain ⟨k, h1, h2⟩ := (C04Spec.cellCmp_eq_iff c _ _).mp hc
      simp only [C04Spec.ckey] at h1 h2
      have : a = b := by
        apply bool_toNat_inj
        rw [← h2] at h1
        simp at h1
        omega
      subst this
      cases a <;> simp [canonHash, HE.eval, HCond.eval, HB.eval, trueOf]
  · -- string
    rcases x with _ | _ | _ | s <;> simp [wtCell, cellVal] at hx
    rcases y with _ | _ | _ | t <;> simp [wtCell, cellVal] at hy
    rcases hk with ⟨ha, hb, he⟩ | ⟨ha, hb, hc⟩
    · rcases s with _ | u <;> simp [Cell.isNull] at ha
      rcases t with _ | v <;> simp [Cell.isNull] at hb
      subst he
      refine ⟨H [0] seed, ?_, ?_⟩ <;>
      simp [canonHash, nullsDiffer, HE.eval, HCond.eval, HB.eval, nullOf, canonFields, CFields.get, res_eq_ne]
    · rcases s with _ | u <;> simp [Cell.isNull] at ha
      rcases t with _ | v <;> simp [Cell.isNull] at hb
      obtain ⟨k, h1, h2⟩ := (C04Spec.cellCmp_eq_iff c _ _).mp hc
      simp only [C04Spec.ckey, h] at h1 h2
      have : u = v := by rw [← h2] at h1; simpa using h1
      subst this
      refine ⟨H u seed, ?_, ?_⟩ <;> simp [canonHash, HE.eval, HCond.eval, HB.eval, nullOf]
  · -- enum
    rcases x with _ | _ | _ | s
    · simp [wtCell, cellVal] at hx
    · simp [wtCell, cellVal] at hx
    · simp [wtCell, cellVal] at hx
    rcases y with _ | _ | _ | t
    · simp [wtCell, cellVal] at hy
    · simp [wtCell, cellVal] at hy
    · simp [wtCell, cellVal] at hy
    rcases hk with ⟨ha, hb, he⟩ | ⟨ha, hb, hc⟩
    · rcases s with _ | u <;> simp [Cell.isNull] at ha
      rcases t with _ | v <;> simp [Cell.isNull] at hb
      refine ⟨H [255] seed, ?_, ?_⟩ <;> simp [canonHash, HE.eval, HB.eval, cellVal, enumNull]
    · rcases s with _ | u <;> simp [Cell.isNull] at ha
      rcases t with _ | v <;> simp [Cell.isNull] at hb
      obtain ⟨i, hi, hil⟩ := enum_ok hx
      obtain ⟨j, hj, hjl⟩ := enum_ok hy
      obtain ⟨k, h1, h2⟩ := (C04Spec.cellCmp_eq_iff c _ _).mp hc
      simp only [C04Spec.ckey, h, hi, hj] at h1 h2
      have : i = j := by rw [← h2] at h1; simp at h1; omega
      subst this
      refine ⟨H [UInt8.ofNat i] seed, ?_, ?_⟩ <;> simp [canonHash, HE.eval, HB.eval, cellVal, enumNull, hi, hj, hil]
  · simp [tys] at hty

/-- The canonical hash terms have a value on every cell of the type. -/
theorem canon_hash_total (ty : CType) (hty : ty ∈ tys) (vals : List Bytes) (e : Bool) (H : HashFn) (seed rnd : UInt64)
    (x : Cell) (hx : wtCell ty vals x = true) :
    ((canonHash ty).eval H rnd ty vals (canonFields ⟨false, e, false⟩) x seed).isSome = true := by
  cases ty
  · cases x <;> simp [wtCell, cellVal] at hx
    simp [canonHash, HE.eval, HB.eval]
  · cases x <;> simp [wtCell, cellVal] at hx
    rename_i a
    cases ha : F64.isNaN a <;> cases e <;>
    simp [canonHash, nullsDiffer, HE.eval, HCond.eval, HB.eval, nanOf, canonFields, CFields.get, res_eq_ne, ha]
  · cases x <;> simp [wtCell, cellVal] at hx
    rename_i a
    cases a <;> simp [canonHash, HE.eval, HCond.eval, HB.eval, trueOf]
  · rcases x with _ | _ | _ | (_ | u) <;> simp [wtCell, cellVal] at hx
    · cases e <;> simp [canonHash, nullsDiffer, HE.eval, HCond.eval, HB.eval, nullOf, canonFields, CFields.get, res_eq_ne]
    · simp [canonHash, HE.eval, HCond.eval, HB.eval, nullOf]
  · rcases x with _ | _ | _ | (_ | u)
    · simp [wtCell, cellVal] at hx
    · simp [wtCell, cellVal] at hx
    · simp [wtCell, cellVal] at hx
    · simp [canonHash, HE.eval, HB.eval, cellVal]
    · obtain ⟨i, hi, hil⟩ := enum_ok hx
      simp [canonHash, HE.eval, HB.eval, cellVal, enumNull, hi, hil]
  · simp [tys] at hty

/-! ## Today's hash functions -/

/-- Today's `Hash` returns a value on every cell of the column's type (it has a meaning in the model; in Go: no index
out of range, no nil dereference). -/
theorem gen_hash_total (ty : CType) (hty : ty ∈ tys) (vals : List Bytes) (equalNull : Bool) (H : HashFn)
    (seed rnd : UInt64) (x : Cell) (hx : wtCell ty vals x = true) :
    (genHash H rnd ty vals ⟨false, equalNull, false⟩ x seed).isSome = true := by
  rw [genHash_eq_canon hty]
  exact canon_hash_total ty hty vals equalNull H seed rnd x hx

/-- **Rows that compare Equal hash equal.** For every column type, both settings of `equalNull`, every `hash.HashBytes`
(`H`), every seed, whatever `rand.Uint64()` returns in the two calls (`rx`, `ry`), and ALL cells `x`, `y` of the type: if
today's `Comparable(false, equalNull, false).Compare` returns `Equal` on (`x`, `y`), today's `Hash` returns the same value
for `x` and for `y`. -/
theorem gen_hash_respects_equality (c : LCol) (hty : c.ty ∈ tys) (equalNull : Bool) (H : HashFn) (seed rx ry : UInt64)
    (x y : Cell) (hx : wtCell c.ty c.vals x = true) (hy : wtCell c.ty c.vals y = true)
    (heq : genCompare c.ty c.vals ⟨false, equalNull, false⟩ x y = some .equal) :
    ∃ h, genHash H rx c.ty c.vals ⟨false, equalNull, false⟩ x seed = some h ∧
         genHash H ry c.ty c.vals ⟨false, equalNull, false⟩ y seed = some h := by
  obtain ⟨r, hr, hiff⟩ := gen_compare_keyEq c hty equalNull x y hx hy
  rw [heq] at hr
  have hk : keyEq equalNull c x y = true := hiff.mp (Option.some.inj hr).symm
  rw [genHash_eq_canon hty, genHash_eq_canon hty]
  exact canon_hash_eq c hty equalNull H seed rx ry x y hx hy hk

/-- … stated with the spec's key equality -/
theorem gen_hash_respects_keyEq (c : LCol) (hty : c.ty ∈ tys) (gbNull : Bool) (H : HashFn) (seed rx ry : UInt64)
    (x y : Cell) (hx : wtCell c.ty c.vals x = true) (hy : wtCell c.ty c.vals y = true)
    (hk : keyEq gbNull c x y = true) :
    ∃ h, genHash H rx c.ty c.vals ⟨false, gbNull, false⟩ x seed = some h ∧
         genHash H ry c.ty c.vals ⟨false, gbNull, false⟩ y seed = some h := by
  rw [genHash_eq_canon hty, genHash_eq_canon hty]
  exact canon_hash_eq c hty gbNull H seed rx ry x y hx hy hk

/-! ## grouper.go: `table.hash` -/

/-- internal/grouper/grouper.go, `table.hash` before the truncation to `uint32` (`s` starts at 0; `rnd j` is what
`rand.Uint64()` yields if the `j`-th key column's `Hash` calls it):

    hashVal := uint64(0)
    for _, c := range t.comparables { hashVal = c.Hash(i, hashVal) }                       -/
def tableHash (H : HashFn) (gbNull : Bool) (rnd : Nat → UInt64) (i : Nat) : List LCol → Nat → UInt64 → Option UInt64
  | [], _, s => some s
  | c :: cs, j, s =>
    match genHash H (rnd j) c.ty c.vals ⟨false, gbNull, false⟩ c.cells[i]! s with
    | some s' => tableHash H gbNull rnd i cs (j + 1) s'
    | none => none

/-- grouper.go's `table.hash` over today's hash functions of the key columns returns the same value for two rows with
the spec's `rowKeyEq` (the rows `equals` identifies: `grouper_equals_eq_rowKeyEq`), whatever the random values. -/
theorem grouper_hash_respects_rowKeyEq (H : HashFn) (gbNull : Bool) (rx ry : Nat → UInt64) (keys : List LCol)
    (r1 r2 : Nat) (hk : ∀ c ∈ keys, rowsOk c r1 r2) (he : rowKeyEq gbNull keys r1 r2 = true) (j : Nat) (s : UInt64) :
    ∃ h, tableHash H gbNull rx r1 keys j s = some h ∧ tableHash H gbNull ry r2 keys j s = some h := by
  induction keys generalizing j s with
  | nil => exact ⟨s, rfl, rfl⟩
  | cons c cs ih =>
    have hc := hk c (by simp)
    simp only [rowKeyEq, List.all_cons, Bool.and_eq_true] at he
    obtain ⟨h, h1, h2⟩ := gen_hash_respects_keyEq c hc.1 gbNull H s (rx j) (ry j) _ _ hc.2.1 hc.2.2 he.1
    obtain ⟨h', h1', h2'⟩ := ih (fun k hk' => hk k (by simp [hk'])) (by simpa [rowKeyEq] using he.2) (j + 1) h
    exact ⟨h', by simp only [tableHash, h1, h1'], by simp only [tableHash, h2, h2']⟩

/-! ## Witnesses: the statement tells wrong hash functions apart -/

/-- a `HashBytes` that tells byte strings apart by their last byte -/
def lastByte : HashFn := fun bs _ => (bs.getLast?.getD 0).toUInt64

def posZero : UInt64 := 0
def negZero : UInt64 := 0x8000000000000000
def nan1 : UInt64 := 0x7ff8000000000001
def nan2 : UInt64 := 0x7ff80000000000ff

/-- `fcolumn`'s `Hash` without `if f == 0 { f = 0 }` hashes the raw bits … -/
def noZeroCanon : HE := .ite (.and .isNaN nullsDiffer) .random (.hashBytes (.floatBits false true))

/-- … +0.0 and -0.0 compare `Equal` (IEEE `==`) but differ in the sign bit, hence in the last byte hashed: a GroupBy on
such a column opens two groups for the key 0. -/
example :
    let c : LCol := { name := [], ty := .float, cells := #[] }
    let F := canonFields ⟨false, false, false⟩
    genCompare .float [] ⟨false, false, false⟩ (.float posZero) (.float negZero) = some .equal ∧
    keyEq false c (.float posZero) (.float negZero) = true ∧
    noZeroCanon.eval lastByte 0 .float [] F (.float posZero) 0 = some 0 ∧
    noZeroCanon.eval lastByte 0 .float [] F (.float negZero) 0 = some 0x80 := by
  decide

/-- Dropping `if math.IsNaN(f) { f = math.NaN() }` instead: … -/
def noNaNCanon : HE := .ite (.and .isNaN nullsDiffer) .random (.hashBytes (.floatBits true false))

/-- … under `equalNull` (GroupBy with `groupByNull`) all NaNs compare `Equal`, but NaNs with different payloads hash
their own bits. -/
example :
    let c : LCol := { name := [], ty := .float, cells := #[] }
    let F := canonFields ⟨false, true, false⟩
    genCompare .float [] ⟨false, true, false⟩ (.float nan1) (.float nan2) = some .equal ∧
    keyEq true c (.float nan1) (.float nan2) = true ∧
    noNaNCanon.eval (fun bs _ => (bs.headD 0).toUInt64) 0 .float [] F (.float nan1) 0 = some 0x01 ∧
    noNaNCanon.eval (fun bs _ => (bs.headD 0).toUInt64) 0 .float [] F (.float nan2) 0 = some 0xff := by
  decide

/-- What the translator emits when it does not understand the bytes hashed (say `[]byte(fmt.Sprint(f))`): the term is
reported by `hasOpaque` and has no value, so `gen_hash_total` / `gen_hash_respects_equality` fail on it. -/
example : (HE.hashBytes (.opaque "[]byte(fmt.Sprint(f))")).hasOpaque = true ∧
    (HE.hashBytes (.opaque "[]byte(fmt.Sprint(f))")).eval lastByte 0 .float [] (canonFields ⟨false, false, false⟩) (.float 0) 0 = none := by
  decide

end QF.Props.C04Hash
