import QF.Props.C04GrouperCanon
import QF.Core.GrouperMain
/-!
# C04 / C05 — the meaning of the canonical grouper terms, function by function (1: the leaves of the call graph)

Symbolic execution of the canonical terms of C04GrouperCanon (`canonFns`) in the semantics `GL.S.exec` / `GL.E.eval`
(QF/Core/GLExpr.lean): one lemma per statement form (`exec_*`; the loops keep their step functions folded so that loop
lemmas can be stated by induction), and then, bottom-up along the call graph,

* `call_max`, `call_pow2`, `call_initialSizeExp` (= `G.initialSizeExp`), `call_newTable` (= the mirror's empty table)
* `call_hash`    — `table.hash`: the comparables' hashes chained from 0, truncated to 32 bits (`hashOf cs i % 2^32`)
* `call_equals`  — `equals`: every comparable says `Equal` (`eqvOf cs i j`)

The mirror `G` (QF/Core/Grouper.lean) abstracts the comparables to `hash : Nat → Nat` and `eqv : Nat → Nat → Bool`; here
they are `hashOf cs` and `eqvOf cs` for the list `cs` of interface values. `encTbl` is the Go table a mirror table stands
for (an empty slot is the zero entry; `ix = []` is the nil slice).
-/
namespace QF.Props.C04GrouperGen
open QF QF.GL
set_option linter.unusedSimpArgs false
set_option linter.unusedVariables false

/-! ## The abstraction of `G` -/

/-- what `table.hash(i)` computes before the truncation to 32 bits: the `Hash` methods chained, starting from 0 -/
def hashOf (cs : List Cmp) (i : Nat) : Nat := cs.foldl (fun h c => c.hash i h % M64) 0

/-- `equals(comparables, i, j)` -/
def eqvOf (cs : List Cmp) (i j : Nat) : Bool := cs.all fun c => c.compare i j == CRes.equal

/-- the comparable that stands for an abstract hash function and key equality -/
def cmpOf (hash : Nat → Nat) (eqv : Nat → Nat → Bool) : Cmp :=
  { compare := fun i j => if eqv i j then .equal else .notEqual, hash := fun i _ => hash i }

def encEntry : Option G.Entry → Entry
  | none => {}
  | some e => { ix := if e.ix.isEmpty then none else some e.ix, hash := e.hash, firstPos := e.firstPos, occupied := true }

def encSlots (a : Array (Option G.Entry)) : List Entry := a.toList.map encEntry

/-- the statistics the table carries while it is filled (`GroupCount` and `LoadFactor` are set at the end of `groupIndex`) -/
def encStats (t : G.Tbl) : Stats :=
  { relocationCount := t.relocCount, relocationCollisions := t.relocCollisions, insertCollisions := t.insertCollisions }

/-- the statistics `groupIndex` returns -/
def finalStats (t : G.Tbl) : Stats :=
  { relocationCount := t.relocCount, relocationCollisions := t.relocCollisions, insertCollisions := t.insertCollisions,
    groupCount := t.groupCount, lfNum := t.lfNum, lfDen := t.lfDen }

def encTbl (cs : List Cmp) (collect : Bool) (t : G.Tbl) : Table :=
  { entries := encSlots t.slots, cmps := cs, stats := encStats t, lfNum := t.lfNum, lfDen := t.lfDen,
    groupCount := t.groupCount, collectIx := collect }

@[simp] theorem encTbl_entries (cs : List Cmp) (c : Bool) (t : G.Tbl) : (encTbl cs c t).entries = encSlots t.slots := rfl
@[simp] theorem encTbl_cmps (cs : List Cmp) (c : Bool) (t : G.Tbl) : (encTbl cs c t).cmps = cs := rfl
@[simp] theorem encTbl_stats (cs : List Cmp) (c : Bool) (t : G.Tbl) : (encTbl cs c t).stats = encStats t := rfl
@[simp] theorem encTbl_lfNum (cs : List Cmp) (c : Bool) (t : G.Tbl) : (encTbl cs c t).lfNum = t.lfNum := rfl
@[simp] theorem encTbl_lfDen (cs : List Cmp) (c : Bool) (t : G.Tbl) : (encTbl cs c t).lfDen = t.lfDen := rfl
@[simp] theorem encTbl_groupCount (cs : List Cmp) (c : Bool) (t : G.Tbl) : (encTbl cs c t).groupCount = t.groupCount := rfl
@[simp] theorem encTbl_collectIx (cs : List Cmp) (c : Bool) (t : G.Tbl) : (encTbl cs c t).collectIx = c := rfl

/-! ## Execution lemmas -/

/-- the environment of a function body run at call depth `n + 1` -/
abbrev env (F n : Nat) : Env := { call := callAt canonFns F n, fuel := F }

theorem callAt_succ (F n : Nat) (f : FnId) (fn : Fn) (h : canonFns.lookup f = some fn) (args : List Val) :
    callAt canonFns F (n+1) f args = runFn (env F n) fn args := by
  simp [callAt, h]

theorem set_apply (σ : Store) (v w : Var) (x : Val) : σ.set v x w = if w = v then some x else σ w := rfl

def stepOf (Γ : Env) (k v : Option Var) (body : S) (y : Val) (i : Nat) (σ : Store) : Out :=
  body.exec Γ (bindKV k v i y σ)

def condOf (Γ : Env) (c : E) (σ : Store) : Option Bool := asBool (c.eval Γ σ)
def execOf (Γ : Env) (s : S) (σ : Store) : Out := s.exec Γ σ

section exec
variable (Γ : Env) (σ : Store)
theorem exec_skip : S.skip.exec Γ σ = .next σ := rfl
theorem exec_block_nil : (S.block []).exec Γ σ = .next σ := rfl
theorem exec_block_cons (s : S) (ss : List S) :
    (S.block (s :: ss)).exec Γ σ = (match s.exec Γ σ with | .next σ' => (S.block ss).exec Γ σ' | r => r) := rfl
theorem exec_seq (a b : S) : (S.seq a b).exec Γ σ = (match a.exec Γ σ with | .next σ' => b.exec Γ σ' | r => r) := rfl
theorem exec_define (v : Var) (e : E) : (S.define v e).exec Γ σ = (match e.eval Γ σ with | some x => .next (σ.set v x) | none => .stuck) := rfl
theorem exec_define2 (v w : Var) (e : E) : (S.define2 v w e).exec Γ σ =
    (match e.eval Γ σ with | some (.pair x y) => .next ((σ.set v x).set w y) | _ => .stuck) := rfl
theorem exec_assign (v : Var) (e : E) : (S.assign v e).exec Γ σ = (match e.eval Γ σ with | some x => .next (σ.set v x) | none => .stuck) := rfl
theorem exec_setField (v : Var) (p : List Fld) (e : E) : (S.setField v p e).exec Γ σ =
    (match σ v, e.eval Γ σ with
     | some s, some x =>
       (match Val.updPath (fun old => if old.sameKind x then some x else none) s p with
        | some s' => .next (σ.set v s')
        | none => .stuck)
     | _, _ => .stuck) := rfl
theorem exec_incrField (v : Var) (p : List Fld) : (S.incrField v p).exec Γ σ =
    (match σ v with
     | some s => (match Val.updPath Val.succ s p with | some s' => .next (σ.set v s') | none => .stuck)
     | none => .stuck) := rfl
theorem exec_setPtrField (p : Var) (f : Fld) (e : E) : (S.setPtrField p f e).exec Γ σ =
    (match σ p, e.eval Γ σ with
     | some (.ptr (some (t, i))), some x =>
       (match σ t with
        | some (.tbl T) =>
          (match T.entries[i]? with
           | some en =>
             (match (Val.entry en).setField f x with
              | some (.entry en') => .next (σ.set t (.tbl { T with entries := T.entries.set i en' }))
              | _ => .stuck)
           | none => .stuck)
        | _ => .stuck)
     | _, _ => .stuck) := rfl
theorem exec_setAt (a : Var) (i e : E) : (S.setAt a i e).exec Γ σ =
    (match σ a, i.eval Γ σ, e.eval Γ σ with
     | some (.entries l), some y, some (.entry en) =>
       (match y.toZ with
        | some n => if n < 0 ∨ (l.length : Int) ≤ n then .stuck else .next (σ.set a (.entries (l.set n.toNat en)))
        | none => .stuck)
     | _, _, _ => .stuck) := rfl
theorem exec_ite (c : E) (t e : S) : (S.ite c t e).exec Γ σ =
    (match c.eval Γ σ with
     | some (.bool true) => t.exec Γ σ
     | some (.bool false) => e.exec Γ σ
     | _ => .stuck) := rfl
theorem exec_range (xs : E) (k v : Option Var) (body : S) : (S.range xs k v body).exec Γ σ =
    (match xs.eval Γ σ with
     | some x => (match x.elems with | some l => loop (stepOf Γ k v body) l 0 σ | none => .stuck)
     | none => .stuck) := rfl
theorem exec_for (init : S) (cond : E) (post body : S) : (S.for init cond post body).exec Γ σ =
    (match init.exec Γ σ with
     | .next σ' => forLoop (condOf Γ cond) (execOf Γ body) (execOf Γ post) Γ.fuel σ'
     | _ => .stuck) := rfl
theorem exec_brk : S.brk.exec Γ σ = .brk σ := rfl
theorem exec_callMut (f : FnId) (r : Var) (args : List E) : (S.callMut f r args).exec Γ σ =
    (match σ r, evalArgs Γ σ args with
     | some x, some xs =>
       (match Γ.call f (x :: xs) with
        | some (_, some x') => .next (σ.set r x')
        | _ => .stuck)
     | _, _ => .stuck) := rfl
theorem exec_ret (e : E) : (S.ret e).exec Γ σ = (match e.eval Γ σ with | some x => .ret x σ | none => .stuck) := rfl
end exec

/-- symbolic execution of the statement forms (loops stay folded) and of expressions -/
macro "exec_simp" " [" ts:Lean.Parser.Tactic.simpLemma,* "]" loc:(Lean.Parser.Tactic.location)? : tactic =>
  `(tactic| simp [exec_block_nil, exec_block_cons, exec_skip, exec_seq, exec_define, exec_define2, exec_assign, exec_setField,
      exec_incrField, exec_setPtrField, exec_setAt, exec_ite, exec_range, exec_for, exec_brk, exec_callMut, exec_ret, E.eval, evalArgs,
      bindArgs, bindKV, Store.setOpt, set_apply, Val.isNil, Val.len, Val.elems, Val.at, Val.field, Val.setField, Val.updPath, Val.succ,
      Val.sameKind, Val.compare, Val.arith, Val.toZ, COp.nat, COp.int, AOp.nat, AOp.int, loop, asBool, $ts,*] $(loc)?)

theorem M32_eq : M32 = 4294967296 := rfl
theorem M64_eq : M64 = 18446744073709551616 := rfl

theorem look_grow : canonFns.lookup .grow = some fnGrow := by decide
theorem look_hash : canonFns.lookup .hash = some fnHash := by decide
theorem look_insertEntry : canonFns.lookup .insertEntry = some fnInsertEntry := by decide
theorem look_newTable : canonFns.lookup .newTable = some fnNewTable := by decide
theorem look_equals : canonFns.lookup .equals = some fnEquals := by decide
theorem look_initialSizeExp : canonFns.lookup .initialSizeExp = some fnInitialSizeExp := by decide
theorem look_groupIndex : canonFns.lookup .groupIndex = some fnGroupIndex := by decide
theorem look_groupBy : canonFns.lookup .groupBy = some fnGroupBy := by decide
theorem look_distinct : canonFns.lookup .distinct = some fnDistinct := by decide
theorem look_max : canonFns.lookup .max = some fnMax := by decide
theorem look_pow2 : canonFns.lookup .pow2 = some fnPow2 := by decide

/-! ## `integer.Max`, `integer.Pow2`, `calculateInitialSizeExp`, `newTable` -/

theorem call_max (F n : Nat) (a b : Int) :
    callAt canonFns F (n+1) .max [.int a, .int b] = some (.int (max a b), some (.int a)) := by
  rw [callAt_succ F n _ _ look_max]
  by_cases h : b < a
  · exec_simp [runFn, fnMax, h]; omega
  · exec_simp [runFn, fnMax, h]; omega

theorem call_pow2 (F n : Nat) (e : Nat) (he : e ≤ 62) :
    callAt canonFns F (n+1) .pow2 [.int e] = some (.int ((2 ^ e : Nat) : Int), some (.int e)) := by
  rw [callAt_succ F n _ _ look_pow2]
  have h1 : ¬ ((e : Int) < 0) := by omega
  have h2 : ¬ (62 < (e : Int)) := by omega
  exec_simp [runFn, fnPow2, h1, h2]

theorem bitLen_eq (q : Nat) : bitLen q = if q = 0 then 0 else Nat.log2 q + 1 := rfl

/-- `calculateInitialSizeExp(n)` is the mirror's `G.initialSizeExp n` (for a length that fits `uint64`) -/
theorem call_initialSizeExp (F n : Nat) (len : Nat) (hlen : len < M64) :
    callAt canonFns F (n+2) .initialSizeExp [.int len] = some (.int (G.initialSizeExp len), some (.int len)) := by
  rw [callAt_succ F (n+1) _ _ look_initialSizeExp]
  have hm : ((len : Int) % (M64 : Int)).toNat = len := by
    have : (len : Int) % (M64 : Int) = len := Int.emod_eq_of_lt (by omega) (by exact_mod_cast hlen)
    rw [this]; simp
  have h4 : (len / 4) % M64 = len / 4 := Nat.mod_eq_of_lt (by unfold M64 at *; omega)
  have hcall := call_max F n (bitLen (len / 4)) 3
  have hmax : max ((bitLen (len / 4) : Nat) : Int) 3 = ((G.initialSizeExp len : Nat) : Int) := by
    unfold G.initialSizeExp; rw [bitLen_eq]; omega
  exec_simp [runFn, fnInitialSizeExp, hm, h4, hcall, hmax]

/-- `newTable(sizeExp, comparables, collectIx)` is the mirror's empty table of `2^sizeExp` slots -/
theorem call_newTable (F n : Nat) (e : Nat) (he : e ≤ 62) (cs : List Cmp) (collect : Bool) :
    callAt canonFns F (n+2) .newTable [.int e, .cmps cs, .bool collect] =
      some (.tbl (encTbl cs collect { slots := Array.replicate (2 ^ e) none }), some (.int e)) := by
  rw [callAt_succ F (n+1) _ _ look_newTable]
  have hcall := call_pow2 F n e he
  have h1 : ¬ ((2:Int)^e < 0) := by
    have := Int.natCast_nonneg (2^e)
    rw [Int.natCast_pow] at this
    simp at this ⊢
    omega
  have h2 : ((2:Int)^e).toNat = 2^e := by
    have : ((2:Int)^e) = ((2^e : Nat) : Int) := by simp
    rw [this, Int.toNat_natCast]
  exec_simp [runFn, fnNewTable, hcall, h1, h2, encTbl, encSlots, encStats, encEntry]

/-! ## `table.hash` -/

theorem hash_loop (Γ : Env) (i : Nat) (cs : List Cmp) : ∀ (j : Nat) (σ : Store) (h : Nat),
    σ 1 = some (.u32 i) → σ 2 = some (.u64 h) →
    ∃ σ', loop (stepOf Γ none (some 3) hashBody) (cs.map .cmp) j σ = .next σ' ∧ σ' 0 = σ 0 ∧
      σ' 2 = some (.u64 (cs.foldl (fun h c => c.hash i h % M64) h)) := by
  induction cs with
  | nil => intro j σ h _ h2; exact ⟨σ, rfl, rfl, by simpa using h2⟩
  | cons c cs ih =>
    intro j σ h h1 h2
    obtain ⟨σ', g1, g2, g3⟩ := ih (j+1) ((σ.set 3 (.cmp c)).set 2 (.u64 (c.hash i h % M64))) (c.hash i h % M64)
      (by simp [set_apply, h1]) (by simp [set_apply])
    refine ⟨σ', ?_, by simp [g2, set_apply], by simpa using g3⟩
    exec_simp [stepOf, h1, h2, g1]

/-- `t.hash(i)` = the chained hash, truncated to 32 bits; the table is not touched -/
theorem call_hash (F n : Nat) (T : Table) (i : Nat) :
    callAt canonFns F (n+1) .hash [.tbl T, .u32 i] = some (.u32 (hashOf T.cmps i % M32), some (.tbl T)) := by
  rw [callAt_succ F n _ _ look_hash]
  obtain ⟨σ', g1, g2, g3⟩ := hash_loop (env F n) i T.cmps 0
    (((Store.empty.set 0 (.tbl T)).set 1 (.u32 i)).set 2 (.u64 0)) 0 (by simp [set_apply]) (by simp [set_apply])
  simp [set_apply] at g2
  have hc : ((((List.foldl (fun h c => c.hash i h % M64) 0 T.cmps : Nat) : Int) % (M32 : Int)).toNat) = hashOf T.cmps i % M32 := by
    unfold hashOf
    omega
  exec_simp [runFn, fnHash, g1, g2, g3, hc]

/-! ## `equals` -/

theorem equals_loop (Γ : Env) (i k : Nat) (cs : List Cmp) : ∀ (j : Nat) (σ : Store),
    σ 1 = some (.u32 i) → σ 2 = some (.u32 k) →
    (eqvOf cs i k = false → ∃ σ', loop (stepOf Γ none (some 3) equalsBody) (cs.map .cmp) j σ = .ret (.bool false) σ' ∧ σ' 0 = σ 0) ∧
    (eqvOf cs i k = true → ∃ σ', loop (stepOf Γ none (some 3) equalsBody) (cs.map .cmp) j σ = .next σ' ∧ σ' 0 = σ 0) := by
  induction cs with
  | nil => intro j σ _ _; exact ⟨by simp [eqvOf], fun _ => ⟨σ, rfl, rfl⟩⟩
  | cons c cs ih =>
    intro j σ h1 h2
    have ih' := ih (j+1) (σ.set 3 (.cmp c)) (by simp [set_apply, h1]) (by simp [set_apply, h2])
    cases hc : (c.compare i k == CRes.equal)
    · have hne : (c.compare i k != CRes.equal) = true := by simp [bne, hc]
      constructor
      · intro _
        refine ⟨σ.set 3 (.cmp c), ?_, by simp [set_apply]⟩
        exec_simp [stepOf, h1, h2, hne]
      · intro h; simp [eqvOf, hc] at h
    · have hne : (c.compare i k != CRes.equal) = false := by simp [bne, hc]
      constructor
      · intro h
        have h' : eqvOf cs i k = false := by simpa [eqvOf, hc] using h
        obtain ⟨σ', g1, g2⟩ := ih'.1 h'
        exact ⟨σ', by exec_simp [stepOf, h1, h2, hne, g1], by simp [g2, set_apply]⟩
      · intro h
        have h' : eqvOf cs i k = true := by simpa [eqvOf, hc] using h
        obtain ⟨σ', g1, g2⟩ := ih'.2 h'
        exact ⟨σ', by exec_simp [stepOf, h1, h2, hne, g1], by simp [g2, set_apply]⟩

/-- `equals(comparables, i, j)`: every comparable answers `Equal` -/
theorem call_equals (F n : Nat) (cs : List Cmp) (i k : Nat) :
    callAt canonFns F (n+1) .equals [.cmps cs, .u32 i, .u32 k] = some (.bool (eqvOf cs i k), some (.cmps cs)) := by
  rw [callAt_succ F n _ _ look_equals]
  have hl := equals_loop (env F n) i k cs 0 (((Store.empty.set 0 (.cmps cs)).set 1 (.u32 i)).set 2 (.u32 k))
    (by simp [set_apply]) (by simp [set_apply])
  cases h : eqvOf cs i k
  · obtain ⟨σ', g1, g2⟩ := hl.1 h
    simp [set_apply] at g2
    exec_simp [runFn, fnEquals, g1, g2]
  · obtain ⟨σ', g1, g2⟩ := hl.2 h
    simp [set_apply] at g2
    exec_simp [runFn, fnEquals, g1, g2]

end QF.Props.C04GrouperGen
